#!/usr/bin/env python3
"""usage: tools/seedauto.py log...  — turns seedbatch logs into seeded/<id>/meta.json (only for seeds without a meta or with --force)."""
import re, sys, json, os
force = '--force' in sys.argv
logs = [a for a in sys.argv[1:] if not a.startswith('--')]
res = {}
for lg in logs:
    cur = None
    for line in open(lg):
        m = re.match(r'^--- (\S+) \((.*)\)', line)
        if m:
            cur = m.group(1); res.setdefault(cur, {}); continue
        if line.startswith('PATCH-DOES-NOT-APPLY') and cur:
            res[cur]['_patch'] = 'does not apply to the current tree'
        m = re.match(r'^(C\d+) quick: (\d+) theorems \((\d+) discharged\), (\d+) cases vs model \((\d+) mismatches\), (\d+) predicate checks, (\d+) known finding\(s\), (\d+) violation', line)
        if m and cur:
            res[cur][m.group(1)] = dict(cases=int(m.group(4)), mism=int(m.group(5)), viol=int(m.group(8)), nfif=False)
        m = re.match(r'^VIOLATION property=(C\d+) .*no-failing-input-found', line)
        if m and cur:
            res[cur].setdefault('_nfif', set()).add(m.group(1))
for sid, r in sorted(res.items()):
    d = os.path.join('/verif/seeded', sid)
    if not os.path.isdir(d):
        continue
    mp = os.path.join(d, 'meta.json')
    if os.path.exists(mp) and not force:
        continue
    prop = sid.split('-')[0]
    parts = []; caught = []; invalid = False
    for p, v in r.items():
        if p.startswith('_'):
            continue
        if v['cases'] == 0 and v['viol'] > 0:
            invalid = True
        nf = p in r.get('_nfif', set())
        if v['viol'] > 0:
            caught.append(p)
            parts.append("%s: %d VIOLATION line(s)%s, %d/%d model mismatches" % (p, v['viol'], " (no-failing-input-found)" if nf and v['viol'] == 1 else "", v['mism'], v['cases']))
        else:
            parts.append("%s: exit 0 (%d cases, %d mismatches)" % (p, v['cases'], v['mism']))
    if '_patch' in r:
        verdict = 'not run'; parts.append(r['_patch'])
    elif invalid:
        verdict = 'invalid run (driver did not start)'; 
    elif prop in caught:
        verdict = 'caught' + (' (no-failing-input-found)' if prop in r.get('_nfif', set()) and r[prop]['viol'] == 1 else '')
    elif caught:
        verdict = 'missed by %s, caught by %s' % (prop, ','.join(caught))
    else:
        verdict = 'missed'
    needs = "see notes.md in this directory (written by the seeding agent: what the change breaks and exactly what is needed to make it manifest)"
    meta = {"id": sid, "breaks_property": prop, "needs_to_manifest": needs,
            "confirmed_by": "tools/seedconfirm.sh: demo passes at HEAD, patch applies, `go1.26 build -overlay ./...` ok, existing suite passes, demo fails with the patch",
            "check_run": "tools/seedtest.sh seeded/%s/patch.diff %s (scratch copy of /repo via VERIF_REPO)" % (sid, ' '.join(p for p in r if not p.startswith('_'))),
            "check_verdict": verdict, "check_detail": '; '.join(parts),
            "origin": "independent sub-agent given only the property text and a scratch worktree"}
    json.dump(meta, open(mp, 'w'), indent=1)
    print(sid, verdict, '|', '; '.join(parts))
