#!/usr/bin/env python3
"""Regenerates docs/SEEDED.md from seeded/*/meta.json."""
import json, glob, os
rows = []
for p in sorted(glob.glob('/verif/seeded/*/meta.json')):
    m = json.load(open(p))
    rows.append(m)
out = ["# Seeded changes and which checks catch them", "",
       "Each change was written by an independent sub-agent that saw only the property text and a scratch worktree of /repo;",
       "each was confirmed by `tools/seedconfirm.sh` (demo passes at HEAD, patch applies, tree builds with the overlay, the",
       "existing suite passes, demo fails with the patch) and run through `tools/seedtest.sh` (scratch copy via VERIF_REPO).", "",
       "| Seed | Property | Needs to manifest | Verdict | Detail |", "|---|---|---|---|---|"]
for m in rows:
    out.append("| %s | %s | %s | **%s** | %s |" % (m['id'], m['breaks_property'], m['needs_to_manifest'].replace('|', '/'), m['check_verdict'], m['check_detail'].replace('|', '/')))
open('/verif/docs/SEEDED.md', 'w').write("\n".join(out) + "\n")
print(len(rows), "seeds")
