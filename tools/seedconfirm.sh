#!/bin/bash
# usage: tools/seedconfirm.sh <cxx> <A|B>
# Confirms a seeded change delivered in /tmp/seed/out/<cxx>/ against the scratch worktree /tmp/seed/<cxx>:
# demo passes at HEAD, patch applies, tree builds (overlay), existing suite passes, demo fails with the patch.
# On success copies it to /verif/seeded/<CXX>-<v>/.
set -u
id=$1; v=$2; CID=$(echo $id | tr a-z A-Z)
out=/tmp/seed/out/$id; wt=/tmp/seed/$id
export GOFLAGS=-mod=mod GOPROXY=off GOSUMDB=off GOTOOLCHAIN=local
# demo placement commands are sometimes written as comments: un-comment mkdir/cp lines
sed -E 's/^#[[:space:]]*((mkdir|cp) .*)$/\1/' $out/$v.cmd > $out/$v.cmd.run.sh
clean() { git -C $wt checkout -q -- . ; git -C $wt clean -fdq; }
clean
bash $out/$v.cmd.run.sh > /tmp/seed/$id.$v.head.log 2>&1; r_head=$?
clean
git -C $wt apply $out/$v.diff || { echo "$CID-$v: PATCH DOES NOT APPLY"; exit 2; }
(cd $wt && go1.26 build -overlay /tmp/seed/$id.overlay.json ./... ) > /tmp/seed/$id.$v.build.log 2>&1; r_build=$?
(cd $wt && go1.26 test -vet=off -count=1 ./errguard/... ./internal/... ./optgen/... ./sql/in_mem_table/... ./sql/planbuilder/dateparse/... ./sql/sqlredact/... ./enginetest/scriptgen/... ) > /tmp/seed/$id.$v.suite.log 2>&1; r_suite=$?
bash $out/$v.cmd.run.sh > /tmp/seed/$id.$v.patched.log 2>&1; r_patched=$?
clean
echo "$CID-$v: demo@HEAD exit=$r_head (want 0), build=$r_build (want 0), suite=$r_suite (want 0), demo@patched exit=$r_patched (want !=0)"
if [ $r_head -eq 0 ] && [ $r_build -eq 0 ] && [ $r_suite -eq 0 ] && [ $r_patched -ne 0 ]; then
  d=/verif/seeded/$CID-$v; mkdir -p $d
  cp $out/$v.diff $d/patch.diff; cp $out/$v.cmd.run.sh $d/demo.cmd
  for f in $out/${v}_demo* $out/${v}_*; do [ -e "$f" ] && cp -r "$f" $d/; done
  [ -f $out/notes.md ] && cp $out/notes.md $d/notes.md
  echo "CONFIRMED -> $d"
else
  echo "NOT CONFIRMED (logs /tmp/seed/$id.$v.*.log)"; exit 1
fi
