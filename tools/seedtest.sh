#!/bin/bash
# usage: tools/seedtest.sh <patch.diff> <Cxx> [<Cyy> ...]
# Applies a seeded change to a scratch copy of /repo (never to /repo itself), runs the named checks against the copy
# through VERIF_REPO, prints their verdicts, and removes the copy.
set -u
patch=$(readlink -f "$1"); shift
tmp=$(mktemp -d /tmp/vr-XXXXXX)
rsync -a --exclude .git /repo/ "$tmp"/
if ! (cd "$tmp" && patch -p1 -s < "$patch"); then echo "PATCH-DOES-NOT-APPLY $patch"; rm -rf "$tmp"; exit 2; fi
rc_all=0
for p in "$@"; do
  out=$(cd /verif && VERIF_REPO="$tmp" timeout 3600 ./check "$p" 2>&1); rc=$?
  echo "$out" | grep -E "^(VIOLATION|KNOWN-FINDING|$p )" | cut -c1-400
  echo "== $p exit=$rc"
  [ $rc -ne 0 ] && rc_all=1
done
h=$(echo -n "$tmp" | sha1sum | cut -c1-10)
rm -rf "$tmp" "/verif/.work/alt-$h"
exit $rc_all
