#!/usr/bin/env python3
"""usage: tools/seedmeta.py <CXX-v> <property> <needs> <detected: caught|missed|...> <detail>"""
import json, sys, os
sid, prop, needs, verdict, detail = sys.argv[1:6]
d = os.path.join("/verif/seeded", sid)
meta = {
 "id": sid, "breaks_property": prop,
 "needs_to_manifest": needs,
 "confirmed_by": "tools/seedconfirm.sh: demo passes at HEAD, patch applies, `go1.26 build -overlay ./...` ok, existing suite (162 tests' packages) passes, demo fails with the patch",
 "check_run": "tools/seedtest.sh seeded/%s/patch.diff %s  (scratch copy of /repo via VERIF_REPO)" % (sid, prop),
 "check_verdict": verdict, "check_detail": detail,
 "origin": "independent sub-agent given only the property text and a scratch worktree",
}
json.dump(meta, open(os.path.join(d, "meta.json"), "w"), indent=1)
print("wrote", d)
