#!/bin/bash
# usage: tools/seedsweep.sh "<seeds>" Cxx...   — runs each check under other seeds on /repo; evidence files are restored afterwards
seeds=$1; shift
for p in "$@"; do
  cp evidence/$p.json /tmp/ev.$p.bak 2>/dev/null
  for s in $seeds; do
    out=$(VERIF_SEED=$s timeout 3000 ./check $p 2>&1); rc=$?
    echo "$p seed=$s rc=$rc $(echo "$out" | grep -c '^VIOLATION') violations; $(echo "$out" | grep "^$p " | cut -c1-160)"
    echo "$out" | grep '^VIOLATION' | head -3
  done
  cp /tmp/ev.$p.bak evidence/$p.json 2>/dev/null
done
