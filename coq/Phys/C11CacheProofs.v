(* C11 — proofs about unkeyed plan-node caches and statement histories (model in C11Cache.v). *)
From Coq Require Import List ZArith NArith Bool Lia.
Import ListNotations.
From GMS Require Import Rel.C02Logical Rel.C02LogicalProofs Phys.C11Cache.

(* ---------- the cache is transparent exactly under the guard ---------- *)
Section Transparent.
  Context {B : Type}.
  Variables (sub : row -> res (list row)) (k : row -> list row -> res B) (exhausts : row -> list row -> bool).
  Hypothesis indep : outer_independent sub.

  (* invariant: an occupied cache holds what the subtree returns for every outer row *)
  Definition cache_ok (st : option (list row)) : Prop :=
    match st with None => True | Some c => forall r, sub r = Ok c end.

  Lemma loop_cached_transparent st outer :
    cache_ok st -> loop_cached sub k exhausts st outer = loop_uncached sub k outer.
  Proof.
    revert st. induction outer as [|r t IH]; intros st Hst; [reflexivity|].
    cbn [loop_cached loop_uncached mapM]. unfold cached_call. destruct st as [c|].
    - cbn [bind fst snd]. rewrite (Hst r). cbn [bind]. destruct (k r c) as [b|e]; [|reflexivity]. cbn [bind].
      rewrite (IH (Some c) Hst). reflexivity.
    - destruct (sub r) as [s|e] eqn:E; [|reflexivity]. cbn [bind fst snd].
      destruct (k r s) as [b|e]; [|reflexivity]. cbn [bind]. rewrite IH; [reflexivity|].
      destruct (exhausts r s); cbn; [|exact I]. intros r'. rewrite (indep r' r). exact E.
  Qed.

  Theorem cache_transparent outer :
    loop_cached sub k exhausts None outer = loop_uncached sub k outer.
  Proof. apply loop_cached_transparent. exact I. Qed.
End Transparent.

(* without the guard an unkeyed cache returns stale rows: the subtree "rows equal to the outer row" *)
Definition corr_sub (r : row) : res (list row) := Ok [r].
Definition id_k (_ : row) (s : list row) : res (list row) := Ok s.

Theorem cache_unsound_without_guard :
  exists (sub : row -> res (list row)) outer,
    loop_cached sub id_k (fun _ _ => true) None outer <> loop_uncached sub id_k outer.
Proof. exists corr_sub, [[VInt 1]; [VInt 2]]. vm_compute. discriminate. Qed.

(* a node that finalizes after a partial read (the parent stopped early) is unsound even under the guard *)
Fixpoint loop_eager {B} (sub : row -> res (list row)) (k : row -> list row -> res B) (readn : row -> list row -> nat)
         (st : option (list row)) (outer : list row) : res (list B) :=
  match outer with
  | [] => Ok []
  | r :: t =>
      do sc <- cached_call_eager sub readn st r;
      do b <- k r (fst sc);
      do bs <- loop_eager sub k readn (snd sc) t;
      Ok (b :: bs)
  end.

Theorem finalize_only_at_eof_needed :
  exists (sub : row -> res (list row)) readn outer,
    outer_independent sub /\
    loop_eager sub id_k readn None outer <> loop_uncached sub id_k outer.
Proof.
  exists (fun _ => Ok [[VInt 1]; [VInt 2]]), (fun _ _ => 1%nat), [[VInt 0]; [VInt 0]].
  split; [intros r r'; reflexivity|]. vm_compute. discriminate.
Qed.

(* ---------- the engine's two uses ---------- *)
Lemma mapM_ext_ok {A B} (f g : A -> res B) l bs :
  (forall x b, f x = Ok b -> g x = Ok b) -> mapM f l = Ok bs -> mapM g l = Ok bs.
Proof.
  intros H. revert bs. induction l as [|x t IH]; cbn; intros bs E; [assumption|].
  inv_bind E. inv_bind E. injection E as <-. rewrite (H _ _ Ha). cbn. rewrite (IH _ Ha0). reflexivity.
Qed.

(* WHERE a IN (q) with a result cache on q returns what the definition returns when q does not
   depend on the outer row (Subquery.canCacheResults: no correlated columns) *)
Theorem in_subquery_cache_transparent d en a q rows bs :
  (forall r r', eval_query d (r :: en) q = eval_query d (r' :: en) q) ->
  in_filter_plain d en a q rows = Ok bs ->
  in_filter_cached d en a q rows = Ok bs.
Proof.
  intros Hind H. unfold in_filter_cached. rewrite cache_transparent by exact Hind.
  unfold loop_uncached. unfold in_filter_plain in H. revert H. apply mapM_ext_ok.
  intros r b Hb. unfold holds in Hb. inv_bind Hb. inv_bind Hb. injection Hb as <-.
  apply eval_inq in Ha. destruct Ha as (x & S & ys & t & Hx & HS & Hys & Ht & ->).
  rewrite tri_of_val_of_tri in Ha0. injection Ha0 as <-.
  rewrite HS. cbn [bind]. rewrite Hx. cbn [bind]. rewrite Hys. cbn [bind]. rewrite Ht. reflexivity.
Qed.

(* a nested-loop join whose right child is a CachedResults node is the inner join of the definition when
   the right child does not depend on the left row *)
Theorem nlj_cache_transparent onf right L R :
  (forall l, right l = Ok R) ->
  nlj_cached onf right L = inner_join onf L R.
Proof.
  intros HR. unfold nlj_cached, inner_join. rewrite cache_transparent.
  - unfold loop_uncached. f_equal.
    assert (E : forall l0, mapM (fun r => do s <- right r; do ms <- filterM (fun r0 => onf (r ++ r0)) s; Ok (map (app r) ms)) l0 =
                           mapM (fun l => do ms <- filterM (fun r => onf (l ++ r)) R; Ok (map (app l) ms)) l0).
    { induction l0 as [|x t IH]; [reflexivity|]. cbn [mapM]. rewrite (HR x). cbn [bind]. rewrite IH. reflexivity. }
    rewrite E. reflexivity.
  - intros r r'. rewrite !HR. reflexivity.
Qed.

(* ---------- histories: no state crosses statements ---------- *)
Section Histories.
  Variable exec : db -> query -> res (list row).

  Lemma run_app st h1 h2 :
    run exec st (h1 ++ h2) =
    let '(st1, o1) := run exec st h1 in let '(st2, o2) := run exec st1 h2 in (st2, o1 ++ o2).
  Proof.
    revert st. induction h1 as [|o t IH]; intros st; cbn [app run].
    - destruct (run exec st h2). reflexivity.
    - destruct (step exec st o) as [st1 out]. rewrite IH.
      destruct (run exec st1 t) as [st2 o1]. destruct (run exec st2 h2) as [st3 o2].
      destruct out; reflexivity.
  Qed.

  Lemma step_db st o : sdb (fst (step exec st o)) = apply_dml o (sdb st).
  Proof. destruct o; reflexivity. Qed.

  Lemma run_db st h : sdb (fst (run exec st h)) = db_after (sdb st) h.
  Proof.
    revert st. induction h as [|o t IH]; intros st; [reflexivity|]. cbn [run db_after fold_left].
    destruct (step exec st o) as [st1 out] eqn:E. specialize (IH st1).
    destruct (run exec st1 t) as [st2 outs]. cbn [fst] in *. rewrite IH.
    replace (sdb st1) with (sdb (fst (step exec st o))) by (rewrite E; reflexivity).
    rewrite step_db. reflexivity.
  Qed.

  (* the result of a query depends on the history only through the current table contents *)
  Theorem no_cross_statement_state st h sid q :
    snd (run exec st (h ++ [OQuery sid q])) = snd (run exec st h) ++ [exec (db_after (sdb st) h) q].
  Proof.
    rewrite run_app. pose proof (run_db st h) as D. destruct (run exec st h) as [st1 o1]. cbn [fst] in D.
    cbn [run step snd]. rewrite D. reflexivity.
  Qed.

  (* a read-only query run twice in a row returns the same result *)
  Theorem deterministic_requery st h sid sid' q :
    exists r, snd (run exec st (h ++ [OQuery sid q; OQuery sid' q])) = snd (run exec st h) ++ [r; r].
  Proof.
    rewrite run_app. destruct (run exec st h) as [st1 o1]. cbn [run step snd]. eexists. reflexivity.
  Qed.

  Definition no_reprepare (sid n : nat) (h : list op) : bool :=
    forallb (fun o => match o with OPrepare s m _ => negb (Nat.eqb s sid && Nat.eqb m n) | _ => true end) h.

  Lemma lookup_preserved sid n q st h :
    lookup sid n (prepared st) = Some q -> no_reprepare sid n h = true ->
    lookup sid n (prepared (fst (run exec st h))) = Some q.
  Proof.
    revert st. induction h as [|o t IH]; intros st Hl Hn; [assumption|].
    cbn [no_reprepare forallb] in Hn. apply andb_prop in Hn. destruct Hn as [Ho Ht].
    cbn [run]. destruct (step exec st o) as [st1 out] eqn:E.
    assert (Hl1 : lookup sid n (prepared st1) = Some q).
    { destruct o; cbn in E; injection E as <- _; cbn; try assumption.
      apply negb_true_iff in Ho. rewrite Ho. assumption. }
    specialize (IH st1 Hl1 Ht). destruct (run exec st1 t) as [st2 outs]. exact IH.
  Qed.

  (* executing a prepared statement uses the data current at EXECUTE time, not at PREPARE time *)
  Theorem prepared_uses_current_data st h1 h2 sid n q :
    no_reprepare sid n h2 = true ->
    snd (run exec st (h1 ++ OPrepare sid n q :: h2 ++ [OExecute sid n])) =
    snd (run exec st (h1 ++ OPrepare sid n q :: h2)) ++ [exec (db_after (sdb st) (h1 ++ OPrepare sid n q :: h2)) q].
  Proof.
    intros Hn.
    replace (h1 ++ OPrepare sid n q :: h2 ++ [OExecute sid n]) with ((h1 ++ OPrepare sid n q :: h2) ++ [OExecute sid n])
      by (rewrite <- app_assoc; reflexivity).
    rewrite run_app. pose proof (run_db st (h1 ++ OPrepare sid n q :: h2)) as D.
    assert (L : lookup sid n (prepared (fst (run exec st (h1 ++ OPrepare sid n q :: h2)))) = Some q).
    { rewrite run_app. destruct (run exec st h1) as [sta oa].
      change (OPrepare sid n q :: h2) with ([OPrepare sid n q] ++ h2). rewrite run_app. cbn [run step].
      pose proof (lookup_preserved sid n q {| sdb := sdb sta; prepared := (sid, n, q) :: prepared sta |} h2) as P.
      cbn [prepared lookup] in P. rewrite !Nat.eqb_refl in P. specialize (P eq_refl Hn).
      destruct (run exec {| sdb := sdb sta; prepared := (sid, n, q) :: prepared sta |} h2) as [stb ob]. exact P. }
    destruct (run exec st (h1 ++ OPrepare sid n q :: h2)) as [st1 o1]. cbn [fst] in D, L.
    cbn [run step snd]. rewrite L, D. reflexivity.
  Qed.
End Histories.
