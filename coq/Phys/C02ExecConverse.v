(* C02 — converse of the refinement of C02ExecProofs.v: when the plan of a covered query returns rows, the
   definition assigns these rows to the query.  Together: plan and definition agree on every covered query,
   and the executor fails exactly when the definition raises an error (which error is not compared: the
   streaming group-by meets errors in another order than the definition). *)
From Coq Require Import List ZArith NArith Bool Lia Permutation Arith.
Import ListNotations.
From GMS Require Import Rel.C02Logical Rel.C02LogicalProofs Phys.C02Exec Phys.C02ExecProofs.
Open Scope Z_scope.

Lemma filterM_sub {A} (p p' : A -> res bool) l r : sub p p' -> filterM p l = Ok r -> filterM p' l = Ok r.
Proof.
  intros S. revert r. induction l as [|x t IH]; cbn; intros r H; [exact H|].
  inv_bind H. inv_bind H. injection H as <-. rewrite (S _ _ Ha). cbn. rewrite (IH _ Ha0). reflexivity.
Qed.

Lemma mapM_app {A B} (f : A -> res B) l1 l2 r1 r2 :
  mapM f l1 = Ok r1 -> mapM f l2 = Ok r2 -> mapM f (l1 ++ l2) = Ok (r1 ++ r2).
Proof.
  revert r1. induction l1 as [|x t IH]; cbn; intros r1 H1 H2.
  - injection H1 as <-. exact H2.
  - inv_bind H1. inv_bind H1. injection H1 as <-. rewrite Ha. cbn. rewrite (IH _ Ha0 H2). reflexivity.
Qed.

Lemma inner_join_sub p p' L R rows : sub p p' -> inner_join p L R = Ok rows -> inner_join p' L R = Ok rows.
Proof.
  intros S H. unfold inner_join in *. inv_bind H. injection H as <-.
  pose proof (fun S' => mapM_sub _ (fun l => do ms <- filterM (fun r => p' (l ++ r)) R; Ok (map (app l) ms)) L a S' Ha) as M.
  rewrite M; [reflexivity|]. intros l v Hl. inv_bind Hl. rewrite (filterM_sub _ (fun r => p' (l ++ r)) R a0 (fun x b Hb => S _ _ Hb) Ha0). exact Hl.
Qed.

Lemma outer_join_sub p p' (comb : row -> row -> row) pad L R rows :
  sub p p' -> outer_join p comb pad L R = Ok rows -> outer_join p' comb pad L R = Ok rows.
Proof.
  intros S H. unfold outer_join in *. inv_bind H. injection H as <-.
  pose proof (fun S' => mapM_sub _ (fun o => do ms <- filterM (fun i => p' (comb o i)) R;
                                Ok (match ms with [] => [pad o] | _ => map (comb o) ms end)) L a S' Ha) as M.
  rewrite M; [reflexivity|]. intros l v Hl. inv_bind Hl. rewrite (filterM_sub _ (fun i => p' (comb l i)) R a0 (fun x b Hb => S _ _ Hb) Ha0). exact Hl.
Qed.

(* ---------- aggregation buffers: an error of the definition's aggregate is an error of the buffer ---------- *)
Lemma sum_stream_err args : forall isnil acc e,
  fold_left sum_step (non_null args) (Ok acc) = Err e ->
  exists e', foldM (buf_update ASum) args (BSum isnil acc) = Err e'.
Proof.
  induction args as [|v t IH]; intros isnil acc e H; [discriminate|].
  rewrite non_null_cons in H. cbn [foldM buf_update]. destruct (is_null v) eqn:N.
  - cbn [bind]. eapply IH. exact H.
  - cbn [fold_left] in H. unfold sum_step at 2 in H. cbn [bind] in H. destruct (num_of v) as [x|].
    + cbn [bind]. eapply IH. exact H.
    + cbn [bind]. eauto.
Qed.

Lemma avg_stream_err args : forall acc n e,
  fold_left sum_step (non_null args) (Ok acc) = Err e ->
  exists e', foldM (buf_update AAvg) args (BAvg acc n) = Err e'.
Proof.
  induction args as [|v t IH]; intros acc n e H; [discriminate|].
  rewrite non_null_cons in H. cbn [foldM buf_update]. destruct (is_null v) eqn:N.
  - cbn [bind]. eapply IH. exact H.
  - cbn [fold_left] in H. unfold sum_step at 2 in H. cbn [bind] in H. destruct (num_of v) as [x|].
    + cbn [bind]. eapply IH. exact H.
    + cbn [bind]. eauto.
Qed.

Lemma ext_stream_err f want args :
  (forall cur v, buf_update f (BExt cur) v = ext_update want cur v) ->
  forall a e, fold_left (pick_step want) (non_null args) (Ok a) = Err e ->
              exists e', foldM (buf_update f) args (BExt (Some a)) = Err e'.
Proof.
  intros Hf. induction args as [|v t IH]; intros a e H; [discriminate|].
  rewrite non_null_cons in H. cbn [foldM]. rewrite Hf. unfold ext_update. destruct (is_null v) eqn:N.
  - cbn [bind]. eapply IH. exact H.
  - cbn [fold_left] in H. unfold pick_step at 2 in H. cbn [bind] in H. destruct (cmp_nn v a) as [c|e0].
    + cbn [bind] in *. eapply IH. exact H.
    + cbn [bind]. eauto.
Qed.

Lemma ext_lead_err f want args :
  (forall cur v, buf_update f (BExt cur) v = ext_update want cur v) ->
  match non_null args with
  | [] => True
  | v :: t => forall e, pick want t v = Err e -> exists e', foldM (buf_update f) args (BExt None) = Err e'
  end.
Proof.
  intros Hf. induction args as [|v t IH]; [exact I|].
  rewrite non_null_cons. cbn [foldM]. rewrite Hf. unfold ext_update. destruct (is_null v) eqn:N.
  - cbn [bind]. exact IH.
  - cbn [bind]. intros e H. exact (ext_stream_err f want t Hf v e H).
Qed.

Lemma agg_err f args e : agg f args = Err e -> exists e', foldM (buf_update f) args (buf_init f) = Err e'.
Proof.
  destruct f; cbn [agg buf_init]; intros H; try discriminate.
  - destruct (non_null args) as [|v t] eqn:NN; [discriminate|].
    destruct (sum_vals (v :: t)) as [[m s]|e0] eqn:SV; [discriminate|].
    apply (sum_stream_err args true (0, O) e0). rewrite NN. exact SV.
  - pose proof (ext_lead_err AMin Lt args (fun _ _ => eq_refl)) as L.
    destruct (non_null args) as [|v t]; [discriminate|]. exact (L _ H).
  - pose proof (ext_lead_err AMax Gt args (fun _ _ => eq_refl)) as L.
    destruct (non_null args) as [|v t]; [discriminate|]. exact (L _ H).
  - destruct (non_null args) as [|v t] eqn:NN; [discriminate|].
    destruct (sum_vals (v :: t)) as [[m s]|e0] eqn:SV; [discriminate|].
    apply (avg_stream_err args (0, O) 0 e0). rewrite NN. exact SV.
Qed.

Lemma agg_stream_conv f args b :
  foldM (buf_update f) args (buf_init f) = Ok b -> agg f args = Ok (buf_eval b).
Proof.
  intros H. destruct (agg f args) as [av|e] eqn:A.
  - destruct (agg_stream _ _ _ A) as (b' & Hb' & Ev). rewrite Hb' in H. injection H as <-. rewrite Ev. reflexivity.
  - destruct (agg_err _ _ _ A) as (e' & He'). rewrite He' in H. discriminate.
Qed.

(* ---------- GROUP BY, converse ---------- *)
Section GroupByConv.
  Context {E : Type}.
  Variables ev ev' : row -> E -> res val.

  Lemma col_fold_conv f e ms : forall b0 b,
    sub (fun rw => ev' rw e) (fun rw => ev rw e) ->
    foldM (fun b rw => do v <- ev' rw e; buf_update f b v) ms b0 = Ok b ->
    exists args, mapM (fun rw => ev rw e) ms = Ok args /\ foldM (buf_update f) args b0 = Ok b.
  Proof.
    induction ms as [|rw t IH]; cbn [mapM foldM]; intros b0 b S H.
    - injection H as <-. exists []. split; reflexivity.
    - inv_bind H. inv_bind Ha. destruct (IH _ _ S H) as (args & M & F).
      exists (a0 :: args). rewrite (S _ _ Ha0), M. cbn [bind foldM]. rewrite Ha. cbn [bind]. split; [reflexivity|exact F].
  Qed.

  Lemma unzip_fold (a : pagg) (aggs : list pagg) ms : forall b0 bs0 bufs,
    foldM (fun bufs rw => update_buffers (a :: aggs) rw bufs) ms (b0 :: bs0) = Ok bufs ->
    exists b bs, bufs = b :: bs /\
      foldM (fun b rw => do v <- snd a rw; buf_update (fst a) b v) ms b0 = Ok b /\
      foldM (fun bufs rw => update_buffers aggs rw bufs) ms bs0 = Ok bs.
  Proof.
    induction ms as [|rw t IH]; cbn [foldM]; intros b0 bs0 bufs H.
    - injection H as <-. exists b0, bs0. repeat split; reflexivity.
    - inv_bind H. cbn [update_buffers] in Ha. inv_bind Ha. inv_bind Ha. inv_bind Ha. injection Ha as <-.
      destruct (IH _ _ _ H) as (b & bs & -> & F1 & F2). exists b, bs.
      rewrite Ha0. cbn [bind]. rewrite Ha1. cbn [bind]. rewrite Ha2. cbn [bind]. repeat split; assumption.
  Qed.

  Lemma group_cols_conv aggsE ms : forall bufs,
    (forall fe, In fe aggsE -> sub (fun rw => ev' rw (snd fe)) (fun rw => ev rw (snd fe))) ->
    bufs_of ev' aggsE ms = Ok bufs -> def_avs ev aggsE ms = Ok (eval_buffers bufs).
  Proof.
    unfold def_avs, bufs_of. induction aggsE as [|fe t IH]; cbn [mapM paggs map new_buffers]; intros bufs S H.
    - rewrite bufs_of_nil in H. injection H as <-. reflexivity.
    - destruct (unzip_fold _ _ _ _ _ _ H) as (b & bs & -> & F1 & F2). cbn [fst snd] in F1.
      destruct (col_fold_conv (fst fe) (snd fe) ms _ _ (S fe (or_introl eq_refl)) F1) as (args & M & F).
      rewrite M. cbn [bind]. rewrite (agg_stream_conv _ _ _ F). cbn [bind].
      rewrite (IH _ (fun fe' Hin => S fe' (or_intror Hin)) F2). reflexivity.
  Qed.

  Lemma upsert_conv aggsE k rw gs st st' :
    Forall2 (ginv ev' aggsE) gs st -> upsert (paggs ev' aggsE) k rw st = Ok st' ->
    Forall2 (ginv ev' aggsE) (group_insert k rw gs) st'.
  Proof.
    intros F. revert st'. induction F as [|g s gs' st0 [Hk Hb] F IH]; intros st' H.
    - cbn [group_insert upsert] in *. inv_bind H. injection H as <-. constructor; [|constructor].
      split; [reflexivity|]. cbn [snd]. unfold bufs_of. cbn [foldM bind]. rewrite Ha. reflexivity.
    - destruct g as [k' ms]. destruct s as [k'' bufs]. cbn [fst snd] in Hk, Hb. subst k''.
      cbn [group_insert upsert] in *. destruct (row_eqb k k').
      + inv_bind H. injection H as <-. constructor; [|exact F]. split; [reflexivity|]. cbn [snd].
        rewrite bufs_of_snoc, Hb. cbn [bind]. rewrite Ha. reflexivity.
      + inv_bind H. injection H as <-. constructor; [split; [reflexivity|exact Hb]|exact (IH _ Ha)].
  Qed.

  Lemma gb_stream_conv aggsE (kf kf' : row -> res row) kept :
    sub kf' kf -> forall st,
    gb_compute kf' (paggs ev' aggsE) kept [] = Ok st ->
    exists keyed, mapM (fun rw => do k <- kf rw; Ok (k, rw)) kept = Ok keyed /\
                  Forall2 (ginv ev' aggsE) (fold_left ginsert keyed []) st.
  Proof.
    intros S. induction kept as [|rw l IH] using rev_ind; intros st H.
    - cbn in H. injection H as <-. exists []. split; [reflexivity|constructor].
    - rewrite gb_compute_app in H. inv_bind H. cbn [gb_compute] in H. inv_bind H. inv_bind H. injection H as <-.
      destruct (IH _ Ha) as (keyed & M & F). exists (keyed ++ [(a0, rw)]). split.
      + apply mapM_app; [exact M|]. cbn [mapM]. rewrite (S _ _ Ha0). reflexivity.
      + rewrite fold_left_app. cbn [fold_left]. unfold ginsert at 1. cbn [fst snd]. exact (upsert_conv _ _ _ _ _ _ F Ha1).
  Qed.

  Lemma final_rows_conv aggsE gs st :
    (forall fe, In fe aggsE -> sub (fun rw => ev' rw (snd fe)) (fun rw => ev rw (snd fe))) ->
    Forall2 (ginv ev' aggsE) gs st ->
    mapM (fun g : row * list row => do avs <- def_avs ev aggsE (snd g); Ok (fst g ++ avs)) gs =
    Ok (map (fun s => fst s ++ eval_buffers (snd s)) st).
  Proof.
    intros S F. induction F as [|g s gs' st' [Hk Hb] F IH]; cbn [mapM map]; [reflexivity|].
    rewrite (group_cols_conv aggsE (snd g) _ S Hb). cbn [bind]. rewrite IH. cbn [bind].
    f_equal. f_equal. f_equal. exact Hk.
  Qed.

  Lemma group_by_conv aggsE (kf kf' : row -> res row) n kept grows :
    sub kf' kf ->
    (forall fe, In fe aggsE -> sub (fun rw => ev' rw (snd fe)) (fun rw => ev rw (snd fe))) ->
    group_by_iter kf' (paggs ev' aggsE) n kept = Ok grows ->
    exists keyed, mapM (fun rw => do k <- kf rw; Ok (k, rw)) kept = Ok keyed /\
      mapM (fun g : row * list row => do avs <- def_avs ev aggsE (snd g); Ok (fst g ++ avs)) (groups_of n keyed) = Ok grows.
  Proof.
    intros Sk Sa H. unfold group_by_iter in H. inv_bind H. injection H as <-. rename a into st.
    destruct (gb_stream_conv aggsE kf kf' kept Sk st Ha) as (keyed & M & F).
    exists keyed. split; [exact M|]. unfold groups_of.
    change (fold_left (fun gs kr => group_insert (fst kr) (snd kr) gs) keyed []) with (fold_left ginsert keyed []).
    destruct (fold_left ginsert keyed []) as [|g gs].
    - inversion F; subst. destruct n; [|reflexivity]. cbn [mapM snd fst app].
      rewrite (group_cols_conv aggsE [] (new_buffers (paggs ev' aggsE)) Sa eq_refl). reflexivity.
    - assert (EQ : mapM (fun g0 : row * list row => do avs <- def_avs ev aggsE (snd g0); Ok (fst g0 ++ avs)) (g :: gs) =
                  Ok (map (fun s => fst s ++ eval_buffers (snd s)) st)) by exact (final_rows_conv aggsE _ _ Sa F).
      inversion F; subst. destruct n; exact EQ.
  Qed.
End GroupByConv.

(* the transposed right join, converse *)
Lemma transposed_join_conv (ev' ev : row -> res val) wl wr L R rows0 :
  sub ev' ev -> (forall r, In r R -> length r = wr) ->
  join_iter (fun x => ev' (transpose_row wr x)) true wl R L = Ok rows0 ->
  outer_join (fun rw => holds (ev rw)) (fun r l => l ++ r) (fun r => nulls wl ++ r) R L =
  Ok (map (transpose_row wr) rows0).
Proof.
  intros S HW H. rewrite join_iter_left_eq in H. unfold outer_join in *. inv_bind H. injection H as <-. rename a into parts.
  assert (G : exists parts',
             mapM (fun o => do ms <- filterM (fun i => holds (ev (i ++ o))) L;
                            Ok (match ms with [] => [nulls wl ++ o] | _ => map (fun i => i ++ o) ms end)) R = Ok parts' /\
             concat parts' = map (transpose_row wr) (concat parts)).
  { revert parts Ha. induction R as [|r t IH]; cbn [mapM]; intros parts H.
    - injection H as <-. exists []. split; reflexivity.
    - inv_bind H. inv_bind H. injection H as <-. inv_bind Ha. injection Ha as <-. rename a1 into ms.
      destruct (IH (fun r' Hin => HW r' (or_intror Hin)) _ Ha0) as (parts1 & E1 & M1).
      assert (Wr : length r = wr) by (apply HW; left; reflexivity).
      assert (F : filterM (fun i => holds (ev (i ++ r))) L = Ok ms).
      { refine (filterM_sub (fun i => holds (ev' (i ++ r))) _ L ms (fun i b Hb => holds_sub _ _ S (i ++ r) b Hb) _).
        rewrite <- Ha1. apply filterM_ext_in. intros l _. rewrite (transpose_app wr r l Wr). reflexivity. }
      rewrite F. cbn [bind]. rewrite E1. cbn [bind]. eexists. split; [reflexivity|].
      cbn [concat]. rewrite map_app, M1. f_equal.
      destruct ms as [|m ms']; cbn [map].
      + rewrite (transpose_app wr r _ Wr). reflexivity.
      + rewrite (transpose_app wr r m Wr). f_equal.
        rewrite map_map. apply map_ext. intros l. symmetry. exact (transpose_app wr r l Wr). }
  destruct G as (parts' & E & M).
  match type of E with ?L = _ => match goal with |- bind ?X ?F = ?R => change (bind L F = R) end end.
  rewrite E. cbn [bind]. f_equal. exact M.
Qed.

(* ---------- the converse refinement, by structural induction ---------- *)
Definition Pe2 (e : expr) : Prop :=
  forall d, ok_expr d e = true -> forall en v, eval_pexpr d en (cexpr e) = Ok v -> eval_expr d en e = Ok v.
Definition Pq2 (q : query) : Prop :=
  forall d, ok_query d q = true -> forall en rows, exec_env d en (plan_of q) = Ok rows -> eval_query d en q = Ok rows.

Lemma list_conv l : Forall Pe2 l -> forall d, forallb (ok_expr d) l = true ->
  forall en r, mapM (eval_pexpr d en) (map cexpr l) = Ok r -> mapM (eval_expr d en) l = Ok r.
Proof.
  intros F. induction F as [|x t Hx F IH]; cbn [forallb mapM map]; intros d W en r H; [exact H|].
  apply andb_prop in W. destruct W as [Wx Wt]. inv_bind H. inv_bind H. injection H as <-.
  rewrite (Hx _ Wx _ _ Ha). cbn [bind]. rewrite (IH _ Wt _ _ Ha0). reflexivity.
Qed.

Lemma exec_wrap_distinct_inv d en dist p rows :
  exec_env d en (wrap_distinct dist p) = Ok rows ->
  exists out, exec_env d en p = Ok out /\ rows = distinct_if dist out.
Proof.
  destruct dist; cbn [wrap_distinct exec_env distinct_if]; intros H; [|eauto].
  inv_bind H. injection H as <-. exists a. rewrite distinct_iter_ok. auto.
Qed.

Lemma select_tail_conv wh proj dist p d en rows :
  Pe2 wh -> Forall Pe2 proj -> ok_expr d wh = true -> forallb (ok_expr d) proj = true ->
  exec_env d en (wrap_distinct dist (PProject (map cexpr proj) (PFilter (cexpr wh) p))) = Ok rows ->
  exists rows0 kept out,
    exec_env d en p = Ok rows0 /\
    filterM (fun rw => holds (eval_expr d (rw :: en) wh)) rows0 = Ok kept /\
    mapM (fun rw => mapM (eval_expr d (rw :: en)) proj) kept = Ok out /\
    rows = distinct_if dist out.
Proof.
  intros Hwh Hproj Wwh Wproj H. destruct (exec_wrap_distinct_inv _ _ _ _ _ H) as (out & H1 & ->).
  cbn [exec_env] in H1. inv_bind H1. inv_bind Ha. rewrite filter_iter_eq in Ha. rewrite project_iter_eq in H1.
  exists a0, a, out. split; [exact Ha0|]. split; [|split; [|reflexivity]].
  - refine (filterM_sub _ _ _ _ _ Ha). apply holds_sub. intros rw v Hv. exact (Hwh _ Wwh _ _ Hv).
  - refine (mapM_sub _ _ _ _ _ H1). intros rw r Hr. exact (list_conv proj Hproj _ Wproj _ _ Hr).
Qed.

Theorem exec_converse_mut : (forall e, Pe2 e) /\ (forall q, Pq2 q).
Proof.
  apply (expr_query_mut Pe2 Pq2); unfold Pe2, Pq2.
  - (* EConst *) intros v d _ en v' H. exact H.
  - (* ECol *) intros k i d _ en v H. exact H.
  - (* ECmp *) intros o a b IHa IHb d W en v H. cbn [ok_expr] in W. apply andb_prop in W. destruct W as [Wa Wb].
    cbn [cexpr eval_pexpr] in H. inv_bind H. inv_bind H. cbn [eval_expr].
    rewrite (IHa _ Wa _ _ Ha), (IHb _ Wb _ _ Ha0). exact H.
  - (* EArith *) intros o a b IHa IHb d W en v H. cbn [ok_expr] in W. apply andb_prop in W. destruct W as [Wa Wb].
    cbn [cexpr eval_pexpr] in H. inv_bind H. inv_bind H. cbn [eval_expr].
    rewrite (IHa _ Wa _ _ Ha), (IHb _ Wb _ _ Ha0). exact H.
  - (* EAnd *) intros a b IHa IHb d W en v H. cbn [ok_expr] in W. apply andb_prop in W. destruct W as [Wa Wb].
    cbn [cexpr eval_pexpr] in H. inv_bind H. inv_bind H. cbn [eval_expr].
    rewrite (IHa _ Wa _ _ Ha), (IHb _ Wb _ _ Ha0). exact H.
  - (* EOr *) intros a b IHa IHb d W en v H. cbn [ok_expr] in W. apply andb_prop in W. destruct W as [Wa Wb].
    cbn [cexpr eval_pexpr] in H. inv_bind H. inv_bind H. cbn [eval_expr].
    rewrite (IHa _ Wa _ _ Ha), (IHb _ Wb _ _ Ha0). exact H.
  - (* ENot *) intros a IHa d W en v H. cbn [ok_expr] in W.
    cbn [cexpr eval_pexpr] in H. inv_bind H. cbn [eval_expr]. rewrite (IHa _ W _ _ Ha). exact H.
  - (* EIsNull *) intros a IHa d W en v H. cbn [ok_expr] in W.
    cbn [cexpr eval_pexpr] in H. inv_bind H. cbn [eval_expr]. rewrite (IHa _ W _ _ Ha). cbn [bind].
    rewrite <- H. destruct a0; reflexivity.
  - (* EIn *) intros a l IHa IHl d W en v H. cbn [ok_expr] in W. apply andb_prop in W. destruct W as [Wa Wl].
    cbn [cexpr eval_pexpr] in H. inv_bind H. inv_bind H. rewrite in_loop_in3 in H. cbn [eval_expr].
    rewrite (IHa _ Wa _ _ Ha), (list_conv l IHl _ Wl _ _ Ha0). exact H.
  - (* EExists *) intros q IHq d W en v H. cbn [ok_expr] in W.
    cbn [cexpr eval_pexpr] in H. inv_bind H. cbn [eval_expr]. rewrite (IHq _ W _ _ Ha). exact H.
  - (* EInQ *) intros a q IHa IHq d W en v H. cbn [ok_expr] in W. apply andb_prop in W. destruct W as [Wa Wq].
    cbn [cexpr eval_pexpr] in H. inv_bind H. inv_bind H. inv_bind H. rewrite in_loop_in3 in H. cbn [eval_expr].
    rewrite (IHa _ Wa _ _ Ha), (IHq _ Wq _ _ Ha0). cbn [bind]. rewrite Ha1. exact H.
  - (* EScalar *) intros q IHq d W en v H. cbn [ok_expr] in W.
    cbn [cexpr eval_pexpr] in H. inv_bind H. cbn [eval_expr]. rewrite (IHq _ W _ _ Ha). exact H.
  - (* QTable *) intros t d _ en rows H. exact H.
  - (* QJoin *) intros k l r on IHl IHr IHon d W en rows H. cbn [ok_query] in W. split_wf W.
    assert (S0 : sub (fun rw => eval_pexpr d (rw :: en) (cexpr on)) (fun rw => eval_expr d (rw :: en) on))
      by (intros rw v Hv; exact (IHon _ W0 _ _ Hv)).
    pose proof (holds_sub _ _ S0) as S.
    destruct k; cbn [plan_of exec_env] in H; inv_bind H; inv_bind H; cbn [eval_query];
      rewrite (IHl _ W2 _ _ Ha), (IHr _ W1 _ _ Ha0); cbn [bind join_rows].
    + rewrite join_iter_inner_eq in H. exact (inner_join_sub _ _ _ _ _ S H).
    + rewrite join_iter_left_eq, pwidth_plan_of in H. exact (outer_join_sub _ _ _ _ _ _ _ S H).
    + apply andb_prop in W. destruct W as [Wd Wt]. inv_bind H. injection H as <-. rewrite !pwidth_plan_of in Ha1. rewrite !pwidth_plan_of.
      exact (transposed_join_conv _ _ (qwidth d l) (qwidth d r) a a0 a1 S0
               (fun r0 Hr0 => query_width d Wd r Wt en a0 (IHr _ W1 _ _ Ha0) r0 Hr0) Ha1).
    + rewrite cross_join_ok. exact H.
  - (* QSelect *) intros src wh proj dist IHsrc IHwh IHproj d W en rows H. cbn [ok_query] in W. split_wf W.
    cbn [plan_of] in H.
    destruct (select_tail_conv wh proj dist _ d en rows IHwh IHproj W1 W0 H) as (rows0 & kept & out & H1 & H2 & H3 & ->).
    cbn [eval_query]. rewrite (IHsrc _ W _ _ H1). cbn [bind]. rewrite H2. cbn [bind]. rewrite H3. reflexivity.
  - (* QGroup *) intros src wh keys aggs hav proj dist IHsrc IHwh IHkeys IHaggs IHhav IHproj d W en rows H.
    cbn [ok_query] in W. split_wf W. cbn [plan_of] in H.
    destruct (select_tail_conv hav proj dist _ d en rows IHhav IHproj W1 W0 H) as (grows & gkept & out & H1 & H2 & H3 & ->).
    cbn [exec_env] in H1. inv_bind H1. inv_bind Ha. rewrite filter_iter_eq in Ha. rewrite map_map, map_length in H1.
    destruct (group_by_conv (fun rw e => eval_expr d (rw :: en) e) (fun rw e => eval_pexpr d (rw :: en) (cexpr e))
                            aggs (fun rw => mapM (eval_expr d (rw :: en)) keys)
                            (fun rw => mapM (eval_pexpr d (rw :: en)) (map cexpr keys)) (length keys) a grows) as (keyed & M & G).
    + intros rw r Hr. exact (list_conv keys IHkeys _ W3 _ _ Hr).
    + intros fe Hin rw v Hv. rewrite Forall_forall in IHaggs. rewrite forallb_forall in W2.
      exact (IHaggs fe Hin _ (W2 fe Hin) _ _ Hv).
    + exact H1.
    + cbn [eval_query]. rewrite (IHsrc _ W _ _ Ha0). cbn [bind].
      rewrite (filterM_sub _ (fun rw => holds (eval_expr d (rw :: en) wh)) _ _
                 (holds_sub _ _ (fun rw v Hv => IHwh _ W4 _ _ Hv)) Ha).
      cbn [bind]. unfold def_avs in G. cbv beta in M, G.
      match type of M with ?L = _ => match goal with |- bind ?X ?F = ?R => change (bind L F = R) end end.
      rewrite M. cbn [bind].
      match type of G with ?L = _ => match goal with |- bind ?X ?F = ?R => change (bind L F = R) end end.
      rewrite G. cbn [bind].
      rewrite H2. cbn [bind]. rewrite H3. reflexivity.
  - (* QSetOp *) intros o all l r IHl IHr d W en rows H. cbn [ok_query] in W. split_wf W.
    destruct o; try discriminate; cbn [plan_of exec_env] in H; inv_bind H; inv_bind H; injection H as <-;
      cbn [eval_query]; rewrite (IHl _ W _ _ Ha), (IHr _ W0 _ _ Ha0); cbn [bind].
    + destruct all; cbn [negb union_iter set_op]; [reflexivity|]. rewrite distinct_iter_ok. reflexivity.
    + destruct all; cbn [negb set_op]; [rewrite intersect_iter_ok|rewrite intersect_distinct_ok]; reflexivity.
    + rewrite except_iter_ok, negb_involutive. reflexivity.
  - (* QOrder *) intros q keys lim IHq d W en rows H. cbn [ok_query] in W.
    destruct lim as [[n off]|]; cbn [plan_of exec_env] in H.
    + inv_bind H. inv_bind Ha. inv_bind Ha0. injection Ha0 as <-. injection Ha as <-. injection H as <-.
      cbn [eval_query]. rewrite (IHq _ W _ _ Ha1). cbn [bind order_limit]. unfold sort_iter. rewrite limit_offset_ok. reflexivity.
    + inv_bind H. injection H as <-. cbn [eval_query]. rewrite (IHq _ W _ _ Ha). reflexivity.
Qed.

(* plan and definition agree on every query that satisfies the side condition *)
Theorem exec_agrees_with_definition_ok d en q rows :
  ok_query d q = true -> (exec_env d en (plan_of q) = Ok rows <-> eval_query d en q = Ok rows).
Proof.
  intros W. split; [exact (proj2 exec_converse_mut q d W en rows)|exact (exec_refines_definition_ok d en q rows W)].
Qed.

Theorem expr_agrees_with_definition_ok d en e v :
  ok_expr d e = true -> (eval_pexpr d en (cexpr e) = Ok v <-> eval_expr d en e = Ok v).
Proof.
  intros W. split; [exact (proj1 exec_converse_mut e d W en v)|exact (expr_refines_definition_ok d en e v W)].
Qed.

(* the executor fails exactly when the definition raises an error *)
Corollary exec_fails_iff_definition_fails_ok d en q :
  ok_query d q = true ->
  ((exists e, exec_env d en (plan_of q) = Err e) <-> (exists e, eval_query d en q = Err e)).
Proof.
  intros W. split; intros [e He].
  - destruct (eval_query d en q) as [rows|e'] eqn:E; [|eauto].
    rewrite (exec_refines_definition_ok d en q rows W E) in He. discriminate.
  - destruct (exec_env d en (plan_of q)) as [rows|e'] eqn:E; [|eauto].
    rewrite (proj1 (exec_agrees_with_definition_ok d en q rows W) E) in He. discriminate.
Qed.

(* without RIGHT JOIN: every database *)
Theorem exec_agrees_with_definition d en q rows :
  wf_query q = true -> (exec_env d en (plan_of q) = Ok rows <-> eval_query d en q = Ok rows).
Proof. intros W. exact (exec_agrees_with_definition_ok d en q rows (proj2 (wf_ok_mut d) q W)). Qed.

Theorem expr_agrees_with_definition d en e v :
  wf_expr e = true -> (eval_pexpr d en (cexpr e) = Ok v <-> eval_expr d en e = Ok v).
Proof. intros W. exact (expr_agrees_with_definition_ok d en e v (proj1 (wf_ok_mut d) e W)). Qed.

Corollary exec_fails_iff_definition_fails d en q :
  wf_query q = true ->
  ((exists e, exec_env d en (plan_of q) = Err e) <-> (exists e, eval_query d en q = Err e)).
Proof. intros W. exact (exec_fails_iff_definition_fails_ok d en q (proj2 (wf_ok_mut d) q W)). Qed.

(* the side condition in words: rows of the tables have the tables' widths and the set operations inside the
   right input of a RIGHT JOIN combine equally wide branches; then any query qualifies *)
(* ---------- hash-lookup join = nested-loop join, when the ON condition entails equal non-NULL keys ---------- *)
Ltac rwc H :=
  match type of H with _ = ?R =>
    match goal with |- bind ?X _ = _ => replace X with R by (symmetry; exact H) end
  end.

Lemma bucket_pred_true k (kr : option row * row) :
  fst kr = Some k -> match fst kr with Some k' => row_beq k k' | None => false end = true.
Proof. intros ->. apply row_beq_refl. Qed.

Lemma join_scan_sublist on lo wr l (P : option row * row -> bool) keyed : forall found a,
  (forall kr, In kr keyed -> cond_true (on (l ++ snd kr)) = Ok true -> P kr = true) ->
  join_scan on lo wr l (map snd keyed) found = Ok a ->
  join_scan on lo wr l (map snd (filter P keyed)) found = Ok a.
Proof.
  induction keyed as [|kr t IH]; intros found a HP H; [exact H|].
  cbn [map join_scan filter] in *. inv_bind H.
  assert (HP' : forall kr0, In kr0 t -> cond_true (on (l ++ snd kr0)) = Ok true -> P kr0 = true)
    by (intros kr0 Hin; apply HP; right; exact Hin).
  destruct a0.
  - rewrite (HP kr (or_introl eq_refl) Ha). cbn [map join_scan]. rwc Ha. cbn [bind].
    inv_bind H. injection H as <-. rewrite (IH _ _ HP' Ha0). reflexivity.
  - destruct (P kr); [cbn [map join_scan]; rwc Ha; cbn [bind]|]; exact (IH _ _ HP' H).
Qed.

Lemma keyed_spec (rk : row -> res row) R keyed :
  mapM (fun rw => do k <- hash_key rk rw; Ok (k, rw)) R = Ok keyed ->
  map snd keyed = R /\ forall kr, In kr keyed -> In (snd kr) R /\ hash_key rk (snd kr) = Ok (fst kr).
Proof.
  revert keyed. induction R as [|r t IH]; cbn [mapM]; intros keyed H.
  - injection H as <-. split; [reflexivity|intros kr []].
  - inv_bind H. inv_bind H. injection H as <-. inv_bind Ha. injection Ha as <-.
    destruct (IH _ Ha0) as [E S]. split; [cbn; rewrite E; reflexivity|].
    intros kr [<-|Hin]; cbn [fst snd]; [split; [left; reflexivity|exact Ha1]|].
    destruct (S kr Hin) as [S1 S2]. split; [right; exact S1|exact S2].
Qed.

Theorem hash_join_iter_ok on lo wr (lk rk : row -> res row) L R keyed rows :
  mapM (fun rw => do k <- hash_key rk rw; Ok (k, rw)) R = Ok keyed ->
  (forall l, In l L -> exists k, hash_key lk l = Ok k) ->
  (forall l r, In l L -> In r R -> cond_true (on (l ++ r)) = Ok true ->
               exists k, hash_key lk l = Ok (Some k) /\ hash_key rk r = Ok (Some k)) ->
  join_iter on lo wr L R = Ok rows ->
  hash_join_iter on lo wr lk keyed L = Ok rows.
Proof.
  intros HK HT HS. destruct (keyed_spec rk R keyed HK) as [EM SK]. revert rows.
  induction L as [|l t IH]; cbn [join_iter hash_join_iter]; intros rows H; [exact H|].
  inv_bind H. inv_bind H. injection H as <-.
  destruct (HT l (or_introl eq_refl)) as (k & Ek). rewrite Ek. cbn [bind].
  rewrite (IH (fun l' Hin => HT l' (or_intror Hin)) (fun l' r Hin => HS l' r (or_intror Hin)) _ Ha0). cbn [bind].
  rewrite <- EM in Ha.
  assert (Sc : join_scan on lo wr l (match k with Some k' => bucket k' keyed | None => [] end) false = Ok a).
  { destruct k as [k'|].
    - unfold bucket. apply join_scan_sublist; [|exact Ha].
      intros kr Hin Ht. destruct (SK kr Hin) as [S1 S2].
      destruct (HS l (snd kr) (or_introl eq_refl) S1 Ht) as (k0 & E1 & E2).
      rewrite Ek in E1. injection E1 as ->.
      pose proof (eq_trans (eq_sym S2) E2) as X. injection X as X. apply bucket_pred_true. exact X.
    - replace (@nil row) with (map snd (filter (fun _ : option row * row => false) keyed)).
      + apply join_scan_sublist; [|exact Ha].
        intros kr Hin Ht. destruct (SK kr Hin) as [S1 S2].
        destruct (HS l (snd kr) (or_introl eq_refl) S1 Ht) as (k0 & E1 & _). rewrite Ek in E1. discriminate.
      + clear. induction keyed as [|x t' IH']; [reflexivity|exact IH']. }
  rewrite Sc. reflexivity.
Qed.

Lemma mapM_total {A B} (f : A -> res B) l : (forall x, In x l -> exists y, f x = Ok y) -> exists r, mapM f l = Ok r.
Proof.
  induction l as [|x t IH]; intros H; [exists []; reflexivity|].
  destruct (H x (or_introl eq_refl)) as (y & Ey). destruct (IH (fun x' Hin => H x' (or_intror Hin))) as (r & Er).
  exists (y :: r). cbn. rewrite Ey. cbn. rewrite Er. reflexivity.
Qed.

(* plan level: the hash-lookup join returns what the nested-loop join returns, provided the key expressions
   evaluate on the rows of both inputs and a TRUE ON condition entails equal keys without NULL *)
Theorem hash_join_plan_ok d en lo l r lk rk on L R rows :
  exec_env d en l = Ok L -> exec_env d en r = Ok R ->
  (forall x, In x L -> exists k, hash_key (fun rw => mapM (eval_pexpr d (rw :: en)) lk) x = Ok k) ->
  (forall y, In y R -> exists k, hash_key (fun rw => mapM (eval_pexpr d (rw :: en)) rk) y = Ok k) ->
  (forall x y, In x L -> In y R -> cond_true (eval_pexpr d ((x ++ y) :: en) on) = Ok true ->
     exists k, hash_key (fun rw => mapM (eval_pexpr d (rw :: en)) lk) x = Ok (Some k) /\
               hash_key (fun rw => mapM (eval_pexpr d (rw :: en)) rk) y = Ok (Some k)) ->
  exec_env d en (PJoin lo l r on) = Ok rows ->
  exec_env d en (PHashJoin lo l r lk rk on) = Ok rows.
Proof.
  intros HL HR TL TR HS H. cbn [exec_env] in *. rewrite HL, HR in *. cbn [bind] in *.
  destruct (mapM_total (fun rw => do k <- hash_key (fun rw0 => mapM (eval_pexpr d (rw0 :: en)) rk) rw; Ok (k, rw)) R)
    as (keyed & HK).
  { intros y Hy. destruct (TR y Hy) as (k & Ek). exists (k, y). rewrite Ek. reflexivity. }
  rewrite HK. cbn [bind].
  exact (hash_join_iter_ok (fun rw => eval_pexpr d (rw :: en) on) lo (pwidth d r) _ _ L R keyed rows HK TL HS H).
Qed.
