(* Proofs for C07: when do two values get the same canonical hash key? *)
From Coq Require Import List ZArith NArith Bool Lia Ascii String DecimalString DecimalZ DecimalN DecimalPos.
Import ListNotations.
From GMS Require Import Phys.C07HashKey.
Open Scope Z_scope.

(* ---------- texts ---------- *)
Lemma N_of_ascii_inj a b : N_of_ascii a = N_of_ascii b -> a = b.
Proof. intros H. rewrite <- (ascii_N_embedding a), <- (ascii_N_embedding b), H. reflexivity. Qed.

Lemma map_inj {X Y} (f : X -> Y) : (forall a b, f a = f b -> a = b) -> forall l l', map f l = map f l' -> l = l'.
Proof.
  intros Hf l. induction l as [|x l IH]; intros [|y l'] H; cbn in H; try discriminate; [reflexivity|].
  injection H as H1 H2. f_equal; auto.
Qed.

Lemma bytes_of_string_inj a b : bytes_of_string a = bytes_of_string b -> a = b.
Proof.
  unfold bytes_of_string. intros H. apply (map_inj _ N_of_ascii_inj) in H.
  rewrite <- (string_of_list_ascii_of_string a), <- (string_of_list_ascii_of_string b), H. reflexivity.
Qed.

Lemma int_text_inj x y : int_text x = int_text y -> x = y.
Proof.
  unfold int_text. intros H. apply bytes_of_string_inj in H.
  apply DecimalZ.to_int_inj.
  assert (E : Some (Z.to_int x) = Some (Z.to_int y)) by (rewrite <- !NilEmpty.isi, H; reflexivity).
  injection E as E. exact E.
Qed.

Lemma utext_inj x y : utext x = utext y -> x = y.
Proof.
  unfold utext. intros H. apply bytes_of_string_inj in H.
  apply DecimalN.Unsigned.to_uint_inj.
  assert (E : Some (N.to_uint x) = Some (N.to_uint y)) by (rewrite <- !NilEmpty.usu, H; reflexivity).
  injection E as E. exact E.
Qed.

Lemma utext_head n : exists c r, utext n = c :: r /\ c <> 45%N.
Proof.
  unfold utext.
  assert (Hn : N.to_uint n <> Decimal.Nil).
  { destruct n; cbn; [discriminate|apply DecimalPos.Unsigned.to_uint_nonnil]. }
  destruct (N.to_uint n); try congruence; cbn; eexists _, _; (split; [reflexivity|]); vm_compute; discriminate.
Qed.

Lemma fd_length k r : List.length (fd k r) = k.
Proof. revert r. induction k as [|k IH]; intros r; cbn; [reflexivity|]. rewrite List.app_length, IH. cbn. lia. Qed.

Lemma fd_inj k : forall r r', fd k r = fd k r' -> (r mod 10 ^ N.of_nat k = r' mod 10 ^ N.of_nat k)%N.
Proof.
  induction k as [|k IH]; intros r r' H.
  - cbn. rewrite !N.mod_1_r. reflexivity.
  - cbn [fd] in H. apply app_inj_tail in H. destruct H as [H1 H2].
    apply IH in H1. assert (H3 : (r mod 10 = r' mod 10)%N) by lia.
    rewrite Nat2N.inj_succ, N.pow_succ_r'.
    rewrite !N.mod_mul_r by (try apply N.pow_nonzero; discriminate). rewrite H1, H3. reflexivity.
Qed.

Lemma app_eq_len_tail {X} (l1 l1' l2 l2' : list X) :
  l1 ++ l2 = l1' ++ l2' -> List.length l2 = List.length l2' -> l1 = l1' /\ l2 = l2'.
Proof.
  revert l1'. induction l1 as [|x l1 IH]; intros [|y l1'] H L; cbn in H.
  - auto.
  - exfalso. subst l2. cbn in L. rewrite List.app_length in L. lia.
  - exfalso. subst l2'. cbn in L. rewrite List.app_length in L. lia.
  - injection H as -> H. destruct (IH _ H L) as [-> ->]. auto.
Qed.

Lemma dec_text_inj m m' s : dec_text m s = dec_text m' s -> m = m'.
Proof.
  unfold dec_text. intros H.
  set (a := Z.to_N (Z.abs m)) in *. set (a' := Z.to_N (Z.abs m')) in *. set (p := (10 ^ s)%N) in *.
  assert (Hp : p <> 0%N) by (apply N.pow_nonzero; discriminate).
  rewrite !app_assoc in H.
  apply app_eq_len_tail in H.
  2:{ destruct (N.eqb s 0); [reflexivity|]. cbn. rewrite !fd_length. reflexivity. }
  destruct H as [H1 H2].
  assert (Hq : (m <? 0) = (m' <? 0) /\ (a / p = a' / p)%N).
  { destruct (utext_head (a / p)) as (c & r & E & Hc). destruct (utext_head (a' / p)) as (c' & r' & E' & Hc').
    destruct (m <? 0), (m' <? 0); cbn in H1.
    - injection H1 as H1. split; [reflexivity|apply utext_inj; exact H1].
    - rewrite E' in H1. injection H1 as H1 _. congruence.
    - rewrite E in H1. injection H1 as H1 _. congruence.
    - split; [reflexivity|apply utext_inj; exact H1]. }
  destruct Hq as [Hs Hq].
  assert (Hr : (a mod p = a' mod p)%N).
  { destruct (N.eqb_spec s 0) as [->|Hs0].
    - subst p. cbn. rewrite !N.mod_1_r. reflexivity.
    - injection H2 as H2. apply fd_inj in H2. rewrite N2Nat.id in H2. fold p in H2.
      rewrite !N.mod_mod in H2 by exact Hp. exact H2. }
  assert (Ha : a = a').
  { rewrite (N.div_mod a p Hp), (N.div_mod a' p Hp), Hq, Hr. reflexivity. }
  subst a a'. apply (f_equal Z.of_N) in Ha. rewrite !Z2N.id in Ha by apply Z.abs_nonneg.
  destruct (Z.ltb_spec m 0), (Z.ltb_spec m' 0); try discriminate; lia.
Qed.

(* ---------- weight strings ---------- *)
Lemma le4_inj x y : (x < 4294967296)%N -> (y < 4294967296)%N -> le4 x = le4 y -> x = y.
Proof.
  intros Hx Hy H. unfold le4 in H. injection H as H0 H1 H2 H3.
  assert (R : forall z, (z < 4294967296 ->
     z = z mod 256 + 256 * ((z / 256) mod 256) + 65536 * ((z / 65536) mod 256) + 16777216 * ((z / 16777216) mod 256))%N).
  { intros z Hz.
    pose proof (N.div_mod z 256 ltac:(discriminate)) as E0.
    pose proof (N.div_mod (z / 256) 256 ltac:(discriminate)) as E1.
    pose proof (N.div_mod (z / 256 / 256) 256 ltac:(discriminate)) as E2.
    rewrite !N.div_div in E1, E2 by discriminate. rewrite N.div_div in E2 by discriminate.
    change (256 * 256)%N with 65536%N in *. change (65536 * 256)%N with 16777216%N in *.
    assert (Hs : (z / 16777216 < 256)%N) by (apply N.div_lt_upper_bound; [discriminate|exact Hz]).
    rewrite (N.mod_small _ _ Hs). lia. }
  rewrite (R x Hx), (R y Hy), H0, H1, H2, H3. reflexivity.
Qed.

Lemma weight_string_map w s : weight_string w s = flat_map le4 (map w s).
Proof. induction s as [|c s IH]; [reflexivity|]. cbn [weight_string flat_map map]. f_equal. exact IH. Qed.

Lemma weight_string_eq_iff w :
  (forall c, (w c < 4294967296)%N) -> forall a b, weight_string w a = weight_string w b <-> map w a = map w b.
Proof.
  intros Hw a b. split.
  - revert b. induction a as [|x a IH]; intros [|y b] H; cbn in H; try discriminate; [reflexivity|].
    injection H as H0 H1 H2 H3 H. cbn. f_equal.
    + apply le4_inj; try apply Hw. unfold le4. congruence.
    + apply IH. exact H.
  - intros H. rewrite !weight_string_map, H. reflexivity.
Qed.

Lemma bytes_eqb_spec a : forall b, bytes_eqb a b = true <-> a = b.
Proof.
  induction a as [|x a IH]; intros [|y b]; cbn; split; intros H; try discriminate; try reflexivity.
  - apply andb_prop in H. destruct H as [H1 H2]. apply N.eqb_eq in H1. apply IH in H2. congruence.
  - injection H as -> ->. rewrite N.eqb_refl. apply IH. reflexivity.
Qed.

(* ---------- key equality vs '=' ---------- *)
Lemma key_int_iff w x y : key1 w CNone (HInt x) = key1 w CNone (HInt y) <-> sql_eq w (HInt x) (HInt y) = true.
Proof. cbn. rewrite Z.eqb_eq. split; [apply int_text_inj|intros ->; reflexivity]. Qed.

Lemma key_str_schema_iff w :
  (forall c, (w c < 4294967296)%N) ->
  forall a b, key1 w CStr (HStr a) = key1 w CStr (HStr b) <-> sql_eq w (HStr a) (HStr b) = true.
Proof.
  intros Hw a b. cbn. rewrite (weight_string_eq_iff w Hw). symmetry. apply bytes_eqb_spec.
Qed.

Lemma key_dec_same_scale_iff w m m' s :
  key1 w CNone (HDec m s) = key1 w CNone (HDec m' s) <-> sql_eq w (HDec m s) (HDec m' s) = true.
Proof.
  cbn. rewrite Z.eqb_eq. split.
  - intros H. apply dec_text_inj in H. subst. reflexivity.
  - intros H. assert (m = m') by (apply Z.mul_reg_r in H; [exact H|apply Z.pow_nonzero; lia]). subst. reflexivity.
Qed.

Lemma key_dec_refuted w :
  exists m1 s1 m2 s2, sql_eq w (HDec m1 s1) (HDec m2 s2) = true /\ key1 w CNone (HDec m1 s1) <> key1 w CNone (HDec m2 s2).
Proof. exists 100, 2%N, 10000, 4%N. split; [reflexivity|vm_compute; discriminate]. Qed.

Lemma key_int_dec_refuted w :
  exists x m s, sql_eq w (HInt x) (HDec m s) = true /\ key1 w CNone (HDec x 0) <> key1 w CNone (HDec m s).
Proof. exists 1, 100, 2%N. split; [reflexivity|vm_compute; discriminate]. Qed.

(* without a schema the raw bytes are hashed: any collation that identifies two different strings is not respected *)
Lemma key_str_raw_refuted w :
  w 97%N = w 65%N ->
  exists a b, sql_eq w (HStr a) (HStr b) = true /\ key1 w CNone (HStr a) <> key1 w CNone (HStr b).
Proof.
  intros H. exists [97%N], [65%N]. split; [|cbn; discriminate].
  cbn. rewrite H, N.eqb_refl. reflexivity.
Qed.

(* the NUL separator does not separate raw strings that contain NUL *)
Lemma row_key_separator_refuted w :
  exists r1 r2, List.length r1 = List.length r2 /\
    Forall2 (fun a b => sql_eq w a b = false) r1 r2 /\ row_key w [] r1 = row_key w [] r2.
Proof.
  exists [HStr [97;0]%N; HStr [98]%N], [HStr [97]%N; HStr [0;98]%N]. split; [reflexivity|]. split; [|reflexivity].
  repeat constructor; cbn; rewrite ?andb_false_r; reflexivity.
Qed.

(* COUNT(DISTINCT a, b): the "," terminator does not separate strings that contain "," *)
Lemma cd_key_separator_refuted :
  exists r1 r2, r1 <> r2 /\ cd_key r1 = cd_key r2.
Proof. exists [HStr [97;44]%N; HStr [98]%N], [HStr [97]%N; HStr [44;98]%N]. split; [discriminate|reflexivity]. Qed.

Lemma cd_key_dec_refuted w :
  exists a b, sql_eq w a b = true /\ cd_key [a] <> cd_key [b].
Proof. exists (HDec 100 2), (HDec 10000 4). split; [reflexivity|vm_compute; discriminate]. Qed.

(* ---------- the de-duplication loop ---------- *)
Section DedupFacts.
  Context {A K : Type} (key : A -> K) (keq : K -> K -> bool).
  Hypothesis keq_spec : forall a b, keq a b = true <-> a = b.

  Lemma existsb_keq k seen : existsb (keq k) seen = true <-> In k seen.
  Proof.
    rewrite existsb_exists. split.
    - intros (x & Hx & E). apply keq_spec in E. subst. exact Hx.
    - intros H. exists k. split; [exact H|apply keq_spec; reflexivity].
  Qed.

  Lemma dedup_go_sound l : forall seen x, In x (dedup_go key keq seen l) -> In x l /\ ~ In (key x) seen.
  Proof.
    induction l as [|y l IH]; intros seen x H; cbn in H; [contradiction|].
    destruct (existsb (keq (key y)) seen) eqn:E.
    - destruct (IH _ _ H) as [H1 H2]. split; [right; exact H1|exact H2].
    - destruct H as [->|H].
      + split; [left; reflexivity|]. intros Hin. apply existsb_keq in Hin. congruence.
      + destruct (IH _ _ H) as [H1 H2]. split; [right; exact H1|]. intros Hin. apply H2. right. exact Hin.
  Qed.

  Lemma dedup_go_nodup l : forall seen, NoDup (map key (dedup_go key keq seen l)).
  Proof.
    induction l as [|y l IH]; intros seen; cbn; [constructor|].
    destruct (existsb (keq (key y)) seen); [apply IH|].
    cbn. constructor; [|apply IH]. intros Hin. apply in_map_iff in Hin. destruct Hin as (x & Hk & Hx).
    apply dedup_go_sound in Hx. destruct Hx as [_ Hx]. apply Hx. left. symmetry. exact Hk.
  Qed.

  Lemma dedup_go_complete l : forall seen x, In x l -> In (key x) seen \/ In (key x) (map key (dedup_go key keq seen l)).
  Proof.
    induction l as [|y l IH]; intros seen x H; [contradiction|]. cbn.
    destruct (existsb (keq (key y)) seen) eqn:E.
    - destruct H as [->|H]; [left; apply existsb_keq; exact E|apply IH; exact H].
    - destruct H as [->|H]; [right; left; reflexivity|].
      destruct (IH (key y :: seen) x H) as [[Hk|Hk]|Hk].
      + right. left. exact Hk.
      + left. exact Hk.
      + right. right. exact Hk.
  Qed.

  (* if key equality coincides with an equivalence R, the output holds exactly one representative per R-class *)
  Theorem dedup_classes (R : A -> A -> Prop) :
    (forall x y, key x = key y <-> R x y) ->
    forall l,
      (forall x, In x (dedup key keq l) -> In x l) /\
      (forall x, In x l -> exists y, In y (dedup key keq l) /\ R x y) /\
      (forall (i j : nat) d, (i < j < List.length (dedup key keq l))%nat -> ~ R (nth i (dedup key keq l) d) (nth j (dedup key keq l) d)).
  Proof.
    intros HR l. unfold dedup. split; [|split].
    - intros x H. apply dedup_go_sound in H. tauto.
    - intros x H. destruct (dedup_go_complete l [] x H) as [[]|Hk].
      apply in_map_iff in Hk. destruct Hk as (y & E & Hy). exists y. split; [exact Hy|apply HR; symmetry; exact E].
    - intros i j d Hij HRij. apply HR in HRij.
      pose proof (dedup_go_nodup l []) as ND.
      rewrite (NoDup_nth (map key (dedup_go key keq [] l)) (key d)) in ND.
      assert (i = j); [|lia]. apply ND; rewrite ?map_length; try lia.
      rewrite !map_nth. exact HRij.
  Qed.
End DedupFacts.

(* the row with no values (what ExceptIter hashes at the end of its right input) has the key of the row ('') *)
Lemma row_key_eof_refuted w : row_key w [] [] = row_key w [] [HStr []].
Proof. reflexivity. Qed.

(* the same collision with weight strings (GROUP BY passes a schema): the NUL rune has weight 0, i.e. four zero bytes *)
Lemma row_key_separator_schema_refuted w :
  w 0%N = 0%N ->
  row_key w [CStr; CStr] [HStr [97;0]%N; HStr [98]%N] = row_key w [CStr; CStr] [HStr [97]%N; HStr [0;98]%N].
Proof. intros H. cbn. rewrite H. reflexivity. Qed.
