(* C02 — physical plans and their executor, next to the SQL definition of Rel/C02Logical.v.

   The plan language mirrors the row iterators of sql/rowexec and sql/iters as list functions (an iterator is
   the list of rows its Next calls return; an error of any Next is the error of the whole list):
     PTable      sql.TableRowIter                  table scan
     PFilter     plan.FilterIter.Next              keep a row iff sql.IsTrue(cond)
     PProject    plan.ProjectIter / ProjectRow     one output row per input row
     PJoin       joinIter.Next (join_iters.go)     nested loop; foundMatch flag; a left outer join emits the
                                                   NULL-padded row when the scan of the secondary rows ends unmatched
     PCrossJoin  crossJoinIterator.Next            every pair
     PTransposedJoin  a RIGHT JOIN as the factory builds it: LEFT JOIN of the swapped inputs + column projection
     PHashJoin   plan.HashLookup + joinIter        secondary rows bucketed by key, a primary row probes its bucket
     PDistinct   distinctIter (iters/rel_iters.go) hash set of the rows seen, first arrival wins
     PGroupBy    groupByGroupingIter.compute / groupByIter (agg.go): per row the grouping key, get-or-create
                 the buffers of that key (keys remembered in first-seen order), updateBuffers; evalBuffers at
                 the end.  Group-by columns are aggregation.First buffers: the key of the first row.
     PSort       sortIter (stable)        PLimit  LimitIter.Next (position counter)     POffset  offsetIter.Next
     PUnion      iters.UnionIter (+ distinctIter when DISTINCT)
     PIntersect  iters.IntersectIter: multiset of the right rows, a left row is emitted while its counter is positive
     PExcept     iters.ExceptIter: ... a left row is dropped while its counter is positive
   Hash keys (distinctIter, grouping key, set operations, HashLookup) are modelled as the normalised rows
   themselves, i.e. by an injective hash; collisions of the real hash are C07's subject.
   Expressions with subqueries (plan.Subquery / InSubquery / ExistsSubquery .Eval): the subplan is executed
   for every row, with that row pushed on the environment.

   [plan_of] is the plan a planner without optimisations builds for a C02 query.  Definitions only; the
   refinement proof is in C02ExecProofs.v. *)
From Coq Require Import List ZArith NArith Bool.
Import ListNotations.
From GMS Require Import Rel.C02Logical.
Open Scope Z_scope.

(* ---------- sql.IsTrue on the value of a condition ---------- *)
Definition cond_true (v : res val) : res bool :=
  do x <- v;
  match x with
  | VNull => Ok false
  | VInt z => Ok (negb (Z.eqb z 0))
  | VDec m _ => Ok (negb (Z.eqb m 0))
  | VStr _ => Err ErrType
  end.

Section FoldM.
  Context {A B : Type}.
  Variable f : B -> A -> res B.
  Fixpoint foldM (l : list A) (b : B) : res B :=
    match l with
    | [] => Ok b
    | x :: t => do b' <- f b x; foldM t b'
    end.
End FoldM.

(* ---------- FilterIter / ProjectIter ---------- *)
Fixpoint filter_iter (c : row -> res val) (child : list row) : res (list row) :=
  match child with
  | [] => Ok []
  | rw :: t => do b <- cond_true (c rw); do rest <- filter_iter c t; Ok (if b then rw :: rest else rest)
  end.

Fixpoint project_iter (pr : row -> res row) (child : list row) : res (list row) :=
  match child with
  | [] => Ok []
  | rw :: t => do o <- pr rw; do rest <- project_iter pr t; Ok (o :: rest)
  end.

(* ---------- joinIter.Next: scan of the secondary rows for one primary row ---------- *)
Fixpoint join_scan (on : row -> res val) (left_outer : bool) (wr : nat) (l : row) (rs : list row) (found_match : bool)
  : res (list row) :=
  match rs with
  | [] => Ok (if left_outer && negb found_match then [l ++ nulls wr] else [])
  | r :: rs' =>
      do b <- cond_true (on (l ++ r));
      if b then do rest <- join_scan on left_outer wr l rs' true; Ok ((l ++ r) :: rest)
      else join_scan on left_outer wr l rs' found_match
  end.

Fixpoint join_iter (on : row -> res val) (left_outer : bool) (wr : nat) (ls rs : list row) : res (list row) :=
  match ls with
  | [] => Ok []
  | l :: t => do a <- join_scan on left_outer wr l rs false; do b <- join_iter on left_outer wr t rs; Ok (a ++ b)
  end.

Definition cross_iter (ls rs : list row) : list row := flat_map (fun l => map (app l) rs) ls.

(* planbuilder/factory.go buildJoin "transposed right join": A RIGHT JOIN B ON c is executed as
   B LEFT JOIN A ON c, below the projection that puts the columns of A first; the field indexes of c are those
   of the A-first row.  [transpose_row wr] is that projection on a physical row (B's [wr] columns first). *)
Definition transpose_row (wr : nat) (x : row) : row := skipn wr x ++ firstn wr x.

(* ---------- plan.HashLookup: key tuple of a row; a NULL component means "never stored, never probes" ---------- *)
Definition is_null (v : val) : bool := match v with VNull => true | _ => false end.

Definition hash_key (kf : row -> res row) (rw : row) : res (option row) :=
  do k <- kf rw; Ok (if existsb is_null k then None else Some (nrow k)).

Definition bucket (k : row) (keyed : list (option row * row)) : list row :=
  map snd (filter (fun kr => match fst kr with Some k' => row_beq k k' | None => false end) keyed).

Fixpoint hash_join_iter (on : row -> res val) (left_outer : bool) (wr : nat) (lk : row -> res row)
         (keyed : list (option row * row)) (ls : list row) : res (list row) :=
  match ls with
  | [] => Ok []
  | l :: t =>
      do k <- hash_key lk l;
      do a <- join_scan on left_outer wr l (match k with Some k' => bucket k' keyed | None => [] end) false;
      do b <- hash_join_iter on left_outer wr lk keyed t;
      Ok (a ++ b)
  end.

(* ---------- distinctIter: [seen] holds the hash keys (normalised rows) of the rows already returned ---------- *)
Fixpoint distinct_iter (seen : list row) (child : list row) : list row :=
  match child with
  | [] => []
  | rw :: t => let k := nrow rw in
               if existsb (row_beq k) seen then distinct_iter seen t else rw :: distinct_iter (k :: seen) t
  end.

(* ---------- aggregation buffers (sql/expression/function/aggregation/unary_agg_buffers.go) ---------- *)
Inductive buf :=
| BCount (n : Z)                                   (* countBuffer *)
| BDistinct (seen : list val)                      (* countDistinctBuffer: the values seen *)
| BSum (isnil : bool) (acc : Z * nat)              (* sumBuffer: isnil flag + accumulator *)
| BExt (cur : option val)                          (* minBuffer / maxBuffer *)
| BAvg (sum : Z * nat) (rows : Z).                 (* avgBuffer: sum and count of the non-NULL inputs *)

Definition buf_init (f : aggfn) : buf :=
  match f with
  | ACountStar | ACount => BCount 0
  | ACountDistinct => BDistinct []
  | ASum => BSum true (0, O)
  | AMin | AMax => BExt None
  | AAvg => BAvg (0, O) 0
  end.

(* replace the current extreme only when Compare says strictly smaller (MIN) / greater (MAX) *)
Definition ext_update (want : comparison) (cur : option val) (v : val) : res buf :=
  if is_null v then Ok (BExt cur)
  else match cur with
       | None => Ok (BExt (Some v))
       | Some a => do c <- cmp_nn v a; Ok (BExt (Some (if comp_eqb c want then v else a)))
       end.

Definition buf_update (f : aggfn) (b : buf) (v : val) : res buf :=
  match f, b with
  | ACountStar, BCount n => Ok (BCount (n + 1))
  | ACount, BCount n => Ok (BCount (if is_null v then n else n + 1))
  | ACountDistinct, BDistinct seen =>
      Ok (BDistinct (if is_null v || mem val_eqb v seen then seen else v :: seen))
  | ASum, BSum isnil acc =>
      if is_null v then Ok b
      else match num_of v with Some x => Ok (BSum false (num_add acc x)) | None => Err ErrType end
  | AMin, BExt cur => ext_update Lt cur v
  | AMax, BExt cur => ext_update Gt cur v
  | AAvg, BAvg acc n =>
      if is_null v then Ok b
      else match num_of v with Some x => Ok (BAvg (num_add acc x) (n + 1)) | None => Err ErrType end
  | _, _ => Err ErrShape
  end.

Definition buf_eval (b : buf) : val :=
  match b with
  | BCount n => VInt n
  | BDistinct seen => VInt (Z.of_nat (length seen))
  | BSum isnil (m, s) => if isnil then VNull else mk_num m s
  | BExt None => VNull
  | BExt (Some v) => v
  | BAvg (m, s) n => if Z.eqb n 0 then VNull else VDec (div_round (m * 10000) n) (s + 4)
  end.

(* an aggregate of the plan: function + evaluator of its argument on a child row *)
Definition pagg : Type := (aggfn * (row -> res val))%type.

(* updateBuffers: for each buffer, evaluate its child expression on the row and update *)
Fixpoint update_buffers (aggs : list pagg) (rw : row) (bufs : list buf) : res (list buf) :=
  match aggs, bufs with
  | [], [] => Ok []
  | a :: aggs', b :: bufs' =>
      do v <- snd a rw; do b' <- buf_update (fst a) b v; do r <- update_buffers aggs' rw bufs'; Ok (b' :: r)
  | _, _ => Err ErrShape
  end.

Definition new_buffers (aggs : list pagg) : list buf := map (fun a => buf_init (fst a)) aggs.
Definition eval_buffers (bufs : list buf) : row := map buf_eval bufs.

(* the table of groups: (key of the first row of the group, its buffers), in first-seen order *)
Definition gstate : Type := list (row * list buf).

(* get-or-create the buffers of key [k], then updateBuffers with the row *)
Fixpoint upsert (aggs : list pagg) (k rw : row) (st : gstate) : res gstate :=
  match st with
  | [] => do b <- update_buffers aggs rw (new_buffers aggs); Ok [(k, b)]
  | (k', bufs) :: t =>
      if row_eqb k k' then do b <- update_buffers aggs rw bufs; Ok ((k', b) :: t)
      else do t' <- upsert aggs k rw t; Ok ((k', bufs) :: t')
  end.

Fixpoint gb_compute (keyf : row -> res row) (aggs : list pagg) (child : list row) (st : gstate) : res gstate :=
  match child with
  | [] => Ok st
  | rw :: t => do k <- keyf rw; do st' <- upsert aggs k rw st; gb_compute keyf aggs t st'
  end.

(* without grouping keys (groupByIter) there is one buffer set, evaluated even when the child is empty *)
Definition group_by_iter (keyf : row -> res row) (aggs : list pagg) (nkeys : nat) (child : list row) : res (list row) :=
  do st <- gb_compute keyf aggs child [];
  Ok (match nkeys, st with
      | O, [] => [eval_buffers (new_buffers aggs)]
      | _, _ => map (fun g => fst g ++ eval_buffers (snd g)) st
      end).

(* ---------- sortIter, LimitIter, offsetIter ---------- *)
(* sort.Stable on the materialised rows; modelled by the stable insertion sort that is its base case *)
Definition sort_iter (keys : list (nat * bool)) (child : list row) : list row := isort (row_leb keys) child.

Fixpoint limit_iter (pos limit : nat) (child : list row) : list row :=
  match child with
  | [] => []
  | x :: t => if Nat.leb limit pos then [] else x :: limit_iter (S pos) limit t
  end.

Fixpoint offset_iter (skip : nat) (child : list row) : list row :=
  match child with
  | [] => []
  | x :: t => match skip with O => child | S s => offset_iter s t end
  end.

(* ---------- set operations ---------- *)
Definition union_iter (distinct : bool) (l r : list row) : list row :=
  if distinct then distinct_iter [] (l ++ r) else l ++ r.

(* IntersectIter: cache = hash key -> number of right rows with that key *)
Fixpoint cache_add (k : row) (cache : list (row * nat)) : list (row * nat) :=
  match cache with
  | [] => [(k, 1%nat)]
  | (k', n) :: t => if row_beq k k' then (k', S n) :: t else (k', n) :: cache_add k t
  end.
Fixpoint cache_get (k : row) (cache : list (row * nat)) : nat :=
  match cache with
  | [] => O
  | (k', n) :: t => if row_beq k k' then n else cache_get k t
  end.
Fixpoint cache_dec (k : row) (cache : list (row * nat)) : list (row * nat) :=
  match cache with
  | [] => []
  | (k', n) :: t => if row_beq k k' then (k', Nat.pred n) :: t else (k', n) :: cache_dec k t
  end.
Definition build_cache (r : list row) : list (row * nat) := fold_left (fun c rw => cache_add (nrow rw) c) r [].
Fixpoint intersect_scan (cache : list (row * nat)) (l : list row) : list row :=
  match l with
  | [] => []
  | rw :: t => let k := nrow rw in
               match cache_get k cache with
               | O => intersect_scan cache t
               | S _ => rw :: intersect_scan (cache_dec k cache) t
               end
  end.
Definition intersect_iter (l r : list row) : list row := intersect_scan (build_cache r) l.

(* ExceptIter: a left row is dropped while the counter of its key is positive.  (The Go loop also counts the
   hash of the nil row it reads at EOF; with hash keys modelled as the normalised rows themselves this extra
   key matches no row: the collision of the real byte-level hash with the row ('') is a recorded finding of
   the differential run and lies below this model.) *)
Fixpoint except_scan (cache : list (row * nat)) (l : list row) : list row :=
  match l with
  | [] => []
  | rw :: t => let k := nrow rw in
               match cache_get k cache with
               | O => rw :: except_scan cache t
               | S _ => except_scan (cache_dec k cache) t
               end
  end.
(* EXCEPT DISTINCT: both inputs go through a distinctIter first (buildSetOp) *)
Definition except_iter (distinct : bool) (l r : list row) : list row :=
  if distinct then except_scan (build_cache (distinct_iter [] r)) (distinct_iter [] l)
  else except_scan (build_cache r) l.

(* ---------- InTuple / InSubquery: OR of the equalities, remembering whether a NULL comparison was seen ---------- *)
Fixpoint in_loop (x : val) (ys : list val) (found sawnull : bool) : res tri :=
  match ys with
  | [] => Ok (if found then TT else if sawnull then TN else TF)
  | y :: t =>
      do c <- cmp3 OEq x y;
      match c with
      | TT => in_loop x t true sawnull
      | TN => in_loop x t found true
      | TF => in_loop x t found sawnull
      end
  end.

(* ---------- plans ---------- *)
Inductive pexpr :=
| PConst (v : val)
| PCol (d i : nat)
| PCmp (o : cmpop) (a b : pexpr)
| PArith (o : arop) (a b : pexpr)
| PAnd (a b : pexpr)
| POr (a b : pexpr)
| PNot (a : pexpr)
| PIsNull (a : pexpr)
| PInTuple (a : pexpr) (l : list pexpr)
| PExistsSub (p : plan)
| PInSub (a : pexpr) (p : plan)
| PScalarSub (p : plan)
with plan :=
| PTable (t : nat)
| PFilter (c : pexpr) (child : plan)
| PProject (es : list pexpr) (child : plan)
| PJoin (left_outer : bool) (l r : plan) (on : pexpr)
| PCrossJoin (l r : plan)
| PTransposedJoin (l r : plan) (on : pexpr)
| PHashJoin (left_outer : bool) (l r : plan) (lkeys rkeys : list pexpr) (on : pexpr)
| PDistinct (child : plan)
| PGroupBy (keys : list pexpr) (aggs : list (aggfn * pexpr)) (child : plan)
| PSort (keys : list (nat * bool)) (child : plan)
| PLimit (n : nat) (child : plan)
| POffset (n : nat) (child : plan)
| PUnion (distinct : bool) (l r : plan)
| PIntersect (distinct : bool) (l r : plan)
| PExcept (distinct : bool) (l r : plan).

(* width of the schema of a plan *)
Fixpoint pwidth (d : db) (p : plan) : nat :=
  match p with
  | PTable t => match nth_error d t with Some (w, _) => w | None => O end
  | PFilter _ c | PDistinct c | PSort _ c | PLimit _ c | POffset _ c => pwidth d c
  | PProject es _ => length es
  | PJoin _ l r _ | PCrossJoin l r | PHashJoin _ l r _ _ _ | PTransposedJoin l r _ => (pwidth d l + pwidth d r)%nat
  | PGroupBy keys aggs _ => (length keys + length aggs)%nat
  | PUnion _ l _ | PIntersect _ l _ | PExcept _ l _ => pwidth d l
  end.

(* The executor.  [en] is the stack of outer rows (the `row` argument every Go iterator builder receives);
   the expressions of an operator see the operator's current row pushed on it.  The secondary side of a join
   is materialised once: its plan does not depend on the primary row (no LATERAL). *)
Fixpoint eval_pexpr (d : db) (en : env) (e : pexpr) {struct e} : res val :=
  match e with
  | PConst v => Ok v
  | PCol k i =>
      match nth_error en k with
      | Some r => match nth_error r i with Some v => Ok v | None => Err ErrShape end
      | None => Err ErrShape
      end
  | PCmp o a b =>
      do x <- eval_pexpr d en a; do y <- eval_pexpr d en b; do t <- cmp3 o x y; Ok (val_of_tri t)
  | PArith o a b =>
      do x <- eval_pexpr d en a; do y <- eval_pexpr d en b; arith o x y
  | PAnd a b =>
      do x <- eval_pexpr d en a; do y <- eval_pexpr d en b;
      do tx <- tri_of_val x; do ty <- tri_of_val y; Ok (val_of_tri (and3 tx ty))
  | POr a b =>
      do x <- eval_pexpr d en a; do y <- eval_pexpr d en b;
      do tx <- tri_of_val x; do ty <- tri_of_val y; Ok (val_of_tri (or3 tx ty))
  | PNot a =>
      do x <- eval_pexpr d en a; do tx <- tri_of_val x; Ok (val_of_tri (not3 tx))
  | PIsNull a =>
      do x <- eval_pexpr d en a; Ok (if is_null x then VInt 1 else VInt 0)
  | PInTuple a l =>
      do x <- eval_pexpr d en a; do ys <- mapM (eval_pexpr d en) l;
      do t <- in_loop x ys false false; Ok (val_of_tri t)
  | PExistsSub p =>
      do rs <- exec_env d en p; Ok (match rs with [] => VInt 0 | _ => VInt 1 end)
  | PInSub a p =>
      do x <- eval_pexpr d en a; do rs <- exec_env d en p; do ys <- mapM first_col rs;
      do t <- in_loop x ys false false; Ok (val_of_tri t)
  | PScalarSub p =>
      do rs <- exec_env d en p;
      match rs with
      | [] => Ok VNull
      | [r] => first_col r
      | _ => Err ErrCard
      end
  end
with exec_env (d : db) (en : env) (p : plan) {struct p} : res (list row) :=
  match p with
  | PTable t => match nth_error d t with Some (_, rows) => Ok rows | None => Err ErrShape end
  | PFilter c ch =>
      do rows <- exec_env d en ch; filter_iter (fun rw => eval_pexpr d (rw :: en) c) rows
  | PProject es ch =>
      do rows <- exec_env d en ch; project_iter (fun rw => mapM (eval_pexpr d (rw :: en)) es) rows
  | PJoin lo l r on =>
      do L <- exec_env d en l; do R <- exec_env d en r;
      join_iter (fun rw => eval_pexpr d (rw :: en) on) lo (pwidth d r) L R
  | PCrossJoin l r =>
      do L <- exec_env d en l; do R <- exec_env d en r; Ok (cross_iter L R)
  | PTransposedJoin l r on =>
      do L <- exec_env d en l; do R <- exec_env d en r;
      do rows <- join_iter (fun x => eval_pexpr d (transpose_row (pwidth d r) x :: en) on) true (pwidth d l) R L;
      Ok (map (transpose_row (pwidth d r)) rows)
  | PHashJoin lo l r lk rk on =>
      do L <- exec_env d en l; do R <- exec_env d en r;
      do keyed <- mapM (fun rw => do k <- hash_key (fun rw => mapM (eval_pexpr d (rw :: en)) rk) rw; Ok (k, rw)) R;
      hash_join_iter (fun rw => eval_pexpr d (rw :: en) on) lo (pwidth d r)
                     (fun rw => mapM (eval_pexpr d (rw :: en)) lk) keyed L
  | PDistinct ch =>
      do rows <- exec_env d en ch; Ok (distinct_iter [] rows)
  | PGroupBy keys aggs ch =>
      do rows <- exec_env d en ch;
      group_by_iter (fun rw => mapM (eval_pexpr d (rw :: en)) keys)
                    (map (fun fe : aggfn * pexpr => (fst fe, fun rw => eval_pexpr d (rw :: en) (snd fe))) aggs)
                    (length keys) rows
  | PSort keys ch => do rows <- exec_env d en ch; Ok (sort_iter keys rows)
  | PLimit n ch => do rows <- exec_env d en ch; Ok (limit_iter O n rows)
  | POffset n ch => do rows <- exec_env d en ch; Ok (offset_iter n rows)
  | PUnion dist l r => do L <- exec_env d en l; do R <- exec_env d en r; Ok (union_iter dist L R)
  | PIntersect dist l r =>
      do L <- exec_env d en l; do R <- exec_env d en r;
      Ok (let o := intersect_iter L R in if dist then distinct_iter [] o else o)
  | PExcept dist l r =>
      do L <- exec_env d en l; do R <- exec_env d en r; Ok (except_iter dist L R)
  end.

Definition exec (d : db) (p : plan) : res (list row) := exec_env d [] p.

(* ---------- the plan of a query: no optimisation, one operator per clause ---------- *)
Definition wrap_distinct (dist : bool) (p : plan) : plan := if dist then PDistinct p else p.

Fixpoint cexpr (e : expr) : pexpr :=
  match e with
  | EConst v => PConst v
  | ECol k i => PCol k i
  | ECmp o a b => PCmp o (cexpr a) (cexpr b)
  | EArith o a b => PArith o (cexpr a) (cexpr b)
  | EAnd a b => PAnd (cexpr a) (cexpr b)
  | EOr a b => POr (cexpr a) (cexpr b)
  | ENot a => PNot (cexpr a)
  | EIsNull a => PIsNull (cexpr a)
  | EIn a l => PInTuple (cexpr a) (map cexpr l)
  | EExists q => PExistsSub (plan_of q)
  | EInQ a q => PInSub (cexpr a) (plan_of q)
  | EScalar q => PScalarSub (plan_of q)
  end
with plan_of (q : query) : plan :=
  match q with
  | QTable t => PTable t
  | QJoin k l r on =>
      match k with
      | JInner => PJoin false (plan_of l) (plan_of r) (cexpr on)
      | JLeft => PJoin true (plan_of l) (plan_of r) (cexpr on)
      | JCross => PCrossJoin (plan_of l) (plan_of r)
      | JRight => PTransposedJoin (plan_of l) (plan_of r) (cexpr on)
      end
  | QSelect src wh proj dist =>
      wrap_distinct dist (PProject (map cexpr proj) (PFilter (cexpr wh) (plan_of src)))
  | QGroup src wh keys aggs hav proj dist =>
      wrap_distinct dist
        (PProject (map cexpr proj)
           (PFilter (cexpr hav)
              (PGroupBy (map cexpr keys) (map (fun fe : aggfn * expr => (fst fe, cexpr (snd fe))) aggs)
                 (PFilter (cexpr wh) (plan_of src)))))
  | QSetOp o all l r =>
      match o with
      | SUnion => PUnion (negb all) (plan_of l) (plan_of r)
      | SIntersect => PIntersect (negb all) (plan_of l) (plan_of r)
      | SExcept => PExcept (negb all) (plan_of l) (plan_of r)
      end
  | QOrder q keys lim =>
      match lim with
      | None => PSort keys (plan_of q)
      | Some (n, off) => PLimit n (POffset off (PSort keys (plan_of q)))
      end
  end.

(* Side conditions of the refinement theorem.  Only RIGHT JOIN needs one: the transposing projection splits a
   physical row at the static width of the right input, so the rows of that input must have this width.  That
   holds when the rows of every table have the table's width ([wf_db]) and the branches of the set operations
   inside the join inputs have equally many columns ([wt_query]). *)
Definition wf_db (d : db) : bool :=
  forallb (fun t : table => forallb (fun r : row => Nat.eqb (length r) (fst t)) (snd t)) d.

Fixpoint wt_query (d : db) (q : query) : bool :=
  match q with
  | QTable _ => true
  | QJoin _ l r _ => wt_query d l && wt_query d r
  | QSelect _ _ _ _ | QGroup _ _ _ _ _ _ _ => true            (* the width is that of the projection list *)
  | QSetOp _ _ l r => wt_query d l && wt_query d r && Nat.eqb (qwidth d l) (qwidth d r)
  | QOrder q _ _ => wt_query d q
  end.

Fixpoint ok_expr (d : db) (e : expr) : bool :=
  match e with
  | EConst _ | ECol _ _ => true
  | ECmp _ a b | EArith _ a b | EAnd a b | EOr a b => ok_expr d a && ok_expr d b
  | ENot a | EIsNull a => ok_expr d a
  | EIn a l => ok_expr d a && forallb (ok_expr d) l
  | EExists q | EScalar q => ok_query d q
  | EInQ a q => ok_expr d a && ok_query d q
  end
with ok_query (d : db) (q : query) : bool :=
  match q with
  | QTable _ => true
  | QJoin k l r on =>
      match k with JRight => wf_db d && wt_query d r | _ => true end && ok_query d l && ok_query d r && ok_expr d on
  | QSelect src wh proj _ => ok_query d src && ok_expr d wh && forallb (ok_expr d) proj
  | QGroup src wh keys aggs hav proj _ =>
      ok_query d src && ok_expr d wh && forallb (ok_expr d) keys
      && forallb (fun fe : aggfn * expr => ok_expr d (snd fe)) aggs && ok_expr d hav && forallb (ok_expr d) proj
  | QSetOp _ _ l r => ok_query d l && ok_query d r
  | QOrder q _ _ => ok_query d q
  end.

(* the db-independent special case: no RIGHT JOIN anywhere *)
Fixpoint wf_expr (e : expr) : bool :=
  match e with
  | EConst _ | ECol _ _ => true
  | ECmp _ a b | EArith _ a b | EAnd a b | EOr a b => wf_expr a && wf_expr b
  | ENot a | EIsNull a => wf_expr a
  | EIn a l => wf_expr a && forallb wf_expr l
  | EExists q | EScalar q => wf_query q
  | EInQ a q => wf_expr a && wf_query q
  end
with wf_query (q : query) : bool :=
  match q with
  | QTable _ => true
  | QJoin k l r on =>
      match k with JRight => false | _ => true end && wf_query l && wf_query r && wf_expr on
  | QSelect src wh proj _ => wf_query src && wf_expr wh && forallb wf_expr proj
  | QGroup src wh keys aggs hav proj _ =>
      wf_query src && wf_expr wh && forallb wf_expr keys && forallb (fun fe : aggfn * expr => wf_expr (snd fe)) aggs
      && wf_expr hav && forallb wf_expr proj
  | QSetOp o all l r => wf_query l && wf_query r
  | QOrder q _ _ => wf_query q
  end.
