(* C01, layer (b): physical join operators of sql/rowexec as list functions, next to the logical joins they
   implement.  L / R are the row types of the two inputs; [cond x y] is "the ON condition is TRUE on x ++ y". *)
From Coq Require Import List Bool.
Import ListNotations.

Section Joins.
  Context {L R K : Type}.
  Variable cond : L -> R -> bool.

  (* ---------- logical joins (the definition) ---------- *)
  Definition logical_inner (l : list L) (r : list R) : list (L * option R) :=
    flat_map (fun x => map (fun y => (x, Some y)) (filter (cond x) r)) l.
  Definition logical_left (l : list L) (r : list R) : list (L * option R) :=
    flat_map (fun x => match filter (cond x) r with [] => [(x, None)] | m => map (fun y => (x, Some y)) m end) l.
  Definition logical_semi (l : list L) (r : list R) : list L := filter (fun x => existsb (cond x) r) l.
  Definition logical_anti (l : list L) (r : list R) : list L := filter (fun x => negb (existsb (cond x) r)) l.

  (* ---------- joinIter.Next (sql/rowexec/join_iters.go): for each primary row scan the secondary rows,
     emit the matches, remember foundMatch; at the end of the secondary rows a left outer join emits the
     NULL-padded row when nothing matched ---------- *)
  Fixpoint nlj_scan (left_outer : bool) (x : L) (ys : list R) (found_match : bool) : list (L * option R) :=
    match ys with
    | [] => if left_outer && negb found_match then [(x, None)] else []
    | y :: ys' => if cond x y then (x, Some y) :: nlj_scan left_outer x ys' true
                  else nlj_scan left_outer x ys' found_match
    end.
  Definition nlj (left_outer : bool) (l : list L) (r : list R) : list (L * option R) :=
    flat_map (fun x => nlj_scan left_outer x r false) l.

  (* ---------- existsIter (semi / anti): stop scanning the right side at the first match ---------- *)
  Fixpoint exists_scan (x : L) (ys : list R) : bool :=
    match ys with [] => false | y :: ys' => if cond x y then true else exists_scan x ys' end.
  Definition exists_semi (l : list L) (r : list R) : list L := filter (fun x => exists_scan x r) l.
  Definition exists_anti (l : list L) (r : list R) : list L := filter (fun x => negb (exists_scan x r)) l.

  (* ---------- hash join (plan.HashLookup + joinIter): the right side is bucketed by its key tuple, a left
     row probes with its own key; a key with a NULL component (None) is never stored and never probes; the
     full ON condition is evaluated on the candidates ---------- *)
  Variable key_l : L -> option K.
  Variable key_r : R -> option K.
  Variable key_eqb : K -> K -> bool.

  Definition bucket (k : K) (r : list R) : list R :=
    filter (fun y => match key_r y with Some k' => key_eqb k k' | None => false end) r.
  Definition probe (x : L) (r : list R) : list R :=
    match key_l x with Some k => bucket k r | None => [] end.
  Definition hash_join (left_outer : bool) (l : list L) (r : list R) : list (L * option R) :=
    flat_map (fun x => nlj_scan left_outer x (probe x r) false) l.
  Definition hash_semi (l : list L) (r : list R) : list L := filter (fun x => exists_scan x (probe x r)) l.
  Definition hash_anti (l : list L) (r : list R) : list L := filter (fun x => negb (exists_scan x (probe x r))) l.
End Joins.

(* anti join "including NULLs" (NOT IN): the row survives only if the condition is FALSE for every right row;
   this is the anti join whose boolean condition is "not FALSE" *)
Inductive tri := TT | TF | TN.
Definition not_false (t : tri) : bool := match t with TF => false | _ => true end.
Definition anti_include_nulls {L R} (c3 : L -> R -> tri) (l : list L) (r : list R) : list L :=
  filter (fun x => forallb (fun y => match c3 x y with TF => true | _ => false end) r) l.
