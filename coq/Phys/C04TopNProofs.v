(* C04 — GetTopNRows over any priority queue meeting [heap_spec] returns the first n rows of the stable
   ordering; the list-backed queue meets the spec; CompareRows is a total preorder. *)
From Coq Require Import List Arith NArith ZArith Bool Lia Permutation.
Import ListNotations.
From GMS Require Import Base.CorrLib Phys.C04Sort Phys.C04SortProofs.

Section TopNProofs.
  Context {A : Type}.
  Variable cmp : A -> A -> comparison.
  Hypothesis PO : preorder cmp.

  Notation tg := (tagged (A:=A)).
  Notation tc := (tcmp cmp).
  Notation tsort := (ssort (tcmp cmp)).
  Notation tins := (sinsert (tcmp cmp)).
  Notation tleb := (leb (tcmp cmp)).
  Notation tsorted := (sorted (tcmp cmp)).

  Lemma tcmp_po : preorder tc.
  Proof.
    split.
    - intros a b. unfold tcmp. rewrite (po_antisym _ PO (fst a) (fst b)).
      destruct (cmp (fst a) (fst b)); cbn; try reflexivity. apply N.compare_antisym.
    - intros a b c. unfold tcmp.
      destruct (cmp_full cmp PO (fst a) (fst b) (fst c)) as [F1 [F2 [F3 F4]]].
      destruct (cmp (fst a) (fst b)) eqn:Cab; destruct (cmp (fst b) (fst c)) eqn:Cbc; intros H1 H2;
        try congruence.
      + rewrite (F1 eq_refl). apply N.compare_le_iff. rewrite N.compare_le_iff in H1, H2. lia.
      + rewrite (F1 eq_refl). discriminate.
      + rewrite (F2 eq_refl). discriminate.
      + rewrite (F3 eq_refl eq_refl). discriminate.
  Qed.

  Lemma hless_leb (y x : tg) : hless cmp y x = negb (tleb y x).
  Proof.
    unfold hless, C04Sort.leb, tcmp. destruct (cmp (fst y) (fst x)); try reflexivity.
    unfold N.ltb. rewrite (N.compare_antisym (snd y) (snd x)). destruct (snd y ?= snd x)%N; reflexivity.
  Qed.

  Lemma tcmp_eq_tag (a b : tg) : tc a b = Eq -> snd a = snd b.
  Proof. unfold tcmp. destruct (cmp (fst a) (fst b)); try discriminate. apply N.compare_eq. Qed.

  Lemma nodup_tag_inj (l : list tg) : NoDup (map snd l) -> forall a b, In a l -> In b l -> snd a = snd b -> a = b.
  Proof.
    induction l as [|c t IH]; intros ND a b Ha Hb E; [destruct Ha|].
    cbn [map] in ND. inversion ND as [|? ? Hn ND']; subst.
    destruct Ha as [->|Ha], Hb as [->|Hb]; auto.
    - exfalso. apply Hn. rewrite E. apply in_map. exact Hb.
    - exfalso. apply Hn. rewrite <- E. apply in_map. exact Ha.
  Qed.

  Lemma pointwise_eq (w : list tg) : NoDup (map snd w) -> forall l1 l2,
    Forall2 (eqv tc) l1 l2 -> incl l1 w -> incl l2 w -> l1 = l2.
  Proof.
    intros ND l1 l2 H. induction H as [|a b l1 l2 Hab H IH]; intros I1 I2; [reflexivity|].
    f_equal.
    - apply (nodup_tag_inj w ND); [apply I1; left; reflexivity|apply I2; left; reflexivity|].
      apply tcmp_eq_tag. exact Hab.
    - apply IH; intros z Hz; [apply I1|apply I2]; right; exact Hz.
  Qed.

  (* under distinct arrival numbers a sorted arrangement is unique *)
  Lemma uniq (l1 l2 : list tg) :
    NoDup (map snd l1) -> tsorted l1 -> tsorted l2 -> Permutation l1 l2 -> l1 = l2.
  Proof.
    intros ND S1 S2 HP. apply (pointwise_eq l1 ND).
    - apply (sorted_perm_pointwise tc tcmp_po); assumption.
    - apply incl_refl.
    - intros z Hz. eapply Permutation_in; [apply Permutation_sym; exact HP|exact Hz].
  Qed.

  Lemma nodup_perm (l1 l2 : list tg) : Permutation l1 l2 -> NoDup (map snd l1) -> NoDup (map snd l2).
  Proof. intros HP. apply Permutation_NoDup. apply Permutation_map. exact HP. Qed.

  Lemma nodup_app_l {B} (l1 l2 : list B) : NoDup (l1 ++ l2) -> NoDup l1.
  Proof.
    induction l1 as [|x t IH]; cbn [app]; intros H; [constructor|].
    inversion H as [|? ? Hn H']; subst. constructor; [|apply IH; exact H'].
    intros Hin. apply Hn. apply in_or_app. left. exact Hin.
  Qed.

  Lemma in_firstn {B} n (l : list B) x : In x (firstn n l) -> In x l.
  Proof. intros H. rewrite <- (firstn_skipn n l). apply in_or_app. left. exact H. Qed.

  Lemma nodup_firstn n (l : list tg) : NoDup (map snd l) -> NoDup (map snd (firstn n l)).
  Proof.
    intros H. rewrite <- (firstn_skipn n l), map_app in H. eapply nodup_app_l. exact H.
  Qed.

  (* arrival numbers *)
  Fixpoint tag_from (k : N) (xs : list A) : list tg :=
    match xs with [] => [] | x :: t => (x, N.succ k) :: tag_from (N.succ k) t end.

  Lemma tag_from_gt xs : forall k p, In p (tag_from k xs) -> (k < snd p)%N.
  Proof.
    induction xs as [|x t IH]; intros k p H; [destruct H|]. cbn [tag_from] in H.
    destruct H as [<-|H]; [cbn; lia|]. apply IH in H. lia.
  Qed.

  Lemma tag_from_nodup xs : forall k, NoDup (map snd (tag_from k xs)).
  Proof.
    induction xs as [|x t IH]; intros k; cbn [tag_from map]; constructor; [|apply IH].
    intros H. apply in_map_iff in H. destruct H as [p [E Hp]]. apply tag_from_gt in Hp. cbn in E. lia.
  Qed.

  Lemma tag_from_fst xs : forall k, map fst (tag_from k xs) = xs.
  Proof. induction xs as [|x t IH]; intros k; cbn [tag_from map]; [reflexivity|]. rewrite IH. reflexivity. Qed.

  (* the order on tagged rows refines the stable order on rows *)
  Lemma tins_fst (e : tg) : forall l, (forall p, In p l -> (snd e < snd p)%N) ->
    map fst (tins e l) = sinsert cmp (fst e) (map fst l).
  Proof.
    induction l as [|y t IH]; intros H; [reflexivity|]. cbn [C04Sort.sinsert map].
    assert (Hy : (snd e < snd y)%N) by (apply H; left; reflexivity).
    assert (E : tleb e y = leb cmp (fst e) (fst y)).
    { unfold C04Sort.leb, tcmp. destruct (cmp (fst e) (fst y)); try reflexivity.
      apply N.compare_lt_iff in Hy. rewrite Hy. reflexivity. }
    rewrite E. destruct (leb cmp (fst e) (fst y)); [reflexivity|].
    cbn [map]. rewrite IH; [reflexivity|]. intros p Hp. apply H. right. exact Hp.
  Qed.

  Lemma tsort_fst xs : forall k, map fst (tsort (tag_from k xs)) = ssort cmp xs.
  Proof.
    induction xs as [|x t IH]; intros k; [reflexivity|]. cbn [tag_from C04Sort.ssort].
    rewrite tins_fst; [cbn [fst]; rewrite IH; reflexivity|].
    intros p Hp. cbn [snd]. eapply Permutation_in in Hp; [|apply ssort_perm]. apply tag_from_gt in Hp. exact Hp.
  Qed.

  Lemma firstn_sinsert {B} (c : B -> B -> comparison) e : forall n s,
    firstn n (sinsert c e s) = firstn n (sinsert c e (firstn n s)).
  Proof.
    induction n as [|n IH]; intros s; [reflexivity|].
    destruct s as [|y t]; [reflexivity|]. cbn [firstn C04Sort.sinsert].
    destruct (leb c e y).
    - cbn [firstn]. f_equal. destruct n; [reflexivity|].
      rewrite !firstn_cons, firstn_firstn. replace (Nat.min n (S n)) with n by lia. reflexivity.
    - cbn [firstn]. f_equal. apply IH.
  Qed.

  (* ---------------- the feeding loop ---------------- *)
  Variable ops : heap_ops (A:=A).
  Hypothesis HS : heap_spec cmp ops.
  Notation elems := (helems ops).

  Lemma feed_inv n : forall xs h k P,
    (forall p, In p P -> (snd p <= k)%N) -> NoDup (map snd P) ->
    Permutation (elems h) (firstn n (tsort P)) ->
    Permutation (elems (topn_feed ops n h k xs)) (firstn n (tsort (P ++ tag_from k xs))).
  Proof.
    induction xs as [|x t IH]; intros h k P Hk ND Inv.
    - cbn [topn_feed tag_from]. rewrite app_nil_r. exact Inv.
    - cbn [topn_feed tag_from]. set (e := (x, N.succ k)).
      change (e :: tag_from (N.succ k) t) with ([e] ++ tag_from (N.succ k) t). rewrite app_assoc.
      assert (NDe : NoDup (map snd (P ++ [e]))).
      { eapply nodup_perm; [apply Permutation_cons_append|]. cbn [map]. constructor; [|exact ND].
        intros H. apply in_map_iff in H. destruct H as [p [E Hp]]. apply Hk in Hp. cbn in E. lia. }
      apply IH; [| exact NDe |].
      { intros p Hp. apply in_app_or in Hp. destruct Hp as [Hp|[<-|[]]]; [apply Hk in Hp; lia|cbn; lia]. }
      set (S0 := tsort P) in *. set (F := firstn n S0) in *.
      assert (HW : tsort (P ++ [e]) = tins e S0).
      { apply uniq.
        - eapply nodup_perm; [apply Permutation_sym, ssort_perm|exact NDe].
        - apply (ssort_sorted tc tcmp_po).
        - apply (sinsert_sorted tc tcmp_po). apply (ssort_sorted tc tcmp_po).
        - rewrite ssort_perm, sinsert_perm. rewrite <- Permutation_cons_append. apply perm_skip.
          symmetry. apply ssort_perm. }
      rewrite HW, firstn_sinsert. fold F. set (Q := tins e F).
      assert (HQs : tsorted Q).
      { apply (sinsert_sorted tc tcmp_po). apply (sorted_firstn tc). apply (ssort_sorted tc tcmp_po). }
      assert (HQp : Permutation Q (e :: F)) by apply sinsert_perm.
      assert (H1 : Permutation (elems (hpush ops e h)) Q).
      { rewrite (hs_push _ _ HS). rewrite HQp. apply perm_skip. exact Inv. }
      assert (HQW : incl Q (tsort (P ++ [e]))).
      { intros z Hz. eapply Permutation_in in Hz; [|exact HQp].
        eapply Permutation_in; [apply Permutation_sym, ssort_perm|]. apply in_or_app.
        destruct Hz as [<-|Hz]; [right; left; reflexivity|left].
        unfold F in Hz. apply in_firstn in Hz. eapply Permutation_in; [apply ssort_perm|exact Hz]. }
      assert (HQl : length Q = S (length F)) by (rewrite (Permutation_length HQp); reflexivity).
      assert (HFl : length F <= n) by (unfold F; apply firstn_le_length).
      unfold hlen. rewrite (Permutation_length H1), HQl.
      destruct (Nat.ltb_spec n (S (length F))) as [Hgt|Hle].
      + (* one too many: pop the root *)
        destruct (hpop ops (hpush ops e h)) as [[r h']|] eqn:Ep.
        * destruct (hs_pop_some _ _ HS _ _ _ Ep) as [Hperm Hroot].
          assert (Hsplit : Q = firstn n Q ++ skipn n Q) by (symmetry; apply firstn_skipn).
          assert (Hlast : length (skipn n Q) = 1) by (rewrite skipn_length; lia).
          destruct (skipn n Q) as [|z [|? ?]] eqn:Esk; try discriminate.
          assert (Hr : In r Q).
          { eapply Permutation_in; [exact H1|]. eapply Permutation_in; [apply Permutation_sym; exact Hperm|left; reflexivity]. }
          assert (Hz : In z Q) by (rewrite Hsplit; apply in_or_app; right; left; reflexivity).
          assert (Erz : r = z).
          { apply (nodup_tag_inj (tsort (P ++ [e]))).
            - eapply nodup_perm; [apply Permutation_sym, ssort_perm|exact NDe].
            - apply HQW. exact Hr.
            - apply HQW. exact Hz.
            - apply tcmp_eq_tag. apply (leb_antisym_eqv tc tcmp_po).
              + rewrite Hsplit in Hr. apply in_app_or in Hr. destruct Hr as [Hr|[<-|[]]]; [|apply (leb_refl tc tcmp_po)].
                rewrite Hsplit in HQs. apply (sorted_app tc) in HQs. destruct HQs as [_ [_ Hc]].
                apply Hc; [exact Hr|left; reflexivity].
              + assert (Hz' : In z (r :: elems h')).
                { eapply Permutation_in; [exact Hperm|]. eapply Permutation_in; [apply Permutation_sym; exact H1|exact Hz]. }
                destruct Hz' as [<-|Hz']; [apply (leb_refl tc tcmp_po)|].
                rewrite Forall_forall in Hroot. specialize (Hroot z Hz'). rewrite hless_leb in Hroot.
                destruct (tleb z r); [reflexivity|discriminate]. }
          subst z. rewrite Hsplit in H1. rewrite Hperm in H1.
          apply Permutation_cons_app_inv in H1. rewrite app_nil_r in H1. exact H1.
        * apply (hs_pop_none _ _ HS) in Ep. rewrite Ep in H1. apply Permutation_length in H1. cbn in H1. lia.
      + rewrite firstn_all2 by lia. exact H1.
  Qed.

  Lemma drain_spec : forall fuel h acc,
    fuel = length (elems h) -> NoDup (map snd (elems h)) ->
    drain ops fuel h acc = map fst (tsort (elems h)) ++ acc.
  Proof.
    induction fuel as [|f IH]; intros h acc Hl ND.
    - symmetry in Hl. apply length_zero_iff_nil in Hl. rewrite Hl. reflexivity.
    - cbn [drain]. destruct (hpop ops h) as [[x h']|] eqn:Ep.
      + destruct (hs_pop_some _ _ HS _ _ _ Ep) as [Hperm Hroot].
        assert (ND' : NoDup (map snd (x :: elems h'))) by (eapply nodup_perm; eassumption).
        rewrite IH.
        * assert (E : tsort (elems h) = tsort (elems h') ++ [x]).
          { apply uniq.
            - eapply nodup_perm; [apply Permutation_sym, ssort_perm|exact ND].
            - apply (ssort_sorted tc tcmp_po).
            - apply (sorted_app tc). split; [apply (ssort_sorted tc tcmp_po)|]. split.
              + split; [constructor|exact I].
              + intros a b Ha [<-|[]]. eapply Permutation_in in Ha; [|apply ssort_perm].
                rewrite Forall_forall in Hroot. specialize (Hroot a Ha). rewrite hless_leb in Hroot.
                destruct (tleb a x); [reflexivity|discriminate].
            - rewrite ssort_perm, Hperm. rewrite <- Permutation_cons_append. apply perm_skip.
              symmetry. apply ssort_perm. }
          rewrite E, map_app, <- app_assoc. reflexivity.
        * apply Permutation_length in Hperm. cbn [length] in Hperm. lia.
        * cbn [map] in ND'. inversion ND'; assumption.
      + apply (hs_pop_none _ _ HS) in Ep. rewrite Ep in Hl. discriminate.
  Qed.

  Theorem topn_eq n xs : topn ops n xs = firstn n (ssort cmp xs).
  Proof.
    unfold topn.
    assert (Inv : Permutation (elems (topn_feed ops n (hempty ops) 0%N xs)) (firstn n (tsort (tag_from 0%N xs)))).
    { apply (feed_inv n xs (hempty ops) 0%N []).
      - intros p [].
      - constructor.
      - rewrite (hs_empty _ _ HS). cbn. rewrite firstn_nil. reflexivity. }
    set (hf := topn_feed ops n (hempty ops) 0%N xs) in *.
    assert (NDf : NoDup (map snd (firstn n (tsort (tag_from 0%N xs))))).
    { apply nodup_firstn. eapply nodup_perm; [apply Permutation_sym, ssort_perm|apply tag_from_nodup]. }
    rewrite drain_spec; [|reflexivity|eapply nodup_perm; [apply Permutation_sym; exact Inv|exact NDf]].
    rewrite app_nil_r.
    assert (E : tsort (elems hf) = firstn n (tsort (tag_from 0%N xs))).
    { apply uniq.
      - eapply nodup_perm; [apply Permutation_sym, ssort_perm|].
        eapply nodup_perm; [apply Permutation_sym; exact Inv|exact NDf].
      - apply (ssort_sorted tc tcmp_po).
      - apply (sorted_firstn tc). apply (ssort_sorted tc tcmp_po).
      - rewrite ssort_perm. exact Inv. }
    rewrite E, <- firstn_map, tsort_fst. reflexivity.
  Qed.
End TopNProofs.

(* ------------------------------------------------------------------ the list-backed queue meets the spec *)
Section ListHeapProofs.
  Context {A : Type}.
  Variable cmp : A -> A -> comparison.
  Hypothesis PO : preorder cmp.
  Notation tleb := (leb (tcmp cmp)).

  Lemma extract_root_spec : forall rest best before r o,
    extract_root cmp best before rest = (r, o) ->
    Forall (fun y => tleb y best = true) before ->
    Permutation (best :: before ++ rest) (r :: o) /\ Forall (fun y => tleb y r = true) o.
  Proof.
    induction rest as [|y t IH]; intros best before r o E Hb; cbn [extract_root] in E.
    - injection E as <- <-. rewrite app_nil_r. split; [reflexivity|exact Hb].
    - destruct (hless cmp y best) eqn:Hl; rewrite (hless_leb cmp) in Hl.
      + apply IH in E.
        * destruct E as [HP HF]. split; [|exact HF]. rewrite <- HP. cbn [app].
          rewrite <- (Permutation_middle before t y). apply perm_swap.
        * assert (Hby : tleb best y = true).
          { apply (leb_total _ (tcmp_po cmp PO)). destruct (tleb y best); [discriminate|reflexivity]. }
          constructor; [exact Hby|]. eapply Forall_impl; [|exact Hb]. cbn. intros z Hz.
          eapply (leb_trans _ (tcmp_po cmp PO)); eassumption.
      + apply IH in E.
        * destruct E as [HP HF]. split; [|exact HF]. rewrite <- HP. apply perm_skip. cbn [app].
          symmetry. apply Permutation_middle.
        * constructor; [|exact Hb]. destruct (tleb y best); [reflexivity|discriminate].
  Qed.

  Theorem list_heap_spec : heap_spec cmp (list_heap cmp).
  Proof.
    split; cbn.
    - reflexivity.
    - reflexivity.
    - intros [|x t] H; [reflexivity|discriminate].
    - intros [|x0 t] x h' H; [discriminate|]. injection H as H.
      apply extract_root_spec in H; [|constructor]. destruct H as [HP HF]. split; [exact HP|].
      eapply Forall_impl; [|exact HF]. cbn. intros z Hz. rewrite (hless_leb cmp), Hz. reflexivity.
  Qed.
End ListHeapProofs.

(* ------------------------------------------------------------------ CompareRows is a total preorder *)
Lemma bytes_cmp_antisym : forall a b, bytes_cmp b a = CompOpp (bytes_cmp a b).
Proof.
  induction a as [|x a IH]; intros [|y b]; cbn [bytes_cmp]; try reflexivity.
  rewrite (N.compare_antisym x y). destruct (x ?= y)%N; cbn; auto.
Qed.

Lemma bytes_cmp_eq : forall a b, bytes_cmp a b = Eq -> a = b.
Proof.
  induction a as [|x a IH]; intros [|y b]; cbn [bytes_cmp]; try discriminate; [reflexivity|].
  destruct (x ?= y)%N eqn:E; try discriminate. intros H. apply N.compare_eq in E. f_equal; auto.
Qed.

Lemma bytes_cmp_trans : forall a b c, bytes_cmp a b <> Gt -> bytes_cmp b c <> Gt -> bytes_cmp a c <> Gt.
Proof.
  induction a as [|x a IH]; intros [|y b] [|z c]; cbn [bytes_cmp]; try congruence.
  destruct (x ?= y)%N eqn:Exy; destruct (y ?= z)%N eqn:Eyz; intros H1 H2; try congruence.
  - apply N.compare_eq in Exy, Eyz. subst. rewrite N.compare_refl. eapply IH; eassumption.
  - apply N.compare_eq in Exy. subst. rewrite Eyz. discriminate.
  - apply N.compare_eq in Eyz. subst. rewrite Exy. discriminate.
  - rewrite N.compare_lt_iff in Exy, Eyz. assert (E : (x ?= z)%N = Lt) by (apply N.compare_lt_iff; lia).
    rewrite E. discriminate.
Qed.

Lemma ty_compare_antisym t a b : ty_compare t b a = CompOpp (ty_compare t a b).
Proof.
  destruct a as [|x|x], b as [|y|y]; cbn; try reflexivity.
  - apply Z.compare_antisym.
  - destruct t; apply bytes_cmp_antisym.
Qed.

Lemma ty_compare_trans t a b c : ty_compare t a b <> Gt -> ty_compare t b c <> Gt -> ty_compare t a c <> Gt.
Proof.
  destruct a as [|x|x], b as [|y|y], c as [|z|z]; cbn; try congruence.
  - intros H1 H2. apply Z.compare_le_iff. rewrite Z.compare_le_iff in H1, H2. lia.
  - destruct t; apply bytes_cmp_trans.
Qed.

Lemma val_cmp_antisym nf t a b : val_cmp nf t b a = CompOpp (val_cmp nf t a b).
Proof.
  destruct nf; destruct a as [|x|x], b as [|y|y]; cbn; try reflexivity;
    try apply Z.compare_antisym; destruct t; apply bytes_cmp_antisym.
Qed.

Lemma val_cmp_trans nf t a b c : val_cmp nf t a b <> Gt -> val_cmp nf t b c <> Gt -> val_cmp nf t a c <> Gt.
Proof.
  pose proof (ty_compare_trans t a b c) as T.
  destruct nf; destruct a as [|x|x], b as [|y|y], c as [|z|z]; cbn in *; try congruence; exact T.
Qed.

Lemma key_cmp_po k : preorder (key_cmp k).
Proof.
  split.
  - intros a b. unfold key_cmp. destruct (k_desc k); apply val_cmp_antisym.
  - intros a b c. unfold key_cmp. destruct (k_desc k).
    + intros H1 H2. eapply val_cmp_trans; eassumption.
    + apply val_cmp_trans.
Qed.

Lemma compare_rows_po ks : preorder (compare_rows ks).
Proof.
  induction ks as [|k ks IH].
  - split; cbn; [reflexivity|congruence].
  - pose proof (key_cmp_po k) as K. split.
    + intros a b. cbn [compare_rows]. rewrite (po_antisym _ K a b).
      destruct (key_cmp k a b); cbn; try reflexivity. apply (po_antisym _ IH).
    + intros a b c. cbn [compare_rows].
      destruct (cmp_full _ K a b c) as [F1 [F2 [F3 F4]]].
      destruct (key_cmp k a b) eqn:Cab; destruct (key_cmp k b c) eqn:Cbc; intros H1 H2; try congruence.
      * rewrite (F1 eq_refl). eapply (po_trans _ IH); eassumption.
      * rewrite (F1 eq_refl). discriminate.
      * rewrite (F2 eq_refl). discriminate.
      * rewrite (F3 eq_refl eq_refl). discriminate.
Qed.

(* ------------------------------------------------------------------ plan shapes and the property statement *)
Section PlanProofs.
  Context {A : Type}.
  Variable cmp : A -> A -> comparison.
  Hypothesis PO : preorder cmp.

  Lemma plan_sort_eq n m xs :
    plan_sort cmp (Some (Z.of_nat n)) (Z.of_nat m) xs = firstn n (skipn m (ssort cmp xs)).
  Proof. unfold plan_sort. apply limit_offset_eq. Qed.

  Lemma plan_sort_nolimit_eq m xs : plan_sort cmp None (Z.of_nat m) xs = skipn m (ssort cmp xs).
  Proof. unfold plan_sort. rewrite offset_iter_skipn, Nat2Z.id. reflexivity. Qed.

  Lemma plan_topn_eq n m xs : plan_topn cmp n m xs = firstn n (skipn m (ssort cmp xs)).
  Proof.
    unfold plan_topn. rewrite offset_iter_skipn, Nat2Z.id.
    assert (E : (if Nat.eqb (n + m) 1 then top1 cmp xs else topn (list_heap cmp) (n + m) xs)
                = firstn (n + m) (ssort cmp xs)).
    { destruct (Nat.eqb_spec (n + m) 1) as [H1|H1].
      - rewrite H1. apply (top1_eq cmp PO).
      - apply (topn_eq cmp PO). apply (list_heap_spec cmp PO). }
    rewrite E, skipn_firstn_comm. replace (n + m - m) with n by lia. reflexivity.
  Qed.

  Lemma canonical_is_slice n m xs : is_slice cmp xs m n (firstn n (skipn m (ssort cmp xs))).
  Proof. exists (ssort cmp xs). split; [apply ssort_perm|]. split; [apply (ssort_sorted cmp PO)|reflexivity]. Qed.

  Lemma plans_are_slices n m xs :
    is_slice cmp xs m n (plan_sort cmp (Some (Z.of_nat n)) (Z.of_nat m) xs) /\
    is_slice cmp xs m n (plan_topn cmp n m xs) /\
    is_slice cmp xs m (length xs) (plan_sort cmp None (Z.of_nat m) xs).
  Proof.
    rewrite plan_sort_eq, plan_topn_eq, plan_sort_nolimit_eq. repeat split; try apply canonical_is_slice.
    rewrite <- (firstn_all2 (n := length xs) (skipn m (ssort cmp xs))) at 1; [apply canonical_is_slice|].
    rewrite skipn_length, (ssort_length cmp). lia.
  Qed.
End PlanProofs.

(* NULL placement of a single key: first under ASC, last under DESC (the default NullsFirst ordering) *)
Lemma null_placement col ty a b :
  nth col a VNull = VNull -> nth col b VNull <> VNull ->
  compare_rows [SKey col ty false false] a b = Lt /\ compare_rows [SKey col ty true false] a b = Gt.
Proof.
  intros Ha Hb. unfold compare_rows, key_cmp. cbn [k_col k_ty k_desc k_nulls_last negb]. rewrite Ha.
  destruct (nth col b VNull) as [|z|s]; [congruence| |]; cbn; auto.
Qed.

(* an element of a sorted list is not greater than any later element, spelled with positions *)
Lemma sorted_nth {A} (cmp : A -> A -> comparison) (l : list A) : sorted cmp l ->
  forall i j d, i < j -> j < length l -> cmp (nth i l d) (nth j l d) <> Gt.
Proof.
  induction l as [|x t IH]; intros Hs i j d Hij Hj; [cbn in Hj; lia|].
  destruct Hs as [Hx Ht]. destruct j as [|j]; [lia|]. cbn [length] in Hj. destruct i as [|i].
  - cbn [nth]. rewrite Forall_forall in Hx. assert (Hjt : j < length t) by lia. specialize (Hx (nth j t d) (nth_In t d Hjt)).
    unfold leb in Hx. destruct (cmp x (nth j t d)); congruence.
  - cbn [nth]. apply IH; [exact Ht|lia|lia].
Qed.

(* rows: decidable equality for the slice check *)
Definition val_eqb (a b : val) : bool :=
  match a, b with
  | VNull, VNull => true
  | VInt x, VInt y => Z.eqb x y
  | VStr x, VStr y => GMS.Base.CorrLib.list_eqb N.eqb x y
  | _, _ => false
  end.
Definition row_eqb : row -> row -> bool := GMS.Base.CorrLib.list_eqb val_eqb.

Lemma val_eqb_spec a b : val_eqb a b = true <-> a = b.
Proof.
  destruct a as [|x|x], b as [|y|y]; cbn; split; intros H; try reflexivity; try discriminate.
  - apply Z.eqb_eq in H. congruence.
  - injection H as ->. apply Z.eqb_refl.
  - apply (GMS.Base.CorrLib.list_eqb_spec N.eqb N.eqb_eq) in H. congruence.
  - injection H as ->. apply (GMS.Base.CorrLib.list_eqb_spec N.eqb N.eqb_eq). reflexivity.
Qed.

Lemma row_eqb_spec a b : row_eqb a b = true <-> a = b.
Proof. apply GMS.Base.CorrLib.list_eqb_spec. exact val_eqb_spec. Qed.

(* ------------------------------------------------------------------ index order replaces the sort soundly *)
Lemma compare_rows_flip cs a b :
  compare_rows (map (mk_key true) cs) a b = compare_rows (map (mk_key false) cs) b a.
Proof.
  induction cs as [|c cs IH]; [reflexivity|]. cbn [map compare_rows]. rewrite IH.
  unfold key_cmp, mk_key. cbn [k_col k_ty k_desc k_nulls_last]. reflexivity.
Qed.

Lemma leb_prefix k1 k2 a b : leb (compare_rows (k1 ++ k2)) a b = true -> leb (compare_rows k1) a b = true.
Proof.
  unfold leb. induction k1 as [|k k1 IH]; cbn [app compare_rows]; [reflexivity|].
  destruct (key_cmp k a b); auto.
Qed.

Lemma sorted_weaken {A} (c1 c2 : A -> A -> comparison) l :
  (forall a b, leb c1 a b = true -> leb c2 a b = true) -> sorted c1 l -> sorted c2 l.
Proof.
  intros H. induction l as [|x t IH]; cbn [sorted]; [auto|]. intros [HF HS]. split; [|apply IH; exact HS].
  eapply Forall_impl; [|exact HF]. cbn. intros y. apply H.
Qed.

Lemma sorted_rev {A} (c : A -> A -> comparison) l : sorted c l -> sorted (fun a b => c b a) (rev l).
Proof.
  induction l as [|x t IH]; cbn [sorted rev]; [auto|]. intros [HF HS].
  apply (sorted_app (fun a b => c b a)). split; [apply IH; exact HS|]. split; [split; [constructor|exact I]|].
  intros a b Ha [<-|[]]. apply in_rev in Ha. rewrite Forall_forall in HF. unfold leb in *. apply HF. exact Ha.
Qed.

(* the guard pins the shape of the sort conditions: a prefix of the index columns, all in one direction *)
Lemma guard_shape ks idx : idx_guard ks idx = true ->
  exists n d, ks = map (mk_key d) (firstn n idx) /\ d = match ks with k :: _ => k_desc k | [] => false end.
Proof.
  unfold idx_guard. destruct ks as [|k0 ks0]; [discriminate|]. set (ks := k0 :: ks0). intros H.
  apply andb_prop in H. destruct H as [HD HP]. exists (length ks), (k_desc k0). split; [|reflexivity].
  unfold same_dir in HD. cbn [ks] in HD. fold ks in HD. rewrite forallb_forall in HD.
  clearbody ks. revert idx HP. induction ks as [|k t IH]; intros idx HP; [reflexivity|].
  destruct idx as [|c idx']; [discriminate|]. cbn [prefix_match] in HP. apply andb_prop in HP. destruct HP as [HK HP].
  cbn [length firstn map]. f_equal.
  - unfold key_matches in HK. apply andb_prop in HK. destruct HK as [HK Hn]. apply andb_prop in HK. destruct HK as [Hc Ht].
    pose proof (HD k (or_introl eq_refl)) as Hd. apply Bool.eqb_prop in Hd. apply Nat.eqb_eq in Hc.
    destruct k as [kc kt kd kn]. destruct c as [cc ct]. unfold mk_key. cbn in *. subst.
    destruct kn; [discriminate|]. destruct kt, ct; try discriminate; reflexivity.
  - apply IH; [intros x Hx; apply HD; right; exact Hx|exact HP].
Qed.

Theorem index_scan_sorted ks idx rows : idx_guard ks idx = true ->
  Permutation (plan_index ks idx rows) rows /\ sorted (compare_rows ks) (plan_index ks idx rows).
Proof.
  intros HG. destruct (guard_shape ks idx HG) as [n [d [Eks Ed]]]. unfold plan_index. rewrite <- Ed. clear Ed.
  unfold index_storage, index_scan.
  set (full := map (mk_key false) idx).
  assert (Hsplit : full = map (mk_key false) (firstn n idx) ++ map (mk_key false) (skipn n idx)).
  { unfold full. rewrite <- map_app, firstn_skipn. reflexivity. }
  pose proof (ssort_sorted _ (compare_rows_po full) rows) as HS.
  pose proof (ssort_perm (compare_rows full) rows) as HP.
  assert (HSpre : sorted (compare_rows (map (mk_key false) (firstn n idx))) (ssort (compare_rows full) rows)).
  { eapply sorted_weaken; [|exact HS]. intros a b. rewrite Hsplit. apply leb_prefix. }
  destruct d; subst ks.
  - split; [rewrite <- HP at 2; symmetry; apply Permutation_rev|].
    eapply sorted_weaken; [|apply sorted_rev; exact HSpre].
    intros a b. unfold leb. rewrite compare_rows_flip. auto.
  - split; [exact HP|exact HSpre].
Qed.

(* with LIMIT n OFFSET m on top: a window of an ordering consistent with the keys *)
Theorem index_plan_is_slice ks idx rows m n : idx_guard ks idx = true ->
  is_slice (compare_rows ks) rows m n (firstn n (skipn m (plan_index ks idx rows))).
Proof.
  intros HG. destruct (index_scan_sorted ks idx rows HG) as [HP HS].
  exists (plan_index ks idx rows). split; [exact HP|]. split; [exact HS|reflexivity].
Qed.
