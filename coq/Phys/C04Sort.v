(* C04 — model of ORDER BY / LIMIT / OFFSET execution.

   Go code mirrored (sql/sorters/row_sorter.go, sql/sorters/rows_heap.go, sql/iters/top_rows_iters.go,
   sql/iters/rel_iters.go LimitIter/sortIter, sql/rowexec/rel_iters.go offsetIter, sql/analyzer/topn.go):

   - [compare_rows]  = RowSorter.CompareRows: loop over the sort conditions; DESC swaps the operands; both NULL
                       continues; with NullsFirst a NULL (after the swap) is smaller; otherwise typ.Compare, whose
                       CompareNulls puts a NULL last; first non-zero result wins.
   - [ssort]         = sort.Stable(RowSorter): the stable ordering of the rows under Less = CompareRows < 0.
                       sort.Stable is an oracle (Go library); any stable sort computes the same list, [ssort] is the
                       insertion-sort instance and [msort] a merge-sort instance proved equal to it.
   - [topn]          = sorters.GetTopNRows over container/heap (oracle: a priority queue given by its
                       specification, see section TopN): push (row, arrival number), pop when size > n, finally pop
                       everything and fill the result from the back.
   - [hless]         = maxRowsHeap.Less.
   - [top1]          = topRowIter.Next (TopN with limit 1): linear scan keeping the first strictly smaller row.
   - [limit_iter], [offset_iter] = LimitIter.Next / offsetIter.Next as functions on the child's row list.
   - [plan_sort], [plan_topn]   = the two physical shapes of  ORDER BY .. LIMIT n OFFSET m :
                       Limit(Offset(Sort))  and, after insertTopNNodes,  Offset(TopN(n+m)). *)
From Coq Require Import List Arith NArith ZArith Bool Lia Permutation.
Import ListNotations.

(* ------------------------------------------------------------------ values, keys, CompareRows *)
Inductive val := VNull | VInt (z : Z) | VStr (s : list N).
Inductive kty := KInt | KBin | KCi.   (* BIGINT, VARCHAR utf8mb4_0900_bin, VARCHAR utf8mb4_0900_ai_ci (ASCII alnum) *)
Record skey := SKey { k_col : nat; k_ty : kty; k_desc : bool; k_nulls_last : bool }.
Definition row := list val.

Fixpoint bytes_cmp (a b : list N) : comparison :=
  match a, b with
  | [], [] => Eq
  | [], _ :: _ => Lt
  | _ :: _, [] => Gt
  | x :: a', y :: b' => match N.compare x y with Eq => bytes_cmp a' b' | c => c end
  end.

Definition lower (c : N) : N := if (N.leb 65 c && N.leb c 90)%bool then (c + 32)%N else c.

Definition isnull (v : val) : bool := match v with VNull => true | _ => false end.

(* typ.Compare for the three key types; CompareNulls: a NULL is greater than a non-NULL *)
Definition ty_compare (t : kty) (a b : val) : comparison :=
  match a, b with
  | VNull, VNull => Eq
  | VNull, _ => Gt
  | _, VNull => Lt
  | VInt x, VInt y => Z.compare x y
  | VStr x, VStr y => match t with KCi => bytes_cmp (map lower x) (map lower y) | _ => bytes_cmp x y end
  | VInt _, VStr _ => Lt      (* never produced by typed columns; fixed so that the relation stays total *)
  | VStr _, VInt _ => Gt
  end.

(* body of the CompareRows loop after the DESC swap; Eq means "continue with the next condition" *)
Definition val_cmp (nulls_first : bool) (t : kty) (av bv : val) : comparison :=
  match av, bv with
  | VNull, VNull => Eq
  | _, _ =>
    if nulls_first && isnull av then Lt
    else if nulls_first && isnull bv then Gt
    else ty_compare t av bv
  end.

Definition key_cmp (k : skey) (a b : row) : comparison :=
  let av := nth (k_col k) a VNull in
  let bv := nth (k_col k) b VNull in
  if k_desc k then val_cmp (negb (k_nulls_last k)) (k_ty k) bv av
  else val_cmp (negb (k_nulls_last k)) (k_ty k) av bv.

Fixpoint compare_rows (ks : list skey) (a b : row) : comparison :=
  match ks with
  | [] => Eq
  | k :: ks' => match key_cmp k a b with Eq => compare_rows ks' a b | c => c end
  end.

(* ------------------------------------------------------------------ generic sorting *)
Section Sorting.
  Context {A : Type}.
  Variable cmp : A -> A -> comparison.

  Definition leb (a b : A) : bool := match cmp a b with Gt => false | _ => true end.
  Definition eqvb (a b : A) : bool := match cmp a b with Eq => true | _ => false end.

  (* every element is <= every later element *)
  Fixpoint sorted (l : list A) : Prop :=
    match l with [] => True | x :: t => Forall (fun y => leb x y = true) t /\ sorted t end.

  Fixpoint sortedb (l : list A) : bool :=
    match l with
    | [] => true
    | x :: t => match t with [] => true | y :: _ => leb x y && sortedb t end
    end.

  (* the stable ordering: x is placed before the first element that is not smaller than it *)
  Fixpoint sinsert (x : A) (l : list A) : list A :=
    match l with
    | [] => [x]
    | y :: t => if leb x y then x :: y :: t else y :: sinsert x t
    end.
  Fixpoint ssort (l : list A) : list A :=
    match l with [] => [] | x :: t => sinsert x (ssort t) end.

  (* stable merge sort (top-down, explicit fuel) *)
  Fixpoint merge (l1 : list A) : list A -> list A :=
    fix merge_aux (l2 : list A) : list A :=
      match l1, l2 with
      | [], _ => l2
      | _, [] => l1
      | a :: l1', b :: l2' => if leb a b then a :: merge l1' l2 else b :: merge_aux l2'
      end.
  Fixpoint msort_fuel (fuel : nat) (l : list A) : list A :=
    match fuel with
    | 0 => ssort l
    | S f =>
      match l with
      | [] => [] | [x] => [x]
      | _ => let h := Nat.div2 (length l) in merge (msort_fuel f (firstn h l)) (msort_fuel f (skipn h l))
      end
    end.
  Definition msort (l : list A) : list A := msort_fuel (length l) l.

  (* topRowIter: first row, then every later row replaces it when strictly smaller *)
  Definition top1 (l : list A) : list A :=
    match l with
    | [] => []
    | x :: t => [fold_left (fun top r => match cmp r top with Lt => r | _ => top end) t x]
    end.

  (* the specification of LIMIT n OFFSET m over ORDER BY: O is the window of SOME consistent ordering *)
  Definition is_slice (xs : list A) (m n : nat) (o : list A) : Prop :=
    exists l, Permutation l xs /\ sorted l /\ o = firstn n (skipn m l).

  (* decidable characterisation *)
  Variable eqb : A -> A -> bool.
  Fixpoint remove1 (x : A) (l : list A) : option (list A) :=
    match l with
    | [] => None
    | y :: t => if eqb x y then Some t else match remove1 x t with Some t' => Some (y :: t') | None => None end
    end.
  Fixpoint msub (xs o : list A) : option (list A) :=
    match o with
    | [] => Some xs
    | x :: o' => match remove1 x xs with Some xs' => msub xs' o' | None => None end
    end.
  Definition valid_slice (xs : list A) (m n : nat) (o : list A) : bool :=
    match msub xs o with
    | None => false
    | Some r =>
      let s := ssort r in
      Nat.eqb (length o) (Nat.min n (length xs - m)) && sortedb (firstn m s ++ o ++ skipn m s)
    end.
End Sorting.

(* ------------------------------------------------------------------ LimitIter / offsetIter *)
Section Iters.
  Context {A : Type}.
  (* LimitIter.Next: if currentPos >= Limit then EOF else child row, currentPos++ *)
  Fixpoint limit_iter (pos limit : Z) (child : list A) : list A :=
    match child with
    | [] => []
    | x :: t => if (pos >=? limit)%Z then [] else x :: limit_iter (pos + 1) limit t
    end.
  (* offsetIter.Next: while skip > 0 drop a child row; then pass rows through *)
  Fixpoint offset_iter (skip : Z) (child : list A) : list A :=
    match child with
    | [] => []
    | x :: t => if (skip >? 0)%Z then offset_iter (skip - 1) t else child
    end.
End Iters.

(* ------------------------------------------------------------------ GetTopNRows over an abstract heap *)
Section TopN.
  Context {A : Type}.
  Variable cmp : A -> A -> comparison.
  Definition tagged : Type := (A * N)%type.      (* rowWithOrder *)

  (* maxRowsHeap.Less(i, j) *)
  Definition hless (a b : tagged) : bool :=
    match cmp (fst a) (fst b) with
    | Eq => N.ltb (snd b) (snd a)
    | Gt => true
    | Lt => false
    end.

  (* the order the heap realises: row order, then arrival number *)
  Definition tcmp (a b : tagged) : comparison :=
    match cmp (fst a) (fst b) with Eq => N.compare (snd a) (snd b) | c => c end.

  Record heap_ops := HeapOps {
    H : Type;
    hempty : H;
    hpush : tagged -> H -> H;          (* heap.Push *)
    hpop : H -> option (tagged * H);   (* heap.Pop: removes a root, i.e. an element no other is Less than *)
    helems : H -> list tagged
  }.
  Definition hlen (ops : heap_ops) (h : H ops) : nat := length (helems ops h).

  Record heap_spec (ops : heap_ops) : Prop := HeapSpec {
    hs_empty : helems ops (hempty ops) = [];
    hs_push : forall x h, Permutation (helems ops (hpush ops x h)) (x :: helems ops h);
    hs_pop_none : forall h, hpop ops h = None -> helems ops h = [];
    hs_pop_some : forall h x h', hpop ops h = Some (x, h') ->
        Permutation (helems ops h) (x :: helems ops h') /\
        Forall (fun y => hless y x = false) (helems ops h')
  }.

  Variable ops : heap_ops.

  Fixpoint topn_feed (n : nat) (h : H ops) (k : N) (xs : list A) : H ops :=
    match xs with
    | [] => h
    | x :: xs' =>
      let k' := N.succ k in                       (* rowCount++ *)
      let h1 := hpush ops (x, k') h in            (* heap.Push(rowsHeap, rowWithOrder{row, rowCount}) *)
      let h2 := if n <? hlen ops h1                (* if int64(rowsHeap.Len()) > n { heap.Pop(rowsHeap) } *)
                then match hpop ops h1 with Some (_, h') => h' | None => h1 end
                else h1 in
      topn_feed n h2 k' xs'
    end.

  (* for i := l-1; i >= 0; i-- { res[i] = heap.Pop(rowsHeap) } *)
  Fixpoint drain (fuel : nat) (h : H ops) (acc : list A) : list A :=
    match fuel with
    | 0 => acc
    | S f => match hpop ops h with None => acc | Some (x, h') => drain f h' (fst x :: acc) end
    end.

  Definition topn (n : nat) (xs : list A) : list A :=
    let h := topn_feed n (hempty ops) 0%N xs in drain (hlen ops h) h [].
End TopN.

(* a concrete priority queue used to run the model: unordered list, pop extracts the first root *)
Section ListHeap.
  Context {A : Type}.
  Variable cmp : A -> A -> comparison.
  Fixpoint extract_root (best : tagged (A:=A)) (before rest : list (tagged (A:=A))) : tagged (A:=A) * list (tagged (A:=A)) :=
    (* invariant: result = (root, all other elements) *)
    match rest with
    | [] => (best, before)
    | y :: t => if hless cmp y best then extract_root y (best :: before) t else extract_root best (y :: before) t
    end.
  Definition list_heap : heap_ops (A:=A) :=
    {| H := list tagged; hempty := []; hpush := fun x h => x :: h;
       hpop := fun h => match h with [] => None | x :: t => Some (extract_root x [] t) end;
       helems := fun h => h |}.
End ListHeap.

(* ------------------------------------------------------------------ the two plan shapes *)
Section Plans.
  Context {A : Type}.
  Variable cmp : A -> A -> comparison.
  (* Limit(Offset(Sort(child)))  —  limit None = no LIMIT clause *)
  Definition plan_sort (limit : option Z) (offset : Z) (child : list A) : list A :=
    let s := offset_iter offset (ssort cmp child) in
    match limit with Some n => limit_iter 0 n s | None => s end.
  (* insertTopNNodes: Offset(TopN(limit + offset)); buildTopN uses topRowIter when the bound is 1 *)
  Definition plan_topn (limit offset : nat) (child : list A) : list A :=
    let bound := limit + offset in
    let t := if Nat.eqb bound 1 then top1 cmp child else topn (list_heap cmp) bound child in
    offset_iter (Z.of_nat offset) t.
End Plans.

(* ------------------------------------------------------------------ index order (memory/table_data.go, memory/table.go,
   sql/analyzer/replace_sort.go) *)
(* sortSecondaryIndexes: the index storage is the table's rows stably sorted (sort.SliceStable) by the index
   columns, per column: NULL before any value, then typ.Compare, ascending.  That comparator is CompareRows for
   ascending NullsFirst conditions on those columns. *)
Definition idx_col : Type := (nat * kty)%type.
Definition mk_key (desc : bool) (c : idx_col) : skey := SKey (fst c) (snd c) desc false.
Definition index_storage (idx : list idx_col) (rows : list row) : list row :=
  ssort (compare_rows (map (mk_key false) idx)) rows.
(* indexScanRowIter: forward from 0, or backwards from the end when lookup.IsReverse *)
Definition index_scan (reverse : bool) (storage : list row) : list row := if reverse then rev storage else storage.

Definition kty_eqb (a b : kty) : bool := match a, b with KInt, KInt | KBin, KBin | KCi, KCi => true | _, _ => false end.
Definition key_matches (k : skey) (c : idx_col) : bool :=
  Nat.eqb (k_col k) (fst c) && kty_eqb (k_ty k) (snd c) && negb (k_nulls_last k).
(* sortExprsMatchIdxColExprs: the sort expressions are, position by position, a prefix of the index columns *)
Fixpoint prefix_match (ks : list skey) (idx : list idx_col) : bool :=
  match ks, idx with
  | [], _ => true
  | k :: ks', c :: idx' => key_matches k c && prefix_match ks' idx'
  | _ :: _, [] => false
  end.
(* isValidSortOrder: all conditions have the direction of the first *)
Definition same_dir (ks : list skey) : bool :=
  match ks with [] => true | k :: _ => forallb (fun k' => Bool.eqb (k_desc k') (k_desc k)) ks end.
Definition idx_guard (ks : list skey) (idx : list idx_col) : bool :=
  match ks with [] => false | _ => same_dir ks && prefix_match ks idx end.
(* replaceIdxSort: Sort(Table) => static index access, reversed when the first condition is DESC *)
Definition plan_index (ks : list skey) (idx : list idx_col) (rows : list row) : list row :=
  index_scan (match ks with k :: _ => k_desc k | [] => false end) (index_storage idx rows).
