(* C07: the hashing operators compute their SQL definitions whenever key equality is the class relation. *)
From Coq Require Import List ZArith NArith Bool Lia PeanoNat.
Import ListNotations.
From GMS Require Import Phys.C07HashKey Phys.C07HashKeyProofs Phys.C07Ops.
Local Open Scope nat_scope.

Section SetOpFacts.
  Context {A K : Type} (key : A -> K) (keq : K -> K -> bool).
  Hypothesis keq_spec : forall a b, keq a b = true <-> a = b.

  Lemma keq_refl k : keq k k = true.
  Proof. apply keq_spec. reflexivity. Qed.
  Lemma keq_false a b : keq a b = false <-> a <> b.
  Proof. rewrite <- keq_spec. destruct (keq a b); split; congruence. Qed.
  Lemma keq_sym a b : keq a b = keq b a.
  Proof.
    destruct (keq a b) eqn:E, (keq b a) eqn:E'; try reflexivity.
    - apply keq_spec in E. subst. rewrite keq_refl in E'. discriminate.
    - apply keq_spec in E'. subst. rewrite keq_refl in E. discriminate.
  Qed.

  Definition cnt (m : list (K * nat)) (k : K) : nat := match cm_get keq m k with Some n => n | None => 0 end.

  Lemma cm_get_set_same m : forall k n, cm_get keq (cm_set keq m k n) k = Some n.
  Proof.
    induction m as [|[k' n'] m IH]; intros k n; cbn.
    - rewrite keq_refl. reflexivity.
    - destruct (keq k k') eqn:E; cbn; rewrite E; [reflexivity|apply IH].
  Qed.

  Lemma cm_get_set_other m : forall k n k0, k0 <> k -> cm_get keq (cm_set keq m k n) k0 = cm_get keq m k0.
  Proof.
    induction m as [|[k' n'] m IH]; intros k n k0 Hne; cbn.
    - apply keq_false in Hne. rewrite Hne. reflexivity.
    - destruct (keq k k') eqn:E; cbn.
      + apply keq_spec in E. subst k'. apply keq_false in Hne. rewrite Hne. reflexivity.
      + destruct (keq k0 k'); [reflexivity|apply IH; exact Hne].
  Qed.

  Lemma cnt_set m k n k0 : cnt (cm_set keq m k n) k0 = if keq k0 k then n else cnt m k0.
  Proof.
    unfold cnt. destruct (keq k0 k) eqn:E.
    - apply keq_spec in E. subst. rewrite cm_get_set_same. reflexivity.
    - apply keq_false in E. rewrite cm_get_set_other by exact E. reflexivity.
  Qed.

  Lemma cnt_incr m k k0 : cnt (cm_incr keq m k) k0 = cnt m k0 + (if keq k0 k then 1 else 0).
  Proof.
    unfold cm_incr. destruct (cm_get keq m k) as [n|] eqn:G; rewrite cnt_set; destruct (keq k0 k) eqn:E; try lia;
      apply keq_spec in E; subst k0; unfold cnt; rewrite G; lia.
  Qed.

  Definition kc (k : K) (ks : list K) : nat := length (filter (fun k0 => keq k0 k) ks).

  Lemma cnt_fold ks : forall m k, cnt (fold_left (cm_incr keq) ks m) k = cnt m k + kc k ks.
  Proof.
    induction ks as [|k0 ks IH]; intros m k; cbn [fold_left]; unfold kc; cbn [filter]; [cbn; lia|].
    rewrite IH, cnt_incr. unfold kc. rewrite (keq_sym k k0). destruct (keq k0 k); cbn [length]; lia.
  Qed.

  Lemma cnt_build ks k : cnt (cm_build keq ks) k = kc k ks.
  Proof. unfold cm_build. rewrite cnt_fold. reflexivity. Qed.

  Lemma kc_map k l : kc k (map key l) = kcount key keq k l.
  Proof.
    unfold kc, kcount. induction l as [|x l IH]; [reflexivity|]. cbn [map filter].
    destruct (keq (key x) k); cbn [length]; rewrite IH; reflexivity.
  Qed.

  Lemma kc_app k a b : kc k (a ++ b) = kc k a + kc k b.
  Proof. unfold kc. rewrite filter_app, app_length. reflexivity. Qed.

  Lemma kcount_cons k x l : kcount key keq k (x :: l) = (if keq (key x) k then 1 else 0) + kcount key keq k l.
  Proof. unfold kcount. cbn [filter]. destruct (keq (key x) k); reflexivity. Qed.

  Lemma kcount_app k a b : kcount key keq k (a ++ b) = kcount key keq k a + kcount key keq k b.
  Proof. unfold kcount. rewrite filter_app, app_length. reflexivity. Qed.

  (* IntersectIter: per key, min of the left multiplicity and the remaining count *)
  Lemma intersect_go_count ls : forall m k,
    kcount key keq k (intersect_go key keq m ls) = Nat.min (kcount key keq k ls) (cnt m k).
  Proof.
    induction ls as [|r ls IH]; intros m k; [reflexivity|].
    cbn [intersect_go]. rewrite (kcount_cons k r ls).
    destruct (cm_get keq m (key r)) as [[|n]|] eqn:G.
    - rewrite IH. destruct (keq (key r) k) eqn:E; [|lia].
      apply keq_spec in E. subst k. unfold cnt. rewrite G. lia.
    - rewrite kcount_cons, IH, cnt_set, (keq_sym k (key r)).
      destruct (keq (key r) k) eqn:E; [|lia].
      apply keq_spec in E. subst k. unfold cnt. rewrite G. lia.
    - rewrite IH. destruct (keq (key r) k) eqn:E; [|lia].
      apply keq_spec in E. subst k. unfold cnt. rewrite G. lia.
  Qed.

  Theorem intersect_all_count ls rs k :
    kcount key keq k (intersect_all key keq ls rs) = Nat.min (kcount key keq k ls) (kcount key keq k rs).
  Proof. unfold intersect_all. rewrite intersect_go_count, cnt_build, kc_map. reflexivity. Qed.

  (* ExceptIter: per key, the left multiplicity minus the remaining count *)
  Lemma except_go_count ls : forall m k,
    kcount key keq k (except_go key keq m ls) = kcount key keq k ls - cnt m k.
  Proof.
    induction ls as [|r ls IH]; intros m k; [reflexivity|].
    cbn [except_go]. rewrite (kcount_cons k r ls).
    destruct (cm_get keq m (key r)) as [[|n]|] eqn:G.
    - rewrite kcount_cons, IH. destruct (keq (key r) k) eqn:E; [|lia].
      apply keq_spec in E. subst k. unfold cnt. rewrite G. lia.
    - rewrite IH, cnt_set, (keq_sym k (key r)).
      destruct (keq (key r) k) eqn:E; [|lia].
      apply keq_spec in E. subst k. unfold cnt. rewrite G. lia.
    - rewrite kcount_cons, IH. destruct (keq (key r) k) eqn:E; [|lia].
      apply keq_spec in E. subst k. unfold cnt. rewrite G. lia.
  Qed.

  (* as written: the key of the nil row hashed at end of input counts as one more right row *)
  Theorem except_all_count knil ls rs k :
    kcount key keq k (except_all key keq knil ls rs) =
    kcount key keq k ls - (kcount key keq k rs + (if keq knil k then 1 else 0)).
  Proof.
    unfold except_all. rewrite except_go_count, cnt_build, kc_app, kc_map. unfold kc. cbn [filter].
    destruct (keq knil k); reflexivity.
  Qed.

  Lemma intersect_go_incl ls : forall m x, In x (intersect_go key keq m ls) -> In x ls.
  Proof.
    induction ls as [|r ls IH]; intros m x H; [exact H|]. cbn [intersect_go] in H.
    destruct (cm_get keq m (key r)) as [[|n]|]; try (right; eapply IH; exact H).
    destruct H as [->|H]; [left; reflexivity|right; eapply IH; exact H].
  Qed.
  Lemma except_go_incl ls : forall m x, In x (except_go key keq m ls) -> In x ls.
  Proof.
    induction ls as [|r ls IH]; intros m x H; [exact H|]. cbn [except_go] in H.
    destruct (cm_get keq m (key r)) as [[|n]|]; try (right; eapply IH; exact H);
      (destruct H as [->|H]; [left; reflexivity|right; eapply IH; exact H]).
  Qed.

  (* distinctIter: per key, at most one row *)
  Lemma dedup_go_count l : forall seen k,
    kcount key keq k (dedup_go key keq seen l) = if existsb (keq k) seen then 0 else Nat.min 1 (kcount key keq k l).
  Proof.
    induction l as [|x l IH]; intros seen k.
    - cbn. destruct (existsb (keq k) seen); reflexivity.
    - cbn [dedup_go]. rewrite (kcount_cons k x l). destruct (existsb (keq (key x)) seen) eqn:S.
      + rewrite IH. destruct (keq (key x) k) eqn:E; [|reflexivity].
        apply keq_spec in E. subst k. rewrite S. reflexivity.
      + rewrite kcount_cons, IH. cbn [existsb]. destruct (keq (key x) k) eqn:E.
        * apply keq_spec in E. subst k. rewrite keq_refl, S. cbn. lia.
        * rewrite (keq_sym k (key x)), E. cbn [orb]. destruct (existsb (keq k) seen); lia.
  Qed.

  Theorem dedup_count l k : kcount key keq k (dedup key keq l) = Nat.min 1 (kcount key keq k l).
  Proof. unfold dedup. rewrite dedup_go_count. reflexivity. Qed.

  Theorem intersect_distinct_count ls rs k :
    kcount key keq k (intersect_distinct key keq ls rs) =
    Nat.min 1 (Nat.min (kcount key keq k ls) (kcount key keq k rs)).
  Proof. unfold intersect_distinct. rewrite dedup_count, intersect_all_count. reflexivity. Qed.

  Theorem except_distinct_count knil ls rs k :
    kcount key keq k (except_distinct key keq knil ls rs) =
    Nat.min 1 (kcount key keq k ls) - (Nat.min 1 (kcount key keq k rs) + (if keq knil k then 1 else 0)).
  Proof. unfold except_distinct. rewrite except_all_count, !dedup_count. reflexivity. Qed.

  Theorem union_distinct_count ls rs k :
    kcount key keq k (union_distinct key keq ls rs) = Nat.min 1 (kcount key keq k ls + kcount key keq k rs).
  Proof. unfold union_distinct. rewrite dedup_count, kcount_app. reflexivity. Qed.

  (* from keys to classes: when, on the rows in play, the class relation is key equality *)
  Lemma ccount_kcount (eqv : A -> A -> bool) a l :
    (forall x, In x l -> (eqv a x = true <-> key a = key x)) -> ccount eqv a l = kcount key keq (key a) l.
  Proof.
    intros H. unfold ccount, kcount. f_equal. apply filter_ext_in. intros x Hx.
    specialize (H x Hx). destruct (eqv a x) eqn:E1, (keq (key x) (key a)) eqn:E2; try reflexivity.
    - apply keq_false in E2. exfalso. apply E2. symmetry. apply H. reflexivity.
    - apply keq_spec in E2. symmetry in E2. apply H in E2. discriminate.
  Qed.

  Section Classes.
    Variable eqv : A -> A -> bool.
    Variables ls rs : list A.
    Hypothesis Hcls : forall x y, In x (ls ++ rs) -> In y (ls ++ rs) -> (eqv x y = true <-> key x = key y).

    Lemma in_l x : In x ls -> In x (ls ++ rs). Proof. intros; apply in_or_app; auto. Qed.
    Lemma in_r x : In x rs -> In x (ls ++ rs). Proof. intros; apply in_or_app; auto. Qed.

    (* INTERSECT ALL: every class occurs min(left, right) times *)
    Theorem intersect_all_is_min a : In a (ls ++ rs) ->
      ccount eqv a (intersect_all key keq ls rs) = Nat.min (ccount eqv a ls) (ccount eqv a rs).
    Proof.
      intros Ha. rewrite !(ccount_kcount eqv a).
      - apply intersect_all_count.
      - intros x Hx. apply Hcls; [exact Ha|apply in_r; exact Hx].
      - intros x Hx. apply Hcls; [exact Ha|apply in_l; exact Hx].
      - intros x Hx. apply Hcls; [exact Ha|]. apply in_l. eapply intersect_go_incl. exact Hx.
    Qed.

    (* EXCEPT ALL: every class occurs (left - right) times, provided no left row has the key of the nil row *)
    Theorem except_all_is_monus knil a : In a (ls ++ rs) -> (forall x, In x ls -> key x <> knil) ->
      ccount eqv a (except_all key keq knil ls rs) = ccount eqv a ls - ccount eqv a rs.
    Proof.
      intros Ha Hnil. rewrite !(ccount_kcount eqv a).
      - rewrite except_all_count. destruct (keq knil (key a)) eqn:E; [|lia].
        apply keq_spec in E. assert (Z : kcount key keq (key a) ls = 0); [|lia].
        unfold kcount. destruct (filter (fun x => keq (key x) (key a)) ls) as [|x f] eqn:F; [reflexivity|].
        exfalso. assert (Hx : In x (filter (fun x => keq (key x) (key a)) ls)) by (rewrite F; left; reflexivity).
        apply filter_In in Hx. destruct Hx as [Hx Hk]. apply keq_spec in Hk. apply (Hnil x Hx). congruence.
      - intros x Hx. apply Hcls; [exact Ha|apply in_r; exact Hx].
      - intros x Hx. apply Hcls; [exact Ha|apply in_l; exact Hx].
      - intros x Hx. apply Hcls; [exact Ha|]. apply in_l. eapply except_go_incl. exact Hx.
    Qed.

    Lemma dedup_incl l x : In x (dedup key keq l) -> In x l.
    Proof. intros H. apply (dedup_go_sound key keq keq_spec) in H. tauto. Qed.

    (* DISTINCT / UNION: every class of the input occurs exactly once *)
    Theorem union_distinct_once a : In a (ls ++ rs) -> ccount eqv a (union_distinct key keq ls rs) = 1.
    Proof.
      intros Ha. rewrite (ccount_kcount eqv a).
      - rewrite union_distinct_count, <- kcount_app.
        assert (P : 1 <= kcount key keq (key a) (ls ++ rs)); [|lia].
        unfold kcount. apply in_split in Ha. destruct Ha as (l1 & l2 & ->).
        rewrite filter_app, app_length. cbn [filter]. rewrite keq_refl. cbn [length]. lia.
      - intros x Hx. apply Hcls; [exact Ha|]. eapply dedup_incl. exact Hx.
    Qed.

    (* INTERSECT: once iff the class occurs on both sides *)
    Theorem intersect_distinct_def a : In a (ls ++ rs) ->
      ccount eqv a (intersect_distinct key keq ls rs) = Nat.min 1 (Nat.min (ccount eqv a ls) (ccount eqv a rs)).
    Proof.
      intros Ha. rewrite !(ccount_kcount eqv a).
      - apply intersect_distinct_count.
      - intros x Hx. apply Hcls; [exact Ha|apply in_r; exact Hx].
      - intros x Hx. apply Hcls; [exact Ha|apply in_l; exact Hx].
      - intros x Hx. apply Hcls; [exact Ha|]. apply in_l. eapply intersect_go_incl. eapply dedup_incl. exact Hx.
    Qed.

    (* EXCEPT: once iff the class occurs left and not right (same guard on the nil-row key) *)
    Theorem except_distinct_def knil a : In a (ls ++ rs) -> (forall x, In x ls -> key x <> knil) ->
      ccount eqv a (except_distinct key keq knil ls rs) = Nat.min 1 (ccount eqv a ls) - Nat.min 1 (ccount eqv a rs).
    Proof.
      intros Ha Hnil. rewrite !(ccount_kcount eqv a).
      - rewrite except_distinct_count. destruct (keq knil (key a)) eqn:E; [|lia].
        apply keq_spec in E. assert (Z : kcount key keq (key a) ls = 0); [|lia].
        unfold kcount. destruct (filter (fun x => keq (key x) (key a)) ls) as [|x f] eqn:F; [reflexivity|].
        exfalso. assert (Hx : In x (filter (fun x => keq (key x) (key a)) ls)) by (rewrite F; left; reflexivity).
        apply filter_In in Hx. destruct Hx as [Hx Hk]. apply keq_spec in Hk. apply (Hnil x Hx). congruence.
      - intros x Hx. apply Hcls; [exact Ha|apply in_r; exact Hx].
      - intros x Hx. apply Hcls; [exact Ha|apply in_l; exact Hx].
      - intros x Hx. apply Hcls; [exact Ha|]. apply in_l. eapply dedup_incl. eapply except_go_incl. exact Hx.
    Qed.
  End Classes.
End SetOpFacts.

(* ---------- HashLookup ---------- *)
Section HashLookupFacts.
  Context {L R K : Type} (lkey : L -> K) (rkey : R -> K) (keq : K -> K -> bool) (cond : L -> R -> bool).
  Hypothesis keq_spec : forall a b, keq a b = true <-> a = b.

  Lemma hl_get_put (m : list (K * list R)) : forall k' r k,
    hl_get keq (hl_put keq m k' r) k = if keq k k' then hl_get keq m k ++ [r] else hl_get keq m k.
  Proof.
    induction m as [|[k2 rs] m IH]; intros k' r k; cbn.
    - destruct (keq k k'); reflexivity.
    - destruct (keq k' k2) eqn:E; cbn.
      + apply keq_spec in E. subst k2. destruct (keq k k'); reflexivity.
      + rewrite IH. destruct (keq k k2) eqn:E2, (keq k k') eqn:E3; try reflexivity.
        apply keq_spec in E2, E3. subst. rewrite (proj2 (keq_spec _ _) eq_refl) in E. discriminate.
  Qed.

  Lemma hl_get_fold rs : forall m k,
    hl_get keq (fold_left (fun m r => hl_put keq m (rkey r) r) rs m) k =
    hl_get keq m k ++ filter (fun r => keq k (rkey r)) rs.
  Proof.
    induction rs as [|r rs IH]; intros m k; cbn [fold_left filter]; [rewrite app_nil_r; reflexivity|].
    rewrite IH, hl_get_put. destruct (keq k (rkey r)); [rewrite <- app_assoc|]; reflexivity.
  Qed.

  (* the bucket of a key holds exactly the right rows with that key, in input order *)
  Lemma hl_bucket rs k : hl_get keq (hl_build rkey keq rs) k = filter (fun r => keq k (rkey r)) rs.
  Proof. unfold hl_build. rewrite hl_get_fold. reflexivity. Qed.

  (* every emitted pair satisfies the join condition: a NULL key (condition never TRUE) never matches *)
  Theorem hash_join_sound ls rs l r :
    In (l, r) (hash_join lkey rkey keq cond ls rs) -> In l ls /\ In r rs /\ cond l r = true.
  Proof.
    unfold hash_join. rewrite in_flat_map. intros (l' & Hl & H). apply in_map_iff in H.
    destruct H as (r' & E & H). injection E as -> ->. apply filter_In in H. destruct H as [H Hc].
    rewrite hl_bucket in H. apply filter_In in H. tauto.
  Qed.

  (* the hash join is the join, provided rows that satisfy the condition have equal keys *)
  Theorem hash_join_is_join ls rs :
    (forall l r, In l ls -> In r rs -> cond l r = true -> lkey l = rkey r) ->
    hash_join lkey rkey keq cond ls rs = nl_join cond ls rs.
  Proof.
    intros H. unfold hash_join, nl_join. induction ls as [|l ls IH]; [reflexivity|]. cbn [flat_map].
    rewrite IH by (intros; apply H; auto; right; assumption). f_equal. f_equal.
    rewrite hl_bucket. assert (Hl : forall r, In r rs -> cond l r = true -> lkey l = rkey r)
      by (intros; apply H; auto; left; reflexivity).
    clear IH H. induction rs as [|r rs IHr]; [reflexivity|]. cbn [filter].
    destruct (cond l r) eqn:C.
    - rewrite (proj2 (keq_spec _ _) (Hl r (or_introl eq_refl) C)). cbn [filter]. rewrite C.
      f_equal. apply IHr. intros; apply Hl; auto; right; assumption.
    - destruct (keq (lkey l) (rkey r)); cbn [filter]; rewrite ?C; apply IHr; intros; apply Hl; auto; right; assumption.
  Qed.
End HashLookupFacts.

(* ---------- HashInTuple ---------- *)
Theorem hash_in_is_in (skey : hv -> option (list N)) (eqb : hv -> hv -> bool) l rs :
  (forall v, skey v = None <-> is_null v = true) ->
  (forall r k k', In r rs -> skey l = Some k -> skey r = Some k' -> bytes_eqb k k' = eqb l r) ->
  hash_in skey l rs = in_def eqb l rs.
Proof.
  intros Hn Hk. unfold hash_in, in_def. destruct (skey l) as [k|] eqn:El.
  - assert (Nl : is_null l = false).
    { destruct (is_null l) eqn:N; [|reflexivity]. apply Hn in N. congruence. }
    rewrite Nl.
    assert (E : existsb (fun r => match skey r with Some k' => bytes_eqb k k' | None => false end) rs =
                existsb (fun r => negb (is_null r) && eqb l r) rs).
    { clear Nl. induction rs as [|r rs IH]; [reflexivity|]. cbn [existsb]. rewrite IH by (intros; eapply Hk; eauto; right; assumption).
      f_equal. destruct (skey r) as [k'|] eqn:Er.
      - assert (Nr : is_null r = false). { destruct (is_null r) eqn:N; [|reflexivity]. apply Hn in N. congruence. }
        rewrite Nr. cbn. apply (Hk r k k'); auto. left. reflexivity.
      - apply Hn in Er. rewrite Er. reflexivity. }
    rewrite E. reflexivity.
  - apply Hn in El. rewrite El. reflexivity.
Qed.

(* ---------- witnesses: the operators as written against their definitions ---------- *)
(* SELECT '' EXCEPT SELECT 'a' is empty: the nil row hashed at end of input has the key of the row ('') *)
Lemma except_empty_string_refuted :
  let key := row_key (fun c => c) [] in
  exists ls rs, (forall l r, In l ls -> In r rs -> key l <> key r) /\ ls <> [] /\
    except_all key bytes_eqb (key []) ls rs = [] /\ except_distinct key bytes_eqb (key []) ls rs = [].
Proof.
  exists [[HStr []]], [[HStr [97%N]]]. split; [|split; [discriminate|split; reflexivity]].
  intros l r [<-|[]] [<-|[]]. discriminate.
Qed.

(* COUNT(DISTINCT s, u) over ('a,','b') and ('a',',b') is 1 *)
Lemma count_distinct_comma_refuted :
  exists r1 r2, r1 <> r2 /\ count_distinct [r1; r2] = 1.
Proof. exists [HStr [97;44]%N; HStr [98]%N], [HStr [97]%N; HStr [44;98]%N]. split; [discriminate|reflexivity]. Qed.

(* ---------- hash.HashOfSimple ---------- *)
Local Open Scope N_scope.

Lemma uint_nodot d : existsb (N.eqb 46) (bytes_of_string (DecimalString.NilEmpty.string_of_uint d)) = false.
Proof. induction d; cbn; try assumption; reflexivity. Qed.

Lemma dec_text0_nodot z : existsb (N.eqb 46) (dec_text z 0) = false.
Proof.
  unfold dec_text. rewrite !existsb_app. change (N.eqb 0 0) with true. cbn [existsb]. rewrite orb_false_r.
  unfold utext. rewrite uint_nodot. destruct (z <? 0)%Z; reflexivity.
Qed.

(* integers under the integer type: the key is strconv.FormatInt *)
Lemma simple_key_int_iff w x y :
  simple_key w TInt (HInt x) = simple_key w TInt (HInt y) <-> sql_eq w (HInt x) (HInt y) = true.
Proof.
  cbn. rewrite Z.eqb_eq. split; [intros E; injection E as E; apply int_text_inj; exact E|intros ->; reflexivity].
Qed.

(* integers under DECIMAL(65,sc), inside the bound of the type: converted to a decimal with exponent 0, printed without
   a '.', so nothing is trimmed *)
Lemma dec_simple_text_int sc z : (Z.to_N (Z.abs z) < 10 ^ (65 - sc))%N -> dec_simple_text sc z 0 = dec_text z 0.
Proof.
  intros Hb. unfold dec_simple_text, dec_convert.
  assert (E1 : (sc <? 0) = false) by (apply N.ltb_ge; lia). rewrite E1.
  rewrite N.add_0_r. assert (E2 : (10 ^ (65 - sc) <=? Z.to_N (Z.abs z)) = false) by (apply N.leb_gt; exact Hb).
  rewrite E2. unfold simple_trim.
  assert (E3 : sdec_text (z <? 0)%Z (Z.to_N (Z.abs z)) 0 = dec_text z 0) by reflexivity.
  rewrite E3, dec_text0_nodot. reflexivity.
Qed.

Lemma simple_key_int_as_decimal_iff w sc x y :
  (Z.to_N (Z.abs x) < 10 ^ (65 - sc))%N -> (Z.to_N (Z.abs y) < 10 ^ (65 - sc))%N ->
  (simple_key w (TDec sc) (HInt x) = simple_key w (TDec sc) (HInt y) <-> sql_eq w (HInt x) (HInt y) = true).
Proof.
  intros Hx Hy. cbn [simple_key sql_eq]. rewrite !dec_simple_text_int by assumption. rewrite Z.eqb_eq. split.
  - intros E. injection E as E. apply (dec_text_inj x y 0). exact E.
  - intros ->. reflexivity.
Qed.

(* collated strings: HashOfSimple hashes the weight string, as HashOf does with a schema *)
Lemma simple_key_text_iff w : (forall c, (w c < 4294967296)%N) -> forall a b,
  simple_key w TText (HStr a) = simple_key w TText (HStr b) <-> sql_eq w (HStr a) (HStr b) = true.
Proof.
  intros Hw a b. rewrite <- (key_str_schema_iff w Hw). cbn. split; [intros E; injection E as E; exact E|intros ->; reflexivity].
Qed.

(* trailing zeros are trimmed: numerically equal decimals of different scale, and an integer against a decimal, do
   collapse here (they do not under HashOf) *)
Example simple_key_collapses w :
  simple_key w (TDec 30) (HDec 100 2) = simple_key w (TDec 30) (HDec 10000 4) /\
  simple_key w (TDec 30) (HInt 1) = simple_key w (TDec 30) (HDec 100 2) /\
  simple_key w (TDec 30) (HDec 0 2) = simple_key w (TDec 30) (HInt 0) /\
  simple_key w (TDec 30) (HDec 150 2) <> simple_key w (TDec 30) (HDec 15 2).
Proof. repeat split; try (vm_compute; reflexivity). vm_compute. discriminate. Qed.

(* outside the guard: at or beyond 10^(65-sc) the conversion fails and the value is hashed as 0 *)
Lemma simple_key_overflow_refuted w :
  exists a b, sql_eq w a b = false /\ simple_key w (TDec 30) a = simple_key w (TDec 30) b.
Proof. exists (HDec (10 ^ 36) 0), (HInt 0). split; vm_compute; reflexivity. Qed.

(* outside the guard: more fraction digits than the type are rounded away; a negative value that rounds to zero keeps
   its sign and is hashed as "-0" *)
Lemma simple_key_rounding_refuted w :
  (exists a b, sql_eq w a b = false /\ simple_key w (TDec 1) a = simple_key w (TDec 1) b) /\
  simple_key w (TDec 2) (HDec (-4) 3) = Some [45; 48] /\ simple_key w (TDec 2) (HDec 0 2) = Some [48].
Proof.
  split; [exists (HDec 125 2), (HDec 13 1); split; vm_compute; reflexivity|]. split; vm_compute; reflexivity.
Qed.

(* ---------- the set operations over SQL rows in the guarded fragment ---------- *)
From GMS Require Import Phys.C07RowKeyProofs.
Local Open Scope nat_scope.

Lemma rows_classes_are_keys w sch (l : list (list hv)) :
  (forall c, (w c < 4294967296)%N) ->
  (forall x y, In x l -> In y l -> rows_ok w sch x y) ->
  forall x y, In x l -> In y l -> (rows_eqb w x y = true <-> row_key w sch x = row_key w sch y).
Proof. intros Hw H x y Hx Hy. symmetry. apply row_key_injective_on_classes; auto. Qed.

Theorem intersect_all_rows_is_min w sch ls rs a :
  (forall c, (w c < 4294967296)%N) ->
  (forall x y, In x (ls ++ rs) -> In y (ls ++ rs) -> rows_ok w sch x y) -> In a (ls ++ rs) ->
  ccount (rows_eqb w) a (intersect_all (row_key w sch) bytes_eqb ls rs) =
  Nat.min (ccount (rows_eqb w) a ls) (ccount (rows_eqb w) a rs).
Proof.
  intros Hw Hok Ha. apply (intersect_all_is_min (row_key w sch) bytes_eqb bytes_eqb_spec); [|exact Ha].
  apply rows_classes_are_keys; assumption.
Qed.

Theorem except_all_rows_is_monus w sch ls rs a :
  (forall c, (w c < 4294967296)%N) ->
  (forall x y, In x (ls ++ rs) -> In y (ls ++ rs) -> rows_ok w sch x y) -> In a (ls ++ rs) ->
  (forall x, In x ls -> row_key w sch x <> row_key w sch []) ->
  ccount (rows_eqb w) a (except_all (row_key w sch) bytes_eqb (row_key w sch []) ls rs) =
  ccount (rows_eqb w) a ls - ccount (rows_eqb w) a rs.
Proof.
  intros Hw Hok Ha Hnil. apply (except_all_is_monus (row_key w sch) bytes_eqb bytes_eqb_spec); [|exact Ha|exact Hnil].
  apply rows_classes_are_keys; assumption.
Qed.
