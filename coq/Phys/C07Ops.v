(* C07, second layer: the key of hash.HashOfSimple (HashInTuple, single-key HashLookup) and the hashing operators as list
   functions: IntersectIter / ExceptIter (sql/iters/rel_iters.go), the SetOp wiring of rowexec.buildSetOp, the HashLookup
   build / probe (sql/rowexec/other_iters.go hashLookupGeneratingIter, rel.go buildHashLookup), HashInTuple.Eval and
   COUNT(DISTINCT).  Mirrors the code as it is (ExceptIter also counts the key of the nil row it gets with io.EOF). *)
From Coq Require Import List ZArith NArith Bool Lia.
Import ListNotations.
From GMS Require Import Phys.C07HashKey.
Open Scope N_scope.

(* ---------- hash.HashOfSimple ---------- *)

(* strings.TrimRightFunc(str, r == c) / strings.TrimRight(str, c) *)
Fixpoint rtrim (c : N) (l : list N) : list N :=
  match l with
  | [] => []
  | x :: l' => match rtrim c l' with
               | [] => if N.eqb x c then [] else [x]
               | r => x :: r
               end
  end.

(* if strings.IndexByte(str, '.') != -1 { trim trailing '0's, then trailing '.' } *)
Definition simple_trim (s : list N) : list N :=
  if existsb (N.eqb 46) s then rtrim 46 (rtrim 48 s) else s.

(* apd.Decimal.Text('f') of coefficient a, exponent -s, without the sign *)
Definition udec_text (a s : N) : list N :=
  utext (a / 10 ^ s) ++ (if N.eqb s 0 then [] else 46 :: fd (N.to_nat s) (a mod 10 ^ s)).
Definition sdec_text (neg : bool) (a s : N) : list N := (if neg then [45] else []) ++ udec_text a s.

(* the type handed to HashOfSimple (after Promote): signed integer, DECIMAL(65, S), text with a collation *)
Inductive stype := TInt | TDec (sc : N) | TText.

(* DecimalType_.Convert of a decimal (sign, coefficient a, scale s) for the NON-column type DECIMAL(65,S): BoundsCheck
   rounds to S fraction digits when the value has more (apd Quantize, half up on the magnitude, the sign flag stays),
   then demands |v| < 10^(65-S); on failure ConvertOrTruncate substitutes Zero() = 0E-S *)
Definition dec_convert (sc : N) (neg : bool) (a s : N) : bool * N * N :=
  let '(a', s') :=
    if sc <? s then (let d := 10 ^ (s - sc) in (a / d + (if d <=? 2 * (a mod d) then 1 else 0), sc)) else (a, s) in
  if 10 ^ (65 - sc + s') <=? a' then (false, 0, sc) else (neg, a', s').

Definition dec_simple_text (sc : N) (m : Z) (s : N) : list N :=
  let '(neg, a, s') := dec_convert sc (m <? 0)%Z (Z.to_N (Z.abs m)) s in simple_trim (sdec_text neg a s').

Section Simple.
  Variable w : N -> N.
  (* None = the untyped nil (HashOfSimple returns 0 without hashing); values outside the modelled fragment (a decimal
     under an integer type, a string under a numeric type) give the empty key and are never generated *)
  Definition simple_key (t : stype) (v : hv) : option (list N) :=
    match v with
    | HNull => None
    | HInt z => Some (match t with
                      | TInt => int_text z
                      | TDec sc => dec_simple_text sc z 0
                      | TText => weight_string w (int_text z)
                      end)
    | HDec m s => Some (match t with
                        | TInt => []
                        | TDec sc => dec_simple_text sc m s
                        | TText => weight_string w (dec_text m s)
                        end)
    | HStr b => Some (match t with TText => weight_string w b | _ => [] end)
    end.
End Simple.

Definition okey_eqb (a b : option (list N)) : bool :=
  match a, b with
  | None, None => true
  | Some x, Some y => bytes_eqb x y
  | _, _ => false
  end.

(* ---------- IntersectIter / ExceptIter: a count map keyed by the row hash ---------- *)
Section SetOps.
  Context {A K : Type} (key : A -> K) (keq : K -> K -> bool).

  Fixpoint cm_get (m : list (K * nat)) (k : K) : option nat :=
    match m with
    | [] => None
    | (k', n) :: m' => if keq k k' then Some n else cm_get m' k
    end.
  Fixpoint cm_set (m : list (K * nat)) (k : K) (n : nat) : list (K * nat) :=
    match m with
    | [] => [(k, n)]
    | (k', n') :: m' => if keq k k' then (k', n) :: m' else (k', n') :: cm_set m' k n
    end.
  (* if _, ok := cache[h]; !ok { cache[h] = 0 }; cache[h]++ *)
  Definition cm_incr (m : list (K * nat)) (k : K) : list (K * nat) :=
    match cm_get m k with None => cm_set m k 1 | Some n => cm_set m k (S n) end.
  Definition cm_build (ks : list K) : list (K * nat) := fold_left cm_incr ks [].

  (* IntersectIter.Next: emit a left row iff its key still has a positive count, and decrement *)
  Fixpoint intersect_go (m : list (K * nat)) (ls : list A) : list A :=
    match ls with
    | [] => []
    | r :: ls' => match cm_get m (key r) with
                  | None => intersect_go m ls'
                  | Some O => intersect_go m ls'
                  | Some (S n) => r :: intersect_go (cm_set m (key r) n) ls'
                  end
    end.
  Definition intersect_all (ls rs : list A) : list A := intersect_go (cm_build (map key rs)) ls.
  (* buildSetOp: INTERSECT [DISTINCT] puts a distinctIter above the IntersectIter *)
  Definition intersect_distinct (ls rs : list A) : list A := dedup key keq (intersect_all ls rs).

  (* ExceptIter.Next: the build loop hashes the row BEFORE testing io.EOF, so the key of the nil row (knil) is counted
     once, after the right rows; a left row is dropped iff its key has a positive count (then decremented) *)
  Fixpoint except_go (m : list (K * nat)) (ls : list A) : list A :=
    match ls with
    | [] => []
    | r :: ls' => match cm_get m (key r) with
                  | None => r :: except_go m ls'
                  | Some O => r :: except_go m ls'
                  | Some (S n) => except_go (cm_set m (key r) n) ls'
                  end
    end.
  Definition except_all (knil : K) (ls rs : list A) : list A := except_go (cm_build (map key rs ++ [knil])) ls.
  (* buildSetOp: EXCEPT [DISTINCT] puts a distinctIter under each input of the ExceptIter *)
  Definition except_distinct (knil : K) (ls rs : list A) : list A :=
    except_all knil (dedup key keq ls) (dedup key keq rs).

  (* UNION [DISTINCT]: distinctIter over the concatenation *)
  Definition union_distinct (ls rs : list A) : list A := dedup key keq (ls ++ rs).

  (* number of rows of l whose key is k *)
  Definition kcount (k : K) (l : list A) : nat := length (filter (fun x => keq (key x) k) l).
End SetOps.

(* number of rows of l in the class of a, for a Boolean relation *)
Definition ccount {A} (eqv : A -> A -> bool) (a : A) (l : list A) : nat := length (filter (eqv a) l).

(* ---------- HashLookup: build on the right rows, probe with the left key, the join condition is re-evaluated ---------- *)
Section HashLookup.
  Context {L R K : Type} (lkey : L -> K) (rkey : R -> K) (keq : K -> K -> bool) (cond : L -> R -> bool).

  (* lookup[key] = append(lookup[key], childRow) *)
  Fixpoint hl_put (m : list (K * list R)) (k : K) (r : R) : list (K * list R) :=
    match m with
    | [] => [(k, [r])]
    | (k', rs) :: m' => if keq k k' then (k', rs ++ [r]) :: m' else (k', rs) :: hl_put m' k r
    end.
  Definition hl_build (rs : list R) : list (K * list R) := fold_left (fun m r => hl_put m (rkey r) r) rs [].
  Fixpoint hl_get (m : list (K * list R)) (k : K) : list R :=
    match m with
    | [] => []
    | (k', rs) :: m' => if keq k k' then rs else hl_get m' k
    end.
  (* per left row: the bucket of its key, filtered by the join condition (joinIter evaluates the filter on every
     candidate pair) *)
  Definition hash_join (ls : list L) (rs : list R) : list (L * R) :=
    flat_map (fun l => map (pair l) (filter (cond l) (hl_get (hl_build rs) (lkey l)))) ls.
  (* the definition: all pairs satisfying the condition, left-major *)
  Definition nl_join (ls : list L) (rs : list R) : list (L * R) :=
    flat_map (fun l => map (pair l) (filter (cond l) rs)) ls.
End HashLookup.

(* ---------- HashInTuple.Eval (newInMap keeps the keys of the non-NULL list elements) ---------- *)
Definition is_null (v : hv) : bool := match v with HNull => true | _ => false end.
Section HashIn.
  Variable skey : hv -> option (list N).
  Definition hash_in (l : hv) (rs : list hv) : option bool :=
    match skey l with
    | None => None
    | Some k =>
        if existsb (fun r => match skey r with Some k' => bytes_eqb k k' | None => false end) rs then Some true
        else if existsb is_null rs then None else Some false
    end.
End HashIn.
(* x IN (list) by definition: TRUE if some element is '=' TRUE, else NULL if x or an element is NULL, else FALSE *)
Definition in_def (eqb : hv -> hv -> bool) (l : hv) (rs : list hv) : option bool :=
  if is_null l then None
  else if existsb (fun r => negb (is_null r) && eqb l r) rs then Some true
  else if existsb is_null rs then None else Some false.

(* ---------- COUNT(DISTINCT e1, .., en): rows with a NULL are skipped, the others are keyed by cd_key ---------- *)
Definition count_distinct (rows : list (list hv)) : nat :=
  length (dedup cd_key bytes_eqb (filter (fun r => negb (existsb is_null r)) rows)).
