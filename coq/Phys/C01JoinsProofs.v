From Coq Require Import List Bool Permutation.
Import ListNotations.
From GMS Require Import Phys.C01Joins.

Section Proofs.
  Context {L R K : Type}.
  Variable cond : L -> R -> bool.

  Lemma nlj_scan_spec lo x ys found :
    nlj_scan cond lo x ys found =
    map (fun y => (x, Some y)) (filter (cond x) ys) ++
    (if lo && negb (found || existsb (cond x) ys) then [(x, None)] else []).
  Proof.
    revert found. induction ys as [|y ys IH]; intros found; cbn.
    - rewrite orb_false_r. reflexivity.
    - destruct (cond x y); cbn.
      + rewrite IH. rewrite orb_true_r. cbn. rewrite andb_false_r. reflexivity.
      + rewrite IH. reflexivity.
  Qed.

  Lemma filter_nil_existsb {A} (p : A -> bool) l : existsb p l = negb (match filter p l with [] => true | _ => false end).
  Proof. induction l as [|a l IH]; cbn; [reflexivity|]. destruct (p a); cbn; [reflexivity|exact IH]. Qed.

  Theorem nlj_inner_correct l r : nlj cond false l r = logical_inner cond l r.
  Proof.
    unfold nlj, logical_inner. apply flat_map_ext. intros x. rewrite nlj_scan_spec. cbn. apply app_nil_r.
  Qed.

  Theorem nlj_left_correct l r : nlj cond true l r = logical_left cond l r.
  Proof.
    unfold nlj, logical_left. apply flat_map_ext. intros x. rewrite nlj_scan_spec. cbn [orb andb].
    rewrite filter_nil_existsb. destruct (filter (cond x) r); cbn; [reflexivity|]. rewrite app_nil_r. reflexivity.
  Qed.

  Lemma exists_scan_spec x ys : exists_scan cond x ys = existsb (cond x) ys.
  Proof. induction ys as [|y ys IH]; cbn; [reflexivity|]. destruct (cond x y); cbn; [reflexivity|exact IH]. Qed.

  Theorem exists_semi_correct l r : exists_semi cond l r = logical_semi cond l r.
  Proof. unfold exists_semi, logical_semi. apply filter_ext. intros x. apply exists_scan_spec. Qed.

  Theorem exists_anti_correct l r : exists_anti cond l r = logical_anti cond l r.
  Proof. unfold exists_anti, logical_anti. apply filter_ext. intros x. rewrite exists_scan_spec. reflexivity. Qed.

  (* hash joins: the planner only builds them when the ON condition implies equal, non-NULL keys *)
  Variable key_l : L -> option K.
  Variable key_r : R -> option K.
  Variable key_eqb : K -> K -> bool.
  Hypothesis key_eqb_refl : forall k, key_eqb k k = true.
  Hypothesis cond_implies_keys :
    forall x y, cond x y = true -> exists k, key_l x = Some k /\ key_r y = Some k.

  Lemma filter_probe x r : filter (cond x) (probe key_l key_r key_eqb x r) = filter (cond x) r.
  Proof.
    unfold probe, bucket. induction r as [|y r IH]; cbn.
    - destruct (key_l x); reflexivity.
    - destruct (cond x y) eqn:C.
      + destruct (cond_implies_keys x y C) as [k [Hl Hr]]. rewrite Hl in *. cbn. rewrite Hr, key_eqb_refl. cbn.
        rewrite C. f_equal. exact IH.
      + destruct (key_l x) as [k|] eqn:Hl; cbn; [|exact IH].
        destruct (key_r y) as [k'|]; [destruct (key_eqb k k')|]; cbn; rewrite ?C; exact IH.
  Qed.

  Lemma existsb_filter {A} (p : A -> bool) l : existsb p l = existsb p (filter p l).
  Proof. induction l as [|a l IH]; cbn; [reflexivity|]. destruct (p a) eqn:E; cbn; rewrite ?E; cbn; [reflexivity|exact IH]. Qed.

  Lemma existsb_probe x r : existsb (cond x) (probe key_l key_r key_eqb x r) = existsb (cond x) r.
  Proof. rewrite (existsb_filter _ (probe _ _ _ _ _)), filter_probe, <- existsb_filter. reflexivity. Qed.

  Theorem hash_inner_correct l r : hash_join cond key_l key_r key_eqb false l r = logical_inner cond l r.
  Proof.
    unfold hash_join, logical_inner. apply flat_map_ext. intros x. rewrite nlj_scan_spec. cbn.
    rewrite filter_probe. apply app_nil_r.
  Qed.

  Theorem hash_left_correct l r : hash_join cond key_l key_r key_eqb true l r = logical_left cond l r.
  Proof.
    unfold hash_join, logical_left. apply flat_map_ext. intros x. rewrite nlj_scan_spec. cbn [orb andb].
    rewrite existsb_probe, filter_probe, filter_nil_existsb.
    destruct (filter (cond x) r); cbn; [reflexivity|]. rewrite app_nil_r. reflexivity.
  Qed.

  Theorem hash_semi_correct l r : hash_semi cond key_l key_r key_eqb l r = logical_semi cond l r.
  Proof. unfold hash_semi, logical_semi. apply filter_ext. intros x. rewrite exists_scan_spec. apply existsb_probe. Qed.

  Theorem hash_anti_correct l r : hash_anti cond key_l key_r key_eqb l r = logical_anti cond l r.
  Proof. unfold hash_anti, logical_anti. apply filter_ext. intros x. rewrite exists_scan_spec, existsb_probe. reflexivity. Qed.
End Proofs.

Theorem anti_include_nulls_is_anti {L R} (c3 : L -> R -> tri) l r :
  anti_include_nulls c3 l r = logical_anti (fun x y => not_false (c3 x y)) l r.
Proof.
  unfold anti_include_nulls, logical_anti. apply filter_ext. intros x.
  induction r as [|y r IH]; cbn; [reflexivity|]. rewrite IH. destruct (c3 x y); reflexivity.
Qed.

(* the hash anti join with NULL keys skipped is NOT the NOT-IN anti join: a NULL probe key must drop the row *)
Example hash_anti_not_in_refuted :
  let c3 := fun (x y : option nat) => match x, y with Some a, Some b => if Nat.eqb a b then TT else TF | _, _ => TN end in
  let cond := fun x y => match c3 x y with TT => true | _ => false end in
  hash_anti cond (fun x => x) (fun y => y) Nat.eqb [None] [Some 1] = [None]
  /\ anti_include_nulls c3 [None] [Some 1] = [].
Proof. split; reflexivity. Qed.
