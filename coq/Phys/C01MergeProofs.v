From Coq Require Import List ZArith Bool Sorted Lia.
Import ListNotations.
From GMS Require Import Phys.C01Joins Phys.C01Merge.
Open Scope Z_scope.

Section Proofs.
  Context {L R : Type}.
  Variable key_l : L -> option Z.
  Variable key_r : R -> option Z.
  Variable sel : L -> R -> bool.

  Notation sorted_r := (StronglySorted (fun a b : R => key_le (key_r a) (key_r b))).
  Notation sorted_l := (StronglySorted (fun a b : L => key_le (key_l a) (key_l b))).

  Lemma drop_before_sorted k r : sorted_r r -> sorted_r (drop_before key_r k r).
  Proof.
    induction r as [|y r IH]; cbn; intros H; [constructor|].
    destruct (before key_r k y); [apply IH; inversion H; assumption|assumption].
  Qed.

  (* dropped rows never match a key >= k *)
  Lemma filter_drop_before k k' r : k <= k' ->
    filter (at_key key_r k') (drop_before key_r k r) = filter (at_key key_r k') r.
  Proof.
    intros Hk. induction r as [|y r IH]; cbn; [reflexivity|].
    destruct (before key_r k y) eqn:B; [|reflexivity].
    rewrite IH. unfold before, at_key in *. destruct (key_r y) as [b|]; [|reflexivity].
    apply Z.ltb_lt in B. destruct (b =? k') eqn:E; [apply Z.eqb_eq in E; lia|reflexivity].
  Qed.

  (* after the drop, the rows with key k form a prefix *)
  Lemma take_block_filter k r : sorted_r r ->
    (forall y, In y r -> before key_r k y = false) ->
    take_block key_r k r = filter (at_key key_r k) r.
  Proof.
    induction r as [|y r IH]; cbn; intros HS HB; [reflexivity|].
    inversion HS as [|? ? HS' HA]; subst.
    destruct (at_key key_r k y) eqn:E.
    - f_equal. apply IH; [assumption|]. intros z Hz. apply HB. right. assumption.
    - (* y has key > k, so does everything after it *)
      assert (HF : forall z, In z r -> at_key key_r k z = false).
      { intros z Hz. rewrite Forall_forall in HA. specialize (HA z Hz).
        specialize (HB y (or_introl eq_refl)).
        unfold before, at_key, key_le in *. destruct (key_r y) as [b|]; [|discriminate].
        destruct (key_r z) as [c|]; [|contradiction].
        apply Z.ltb_ge in HB. apply Z.eqb_neq in E. apply Z.eqb_neq. lia. }
      clear - HF. induction r as [|z r IH]; cbn; [reflexivity|].
      rewrite (HF z (or_introl eq_refl)). apply IH. intros w Hw. apply HF. right. assumption.
  Qed.

  Lemma drop_before_none k r y : sorted_r r -> In y (drop_before key_r k r) -> before key_r k y = false.
  Proof.
    induction r as [|z r IH]; cbn; intros HS Hin; [contradiction|].
    inversion HS as [|? ? HS' HA]; subst.
    destruct (before key_r k z) eqn:B; [apply IH; assumption|].
    destruct Hin as [<-|Hin]; [assumption|].
    rewrite Forall_forall in HA. specialize (HA y Hin).
    unfold before, key_le in *. destruct (key_r z) as [b|]; [|discriminate].
    destruct (key_r y) as [c|]; [|contradiction]. apply Z.ltb_ge in B. apply Z.ltb_ge. lia.
  Qed.

  Lemma filter_merge_cond x k r : key_l x = Some k ->
    filter (merge_cond key_l key_r sel x) r = filter (sel x) (filter (at_key key_r k) r).
  Proof.
    intros Hk. induction r as [|y r IH]; [reflexivity|].
    cbn [filter]. rewrite IH. unfold merge_cond, at_key. rewrite Hk.
    destruct (key_r y) as [b|]; [|reflexivity].
    destruct (b =? k); cbn; [destruct (sel x y); reflexivity|reflexivity].
  Qed.

  Lemma merge_join_spec lo l : forall r r0,
    sorted_l l -> sorted_r r ->
    (forall x k, In x l -> key_l x = Some k -> filter (at_key key_r k) r = filter (at_key key_r k) r0) ->
    merge_join key_l key_r sel lo l r =
    flat_map (fun x => match filter (merge_cond key_l key_r sel x) r0 with
                       | [] => if lo then [(x, None)] else []
                       | m => map (fun y => (x, Some y)) m end) l.
  Proof.
    induction l as [|x l IH]; intros r r0 HL HR Hinv; cbn [merge_join flat_map]; [reflexivity|].
    inversion HL as [|? ? HL' HA]; subst.
    destruct (key_l x) as [k|] eqn:Kx.
    - set (r1 := drop_before key_r k r).
      assert (HR1 : sorted_r r1) by (apply drop_before_sorted; assumption).
      f_equal.
      + unfold emit. rewrite (filter_merge_cond x k r0 Kx).
        rewrite (take_block_filter k r1 HR1) by (intros y Hy; exact (drop_before_none k r y HR Hy)).
        unfold r1. rewrite (filter_drop_before k k r (Z.le_refl k)). rewrite (Hinv x k (or_introl eq_refl) Kx). reflexivity.
      + apply IH; [assumption|assumption|].
        intros x' k' Hin Kx'. unfold r1. rewrite filter_drop_before.
        * apply (Hinv x' k'); [right; assumption|assumption].
        * rewrite Forall_forall in HA. specialize (HA x' Hin). unfold key_le in HA. rewrite Kx' in HA. assumption.
    - f_equal.
      + assert (E : filter (merge_cond key_l key_r sel x) r0 = []).
        { clear - Kx. induction r0 as [|y r0 IH]; [reflexivity|]. cbn [filter]. rewrite IH.
          unfold merge_cond. rewrite Kx. reflexivity. }
        rewrite E. reflexivity.
      + apply IH; [assumption|assumption|]. intros x' k' Hin Kx'. apply (Hinv x' k'); [right; assumption|assumption].
  Qed.

  (* the merge join over sorted inputs is the logical join on "keys equal and not NULL, and the other filters" —
     as a SEQUENCE (left order, then right order), hence as a bag *)
  Theorem merge_inner_correct l r : sorted_l l -> sorted_r r ->
    merge_join key_l key_r sel false l r = logical_inner (merge_cond key_l key_r sel) l r.
  Proof.
    intros HL HR. rewrite (merge_join_spec false l r r HL HR) by reflexivity.
    unfold logical_inner. apply flat_map_ext. intros x. destruct (filter _ r); reflexivity.
  Qed.

  Theorem merge_left_correct l r : sorted_l l -> sorted_r r ->
    merge_join key_l key_r sel true l r = logical_left (merge_cond key_l key_r sel) l r.
  Proof.
    intros HL HR. rewrite (merge_join_spec true l r r HL HR) by reflexivity. reflexivity.
  Qed.
End Proofs.
