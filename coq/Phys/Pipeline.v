(* C35 - server/handler.go resultForDefaultIter (and resultForValueRowIter, same shape) as a network of three
   processes joined by bounded FIFO channels, driven by an arbitrary scheduler:

     reader  : iter.Next -> rowChan (cap c1 = 512); closes rowChan when the iterator ends or fails
     batcher : rowChan -> RowToSQL -> res.Rows; a full batch (B = rowsBatch = 128 rows) goes to resChan (cap c2 = 4);
               when rowChan is closed and drained it returns, leaving the partial batch in [res]
     sender  : resChan -> callback (the wire)

   plus doQuery's epilogue: the partial batch is sent with a last callback unless it is empty and some batch was
   already sent; on error nothing more is sent.  A failing iterator cancels the errgroup context; from then on each
   process may stop at any of its select statements ([Abort*] actions), or still take a normal step.
   Row and encoded-row types and the encoder are section variables (no hypothesis about them). *)
From Coq Require Import List Arith Bool Lia.
Import ListNotations.

Section Pipe.
  Variables Row Enc : Type.
  Variable encode : Row -> Enc.
  Variables B c1 c2 : nat.       (* rowsBatch, cap(rowChan), cap(resChan) *)

  Inductive src_end := EOF | Fail.            (* how iter.Next ends after the rows: io.EOF or an error *)
  Inductive bmode := Filling | Sending | BDone.

  Record st := mk {
    input : list Row;          (* rows the iterator has not produced yet *)
    fin : src_end;
    rdone : bool;              (* reader returned (rowChan closed) *)
    cancelled : bool;          (* errgroup context cancelled *)
    rowq : list Row;           (* rowChan *)
    bat : list Enc;            (* res.Rows *)
    bm : bmode;
    resq : list (list Enc);    (* resChan *)
    sdone : bool;              (* sender returned *)
    delivered : list (list Enc)  (* callback invocations so far *)
  }.

  Definition init (rows : list Row) (f : src_end) : st :=
    mk rows f false false [] [] Filling [] false [].

  Inductive action := Reader | Batcher | Sender | AbortR | AbortB | AbortS.

  Definition bm_done (m : bmode) : bool := match m with BDone => true | _ => false end.

  Definition step (a : action) (s : st) : option st :=
    match a with
    | Reader =>
        if rdone s then None else
        match input s with
        | [] => Some (mk [] (fin s) true (match fin s with Fail => true | EOF => cancelled s end)
                        (rowq s) (bat s) (bm s) (resq s) (sdone s) (delivered s))
        | r :: rest =>
            if length (rowq s) <? c1
            then Some (mk rest (fin s) false (cancelled s) (rowq s ++ [r]) (bat s) (bm s) (resq s) (sdone s) (delivered s))
            else None
        end
    | Batcher =>
        match bm s with
        | BDone => None
        | Sending =>
            if length (resq s) <? c2
            then Some (mk (input s) (fin s) (rdone s) (cancelled s) (rowq s) [] Filling (resq s ++ [bat s]) (sdone s) (delivered s))
            else None
        | Filling =>
            match rowq s with
            | r :: q =>
                let bat' := bat s ++ [encode r] in
                Some (mk (input s) (fin s) (rdone s) (cancelled s) q bat'
                         (if length bat' =? B then Sending else Filling) (resq s) (sdone s) (delivered s))
            | [] =>
                if rdone s
                then Some (mk (input s) (fin s) (rdone s) (cancelled s) [] (bat s) BDone (resq s) (sdone s) (delivered s))
                else None
            end
        end
    | Sender =>
        if sdone s then None else
        match resq s with
        | b :: q => Some (mk (input s) (fin s) (rdone s) (cancelled s) (rowq s) (bat s) (bm s) q false (delivered s ++ [b]))
        | [] => if bm_done (bm s)
                then Some (mk (input s) (fin s) (rdone s) (cancelled s) (rowq s) (bat s) (bm s) [] true (delivered s))
                else None
        end
    | AbortR =>
        if cancelled s && negb (rdone s)
        then Some (mk (input s) (fin s) true true (rowq s) (bat s) (bm s) (resq s) (sdone s) (delivered s))
        else None
    | AbortB =>
        if cancelled s && negb (bm_done (bm s))
        then Some (mk (input s) (fin s) (rdone s) true (rowq s) (bat s) BDone (resq s) (sdone s) (delivered s))
        else None
    | AbortS =>
        if cancelled s && negb (sdone s)
        then Some (mk (input s) (fin s) (rdone s) true (rowq s) (bat s) (bm s) (resq s) true (delivered s))
        else None
    end.

  (* a schedule is any list of actions; an action that is not enabled leaves the state alone *)
  Definition exec1 (a : action) (s : st) : st := match step a s with Some s' => s' | None => s end.
  Fixpoint exec (sched : list action) (s : st) : st :=
    match sched with [] => s | a :: l => exec l (exec1 a s) end.

  Definition terminal (s : st) : bool := rdone s && bm_done (bm s) && sdone s.

  (* what the client is sent: doQuery's epilogue *)
  Definition nilb {A} (l : list A) : bool := match l with [] => true | _ => false end.
  Definition client (s : st) : list (list Enc) :=
    if cancelled s then delivered s
    else if nilb (bat s) && negb (nilb (delivered s)) then delivered s
    else delivered s ++ [bat s].

  Definition failed (s : st) : bool := cancelled s.
End Pipe.

(* batch sizes the client must see for n rows and batch size B (the closed form the theorems establish) *)
Definition expected_sizes (B n : nat) : list nat :=
  repeat B (n / B) ++ (if (n mod B =? 0) && negb (n / B =? 0) then [] else [n mod B]).
