(* C01, layer (b): the merge join of sql/rowexec/merge_join.go at the block-merge level.
   Both inputs arrive sorted by the join key (NULL keys first, as an index scan delivers them).  The right cursor
   only moves forward: rows whose key is NULL or smaller than the current left key are dropped for good, the block
   of right rows with the current key is buffered and re-used by the following left rows with the same key
   (incMatch); [sel] is the conjunction of the remaining ON filters, evaluated on every pair of the block;
   a left outer merge join pads a left row that produced nothing. *)
From Coq Require Import List ZArith Bool.
Import ListNotations.
Open Scope Z_scope.

Section Merge.
  Context {L R : Type}.
  Variable key_l : L -> option Z.
  Variable key_r : R -> option Z.
  Variable sel : L -> R -> bool.

  (* right rows before key k in the sort order: NULL keys and smaller keys *)
  Definition before (k : Z) (y : R) : bool := match key_r y with None => true | Some b => b <? k end.
  Definition at_key (k : Z) (y : R) : bool := match key_r y with None => false | Some b => b =? k end.

  Fixpoint drop_before (k : Z) (r : list R) : list R :=
    match r with [] => [] | y :: r' => if before k y then drop_before k r' else r end.
  Fixpoint take_block (k : Z) (r : list R) : list R :=
    match r with [] => [] | y :: r' => if at_key k y then y :: take_block k r' else [] end.

  Definition emit (left_outer : bool) (x : L) (block : list R) : list (L * option R) :=
    match filter (sel x) block with
    | [] => if left_outer then [(x, None)] else []
    | m => map (fun y => (x, Some y)) m
    end.

  Fixpoint merge_join (left_outer : bool) (l : list L) (r : list R) : list (L * option R) :=
    match l with
    | [] => []
    | x :: l' =>
        match key_l x with
        | None => (if left_outer then [(x, None)] else []) ++ merge_join left_outer l' r
        | Some k => let r1 := drop_before k r in
                    emit left_outer x (take_block k r1) ++ merge_join left_outer l' r1
        end
    end.

  (* the ON condition the merge join implements: keys equal and not NULL, and the remaining filters *)
  Definition merge_cond (x : L) (y : R) : bool :=
    match key_l x, key_r y with Some a, Some b => (b =? a) && sel x y | _, _ => false end.

  (* sort order of keys: NULL first *)
  Definition key_le (a b : option Z) : Prop :=
    match a, b with None, _ => True | Some _, None => False | Some x, Some y => x <= y end.
End Merge.
