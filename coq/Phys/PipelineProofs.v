(* C35 - proofs about the three-process result pipeline of server/handler.go (model: Phys/Pipeline.v). *)
From Coq Require Import List Arith Bool Lia.
Import ListNotations.
From GMS Require Import Phys.Pipeline.

Section Proofs.
  Variables Row Enc : Type.
  Variable encode : Row -> Enc.
  Variables B c1 c2 : nat.
  Hypothesis HB : 1 <= B.
  Hypothesis Hc1 : 1 <= c1.
  Hypothesis Hc2 : 1 <= c2.
  Variable rows0 : list Row.
  Variable f0 : src_end.

  Notation state := (st Row Enc).
  Notation stp := (step Row Enc encode B c1 c2).
  Notation ex1 := (exec1 Row Enc encode B c1 c2).
  Notation exc := (exec Row Enc encode B c1 c2).
  Notation term := (terminal Row Enc).
  Notation cli := (client Row Enc).

  Definition Inv (s : state) : Prop :=
    concat (delivered _ _ s) ++ concat (resq _ _ s) ++ bat _ _ s ++ map encode (rowq _ _ s) ++ map encode (input _ _ s)
      = map encode rows0
    /\ Forall (fun b => length b = B) (delivered _ _ s)
    /\ Forall (fun b => length b = B) (resq _ _ s)
    /\ (bm _ _ s = Sending -> length (bat _ _ s) = B)
    /\ (bm _ _ s = Filling -> length (bat _ _ s) < B)
    /\ (bm _ _ s = BDone -> cancelled _ _ s = false ->
          length (bat _ _ s) < B /\ rowq _ _ s = [] /\ rdone _ _ s = true)
    /\ (rdone _ _ s = true -> cancelled _ _ s = false -> input _ _ s = [] /\ fin _ _ s = EOF)
    /\ (cancelled _ _ s = true -> fin _ _ s = Fail)
    /\ (sdone _ _ s = true -> cancelled _ _ s = false -> resq _ _ s = [] /\ bm _ _ s = BDone)
    /\ fin _ _ s = f0.

  Lemma inv_init : Inv (init Row Enc rows0 f0).
  Proof.
    unfold Inv, init. cbn. repeat split; try discriminate; try constructor; try lia;
      try (rewrite ?app_nil_r; reflexivity).
  Qed.

  Ltac lnorm := repeat (rewrite ?map_app, ?concat_app, <- ?app_assoc; cbn [concat map app]); rewrite ?app_nil_r.

  Ltac dflags := repeat match goal with
                         | x : bool |- _ => destruct x
                         | x : bmode |- _ => destruct x
                         | x : src_end |- _ => tryif constr_eq x f0 then fail else destruct x
                         end.
  Ltac simp_hyps := repeat match goal with
                           | H : ?a = ?a -> _ |- _ => specialize (H eq_refl)
                           | H : ?a = ?b -> _ |- _ => clear H
                           | H : _ /\ _ |- _ => destruct H
                           end.
  Ltac rest := dflags; simp_hyps; repeat split; intros; subst; try discriminate; try congruence; try lia; try assumption.
  Ltac open_inv := unfold Inv; cbn [delivered resq bat rowq input bm cancelled rdone fin sdone];
                   split; [|split; [|split]].

  Lemma inv_step : forall a s s', Inv s -> stp a s = Some s' -> Inv s'.
  Proof.
    intros a [inp fn rd cn rq bt m rs sd dl] s' (I1 & I2 & I3 & I4 & I5 & I6 & I7 & I8 & I9 & I10) E.
    cbn [delivered resq bat rowq input bm cancelled rdone fin sdone] in *.
    destruct a; unfold step in E; cbn [delivered resq bat rowq input bm cancelled rdone fin sdone] in E.
    - (* Reader *)
      destruct rd; [discriminate|].
      destruct inp as [|r rest].
      + injection E as <-. open_inv; [exact I1|exact I2|exact I3|]. clear I1 I2 I3. rest.
      + destruct (length rq <? c1); [|discriminate]. injection E as <-.
        open_inv; [rewrite <- I1; lnorm; reflexivity|exact I2|exact I3|].
        assert (rest0 : r :: rest <> []) by discriminate. clear I1 I2 I3.
        assert (rq ++ [r] <> []) by (destruct rq; discriminate).
        rest.
    - (* Batcher *)
      destruct m; [| |discriminate].
      + destruct rq as [|r q].
        * destruct rd; [|discriminate]. injection E as <-.
          open_inv; [exact I1|exact I2|exact I3|]. clear I1 I2 I3. rest.
        * injection E as <-.
          assert (length (bt ++ [encode r]) = S (length bt)) as Hl by (rewrite app_length; cbn; lia).
          open_inv; [rewrite <- I1; lnorm; reflexivity|exact I2|exact I3|]. clear I1 I2 I3.
          destruct (length (bt ++ [encode r]) =? B) eqn:Eb;
            [apply Nat.eqb_eq in Eb|apply Nat.eqb_neq in Eb]; rewrite Hl in *;
            assert (r :: q <> []) by discriminate; rest.
      + destruct (length rs <? c2); [|discriminate]. injection E as <-.
        open_inv; [rewrite <- I1; lnorm; reflexivity|exact I2| |].
        * apply Forall_app. split; [assumption|]. constructor; [apply I4; reflexivity|constructor].
        * clear I1 I2 I3. assert (rs ++ [bt] <> []) by (destruct rs; discriminate). cbn [length]. rest.
    - (* Sender *)
      destruct sd; [discriminate|].
      destruct rs as [|b q].
      + destruct (bm_done m) eqn:Em; [|discriminate]. injection E as <-.
        open_inv; [exact I1|exact I2|exact I3|]. clear I1 I2 I3. rest; cbn in Em; congruence.
      + injection E as <-. inversion I3 as [|? ? Hb Hq]; subst.
        open_inv; [rewrite <- I1; lnorm; reflexivity| |exact Hq|].
        * apply Forall_app. split; [assumption|]. constructor; [assumption|constructor].
        * clear I1 I2 I3. rest.
    - (* AbortR *)
      destruct (cn && negb rd) eqn:Ec; [|discriminate]. injection E as <-.
      open_inv; [exact I1|exact I2|exact I3|]. clear I1 I2 I3. rest.
    - (* AbortB *)
      destruct (cn && negb (bm_done m)) eqn:Ec; [|discriminate]. injection E as <-.
      open_inv; [exact I1|exact I2|exact I3|]. clear I1 I2 I3. rest.
    - (* AbortS *)
      destruct (cn && negb sd) eqn:Ec; [|discriminate]. injection E as <-.
      open_inv; [exact I1|exact I2|exact I3|]. clear I1 I2 I3. rest.
  Qed.

  Lemma inv_exec1 : forall a s, Inv s -> Inv (ex1 a s).
  Proof. intros a s H. unfold exec1. destruct (stp a s) eqn:E; [exact (inv_step a s s0 H E)|exact H]. Qed.

  Lemma inv_exec : forall sched s, Inv s -> Inv (exc sched s).
  Proof. induction sched as [|a l IH]; intros s H; [exact H|]. cbn [exec]. apply IH. apply inv_exec1. exact H. Qed.

  (* ---------- sizes ---------- *)

  Lemma concat_len : forall d : list (list Enc), Forall (fun b => length b = B) d -> length (concat d) = B * length d.
  Proof.
    intros d H. induction H as [|b d Hb _ IH]; [cbn; lia|]. cbn [concat length]. rewrite app_length, IH, Hb. lia.
  Qed.

  Lemma map_len_repeat : forall d : list (list Enc), Forall (fun b => length b = B) d -> map (@length Enc) d = repeat B (length d).
  Proof. intros d H. induction H as [|b d Hb _ IH]; [reflexivity|]. cbn. rewrite Hb, IH. reflexivity. Qed.

  Lemma sizes_closed_form : forall (d : list (list Enc)) (bt l : list Enc),
    Forall (fun b => length b = B) d -> concat d ++ bt = l -> length bt < B ->
    length d = length l / B /\ length bt = length l mod B.
  Proof.
    intros d bt l Hd Hc Hlt.
    assert (length l = B * length d + length bt) as E.
    { rewrite <- Hc, app_length, concat_len by assumption. reflexivity. }
    split.
    - apply (Nat.div_unique (length l) B (length d) (length bt)); [exact Hlt|exact E].
    - apply (Nat.mod_unique (length l) B (length d) (length bt)); [exact Hlt|exact E].
  Qed.

  (* ---------- the terminal state ---------- *)

  Lemma terminal_parts : forall s, term s = true -> rdone _ _ s = true /\ bm _ _ s = BDone /\ sdone _ _ s = true.
  Proof.
    intros s H. unfold terminal in H. apply andb_prop in H. destruct H as [H H3]. apply andb_prop in H. destruct H as [H1 H2].
    repeat split; try assumption. destruct (bm _ _ s); try discriminate. reflexivity.
  Qed.

  Lemma terminal_ok : forall s, Inv s -> term s = true -> f0 = EOF ->
    cancelled _ _ s = false /\ concat (cli s) = map encode rows0 /\
    map (@length Enc) (cli s) = expected_sizes B (length rows0).
  Proof.
    intros s (I1 & I2 & I3 & I4 & I5 & I6 & I7 & I8 & I9 & I10) Ht Hf.
    destruct (terminal_parts s Ht) as (Hr & Hm & Hs).
    assert (cancelled _ _ s = false) as Hc.
    { destruct (cancelled _ _ s) eqn:E; [|reflexivity]. specialize (I8 eq_refl). congruence. }
    destruct (I6 Hm Hc) as (Hlt & Hq & _). destruct (I7 Hr Hc) as (Hi & _). destruct (I9 Hs Hc) as (Hrs & _).
    rewrite Hq, Hi, Hrs in I1. cbn [concat map app] in I1. rewrite app_nil_r in I1.
    destruct (sizes_closed_form _ _ _ I2 I1 Hlt) as (Hd & Hb).
    rewrite map_length in Hd, Hb.
    split; [exact Hc|]. unfold client, expected_sizes. rewrite Hc.
    destruct (bat _ _ s) as [|e bt] eqn:Eb.
    - cbn [nilb andb]. cbn [length] in Hb. rewrite app_nil_r in I1.
      destruct (delivered _ _ s) as [|b d] eqn:Ed.
      + cbn [nilb negb]. cbn [app concat]. split; [exact I1|].
        cbn [length] in Hd. rewrite <- Hd, <- Hb. reflexivity.
      + cbn [nilb negb]. split; [exact I1|].
        rewrite <- Hb, <- Hd. cbn [length Nat.eqb andb negb]. rewrite app_nil_r.
        apply map_len_repeat. exact I2.
    - cbn [nilb andb]. split.
      + rewrite concat_app. cbn [concat]. rewrite app_nil_r. exact I1.
      + rewrite map_app. cbn [map]. rewrite <- Hb, <- Hd. cbn [length Nat.eqb andb].
        rewrite (map_len_repeat _ I2). reflexivity.
  Qed.

  Lemma terminal_fail : forall s, Inv s -> term s = true -> f0 = Fail ->
    cancelled _ _ s = true /\ cli s = delivered _ _ s /\
    Forall (fun b => length b = B) (cli s) /\ exists rest, concat (cli s) ++ rest = map encode rows0.
  Proof.
    intros s (I1 & I2 & I3 & I4 & I5 & I6 & I7 & I8 & I9 & I10) Ht Hf.
    destruct (terminal_parts s Ht) as (Hr & Hm & Hs).
    assert (cancelled _ _ s = true) as Hc.
    { destruct (cancelled _ _ s) eqn:E; [reflexivity|]. destruct (I7 Hr eq_refl) as [_ ?]. congruence. }
    split; [exact Hc|]. unfold client. rewrite Hc. split; [reflexivity|]. split; [exact I2|].
    eexists. exact I1.
  Qed.

  (* ---------- no deadlock ---------- *)

  Lemma no_deadlock : forall s, Inv s -> term s = false -> exists a s', stp a s = Some s'.
  Proof.
    intros [inp fn rd cn rq bt m rs sd dl] (I1 & I2 & I3 & I4 & I5 & I6 & I7 & I8 & I9 & I10) Ht.
    cbn [delivered resq bat rowq input bm cancelled rdone fin sdone] in *.
    unfold terminal in Ht. cbn [rdone bm sdone] in Ht.
    destruct sd.
    - (* sender gone *)
      destruct cn.
      + destruct m; try (exists AbortB; eexists; reflexivity).
        destruct rd; [cbn in Ht; discriminate|]. exists AbortR. eexists. reflexivity.
      + destruct (I9 eq_refl eq_refl) as (-> & ->). destruct (I6 eq_refl eq_refl) as (_ & _ & ->).
        cbn in Ht. discriminate.
    - destruct rs as [|b q]; [|exists Sender; eexists; reflexivity].
      destruct m.
      + destruct rq as [|r q]; [|exists Batcher; eexists; reflexivity].
        destruct rd; [exists Batcher; eexists; reflexivity|].
        exists Reader. unfold step. cbn [rdone input rowq length].
        destruct inp; [eexists; reflexivity|].
        assert (0 <? c1 = true) as -> by (apply Nat.ltb_lt; lia). eexists. reflexivity.
      + exists Batcher. unfold step. cbn [bm resq length].
        assert (0 <? c2 = true) as -> by (apply Nat.ltb_lt; lia). eexists. reflexivity.
      + exists Sender. eexists. reflexivity.
  Qed.

  (* ---------- every step makes progress ---------- *)

  Definition wm (m : bmode) : nat := match m with Filling => 1 | Sending => 3 | BDone => 0 end.
  Fixpoint wq (q : list (list Enc)) : nat := match q with [] => 0 | b :: q' => 2 * length b + 1 + wq q' end.
  Definition measure (s : state) : nat :=
    6 * length (input _ _ s) + 5 * length (rowq _ _ s) + 2 * length (bat _ _ s) + wq (resq _ _ s)
    + (if rdone _ _ s then 0 else 1) + wm (bm _ _ s) + (if sdone _ _ s then 0 else 1).

  Lemma wq_app : forall q b, wq (q ++ [b]) = wq q + 2 * length b + 1.
  Proof. induction q as [|x q IH]; intros b; cbn [app wq]; [lia|]. rewrite IH. lia. Qed.

  Lemma step_decreases : forall a s s', stp a s = Some s' -> measure s' < measure s.
  Proof.
    intros a [inp fn rd cn rq bt m rs sd dl] s' E. unfold measure.
    destruct a; unfold step in E; cbn [delivered resq bat rowq input bm cancelled rdone fin sdone] in *.
    - destruct rd; [discriminate|]. destruct inp as [|r rest].
      + injection E as <-. cbn. lia.
      + destruct (length rq <? c1); [|discriminate]. injection E as <-. cbn [input rowq bat resq rdone bm sdone].
        rewrite app_length. cbn [length]. lia.
    - destruct m; [| |discriminate].
      + destruct rq as [|r q].
        * destruct rd; [|discriminate]. injection E as <-. cbn. lia.
        * injection E as <-. cbn [input rowq bat resq rdone bm sdone]. rewrite app_length. cbn [length].
          destruct (length bt + 1 =? B); cbn [wm]; lia.
      + destruct (length rs <? c2); [|discriminate]. injection E as <-. cbn [input rowq bat resq rdone bm sdone].
        rewrite wq_app. cbn [length wm]. lia.
    - destruct sd; [discriminate|]. destruct rs as [|b q].
      + destruct (bm_done m); [|discriminate]. injection E as <-. cbn. lia.
      + injection E as <-. cbn [input rowq bat resq rdone bm sdone wq]. lia.
    - destruct (cn && negb rd) eqn:Ec; [|discriminate]. injection E as <-.
      apply andb_prop in Ec. destruct Ec as [_ Hr]. apply negb_true_iff in Hr. subst rd. cbn. lia.
    - destruct (cn && negb (bm_done m)) eqn:Ec; [|discriminate]. injection E as <-.
      apply andb_prop in Ec. destruct Ec as [_ Hr]. destruct m; cbn in *; try discriminate; lia.
    - destruct (cn && negb sd) eqn:Ec; [|discriminate]. injection E as <-.
      apply andb_prop in Ec. destruct Ec as [_ Hr]. apply negb_true_iff in Hr. subst sd. cbn. lia.
  Qed.

  (* ---------- fair schedules terminate ---------- *)

  Variable sched : nat -> action.
  Definition run (k : nat) : state := exc (map sched (seq 0 k)) (init Row Enc rows0 f0).
  Definition fair : Prop := forall a k, exists k', k <= k' /\ sched k' = a.

  Lemma exec_app : forall l1 l2 s, exc (l1 ++ l2) s = exc l2 (exc l1 s).
  Proof. induction l1 as [|a l IH]; intros l2 s; [reflexivity|]. cbn [app exec]. apply IH. Qed.

  Lemma run_S : forall k, run (S k) = ex1 (sched k) (run k).
  Proof. intros k. unfold run. rewrite seq_S, map_app, exec_app. reflexivity. Qed.

  Lemma inv_run : forall k, Inv (run k).
  Proof. intros k. unfold run. apply inv_exec. apply inv_init. Qed.

  Lemma run_mono : forall k d, run (k + d) = run k \/ measure (run (k + d)) < measure (run k).
  Proof.
    intros k d. induction d as [|d IH]; [left; f_equal; lia|].
    replace (k + S d) with (S (k + d)) by lia. rewrite run_S. unfold exec1.
    destruct (stp (sched (k + d)) (run (k + d))) eqn:E.
    - right. apply step_decreases in E. destruct IH as [IH|IH]; [rewrite IH in E; exact E|lia].
    - exact IH.
  Qed.

  Theorem fair_terminates : fair -> exists k, term (run k) = true.
  Proof.
    intros Hfair.
    assert (forall m k, measure (run k) <= m -> exists k', term (run k') = true) as H.
    { induction m as [|m IH]; intros k Hm.
      - destruct (term (run k)) eqn:Et; [exists k; exact Et|].
        destruct (no_deadlock _ (inv_run k) Et) as (a & s' & E). apply step_decreases in E. lia.
      - destruct (term (run k)) eqn:Et; [exists k; exact Et|].
        destruct (no_deadlock _ (inv_run k) Et) as (a & s' & E).
        destruct (Hfair a k) as (k' & Hle & Hk').
        replace k' with (k + (k' - k)) in Hk' by lia.
        destruct (run_mono k (k' - k)) as [Heq|Hlt].
        + apply (IH (S (k + (k' - k)))). rewrite run_S, Hk', Heq. unfold exec1. rewrite E.
          apply step_decreases in E. lia.
        + apply (IH (k + (k' - k))). lia. }
    exact (H (measure (run 0)) 0 (le_n _)).
  Qed.
End Proofs.

(* ---------- closed statements ---------- *)

Theorem pipeline_exact : forall (Row Enc : Type) (encode : Row -> Enc) (B c1 c2 : nat) (rows : list Row) (sched : list action),
  1 <= B -> 1 <= c1 -> 1 <= c2 ->
  let s := exec Row Enc encode B c1 c2 sched (init Row Enc rows EOF) in
  terminal Row Enc s = true ->
  failed Row Enc s = false /\ concat (client Row Enc s) = map encode rows /\
  map (@length Enc) (client Row Enc s) = expected_sizes B (length rows).
Proof.
  intros Row Enc encode B c1 c2 rows sched HB H1 H2 s Ht.
  apply (terminal_ok Row Enc encode B c1 c2 HB H1 H2 rows EOF s); [|exact Ht|reflexivity].
  apply inv_exec; try assumption. apply (inv_init Row Enc encode B c1 c2); assumption.
Qed.

Theorem pipeline_error : forall (Row Enc : Type) (encode : Row -> Enc) (B c1 c2 : nat) (rows : list Row) (sched : list action),
  1 <= B -> 1 <= c1 -> 1 <= c2 ->
  let s := exec Row Enc encode B c1 c2 sched (init Row Enc rows Fail) in
  terminal Row Enc s = true ->
  failed Row Enc s = true /\ client Row Enc s = delivered Row Enc s /\
  Forall (fun b => length b = B) (client Row Enc s) /\
  exists rest, concat (client Row Enc s) ++ rest = map encode rows.
Proof.
  intros Row Enc encode B c1 c2 rows sched HB H1 H2 s Ht.
  apply (terminal_fail Row Enc encode B rows Fail s); [|exact Ht|reflexivity].
  apply inv_exec; try assumption. apply (inv_init Row Enc encode B c1 c2); assumption.
Qed.

Theorem pipeline_no_deadlock : forall (Row Enc : Type) (encode : Row -> Enc) (B c1 c2 : nat) (rows : list Row) (f : src_end)
  (sched : list action), 1 <= B -> 1 <= c1 -> 1 <= c2 ->
  let s := exec Row Enc encode B c1 c2 sched (init Row Enc rows f) in
  terminal Row Enc s = false -> exists a s', step Row Enc encode B c1 c2 a s = Some s'.
Proof.
  intros Row Enc encode B c1 c2 rows f sched HB H1 H2 s Ht.
  apply (no_deadlock Row Enc encode B c1 c2 HB H1 H2 rows f s); [|exact Ht].
  apply inv_exec; try assumption. apply (inv_init Row Enc encode B c1 c2); assumption.
Qed.

(* executable sanity: round-robin over 300 rows with B = 128, capacities 2 and 1 *)
Definition rr (n : nat) : list action := concat (repeat [Reader; Batcher; Sender] n).
Lemma pipeline_nonvacuous :
  let s := exec nat nat S 128 2 1 (rr 700) (init nat nat (seq 0 300) EOF) in
  terminal nat nat s = true /\ map (@length nat) (client nat nat s) = [128; 128; 44] /\
  let s' := exec nat nat S 128 2 1 (rr 700) (init nat nat (seq 0 300) Fail) in
  terminal nat nat s' = true /\ failed nat nat s' = true /\ map (@length nat) (client nat nat s') = [128; 128].
Proof. vm_compute. repeat split. Qed.
