(* C11 — unkeyed plan-node caches and statement histories.
   Mirrors plan.CachedResults + rowexec.cachedResultsIter (sql/plan/cached_results.go, sql/rowexec/cache.go)
   and the result cache of plan.Subquery (sql/plan/subquery.go: cache / resultsCached, filled only when
   canCacheResults()): the cache is a field of the plan node, carries NO key, is filled only when the child
   iterator was read to EOF, and is replayed for every later outer row.  Plans (and so their caches) are built
   per statement; a prepared statement keeps only its AST.  Queries are the C02 definition. *)
From Coq Require Import List ZArith NArith Bool.
Import ListNotations.
From GMS Require Import Rel.C02Logical.

(* ---------- one cached plan node under an outer loop ---------- *)
Section CachedNode.
  Context {B : Type}.
  (* the cached subtree, evaluated for an outer row *)
  Variable sub : row -> res (list row).
  (* what the parent does with the subtree's rows for this outer row *)
  Variable k : row -> list row -> res B.
  (* did the parent read the child iterator to EOF for this outer row?  (EXISTS stops at the first row) *)
  Variable exhausts : row -> list row -> bool.

  (* buildCachedResults: replay when finalized, else run the child; saveResultsInNode only at EOF *)
  Definition cached_call (st : option (list row)) (r : row) : res (list row * option (list row)) :=
    match st with
    | Some c => Ok (c, st)
    | None => do s <- sub r; Ok (s, if exhausts r s then Some s else None)
    end.

  Fixpoint loop_cached (st : option (list row)) (outer : list row) : res (list B) :=
    match outer with
    | [] => Ok []
    | r :: t =>
        do sc <- cached_call st r;
        do b <- k r (fst sc);
        do bs <- loop_cached (snd sc) t;
        Ok (b :: bs)
    end.

  Definition loop_uncached (outer : list row) : res (list B) :=
    mapM (fun r => do s <- sub r; k r s) outer.

  (* the planner's guard: the cached subtree does not depend on the outer row *)
  Definition outer_independent : Prop := forall r r', sub r = sub r'.
End CachedNode.

(* a mutant that finalizes a partially read iterator would cache the prefix read so far *)
Definition cached_call_eager (sub : row -> res (list row)) (readn : row -> list row -> nat)
           (st : option (list row)) (r : row) : res (list row * option (list row)) :=
  match st with
  | Some c => Ok (c, st)
  | None => do s <- sub r; Ok (s, Some (firstn (readn r s) s))
  end.

(* ---------- the two uses in the engine, over the C02 definition ---------- *)
(* WHERE a IN (q) evaluated with a result cache on q *)
Definition in_filter_cached (d : db) (en : env) (a : expr) (q : query) (rows : list row) : res (list bool) :=
  loop_cached (fun r => eval_query d (r :: en) q)
              (fun r s => do x <- eval_expr d (r :: en) a; do ys <- mapM first_col s; do t <- in3 x ys; Ok (is_true t))
              (fun _ _ => true) None rows.

Definition in_filter_plain (d : db) (en : env) (a : expr) (q : query) (rows : list row) : res (list bool) :=
  mapM (fun r => holds (eval_expr d (r :: en) (EInQ a q))) rows.

(* nested-loop inner join whose right child is a CachedResults node *)
Definition nlj_cached (onf : row -> res bool) (right : row -> res (list row)) (L : list row) : res (list row) :=
  do parts <- loop_cached right (fun l R => do ms <- filterM (fun r => onf (l ++ r)) R; Ok (map (app l) ms))
                          (fun _ _ => true) None L;
  Ok (concat parts).

(* ---------- histories ---------- *)
Inductive op :=
| OInsert (t : nat) (rows : list row)
| ODelete (t : nat) (c : nat) (v : val)              (* DELETE FROM t WHERE c = v *)
| OUpdate (t : nat) (c : nat) (v : val) (c' : nat) (v' : val)   (* UPDATE t SET c' = v' WHERE c = v *)
| OClear (t : nat)                                   (* DELETE FROM t / DROP + CREATE *)
| OIndex (t : nat)                                   (* CREATE / DROP INDEX, or a statement that fails: no effect *)
(* INSERT into t with the triggers  BEFORE INSERT: SET NEW.c = (SELECT MAX(v) FROM lg)  and
   AFTER INSERT: INSERT INTO lg VALUES (NEW.c + 1): every row fired sees the log as left by the previous row *)
| OInsertLog (t c lg : nat) (rows : list row)
| OQuery (sid : nat) (q : query)
| OPrepare (sid : nat) (name : nat) (q : query)
| OExecute (sid : nat) (name : nat).

Definition matches (c : nat) (v : val) (r : row) : bool :=
  match cmp3 OEq (nth c r VNull) v with Ok TT => true | _ => false end.

Fixpoint set_nth (c : nat) (v : val) (r : row) : row :=
  match r, c with
  | [], _ => []
  | _ :: t, O => v :: t
  | x :: t, S c' => x :: set_nth c' v t
  end.

Definition upd_table (t : nat) (f : list row -> list row) (d : db) : db :=
  map (fun it => if Nat.eqb (fst it) t then (fst (snd it), f (snd (snd it))) else snd it) (combine (seq 0 (length d)) d).

(* MAX(v) over the first column of the log table (NULL when it has no integer) *)
Definition log_max (lg : nat) (d : db) : val :=
  match nth_error d lg with
  | Some (_, rows) =>
      fold_left (fun acc r => match acc, r with
                              | VInt a, VInt b :: _ => VInt (Z.max a b)
                              | VNull, VInt b :: _ => VInt b
                              | _, _ => acc
                              end) rows VNull
  | None => VNull
  end.

Definition insert_logged (t c lg : nat) (d : db) (r : row) : db :=
  let m := log_max lg d in
  let d1 := upd_table t (fun old => old ++ [set_nth c m r]) d in
  upd_table lg (fun old => old ++ [[match m with VInt z => VInt (Z.add z 1%Z) | _ => VNull end]]) d1.

Definition apply_dml (o : op) (d : db) : db :=
  match o with
  | OInsertLog t c lg rows => fold_left (insert_logged t c lg) rows d
  | OInsert t rows => upd_table t (fun old => old ++ rows) d
  | ODelete t c v => upd_table t (filter (fun r => negb (matches c v r))) d
  | OUpdate t c v c' v' => upd_table t (map (fun r => if matches c v r then set_nth c' v' r else r)) d
  | OClear t => upd_table t (fun _ => []) d
  | _ => d
  end.

Record state := { sdb : db; prepared : list (nat * nat * query) }.

Fixpoint lookup (sid name : nat) (ps : list (nat * nat * query)) : option query :=
  match ps with
  | [] => None
  | (s, n, q) :: t => if Nat.eqb s sid && Nat.eqb n name then Some q else lookup sid name t
  end.

(* a statement is planned afresh (empty caches) and run against the current data; a prepared statement keeps
   only its AST.  [exec] is the executor: the theorems instantiate it with the definition and show that the
   cached executors coincide with it under the guard. *)
Section Run.
  Variable exec : db -> query -> res (list row).

  Definition step (st : state) (o : op) : state * option (res (list row)) :=
    match o with
    | OQuery _ q => (st, Some (exec (sdb st) q))
    | OPrepare sid n q => ({| sdb := sdb st; prepared := (sid, n, q) :: prepared st |}, None)
    | OExecute sid n =>
        (st, Some (match lookup sid n (prepared st) with Some q => exec (sdb st) q | None => Err ErrShape end))
    | _ => ({| sdb := apply_dml o (sdb st); prepared := prepared st |}, None)
    end.

  Fixpoint run (st : state) (h : list op) : state * list (res (list row)) :=
    match h with
    | [] => (st, [])
    | o :: t =>
        let '(st1, out) := step st o in
        let '(st2, outs) := run st1 t in
        (st2, match out with Some r => r :: outs | None => outs end)
    end.
End Run.

Definition db_after (d : db) (h : list op) : db := fold_left (fun d o => apply_dml o d) h d.

Definition exec_def (d : db) (q : query) : res (list row) := eval_query d [] q.
