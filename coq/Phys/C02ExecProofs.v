(* C02 — the executor of Phys/C02Exec.v refines the SQL definition of Rel/C02Logical.v:
   whenever the definition assigns rows to a query of the covered fragment, the plan of the query returns
   exactly these rows, in the same order.  Per-operator lemmas first, then structural induction on the query. *)
From Coq Require Import List ZArith NArith Bool Lia Permutation Arith.
Import ListNotations.
From GMS Require Import Rel.C02Logical Rel.C02LogicalProofs Phys.C02Exec.
Open Scope Z_scope.

(* [g] returns at least what [f] returns *)
Definition sub {A B} (f g : A -> res B) : Prop := forall x v, f x = Ok v -> g x = Ok v.

Lemma mapM_sub {A B} (f g : A -> res B) l r : sub f g -> mapM f l = Ok r -> mapM g l = Ok r.
Proof.
  intros S. revert r. induction l as [|x t IH]; cbn; intros r H; [exact H|].
  inv_bind H. inv_bind H. injection H as <-. rewrite (S _ _ Ha). cbn. rewrite (IH _ Ha0). reflexivity.
Qed.

Lemma mapM_map {A B C} (f : B -> res C) (g : A -> B) l : mapM f (map g l) = mapM (fun x => f (g x)) l.
Proof. induction l as [|x t IH]; cbn; [reflexivity|]. rewrite IH. reflexivity. Qed.

Lemma mapM_app_inv {A B} (f : A -> res B) l1 l2 r :
  mapM f (l1 ++ l2) = Ok r -> exists r1 r2, mapM f l1 = Ok r1 /\ mapM f l2 = Ok r2 /\ r = r1 ++ r2.
Proof.
  revert r. induction l1 as [|x t IH]; cbn; intros r H.
  - exists [], r. auto.
  - inv_bind H. inv_bind H. injection H as <-. destruct (IH _ Ha0) as (r1 & r2 & E1 & E2 & ->).
    exists (a :: r1), r2. rewrite Ha, E1. cbn. auto.
Qed.

Lemma foldM_app {A B} (f : B -> A -> res B) l1 l2 b :
  foldM f (l1 ++ l2) b = bind (foldM f l1 b) (foldM f l2).
Proof.
  revert b. induction l1 as [|x t IH]; cbn; intros b; [reflexivity|].
  destruct (f b x) as [b'|e]; cbn; [apply IH|reflexivity].
Qed.

Lemma cond_true_holds v : cond_true v = holds v.
Proof.
  unfold cond_true, holds. destruct v as [x|e]; cbn; [|reflexivity].
  destruct x as [|z|m s|b]; cbn; try reflexivity.
  - destruct (Z.eqb z 0); reflexivity.
  - destruct (Z.eqb m 0); reflexivity.
Qed.

Lemma holds_sub {A} (f g : A -> res val) : sub f g -> sub (fun x => holds (f x)) (fun x => holds (g x)).
Proof.
  intros S x b H. unfold holds in *. inv_bind H. rewrite (S _ _ Ha). cbn. exact H.
Qed.

(* ---------- Filter keeps exactly the rows whose condition is TRUE ---------- *)
Lemma filter_iter_ok (ev ev' : row -> res val) rows kept :
  sub ev ev' ->
  filterM (fun rw => holds (ev rw)) rows = Ok kept -> filter_iter ev' rows = Ok kept.
Proof.
  intros S. revert kept. induction rows as [|rw t IH]; cbn; intros kept H; [exact H|].
  inv_bind H. inv_bind H. injection H as <-.
  rewrite cond_true_holds, (holds_sub _ _ S _ _ Ha). cbn. rewrite (IH _ Ha0). reflexivity.
Qed.

Lemma filter_iter_true (ev : row -> res val) rows kept :
  filter_iter ev rows = Ok kept -> forall rw, In rw kept <-> (In rw rows /\ cond_true (ev rw) = Ok true).
Proof.
  intros H. assert (H' : filterM (fun rw => cond_true (ev rw)) rows = Ok kept).
  { revert kept H. induction rows as [|rw t IH]; cbn; intros kept H; [exact H|].
    inv_bind H. inv_bind H. injection H as <-. rewrite Ha. cbn. rewrite (IH _ Ha0). reflexivity. }
  exact (filterM_In _ _ _ H').
Qed.

Lemma project_iter_ok (pr pr' : row -> res row) rows out :
  sub pr pr' -> mapM pr rows = Ok out -> project_iter pr' rows = Ok out.
Proof.
  intros S. revert out. induction rows as [|rw t IH]; cbn; intros out H; [exact H|].
  inv_bind H. inv_bind H. injection H as <-. rewrite (S _ _ Ha). cbn. rewrite (IH _ Ha0). reflexivity.
Qed.

(* ---------- joins ---------- *)
Definition is_nil {A} (l : list A) : bool := match l with [] => true | _ => false end.

Lemma join_scan_ok (ev ev' : row -> res val) lo wr l R ms found :
  sub ev ev' ->
  filterM (fun r => holds (ev (l ++ r))) R = Ok ms ->
  join_scan ev' lo wr l R found =
    Ok (map (app l) ms ++ if lo && negb found && is_nil ms then [l ++ nulls wr] else []).
Proof.
  intros S. revert ms found. induction R as [|r t IH]; cbn; intros ms found H.
  - injection H as <-. cbn. rewrite andb_true_r. reflexivity.
  - inv_bind H. inv_bind H. injection H as <-.
    rewrite cond_true_holds, (holds_sub (fun r => ev (l ++ r)) (fun r => ev' (l ++ r)) (fun x v => S (l ++ x) v) _ _ Ha).
    cbn. destruct a.
    + rewrite (IH _ true Ha0). cbn. rewrite !andb_false_r. cbn. rewrite app_nil_r. reflexivity.
    + rewrite (IH _ found Ha0). reflexivity.
Qed.

Lemma inner_join_ok (ev ev' : row -> res val) wr L R rows :
  sub ev ev' ->
  inner_join (fun rw => holds (ev rw)) L R = Ok rows -> join_iter ev' false wr L R = Ok rows.
Proof.
  intros S. unfold inner_join. intros H. inv_bind H. injection H as <-. rename a into parts.
  revert parts Ha. induction L as [|l t IH]; cbn; intros parts H.
  - injection H as <-. reflexivity.
  - inv_bind H. inv_bind H. injection H as <-. inv_bind Ha. injection Ha as <-.
    rewrite (join_scan_ok ev ev' false wr l R _ false S Ha1). cbn. rewrite app_nil_r.
    rewrite (IH _ Ha0). reflexivity.
Qed.

(* a left outer join pads the unmatched primary rows with NULLs *)
Lemma left_join_ok (ev ev' : row -> res val) wr L R rows :
  sub ev ev' ->
  outer_join (fun rw => holds (ev rw)) (fun l r => l ++ r) (fun l => l ++ nulls wr) L R = Ok rows ->
  join_iter ev' true wr L R = Ok rows.
Proof.
  intros S. unfold outer_join. intros H. inv_bind H. injection H as <-. rename a into parts.
  revert parts Ha. induction L as [|l t IH]; cbn; intros parts H.
  - injection H as <-. reflexivity.
  - inv_bind H. inv_bind H. injection H as <-. inv_bind Ha. injection Ha as <-.
    rewrite (join_scan_ok ev ev' true wr l R _ false S Ha1). cbn.
    rewrite (IH _ Ha0). cbn. f_equal. f_equal.
    destruct a1; cbn; [reflexivity|]. rewrite app_nil_r. reflexivity.
Qed.

Lemma cross_join_ok L R : inner_join (fun _ => Ok true) L R = Ok (cross_iter L R).
Proof.
  unfold inner_join, cross_iter.
  assert (F : filterM (fun _ : row => Ok true) R = Ok R).
  { induction R as [|r t IH]; cbn; [reflexivity|]. rewrite IH. reflexivity. }
  rewrite (mapM_pure _ (fun l => map (app l) R)).
  - cbn. rewrite flat_map_concat_map. reflexivity.
  - intros l _. cbv beta. change (filterM (fun _ : list val => Ok true) R) with (filterM (fun _ : row => Ok true) R). rewrite F. reflexivity.
Qed.

(* ---------- Distinct = keep the first occurrence of every row identity ---------- *)
Lemma existsb_map {A B} (f : B -> bool) (g : A -> B) l : existsb f (map g l) = existsb (fun x => f (g x)) l.
Proof. induction l as [|x t IH]; cbn; [reflexivity|]. rewrite IH. reflexivity. Qed.

Lemma distinct_iter_dedup seen rows : distinct_iter (map nrow seen) rows = dedup_acc row_eqb seen rows.
Proof.
  revert seen. induction rows as [|rw t IH]; cbn; intros seen; [reflexivity|].
  rewrite existsb_map. unfold mem.
  change (existsb (fun x => row_beq (nrow rw) (nrow x)) seen) with (existsb (row_eqb rw) seen).
  destruct (existsb (row_eqb rw) seen).
  - apply IH.
  - f_equal. apply (IH (rw :: seen)).
Qed.

Lemma distinct_iter_ok rows : distinct_iter [] rows = dedup row_eqb rows.
Proof. exact (distinct_iter_dedup [] rows). Qed.

(* ---------- Limit / Offset = firstn / skipn ---------- *)
Lemma limit_iter_firstn rows : forall pos n, limit_iter pos n rows = firstn (n - pos) rows.
Proof.
  induction rows as [|x t IH]; intros pos n; cbn [limit_iter].
  - rewrite firstn_nil. reflexivity.
  - destruct (Nat.leb n pos) eqn:E.
    + apply Nat.leb_le in E. replace (n - pos)%nat with O by lia. reflexivity.
    + apply Nat.leb_gt in E. destruct (n - pos)%nat as [|k] eqn:E2; [lia|]. cbn [firstn]. f_equal.
      rewrite IH. f_equal. lia.
Qed.

Lemma offset_iter_skipn rows : forall k, offset_iter k rows = skipn k rows.
Proof.
  induction rows as [|x t IH]; intros k; cbn.
  - destruct k; reflexivity.
  - destruct k; cbn; [reflexivity|apply IH].
Qed.

Lemma limit_offset_ok n off rows : limit_iter O n (offset_iter off rows) = firstn n (skipn off rows).
Proof. rewrite limit_iter_firstn, offset_iter_skipn, Nat.sub_0_r. reflexivity. Qed.

(* ---------- IN: the flag loop computes the OR of the equalities ---------- *)
Definition flag (found sawnull : bool) : tri := if found then TT else if sawnull then TN else TF.

Lemma in_loop_spec x ys : forall found sawnull,
  in_loop x ys found sawnull =
  (do ts <- mapM (cmp3 OEq x) ys; Ok (or3 (flag found sawnull) (fold_right or3 TF ts))).
Proof.
  induction ys as [|y t IH]; cbn [in_loop mapM]; intros f n.
  - cbn. destruct f, n; reflexivity.
  - destruct (cmp3 OEq x y) as [c|e]; cbn [bind]; [|reflexivity].
    destruct c; rewrite IH; destruct (mapM (cmp3 OEq x) t) as [ts|e]; cbn; try reflexivity;
      destruct f, n, (fold_right or3 TF ts); reflexivity.
Qed.

Lemma in_loop_in3 x ys : in_loop x ys false false = in3 x ys.
Proof.
  rewrite in_loop_spec. unfold in3. destruct (mapM (cmp3 OEq x) ys) as [ts|e]; cbn; [|reflexivity].
  destruct (fold_right or3 TF ts); reflexivity.
Qed.

(* ---------- aggregation buffers = the definition's aggregate over the argument list ---------- *)
Lemma non_null_cons v t : non_null (v :: t) = if is_null v then non_null t else v :: non_null t.
Proof. destruct v; reflexivity. Qed.

Definition sum_step (acc : res (Z * nat)) (v : val) : res (Z * nat) :=
  do a <- acc; match num_of v with Some b => Ok (num_add a b) | None => Err ErrType end.
Definition pick_step (want : comparison) (acc : res val) (v : val) : res val :=
  do a <- acc; do c <- cmp_nn v a; Ok (if comp_eqb c want then v else a).

Lemma fold_left_err {A B} (f : res B -> A -> res B) l e :
  (forall e x, f (Err e) x = Err e) -> fold_left f l (Err e) = Err e.
Proof. intros Hf. induction l as [|x t IH]; cbn; [reflexivity|]. rewrite Hf. exact IH. Qed.

Lemma sum_stream args : forall isnil acc r,
  fold_left sum_step (non_null args) (Ok acc) = Ok r ->
  foldM (buf_update ASum) args (BSum isnil acc) = Ok (BSum (isnil && is_nil (non_null args)) r).
Proof.
  induction args as [|v t IH]; intros isnil acc r H.
  - cbn in H. injection H as <-. cbn. rewrite andb_true_r. reflexivity.
  - rewrite non_null_cons in *. cbn [foldM buf_update]. destruct (is_null v) eqn:N.
    + cbn [bind]. apply IH. exact H.
    + cbn [fold_left] in H. unfold sum_step at 2 in H. cbn [bind] in H.
      destruct (num_of v) as [x|].
      * cbn [bind]. rewrite (IH false _ _ H). cbn. rewrite andb_false_r. reflexivity.
      * rewrite fold_left_err in H by reflexivity. discriminate.
Qed.

Lemma avg_stream args : forall acc n r,
  fold_left sum_step (non_null args) (Ok acc) = Ok r ->
  foldM (buf_update AAvg) args (BAvg acc n) = Ok (BAvg r (n + Z.of_nat (length (non_null args)))).
Proof.
  induction args as [|v t IH]; intros acc n r H.
  - cbn in H. injection H as <-. cbn. rewrite Z.add_0_r. reflexivity.
  - rewrite non_null_cons in *. cbn [foldM buf_update]. destruct (is_null v) eqn:N.
    + cbn [bind]. apply IH. exact H.
    + cbn [fold_left] in H. unfold sum_step at 2 in H. cbn [bind] in H.
      destruct (num_of v) as [x|].
      * cbn [bind]. rewrite (IH _ _ _ H). cbn [length]. f_equal. f_equal. lia.
      * rewrite fold_left_err in H by reflexivity. discriminate.
Qed.

Lemma ext_stream f want args :
  (forall cur v, buf_update f (BExt cur) v = ext_update want cur v) ->
  forall a r, fold_left (pick_step want) (non_null args) (Ok a) = Ok r ->
              foldM (buf_update f) args (BExt (Some a)) = Ok (BExt (Some r)).
Proof.
  intros Hf. induction args as [|v t IH]; intros a r H.
  - cbn in H. injection H as <-. reflexivity.
  - rewrite non_null_cons in H. cbn [foldM]. rewrite Hf. unfold ext_update. destruct (is_null v) eqn:N.
    + cbn [bind]. apply IH. exact H.
    + cbn [fold_left] in H. unfold pick_step at 2 in H. cbn [bind] in H.
      destruct (cmp_nn v a) as [c|e].
      * cbn [bind] in *. apply IH. exact H.
      * cbn [bind] in H. rewrite fold_left_err in H by reflexivity. discriminate.
Qed.

Lemma ext_lead f want args :
  (forall cur v, buf_update f (BExt cur) v = ext_update want cur v) ->
  match non_null args with
  | [] => foldM (buf_update f) args (BExt None) = Ok (BExt None)
  | v :: t => forall r, pick want t v = Ok r -> foldM (buf_update f) args (BExt None) = Ok (BExt (Some r))
  end.
Proof.
  intros Hf. induction args as [|v t IH].
  - reflexivity.
  - rewrite non_null_cons. cbn [foldM]. rewrite Hf. unfold ext_update. destruct (is_null v) eqn:N.
    + cbn [bind]. exact IH.
    + cbn [bind]. intros r H. apply (ext_stream f want t Hf). exact H.
Qed.

Lemma count_star_stream (args : list val) : forall n,
  foldM (buf_update ACountStar) args (BCount n) = Ok (BCount (n + Z.of_nat (length args))).
Proof.
  induction args as [|v t IH]; intros n; cbn [foldM buf_update bind length].
  - rewrite Z.add_0_r. reflexivity.
  - rewrite IH. f_equal. f_equal. lia.
Qed.

Lemma count_stream (args : list val) : forall n,
  foldM (buf_update ACount) args (BCount n) = Ok (BCount (n + Z.of_nat (length (non_null args)))).
Proof.
  induction args as [|v t IH]; intros n.
  - cbn. rewrite Z.add_0_r. reflexivity.
  - rewrite non_null_cons. cbn [foldM buf_update bind]. rewrite IH. destruct (is_null v); cbn [length]; f_equal; f_equal; lia.
Qed.

Lemma count_distinct_stream (args : list val) : forall seen,
  exists seen', foldM (buf_update ACountDistinct) args (BDistinct seen) = Ok (BDistinct seen') /\
                length seen' = (length seen + length (dedup_acc val_eqb seen (non_null args)))%nat.
Proof.
  induction args as [|v t IH]; intros seen.
  - exists seen. cbn. split; [reflexivity|lia].
  - rewrite non_null_cons. cbn [foldM buf_update bind]. destruct (is_null v) eqn:N; cbn [orb].
    + apply IH.
    + cbn [dedup_acc]. destruct (mem val_eqb v seen).
      * apply IH.
      * destruct (IH (v :: seen)) as (s' & E & L). exists s'. split; [exact E|]. cbn [length] in *. lia.
Qed.

Lemma agg_stream f args av :
  agg f args = Ok av -> exists b, foldM (buf_update f) args (buf_init f) = Ok b /\ buf_eval b = av.
Proof.
  destruct f; cbn [agg buf_init]; intros H.
  - injection H as <-. eexists. split; [apply count_star_stream|]. reflexivity.
  - injection H as <-. eexists. split; [apply count_stream|]. reflexivity.
  - injection H as <-. destruct (count_distinct_stream args []) as (s' & E & L).
    exists (BDistinct s'). split; [exact E|]. cbn. rewrite L. reflexivity.
  - destruct (non_null args) as [|v t] eqn:NN.
    + injection H as <-. eexists. split.
      * apply (sum_stream args true (0, O) (0, O)). rewrite NN. reflexivity.
      * rewrite NN. reflexivity.
    + inv_bind H. destruct a as [m s]. injection H as <-. eexists. split.
      * apply (sum_stream args true (0, O) (m, s)). rewrite NN. exact Ha.
      * rewrite NN. reflexivity.
  - pose proof (ext_lead AMin Lt args (fun _ _ => eq_refl)) as L.
    destruct (non_null args) as [|v t].
    + injection H as <-. eexists. split; [exact L|reflexivity].
    + eexists. split; [exact (L _ H)|reflexivity].
  - pose proof (ext_lead AMax Gt args (fun _ _ => eq_refl)) as L.
    destruct (non_null args) as [|v t].
    + injection H as <-. eexists. split; [exact L|reflexivity].
    + eexists. split; [exact (L _ H)|reflexivity].
  - destruct (non_null args) as [|v t] eqn:NN.
    + injection H as <-. eexists. split.
      * apply (avg_stream args (0, O) 0 (0, O)). rewrite NN. reflexivity.
      * rewrite NN. reflexivity.
    + inv_bind H. destruct a as [m s]. injection H as <-. eexists. split.
      * apply (avg_stream args (0, O) 0 (m, s)). rewrite NN. exact Ha.
      * rewrite NN. cbn [buf_eval length]. rewrite Z.add_0_l.
        destruct (Z.eqb_spec (Z.of_nat (S (length t))) 0) as [E|_]; [lia|reflexivity].
Qed.

(* ---------- GROUP BY: the streaming group table computes the definition's groups and aggregates ---------- *)
Section GroupBy.
  Context {E : Type}.
  Variables ev ev' : row -> E -> res val.

  (* the definition's aggregate values of a group with members [ms] *)
  Definition def_avs (aggsE : list (aggfn * E)) (ms : list row) : res (list val) :=
    mapM (fun fe : aggfn * E => do args <- mapM (fun rw => ev rw (snd fe)) ms; agg (fst fe) args) aggsE.
  Definition paggs (aggsE : list (aggfn * E)) : list pagg :=
    map (fun fe : aggfn * E => (fst fe, fun rw => ev' rw (snd fe))) aggsE.
  (* the buffers after feeding the members of a group, row by row *)
  Definition bufs_of (aggsE : list (aggfn * E)) (ms : list row) : res (list buf) :=
    foldM (fun bufs rw => update_buffers (paggs aggsE) rw bufs) ms (new_buffers (paggs aggsE)).

  Lemma col_fold f e ms : forall args b0 b,
    sub (fun rw => ev rw e) (fun rw => ev' rw e) ->
    mapM (fun rw => ev rw e) ms = Ok args -> foldM (buf_update f) args b0 = Ok b ->
    foldM (fun b rw => do v <- ev' rw e; buf_update f b v) ms b0 = Ok b.
  Proof.
    induction ms as [|rw t IH]; cbn [mapM foldM]; intros args b0 b S H1 H2.
    - injection H1 as <-. exact H2.
    - inv_bind H1. inv_bind H1. injection H1 as <-. cbn [foldM] in H2. inv_bind H2.
      rewrite (S _ _ Ha). cbn [bind]. rewrite Ha1. cbn [bind]. exact (IH _ _ _ S Ha0 H2).
  Qed.

  Lemma zip_fold (a : pagg) (aggs : list pagg) ms : forall b0 bs0 b bs,
    foldM (fun b rw => do v <- snd a rw; buf_update (fst a) b v) ms b0 = Ok b ->
    foldM (fun bufs rw => update_buffers aggs rw bufs) ms bs0 = Ok bs ->
    foldM (fun bufs rw => update_buffers (a :: aggs) rw bufs) ms (b0 :: bs0) = Ok (b :: bs).
  Proof.
    induction ms as [|rw t IH]; cbn [foldM]; intros b0 bs0 b bs H1 H2.
    - injection H1 as <-. injection H2 as <-. reflexivity.
    - inv_bind H1. inv_bind H2. inv_bind Ha. cbn [update_buffers].
      rewrite Ha1. cbn [bind]. rewrite Ha. cbn [bind]. rewrite Ha0. cbn [bind]. exact (IH _ _ _ _ H1 H2).
  Qed.

  Lemma bufs_of_nil ms : foldM (fun bufs rw => update_buffers [] rw bufs) ms [] = Ok [].
  Proof. induction ms as [|rw t IH]; cbn; [reflexivity|exact IH]. Qed.

  Lemma group_cols aggsE ms : forall avs,
    (forall fe, In fe aggsE -> sub (fun rw => ev rw (snd fe)) (fun rw => ev' rw (snd fe))) ->
    def_avs aggsE ms = Ok avs ->
    exists bufs, bufs_of aggsE ms = Ok bufs /\ eval_buffers bufs = avs.
  Proof.
    unfold def_avs, bufs_of. induction aggsE as [|fe t IH]; cbn [mapM paggs map new_buffers]; intros avs S H.
    - injection H as <-. exists []. split; [apply bufs_of_nil|reflexivity].
    - inv_bind H. inv_bind H. injection H as <-. inv_bind Ha.
      destruct (agg_stream _ _ _ Ha) as (b & Hb & Eb).
      destruct (IH _ (fun fe' Hin => S fe' (or_intror Hin)) Ha0) as (bufs & Hbufs & Ebufs).
      exists (b :: bufs). split.
      + apply zip_fold; [|exact Hbufs]. cbn [fst snd].
        exact (col_fold (fst fe) (snd fe) ms _ _ _ (S fe (or_introl eq_refl)) Ha1 Hb).
      + cbn. rewrite Eb. f_equal. exact Ebufs.
  Qed.

  Definition ginv (aggsE : list (aggfn * E)) (g : row * list row) (s : row * list buf) : Prop :=
    fst g = fst s /\ bufs_of aggsE (snd g) = Ok (snd s).

  Lemma bufs_of_snoc aggsE ms rw :
    bufs_of aggsE (ms ++ [rw]) =
    (do b <- bufs_of aggsE ms; do b' <- update_buffers (paggs aggsE) rw b; Ok b').
  Proof. unfold bufs_of. rewrite foldM_app. reflexivity. Qed.

  Lemma upsert_ok aggsE k rw gs st :
    Forall2 (ginv aggsE) gs st ->
    (forall g, In g (group_insert k rw gs) -> exists b, bufs_of aggsE (snd g) = Ok b) ->
    exists st', upsert (paggs aggsE) k rw st = Ok st' /\ Forall2 (ginv aggsE) (group_insert k rw gs) st'.
  Proof.
    intros F. induction F as [|g s gs' st' [Hk Hb] F IH]; intros H.
    - cbn [group_insert upsert] in *. destruct (H _ (or_introl eq_refl)) as (b & Eb). cbn [snd] in Eb.
      pose proof (bufs_of_snoc aggsE [] rw) as Sn. cbn [app] in Sn. rewrite Sn in Eb.
      unfold bufs_of at 1 in Eb. cbn [foldM bind] in Eb.
      destruct (update_buffers (paggs aggsE) rw (new_buffers (paggs aggsE))) as [b'|e] eqn:U; [|discriminate].
      cbn [bind] in *. exists [(k, b')]. split; [reflexivity|]. constructor; [|constructor].
      split; [reflexivity|]. cbn [snd]. rewrite Sn. unfold bufs_of at 1. cbn [foldM bind]. rewrite U. reflexivity.
    - destruct g as [k' ms]. destruct s as [k'' bufs]. cbn [fst snd] in Hk, Hb. subst k''.
      cbn [group_insert upsert] in *. destruct (row_eqb k k').
      + destruct (H _ (or_introl eq_refl)) as (b & Eb). cbn [snd] in Eb.
        rewrite bufs_of_snoc, Hb in Eb. cbn [bind] in Eb.
        destruct (update_buffers (paggs aggsE) rw bufs) as [b'|e] eqn:U; [|discriminate].
        cbn [bind]. exists ((k', b') :: st'). split; [reflexivity|]. constructor; [|exact F].
        split; [reflexivity|]. cbn [snd]. rewrite bufs_of_snoc, Hb. cbn [bind]. rewrite U. reflexivity.
      + destruct (IH (fun g Hin => H g (or_intror Hin))) as (t' & Et & Ft).
        rewrite Et. cbn [bind]. exists ((k', bufs) :: t'). split; [reflexivity|].
        constructor; [split; [reflexivity|exact Hb]|exact Ft].
  Qed.

  Lemma group_insert_mono k r gs g :
    In g gs -> exists g', In g' (group_insert k r gs) /\ (snd g' = snd g \/ snd g' = snd g ++ [r]).
  Proof.
    induction gs as [|[k' ms] t IH]; intros Hin; [contradiction|].
    cbn [group_insert]. destruct Hin as [<-|Hin].
    - destruct (row_eqb k k').
      + exists (k', ms ++ [r]). split; [left; reflexivity|right; reflexivity].
      + exists (k', ms). split; [left; reflexivity|left; reflexivity].
    - destruct (row_eqb k k').
      + exists g. split; [right; exact Hin|left; reflexivity].
      + destruct (IH Hin) as (g' & Hg' & Hs). exists g'. split; [right; exact Hg'|exact Hs].
  Qed.

  Lemma gb_compute_app keyf aggs l1 l2 : forall st,
    gb_compute keyf aggs (l1 ++ l2) st = bind (gb_compute keyf aggs l1 st) (gb_compute keyf aggs l2).
  Proof.
    induction l1 as [|x t IH]; intros st; cbn [app gb_compute]; [reflexivity|].
    destruct (keyf x) as [k|e]; cbn [bind]; [|reflexivity].
    destruct (upsert aggs k x st) as [st'|e]; cbn [bind]; [apply IH|reflexivity].
  Qed.

  Definition ginsert (gs : list (row * list row)) (kr : row * row) := group_insert (fst kr) (snd kr) gs.

  Lemma gb_stream aggsE (kf kf' : row -> res row) kept :
    sub kf kf' -> forall keyed,
    mapM (fun rw => do k <- kf rw; Ok (k, rw)) kept = Ok keyed ->
    (forall g, In g (fold_left ginsert keyed []) -> exists b, bufs_of aggsE (snd g) = Ok b) ->
    exists st, gb_compute kf' (paggs aggsE) kept [] = Ok st /\ Forall2 (ginv aggsE) (fold_left ginsert keyed []) st.
  Proof.
    intros S. induction kept as [|rw l IH] using rev_ind; intros keyed HM HB.
    - cbn in HM. injection HM as <-. exists []. split; [reflexivity|constructor].
    - destruct (mapM_app_inv _ _ _ _ HM) as (k1 & k2 & M1 & M2 & ->).
      cbn [mapM] in M2. inv_bind M2. inv_bind Ha. injection Ha as <-. injection M2 as <-.
      rewrite fold_left_app in *. cbn [fold_left] in *. unfold ginsert at 1 in HB. unfold ginsert at 1.
      cbn [fst snd] in *.
      destruct (IH k1 M1) as (st & Est & Fst).
      { intros g Hin. destruct (group_insert_mono a0 rw _ g Hin) as (g' & Hg' & [Hs|Hs]);
          destruct (HB g' Hg') as (b & Eb); rewrite Hs in Eb; [eauto|].
        rewrite bufs_of_snoc in Eb. inv_bind Eb. eauto. }
      destruct (upsert_ok aggsE a0 rw _ st Fst HB) as (st' & Eu & Fu).
      exists st'. split; [|exact Fu].
      rewrite gb_compute_app, Est. cbn [bind gb_compute]. rewrite (S _ _ Ha0). cbn [bind]. rewrite Eu. reflexivity.
  Qed.

  Lemma final_rows aggsE gs st grows :
    (forall fe, In fe aggsE -> sub (fun rw => ev rw (snd fe)) (fun rw => ev' rw (snd fe))) ->
    Forall2 (ginv aggsE) gs st ->
    Forall2 (fun g out => (do avs <- def_avs aggsE (snd g); Ok (fst g ++ avs)) = Ok out) gs grows ->
    map (fun s => fst s ++ eval_buffers (snd s)) st = grows.
  Proof.
    intros S F. revert grows. induction F as [|g s gs' st' [Hk Hb] F IH]; intros grows G; inversion G; subst.
    - reflexivity.
    - cbn [map]. f_equal; [|apply IH; assumption].
      match goal with H : bind _ _ = Ok _ |- _ => inv_bind H; injection H as <- end.
      destruct (group_cols aggsE (snd g) _ S Ha) as (bufs & Eb & Ev).
      rewrite Hb in Eb. injection Eb as <-. f_equal; [symmetry; exact Hk|exact Ev].
  Qed.

  (* the whole operator *)
  Lemma group_by_ok aggsE (kf kf' : row -> res row) n kept keyed grows :
    sub kf kf' ->
    (forall fe, In fe aggsE -> sub (fun rw => ev rw (snd fe)) (fun rw => ev' rw (snd fe))) ->
    mapM (fun rw => do k <- kf rw; Ok (k, rw)) kept = Ok keyed ->
    mapM (fun g : row * list row => do avs <- def_avs aggsE (snd g); Ok (fst g ++ avs)) (groups_of n keyed) = Ok grows ->
    group_by_iter kf' (paggs aggsE) n kept = Ok grows.
  Proof.
    intros Sk Sa HM HG. apply mapM_Forall2 in HG. unfold groups_of in HG.
    change (fold_left (fun gs kr => group_insert (fst kr) (snd kr) gs) keyed []) with (fold_left ginsert keyed []) in HG.
    destruct (gb_stream aggsE kf kf' kept Sk keyed HM) as (st & Est & Fst).
    { intros g Hin.
      assert (HG' : Forall2 (fun g out => (do avs <- def_avs aggsE (snd g); Ok (fst g ++ avs)) = Ok out)
                            (fold_left ginsert keyed []) grows).
      { destruct (fold_left ginsert keyed []); [contradiction|]. destruct n; exact HG. }
      clear HG. induction HG' as [|g0 o gs os H0 _ IH]; [contradiction|].
      destruct Hin as [<-|Hin]; [|exact (IH Hin)].
      inv_bind H0. destruct (group_cols aggsE (snd g0) _ Sa Ha) as (bufs & Eb & _). eauto. }
    unfold group_by_iter. rewrite Est. cbn [bind]. f_equal.
    destruct (fold_left ginsert keyed []) as [|g gs] eqn:EG.
    - inversion Fst; subst. destruct n.
      + inversion HG as [|g0 o gs0 os H0 HT]; subst. inversion HT; subst.
        inv_bind H0. injection H0 as <-. cbn [fst snd app] in *.
        destruct (group_cols aggsE [] _ Sa Ha) as (bufs & Eb & Ev).
        unfold bufs_of in Eb. cbn [foldM] in Eb. injection Eb as <-. rewrite Ev. reflexivity.
      + inversion HG; subst. reflexivity.
    - assert (HG' : Forall2 (fun g out => (do avs <- def_avs aggsE (snd g); Ok (fst g ++ avs)) = Ok out) (g :: gs) grows)
        by (destruct n; exact HG).
      inversion Fst as [|g1 s1 gs1 st1 H1 H2]; subst.
      rewrite <- (final_rows aggsE (g :: gs) (s1 :: st1) grows Sa Fst HG'). destruct n; reflexivity.
  Qed.
End GroupBy.

(* ---------- INTERSECT ALL: the counter cache of IntersectIter is the multiset of the right rows ---------- *)
Lemma row_beq_dec a b : {row_beq a b = true /\ a = b} + {row_beq a b = false /\ a <> b}.
Proof.
  destruct (row_beq a b) eqn:E.
  - left. split; [reflexivity|]. apply row_beq_spec. exact E.
  - right. split; [reflexivity|]. intros ->. rewrite (proj2 (row_beq_spec b b) eq_refl) in E. discriminate.
Qed.

Lemma row_beq_refl a : row_beq a a = true.
Proof. apply row_beq_spec. reflexivity. Qed.

Ltac rb a b :=
  let Hb := fresh "Hb" in let Hq := fresh "Hq" in
  destruct (row_beq_dec a b) as [[Hb Hq]|[Hb Hq]];
  [subst; rewrite ?row_beq_refl in *|rewrite ?Hb in *]; try congruence.

Lemma cache_get_add k k' c :
  cache_get k (cache_add k' c) = ((if row_beq k k' then 1 else 0) + cache_get k c)%nat.
Proof.
  induction c as [|[k'' n] t IH]; cbn [cache_add cache_get].
  - rb k k'; reflexivity.
  - rb k' k''; cbn [cache_get]; rb k k''; try reflexivity; try exact IH.
    rb k'' k'. reflexivity.
Qed.

Lemma cache_get_dec k k' c :
  cache_get k (cache_dec k' c) = (cache_get k c - (if row_beq k k' then 1 else 0))%nat.
Proof.
  induction c as [|[k'' n] t IH]; cbn [cache_dec cache_get].
  - rb k k'; reflexivity.
  - rb k' k''; cbn [cache_get]; rb k k''; try lia; try exact IH.
    rb k'' k'. lia.
Qed.

Lemma build_cache_get x r : cache_get (nrow x) (build_cache r) = count row_eqb x r.
Proof.
  unfold build_cache, count.
  assert (G : forall c, cache_get (nrow x) (fold_left (fun c rw => cache_add (nrow rw) c) r c) =
                        (cache_get (nrow x) c + length (filter (row_eqb x) r))%nat).
  { induction r as [|y t IH]; intros c; cbn [fold_left filter length]; [lia|].
    rewrite IH, cache_get_add. unfold row_eqb at 2. destruct (row_beq (nrow x) (nrow y)); cbn [length]; lia. }
  rewrite G. reflexivity.
Qed.

Lemma intersect_scan_ok l : forall cache r,
  (forall x, cache_get (nrow x) cache = count row_eqb x r) ->
  intersect_scan cache l = inter_all row_eqb l r.
Proof.
  induction l as [|x t IH]; intros cache r C; cbn [intersect_scan inter_all]; [reflexivity|].
  rewrite (mem_count row_eqb), <- C.
  destruct (cache_get (nrow x) cache) as [|n] eqn:G; cbn [Nat.eqb negb].
  - apply IH. exact C.
  - f_equal. apply IH. intros y.
    rewrite cache_get_dec, (count_remove_one row_eqb row_eqb_sym row_eqb_trans), C.
    rewrite (mem_count row_eqb x r), <- (C x), G. cbn [Nat.eqb negb]. rewrite andb_true_r. reflexivity.
Qed.

Lemma intersect_iter_ok l r : intersect_iter l r = inter_all row_eqb l r.
Proof. apply intersect_scan_ok. intros x. apply build_cache_get. Qed.

(* INTERSECT DISTINCT: the engine de-duplicates the output of IntersectIter; the definition de-duplicates the
   left rows that occur on the right.  Both keep the first occurrence of every row identity present on both sides. *)
Lemma mem_remove_one_other y x r : row_eqb y x = false -> mem row_eqb y (remove_one row_eqb x r) = mem row_eqb y r.
Proof.
  intros E. rewrite !(mem_count row_eqb), (count_remove_one row_eqb row_eqb_sym row_eqb_trans), E. cbn [andb].
  rewrite Nat.sub_0_r. reflexivity.
Qed.

Lemma dedup_inter l : forall seen r r0,
  (forall y, mem row_eqb y seen = false -> mem row_eqb y r = mem row_eqb y r0) ->
  dedup_acc row_eqb seen (inter_all row_eqb l r) =
  dedup_acc row_eqb seen (filter (fun x => mem row_eqb x r0) l).
Proof.
  induction l as [|x t IH]; intros seen r r0 H; cbn [inter_all filter]; [reflexivity|].
  destruct (mem row_eqb x seen) eqn:MS.
  - assert (H' : forall y, mem row_eqb y seen = false ->
                           mem row_eqb y (remove_one row_eqb x r) = mem row_eqb y r0).
    { intros y Hy. rewrite mem_remove_one_other; [exact (H y Hy)|].
      destruct (row_eqb y x) eqn:E; [|reflexivity].
      rewrite (mem_congr row_eqb row_eqb_sym row_eqb_trans y x seen E) in Hy. congruence. }
    destruct (mem row_eqb x r), (mem row_eqb x r0); cbn [dedup_acc]; rewrite ?MS; auto.
  - rewrite (H x MS). destruct (mem row_eqb x r0) eqn:M2.
    + cbn [dedup_acc]. rewrite MS. f_equal. apply IH. intros y Hy.
      rewrite (mem_cons row_eqb) in Hy. apply orb_false_elim in Hy. destruct Hy as [E Hy].
      rewrite mem_remove_one_other by exact E. exact (H y Hy).
    + apply IH. exact H.
Qed.

Lemma intersect_distinct_ok l r :
  distinct_iter [] (intersect_iter l r) = dedup row_eqb (filter (fun x => mem row_eqb x r) l).
Proof. rewrite distinct_iter_ok, intersect_iter_ok. unfold dedup. apply dedup_inter. reflexivity. Qed.

(* EXCEPT ALL / EXCEPT DISTINCT *)
Lemma except_scan_ok l : forall cache r,
  (forall x, cache_get (nrow x) cache = count row_eqb x r) ->
  except_scan cache l = except_all row_eqb l r.
Proof.
  induction l as [|x t IH]; intros cache r C; cbn [except_scan except_all]; [reflexivity|].
  rewrite (mem_count row_eqb), <- C.
  destruct (cache_get (nrow x) cache) as [|n] eqn:G; cbn [Nat.eqb negb].
  - f_equal. apply IH. exact C.
  - apply IH. intros y.
    rewrite cache_get_dec, (count_remove_one row_eqb row_eqb_sym row_eqb_trans), C.
    rewrite (mem_count row_eqb x r), <- (C x), G. cbn [Nat.eqb negb]. rewrite andb_true_r. reflexivity.
Qed.

Lemma dedup_acc_ext l : forall s1 s2,
  (forall y, In y l -> mem row_eqb y s1 = mem row_eqb y s2) ->
  dedup_acc row_eqb s1 l = dedup_acc row_eqb s2 l.
Proof.
  induction l as [|x t IH]; intros s1 s2 H; cbn [dedup_acc]; [reflexivity|].
  rewrite <- (H x (or_introl eq_refl)). destruct (mem row_eqb x s1).
  - apply IH. intros y Hy. apply H. right. exact Hy.
  - f_equal. apply IH. intros y Hy. rewrite !(mem_cons row_eqb), (H y (or_intror Hy)). reflexivity.
Qed.

Lemma except_dedup L : forall seen r r0,
  (forall y, mem row_eqb y seen = false -> mem row_eqb y r = mem row_eqb y r0) ->
  except_all row_eqb (dedup_acc row_eqb seen L) r =
  dedup_acc row_eqb seen (filter (fun x => negb (mem row_eqb x r0)) L).
Proof.
  induction L as [|x t IH]; intros seen r r0 H; cbn [dedup_acc filter]; [reflexivity|].
  destruct (mem row_eqb x seen) eqn:MS.
  - destruct (negb (mem row_eqb x r0)); cbn [dedup_acc]; rewrite ?MS; apply IH; exact H.
  - cbn [except_all]. rewrite (H x MS). destruct (mem row_eqb x r0) eqn:M2; cbn [negb].
    + rewrite (IH (x :: seen) (remove_one row_eqb x r) r0).
      * apply dedup_acc_ext. intros y Hy. apply filter_In in Hy. destruct Hy as [_ Hy]. rewrite (mem_cons row_eqb).
        destruct (row_eqb y x) eqn:E; [|reflexivity].
        rewrite (mem_congr row_eqb row_eqb_sym row_eqb_trans y x r0 E), M2 in Hy. discriminate.
      * intros y Hy. rewrite (mem_cons row_eqb) in Hy. apply orb_false_elim in Hy. destruct Hy as [E Hy].
        rewrite mem_remove_one_other by exact E. exact (H y Hy).
    + cbn [dedup_acc]. rewrite MS. f_equal. apply IH. intros y Hy.
      rewrite (mem_cons row_eqb) in Hy. apply orb_false_elim in Hy. destruct Hy as [_ Hy]. exact (H y Hy).
Qed.

Lemma mem_dedup y r : mem row_eqb y (dedup row_eqb r) = mem row_eqb y r.
Proof.
  unfold dedup. rewrite (mem_count row_eqb y (dedup_acc row_eqb [] r)).
  rewrite (count_dedup_acc row_eqb row_eqb_sym row_eqb_trans). cbn [mem existsb].
  destruct (mem row_eqb y r); reflexivity.
Qed.

Lemma except_iter_ok dist l r : except_iter dist l r = set_op SExcept (negb dist) l r.
Proof.
  destruct dist; cbn [except_iter negb set_op].
  - rewrite !distinct_iter_ok, (except_scan_ok _ _ (dedup row_eqb r)) by (intros x; apply build_cache_get).
    unfold dedup at 1 3. apply except_dedup. intros y _. apply mem_dedup.
  - apply except_scan_ok. intros x. apply build_cache_get.
Qed.

(* ---------- the simple iterators are the definition's combinators, errors included ---------- *)
Lemma filter_iter_eq f rows : filter_iter f rows = filterM (fun rw => holds (f rw)) rows.
Proof. induction rows as [|rw t IH]; cbn; [reflexivity|]. rewrite cond_true_holds, IH. reflexivity. Qed.

Lemma project_iter_eq pr rows : project_iter pr rows = mapM pr rows.
Proof. induction rows as [|rw t IH]; cbn; [reflexivity|]. rewrite IH. reflexivity. Qed.

Lemma join_scan_eq f lo wr l R : forall found,
  join_scan f lo wr l R found =
  (do ms <- filterM (fun r => holds (f (l ++ r))) R;
   Ok (map (app l) ms ++ if lo && negb found && is_nil ms then [l ++ nulls wr] else [])).
Proof.
  induction R as [|r t IH]; intros found; cbn [join_scan filterM bind].
  - cbn. rewrite andb_true_r. reflexivity.
  - rewrite cond_true_holds. destruct (holds (f (l ++ r))) as [b|e]; cbn [bind]; [|reflexivity].
    destruct b; rewrite IH; destruct (filterM (fun r0 => holds (f (l ++ r0))) t) as [ms|e]; cbn; try reflexivity.
    rewrite !andb_false_r. cbn. rewrite app_nil_r. reflexivity.
Qed.

Lemma join_iter_inner_eq f wr L R : join_iter f false wr L R = inner_join (fun rw => holds (f rw)) L R.
Proof.
  unfold inner_join. induction L as [|l t IH]; cbn [join_iter mapM bind]; [reflexivity|].
  rewrite join_scan_eq, IH. destruct (filterM (fun r => holds (f (l ++ r))) R) as [ms|e]; cbn; [|reflexivity].
  match goal with |- context [mapM ?F t] => destruct (mapM F t) as [ps|e] end; cbn; [|reflexivity]. rewrite app_nil_r. reflexivity.
Qed.

Lemma join_iter_left_eq f wr L R :
  join_iter f true wr L R =
  outer_join (fun rw => holds (f rw)) (fun l r => l ++ r) (fun l => l ++ nulls wr) L R.
Proof.
  unfold outer_join. induction L as [|l t IH]; cbn [join_iter mapM bind]; [reflexivity|].
  rewrite join_scan_eq, IH. destruct (filterM (fun r => holds (f (l ++ r))) R) as [ms|e]; cbn; [|reflexivity].
  match goal with |- context [mapM ?F t] => destruct (mapM F t) as [ps|e] end; cbn; [|reflexivity]. destruct ms; cbn; [reflexivity|]. rewrite app_nil_r. reflexivity.
Qed.

(* ---------- widths: the rows of a query have its static width ---------- *)
Lemma wf_db_spec d t w rows :
  wf_db d = true -> nth_error d t = Some (w, rows) -> forall r, In r rows -> length r = w.
Proof.
  unfold wf_db. intros H E r Hr. rewrite forallb_forall in H. specialize (H _ (nth_error_In _ _ E)). cbn in H.
  rewrite forallb_forall in H. apply Nat.eqb_eq. exact (H r Hr).
Qed.

Lemma dedup_acc_In {A} (eqb : A -> A -> bool) l : forall seen x, In x (dedup_acc eqb seen l) -> In x l.
Proof.
  induction l as [|y t IH]; intros seen x; cbn [dedup_acc]; [tauto|].
  destruct (mem eqb y seen); intros H; [right; exact (IH _ _ H)|].
  destruct H as [<-|H]; [left; reflexivity|right; exact (IH _ _ H)].
Qed.

Lemma inter_all_In {A} (eqb : A -> A -> bool) l : forall r x, In x (inter_all eqb l r) -> In x l.
Proof.
  induction l as [|y t IH]; intros r x; cbn [inter_all]; [tauto|].
  destruct (mem eqb y r); intros H; [|right; exact (IH _ _ H)].
  destruct H as [<-|H]; [left; reflexivity|right; exact (IH _ _ H)].
Qed.

Lemma except_all_In {A} (eqb : A -> A -> bool) l : forall r x, In x (except_all eqb l r) -> In x l.
Proof.
  induction l as [|y t IH]; intros r x; cbn [except_all]; [tauto|].
  destruct (mem eqb y r); intros H; [right; exact (IH _ _ H)|].
  destruct H as [<-|H]; [left; reflexivity|right; exact (IH _ _ H)].
Qed.

Lemma isort_In {A} (leb : A -> A -> bool) l y : In y (isort leb l) -> In y l.
Proof.
  assert (Ins : forall x l0, In y (insert leb x l0) -> y = x \/ In y l0).
  { intros x l0. induction l0 as [|z t IH]; cbn [insert]; [intros [<-|[]]; auto|].
    destruct (leb x z); intros H.
    - destruct H as [<-|H]; auto.
    - destruct H as [<-|H]; [right; left; reflexivity|]. destruct (IH H); [auto|right; right; assumption]. }
  induction l as [|x t IH]; cbn; [tauto|]. intros H. destruct (Ins _ _ H) as [->|H']; [left; reflexivity|right; exact (IH H')].
Qed.

Lemma firstn_In' {A} n (l : list A) x : In x (firstn n l) -> In x l.
Proof. intros H. rewrite <- (firstn_skipn n l). apply in_or_app. left. exact H. Qed.
Lemma skipn_In' {A} n (l : list A) x : In x (skipn n l) -> In x l.
Proof. intros H. rewrite <- (firstn_skipn n l). apply in_or_app. right. exact H. Qed.

Lemma mapM_In_out {A B} (f : A -> res B) l out y : mapM f l = Ok out -> In y out -> exists x, In x l /\ f x = Ok y.
Proof.
  revert out. induction l as [|x t IH]; cbn [mapM]; intros out H Hy.
  - injection H as <-. contradiction.
  - inv_bind H. inv_bind H. injection H as <-. destruct Hy as [<-|Hy]; [exists x; split; [left; reflexivity|exact Ha]|].
    destruct (IH _ Ha0 Hy) as (x' & Hx' & E). exists x'. split; [right; exact Hx'|exact E].
Qed.

Lemma concat_mapM_In {A} (F : A -> res (list row)) L parts x :
  mapM F L = Ok parts -> In x (concat parts) -> exists o ps, In o L /\ F o = Ok ps /\ In x ps.
Proof.
  intros H Hx. apply in_concat in Hx. destruct Hx as (ps & Hps & Hx).
  destruct (mapM_In_out _ _ _ _ H Hps) as (o & Ho & E). exists o, ps. auto.
Qed.

Lemma join_rows_width onf k wl wr L R rows :
  (forall l, In l L -> length l = wl) -> (forall r, In r R -> length r = wr) ->
  join_rows onf k wl wr L R = Ok rows -> forall x, In x rows -> length x = (wl + wr)%nat.
Proof.
  intros HL HR H x Hx.
  assert (Inner : forall rows0, inner_join onf L R = Ok rows0 -> In x rows0 -> length x = (wl + wr)%nat).
  { unfold inner_join. intros rows0 H0 Hx0. inv_bind H0. injection H0 as <-.
    destruct (concat_mapM_In _ _ _ _ Ha Hx0) as (l & ps & Hl & E & Hps). inv_bind E. injection E as <-.
    apply in_map_iff in Hps. destruct Hps as (r & <- & Hr). apply (filterM_In _ _ _ Ha0) in Hr.
    rewrite app_length, (HL _ Hl), (HR _ (proj1 Hr)). reflexivity. }
  destruct k; cbn [join_rows] in H; try exact (Inner _ H Hx).
  - unfold outer_join in H. inv_bind H. injection H as <-.
    destruct (concat_mapM_In _ _ _ _ Ha Hx) as (l & ps & Hl & E & Hps). inv_bind E. injection E as <-.
    destruct a0 as [|m ms].
    + destruct Hps as [<-|[]]. unfold nulls. rewrite app_length, repeat_length, (HL _ Hl). reflexivity.
    + apply in_map_iff in Hps. destruct Hps as (r & <- & Hr). apply (filterM_In _ _ _ Ha0) in Hr.
      rewrite app_length, (HL _ Hl), (HR _ (proj1 Hr)). reflexivity.
  - unfold outer_join in H. inv_bind H. injection H as <-.
    destruct (concat_mapM_In _ _ _ _ Ha Hx) as (r & ps & Hr & E & Hps). inv_bind E. injection E as <-.
    destruct a0 as [|m ms].
    + destruct Hps as [<-|[]]. unfold nulls. rewrite app_length, repeat_length, (HR _ Hr). reflexivity.
    + apply in_map_iff in Hps. destruct Hps as (l & <- & Hl). apply (filterM_In _ _ _ Ha0) in Hl.
      rewrite app_length, (HR _ Hr), (HL _ (proj1 Hl)). reflexivity.
Qed.

Lemma proj_rows_width {A} (ev : A -> expr -> res val) proj kept out dist r :
  mapM (fun rw => mapM (ev rw) proj) kept = Ok out -> In r (distinct_if dist out) -> length r = length proj.
Proof.
  intros H Hr. assert (Hr' : In r out) by (destruct dist; [exact (dedup_acc_In _ _ _ _ Hr)|exact Hr]).
  destruct (mapM_In_out _ _ _ _ H Hr') as (rw & _ & E). exact (mapM_length _ _ _ E).
Qed.

Lemma query_width d : wf_db d = true ->
  forall q, wt_query d q = true -> forall en rows, eval_query d en q = Ok rows ->
  forall r, In r rows -> length r = qwidth d q.
Proof.
  intros Hd. induction q as [t|k l IHl r0 IHr on|src IHsrc wh proj dist|src IHsrc wh keys aggs hav proj dist
                             |o all l IHl r0 IHr|q IHq keys lim]; intros W en rows H r Hr; cbn [wt_query qwidth] in *.
  - cbn [eval_query] in H. destruct (nth_error d t) as [[w rws]|] eqn:E; [|discriminate].
    injection H as <-. exact (wf_db_spec d t w rws Hd E r Hr).
  - apply andb_prop in W. destruct W as [Wl Wr]. cbn [eval_query] in H. inv_bind H. inv_bind H.
    exact (join_rows_width _ _ _ _ _ _ _ (IHl Wl _ _ Ha) (IHr Wr _ _ Ha0) H r Hr).
  - cbn [eval_query] in H. inv_bind H. inv_bind H. inv_bind H. injection H as <-.
    exact (proj_rows_width (fun rw e => eval_expr d (rw :: en) e) proj _ _ dist r Ha1 Hr).
  - cbn [eval_query] in H. inv_bind H. inv_bind H. inv_bind H. inv_bind H. inv_bind H. inv_bind H. injection H as <-.
    exact (proj_rows_width (fun rw e => eval_expr d (rw :: en) e) proj _ _ dist r Ha4 Hr).
  - apply andb_prop in W. destruct W as [W We]. apply andb_prop in W. destruct W as [Wl Wr].
    apply Nat.eqb_eq in We. cbn [eval_query] in H. inv_bind H. inv_bind H. injection H as <-.
    pose proof (IHl Wl _ _ Ha) as HL. pose proof (IHr Wr _ _ Ha0) as HR. rewrite <- We in HR.
    destruct o, all; cbn [set_op] in Hr.
    + apply in_app_or in Hr. destruct Hr; auto.
    + apply dedup_acc_In in Hr. apply in_app_or in Hr. destruct Hr; auto.
    + apply inter_all_In in Hr. auto.
    + apply dedup_acc_In in Hr. apply filter_In in Hr. apply HL. tauto.
    + apply except_all_In in Hr. auto.
    + apply dedup_acc_In in Hr. apply filter_In in Hr. apply HL. tauto.
  - cbn [eval_query] in H. inv_bind H. injection H as <-. apply (IHq W _ _ Ha).
    unfold order_limit in Hr. destruct lim as [[n off]|].
    + apply firstn_In', skipn_In' in Hr. exact (isort_In _ _ _ Hr).
    + exact (isort_In _ _ _ Hr).
Qed.

(* ---------- the transposed right join ---------- *)
Lemma transpose_app wr r l : length r = wr -> transpose_row wr (r ++ l) = l ++ r.
Proof.
  intros <-. unfold transpose_row. rewrite skipn_app, firstn_app, Nat.sub_diag, skipn_all, firstn_all.
  cbn. rewrite app_nil_r. reflexivity.
Qed.

Lemma filterM_ext_in {A} (p p' : A -> res bool) l :
  (forall x, In x l -> p x = p' x) -> filterM p l = filterM p' l.
Proof.
  induction l as [|x t IH]; intros H; cbn; [reflexivity|].
  rewrite (H x (or_introl eq_refl)), (IH (fun y Hy => H y (or_intror Hy))). reflexivity.
Qed.

(* B LEFT JOIN A on physical rows r ++ l with the re-indexed condition, then transposed, is A RIGHT JOIN B *)
Lemma transposed_join_ok (ev ev' : row -> res val) wl wr L R rows :
  sub ev ev' -> (forall r, In r R -> length r = wr) ->
  outer_join (fun rw => holds (ev rw)) (fun r l => l ++ r) (fun r => nulls wl ++ r) R L = Ok rows ->
  exists rows0, join_iter (fun x => ev' (transpose_row wr x)) true wl R L = Ok rows0 /\
                map (transpose_row wr) rows0 = rows.
Proof.
  intros S HW. unfold outer_join. intros H. inv_bind H. injection H as <-. rename a into parts.
  revert parts Ha. induction R as [|r t IH]; cbn [mapM join_iter]; intros parts H.
  - injection H as <-. exists []. split; reflexivity.
  - inv_bind H. inv_bind H. injection H as <-. inv_bind Ha. injection Ha as <-. rename a1 into ms.
    destruct (IH (fun r' Hin => HW r' (or_intror Hin)) _ Ha0) as (rows1 & E1 & M1).
    assert (Wr : length r = wr) by (apply HW; left; reflexivity).
    assert (F : filterM (fun l => holds (ev (transpose_row wr (r ++ l)))) L = Ok ms).
    { rewrite <- Ha1. apply filterM_ext_in. intros l _. rewrite (transpose_app wr r l Wr). reflexivity. }
    rewrite (join_scan_ok (fun x => ev (transpose_row wr x)) (fun x => ev' (transpose_row wr x)) true wl r L ms false
               (fun x v Hv => S _ _ Hv) F).
    cbn [bind]. rewrite E1. cbn [bind]. eexists. split; [reflexivity|].
    cbn [concat]. rewrite map_app, M1. f_equal. cbn [negb andb].
    destruct ms as [|m ms']; cbn [is_nil map app].
    + rewrite (transpose_app wr r _ Wr). reflexivity.
    + rewrite app_nil_r, (transpose_app wr r m Wr). f_equal.
      rewrite map_map. apply map_ext. intros l. exact (transpose_app wr r l Wr).
Qed.

(* ---------- structural induction over the mutually defined expressions and queries ---------- *)
Section ExprQueryInd.
  Variable P : expr -> Prop.
  Variable Q : query -> Prop.
  Hypothesis HConst : forall v, P (EConst v).
  Hypothesis HCol : forall k i, P (ECol k i).
  Hypothesis HCmp : forall o a b, P a -> P b -> P (ECmp o a b).
  Hypothesis HArith : forall o a b, P a -> P b -> P (EArith o a b).
  Hypothesis HAnd : forall a b, P a -> P b -> P (EAnd a b).
  Hypothesis HOr : forall a b, P a -> P b -> P (EOr a b).
  Hypothesis HNot : forall a, P a -> P (ENot a).
  Hypothesis HIsNull : forall a, P a -> P (EIsNull a).
  Hypothesis HIn : forall a l, P a -> Forall P l -> P (EIn a l).
  Hypothesis HExists : forall q, Q q -> P (EExists q).
  Hypothesis HInQ : forall a q, P a -> Q q -> P (EInQ a q).
  Hypothesis HScalar : forall q, Q q -> P (EScalar q).
  Hypothesis HTable : forall t, Q (QTable t).
  Hypothesis HJoin : forall k l r on, Q l -> Q r -> P on -> Q (QJoin k l r on).
  Hypothesis HSelect : forall src wh proj dist, Q src -> P wh -> Forall P proj -> Q (QSelect src wh proj dist).
  Hypothesis HGroup : forall src wh keys aggs hav proj dist,
      Q src -> P wh -> Forall P keys -> Forall (fun fe : aggfn * expr => P (snd fe)) aggs -> P hav -> Forall P proj ->
      Q (QGroup src wh keys aggs hav proj dist).
  Hypothesis HSetOp : forall o all l r, Q l -> Q r -> Q (QSetOp o all l r).
  Hypothesis HOrder : forall q keys lim, Q q -> Q (QOrder q keys lim).

  Fixpoint expr_mut (e : expr) : P e :=
    match e with
    | EConst v => HConst v
    | ECol k i => HCol k i
    | ECmp o a b => HCmp o a b (expr_mut a) (expr_mut b)
    | EArith o a b => HArith o a b (expr_mut a) (expr_mut b)
    | EAnd a b => HAnd a b (expr_mut a) (expr_mut b)
    | EOr a b => HOr a b (expr_mut a) (expr_mut b)
    | ENot a => HNot a (expr_mut a)
    | EIsNull a => HIsNull a (expr_mut a)
    | EIn a l =>
        HIn a l (expr_mut a)
            ((fix go (l : list expr) : Forall P l :=
                match l with [] => Forall_nil P | x :: t => Forall_cons x (expr_mut x) (go t) end) l)
    | EExists q => HExists q (query_mut q)
    | EInQ a q => HInQ a q (expr_mut a) (query_mut q)
    | EScalar q => HScalar q (query_mut q)
    end
  with query_mut (q : query) : Q q :=
    match q with
    | QTable t => HTable t
    | QJoin k l r on => HJoin k l r on (query_mut l) (query_mut r) (expr_mut on)
    | QSelect src wh proj dist =>
        HSelect src wh proj dist (query_mut src) (expr_mut wh)
                ((fix go (l : list expr) : Forall P l :=
                    match l with [] => Forall_nil P | x :: t => Forall_cons x (expr_mut x) (go t) end) proj)
    | QGroup src wh keys aggs hav proj dist =>
        HGroup src wh keys aggs hav proj dist (query_mut src) (expr_mut wh)
               ((fix go (l : list expr) : Forall P l :=
                   match l with [] => Forall_nil P | x :: t => Forall_cons x (expr_mut x) (go t) end) keys)
               ((fix go (l : list (aggfn * expr)) : Forall (fun fe : aggfn * expr => P (snd fe)) l :=
                   match l with
                   | [] => Forall_nil _
                   | (f, x) :: t => Forall_cons (f, x) (expr_mut x) (go t)
                   end) aggs)
               (expr_mut hav)
               ((fix go (l : list expr) : Forall P l :=
                   match l with [] => Forall_nil P | x :: t => Forall_cons x (expr_mut x) (go t) end) proj)
    | QSetOp o all l r => HSetOp o all l r (query_mut l) (query_mut r)
    | QOrder q keys lim => HOrder q keys lim (query_mut q)
    end.

  Lemma expr_query_mut : (forall e, P e) /\ (forall q, Q q).
  Proof. split; [exact expr_mut|exact query_mut]. Qed.
End ExprQueryInd.

Lemma pwidth_plan_of d q : pwidth d (plan_of q) = qwidth d q.
Proof.
  revert q. cut ((forall e : expr, True) /\ (forall q, pwidth d (plan_of q) = qwidth d q)); [intros [_ H]; exact H|].
  apply (expr_query_mut (fun _ => True) (fun q => pwidth d (plan_of q) = qwidth d q)); auto.
  - intros k l r on Hl Hr _. destruct k; cbn; lia.
  - intros src wh proj dist _ _ _. destruct dist; cbn; apply map_length.
  - intros src wh keys aggs hav proj dist _ _ _ _ _ _. destruct dist; cbn; apply map_length.
  - intros o all l r Hl _. destruct o; cbn; exact Hl.
  - intros q keys lim Hq. destruct lim as [[n off]|]; cbn; exact Hq.
Qed.

(* ---------- the refinement, by structural induction ---------- *)
Definition Pe (e : expr) : Prop :=
  forall d, ok_expr d e = true -> forall en v, eval_expr d en e = Ok v -> eval_pexpr d en (cexpr e) = Ok v.
Definition Pq (q : query) : Prop :=
  forall d, ok_query d q = true -> forall en rows, eval_query d en q = Ok rows -> exec_env d en (plan_of q) = Ok rows.

Lemma list_ok l : Forall Pe l -> forall d, forallb (ok_expr d) l = true ->
  forall en r, mapM (eval_expr d en) l = Ok r -> mapM (eval_pexpr d en) (map cexpr l) = Ok r.
Proof.
  intros F. induction F as [|x t Hx F IH]; cbn [forallb mapM map]; intros d W en r H; [exact H|].
  apply andb_prop in W. destruct W as [Wx Wt]. inv_bind H. inv_bind H. injection H as <-.
  rewrite (Hx _ Wx _ _ Ha). cbn [bind]. rewrite (IH _ Wt _ _ Ha0). reflexivity.
Qed.

Lemma exec_wrap_distinct d en dist p out :
  exec_env d en p = Ok out -> exec_env d en (wrap_distinct dist p) = Ok (distinct_if dist out).
Proof.
  intros H. destruct dist; cbn [wrap_distinct distinct_if exec_env]; [|exact H].
  rewrite H. cbn [bind]. rewrite distinct_iter_ok. reflexivity.
Qed.

(* WHERE / HAVING, projection and DISTINCT above any input plan *)
Lemma select_tail_ok wh proj dist p d en rows0 kept out :
  Pe wh -> Forall Pe proj -> ok_expr d wh = true -> forallb (ok_expr d) proj = true ->
  exec_env d en p = Ok rows0 ->
  filterM (fun rw => holds (eval_expr d (rw :: en) wh)) rows0 = Ok kept ->
  mapM (fun rw => mapM (eval_expr d (rw :: en)) proj) kept = Ok out ->
  exec_env d en (wrap_distinct dist (PProject (map cexpr proj) (PFilter (cexpr wh) p))) = Ok (distinct_if dist out).
Proof.
  intros Hwh Hproj Wwh Wproj Hp Hf Hm. apply exec_wrap_distinct. cbn [exec_env]. rewrite Hp. cbn [bind].
  rewrite (filter_iter_ok (fun rw => eval_expr d (rw :: en) wh) _ rows0 kept); [|intros rw v Hv; exact (Hwh _ Wwh _ _ Hv)|exact Hf].
  cbn [bind]. apply (project_iter_ok (fun rw => mapM (eval_expr d (rw :: en)) proj)); [|exact Hm].
  intros rw r Hr. exact (list_ok proj Hproj _ Wproj _ _ Hr).
Qed.

Ltac split_wf W :=
  repeat match type of W with
         | (_ && _)%bool = true => let W2 := fresh "W" in apply andb_prop in W; destruct W as [W W2]
         end.

Theorem exec_refines_mut : (forall e, Pe e) /\ (forall q, Pq q).
Proof.
  apply (expr_query_mut Pe Pq); unfold Pe, Pq.
  - (* EConst *) intros v d _ en v' H. exact H.
  - (* ECol *) intros k i d _ en v H. exact H.
  - (* ECmp *) intros o a b IHa IHb d W en v H. cbn [ok_expr] in W. apply andb_prop in W. destruct W as [Wa Wb].
    cbn [eval_expr] in H. inv_bind H. inv_bind H. cbn [cexpr eval_pexpr].
    rewrite (IHa _ Wa _ _ Ha), (IHb _ Wb _ _ Ha0). exact H.
  - (* EArith *) intros o a b IHa IHb d W en v H. cbn [ok_expr] in W. apply andb_prop in W. destruct W as [Wa Wb].
    cbn [eval_expr] in H. inv_bind H. inv_bind H. cbn [cexpr eval_pexpr].
    rewrite (IHa _ Wa _ _ Ha), (IHb _ Wb _ _ Ha0). exact H.
  - (* EAnd *) intros a b IHa IHb d W en v H. cbn [ok_expr] in W. apply andb_prop in W. destruct W as [Wa Wb].
    cbn [eval_expr] in H. inv_bind H. inv_bind H. cbn [cexpr eval_pexpr].
    rewrite (IHa _ Wa _ _ Ha), (IHb _ Wb _ _ Ha0). exact H.
  - (* EOr *) intros a b IHa IHb d W en v H. cbn [ok_expr] in W. apply andb_prop in W. destruct W as [Wa Wb].
    cbn [eval_expr] in H. inv_bind H. inv_bind H. cbn [cexpr eval_pexpr].
    rewrite (IHa _ Wa _ _ Ha), (IHb _ Wb _ _ Ha0). exact H.
  - (* ENot *) intros a IHa d W en v H. cbn [ok_expr] in W.
    cbn [eval_expr] in H. inv_bind H. cbn [cexpr eval_pexpr]. rewrite (IHa _ W _ _ Ha). exact H.
  - (* EIsNull *) intros a IHa d W en v H. cbn [ok_expr] in W.
    cbn [eval_expr] in H. inv_bind H. cbn [cexpr eval_pexpr]. rewrite (IHa _ W _ _ Ha). cbn [bind].
    rewrite <- H. destruct a0; reflexivity.
  - (* EIn *) intros a l IHa IHl d W en v H. cbn [ok_expr] in W. apply andb_prop in W. destruct W as [Wa Wl].
    cbn [eval_expr] in H. inv_bind H. inv_bind H. cbn [cexpr eval_pexpr].
    rewrite (IHa _ Wa _ _ Ha), (list_ok l IHl _ Wl _ _ Ha0). cbn [bind]. rewrite in_loop_in3. exact H.
  - (* EExists *) intros q IHq d W en v H. cbn [ok_expr] in W.
    cbn [eval_expr] in H. inv_bind H. cbn [cexpr eval_pexpr]. rewrite (IHq _ W _ _ Ha). exact H.
  - (* EInQ *) intros a q IHa IHq d W en v H. cbn [ok_expr] in W. apply andb_prop in W. destruct W as [Wa Wq].
    cbn [eval_expr] in H. inv_bind H. inv_bind H. inv_bind H. cbn [cexpr eval_pexpr].
    rewrite (IHa _ Wa _ _ Ha), (IHq _ Wq _ _ Ha0). cbn [bind]. rewrite Ha1. cbn [bind]. rewrite in_loop_in3. exact H.
  - (* EScalar *) intros q IHq d W en v H. cbn [ok_expr] in W.
    cbn [eval_expr] in H. inv_bind H. cbn [cexpr eval_pexpr]. rewrite (IHq _ W _ _ Ha). exact H.
  - (* QTable *) intros t d _ en rows H. exact H.
  - (* QJoin *) intros k l r on IHl IHr IHon d W en rows H. cbn [ok_query] in W. split_wf W.
    cbn [eval_query] in H. inv_bind H. inv_bind H. rename a into L, a0 into R.
    assert (S : sub (fun rw => eval_expr d (rw :: en) on) (fun rw => eval_pexpr d (rw :: en) (cexpr on)))
      by (intros rw v Hv; exact (IHon _ W0 _ _ Hv)).
    destruct k; cbn [plan_of exec_env join_rows] in *;
      rewrite (IHl _ W2 _ _ Ha), (IHr _ W1 _ _ Ha0); cbn [bind].
    + exact (inner_join_ok _ _ _ L R rows S H).
    + rewrite pwidth_plan_of. exact (left_join_ok _ _ _ L R rows S H).
    + apply andb_prop in W. destruct W as [Wd Wt]. rewrite !pwidth_plan_of.
      destruct (transposed_join_ok _ _ (qwidth d l) (qwidth d r) L R rows S
                  (fun r0 Hr0 => query_width d Wd r Wt en R Ha0 r0 Hr0) H) as (rows0 & E & M).
      cbv beta in E. rewrite E. cbn [bind]. rewrite M. reflexivity.
    + rewrite cross_join_ok in H. exact H.
  - (* QSelect *) intros src wh proj dist IHsrc IHwh IHproj d W en rows H. cbn [ok_query] in W. split_wf W.
    cbn [eval_query] in H. inv_bind H. inv_bind H. inv_bind H. injection H as <-. cbn [plan_of].
    exact (select_tail_ok wh proj dist _ d en _ _ _ IHwh IHproj W1 W0 (IHsrc _ W _ _ Ha) Ha0 Ha1).
  - (* QGroup *) intros src wh keys aggs hav proj dist IHsrc IHwh IHkeys IHaggs IHhav IHproj d W en rows H.
    cbn [ok_query] in W. split_wf W.
    cbn [eval_query] in H. inv_bind H. inv_bind H. inv_bind H. inv_bind H. inv_bind H. inv_bind H. injection H as <-.
    cbn [plan_of].
    refine (select_tail_ok hav proj dist _ d en _ _ _ IHhav IHproj W1 W0 _ Ha3 Ha4).
    cbn [exec_env]. rewrite (IHsrc _ W _ _ Ha). cbn [bind].
    rewrite (filter_iter_ok (fun rw => eval_expr d (rw :: en) wh) _ _ _ (fun rw v Hv => IHwh _ W4 _ _ Hv) Ha0).
    cbn [bind]. rewrite map_map, map_length.
    apply (group_by_ok (fun rw e => eval_expr d (rw :: en) e) (fun rw e => eval_pexpr d (rw :: en) (cexpr e))
                       aggs (fun rw => mapM (eval_expr d (rw :: en)) keys) _ (length keys) a0 a1 a2).
    + intros rw r Hr. exact (list_ok keys IHkeys _ W3 _ _ Hr).
    + intros fe Hin rw v Hv. rewrite Forall_forall in IHaggs. rewrite forallb_forall in W2.
      exact (IHaggs fe Hin _ (W2 fe Hin) _ _ Hv).
    + exact Ha1.
    + exact Ha2.
  - (* QSetOp *) intros o all l r IHl IHr d W en rows H. cbn [ok_query] in W. split_wf W.
    cbn [eval_query] in H. inv_bind H. inv_bind H. injection H as <-.
    destruct o; try discriminate; cbn [plan_of exec_env]; rewrite (IHl _ W _ _ Ha), (IHr _ W0 _ _ Ha0); cbn [bind].
    + destruct all; cbn [negb union_iter set_op]; [reflexivity|]. rewrite distinct_iter_ok. reflexivity.
    + destruct all; cbn [negb set_op]; [rewrite intersect_iter_ok|rewrite intersect_distinct_ok]; reflexivity.
    + rewrite except_iter_ok, negb_involutive. reflexivity.
  - (* QOrder *) intros q keys lim IHq d W en rows H. cbn [ok_query] in W.
    cbn [eval_query] in H. inv_bind H. injection H as <-.
    destruct lim as [[n off]|]; cbn [plan_of exec_env order_limit]; rewrite (IHq _ W _ _ Ha); cbn [bind].
    + unfold sort_iter. rewrite limit_offset_ok. reflexivity.
    + reflexivity.
Qed.

(* without RIGHT JOIN the side condition holds for every database *)
Lemma forallb_imp {A} (p q : A -> bool) l :
  Forall (fun x => p x = true -> q x = true) l -> forallb p l = true -> forallb q l = true.
Proof.
  intros F. induction F as [|x t Hx F IH]; cbn [forallb]; intros H; [reflexivity|].
  apply andb_prop in H. destruct H as [H1 H2]. rewrite (Hx H1), (IH H2). reflexivity.
Qed.

Lemma wf_ok_mut d :
  (forall e, wf_expr e = true -> ok_expr d e = true) /\ (forall q, wf_query q = true -> ok_query d q = true).
Proof.
  apply (expr_query_mut (fun e => wf_expr e = true -> ok_expr d e = true)
                        (fun q => wf_query q = true -> ok_query d q = true));
    cbn [wf_expr wf_query ok_expr ok_query]; intros;
    try match goal with k : jkind |- _ => destruct k; try discriminate end;
    repeat match goal with H : (_ && _)%bool = true |- _ => apply andb_prop in H; destruct H end;
    repeat (apply andb_true_intro; split); eauto using forallb_imp;
    match goal with
    | F : Forall _ ?l, W : forallb _ ?l = true |- forallb _ ?l = true =>
        exact (forallb_imp (fun fe : aggfn * expr => wf_expr (snd fe)) (fun fe => ok_expr d (snd fe)) l F W)
    end.
Qed.

(* whenever the definition assigns rows to a query satisfying the side condition (in any environment of outer
   rows, so also as a correlated subquery), its plan returns exactly these rows, in the same order *)
Theorem exec_refines_definition_ok d en q rows :
  ok_query d q = true -> eval_query d en q = Ok rows -> exec_env d en (plan_of q) = Ok rows.
Proof. intros W H. exact (proj2 exec_refines_mut q d W en rows H). Qed.

Theorem expr_refines_definition_ok d en e v :
  ok_expr d e = true -> eval_expr d en e = Ok v -> eval_pexpr d en (cexpr e) = Ok v.
Proof. intros W H. exact (proj1 exec_refines_mut e d W en v H). Qed.

Theorem exec_refines_definition d en q rows :
  wf_query q = true -> eval_query d en q = Ok rows -> exec_env d en (plan_of q) = Ok rows.
Proof. intros W. exact (exec_refines_definition_ok d en q rows (proj2 (wf_ok_mut d) q W)). Qed.

Theorem expr_refines_definition d en e v :
  wf_expr e = true -> eval_expr d en e = Ok v -> eval_pexpr d en (cexpr e) = Ok v.
Proof. intros W. exact (expr_refines_definition_ok d en e v (proj1 (wf_ok_mut d) e W)). Qed.

(* the two readings the differential run uses: a sequence under ORDER BY, a bag otherwise *)
Corollary exec_refines_bag d q rows :
  ok_query d q = true -> eval_query d [] q = Ok rows ->
  exists out, exec d (plan_of q) = Ok out /\ Permutation out rows /\
              (forall q' keys lim, q = QOrder q' keys lim -> out = rows).
Proof.
  intros W H. exists rows. split; [exact (exec_refines_definition_ok d [] q rows W H)|].
  split; [apply Permutation_refl|reflexivity].
Qed.
