(* C04 — proofs about the generic sorting layer: total preorders, stable insertion sort, merge sort,
   top-1 scan, the slice specification and its decidable characterisation. *)
From Coq Require Import List Arith NArith ZArith Bool Lia Permutation.
Import ListNotations.
From GMS Require Import Phys.C04Sort.

(* a comparator is a total preorder *)
Record preorder {A} (cmp : A -> A -> comparison) : Prop := {
  po_antisym : forall a b, cmp b a = CompOpp (cmp a b);
  po_trans : forall a b c, cmp a b <> Gt -> cmp b c <> Gt -> cmp a c <> Gt
}.

Section SortingProofs.
  Context {A : Type}.
  Variable cmp : A -> A -> comparison.
  Hypothesis PO : preorder cmp.

  Notation leb := (leb cmp).
  Notation sorted := (sorted cmp).
  Notation sortedb := (sortedb cmp).
  Notation sinsert := (sinsert cmp).
  Notation ssort := (ssort cmp).
  Definition eqv (a b : A) : Prop := cmp a b = Eq.

  Lemma cmp_refl a : cmp a a = Eq.
  Proof. pose proof (po_antisym _ PO a a) as H. destruct (cmp a a); cbn in H; congruence. Qed.

  Lemma cmp_full a b c :
    (cmp a b = Eq -> cmp a c = cmp b c) /\ (cmp b c = Eq -> cmp a c = cmp a b) /\
    (cmp a b = Lt -> cmp b c = Lt -> cmp a c = Lt) /\
    (cmp a b = Lt -> cmp b c = Eq -> cmp a c = Lt).
  Proof.
    pose proof (po_antisym _ PO a b) as S1. pose proof (po_antisym _ PO b c) as S2.
    pose proof (po_antisym _ PO a c) as S3.
    pose proof (po_trans _ PO a b c) as T1. pose proof (po_trans _ PO b c a) as T2.
    pose proof (po_trans _ PO c a b) as T3. pose proof (po_trans _ PO c b a) as T4.
    pose proof (po_trans _ PO b a c) as T5. pose proof (po_trans _ PO a c b) as T6.
    destruct (cmp a b), (cmp b c), (cmp a c); cbn in S1, S2, S3; rewrite ?S1, ?S2, ?S3 in *;
      repeat split; intros; try reflexivity; try discriminate; exfalso;
      try (apply T1; congruence); try (apply T2; congruence); try (apply T3; congruence);
      try (apply T4; congruence); try (apply T5; congruence); try (apply T6; congruence).
  Qed.

  Lemma leb_refl a : leb a a = true.
  Proof. unfold C04Sort.leb. rewrite cmp_refl. reflexivity. Qed.

  Lemma leb_trans a b c : leb a b = true -> leb b c = true -> leb a c = true.
  Proof.
    unfold C04Sort.leb. intros H1 H2. pose proof (po_trans _ PO a b c) as T.
    destruct (cmp a b); try discriminate; destruct (cmp b c); try discriminate;
      destruct (cmp a c); try reflexivity; exfalso; apply T; congruence.
  Qed.

  Lemma leb_total a b : leb a b = false -> leb b a = true.
  Proof.
    unfold C04Sort.leb. rewrite (po_antisym _ PO a b). destruct (cmp a b); cbn; congruence.
  Qed.

  Lemma leb_false_lt a b : leb a b = false -> cmp b a = Lt.
  Proof. unfold C04Sort.leb. rewrite (po_antisym _ PO a b). destruct (cmp a b); cbn; congruence. Qed.

  Lemma leb_antisym_eqv a b : leb a b = true -> leb b a = true -> eqv a b.
  Proof.
    unfold C04Sort.leb, eqv. rewrite (po_antisym _ PO a b). destruct (cmp a b); cbn; congruence.
  Qed.

  Lemma eqv_leb a b : eqv a b -> leb a b = true /\ leb b a = true.
  Proof. unfold eqv, C04Sort.leb. rewrite (po_antisym _ PO a b). intros ->. cbn. auto. Qed.

  Lemma eqv_sym a b : eqv a b -> eqv b a.
  Proof. unfold eqv. rewrite (po_antisym _ PO a b). intros ->. reflexivity. Qed.

  Lemma eqv_trans a b c : eqv a b -> eqv b c -> eqv a c.
  Proof. unfold eqv. intros H1 H2. destruct (cmp_full a b c) as [F _]. rewrite (F H1). exact H2. Qed.

  Lemma eqv_refl a : eqv a a.
  Proof. apply cmp_refl. Qed.

  (* ---------- sorted / sortedb ---------- *)
  Lemma sortedb_sorted l : sortedb l = true <-> sorted l.
  Proof.
    induction l as [|x t IH]; cbn [C04Sort.sortedb C04Sort.sorted]; [tauto|].
    destruct t as [|y t'].
    - split; [intros _; split; [constructor|exact I]|reflexivity].
    - rewrite andb_true_iff, IH. split.
      + intros [Hxy Hs]. split; [|exact Hs]. constructor; [exact Hxy|].
        cbn [C04Sort.sorted] in Hs. destruct Hs as [Hy _].
        eapply Forall_impl; [|exact Hy]. cbn. intros z Hz. eapply leb_trans; eassumption.
      + intros [Hf Hs]. split; [inversion Hf; assumption|exact Hs].
  Qed.

  Lemma sorted_app l1 l2 :
    sorted (l1 ++ l2) <-> sorted l1 /\ sorted l2 /\ (forall a b, In a l1 -> In b l2 -> leb a b = true).
  Proof.
    induction l1 as [|x t IH]; cbn [app C04Sort.sorted].
    - split; [intros H; repeat split; auto; intros a b []|tauto].
    - rewrite IH, Forall_app. rewrite !Forall_forall. split.
      + intros [[H1 H2] [H3 [H4 H5]]]. repeat split; auto.
        intros a b [<-|Ha] Hb; auto.
      + intros [[H1 H2] [H3 H4]]. repeat split; auto.
        * intros y Hy. apply H4; [left; reflexivity|exact Hy].
        * intros a b Ha Hb. apply H4; [right; exact Ha|exact Hb].
  Qed.

  Lemma sorted_firstn n l : sorted l -> sorted (firstn n l).
  Proof.
    intros H. rewrite <- (firstn_skipn n l) in H. apply sorted_app in H. tauto.
  Qed.
  Lemma sorted_skipn n l : sorted l -> sorted (skipn n l).
  Proof.
    intros H. rewrite <- (firstn_skipn n l) in H. apply sorted_app in H. tauto.
  Qed.

  (* ---------- insertion sort: sorted permutation ---------- *)
  Lemma sinsert_perm x l : Permutation (sinsert x l) (x :: l).
  Proof.
    induction l as [|y t IH]; cbn [C04Sort.sinsert]; [reflexivity|].
    destruct (leb x y); [reflexivity|]. rewrite IH. apply perm_swap.
  Qed.

  Lemma sinsert_sorted x l : sorted l -> sorted (sinsert x l).
  Proof.
    induction l as [|y t IH]; cbn [C04Sort.sinsert C04Sort.sorted]; intros Hs.
    - split; [constructor|exact I].
    - destruct Hs as [Hy Ht]. destruct (leb x y) eqn:E.
      + cbn [C04Sort.sorted]. repeat split; auto. constructor; [exact E|].
        eapply Forall_impl; [|exact Hy]. cbn. intros z Hz. eapply leb_trans; eassumption.
      + cbn [C04Sort.sorted]. split; [|apply IH; exact Ht].
        rewrite Forall_forall in *. intros z Hz.
        apply (Permutation_in _ (sinsert_perm x t)) in Hz. destruct Hz as [<-|Hz].
        * apply leb_total. exact E.
        * apply Hy. exact Hz.
  Qed.

  Lemma ssort_perm l : Permutation (ssort l) l.
  Proof.
    induction l as [|x t IH]; cbn [C04Sort.ssort]; [reflexivity|]. rewrite sinsert_perm, IH. reflexivity.
  Qed.

  Lemma ssort_sorted l : sorted (ssort l).
  Proof. induction l as [|x t IH]; cbn [C04Sort.ssort]; [exact I|]. apply sinsert_sorted. exact IH. Qed.

  Lemma ssort_length l : length (ssort l) = length l.
  Proof. apply Permutation_length, ssort_perm. Qed.

  (* ---------- stability: the members of every tie class keep their input order ---------- *)
  Lemma sinsert_stable p x l :
    sorted l -> filter (eqvb cmp p) (sinsert x l) = filter (eqvb cmp p) (x :: l).
  Proof.
    induction l as [|y t IH]; cbn [C04Sort.sinsert]; intros Hs; [reflexivity|].
    destruct (leb x y) eqn:E; [reflexivity|].
    destruct Hs as [Hy Ht]. cbn [filter]. rewrite (IH Ht). cbn [filter].
    destruct (eqvb cmp p x) eqn:Ex, (eqvb cmp p y) eqn:Ey; try reflexivity.
    (* p ~ x and p ~ y would give x ~ y, contradicting y < x *)
    exfalso. unfold eqvb in Ex, Ey.
    destruct (cmp p x) eqn:Cx; try discriminate. destruct (cmp p y) eqn:Cy; try discriminate.
    assert (Hxy : eqv x y) by (eapply eqv_trans; [apply eqv_sym; exact Cx|exact Cy]).
    apply eqv_leb in Hxy. destruct Hxy as [Hxy _]. congruence.
  Qed.

  Lemma ssort_stable p l : filter (eqvb cmp p) (ssort l) = filter (eqvb cmp p) l.
  Proof.
    induction l as [|x t IH]; cbn [C04Sort.ssort]; [reflexivity|].
    rewrite sinsert_stable by apply ssort_sorted. cbn [filter]. rewrite IH. reflexivity.
  Qed.

  (* ---------- two sorted permutations agree position by position up to ties ---------- *)
  Lemma Forall2_eqv_refl l : Forall2 eqv l l.
  Proof. induction l; constructor; auto using eqv_refl. Qed.

  Lemma Forall2_eqv_trans l1 l2 l3 : Forall2 eqv l1 l2 -> Forall2 eqv l2 l3 -> Forall2 eqv l1 l3.
  Proof.
    intros H. revert l3. induction H as [|a b l1 l2 Hab H IH]; intros l3 H3; inversion H3; subst; constructor.
    - eapply eqv_trans; eassumption.
    - apply IH. assumption.
  Qed.

  Lemma rotate_class a p q : (forall y, In y p -> eqv a y) -> Forall2 eqv (a :: p ++ q) (p ++ a :: q).
  Proof.
    revert a. induction p as [|b p IH]; intros a Hp; cbn [app].
    - apply Forall2_eqv_refl.
    - constructor; [apply Hp; left; reflexivity|].
      assert (Hab : eqv a b) by (apply Hp; left; reflexivity).
      eapply Forall2_eqv_trans with (l2 := a :: p ++ q).
      + constructor; [apply eqv_sym; exact Hab|apply Forall2_eqv_refl].
      + apply IH. intros y Hy. apply Hp. right. exact Hy.
  Qed.

  Lemma sorted_perm_pointwise l1 : forall l2,
    sorted l1 -> sorted l2 -> Permutation l1 l2 -> Forall2 eqv l1 l2.
  Proof.
    induction l1 as [|a t IH]; intros l2 H1 H2 HP.
    - apply Permutation_nil in HP. subst. constructor.
    - assert (Ha : In a l2) by (eapply Permutation_in; [exact HP|left; reflexivity]).
      apply in_split in Ha. destruct Ha as [p [q ->]].
      apply Permutation_cons_app_inv in HP.
      destruct H1 as [Hat Ht]. rewrite Forall_forall in Hat.
      pose proof H2 as H2'. apply sorted_app in H2'. destruct H2' as [Hp [Haq Hpq]].
      assert (Hclass : forall y, In y p -> eqv a y).
      { intros y Hy. apply leb_antisym_eqv.
        - apply Hat. eapply Permutation_in; [apply Permutation_sym; exact HP|]. apply in_or_app. left. exact Hy.
        - apply Hpq; [exact Hy|left; reflexivity]. }
      eapply Forall2_eqv_trans; [|apply rotate_class; exact Hclass].
      constructor; [apply eqv_refl|]. apply IH; [exact Ht| |exact HP].
      apply sorted_app. destruct Haq as [Haq Hq]. repeat split; auto.
      intros x y Hx Hy. apply Hpq; [exact Hx|right; exact Hy].
  Qed.

  Lemma leb_eqv_compat a a' b b' : eqv a a' -> eqv b b' -> leb a b = true -> leb a' b' = true.
  Proof.
    intros Ha Hb H. apply eqv_leb in Ha. apply eqv_leb in Hb.
    eapply leb_trans; [apply Ha|]. eapply leb_trans; [exact H|apply Hb].
  Qed.

  Lemma sorted_pointwise l1 l2 : Forall2 eqv l1 l2 -> sorted l1 -> sorted l2.
  Proof.
    intros H. induction H as [|a b l1 l2 Hab H IH]; cbn [C04Sort.sorted]; [auto|].
    intros [Hf Hs]. split; [|apply IH; exact Hs].
    clear IH Hs. induction H as [|c d l1 l2 Hcd H IH]; [constructor|].
    inversion Hf; subst. constructor; [eapply leb_eqv_compat; eassumption|apply IH; assumption].
  Qed.

  Lemma Forall2_firstn {B} (R : B -> B -> Prop) n : forall l1 l2, Forall2 R l1 l2 -> Forall2 R (firstn n l1) (firstn n l2).
  Proof. induction n; intros l1 l2 H; cbn; [constructor|]. destruct H; constructor; auto. Qed.
  Lemma Forall2_skipn {B} (R : B -> B -> Prop) n : forall l1 l2, Forall2 R l1 l2 -> Forall2 R (skipn n l1) (skipn n l2).
  Proof. induction n; intros l1 l2 H; cbn; [exact H|]. destruct H; [constructor|auto]. Qed.
  Lemma Forall2_app' {B} (R : B -> B -> Prop) l1 l2 l3 l4 : Forall2 R l1 l2 -> Forall2 R l3 l4 -> Forall2 R (l1 ++ l3) (l2 ++ l4).
  Proof. intros H. induction H; cbn; auto. Qed.

  (* ---------- top-1 scan ---------- *)
  Definition pick (top r : A) : A := match cmp r top with Lt => r | _ => top end.

  Lemma hd_sinsert x s d : hd d (sinsert x s) = match s with [] => x | y :: _ => if leb x y then x else y end.
  Proof. destruct s as [|y t]; cbn [C04Sort.sinsert]; [reflexivity|]. destruct (leb x y); reflexivity. Qed.

  Lemma sinsert_nonempty x s : sinsert x s <> [].
  Proof. destruct s as [|y t]; cbn [C04Sort.sinsert]; [discriminate|]. destruct (leb x y); discriminate. Qed.

  Lemma hd_sinsert2 x y s d : hd d (sinsert x (sinsert y s)) = hd d (sinsert (pick x y) s).
  Proof.
    rewrite (hd_sinsert x (sinsert y s)). destruct (sinsert y s) as [|z t] eqn:E; [exfalso; eapply sinsert_nonempty; exact E|].
    assert (Hz : z = hd d (sinsert y s)) by (rewrite E; reflexivity).
    rewrite hd_sinsert in Hz. rewrite hd_sinsert. unfold pick.
    destruct s as [|w s'].
    - subst z. unfold C04Sort.leb. rewrite (po_antisym _ PO x y). destruct (cmp x y); reflexivity.
    - subst z. unfold C04Sort.leb.
      destruct (cmp_full y x w) as [F1 [F2 [F3 F4]]]. destruct (cmp_full x y w) as [G1 [G2 [G3 G4]]].
      pose proof (po_antisym _ PO x y) as S.
      destruct (cmp y w) eqn:Cyw; cbn; destruct (cmp x y) eqn:Cxy; cbn in S; rewrite ?S in *; cbn;
        rewrite ?Cyw; destruct (cmp x w) eqn:Cxw; cbn; rewrite ?Cxy, ?Cyw, ?Cxw; try reflexivity; exfalso;
        try (specialize (G1 eq_refl); congruence); try (specialize (G2 eq_refl); congruence);
        try (specialize (G3 eq_refl eq_refl); congruence); try (specialize (G4 eq_refl eq_refl); congruence);
        try (specialize (F1 eq_refl); congruence); try (specialize (F2 eq_refl); congruence);
        try (specialize (F3 eq_refl eq_refl); congruence); try (specialize (F4 eq_refl eq_refl); congruence).
  Qed.

  Lemma top1_fold t : forall x d, hd d (ssort (x :: t)) = fold_left pick t x.
  Proof.
    induction t as [|y t IH]; intros x d; [reflexivity|].
    cbn [fold_left]. rewrite <- (IH (pick x y) d). cbn [C04Sort.ssort]. apply hd_sinsert2.
  Qed.

  Lemma top1_eq l : top1 cmp l = firstn 1 (ssort l).
  Proof.
    destruct l as [|x t]; [reflexivity|]. unfold top1. fold pick.
    rewrite <- (top1_fold t x x). cbn [C04Sort.ssort].
    destruct (sinsert x (ssort t)) eqn:E; [exfalso; eapply sinsert_nonempty; exact E|reflexivity].
  Qed.

  (* ---------- merge sort computes the same list ---------- *)
  Lemma merge_nil_r l : merge cmp l [] = l.
  Proof. destruct l; reflexivity. Qed.

  Lemma merge_nil_l l : merge cmp [] l = l.
  Proof. destruct l; reflexivity. Qed.
  Lemma merge_cons a l1 b l2 :
    merge cmp (a :: l1) (b :: l2) = if leb a b then a :: merge cmp l1 (b :: l2) else b :: merge cmp (a :: l1) l2.
  Proof. reflexivity. Qed.

  Lemma sinsert_merge x : forall s1 s2,
    sorted s1 -> sinsert x (merge cmp s1 s2) = merge cmp (sinsert x s1) s2.
  Proof.
    induction s1 as [|a s1 IH1]; intros s2 Hs1.
    - rewrite merge_nil_l. cbn [C04Sort.sinsert]. induction s2 as [|b s2 IH2]; [reflexivity|].
      cbn [C04Sort.sinsert]. rewrite merge_cons. destruct (leb x b); [rewrite merge_nil_l; reflexivity|].
      rewrite IH2. reflexivity.
    - induction s2 as [|b s2 IH2].
      + rewrite !merge_nil_r. reflexivity.
      + destruct Hs1 as [Ha Hs1]. rewrite merge_cons. destruct (leb a b) eqn:Eab.
        * cbn [C04Sort.sinsert]. destruct (leb x a) eqn:Exa.
          -- assert (Exb : leb x b = true) by (eapply leb_trans; eassumption).
             rewrite !merge_cons, Exb, Eab. reflexivity.
          -- rewrite merge_cons, Eab. f_equal. apply IH1. exact Hs1.
        * cbn [C04Sort.sinsert]. destruct (leb x a) eqn:Exa.
          -- rewrite merge_cons. destruct (leb x b) eqn:Exb.
             ++ rewrite merge_cons, Eab. reflexivity.
             ++ f_equal. cbn [C04Sort.sinsert] in IH2. rewrite Exa in IH2. apply IH2.
          -- assert (Exb : leb x b = false).
             { destruct (leb x b) eqn:Exb; [|reflexivity].
               pose proof (leb_total _ _ Eab) as Hba.
               assert (leb x a = true) by (eapply leb_trans; eassumption). congruence. }
             rewrite Exb. rewrite merge_cons, Eab. f_equal.
             cbn [C04Sort.sinsert] in IH2. rewrite Exa in IH2. apply IH2.
  Qed.

  Lemma ssort_app l1 l2 : ssort (l1 ++ l2) = merge cmp (ssort l1) (ssort l2).
  Proof.
    induction l1 as [|x l1 IH]; cbn [app C04Sort.ssort].
    - destruct (ssort l2); reflexivity.
    - rewrite IH. apply sinsert_merge. apply ssort_sorted.
  Qed.

  Lemma msort_fuel_eq fuel : forall l, msort_fuel cmp fuel l = ssort l.
  Proof.
    induction fuel as [|f IH]; intros l; [reflexivity|].
    cbn [C04Sort.msort_fuel]. destruct l as [|x [|y t]]; [reflexivity|reflexivity|].
    rewrite !IH, <- ssort_app, firstn_skipn. reflexivity.
  Qed.

  Lemma msort_eq l : msort cmp l = ssort l.
  Proof. apply msort_fuel_eq. Qed.
End SortingProofs.

(* ------------------------------------------------------------------ the decidable slice characterisation *)
Section SliceProofs.
  Context {A : Type}.
  Variable cmp : A -> A -> comparison.
  Hypothesis PO : preorder cmp.
  Variable eqb : A -> A -> bool.
  Hypothesis eqb_spec : forall a b, eqb a b = true <-> a = b.

  Lemma remove1_perm x : forall l l', remove1 eqb x l = Some l' -> Permutation l (x :: l').
  Proof.
    induction l as [|y t IH]; intros l' H; cbn [remove1] in H; [discriminate|].
    destruct (eqb x y) eqn:E.
    - apply eqb_spec in E. subst y. injection H as <-. reflexivity.
    - destruct (remove1 eqb x t) as [t'|] eqn:R; [|discriminate]. injection H as <-.
      rewrite (IH t' eq_refl). apply perm_swap.
  Qed.

  Lemma remove1_complete x : forall l, In x l -> exists l', remove1 eqb x l = Some l'.
  Proof.
    induction l as [|y t IH]; intros H; [destruct H|]. cbn [remove1].
    destruct (eqb x y) eqn:E; [eexists; reflexivity|].
    destruct H as [->|H]; [assert (eqb x x = true) by (apply eqb_spec; reflexivity); congruence|].
    destruct (IH H) as [t' ->]. eexists; reflexivity.
  Qed.

  Lemma msub_perm o : forall xs r, msub eqb xs o = Some r -> Permutation xs (o ++ r).
  Proof.
    induction o as [|x o IH]; intros xs r H; cbn [msub] in H.
    - injection H as <-. reflexivity.
    - destruct (remove1 eqb x xs) as [xs'|] eqn:R; [|discriminate].
      rewrite (remove1_perm _ _ _ R). cbn [app]. apply perm_skip. apply IH. exact H.
  Qed.

  Lemma msub_complete o : forall xs r0, Permutation xs (o ++ r0) -> exists r, msub eqb xs o = Some r /\ Permutation r r0.
  Proof.
    induction o as [|x o IH]; intros xs r0 HP; cbn [msub].
    - exists xs. split; [reflexivity|exact HP].
    - assert (Hin : In x xs) by (eapply Permutation_in; [apply Permutation_sym; exact HP|left; reflexivity]).
      destruct (remove1_complete x xs Hin) as [xs' R]. rewrite R. apply IH.
      apply remove1_perm in R. rewrite R in HP. cbn [app] in HP. eapply Permutation_cons_inv. exact HP.
  Qed.

  Lemma window_split (m n : nat) (l : list A) :
    let b0 := firstn m l in let a0 := skipn n (skipn m l) in
    firstn m (b0 ++ a0) = b0 /\ skipn m (b0 ++ a0) = a0.
  Proof.
    cbn zeta. destruct (le_lt_dec m (length l)) as [Hle|Hlt].
    - assert (Hb : length (firstn m l) = m) by (apply firstn_length_le; exact Hle).
      rewrite firstn_app, skipn_app, Hb, Nat.sub_diag. cbn [firstn skipn].
      rewrite firstn_all2 by lia. rewrite skipn_all2 by lia. rewrite app_nil_r. auto.
    - rewrite (skipn_all2 l) by lia. rewrite skipn_nil, app_nil_r.
      rewrite (firstn_all2 l) by lia. rewrite firstn_all2 by lia. rewrite skipn_all2 by lia. auto.
  Qed.

  Theorem valid_slice_iff xs m n o : valid_slice cmp eqb xs m n o = true <-> is_slice cmp xs m n o.
  Proof.
    unfold valid_slice, is_slice. split.
    - destruct (msub eqb xs o) as [r|] eqn:E; [|discriminate]. intros H.
      apply andb_true_iff in H. destruct H as [Hlen Hs]. apply Nat.eqb_eq in Hlen.
      apply (sortedb_sorted cmp PO) in Hs. pose proof (msub_perm _ _ _ E) as HP.
      pose proof (ssort_perm cmp r) as Hsp. pose proof (ssort_length cmp r) as Hsl.
      set (s := ssort cmp r) in *.
      exists (firstn m s ++ o ++ skipn m s). split; [|split; [exact Hs|]].
      + rewrite Permutation_app_swap_app, firstn_skipn, Hsp. symmetry. exact HP.
      + apply Permutation_length in HP. rewrite app_length in HP.
        destruct (le_lt_dec (length xs) m) as [Hge|Hlt].
        * assert (Ho : o = []) by (apply length_zero_iff_nil; lia). subst o. cbn [app].
          rewrite firstn_skipn. rewrite skipn_all2 by lia. rewrite firstn_nil. reflexivity.
        * assert (Hb : length (firstn m s) = m) by (apply firstn_length_le; lia).
          rewrite skipn_app, Hb, Nat.sub_diag. rewrite (skipn_all2 (firstn m s)) by lia.
          cbn [skipn app]. rewrite firstn_app.
          destruct (Nat.eq_dec (length o) n) as [Hn|Hn].
          -- rewrite Hn, Nat.sub_diag. cbn [firstn]. rewrite firstn_all2 by lia. rewrite app_nil_r. reflexivity.
          -- rewrite (skipn_all2 s) by lia. rewrite firstn_nil, app_nil_r. rewrite firstn_all2 by lia. reflexivity.
    - intros [l [HP [Hs Ho]]].
      pose proof (window_split m n l) as Hw. cbn zeta in Hw.
      set (b0 := firstn m l) in *. set (a0 := skipn n (skipn m l)) in *.
      assert (Hl : l = b0 ++ o ++ a0).
      { subst o b0 a0. rewrite (firstn_skipn n (skipn m l)). rewrite firstn_skipn. reflexivity. }
      assert (HP2 : Permutation xs (o ++ (b0 ++ a0))).
      { rewrite <- HP, Hl. apply Permutation_app_swap_app. }
      destruct (msub_complete o xs (b0 ++ a0) HP2) as [r [E Hr]]. rewrite E.
      apply andb_true_iff. split.
      + apply Nat.eqb_eq. rewrite Ho, firstn_length, skipn_length. apply Permutation_length in HP. lia.
      + apply (sortedb_sorted cmp PO).
        rewrite Hl in Hs. pose proof Hs as Hs0.
        apply (sorted_app cmp) in Hs. destruct Hs as [Hb [Hoa Hc1]].
        apply (sorted_app cmp) in Hoa. destruct Hoa as [Ho' [Ha Hc2]].
        assert (Hba : sorted cmp (b0 ++ a0)).
        { apply (sorted_app cmp). repeat split; auto. intros x y Hx Hy. apply Hc1; [exact Hx|].
          apply in_or_app. right. exact Hy. }
        assert (HF : Forall2 (eqv cmp) (b0 ++ a0) (ssort cmp r)).
        { apply (sorted_perm_pointwise cmp PO); [exact Hba|apply (ssort_sorted cmp PO)|].
          rewrite (ssort_perm cmp r). symmetry. exact Hr. }
        destruct Hw as [Hw1 Hw2].
        eapply (sorted_pointwise cmp PO); [|exact Hs0].
        apply Forall2_app'; [|apply Forall2_app'].
        * rewrite <- Hw1 at 1. apply Forall2_firstn. exact HF.
        * apply (Forall2_eqv_refl cmp PO).
        * rewrite <- Hw2 at 1. apply Forall2_skipn. exact HF.
  Qed.
End SliceProofs.

(* ------------------------------------------------------------------ LimitIter / offsetIter *)
Section IterProofs.
  Context {A : Type}.

  Lemma limit_iter_firstn (child : list A) : forall pos limit,
    limit_iter pos limit child = firstn (Z.to_nat (limit - pos)) child.
  Proof.
    induction child as [|x t IH]; intros pos limit; cbn [limit_iter].
    - rewrite firstn_nil. reflexivity.
    - destruct (Z.geb_spec pos limit) as [H|H].
      + replace (Z.to_nat (limit - pos)) with 0 by lia. reflexivity.
      + replace (Z.to_nat (limit - pos)) with (S (Z.to_nat (limit - (pos + 1)))) by lia.
        cbn [firstn]. rewrite IH. reflexivity.
  Qed.

  Lemma offset_iter_skipn (child : list A) : forall skip, offset_iter skip child = skipn (Z.to_nat skip) child.
  Proof.
    induction child as [|x t IH]; intros skip; cbn [offset_iter].
    - rewrite skipn_nil. reflexivity.
    - destruct (Z.gtb_spec skip 0) as [H|H].
      + replace (Z.to_nat skip) with (S (Z.to_nat (skip - 1))) by lia. cbn [skipn]. apply IH.
      + replace (Z.to_nat skip) with 0 by lia. reflexivity.
  Qed.

  Lemma limit_offset_eq (n m : nat) (child : list A) :
    limit_iter 0 (Z.of_nat n) (offset_iter (Z.of_nat m) child) = firstn n (skipn m child).
  Proof. rewrite limit_iter_firstn, offset_iter_skipn, Z.sub_0_r, !Nat2Z.id. reflexivity. Qed.
End IterProofs.
