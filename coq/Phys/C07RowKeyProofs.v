(* C07: row-level injectivity of the HashOf key (values joined by one NUL byte, NULL as "<nil>") on the fragment where
   every column is of a per-value-injective kind and no value can imitate the separator. *)
From Coq Require Import List ZArith NArith Bool Lia Ascii String DecimalString DecimalZ DecimalN DecimalPos.
Import ListNotations.
From GMS Require Import Phys.C07HashKey Phys.C07HashKeyProofs.
Open Scope N_scope.

(* ---------- splitting at a separator byte ---------- *)
Lemma sep_split (c : N) : forall (k1 k2 x y : list N),
  ~ In c k1 -> ~ In c k2 -> k1 ++ c :: x = k2 ++ c :: y -> k1 = k2 /\ x = y.
Proof.
  induction k1 as [|a k1 IH]; intros [|b k2] x y H1 H2 E; cbn in E.
  - injection E as E. auto.
  - injection E as E1 E2. exfalso. apply H2. left. congruence.
  - injection E as E1 E2. exfalso. apply H1. left. congruence.
  - injection E as -> E. destruct (IH k2 x y) as [-> ->]; auto.
    + intros Hin. apply H1. right. exact Hin.
    + intros Hin. apply H2. right. exact Hin.
Qed.

(* ---------- the characters of the number texts ---------- *)
Definition numch (c : N) : Prop := c = 45 \/ c = 46 \/ (48 <= c <= 57).

Lemma uint_chars d : Forall numch (bytes_of_string (NilEmpty.string_of_uint d)).
Proof. induction d; cbn; constructor; try assumption; unfold numch; cbn; lia. Qed.

Lemma utext_chars n : Forall numch (utext n).
Proof. apply uint_chars. Qed.

Lemma int_text_split z :
  int_text z = (if (z <? 0)%Z then [45] else []) ++ utext (Z.to_N (Z.abs z)).
Proof. destruct z; reflexivity. Qed.

Lemma int_text_chars z : Forall numch (int_text z).
Proof.
  rewrite int_text_split. apply Forall_app. split; [|apply utext_chars].
  destruct (z <? 0)%Z; constructor; [left; reflexivity|constructor].
Qed.

Lemma fd_chars k : forall r, Forall numch (fd k r).
Proof.
  induction k as [|k IH]; intros r; cbn [fd]; [constructor|].
  apply Forall_app. split; [apply IH|]. constructor; [|constructor].
  right. right. pose proof (N.mod_upper_bound r 10 ltac:(discriminate)) as Hm. set (q := r mod 10) in *. clearbody q. lia.
Qed.

Lemma dec_text_chars m s : Forall numch (dec_text m s).
Proof.
  unfold dec_text. apply Forall_app. split.
  - destruct (m <? 0)%Z; constructor; [left; reflexivity|constructor].
  - apply Forall_app. split; [apply utext_chars|].
    destruct (s =? 0); constructor; [right; left; reflexivity|apply fd_chars].
Qed.

Lemma numch_not c x : numch x -> (c < 45 \/ c = 47 \/ 57 < c) -> x <> c.
Proof. unfold numch. lia. Qed.

Lemma chars_notin c l : Forall numch l -> (c < 45 \/ c = 47 \/ 57 < c) -> ~ In c l.
Proof.
  intros H Hc Hin. rewrite Forall_forall in H. apply H in Hin. eapply numch_not; eauto.
Qed.

Lemma int_text_nonempty z : int_text z <> [].
Proof.
  rewrite int_text_split. destruct (utext_head (Z.to_N (Z.abs z))) as (c & r & E & _). rewrite E.
  destruct (z <? 0)%Z; discriminate.
Qed.

Lemma dec_text_nonempty m s : dec_text m s <> [].
Proof.
  unfold dec_text. destruct (utext_head (Z.to_N (Z.abs m) / 10 ^ s)) as (c & r & E & _). rewrite E.
  destruct (m <? 0)%Z; discriminate.
Qed.

Lemma chars_not_nil l : Forall numch l -> l <> nil_text.
Proof.
  intros H E. subst l. inversion H as [|? ? H1 _]. unfold numch in H1. lia.
Qed.

(* ---------- the guarded fragment ---------- *)
Section Rows.
  Variable w : N -> N.
  Hypothesis Hw : forall c, w c < 4294967296.

  (* a value under a schema entry: numbers and NULL without a string schema; a raw string has no NUL byte, is not the
     five bytes "<nil>" and is alone in its collation class (binary collation); a string under a string schema has
     rune weights below 2^24 whose low byte is not zero (no weight chunk starts like the separator) *)
  Definition val_ok (c : hcol) (v : hv) : Prop :=
    match v with
    | HNull => True
    | HInt _ | HDec _ _ => c = CNone
    | HStr b => match c with
                | CNone => ~ In 0 b /\ b <> nil_text /\ (forall b', map w b' = map w b -> b' = b)
                | CStr => Forall (fun r => w r mod 256 <> 0 /\ w r < 16777216) b
                end
    end.
  (* two values of one column: same kind, decimals of the same scale *)
  Definition compat (a b : hv) : Prop :=
    match a, b with
    | HNull, _ | _, HNull => True
    | HInt _, HInt _ => True
    | HDec _ s, HDec _ s' => s = s'
    | HStr _, HStr _ => True
    | _, _ => False
    end.
  (* the class relation of grouping: NULL with NULL, otherwise '=' TRUE *)
  Definition same_class (a b : hv) : bool :=
    match a, b with
    | HNull, HNull => true
    | HNull, _ | _, HNull => false
    | _, _ => sql_eq w a b
    end.

  Fixpoint rows_ok (sch : list hcol) (r1 r2 : list hv) : Prop :=
    match r1, r2 with
    | [], [] => True
    | a :: r1', b :: r2' =>
        val_ok (hd CNone sch) a /\ val_ok (hd CNone sch) b /\ compat a b /\ rows_ok (tl sch) r1' r2'
    | _, _ => False
    end.
  Fixpoint rows_eqb (r1 r2 : list hv) : bool :=
    match r1, r2 with
    | [], [] => true
    | a :: r1', b :: r2' => same_class a b && rows_eqb r1' r2'
    | _, _ => false
    end.

  Lemma ws_cons r b : weight_string w (r :: b) =
    w r mod 256 :: (w r / 256) mod 256 :: (w r / 65536) mod 256 :: (w r / 16777216) mod 256 :: weight_string w b.
  Proof. reflexivity. Qed.

  Lemma nil_not_ws b : Forall (fun r => w r mod 256 <> 0 /\ w r < 16777216) b -> nil_text <> weight_string w b.
  Proof.
    intros H E. destruct b as [|r b]; [discriminate|].
    rewrite ws_cons in E. unfold nil_text in E. injection E as _ _ _ E3 _.
    inversion H as [|? ? [_ Hr] _]. rewrite (N.div_small _ _ Hr) in E3. discriminate.
  Qed.

  (* per value: key equality = class equality *)
  Lemma key1_iff c a b : val_ok c a -> val_ok c b -> compat a b ->
    (key1 w c a = key1 w c b <-> same_class a b = true).
  Proof.
    intros Ha Hb Hc. destruct a as [|x|m s|x], b as [|y|m' s'|y]; cbn [compat] in Hc; try contradiction;
      cbn [val_ok] in Ha, Hb; subst; cbn [same_class].
    - split; reflexivity.
    - cbn [key1]. split; [|discriminate]. intros E. exfalso. symmetry in E. revert E. apply chars_not_nil, int_text_chars.
    - cbn [key1]. split; [|discriminate]. intros E. exfalso. symmetry in E. revert E. apply chars_not_nil, dec_text_chars.
    - split; [|discriminate]. intros E. exfalso. destruct c; cbn [key1] in E.
      + destruct Hb as (_ & Hb & _). congruence.
      + revert E. apply nil_not_ws. exact Hb.
    - cbn [key1]. split; [|discriminate]. intros E. exfalso. revert E. apply chars_not_nil, int_text_chars.
    - apply key_int_iff.
    - cbn [key1]. split; [|discriminate]. intros E. exfalso. revert E. apply chars_not_nil, dec_text_chars.
    - apply key_dec_same_scale_iff.
    - split; [|discriminate]. intros E. exfalso. destruct c; cbn [key1] in E.
      + destruct Ha as (_ & Ha & _). congruence.
      + symmetry in E. revert E. apply nil_not_ws. exact Ha.
    - destruct c.
      + cbn [key1 sql_eq]. rewrite bytes_eqb_spec. split; [intros ->; reflexivity|].
        intros E. destruct Hb as (_ & _ & Hb). apply Hb. exact E.
      + apply key_str_schema_iff. exact Hw.
  Qed.

  Lemma ws_sep b1 : forall b2 x y,
    Forall (fun r => w r mod 256 <> 0 /\ w r < 16777216) b1 ->
    Forall (fun r => w r mod 256 <> 0 /\ w r < 16777216) b2 ->
    weight_string w b1 ++ 0 :: x = weight_string w b2 ++ 0 :: y ->
    weight_string w b1 = weight_string w b2 /\ x = y.
  Proof.
    induction b1 as [|r1 b1 IH]; intros [|r2 b2] x y H1 H2 E.
    - cbn in E. injection E as E. auto.
    - exfalso. rewrite ws_cons in E. cbn in E. injection E as E _. inversion H2 as [|? ? [Hr _] _]. congruence.
    - exfalso. rewrite ws_cons in E. cbn in E. injection E as E _. inversion H1 as [|? ? [Hr _] _]. congruence.
    - rewrite !ws_cons in E. cbn in E. injection E as E0 E1 E2 E3 E.
      inversion H1 as [|? ? _ H1']. inversion H2 as [|? ? _ H2']. subst.
      destruct (IH b2 x y H1' H2' E) as [Ews ->]. split; [|reflexivity].
      rewrite !ws_cons. congruence.
  Qed.

  Lemma nil_ws_sep b x y : Forall (fun r => w r mod 256 <> 0 /\ w r < 16777216) b ->
    nil_text ++ 0 :: x <> weight_string w b ++ 0 :: y.
  Proof.
    intros H E. destruct b as [|r b]; [discriminate|].
    rewrite ws_cons in E. cbn in E. injection E as _ _ _ E3 _.
    inversion H as [|? ? [_ Hr] _]. rewrite (N.div_small _ _ Hr) in E3. discriminate.
  Qed.

  Lemma key1_nul_free v : val_ok CNone v -> ~ In 0 (key1 w CNone v).
  Proof.
    destruct v as [|z|m s|b]; cbn [val_ok key1]; intros H.
    - cbn. intros [E|[E|[E|[E|[E|[]]]]]]; discriminate.
    - apply chars_notin; [apply int_text_chars|lia].
    - apply chars_notin; [apply dec_text_chars|lia].
    - tauto.
  Qed.

  (* per value: the key cannot absorb the separator *)
  Lemma key1_sep c a b x y : val_ok c a -> val_ok c b ->
    key1 w c a ++ 0 :: x = key1 w c b ++ 0 :: y -> key1 w c a = key1 w c b /\ x = y.
  Proof.
    intros Ha Hb E. destruct c.
    - apply (sep_split 0); auto using key1_nul_free.
    - destruct a as [|?|? ?|b1], b as [|?|? ?|b2]; cbn [val_ok] in Ha, Hb; try discriminate; cbn [key1] in *.
      + apply (sep_split 0) in E; [exact E| |]; cbn; intros [H|[H|[H|[H|[H|[]]]]]]; discriminate.
      + exfalso. revert E. apply nil_ws_sep. exact Hb.
      + exfalso. symmetry in E. revert E. apply nil_ws_sep. exact Ha.
      + apply ws_sep; assumption.
  Qed.

  Lemma row_key_cons sch a a' r :
    row_key w sch (a :: a' :: r) = key1 w (hd CNone sch) a ++ 0 :: row_key w (tl sch) (a' :: r).
  Proof. reflexivity. Qed.

  (* rows: equal keys exactly when the rows agree class-wise in every column *)
  Theorem row_key_injective_on_classes : forall r1 r2 sch,
    rows_ok sch r1 r2 -> (row_key w sch r1 = row_key w sch r2 <-> rows_eqb r1 r2 = true).
  Proof.
    induction r1 as [|a r1 IH]; intros [|b r2] sch Hok; cbn [rows_ok] in Hok; try contradiction.
    - split; reflexivity.
    - destruct Hok as (Ha & Hb & Hc & Hok). cbn [rows_eqb]. rewrite andb_true_iff.
      destruct r1 as [|a' r1], r2 as [|b' r2]; cbn [rows_ok] in Hok; try contradiction.
      + cbn [row_key rows_eqb]. rewrite (key1_iff _ _ _ Ha Hb Hc). tauto.
      + rewrite !row_key_cons. rewrite <- (IH (b' :: r2) (tl sch) Hok), <- (key1_iff _ _ _ Ha Hb Hc). split.
        * intros E. apply key1_sep in E; assumption.
        * intros [-> ->]. reflexivity.
  Qed.
End Rows.

(* nonvacuous: a two-column row pair inside the fragment *)
Example rows_ok_example :
  rows_ok (fun c => c) [] [HInt 1; HStr [97]; HNull] [HInt 1; HStr [97]; HNull].
Proof.
  cbn. repeat split; try discriminate; try (intros [H|[]]; discriminate).
  all: intros b' H; rewrite !map_id in H; exact H.
Qed.
