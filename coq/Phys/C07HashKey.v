(* C07: the canonical key bytes that sql/hash/hash.go feeds to xxhash (HashOf), the key of countDistinctBuffer, and the
   de-duplication loop shared by Distinct / GROUP BY / UNION.  Mirrors the code as it is: decimals are written with
   apd.Decimal.Text('f') (trailing zeros kept), strings as raw bytes unless the schema supplies a string type (then
   Collation.WriteWeightString: four little-endian bytes of the rune weight per rune), NUL between row values. *)
From Coq Require Import List ZArith NArith Bool Lia Ascii String DecimalString DecimalZ DecimalN.
Import ListNotations.
Open Scope Z_scope.

Inductive hv := HNull | HInt (z : Z) | HDec (m : Z) (s : N) | HStr (b : list N).
(* schema entry of a key column: absent / not a string type, or a string type (whose collation gives rune weights) *)
Inductive hcol := CNone | CStr.

Definition bytes_of_string (s : string) : list N := map N_of_ascii (list_ascii_of_string s).

(* strconv.FormatInt(v, 10) *)
Definition int_text (z : Z) : list N := bytes_of_string (NilEmpty.string_of_int (Z.to_int z)).
Definition utext (n : N) : list N := bytes_of_string (NilEmpty.string_of_uint (N.to_uint n)).

(* k decimal digits of r, most significant first *)
Fixpoint fd (k : nat) (r : N) : list N :=
  match k with O => [] | S k' => fd k' (r / 10)%N ++ [(48 + r mod 10)%N] end.

(* apd.Decimal.Text('f') of coefficient |m|, exponent -s, sign of m *)
Definition dec_text (m : Z) (s : N) : list N :=
  let a := Z.to_N (Z.abs m) in
  let p := (10 ^ s)%N in
  (if m <? 0 then [45%N] else []) ++ utext (a / p)%N ++
  (if N.eqb s 0 then [] else 46%N :: fd (N.to_nat s) (a mod p)%N).

Definition nil_text : list N := [60; 110; 105; 108; 62]%N.   (* "<nil>" *)

Fixpoint bytes_eqb (a b : list N) : bool :=
  match a, b with
  | [], [] => true
  | x :: a', y :: b' => N.eqb x y && bytes_eqb a' b'
  | _, _ => false
  end.

Section Weights.
  Variable w : N -> N.   (* Collation.Sorter: rune -> weight *)

  Definition le4 (x : N) : list N :=
    [x mod 256; (x / 256) mod 256; (x / 65536) mod 256; (x / 16777216) mod 256]%N.
  Definition weight_string (s : list N) : list N := flat_map (fun c => le4 (w c)) s.

  Definition key1 (c : hcol) (v : hv) : list N :=
    match v with
    | HNull => nil_text
    | HStr b => match c with CStr => weight_string b | CNone => b end
    | HInt z => match c with CStr => weight_string (int_text z) | CNone => int_text z end
    | HDec m s => match c with CStr => weight_string (dec_text m s) | CNone => dec_text m s end
    end.

  (* HashOf: values separated by one NUL byte; schema entries beyond len(sch) are absent *)
  Fixpoint row_key (sch : list hcol) (r : list hv) : list N :=
    match r with
    | [] => []
    | [v] => key1 (hd CNone sch) v
    | v :: r' => key1 (hd CNone sch) v ++ 0%N :: row_key (tl sch) r'
    end.

  (* '=' between non-NULL values: numbers numerically, strings by the weights of their runes *)
  Definition sql_eq (a b : hv) : bool :=
    match a, b with
    | HInt x, HInt y => Z.eqb x y
    | HInt x, HDec m s => Z.eqb (x * 10 ^ Z.of_N s) m
    | HDec m s, HInt y => Z.eqb m (y * 10 ^ Z.of_N s)
    | HDec m1 s1, HDec m2 s2 => Z.eqb (m1 * 10 ^ Z.of_N s2) (m2 * 10 ^ Z.of_N s1)
    | HStr x, HStr y => bytes_eqb (map w x) (map w y)
    | _, _ => false
    end.
End Weights.

(* countDistinctBuffer.Update: each value converted to text, followed by "," *)
Definition text_of (v : hv) : list N :=
  match v with HNull => [] | HInt z => int_text z | HDec m s => dec_text m s | HStr b => b end.
Definition cd_key (r : list hv) : list N := flat_map (fun v => text_of v ++ [44%N]) r.

(* the de-duplication loop (Distinct, UNION, and the group table of GROUP BY): keep a row iff its key was not seen *)
Section Dedup.
  Context {A K : Type} (key : A -> K) (keq : K -> K -> bool).
  Fixpoint dedup_go (seen : list K) (l : list A) : list A :=
    match l with
    | [] => []
    | x :: l' => if existsb (keq (key x)) seen then dedup_go seen l' else x :: dedup_go (key x :: seen) l'
    end.
  Definition dedup (l : list A) : list A := dedup_go [] l.
End Dedup.

