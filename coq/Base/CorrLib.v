(* Small executable helpers shared by the correspondence files. *)
From Coq Require Import List NArith ZArith Bool.
Import ListNotations.

Fixpoint list_eqb {A} (eqb : A -> A -> bool) (a b : list A) : bool :=
  match a, b with
  | [], [] => true
  | x :: a', y :: b' => eqb x y && list_eqb eqb a' b'
  | _, _ => false
  end.

Definition bytes_eqb : list N -> list N -> bool := list_eqb N.eqb.
Definition zs_eqb : list Z -> list Z -> bool := list_eqb Z.eqb.

Definition option_eqb {A} (eqb : A -> A -> bool) (a b : option A) : bool :=
  match a, b with
  | None, None => true
  | Some x, Some y => eqb x y
  | _, _ => false
  end.

Lemma list_eqb_spec {A} (eqb : A -> A -> bool) :
  (forall x y, eqb x y = true <-> x = y) -> forall a b, list_eqb eqb a b = true <-> a = b.
Proof.
  intros H a. induction a as [|x a IH]; intros [|y b]; cbn; split; intros E; try reflexivity; try discriminate.
  - apply andb_prop in E. destruct E as [E1 E2]. apply H in E1. apply IH in E2. congruence.
  - injection E as -> ->. apply andb_true_intro. split; [apply H; reflexivity|apply IH; reflexivity].
Qed.
