(* Correspondence definitions for C49: evaluate the model on the cases the implementation ran. *)
From Coq Require Import List NArith Arith Bool.
Import ListNotations.
From GMS Require Import Base.CorrLib Sys.SimilarText.

(* names, src, observed Find(names, src), observed distanceForStrings(name, src) per name *)
Definition case : Type := (list str * str * str * list N)%type.

Definition ok (c : case) : bool :=
  let '(names, src, out, dists) := c in
  bytes_eqb (find names src) out &&
  bytes_eqb (map (fun n => N.of_nat (distance n src)) names) dists.

Definition mismatches (cs : list (N * case)) : list N :=
  map fst (filter (fun p => negb (ok (snd p))) cs).
