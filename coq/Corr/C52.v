(* Correspondence definitions for C52: evaluate the WKB model on the cases the implementation ran. *)
From Coq Require Import List NArith ZArith Bool.
Import ListNotations.
From GMS Require Import Base.CorrLib Codec.Wkb.

Definition pt_eqb (a b : pt) : bool := N.eqb (px a) (px b) && N.eqb (py a) (py b).
Definition line_eqb := list_eqb pt_eqb.
Definition poly_eqb := list_eqb line_eqb.

Fixpoint shape_eqb (a b : shape) : bool :=
  match a, b with
  | SPoint p, SPoint q => pt_eqb p q
  | SLine p, SLine q => line_eqb p q
  | SPoly p, SPoly q => poly_eqb p q
  | SMPoint p, SMPoint q => line_eqb p q
  | SMLine p, SMLine q => poly_eqb p q
  | SMPoly p, SMPoly q => list_eqb poly_eqb p q
  | SColl p, SColl q =>
      (fix go (x y : list shape) : bool :=
         match x, y with
         | [], [] => true
         | g :: x', h :: y' => shape_eqb g h && go x' y'
         | _, _ => false
         end) p q
  | _, _ => false
  end.

Definition geom_eqb (a b : geom) : bool := N.eqb (fst a) (fst b) && shape_eqb (snd a) (snd b).

Definition res_eqb {A} (eqb : A -> A -> bool) (a b : res A) : bool :=
  match a, b with
  | Ok x, Ok y => eqb x y
  | Err, Err => true
  | Panic, Panic => true
  | _, _ => false
  end.

Definition zbox_eqb (a b : Z * Z * Z * Z) : bool :=
  let '(a1, a2, a3, a4) := a in let '(b1, b2, b3, b4) := b in
  Z.eqb a1 b1 && Z.eqb a2 b2 && Z.eqb a3 b3 && Z.eqb a4 b4.

Inductive case : Type :=
| CSer (g : geom) (out : list N) (back : res geom)
    (* out = g.Serialize(); back = GeometryType{}.Convert(out) *)
| CDeser (srid : N) (buf : list N) (out : res geom) (vsrid : N) (out2 : res geom)
    (* out = GeometryType{}.Convert(le32 srid ++ buf); out2 = ST_GeomFromWKB(buf, vsrid) *)
| CSql (g : geom) (out : list N) (back : res geom)
    (* out = ST_AsWKB(g); back = ST_GeomFromWKB(out, SRID(g)) *)
| CBBox (ps : list (Z * Z)) (out : option (Z * Z * Z * Z)). (* LineString{ps}.BBox(), None = the sentinels *)

Definition ok (c : case) : bool :=
  match c with
  | CSer g out back => bytes_eqb (serialize g) out && res_eqb geom_eqb (deserialize out) back
  | CDeser srid buf out vsrid out2 =>
      res_eqb geom_eqb (deserialize (enc false 4 srid ++ buf)) out &&
      res_eqb geom_eqb (geom_from_wkb buf vsrid) out2
  | CSql g out back => bytes_eqb (as_wkb g) out && res_eqb geom_eqb (geom_from_wkb out (fst g)) back
  | CBBox ps out => option_eqb zbox_eqb (bbox_pts ps) out
  end.

Definition mismatches (cs : list (N * case)) : list N :=
  map fst (filter (fun p => negb (ok (snd p))) cs).
