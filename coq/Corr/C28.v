(* Correspondence definitions for C28: the model's wire text and re-conversion against what Type.SQL /
   Type.Convert of /repo produced for the same value. *)
From Coq Require Import List NArith ZArith Bool.
Import ListNotations.
From GMS Require Codec.C28Json Codec.C28JsonWire.
From GMS Require Import Base.CorrLib Codec.C28Date Codec.C28Wire Codec.C28Str Codec.C28Bin Codec.C28Meta.
Open Scope Z_scope.

Definition oz_eqb := option_eqb Z.eqb.
Definition obytes_eqb := option_eqb bytes_eqb.
Definition dec_eqb (a b : dec) : bool :=
  Bool.eqb (dneg a) (dneg b) && (dcoef a =? dcoef b) && (dexp a =? dexp b).

(* every constructor: the type, the value handed to Type.SQL, the observed text (None = SQL returned an error),
   the observed Type.Convert(text) (None = error) *)
Inductive binitem : Type :=
| BInt (t : ity) (v : Z) (txt bin : bytes)
| BYear (y : Z) (txt bin : bytes)
| BDT (x : Z) (txt bin : bytes)
| BTime (x : Z) (txt bin : bytes)
| BStr (txt bin : bytes).

Definition bin_ok (i : binitem) : bool :=
  match i with
  | BInt t v txt bin =>
      bytes_eqb (int_sql_text t v) txt && obytes_eqb (int_bin t txt) (Some bin) && (int_bin_decode t bin =? v)
  | BYear y txt bin =>
      bytes_eqb (year_sql_text y) txt && obytes_eqb (year_bin txt) (Some bin) && (int_bin_decode I16 bin =? y)
  | BDT x txt bin => obytes_eqb (datetime_bin txt) (Some bin) && oz_eqb (datetime_bin_decode bin) (Some x)
  | BTime x txt bin =>
      bytes_eqb (time_sql_text x) txt && obytes_eqb (time_bin txt) (Some bin) && oz_eqb (time_bin_decode bin) (Some x)
  | BStr txt bin => bytes_eqb (lenenc_str txt) bin && obytes_eqb (lenenc_decode bin) (Some txt)
  end.

Inductive case : Type :=
| CInt (t : ity) (v : Z) (txt : bytes) (back : option Z)
| CDec (col : bool) (p s : Z) (v : dec) (txt : bytes) (back : option dec)
| CYear (y : Z) (txt : bytes) (back : option Z)
| CBit (n v : Z) (txt : bytes) (back : option Z)
| CDate (x : Z) (txt : option bytes) (back : option Z)
| CDatetime (n : N) (x : Z) (txt : option bytes) (back : option Z)
| CTime (x : Z) (txt : bytes) (back : option Z)
| CEnum (names : list bytes) (i : Z) (txt : bytes) (back : option Z)
| CSet (names : list bytes) (b : Z) (txt : bytes) (back : option Z)
(* string types: value, observed len([]rune(value)), observed MaxTextResponseByteLength, text, Convert(text) *)
| CStr (t : sty) (s : bytes) (runes announced : N) (txt : bytes) (back : option bytes)
(* one binary-protocol row as sent by the server: per non-NULL column the stored value, the text Type.SQL gives,
   and the bytes found in the row *)
| CBinRow (bitmap : bytes) (nulls : list bool) (items : list binitem)
(* column definitions as sent: declared type, (NOT NULL, PRIMARY KEY, AUTO_INCREMENT), observed (type code, flags,
   decimals, column length, character set) *)
(* JSON column: document, observed text, observed Convert(text) (None = error) *)
| CJson (j : C28Json.json) (txt : bytes) (back : option C28Json.json)
| CMeta (cols : list (colty * (bool * bool * bool) * (Z * Z * Z * Z * Z))).

Definition on_text (txt : option bytes) (f : bytes -> option Z) : option Z :=
  match txt with Some t => f t | None => None end.

Definition ok (c : case) : bool :=
  match c with
  | CInt t v txt back => bytes_eqb (int_sql_text t v) txt && oz_eqb (int_convert_text t txt) back
  | CDec col p s v txt back =>
      bytes_eqb (dec_sql_text col s v) txt && option_eqb dec_eqb (dec_convert_text col p s txt) back
  | CYear y txt back => bytes_eqb (year_sql_text y) txt && oz_eqb (year_convert_text txt) back
  | CBit n v txt back => bytes_eqb (bit_sql_text n v) txt && oz_eqb (bit_convert_text n txt) back
  | CDate x txt back => obytes_eqb (date_sql_text x) txt && oz_eqb (on_text txt date_convert_text) back
  | CDatetime n x txt back =>
      obytes_eqb (datetime_sql_text (N.to_nat n) x) txt &&
      oz_eqb (on_text txt (datetime_convert_text (N.to_nat n))) back
  | CTime x txt back => bytes_eqb (time_sql_text x) txt && oz_eqb (time_convert_text txt) back
  | CEnum names i txt back => bytes_eqb (enum_sql_text names i) txt && oz_eqb (enum_convert_text names txt) back
  | CSet names b txt back => bytes_eqb (set_sql_text names b) txt && oz_eqb (set_convert_text names txt) back
  | CStr t s runes announced txt back =>
      (N.of_nat (rune_count s) =? runes)%N && (N.of_nat (str_announced t) =? announced)%N && obytes_eqb (str_sql_text t s) (Some txt) && obytes_eqb (str_convert_text t txt) back
  | CBinRow bitmap nulls items =>
      bytes_eqb (null_bitmap nulls) bitmap &&
      forallb (fun i => Bool.eqb (bitmap_is_null bitmap i) (nth i nulls false)) (seq 0 (length nulls)) &&
      forallb bin_ok items
  | CJson j txt back =>
      bytes_eqb (C28JsonWire.json_sql_text j) txt &&
      match C28JsonWire.json_convert_text txt, back with
      | Some a, Some b => C28JsonWire.json_same a b
      | None, None => true
      | _, _ => false
      end
  | CMeta cols =>
      forallb (fun x => let '(c, (nn, pk, ai), (ty, fl, dec, len, cs)) := x in
                 (meta_type c =? ty) && (meta_flags c nn pk ai =? fl) && (meta_decimals c =? dec) &&
                 (meta_length c =? len) && (meta_charset c =? cs)) cols
  end.

Definition mismatches (cs : list (N * case)) : list N :=
  map fst (filter (fun p => negb (ok (snd p))) cs).
