(* Correspondence definitions for C18: run the foreign key model on the histories the engine ran. *)
From Coq Require Import List ZArith Bool.
Import ListNotations.
From GMS Require Import Store.C18FK.
Open Scope Z_scope.

Definition V (z : Z) : option Z := Some z.
Definition NUL : option Z := None.
Definition R (k : Z) (a b : option Z) : row := (k, a, b).
Definition FK (c : nat) (col : bool) (p : nat) (d u : action) : fk := mkFk c col p d u.

(* statement, observed error (None = ok), observed tables afterwards *)
(* EvSkip: a statement of a shape the model does not cover (the driver marks exactly: DELETE of a row that has two or
   more ON DELETE CASCADE children in its own table, where the engine skips rows while iterating the table it is
   deleting from); the run continues from the observed tables *)
Inductive ev := Ev (s : stmt) (e : option err) (d : db) | EvSkip (d : db).
Inductive case := Case (ntab : nat) (fks : list fk) (h : list ev).

Definition row_eqb (a b : row) : bool :=
  (rid a =? rid b) && opt_eqb (get_col false a) (get_col false b) && opt_eqb (get_col true a) (get_col true b).
Fixpoint list_eqb {A} (f : A -> A -> bool) (a b : list A) : bool :=
  match a, b with [], [] => true | x :: a', y :: b' => f x y && list_eqb f a' b' | _, _ => false end.
Definition db_eqb : db -> db -> bool := list_eqb (list_eqb row_eqb).
Definition err_eqb (a b : option err) : bool :=
  match a, b with
  | None, None => true | Some EFk, Some EFk => true | Some EDup, Some EDup => true | Some EDepth, Some EDepth => true
  | _, _ => false
  end.

Fixpoint ok_from (fks : list fk) (d : db) (h : list ev) : bool :=
  match h with
  | [] => true
  | Ev s e dobs :: h' =>
      let '(d', e') := exec fks d s in
      err_eqb e e' && db_eqb d' dobs && ok_from fks dobs h'
  | EvSkip dobs :: h' => ok_from fks dobs h'
  end.

Definition ok (c : case) : bool := match c with Case n fks h => ok_from fks (repeat [] n) h end.

Definition mismatches (cs : list (N * case)) : list N :=
  map fst (filter (fun p => negb (ok (snd p))) cs).
