(* Correspondence for C16: replay a recorded history on the model and compare, after every step, the model's
   partitions / raw index storage / index lookups with what the implementation showed. *)
From Coq Require Import List NArith ZArith Bool Arith.
Import ListNotations.
From GMS Require Import Store.C16Index.

(* a total order on rows, used only to canonicalise bags *)
Fixpoint row_tcmp (a b : row) : comparison :=
  match a, b with
  | [], [] => Eq
  | [], _ => Lt
  | _, [] => Gt
  | x :: a', y :: b' => match val_cmp x y with Eq => row_tcmp a' b' | c => c end
  end.

Fixpoint ins_row (x : row) (l : list row) : list row :=
  match l with
  | [] => [x]
  | y :: t => match row_tcmp x y with Gt => y :: ins_row x t | _ => x :: y :: t end
  end.
Definition sort_bag (l : list row) : list row := fold_right ins_row [] l.

Fixpoint rows_eqb (a b : list row) : bool :=
  match a, b with
  | [], [] => true
  | x :: a', y :: b' => row_eqb x y && rows_eqb a' b'
  | _, _ => false
  end.

Definition bag_eqb (a b : list row) : bool := rows_eqb (sort_bag a) (sort_bag b).

Fixpoint parts_eqb (exact : bool) (a b : list (list row)) : bool :=
  match a, b with
  | [], [] => true
  | x :: a', y :: b' => (if exact then rows_eqb x y else bag_eqb x y) && parts_eqb exact a' b'
  | _, _ => false
  end.

(* ranges on the first key column of an index *)
Inductive range := REq (v : val) | RLt (v : val) | RGe (v : val) | RNull | RNotNull | RAll.

Definition in_range (g : range) (k : row) : bool :=
  let x := col 0 k in
  match g with
  | REq v => match x with VNull => false | _ => match val_cmp x v with Eq => true | _ => false end end
  | RLt v => match x with VNull => false | _ => match val_cmp x v with Lt => true | _ => false end end
  | RGe v => match x with VNull => false | _ => match val_cmp x v with Lt => false | _ => true end end
  | RNull => match x with VNull => true | _ => false end
  | RNotNull => match x with VNull => false | _ => true end
  | RAll => true
  end.

Definition obs_index := (name * list entry)%type.
Definition obs_state := (list (list row) * list obs_index)%type.
Definition obs_lookup := (name * range * list row)%type.
(* operation, did the implementation panic, state after, lookups after *)
Definition stepc := (op * bool * obs_state * list obs_lookup)%type.
(* number of partitions, primary key ordinals, hash partition of every row ever inserted, steps *)
Definition case : Type := (nat * list nat * list (row * nat) * list stepc)%type.

Definition hp_of (tbl : list (row * nat)) (r : row) : nat :=
  match find (fun x => row_eqb (fst x) r) tbl with Some x => snd x | None => 0 end.

Definition opt_row (o : option row) : row := match o with Some r => VInt 1 :: r | None => [VInt 0] end.

(* one storage row in comparable form: key, location (keyed tables: rows sit at deterministic places), target row *)
Definition canon_entry (exact : bool) (ps : list (list row)) (e : entry) : row :=
  fst e ++ (if exact then [VInt (Z.of_nat (fst (snd e))); VInt (Z.of_nat (snd (snd e)))] else [])
        ++ opt_row (row_at ps (snd e)).

Fixpoint nodup_locs (l : list loc) : bool :=
  match l with
  | [] => true
  | x :: t => negb (existsb (loc_eqb x) t) && nodup_locs t
  end.

Fixpoint sorted_entries (n : nat) (l : list entry) : bool :=
  match l with
  | x :: ((y :: _) as t) => match key_cmp n (fst x) (fst y) with Gt => false | _ => true end && sorted_entries n t
  | _ => true
  end.

Fixpoint sorted_rows (cs : list nat) (l : list row) : bool :=
  match l with
  | x :: ((y :: _) as t) => match row_cmp cs x y with Lt => true | _ => false end && sorted_rows cs t
  | _ => true
  end.

Definition index_ok (exact : bool) (td : tdata) (ops : list (list row)) (oi : obs_index) : bool :=
  let '(nm, es) := oi in
  match def_named (defs td) nm with
  | None => false
  | Some d =>
      bag_eqb (map (canon_entry exact (parts td)) (stor td nm)) (map (canon_entry exact ops) es)
      && nodup_locs (map snd es) && sorted_entries (nsort d) es
  end.

(* Keyed tables: sortRows spreads the rows over the partitions in primary key order, so with ONE partition every row
   sits at a deterministic place and locations are compared exactly.  With several partitions the partition SIZES
   depend on edits the driver cannot see in the before/after difference (a REPLACE / ON DUPLICATE KEY UPDATE that
   rewrites an identical row removes it where sortRows had put it and re-appends it to its hash partition), so the
   flattened primary-key order and the dereferenced storage (key + target row) are compared instead.  Keyless
   tables never move rows: per-partition bags. *)
Definition state_ok (td : tdata) (o : obs_state) : bool :=
  let '(ops, ois) := o in
  let keyed := match pkcols td with [] => false | _ => true end in
  let exact := keyed && Nat.eqb (length (parts td)) 1 in
  (if keyed && negb exact then rows_eqb (concat (parts td)) (concat ops) && Nat.eqb (length (parts td)) (length ops)
   else parts_eqb exact (parts td) ops)
  && (if keyed then sorted_rows (pkcols td) (concat ops) else true)
  && Nat.eqb (length (defs td)) (length ois)
  && forallb (index_ok exact td ops) ois.

Definition lookup_ok (td : tdata) (l : obs_lookup) : bool :=
  let '(nm, g, rows) := l in bag_eqb (index_lookup td nm (in_range g)) rows.

(* evaluation aid: tabulate the storage function once per step (vm_compute is strict in the table), so that the
   closure chain does not grow with the history.  Extensionally the identity on every name that can hold storage
   (storage keys and index names). *)
Definition freeze (td : tdata) : tdata :=
  let names := skeys td ++ map (fun kd => iname (snd kd)) (defs td) in
  let tbl := map (fun nm => (nm, stor td nm)) names in
  {| parts := parts td; pkcols := pkcols td; defs := defs td;
     stor := fun nm => match find (fun x => name_eqb (fst x) nm) tbl with Some x => snd x | None => [] end;
     skeys := skeys td |}.

Fixpoint check (hp : row -> nat) (td : tdata) (steps : list stepc) : bool :=
  match steps with
  | [] => true
  | (o, panicked, obs, lks) :: t =>
      match step hp td o with
      | Panic => panicked
      | Ok td1 => let td' := freeze td1 in
                  negb panicked && state_ok td' obs && forallb (lookup_ok td') lks && check hp td' t
      end
  end.

Definition ok (c : case) : bool :=
  let '(np, pks, tbl, steps) := c in check (hp_of tbl) (init np pks) steps.

Definition mismatches (cs : list (N * case)) : list N :=
  map fst (filter (fun p => negb (ok (snd p))) cs).
