(* Correspondence definitions for C42: the model of plan.IsReadOnly evaluated on the analyzed plans the engine produced,
   the hand-written [writes] specification checked against what the read-write engine did, and the engine-level
   read-only decision. *)
From Coq Require Import List String NArith Bool.
Import ListNotations.
From GMS Require Import Plan.C42Base gen.C42Flags Plan.ReadOnly.
Open Scope string_scope.

Inductive obs : Type :=
| OBool (b : bool)     (* plan.IsReadOnly(analyzed) returned b *)
| OPanic               (* it panicked *)
| OForeign             (* the plan contains a node type from outside sql/plan: not modelled *)
| OAnalysisFailed.     (* the statement did not analyze (no plan) *)

(* plan tree, observation, "the read-write engine changed the database", "the read-only engine answered ErrReadOnly",
   "the read-only engine accepted the statement" *)
Definition case : Type := (tree * obs * bool * bool * bool)%type.

(* computable version of ReadOnlyProofs.exec_node: does executing the plan execute a writing node? *)
Fixpoint exec_writes (fuel : nat) (t : tree) : bool :=
  match fuel with
  | O => true
  | S f =>
    node_writes t ||
    match find_entry (kind_of t) entries with
    | Some e => existsb (fun fl => existsb (exec_writes f) (field t fl)) (required e)
    | None => true
    end
  end.

Definition fuel : nat := 200.

Definition ok (c : case) : bool :=
  let '(t, o, changed, rejected, accepted) := c in
  match o with
  | OAnalysisFailed => true
  | OForeign => true
  | OPanic => match is_ro fuel t with Panic => true | _ => false end
  | OBool b =>
      match is_ro fuel t with
      | Ro b' => Bool.eqb b b'
                 (* the specification table is not too small: a plan that changed the database executes a writing node *)
                 && (negb changed || exec_writes fuel t)
                 (* engine.go readOnlyCheck: rejected with ErrReadOnly iff the flag is false; never accepted then *)
                 && Bool.eqb rejected (negb b')
                 && (b' || negb accepted)
      | _ => false
      end
  end.

Definition mismatches (cs : list (N * case)) : list N :=
  map fst (filter (fun p => negb (ok (snd p))) cs).
