(* Correspondence definitions for C42: the model of plan.IsReadOnly evaluated on the analyzed plans the engine produced,
   the hand-written [writes] specification checked against what the read-write engine did, and the engine-level
   read-only decision. *)
From Coq Require Import List String NArith Bool.
Import ListNotations.
From GMS Require Import Plan.C42Base gen.C42Flags Plan.ReadOnly Plan.C42Validators.
Open Scope string_scope.

Inductive obs : Type :=
| OBool (b : bool)     (* plan.IsReadOnly(analyzed) returned b *)
| OPanic               (* it panicked *)
| OForeign             (* the plan contains a node type from outside sql/plan: not modelled *)
| OAnalysisFailed.     (* the statement did not analyze (no plan) *)

(* plan tree, observation, "the read-write engine changed the database", "the read-only engine answered ErrReadOnly",
   "the read-only engine accepted the statement" *)
(* One recorded invocation of an analyzer validator: which rule, (ctx.GetTransaction() != nil, its IsReadOnly(),
   scope.EnforcesReadOnly()), the input node as the walk sees it, and the code of the error the REAL rule returned
   (0 none, 1 ErrReadOnlyTransaction, 2 ErrReadOnlyDatabase, 3 ErrProcedureCallAsOfReadOnly, 9 anything else). *)
Inductive vwhich : Type := VTxn | VDb.
Definition vcall : Type := (vwhich * (bool * bool * bool) * vt * N)%type.

Definition model_call (c : vcall) : N :=
  let '(w, (has_txn, txn_ro, enforce), t, _) := c in
  match w with VTxn => txn_rule has_txn txn_ro enforce t | VDb => db_rule enforce t end.

Definition call_ok (c : vcall) : bool := let '(_, _, _, observed) := c in N.eqb (model_call c) observed.

(* the engine's decision on the statement (code of the statement's error) against the model's verdicts on the inputs the
   rule received while the statement ran.  Sound: if the model rejects a recorded input, the statement failed with the
   rule's error.  Complete: if the statement failed with the rule's error, the model rejects a recorded input -- except
   under a CALL root: the statements of a stored body are analyzed while the procedure runs, literal INSERT and
   single-table UPDATE / DELETE through getBatchesForNode's short-cut batches, which refer to the rules directly and
   cannot be recorded (the top-level short-cut inputs are rebuilt by the driver). *)
Definition rejects (w : vwhich) (code : N) (c : vcall) : bool :=
  let '(w', _, _, _) := c in
  match w, w' with VTxn, VTxn | VDb, VDb => N.eqb (model_call c) code | _, _ => false end.
Definition under_call (c : vcall) : bool := let '(_, _, t, _) := c in String.eqb (vkind t) "Call".
Definition decision_ok (w : vwhich) (code : N) (stmt_code : N) (calls : list vcall) : bool :=
  implb (existsb (rejects w code) calls) (N.eqb stmt_code code)
  && implb (N.eqb stmt_code code) (existsb (rejects w code) calls || existsb under_call calls).

(* invocations under the read-write engine; (statement error code, invocations) inside START TRANSACTION READ ONLY;
   the same with the current database read-only *)
Definition vinfo : Type := (list vcall * (N * list vcall) * (N * list vcall))%type.

Definition vinfo_ok (v : vinfo) : bool :=
  let '(rw, (tcode, tcalls), (dcode, dcalls)) := v in
  forallb call_ok rw && forallb call_ok tcalls && forallb call_ok dcalls
  && decision_ok VTxn 1 tcode tcalls && decision_ok VDb 2 dcode dcalls.

Definition case : Type := (tree * obs * bool * bool * bool * vinfo)%type.

(* computable version of ReadOnlyProofs.exec_node: does executing the plan execute a writing node? *)
Fixpoint exec_writes (fuel : nat) (t : tree) : bool :=
  match fuel with
  | O => true
  | S f =>
    node_writes t ||
    match find_entry (kind_of t) entries with
    | Some e => existsb (fun fl => existsb (exec_writes f) (field t fl)) (required e)
    | None => true
    end
  end.

Definition fuel : nat := 200.

Definition ok (c : case) : bool :=
  let '(t, o, changed, rejected, accepted, v) := c in
  vinfo_ok v &&
  match o with
  | OAnalysisFailed => true
  | OForeign => true
  | OPanic => match is_ro fuel t with Panic => true | _ => false end
  | OBool b =>
      match is_ro fuel t with
      | Ro b' => Bool.eqb b b'
                 (* the specification table is not too small: a plan that changed the database executes a writing node *)
                 && (negb changed || exec_writes fuel t)
                 (* engine.go readOnlyCheck: rejected with ErrReadOnly iff the flag is false; never accepted then *)
                 && Bool.eqb rejected (negb b')
                 && (b' || negb accepted)
      | _ => false
      end
  end.

Definition mismatches (cs : list (N * case)) : list N :=
  map fst (filter (fun p => negb (ok (snd p))) cs).
