(* Correspondence definitions for C13: as Corr/C14.v, but the whole OkResult is compared: a step records the statement,
   the engine's answer (None = duplicate-key error, Some (RowsAffected, UpdateInfo.Matched)) and the stored rows
   afterwards; every step starts from the rows observed after the previous one (the table starts empty).
   Steps on keyless tables are judged twice: by the editor model (impl_exec) and by the multiset reference (ms_exec). *)
From Coq Require Import List NArith ZArith Bool.
Import ListNotations.
From GMS Require Import Store.C14Editor Store.C13Keyless Corr.C14.

Definition step : Type := (stmt * option (N * N) * list row * bool)%type.
Definition case : Type := (schema * list step)%type.

Definition outcome_ok (o : outcome) (obs : option (N * N)) : bool :=
  match o, obs with
  | OOk a m, Some (a', m') => N.eqb a a' && N.eqb m m'
  | ODupKey, None => true
  | _, _ => false
  end.

Definition step_ok (sch : schema) (pre : list row) (s : step) : bool :=
  let '(st, obs, post, ordered) := s in
  let '(o, rows') := impl_exec sch pre st in
  outcome_ok o obs && (if ordered then rows_eqb rows' post else bag_eqb rows' post).

(* keyless tables (no unique index, integer / binary-collated columns: the fragment of C13_keyless_editor_refines_multiset)
   are ALSO compared with the declarative multiset reference ms_exec (Store/C13Keyless.v): counts and the bag of rows *)
Definition ms_applies (sch : schema) : bool :=
  keyless sch && (match s_uniq sch with [] => true | _ => false end) &&
  forallb (fun c => match c with CBin => true | CCi => false end) (s_coll sch).

Definition step_ok_ms (sch : schema) (pre : list row) (s : step) : bool :=
  let '(st, obs, post, ordered) := s in
  if ms_applies sch then
    let '(o, rows') := ms_exec sch pre st in outcome_ok o obs && bag_eqb rows' post
  else true.

Fixpoint steps_ok (sch : schema) (pre : list row) (steps : list step) : bool :=
  match steps with
  | [] => true
  | s :: steps' => step_ok sch pre s && step_ok_ms sch pre s && steps_ok sch (snd (fst s)) steps'
  end.

Definition ok (c : case) : bool := let '(sch, steps) := c in steps_ok sch [] steps.

Definition mismatches (cs : list (N * case)) : list N :=
  map fst (filter (fun p => negb (ok (snd p))) cs).
