(* Correspondence definitions for C20: a case is a history of statements of up to three sessions on one AUTO_INCREMENT
   table (INSERT / INSERT IGNORE / REPLACE / INSERT ... ON DUPLICATE KEY UPDATE, DELETE, ALTER TABLE AUTO_INCREMENT, UPDATE
   of the id, SELECT LAST_INSERT_ID(n), BEGIN / COMMIT / ROLLBACK), each with what the engine showed afterwards:
   succeeded?, OkResult.InsertID, LAST_INSERT_ID() of EVERY session, and - through the acting session - the table's next
   AUTO_INCREMENT value (Table.PeekNextAutoIncrementValue) and the stored ids in ascending order.  The model runs the whole
   history from the initial world (the two table-data copies of INSERT IGNORE are modelled; see [murky] for the one stop). *)
From Coq Require Import List ZArith Bool.
Import ListNotations.
From GMS Require Import Store.C20AutoInc.
Open Scope Z_scope.

Definition obs : Type := (bool * Z * list Z * Z * list Z)%type.
(* the column type's maximum, then the history *)
Definition case : Type := (Z * list (wevent * obs))%type.

Fixpoint zs_eqb (a b : list Z) : bool :=
  match a, b with
  | [], [] => true
  | x :: a', y :: b' => (x =? y) && zs_eqb a' b'
  | _, _ => false
  end.

Fixpoint zinsert (x : Z) (l : list Z) : list Z :=
  match l with [] => [x] | y :: l' => if x <=? y then x :: l else y :: zinsert x l' end.
Definition zsort (l : list Z) : list Z := fold_right zinsert [] l.

Definition ev_sess (e : wevent) : nat :=
  match e with WStmt i _ => i | WBegin i => i | WCommit i => i | WRollback i => i end.

Definition step_ok (tmax : Z) (w : world) (e : wevent) (o : obs) : bool * world :=
  let '(okb, iid, lids, c, stored) := o in
  let '(w', (okm, iidm)) := wstep tmax w e in
  let t := wtable w' (ev_sess e) in
  (Bool.eqb okb okm && (if okb then iid =? iidm else true) &&
   zs_eqb lids (map (fun j => nth j (wlid w') 0) (seq 0 (length lids))) &&
   (c =? t_ctr t) && zs_eqb stored (zsort (map fst (t_rows t))), w').

(* Not modelled: a REPLACE / ON DUPLICATE KEY UPDATE statement in which two rows touch the SAME primary key (the id of the
   row itself, of the row it conflicts with by primary key or by u).  The edit accumulator keeps deletes in a map keyed by
   primary key: a second delete of a key overwrites the first entry, and GetByCols then finds the stale row still in the
   table data.  The comparison of such a history stops at that statement. *)
Fixpoint murky_run (tmax : Z) (m : imode) (s : st) (specs : list (option Z * Z)) (touched : list Z) : bool :=
  match specs with
  | [] => false
  | sp :: r =>
      let '(id, s1) := eval_id s (fst sp) in
      let tgt := id :: (match find (fun r => fst r =? id) (rows s1) with Some x => [fst x] | None => [] end) ++
                       (match min_u (snd sp) (rows s1) None with Some x => [fst x] | None => [] end) in
      if existsb (fun k => existsb (Z.eqb k) touched) tgt then true
      else match row_step tmax m s sp with
           | Some s' => murky_run tmax m s' r (tgt ++ touched)
           | None => false
           end
  end.

Definition murky (tmax : Z) (w : world) (e : wevent) : bool :=
  match e with
  | WStmt i (EInsert m specs) =>
      match m with
      | MReplace | MOdku _ => murky_run tmax m (begin_insert (st_of (wtable w i) 0) specs) specs []
      | _ => false
      end
  | _ => false
  end.

Fixpoint run_ok (tmax : Z) (w : world) (c : list (wevent * obs)) : bool :=
  match c with
  | [] => true
  | (e, o) :: c' => if murky tmax w e then true else let '(b, w') := step_ok tmax w e o in b && run_ok tmax w' c'
  end.

Definition ok (c : case) : bool := run_ok (fst c) winit (snd c).

Definition mismatches (cs : list (N * case)) : list N :=
  map fst (filter (fun p => negb (ok (snd p))) cs).
