(* Correspondence definitions for C20: a case is a history of statements on one AUTO_INCREMENT table, each with what the
   engine showed afterwards: succeeded?, OkResult.InsertID, LAST_INSERT_ID(), the table's next AUTO_INCREMENT value
   (Table.PeekNextAutoIncrementValue) and the stored ids in ascending order.  The model runs the whole history from
   the initial state. *)
From Coq Require Import List ZArith Bool.
Import ListNotations.
From GMS Require Import Store.C20AutoInc.
Open Scope Z_scope.

Definition obs : Type := (bool * Z * Z * Z * list Z)%type.
(* the column type's maximum, then the history *)
Definition case : Type := (Z * list (event * obs))%type.

Fixpoint zs_eqb (a b : list Z) : bool :=
  match a, b with
  | [], [] => true
  | x :: a', y :: b' => (x =? y) && zs_eqb a' b'
  | _, _ => false
  end.

Fixpoint zinsert (x : Z) (l : list Z) : list Z :=
  match l with [] => [x] | y :: l' => if x <=? y then x :: l else y :: zinsert x l' end.
Definition zsort (l : list Z) : list Z := fold_right zinsert [] l.

Definition step_ok (tmax : Z) (s : st) (e : event) (o : obs) : bool * st :=
  let '(okb, iid, l, c, stored) := o in
  let '(s', (okm, iidm)) := step tmax s e in
  (Bool.eqb okb okm && (if okb then iid =? iidm else true) && (l =? lid s') && (c =? ctr s') && zs_eqb stored (zsort (ids s')), s').

(* Not modelled: an INSERT IGNORE that skips a row (duplicate id or duplicate u) whose explicit id exceeds the counter.  The engine then works on two copies of the table data with different counters (the session's,
   raised by GetNextAutoIncrementValue, and the accumulator's, which wins at the end of the statement unless no row was
   committed before).  The comparison of such a history stops at that statement. *)
Definition risky (s : st) (e : event) : bool :=
  match e with
  | EInsert true specs =>
      existsb (fun sp => match fst sp with Some k => (ctr s <? k) && (snd sp || existsb (Z.eqb k) (ids s)) | None => false end) specs
  | _ => false
  end.

Fixpoint run_ok (tmax : Z) (s : st) (c : list (event * obs)) : bool :=
  match c with
  | [] => true
  | (e, o) :: c' => if risky s e then true else let '(b, s') := step_ok tmax s e o in b && run_ok tmax s' c'
  end.

Definition ok (c : case) : bool := run_ok (fst c) init (snd c).

Definition mismatches (cs : list (N * case)) : list N :=
  map fst (filter (fun p => negb (ok (snd p))) cs).
