(* Correspondence for C38: sequential operation sequences run on the real sql.LockSubsystem are replayed
   through the atomic sequential specification (Sys/Locks.v seq_step); every return value, GetLockState of
   every name of the universe after every call, and the session's own lock set are compared. *)
From Coq Require Import List NArith ZArith Bool.
Import ListNotations.
From GMS Require Import Base.CorrLib Sys.Locks Sys.C38Sql.
Open Scope N_scope.

Definition ret_eqb (a b : ret) : bool :=
  match a, b with
  | RBool x, RBool y => Bool.eqb x y
  | ROk, ROk | RTimeout, RTimeout | RNotExist, RNotExist | RNotOwned, RNotOwned => true
  | RCount x, RCount y => N.eqb x y
  | RState a1 a2, RState b1 b2 => N.eqb a1 b1 && N.eqb a2 b2
  | _, _ => false
  end.

(* session lock sets (BaseSession.locks) as an association list session -> names *)
Fixpoint ss_get (ss : list (N * list N)) (t : N) : list N :=
  match ss with [] => [] | (k, v) :: r => if N.eqb t k then v else ss_get r t end.

Definition is_free_for (t : N) (l : lstate) : bool :=
  match l with LNone | LFree => true | LHeld _ _ => false end.

Definition next_sset (t : N) (o : op) (before after : seq_state) (r : ret) (cur : list N) : list N :=
  match o with
  | OTry n | OLock n =>
      (* AddLock only on a first acquisition (Owner was 0) *)
      if is_free_for t (sget before n) && ret_eqb r (acquired (match o with OLock _ => true | _ => false end))
      then add_name n cur else cur
  | OUnlock n =>
      (* DelLock when the count reached zero *)
      if ret_eqb r ROk && is_free_for t (sget after n) then del_name n cur else cur
  | ORelAll => cur         (* ReleaseAll never calls DelLock *)
  | OState _ => cur
  end.

(* one recorded call: session, operation, returned value, GetLockState of names 1..K afterwards (as
   (state, owner) pairs), the session's lock set afterwards (IterLocks, ascending) *)
Inductive stobs := St (st owner : N).
Inductive item := It (t : N) (o : op) (r : ret) (states : list stobs) (myset : list N).
(* one SQL statement (or a client disconnect) of session t with the value the client received *)
Inductive sitem := SI (t : N) (o : sqlop) (v : option sqlval).
Inductive case := Case (l : list item) | SqlCase (l : list sitem).

Fixpoint states_ok (s : seq_state) (n : N) (obs : list stobs) : bool :=
  match obs with
  | [] => true
  | St st ow :: r => ret_eqb (state_of (sget s n)) (RState st ow) && states_ok s (n + 1) r
  end.

Definition subsetN (a b : list N) : bool := forallb (fun x => existsb (N.eqb x) b) a.

Fixpoint replay (s : seq_state) (ss : list (N * list N)) (l : list item) : bool :=
  match l with
  | [] => true
  | It t o r states myset :: rest =>
      let cur := ss_get ss t in
      let '(s', r') := seq_step t o cur s in
      let cur' := next_sset t o s s' r' cur in
      ret_eqb r' r && states_ok s' 1 states && subsetN cur' myset && subsetN myset cur' &&
      replay s' ((t, cur') :: ss) rest
  end.

Definition sqlval_eqb (a b : option sqlval) : bool :=
  match a, b with
  | None, None | Some VNull, Some VNull => true
  | Some (VInt x), Some (VInt y) => N.eqb x y
  | _, _ => false
  end.

(* the LockSubsystem call behind a statement, for the session-set bookkeeping *)
Definition under (o : sqlop) : option op :=
  match o with
  | SGet n tmo => Some (if Z.eqb tmo 0 then OTry n else OLock n)
  | SRel n => Some (OUnlock n)
  | _ => None
  end.

Fixpoint sreplay (s : seq_state) (ss : list (N * list N)) (l : list sitem) : bool :=
  match l with
  | [] => true
  | SI t o v :: rest =>
      let cur := ss_get ss t in
      let '(s', v') := sql_step t o cur s in
      let cur' := match o with
                  | SDisconnect => []
                  | _ => match under o with
                         | Some u => next_sset t u s s' (snd (seq_step t u cur s)) cur
                         | None => cur
                         end
                  end in
      sqlval_eqb v' v && sreplay s' ((t, cur') :: ss) rest
  end.

Definition ok (c : case) : bool :=
  match c with
  | Case l => replay [] [] l
  | SqlCase l => sreplay [] [] l
  end.

Definition mismatches (cs : list (N * case)) : list N :=
  map fst (filter (fun p => negb (ok (snd p))) cs).
