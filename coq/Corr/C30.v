(* Correspondence definitions for C30: evaluate the RangeMap model on the cases the implementation ran. *)
From Coq Require Import List NArith Bool.
Import ListNotations.
From GMS Require Import Codec.Charset.
Open Scope N_scope.

(* CTable: the table translated from the source text against the table dumped from the running program.
   COp: operation 0 Decode, 1 Encode (with hidden capacity content), 2 EncodeReplaceUnknown, 3 DecodeRune,
   4 EncodeRune; observed result Ok bytes | Fail (ok = false) | Panic (recovered). *)
Inductive case : Type :=
| CTable (translated dumped : rangemap)
| COp (rm : rangemap) (op : N) (s hid : list N) (obs : res (list N)).

Definition res_eqb (a b : res (list N)) : bool :=
  match a, b with
  | Ok x, Ok y => ns_eqb x y
  | Fail, Fail => true
  | Panic, Panic => true
  | _, _ => false
  end.

Definition run (rm : rangemap) (op : N) (s hid : list N) : res (list N) :=
  match op with
  | 0 => decode rm s
  | 1 => encode rm s hid
  | 2 => encode_replace_unknown rm s
  | 3 => decode_rune rm s
  | _ => encode_rune rm s
  end.

Definition ok (c : case) : bool :=
  match c with
  | CTable a b => map_eqb a b
  | COp rm op s hid obs => res_eqb (run rm op s hid) obs
  end.

Definition mismatches (cs : list (N * case)) : list N :=
  map fst (filter (fun p => negb (ok (snd p))) cs).
