(* Correspondence for C36: the registries at quiescence.  The driver reports, for one concurrent batch, how
   many queries each session ran and what it observed after all sessions finished: the deltas of
   Threads_connected and Threads_running, the number of process-list entries, the delta of Questions.
   The model runs the canonical schedule of the same registry events (Sys/C36ReadOnly.v all_events; by
   registry_consistent / counter_schedule_independent the interleaving does not matter). *)
From Coq Require Import List NArith ZArith Bool.
Import ListNotations.
From GMS Require Import Sys.ProcessList Sys.C36ReadOnly.
Open Scope N_scope.

Inductive case := Case (queries : list N) (tcd trd : Z) (nprocs : N) (questions : Z) (ncaches : N).

Definition ok (c : case) : bool :=
  let 'Case ksN tcd trd np q nc := c in
  let ks := map N.to_nat ksN in
  let es := all_events 1 ks in
  let s := run init es in
  match srun sinit es with
  | Some sp =>
      Z.eqb (tc s) tcd && Z.eqb (tr s) trd && N.eqb (N.of_nat (length (processes s))) np &&
      Z.eqb (Z.of_nat (fold_right Nat.add O ks)) q &&
      N.eqb nc 0 &&   (* every cache disposed: C36_cache_registry_consistent *)
      match sess sp with [] => true | _ => false end
  | None => false
  end.

Definition mismatches (cs : list (N * case)) : list N :=
  map fst (filter (fun p => negb (ok (snd p))) cs).
