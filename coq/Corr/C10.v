(* Correspondence definitions for C10: the modelled string-function cores panic exactly when the engine did. *)
From Coq Require Import List ZArith Bool.
Import ListNotations.
From GMS Require Import Expr.C10Strings.
Open Scope Z_scope.

Inductive case : Type :=
| CSubstring (n start len : Z) (panicked : bool)   (* SELECT SUBSTRING(str, start, len), n = rune count *)
| CLeft (n len : Z) (panicked : bool)
| CRight (n len : Z) (panicked : bool)
| CInsert (n p l : Z) (panicked : bool)             (* n = byte length *)
| CPad (n m length : Z) (panicked : bool).          (* LPAD / RPAD, byte lengths *)

Definition is_panic (o : outcome) : bool := match o with Panic => true | _ => false end.

Definition ok (c : case) : bool :=
  match c with
  | CSubstring n s l p => Bool.eqb (is_panic (substring n s l)) p
  | CLeft n l p => Bool.eqb (is_panic (left n l)) p
  | CRight n l p => Bool.eqb (is_panic (right n l)) p
  | CInsert n a b p => Bool.eqb (is_panic (insert n a b)) p
  | CPad n m l p => Bool.eqb (is_panic (pad n m l)) p
  end.

Definition mismatches (cs : list (N * case)) : list N :=
  map fst (filter (fun p => negb (ok (snd p))) cs).
