(* Correspondence definitions for C08: evaluate the model on the cases the implementation ran. *)
From Coq Require Import List NArith ZArith Bool.
Import ListNotations.
From GMS Require Import Base.CorrLib Expr.C08Agg Expr.C08GroupConcat.
Open Scope Z_scope.

(* observed value: NULL, an integer (also an integral float64), a float64 m * 2^e with 2^52 <= |m| < 2^53, NaN,
   engine panic *)
Inductive oval := ONull | OInt (z : Z) | OF (m e : Z) | ONaN | OPanic.

(* float64 f = m*2^e is within half a unit in the last place of num/den *)
Definition near (num den m e : Z) : bool :=
  if den <=? 0 then false
  else if e <? 0 then 2 * Z.abs (m * den - num * 2 ^ (- e)) <=? den
  else 2 * Z.abs (m * 2 ^ e * den - num) <=? 2 ^ e * den.

Definition agrees (w : wval) (o : oval) : bool :=
  match w, o with
  | WNull, ONull => true
  | WInt a, OInt b => a =? b
  | WQ n d, OInt b => (negb (d =? 0)) && (b * d =? n)
  | WQ n d, OF m e => near (if d <? 0 then - n else n) (Z.abs d) m e
  | WNaN, ONaN => true
  | WPanic, OPanic => true
  | _, _ => false
  end.

Inductive case :=
(* GROUP BY path: the inputs of one group; observed SUM, AVG, COUNT(x), COUNT( * ), MIN, MAX, BIT_AND, BIT_OR, BIT_XOR *)
| CGroup (xs : list v) (o_sum o_avg : oval) (o_count o_star : Z) (o_min o_max : oval) (o_and o_or o_xor : Z)
(* DECIMAL(12,2) column as integer cents (exact apd accumulator): observed SUM, MIN, MAX, COUNT of one group *)
| CDec (xs : list v) (o_sum o_min o_max : oval) (o_count : Z)
(* window path: function, buffered values and order keys (whole sorted buffer), partition [ps, pe), frame bounds,
   observed outputs of the partition's rows in window order *)
| CWin (f : wfn) (buf keys : list v) (ps pe : Z) (sb eb : bound) (obs : list oval)
(* GROUP_CONCAT([DISTINCT] s [ORDER BY id [DESC]] SEPARATOR sep) of one group: rows (id, s) in arrival order *)
| CGC (distinct : bool) (order : option bool) (sep : list N) (rs : list (Z * option (list N))) (obs : option (list N))
| CRange (f : wfn) (buf : list v) (pkeys : list Z) (ps pe : Z) (sb eb : bound) (obs : list oval).

Definition avg_w (a : option (Z * Z)) : wval := match a with None => WNull | Some (n, d) => WQ n d end.

Definition ok (c : case) : bool :=
  match c with
  | CGroup xs o_sum o_avg o_count o_star o_min o_max o_and o_or o_xor =>
    agrees (of_v (sum_buf xs)) o_sum && agrees (avg_w (avg_buf xs)) o_avg &&
    (count_buf xs =? o_count) && (count_star xs =? o_star) &&
    agrees (of_v (min_buf xs)) o_min && agrees (of_v (max_buf xs)) o_max &&
    (bit_and_buf xs =? o_and) && (bit_or_buf xs =? o_or) && (bit_xor_buf xs =? o_xor)
  | CDec xs o_sum o_min o_max o_count =>
    agrees (of_v (sum_buf xs)) o_sum && agrees (of_v (min_buf xs)) o_min && agrees (of_v (max_buf xs)) o_max &&
    (count_buf xs =? o_count)
  | CWin f buf keys ps pe sb eb obs =>
    let model := win_part f buf keys ps pe sb eb in
    if existsb (fun w => match w with WPanic => true | _ => false end) model
    then match obs with [OPanic] => true | _ => false end      (* a panic takes the whole query down *)
    else Nat.eqb (length model) (length obs) && forallb (fun p => agrees (fst p) (snd p)) (combine model obs)
  | CGC distinct order sep rs obs => option_eqb bytes_eqb (group_concat distinct order sep 1024 rs) obs
  | CRange f buf pkeys ps pe sb eb obs =>
    let model := range_part f buf pkeys ps pe sb eb in
    Nat.eqb (length model) (length obs) && forallb (fun p => agrees (fst p) (snd p)) (combine model obs)
  end.

Definition mismatches (cs : list (N * case)) : list N :=
  map fst (filter (fun p => negb (ok (snd p))) cs).
