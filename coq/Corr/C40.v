(* Correspondence definitions for C40: evaluate the model (with H := SHA-1) on the cases the implementation ran. *)
From Coq Require Import List NArith Bool.
Import ListNotations.
From GMS Require Import Sys.Auth Sys.C40Sha1.
Open Scope N_scope.

(* observed outcomes: validate: 0 = false, 1 = true, 2 = panic; login: accepted as / denied / panic.
   The model has no panic outcome any more: an observed panic never agrees with it. *)
Inductive obs : Type := OAccept (name host : bytes) | ODeny | OPanic.
Inductive case : Type :=
| CValidate (resp salt auth : bytes) (out : N)
| CHostPat (host pat : bytes) (out : bool)
| CSha (msg digest : bytes)
| CLogin (enabled : bool) (users : list user) (name host salt resp : bytes) (out : obs) (native_ok : bool).

Definition out_code (o : bool) : N := if o then 1 else 0.

Definition lr_eqb (a : login_result) (b : obs) : bool :=
  match a, b with
  | Accept n h, OAccept n' h' => beqb n n' && beqb h h'
  | Deny, ODeny => true
  | _, _ => false
  end.

Definition ok (c : case) : bool :=
  match c with
  | CValidate resp salt auth out => out_code (validate sha1 resp salt auth) =? out
  | CHostPat host pat out => Bool.eqb (matches_host_pattern host pat) out
  | CSha msg digest => beqb (sha1 msg) digest
  | CLogin en users name host salt resp out nok =>
      lr_eqb (login sha1 en users name host salt resp) out &&
      Bool.eqb (native_method_allowed en users name host) nok
  end.

Definition mismatches (cs : list (N * case)) : list N :=
  map fst (filter (fun p => negb (ok (snd p))) cs).
