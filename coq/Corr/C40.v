(* Correspondence definitions for C40: evaluate the model (with H := SHA-1) on the cases the implementation ran. *)
From Coq Require Import List NArith Bool.
Import ListNotations.
From GMS Require Import Sys.Auth Sys.C40Sha1.
Open Scope N_scope.

(* observed outcomes: validate: 0 = false, 1 = true, 2 = panic; login: Accept/Deny/LPanic *)
Inductive case : Type :=
| CValidate (resp salt auth : bytes) (out : N)
| CHostPat (host pat : bytes) (out : bool)
| CSha (msg digest : bytes)
| CLogin (enabled : bool) (users : list user) (name host salt resp : bytes) (out : login_result) (native_ok : bool).

Definition out_code (o : outcome bool) : N :=
  match o with Ret false => 0 | Ret true => 1 | Panic => 2 end.

Definition lr_eqb (a b : login_result) : bool :=
  match a, b with
  | Accept n h, Accept n' h' => beqb n n' && beqb h h'
  | Deny, Deny => true
  | LPanic, LPanic => true
  | _, _ => false
  end.

Definition ok (c : case) : bool :=
  match c with
  | CValidate resp salt auth out => out_code (validate sha1 resp salt auth) =? out
  | CHostPat host pat out => Bool.eqb (matches_host_pattern host pat) out
  | CSha msg digest => beqb (sha1 msg) digest
  | CLogin en users name host salt resp out nok =>
      lr_eqb (login sha1 en users name host salt resp) out &&
      Bool.eqb (native_method_allowed en users name host) nok
  end.

Definition mismatches (cs : list (N * case)) : list N :=
  map fst (filter (fun p => negb (ok (snd p))) cs).
