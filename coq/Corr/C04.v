(* Correspondence definitions for C04: evaluate the model on the cases the implementation ran. *)
From Coq Require Import List NArith ZArith Arith Bool.
Import ListNotations.
From GMS Require Import Base.CorrLib Phys.C04Sort Phys.C04TopNProofs.

Inductive case :=
(* direct calls: sort conditions, child rows, n, m; observed sort.Stable(RowSorter), GetTopNRows(n),
   topRowIter, LimitIter{n}(offsetIter{m}(rows)) *)
| CDirect (ks : list skey) (rows : list row) (n m : N) (o_sort o_topn o_top1 o_lo : list row)
(* engine query: sort conditions over the projected columns, the unordered result in scan order, LIMIT (if any),
   OFFSET, the observed ordered output; [exact] when the plan is Sort/TopN over a plain table scan, so that the
   tie order is determined by the model *)
| CEngine (ks : list skey) (bag : list row) (lim : option N) (m : N) (out : list row) (exact : bool)
(* engine query answered from an index (no Sort node): the index columns named by the plan, the qualifying rows in
   insertion order, LIMIT, OFFSET, observed output *)
| CIndex (ks : list skey) (idx : list idx_col) (ins : list row) (lim : option N) (m : N) (out : list row).

Definition rows_eqb : list row -> list row -> bool := list_eqb row_eqb.

Definition ok (c : case) : bool :=
  match c with
  | CDirect ks rows n m o_sort o_topn o_top1 o_lo =>
    let cmp := compare_rows ks in
    rows_eqb (ssort cmp rows) o_sort && rows_eqb (msort cmp rows) o_sort &&
    rows_eqb (topn (list_heap cmp) (N.to_nat n) rows) o_topn &&
    rows_eqb (top1 cmp rows) o_top1 &&
    rows_eqb (limit_iter 0 (Z.of_N n) (offset_iter (Z.of_N m) rows)) o_lo
  | CEngine ks bag lim m out exact =>
    let cmp := compare_rows ks in
    let n := match lim with Some n => N.to_nat n | None => length bag end in
    valid_slice cmp row_eqb bag (N.to_nat m) n out &&
    (if exact then
       rows_eqb out (match lim with
                     | Some n => plan_topn cmp (N.to_nat n) (N.to_nat m) bag
                     | None => plan_sort cmp None (Z.of_N m) bag
                     end)
     else true)
  | CIndex ks idx ins lim m out =>
    let n := match lim with Some n => N.to_nat n | None => length ins end in
    idx_guard ks idx && valid_slice (compare_rows ks) row_eqb ins (N.to_nat m) n out &&
    rows_eqb out (firstn n (skipn (N.to_nat m) (plan_index ks idx ins)))
  end.

Definition mismatches (cs : list (N * case)) : list N :=
  map fst (filter (fun p => negb (ok (snd p))) cs).
