(* Correspondence definitions for C44: the model of Type.Convert, of the registry and of SET / SELECT @@x histories over
   several sessions, evaluated on what the real engine did. *)
From Coq Require Import String ZArith NArith List Bool.
Import ListNotations.
From GMS Require Import Sys.C44SysVarsBase gen.C44Vars Sys.C44SysVars Sys.C44SysVarsStmt.
Open Scope string_scope.

Inductive read : Type :=
| RdGlobal (s : nat) (x : string)     (* session s: SELECT @@global.x *)
| RdSession (s : nat) (x : string)    (* SELECT @@session.x *)
| RdBare (s : nat) (x : string)       (* SELECT @@x *)
| RdUser (s : nat) (u : string)       (* SELECT @u *)
| RdPersist (s : nat) (x : string).   (* memory.Session.GetPersistedValue(x) of session s *)

Inductive robs : Type := OVal (v : gval) | OErr.

Inductive case : Type :=
| CConv (x : string) (v : gval) (o : res)          (* sysVar(x).GetType().Convert(v) called directly *)
| CReg (sv : sysvar)                                 (* one entry of the registry as the running engine has it *)
| CRegCount (n : N)                                  (* number of variables the running engine has *)
| CHist (steps : list (stmt * bool * list (read * robs))). (* statement, accepted?, reads made after it with results *)

Definition list_eqb {A} (eq : A -> A -> bool) : list A -> list A -> bool :=
  fix go (a b : list A) : bool :=
    match a, b with
    | [], [] => true
    | x :: r, y :: t => eq x y && go r t
    | _, _ => false
    end.

Definition vtype_eqb (a b : vtype) : bool :=
  match a, b with
  | TBool, TBool | TString, TString => true
  | TInt l h n, TInt l' h' n' => (l =? l')%Z && (h =? h')%Z && Bool.eqb n n'
  | TUint l h, TUint l' h' => (l =? l')%Z && (h =? h')%Z
  | TDouble l h, TDouble l' h' => (l =? l')%Z && (h =? h')%Z
  | TEnum v, TEnum v' => list_eqb String.eqb v v'
  | TSet c v, TSet c' v' => String.eqb c c' && list_eqb String.eqb v v'
  | TOther a, TOther b => String.eqb a b
  | _, _ => false
  end.

(* a value the source computes at start-up (GOpq in the generated table) is not compared *)
Definition val_matches (model obs : gval) : bool :=
  match model with GOpq _ => true | _ => gval_eqb model obs end.

Definition res_eqb (a b : res) : bool :=
  match a, b with
  | Ok x, Ok y => gval_eqb x y
  | Err, Err => true
  | Unm, _ => true
  | _, _ => false
  end.

Definition reg_ok (sv : sysvar) : bool :=
  match lookup vars (v_name sv) with
  | None => false
  | Some g =>
      String.eqb (v_name g) (v_name sv) && String.eqb (v_field_name g) (v_field_name sv)
      && scope_eqb (v_scope g) (v_scope sv) && Bool.eqb (v_dynamic g) (v_dynamic sv)
      && vtype_eqb (v_type g) (v_type sv) && val_matches (v_default g) (v_default sv)
      && Bool.eqb (v_notify g) (v_notify sv) && Bool.eqb (v_valuefn g) (v_valuefn sv)
  end.

Definition rd_matches (m : rd) (o : robs) : bool :=
  match m, o with
  | RVal v, OVal w => val_matches v w
  | RErr, OErr => true
  | _, _ => false
  end.

Definition do_read (xs : xstate) (r : read) : rd :=
  let st := base xs in
  match r with
  | RdGlobal _ x => RVal (shown vars x (get_global st x))
  | RdSession s x => shown_rd vars x (read_session vars st s x)
  | RdBare s x => shown_rd vars x (read_bare st s x)
  | RdUser s u => get_user st s u
  | RdPersist s x => RVal (pers xs s x)
  end.

Fixpoint hist_ok (xs : xstate) (steps : list (stmt * bool * list (read * robs))) : bool :=
  match steps with
  | [] => true
  | (c, acc, reads) :: rest =>
      match exec_stmt vars xs c with
      | (_, Unmodelled) => true              (* outside the model: the rest of the history is not compared *)
      | (xs', out) =>
          Bool.eqb acc (outcome_eqb out Accepted)
          && forallb (fun p => rd_matches (do_read xs' (fst p)) (snd p)) reads
          && hist_ok xs' rest
      end
  end.

Definition ok (c : case) : bool :=
  match c with
  | CConv x v o =>
      match lookup vars x with
      | Some sv => res_eqb (convert (v_type sv) v) o
      | None => false
      end
  | CReg sv => reg_ok sv
  | CRegCount n => N.eqb n (N.of_nat (length vars))
  | CHist steps => hist_ok (xinit vars) steps
  end.

Definition mismatches (cs : list (N * case)) : list N :=
  map fst (filter (fun p => negb (ok (snd p))) cs).
