(* Correspondence for C31: flat SQL date calls with integer arguments and the observed result. *)
From Coq Require Import List NArith ZArith Bool.
Import ListNotations.
From GMS Require Import Base.CorrLib Codec.C31Date Codec.C31Format Codec.C31Parse.
Open Scope Z_scope.

(* function id, integer arguments, observed result (None = NULL; a date is [y; m; d], a number is [n]) *)
Definition call : Type := (N * list Z * option (list Z))%type.
Definition case : Type := list call.

Definition d3 (dt : date) : option (list Z) := let '(y, m, d) := dt in Some [y; m; d].

Definition model (fn : N) (args : list Z) : option (option (list Z)) :=
  match fn, args with
  | 1%N, [y1; m1; d1; y2; m2; d2] => Some (Some [datediff_go (y1, m1, d1) (y2, m2, d2)])
  | 2%N, [y; m; d; n] => Some (d3 (add_days (y, m, d) n))
  | 3%N, [y; m; d; n] => Some (d3 (add_months (y, m, d) n))
  | 4%N, [y; m; d; n] => Some (d3 (add_years (y, m, d) n))
  | 5%N, [y; m; d] => Some (match str_to_date_ymd true y m d with Some dt => d3 dt | None => None end)
  | 6%N, [y; m; d] => Some (match str_to_date_ymd false y m d with Some dt => d3 dt | None => None end)
  | 7%N, [y1; m1; d1; t1; y2; m2; d2; t2] => Some (Some [timestampdiff_seconds (y1, m1, d1) t1 (y2, m2, d2) t2])
  | 8%N, [u; y1; m1; d1; t1; y2; m2; d2; t2] => Some (Some [timestampdiff_unit u (y1, m1, d1) t1 (y2, m2, d2) t2])
  (* DATEDIFF of two datetimes (time of day in seconds) *)
  | 10%N, [y1; m1; d1; t1; y2; m2; d2; t2] => Some (Some [datediff_dt (y1, m1, d1) t1 (y2, m2, d2) t2])
  (* DATE_ADD / DATE_SUB with a sub-day unit: date, microsecond of the day, signed microseconds to add *)
  | 11%N, [y; m; d; tod; n] =>
      let '((y', m', d'), t') := add_us (y, m, d) tod n in Some (Some [y'; m'; d'; t'])
  (* DATE_FORMAT: year, month, day, hour, minute, second, microsecond, then the bytes of the format;
     the observed result is the list of output bytes *)
  | 9%N, y :: m :: d :: h :: i :: s :: u :: fmt =>
      match render (map Z.to_N fmt) {| yr := y; mo := m; dy := d; hh := h; mi := i; ss := s; us := u |} with
      | Some out => Some (Some (map Z.of_N out))
      | None => None
      end
  (* STR_TO_DATE: length of the string, its bytes, then the bytes of the format *)
  | 12%N, n :: rest =>
      let s := map Z.to_N (firstn (Z.to_nat n) rest) in
      let fmt := map Z.to_N (skipn (Z.to_nat n) rest) in
      match str_to_date s fmt with
      | SNull => Some None
      | SVal (y, m, d) tod => Some (Some [y; m; d; tod])
      | SUnmodelled => None
      end
  (* CAST('YYYY-MM-DD' AS DATE), month 1..12, day 1..31 *)
  | 13%N, [y; m; d] => Some (d3 (cast_date_str y m d))
  (* TIMESTAMPDIFF(MONTH | QUARTER | YEAR): months per unit, then the two moments (time of day in seconds) *)
  | 14%N, [per; y1; m1; d1; t1; y2; m2; d2; t2] =>
      Some (Some [timestampdiff_months per ((y1, m1, d1), t1) ((y2, m2, d2), t2)])
  | _, _ => None
  end.

Definition call_ok (c : call) : bool :=
  let '(fn, args, o) := c in
  match model fn args with Some m => option_eqb zs_eqb m o | None => false end.
Definition ok (c : case) : bool := forallb call_ok c.
Definition mismatches (cs : list (N * case)) : list N :=
  map fst (filter (fun p => negb (ok (snd p))) cs).
