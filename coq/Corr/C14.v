(* Correspondence definitions for C14: run the editor model on the statement histories the engine executed.
   A case is a schema plus a history on an initially empty table; for every step the driver records the statement,
   what the engine answered (ok / duplicate-key error) and the stored rows afterwards (in storage order, as SELECT *
   returns them); they are also the rows the next step starts from.  [ordered] is false when the order after the statement is not determined (sort.Sort on
   keys that compare equal under the collation). *)
From Coq Require Import List NArith ZArith Bool.
Import ListNotations.
From GMS Require Import Store.C14Editor.

Definition rows_eqb (a b : list row) : bool :=
  (fix go (a b : list row) : bool :=
     match a, b with
     | [], [] => true
     | x :: a', y :: b' => row_eqb x y && go a' b'
     | _, _ => false
     end) a b.

Fixpoint bag_remove (r : row) (l : list row) : option (list row) :=
  match l with
  | [] => None
  | x :: l' => if row_eqb r x then Some l'
               else match bag_remove r l' with Some l'' => Some (x :: l'') | None => None end
  end.

Fixpoint bag_eqb (a b : list row) : bool :=
  match a with
  | [] => match b with [] => true | _ => false end
  | x :: a' => match bag_remove x b with Some b' => bag_eqb a' b' | None => false end
  end.

(* a step is a DML statement or the creation of a unique index over the existing rows *)
Inductive action :=
| ADml (st : stmt)
| AAddUnique (cols : list nat) (pls : list N).

(* observed: true = the statement succeeded, false = it failed with a duplicate-key error *)
Definition step : Type := (action * bool * list row * bool)%type.
Definition case : Type := (schema * list step)%type.

Definition kind_ok (o : outcome) (succeeded : bool) : bool :=
  match o with
  | OOk _ _ => succeeded
  | ODupKey => negb succeeded
  | OFuel => false
  end.

Definition rows_ok (ordered : bool) (rows' post : list row) : bool :=
  if ordered then rows_eqb rows' post else bag_eqb rows' post.

(* result: does the model agree, and the schema in effect afterwards *)
Definition step_ok (sch : schema) (pre : list row) (s : step) : bool * schema :=
  let '(a, succeeded, post, ordered) := s in
  match a with
  | ADml st =>
      let '(o, rows') := impl_exec sch pre st in
      (kind_ok o succeeded && rows_ok ordered rows' post, sch)
  | AAddUnique cols pls =>
      match ddl_add_unique sch pre cols pls with
      | Some (sch', rows') => (succeeded && rows_ok ordered rows' post, sch')
      | None => (negb succeeded && rows_ok ordered pre post, sch)
      end
  end.

(* the table starts empty; every step starts from the rows OBSERVED after the previous one *)
Fixpoint steps_ok (sch : schema) (pre : list row) (steps : list step) : bool :=
  match steps with
  | [] => true
  | s :: steps' => let '(b, sch') := step_ok sch pre s in b && steps_ok sch' (snd (fst s)) steps'
  end.

Definition ok (c : case) : bool := let '(sch, steps) := c in steps_ok sch [] steps.

Definition mismatches (cs : list (N * case)) : list N :=
  map fst (filter (fun p => negb (ok (snd p))) cs).
