(* Correspondence for C15: run the statement-protocol model on what the driver did to the real engine. *)
From Coq Require Import List NArith Bool Arith.
Import ListNotations.
From GMS Require Import Store.C15Editor.

Definition row := list N.                       (* canonical text of one table row *)
Inductive edit := EIns (r : row) | EDel (r : row) | EUpd (old new : row).

Fixpoint row_eqb (a b : row) : bool :=
  match a, b with
  | [], [] => true
  | x :: a', y :: b' => N.eqb x y && row_eqb a' b'
  | _, _ => false
  end.

Fixpoint row_cmp (a b : row) : comparison :=
  match a, b with
  | [], [] => Eq
  | [], _ => Lt
  | _, [] => Gt
  | x :: a', y :: b' => match N.compare x y with Eq => row_cmp a' b' | c => c end
  end.

Fixpoint ins_row (x : row) (l : list row) : list row :=
  match l with
  | [] => [x]
  | y :: t => match row_cmp x y with Gt => y :: ins_row x t | _ => x :: y :: t end
  end.
Definition sort_bag (l : list row) : list row := fold_right ins_row [] l.

Fixpoint rows_eqb (a b : list row) : bool :=
  match a, b with
  | [], [] => true
  | x :: a', y :: b' => row_eqb x y && rows_eqb a' b'
  | _, _ => false
  end.
Definition bag_eqb (a b : list row) : bool := rows_eqb (sort_bag a) (sort_bag b).

Fixpoint remove_first (r : row) (l : list row) : list row :=
  match l with
  | [] => []
  | x :: t => if row_eqb x r then t else x :: remove_first r t
  end.

Definition apply1 (t : list row) (e : edit) : list row :=
  match e with EIns r => t ++ [r] | EDel r => remove_first r t | EUpd o n => remove_first o t ++ [n] end.
Definition apply_edits (t : list row) (es : list edit) : list row := fold_left apply1 es t.
(* the deletes of ApplyEdits (what is done before the injected fault fires) *)
Definition apply_dels1 (t : list row) (e : edit) : list row :=
  match e with EIns _ => t | EDel r => remove_first r t | EUpd o _ => remove_first o t end.
Definition apply_dels (t : list row) (es : list edit) : list row := fold_left apply_dels1 es t.

(* [fault] = Some n: the n-th ApplyEdits call of the statement returns the injected error after its deletes *)
Definition apply_opt (fault : option nat) (n : nat) (t : list row) (es : list edit) : option (list row) * list row :=
  match fault with
  | Some k => if Nat.eqb k n then (None, apply_dels t es) else (Some (apply_edits t es), apply_edits t es)
  | None => (Some (apply_edits t es), apply_edits t es)
  end.

(* one row-edit call as the driver reads the statement: an accumulated edit, an error handled by the row iterator
   (REPLACE / ON DUPLICATE KEY UPDATE), an ignorable error (a duplicate row of INSERT IGNORE) *)
Inductive kcall := KGood (e : edit) | KHandled | KIgn.
Definition conv (k : kcall) : call edit :=
  match k with KGood e => CGood e | KHandled => CHandled | KIgn => CBad true end.

(* rows before; the statement's row-edit calls in call order; number of calls that succeed before
   the failing one (None: no call fails); trigger: audit table before + the audit row written for each call;
   observed: statement returned an error, rows after, audit rows after; armed ApplyEdits fault (call number); checkpointing iterator (INSERT IGNORE) *)
Definition case : Type :=
  (list row * list kcall * option nat * option (list row * list (option row)) * bool * list row * list row
   * option nat * bool)%type.

Definition calls_of (es : list kcall) (fail_at : option nat) : list (call edit) :=
  match fail_at with
  | None => map conv es
  | Some k => map conv (firstn k es) ++ [CBad false]
  end.

Definition is_err (r : result) : bool := match r with RErr => true | ROk => false end.

Definition ok (c : case) : bool :=
  let '(before, es, fail_at, trig, obs_err, obs_after, obs_audit, afault, ckpt) := c in
  let cs := calls_of es fail_at in
  match trig with
  | None =>
      let '(res, after) := (if ckpt then run_stmt_ckpt (list row) edit (apply_opt afault) before cs
                            else run_stmt (list row) edit (apply_opt afault) before cs) in
      Bool.eqb (is_err res) obs_err && bag_eqb after obs_after
  | Some (audit_before, audit_rows) =>
      let '(res, after, audit_after) :=
        run_stmt_trig (list row) edit (apply_opt afault) row EIns before audit_before (combine audit_rows cs) in
      Bool.eqb (is_err res) obs_err && bag_eqb after obs_after && bag_eqb audit_after obs_audit
  end.

Definition mismatches (cs : list (N * case)) : list N :=
  map fst (filter (fun p => negb (ok (snd p))) cs).
