(* Correspondence for C43: the catalog model against what the engine listed after every DDL statement. *)
From Coq Require Import List NArith Bool Arith.
Import ListNotations.
From GMS Require Import Sys.C43Catalog.
Open Scope N_scope.

(* what was observed after one statement (rows already projected to the modelled columns and encoded as numbers;
   None = the listing query failed) *)
Record obs := mkobs {
  o_tables : list row; o_columns : list row; o_statistics : list row; o_kcu : list row; o_tcons : list row;
  o_refs : list row; o_checks : list row; o_views : list row; o_routines : list row;
  o_triggers : option (list row);
  o_show_tables : list row; o_show_triggers : option (list row);
  o_show_columns : list (name * option (list row)); o_show_indexes : list (name * option (list row));
  (* COLUMNS [schema; table; column; ordinal] and STATISTICS [schema; table; index; seq; column] of the two static
     neighbour databases (da before, db2 after "db"), read unfiltered; SHOW CREATE TABLE's PRIMARY KEY part list *)
  o_neighbours : list row; o_show_create_pk : list (name * option row) }.

(* a history: statement, accepted by the engine?, listings afterwards *)
Definition case : Type := list (op * bool * obs).

Fixpoint row_eqb (a b : row) : bool :=
  match a, b with
  | [], [] => true
  | x :: a', y :: b' => N.eqb x y && row_eqb a' b'
  | _, _ => false
  end.
Fixpoint rows_eqb (a b : list row) : bool :=
  match a, b with
  | [], [] => true
  | x :: a', y :: b' => row_eqb x y && rows_eqb a' b'
  | _, _ => false
  end.
Definition bag_eqb (a b : list row) : bool :=
  Nat.eqb (length a) (length b) && forallb (fun r => existsb (row_eqb r) b) a && forallb (fun r => existsb (row_eqb r) a) b.
Definition obag_eqb (a b : option (list row)) : bool :=
  match a, b with Some x, Some y => bag_eqb x y | None, None => true | _, _ => false end.
Definition olist_eqb (a b : option (list row)) : bool :=
  match a, b with Some x, Some y => rows_eqb x y | None, None => true | _, _ => false end.

(* the neighbour databases never change: da.t0 (y0 INT NOT NULL PRIMARY KEY, y1 BIGINT), db2.t3 (z0 ... PRIMARY KEY, z1) *)
Definition neighbour_rows : list row :=
  [ [25697; 29744; 31024; 1]; [25697; 29744; 31025; 2]; [6578738; 29747; 31280; 1]; [6578738; 29747; 31281; 2];
    [25697; 29744; PRIMARY; 1; 31024]; [6578738; 29747; PRIMARY; 1; 31280] ].
Definition orow_eqb (a b : option row) : bool :=
  match a, b with Some x, Some y => row_eqb x y | None, None => true | _, _ => false end.

Definition view_only (c : cat) (n : name) : bool := has_view n c.

(* the listings compared, numbered for diagnosis *)
Definition checks_of (c : cat) (o : obs) : list (N * bool) :=
  [ (1, bag_eqb (tables_rows c) (o_tables o));
    (2, bag_eqb (columns_rows c) (o_columns o));
    (3, bag_eqb (statistics_rows c) (o_statistics o));
    (4, bag_eqb (kcu_rows c) (o_kcu o));
    (5, bag_eqb (map (fun r => r) (table_constraints_rows c)) (o_tcons o));
    (6, bag_eqb (referential_rows c) (o_refs o));
    (7, bag_eqb (check_rows c) (o_checks o));
    (8, bag_eqb (views_rows c) (o_views o));
    (9, bag_eqb (routines_rows c) (o_routines o));
    (10, obag_eqb (is_triggers_rows c) (o_triggers o));
    (11, bag_eqb (tables_rows c) (o_show_tables o));
    (12, obag_eqb (show_triggers_rows c) (o_show_triggers o));
    (* SHOW COLUMNS / INDEXES FROM <name>: compared for every name of the universe that is not a view name *)
    (13, forallb (fun p => view_only c (fst p) || olist_eqb (show_columns c (fst p)) (snd p)) (o_show_columns o));
    (14, forallb (fun p => view_only c (fst p) || obag_eqb (show_indexes c (fst p)) (snd p)) (o_show_indexes o));
    (15, bag_eqb neighbour_rows (o_neighbours o));
    (16, forallb (fun p => view_only c (fst p) || orow_eqb (show_create_pk c (fst p)) (snd p)) (o_show_create_pk o)) ].

Fixpoint steps_ok (c : cat) (l : case) : bool :=
  match l with
  | [] => true
  | (o, acc, ob) :: l' =>
    let '(a, c') := step o c in
    Bool.eqb a acc && forallb snd (checks_of c' ob) && steps_ok c' l'
  end.

Definition ok (c : case) : bool := steps_ok empty c.

Definition mismatches (cs : list (N * case)) : list N :=
  map fst (filter (fun p => negb (ok (snd p))) cs).

(* diagnosis: (step number, 0 = acceptance / listing number) of every disagreement *)
Fixpoint diag_from (k : N) (c : cat) (l : case) : list (N * N) :=
  match l with
  | [] => []
  | (o, acc, ob) :: l' =>
    let '(a, c') := step o c in
    (if Bool.eqb a acc then [] else [(k, 0)])
    ++ map (fun p => (k, fst p)) (filter (fun p => negb (snd p)) (checks_of c' ob))
    ++ diag_from (k + 1) c' l'
  end.
Definition diag (c : case) : list (N * N) := diag_from 0 empty c.
