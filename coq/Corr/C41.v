(* Correspondence definitions for C41: build the live privilege set from the grants the engine executed, reload it in the
   model and compare every observed lookup before / after with PrivilegeSet.Has / Database(..).Has / Table(..).Has. *)
From Coq Require Import List NArith Bool.
Import ListNotations.
From GMS Require Import Sys.Privs Sys.Serialize.
Open Scope N_scope.

(* getUseableDb / getUseableTbl: key = lower(name); the entry keeps the name it was created with *)
Definition e_db (ps : psE) (d : str) : dbE :=
  match aget (lower d) (ps_dbs ps) with Some e => e | None => mkDB d [] [] end.
Definition e_tbl (e : dbE) (t : str) : tblE :=
  match aget (lower t) (db_tbls e) with Some te => te | None => mkT t [] end.

Definition e_add (l : level) (p : N) (ps : psE) : psE :=
  match l with
  | LG => mkPS (padd p (ps_g ps)) (ps_dbs ps)
  | LD d => let e := e_db ps d in
            mkPS (ps_g ps) (aput (lower d) (mkDB (db_name e) (padd p (db_privs e)) (db_tbls e)) (ps_dbs ps))
  | LT d t => let e := e_db ps d in let te := e_tbl e t in
              mkPS (ps_g ps) (aput (lower d) (mkDB (db_name e) (db_privs e)
                                   (aput (lower t) (mkT (t_name te) (padd p (t_privs te))) (db_tbls e))) (ps_dbs ps))
  end.

(* what the account received, in order: a privilege grant, or a routine grant -- routines are not modelled, but
   getUseableDb creates the database entry (fixing the spelling the entry keeps) as a side effect *)
Inductive gitem : Type := GPriv (l : level) (ps : list N) | GTouchDb (d : str).

Definition e_touch (d : str) (ps : psE) : psE :=
  match aget (lower d) (ps_dbs ps) with
  | Some _ => ps
  | None => mkPS (ps_g ps) (aput (lower d) (mkDB d [] []) (ps_dbs ps))
  end.

Definition apply_grants (gs : list gitem) : psE :=
  fold_left (fun ps g => match g with
                         | GPriv l qs => fold_left (fun acc p => e_add l p acc) qs ps
                         | GTouchDb d => e_touch d ps
                         end) gs (mkPS [] []).

Definition look (ps : psE) (l : level) (p : N) : bool :=
  match l with LG => e_has_g ps p | LD d => e_has_d ps d p | LT d t => e_has_t ps d t p end.

(* the lookups of harness/props/c41 in order: d in ["", db, Db2, db2] x t in ["", t, Ss, ss] (global only with t = "") x p in [0;1;2] *)
Definition lk_dbs : list str := [[]; [100;98]; [68;98;50]; [100;98;50]].
Definition lk_tbls : list str := [[]; [116]; [83;115]; [115;115]].
Definition lk_level (d t : str) : option level :=
  match d, t with
  | [], [] => Some LG
  | [], _ => None
  | _, [] => Some (LD d)
  | _, _ => Some (LT d t)
  end.
Definition look_defs : list (level * N) :=
  flat_map (fun d => flat_map (fun t => match lk_level d t with
                                        | Some l => map (fun p => (l, p)) [0; 1; 2]
                                        | None => [] end) lk_tbls) lk_dbs.

(* grants of one account in order; (before, after) per lookup of look_defs; role edges of the state (admin before, after): the model
   says the flag survives, so the two must agree *)
Definition case : Type := (list gitem * list (bool * bool) * list (bool * bool))%type.

Fixpoint cmp (ps ps' : psE) (defs : list (level * N)) (obs : list (bool * bool)) : bool :=
  match defs, obs with
  | [], [] => true
  | (l, p) :: defs', (b, a) :: obs' => Bool.eqb (look ps l p) b && Bool.eqb (look ps' l p) a && cmp ps ps' defs' obs'
  | _, _ => false
  end.

Definition ok (c : case) : bool :=
  let '(gs, looks, eds) := c in
  let ps := apply_grants gs in
  cmp ps (load_ps (ser_ps ps)) look_defs looks && forallb (fun ba => Bool.eqb (fst ba) (snd ba)) eds.

Definition mismatches (cs : list (N * case)) : list N :=
  map fst (filter (fun p => negb (ok (snd p))) cs).
