(* Correspondence for C34: every case is a list of flat SQL calls FN(literal, ...) with the observed result;
   [ok] re-computes each call with the model of Sys/C34Funcs.v. *)
From Coq Require Import List NArith ZArith Bool.
Import ListNotations.
From GMS Require Import Base.CorrLib Sys.C34Funcs Sys.C34More.
Open Scope Z_scope.

Inductive arg :=
| AStr (cps : list N)          (* a quoted string literal, given by its code points *)
| AInt (z : Z)                 (* an integer literal within int64 *)
| AUInt (z : Z)                (* an integer literal in (2^63-1, 2^64-1] *)
| ADec (m : Z) (s : Z)         (* a decimal literal m * 10^-s, s > 0 *)
| ANull.

Inductive obs :=
| ONull | OStr (bytes : list N) | OInt (z : Z) | ODec (m : Z) (s : Z) | OErr | OPanic.

Definition call : Type := (N * list arg * obs)%type.
Definition case : Type := list call.

Definition a_str (a : arg) : option (option (list N)) :=
  match a with AStr s => Some (Some s) | ANull => Some None | _ => None end.
Definition a_int (a : arg) : option (option Z) :=
  match a with AInt z => Some (Some z) | ANull => Some None | _ => None end.
Definition a_num (a : arg) : option (numkind * option (Z * Z)) :=
  match a with
  | AInt z => Some (KSigned, Some (z, 0)) | AUInt z => Some (KUnsigned, Some (z, 0))
  | ADec m s => Some (KDecimal, Some (m, s)) | ANull => Some (KDecimal, None) | _ => None
  end.

Definition o_str (o : out (list N)) : obs :=
  match o with Val b => OStr b | Null => ONull | Err => OErr | Panic => OPanic end.
Definition o_cps (o : out (list N)) : obs :=
  match o with Val s => OStr (utf8 s) | Null => ONull | Err => OErr | Panic => OPanic end.
Definition o_int (o : out Z) : obs :=
  match o with Val z => OInt z | Null => ONull | Err => OErr | Panic => OPanic end.
Definition o_num (k : numkind) (o : out (Z * Z)) : obs :=
  match o with
  | Val (m, s) => match k with KDecimal => ODec m s | _ => OInt m end
  | Null => ONull | Err => OErr | Panic => OPanic
  end.
Definition o_opt (o : option (list N)) : obs := match o with Some b => OStr b | None => ONull end.

Fixpoint all_strs (l : list arg) : option (list (option (list N))) :=
  match l with
  | [] => Some []
  | a :: r => match a_str a, all_strs r with Some x, Some t => Some (x :: t) | _, _ => None end
  end.

Fixpoint all_ints (l : list arg) : option (list (option Z)) :=
  match l with
  | [] => Some []
  | a :: r => match a_int a, all_ints r with Some x, Some t => Some (x :: t) | _, _ => None end
  end.

Definition model (fn : N) (args : list arg) : option obs :=
  match fn, args with
  | 1%N, [a] => match a_str a with Some s => Some (o_int (char_length s)) | _ => None end
  | 2%N, [a] => match a_str a with Some s => Some (o_int (byte_length s)) | _ => None end
  | 3%N, l => match all_strs l with Some ss => Some (o_cps (concat ss)) | None => None end
  | 4%N, [a; b] => match a_str a, a_int b with Some s, Some p => Some (o_cps (substring s p None)) | _, _ => None end
  | 5%N, [a; b; c] => match a_str a, a_int b, a_int c with
                      | Some s, Some p, Some l => Some (o_cps (substring s p (Some l))) | _, _, _ => None end
  | 6%N, [a; b] => match a_str a, a_int b with Some s, Some n => Some (o_cps (left s n)) | _, _ => None end
  | 7%N, [a; b] => match a_str a, a_int b with Some s, Some n => Some (o_cps (right s n)) | _, _ => None end
  | 8%N, [a] => match a_str a with Some s => Some (o_cps (reverse s)) | _ => None end
  | 9%N, [a; b] => match a_str a, a_int b with Some s, Some n => Some (o_cps (repeat s n)) | _, _ => None end
  | 10%N, [a; b] => match a_str a, a_str b with Some s, Some p => Some (o_int (instr s p)) | _, _ => None end
  | 11%N, [a; b] => match a_str a, a_str b with Some p, Some s => Some (o_int (locate p s None)) | _, _ => None end
  | 12%N, [a; b; c] => match a_str a, a_str b, a_int c with
                       | Some p, Some s, Some z => Some (o_int (locate p s (Some z))) | _, _, _ => None end
  | 13%N, [a; b; c; d] => match a_str a, a_int b, a_int c, a_str d with
                          | Some s, Some p, Some l, Some n => Some (o_str (insert s p l n)) | _, _, _, _ => None end
  | 14%N, [a; b; c] => match a_str a, a_int b, a_str c with
                       | Some s, Some n, Some p => Some (o_str (pad true s n p)) | _, _, _ => None end
  | 15%N, [a; b; c] => match a_str a, a_int b, a_str c with
                       | Some s, Some n, Some p => Some (o_str (pad false s n p)) | _, _, _ => None end
  | 16%N, [a] => match a_str a with
                 | Some (Some s) => Some (OStr (hex_bytes (utf8 s))) | Some None => Some ONull | None => None end
  | 17%N, [a] => match a_str a with
                 | Some (Some s) => Some (o_opt (unhex_bytes (utf8 s))) | Some None => Some ONull | None => None end
  | 18%N, [a] => match a_str a with
                 | Some (Some s) => Some (OStr (to_base64_bytes (utf8 s))) | Some None => Some ONull | None => None end
  | 19%N, [a] => match a_str a with
                 | Some (Some s) => Some (match from_base64_bytes (utf8 s) with Some b => OStr b | None => OErr end)
                 | Some None => Some ONull | None => None end
  | 20%N, [a; b; c] => match a_str a, a_int b, a_int c with
                       | Some n, Some f, Some t => Some (o_str (conv (option_map utf8 n) f t)) | _, _, _ => None end
  | 21%N, [a] => match a_str a with Some s => Some (o_int (inet_aton (option_map utf8 s))) | None => None end
  | 22%N, [a] => match a_int a with Some n => Some (o_str (inet_ntoa n)) | None => None end
  | 23%N, [a] => match a_num a with Some (k, x) => Some (o_num k (round_num k x None)) | None => None end
  | 24%N, [a; b] => match a_num a, a_int b with
                    | Some (k, x), Some d => Some (o_num k (round_num k x (Some d))) | _, _ => None end
  | 25%N, [a; b] => match a_num a, a_int b with
                    | Some (k, x), Some d => Some (o_num k (truncate_num k x d)) | _, _ => None end
  | 26%N, [a] => match a_num a with Some (k, x) => Some (o_int (ceil_num k x)) | None => None end
  | 27%N, [a] => match a_num a with Some (k, x) => Some (o_int (floor_num k x)) | None => None end
  | 28%N, [AInt dir; a; b] => match a_str a, a_str b with Some p, Some t => Some (o_str (trim dir p t)) | _, _ => None end
  | 29%N, [a] => match a_str a with Some t => Some (o_str (ltrim_fn t)) | None => None end
  | 30%N, [a] => match a_str a with Some t => Some (o_str (rtrim_fn t)) | None => None end
  | 31%N, [a; b; c] => match a_str a, a_str b, a_str c with
                       | Some x, Some y, Some z => Some (o_str (replace x y z)) | _, _, _ => None end
  | 32%N, [a] => match a_str a with Some t => Some (o_cps (upper_fn t)) | None => None end
  | 33%N, [a] => match a_str a with Some t => Some (o_cps (lower_fn t)) | None => None end
  | 34%N, [AInt n] => Some (OStr (bin_num n))
  | 34%N, [AUInt n] => Some (OStr (fmt_uint 2 n))
  | 34%N, [ANull] => Some ONull
  | 35%N, [AInt n] => Some (o_str (oct_num n))
  | 35%N, [AUInt n] => Some (o_str (conv (Some (fmt_uint 10 n)) (Some 10) (Some 8)))
  | 35%N, [ANull] => Some ONull
  | 36%N, [AInt n] => Some (OStr (hex_num n))
  | 36%N, [AUInt n] => Some (OStr (fmt_uint 16 n))
  | 37%N, [AInt n] => Some (OInt (abs_int n))
  | 37%N, [AUInt n] => Some (OInt n)
  | 37%N, [ADec m sc] => Some (ODec (Z.abs m) sc)
  | 37%N, [ANull] => Some ONull
  | 38%N, [AInt n] => Some (OInt (sign_num n))
  | 38%N, [AUInt n] => Some (OInt (sign_num n))
  | 38%N, [ADec m sc] => Some (OInt (sign_dec m sc))
  | 38%N, [ANull] => Some ONull
  | 39%N, [AInt a; AInt b] => Some (match mod_int a b with Some r => OInt r | None => ONull end)
  | 39%N, [ANull; _] | 39%N, [_; ANull] => Some ONull
  | 40%N, [AStr t] => Some (OInt (ascii_fn t))
  | 40%N, [ANull] => Some ONull
  | 41%N, [AStr t] => Some (OInt (ord_fn t))
  | 41%N, [ANull] => Some ONull
  | 42%N, l => match all_ints l with Some ns => Some (OStr (char_fn ns)) | None => None end
  | 43%N, [a; b; c] => match a_str a, a_str b, a_int c with
                       | Some (Some t), Some (Some (x :: d)), Some (Some k) =>
                           Some (OStr (substring_index_core (utf8 t) (utf8 (x :: d)) k))
                       | Some None, Some _, Some _ | Some _, Some None, Some _ | Some _, Some _, Some None => Some ONull
                       | _, _, _ => None end
  | 44%N, [a; b] => match a_str a, a_str b with
                    | Some (Some x), Some (Some y) => Some (OInt (strcmp_core (utf8 x) (utf8 y)))
                    | Some _, Some _ => Some ONull | _, _ => None end
  | 45%N, k :: l => match a_str k, all_strs l with Some key, Some vals => Some (OInt (field_fn key vals)) | _, _ => None end
  | 46%N, k :: l => match a_int k, all_strs l with
                    | Some n, Some vals => Some (o_opt (option_map utf8 (elt_fn n vals))) | _, _ => None end
  | 47%N, k :: l => match a_str k, all_strs l with
                    | Some sep, Some vals => Some (o_cps (concat_ws sep vals)) | _, _ => None end
  | _, _ => None
  end.

(* decimals are compared by value: m1 * 10^-s1 = m2 * 10^-s2 *)
Definition obs_eqb (a b : obs) : bool :=
  match a, b with
  | ONull, ONull | OErr, OErr | OPanic, OPanic => true
  | OStr x, OStr y => bytes_eqb x y
  | OInt x, OInt y => x =? y
  | ODec m1 s1, ODec m2 s2 => (0 <=? s1) && (0 <=? s2) && (m1 * 10 ^ s2 =? m2 * 10 ^ s1)
  | OInt x, ODec m s | ODec m s, OInt x => (0 <=? s) && (x * 10 ^ s =? m)
  | _, _ => false
  end.

Definition call_ok (c : call) : bool :=
  let '(fn, args, o) := c in
  match model fn args with Some m => obs_eqb m o | None => false end.

Definition ok (c : case) : bool := forallb call_ok c.

Definition mismatches (cs : list (N * case)) : list N :=
  map fst (filter (fun p => negb (ok (snd p))) cs).
