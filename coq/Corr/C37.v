(* Correspondence for C37: replay the calls the driver made on the real sqle.ProcessList through the model
   and compare, after every call, the returned outcome, Processes(), both status counters and the set of
   cancelled contexts. *)
From Coq Require Import List NArith ZArith Bool.
Import ListNotations.
From GMS Require Import Base.CorrLib Sys.ProcessList.
Open Scope N_scope.

(* one Processes() entry as observed: connection, command, host, user, database, query, query pid, Kill != nil *)
Inductive pview := PV (conn : N) (cmd : command) (host user db query qpid : N) (haskill : bool).

Definition view (p : proc) : pview :=
  PV (p_conn p) (p_cmd p) (p_host p) (p_user p) (p_db p) (p_query p) (p_qpid p)
     (match p_kill p with Some _ => true | None => false end).

Definition pview_eqb (a b : pview) : bool :=
  match a, b with
  | PV c1 m1 h1 u1 d1 q1 p1 k1, PV c2 m2 h2 u2 d2 q2 p2 k2 =>
      N.eqb c1 c2 && command_eqb m1 m2 && N.eqb h1 h2 && N.eqb u1 u2 && N.eqb d1 d2 && N.eqb q1 q2 &&
      N.eqb p1 p2 && Bool.eqb k1 k2
  end.

Definition outcome_eqb (a b : outcome) : bool :=
  match a, b with
  | ODone, ODone | OErrNotRegistered, OErrNotRegistered | OErrPidUsed, OErrPidUsed
  | OErrOpRunning, OErrOpRunning | OPanic, OPanic => true
  | OCtx x, OCtx y => N.eqb x y
  | _, _ => false
  end.

(* observation after a call: outcome, Processes() sorted by connection id, Threads_connected,
   Threads_running (uint64 values), ids of the contexts whose Err() is non-nil (ascending) *)
Definition obs : Type := (outcome * list pview * Z * Z * list N)%type.

Definition two64 : Z := 18446744073709551616%Z.

Definition subset (a b : list N) : bool := forallb (fun k => memN k b) a.

Definition obs_ok (s : state) (o : outcome) (ob : obs) : bool :=
  let '(oo, pvs, otc, otr, canc) := ob in
  outcome_eqb o oo &&
  list_eqb pview_eqb (map view (processes s)) pvs &&
  Z.eqb (tc s mod two64) otc && Z.eqb (tr s mod two64) otr &&
  subset (cancelled s) canc && subset canc (cancelled s).

(* one recorded step: J e = a step whose result the driver cannot observe (first half of AddConnection);
   I e outcome processes threads_connected threads_running cancelled = a call with its observation *)
Inductive item :=
| J (e : event)
| I (e : event) (o : outcome) (pvs : list pview) (otc otr : Z) (canc : list N).

Definition item_event (i : item) : event := match i with J e => e | I e _ _ _ _ _ => e end.

Fixpoint replay (s : state) (l : list item) : bool :=
  match l with
  | [] => true
  | J e :: r => replay (fst (step s e)) r
  | I e o pvs otc otr canc :: r =>
      let so := step s e in
      obs_ok (fst so) (snd so) (o, pvs, otc, otr, canc) && replay (fst so) r
  end.

(* the calls with their observations, and the driver's claim that the history follows the discipline *)
Inductive case := Case (wf : bool) (l : list item).

Definition ok (c : case) : bool :=
  let 'Case wf l := c in
  replay init l &&
  Bool.eqb (match srun sinit (map item_event l) with Some _ => true | None => false end) wf.

Definition mismatches (cs : list (N * case)) : list N :=
  map fst (filter (fun p => negb (ok (snd p))) cs).
