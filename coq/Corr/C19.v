(* Correspondence definitions for C19: run the write pipeline model on the histories the engine ran. *)
From Coq Require Import List ZArith Bool.
Import ListNotations.
From GMS Require Import Store.C19Check.
Open Scope Z_scope.

(* short constructors for the generated case files (arguments of type Z are read in Z scope) *)
Definition V (z : Z) : option Z := Some z.

(* statement, observed outcome, observed table contents afterwards (rows in id order) *)
Inductive ev := Ev (s : stmt) (r : result) (t : table).
Inductive case := Case (sch : list col) (chks : list check) (h : list ev).

Definition err_eqb (a b : err) : bool :=
  match a, b with ENotNull, ENotNull => true | ECheck, ECheck => true | EInvalid, EInvalid => true | _, _ => false end.
Definition result_eqb (a b : result) : bool :=
  match a, b with ROk, ROk => true | RErr x, RErr y => err_eqb x y | _, _ => false end.

Fixpoint table_eqb (a b : table) : bool :=
  match a, b with
  | [], [] => true
  | x :: a', y :: b' => row_eqb x y && table_eqb a' b'
  | _, _ => false
  end.

Fixpoint ok_from (sch : list col) (chks : list check) (t : table) (h : list ev) : bool :=
  match h with
  | [] => true
  | Ev s r tobs :: h' =>
      let '(t', r') := exec sch chks t s in
      result_eqb r r' && table_eqb t' tobs && ok_from sch chks tobs h'
  end.

Definition ok (c : case) : bool := match c with Case sch chks h => ok_from sch chks [] h end.

Definition mismatches (cs : list (N * case)) : list N :=
  map fst (filter (fun p => negb (ok (snd p))) cs).
