(* Correspondence definitions for C19: run the write pipeline model on the histories the engine ran. *)
From Coq Require Import List ZArith Bool String.
Import ListNotations.
From GMS Require Import Store.C19Check Store.C19Scalar.
Open Scope Z_scope.

(* short constructors for the generated case files (arguments of type Z are read in Z scope) *)
Definition V (z : Z) : option Z := Some z.
Definition I8 := mkTy (-128) 127 false.
Definition I16 := mkTy (-32768) 32767 false.
Definition I32 := mkTy (-2147483648) 2147483647 false.
Definition I64 := mkTy (-9223372036854775808) 9223372036854775807 false.
Definition U8 := mkTy 0 255 true.
Definition U16 := mkTy 0 65535 true.
Definition U32 := mkTy 0 4294967295 true.

(* statement, observed outcome, observed warning count (None = not compared: strings in the statement, or a
   statement kind whose warnings are not modelled), observed table contents afterwards (rows in id order) *)
Inductive ev := Ev (s : stmt) (r : result) (w : option N) (t : table).
Inductive case :=
| Case (sch : list col) (chks : list check) (h : list ev)
(* one DECIMAL(p,1) or VARCHAR(n) column: Store/C19Scalar.v *)
| CaseD (p : Z) (chks : list dcheck) (h : list (dstmt * dres))
| CaseS (n : nat) (chks : list scheck) (h : list (sstmt * sres)).

Definition err_eqb (a b : err) : bool :=
  match a, b with
  | ENotNull, ENotNull | ECheck, ECheck | EInvalid, EInvalid | ERange, ERange | EDefNull, EDefNull
  | EGenValue, EGenValue => true
  | _, _ => false
  end.
Definition result_eqb (a b : result) : bool :=
  match a, b with ROk, ROk => true | RErr x, RErr y => err_eqb x y | _, _ => false end.

Fixpoint table_eqb (a b : table) : bool :=
  match a, b with
  | [], [] => true
  | x :: a', y :: b' => row_eqb x y && table_eqb a' b'
  | _, _ => false
  end.

Definition warn_ok (obs : option N) (model : N) : bool :=
  match obs with None => true | Some n => N.eqb n model end.

Fixpoint ok_from (sch : list col) (chks : list check) (t : table) (h : list ev) : bool :=
  match h with
  | [] => true
  | Ev s r w tobs :: h' =>
      let '(t', r') := exec sch chks t s in
      result_eqb r r' && table_eqb t' tobs && warn_ok w (stmt_warnings sch chks t s) && ok_from sch chks tobs h'
  end.

Definition ok (c : case) : bool :=
  match c with
  | Case sch chks h => ok_from sch chks [] h
  | CaseD p chks h => forallb (fun sr => dres_eqb (dexec p chks (fst sr)) (snd sr)) h
  | CaseS n chks h => forallb (fun sr => sres_eqb (sexec n chks (fst sr)) (snd sr)) h
  end.

Definition mismatches (cs : list (N * case)) : list N :=
  map fst (filter (fun p => negb (ok (snd p))) cs).
