(* Correspondence definitions for C48: evaluate the model of errguard.Go + errgroup.Wait on the trees the driver ran. *)
From Coq Require Import List NArith Arith Bool.
Import ListNotations.
From GMS Require Import Base.CorrLib Sys.ErrGuard.

Inductive obsv :=
| ObsNil                (* Wait() == nil *)
| ObsErr (id : N)       (* Wait() is (pointer-identical to) the error with this id that a function returned *)
| ObsRec (msg : bytes)  (* Wait() is a new error; msg = its text up to and including "\ngoroutine " of the stack *)
| ObsOther.             (* anything else *)

(* completion order of the top group, its members, observed Wait() *)
Definition case : Type := (list nat * list beh * obsv)%type.

Fixpoint prefix_eqb (p s : bytes) : bool :=
  match p, s with
  | [], _ => true
  | x :: p', y :: s' => N.eqb x y && prefix_eqb p' s'
  | _, [] => false
  end.

(* "goroutine " *)
Definition s_goroutine : bytes := [103;111;114;111;117;116;105;110;101;32]%N.

Definition ok (c : case) : bool :=
  let '(order, children, o) := c in
  match group_wait order children, o with
  | None, ObsNil => true
  | Some (EId i), ObsErr j => N.eqb i j
  | Some (ERec t), ObsRec m => bytes_eqb (s_prefix ++ t ++ [10%N] ++ s_goroutine) m
  | _, _ => false
  end.

Definition mismatches (cs : list (N * case)) : list N :=
  map fst (filter (fun p => negb (ok (snd p))) cs).
