(* Correspondence definitions for C26: evaluate the Compare model on the triples the implementation ran. *)
From Coq Require Import List NArith ZArith Bool.
Import ListNotations.
From GMS Require Import Base.CorrLib Codec.C25Arith Codec.C27Convert Codec.C26Compare.

(* type, three values, observed Compare results for the pairs ab ba ac ca bc cb aa bb cc *)
Definition case : Type := (ctype * cval * cval * cval * list Z)%type.

Definition ok (c : case) : bool :=
  let '(t, a, b, c3, out) := c in
  zs_eqb [compare t a b; compare t b a; compare t a c3; compare t c3 a; compare t b c3; compare t c3 b;
          compare t a a; compare t b b; compare t c3 c3] out.

Definition mismatches (cs : list (N * case)) : list N :=
  map fst (filter (fun p => negb (ok (snd p))) cs).
