(* Correspondence definitions for C24: [parse] against the operation list procedures.Parse produced, and the machine's
   result against what CALL did. *)
From Coq Require Import List ZArith NArith Bool.
Import ListNotations.
From GMS Require Import Base.CorrLib Lang.C24Proc.
Open Scope Z_scope.

(* OpCode number (interpreter_operation.go), Index (0 where the operation has none), label number of Target *)
Definition oprec : Type := (Z * Z * N)%type.

Definition erase (o : op) : oprec :=
  match o with
  | OpHandler _ _ => (1, 0, 0%N)
  | OpRaise false => (2, 0, 0%N)       (* OpCode_Signal *)
  | OpRaise true => (10, 0, 0%N)       (* OpCode_Execute of the duplicate-key INSERT *)
  | OpSet _ _ => (6, 0, 0%N)
  | OpExecUser _ _ => (10, 0, 0%N)
  | OpDeclare _ _ => (1, 0, 0%N)
  | OpIf _ i => (8, i, 0%N)
  | OpGoto t i => (9, i, t)
  | OpScopeBegin l i => (13, i, l)
  | OpScopeEnd l i => (14, i, l)
  end.

Definition oprec_eqb (a b : oprec) : bool :=
  let '(x1, y1, z1) := a in let '(x2, y2, z2) := b in (x1 =? x2) && (y1 =? y2) && N.eqb z1 z2.

Inductive observed :=
| RDone (us : list (N * val))   (* CALL succeeded; values of the observed user variables afterwards *)
| RErr                          (* CALL returned an error or panicked *)
| RTimeout.                     (* CALL did not return *)

(* body, parameters (id, value), procedures.Parse output, what CALL did *)
Definition case : Type := (stmt * list (N * val) * list oprec * observed)%type.

Definition val_eqb (a b : val) : bool := option_eqb Z.eqb a b.

Definition fuel : nat := 2500.

Definition ok (c : case) : bool :=
  let '(s, ps, ops, obs) := c in
  list_eqb oprec_eqb (map erase (parse s)) ops &&
  match obs, call s fuel ps [] with
  | RDone us, MDone st =>
      forallb (fun p => val_eqb (match assocN (fst p) (users st) with Some v => v | None => None end) (snd p)) us
  | RErr, MErr | RErr, MPanic => true
  | RTimeout, MNoFuel => true
  | _, MStale => true     (* the run read a variable that was out of scope: the engine uses a stale AST value; not modelled *)
  | _, _ => false
  end.

Definition mismatches (cs : list (N * case)) : list N :=
  map fst (filter (fun p => negb (ok (snd p))) cs).
