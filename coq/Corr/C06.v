(* Correspondence definitions for C06: both spellings of each generated pair evaluated by the model. *)
From Coq Require Import List NArith ZArith Bool.
Import ListNotations.
From GMS Require Import Expr.C05Expr Rel.C06HashIn.

Inductive case :=
(* two predicates used as WHERE filters over the same rows; observed kept positions of each *)
| WherePair (rows : list row) (p1 p2 : expr) (w1 w2 : list N)
(* two select-list expressions; observed values per row *)
| SelPair (rows : list row) (e1 e2 : expr) (v1 v2 : list val)
(* WHERE x IN (static list) on a table without indexes (HashInTuple): left type, left expression, literal elements with
   their types; observed positions kept by WHERE x IN (..) and by WHERE NOT (x IN (..)) *)
| HashInCase (rows : list row) (lt : ty) (x : expr) (es : list (val * ty)) (w wn : list N)
(* inner join of A and B on p (columns of B follow those of A); observed (i, j) pairs in nested-loop order *)
| JoinCase (A B : list row) (p : expr) (obs : list (N * N)).

Fixpoint positions (f : row -> bool) (rows : list row) (i : N) : list N :=
  match rows with
  | [] => []
  | r :: rs => if f r then i :: positions f rs (N.succ i) else positions f rs (N.succ i)
  end.
Definition kept (p : expr) (rows : list row) : list N :=
  positions (fun r => is_true (eval r (push_not (simplify p)))) rows 0%N.

Fixpoint jpos (f : row -> bool) (a : row) (i : N) (B : list row) (j : N) : list (N * N) :=
  match B with
  | [] => []
  | b :: B' => if f (a ++ b) then (i, j) :: jpos f a i B' (N.succ j) else jpos f a i B' (N.succ j)
  end.
Fixpoint jall (f : row -> bool) (A B : list row) (i : N) : list (N * N) :=
  match A with [] => [] | a :: A' => jpos f a i B 0%N ++ jall f A' B (N.succ i) end.

Definition pair_eqb (x y : N * N) : bool := N.eqb (fst x) (fst y) && N.eqb (snd x) (snd y).

Definition ok (c : case) : bool :=
  match c with
  | WherePair rows p1 p2 w1 w2 =>
      wt p1 && wt p2 && list_eqb N.eqb (kept p1 rows) w1 && list_eqb N.eqb (kept p2 rows) w2
  | SelPair rows e1 e2 v1 v2 =>
      wt e1 && wt e2 && list_eqb val_eqb (map (fun r => eval r e1) rows) v1
      && list_eqb val_eqb (map (fun r => eval r e2) rows) v2
  | HashInCase rows lt x es w wn =>
      list_eqb N.eqb (positions (fun r => match hash_in lt (eval r x) es with TT => true | _ => false end) rows 0%N) w &&
      list_eqb N.eqb (positions (fun r => match hash_in lt (eval r x) es with TF => true | _ => false end) rows 0%N) wn
  | JoinCase A B p obs =>
      wt p && list_eqb pair_eqb (jall (fun r => is_true (eval r (push_not (simplify p)))) A B 0%N) obs
  end.

Definition mismatches (cs : list (N * case)) : list N :=
  map fst (filter (fun p => negb (ok (snd p))) cs).
