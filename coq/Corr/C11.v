(* Correspondence for C11: replay the recorded history on the model (fresh plan per statement, prepared
   statements keep their AST, queries = the C02 definition on the current contents) and compare every query
   result with what the engine returned at that point of the history. *)
From Coq Require Import List ZArith NArith Bool.
Import ListNotations.
From GMS Require Import Rel.C02Logical Corr.C02 Phys.C11Cache.

(* initial tables, history, for every OQuery / OExecute in order: (ORDER BY is total, engine observation) *)
Definition case : Type := (db * list op * list (bool * obs))%type.

Fixpoint all_agree (ms : list (res (list row))) (os : list (bool * obs)) : bool :=
  match ms, os with
  | [], [] => true
  | m :: ms', (ordered, o) :: os' => agrees ordered m o && all_agree ms' os'
  | _, _ => false
  end.

Definition ok (c : case) : bool :=
  let '(d, h, os) := c in
  all_agree (snd (run exec_def {| sdb := d; prepared := [] |} h)) os.

Definition mismatches (cs : list (N * case)) : list N :=
  map fst (filter (fun p => negb (ok (snd p))) cs).
