(* Correspondence definitions for C47: run the model of IndexedSet on the op sequences the implementation ran. *)
From Coq Require Import List NArith Arith Bool.
Import ListNotations.
From GMS Require Import Base.CorrLib Sys.IndexedSet.

(* Equals mask, keyer masks, ops, observed result of every op, observed entries of every index at the end *)
Definition case : Type := (N * list N * list op4 * list obs4 * list (list val4))%type.

Fixpoint remove1 (x : val4) (l : list val4) : option (list val4) :=
  match l with
  | [] => None
  | y :: l' => if val4_eqb x y then Some l' else option_map (cons y) (remove1 x l')
  end.
Fixpoint bag_eqb (a b : list val4) : bool :=
  match a with
  | [] => match b with [] => true | _ => false end
  | x :: a' => match remove1 x b with Some b' => bag_eqb a' b' | None => false end
  end.

Definition obs_eqb (m o : obs4) : bool :=
  match m, o with
  | ONone, ONone => true
  | OPanic, OPanic => true
  | OVal x, OVal y => option_eqb val4_eqb x y
  | OList x, OList y => list_eqb val4_eqb x y
  | ORem x, ORem y => option_eqb val4_eqb x y
  | OCount x, OCount y => Nat.eqb x y
  | OBag x, OBag y => bag_eqb x y
  | OErr x, OErr y => Bool.eqb x y
  | _, _ => false
  end.

Definition ok (c : case) : bool :=
  let '(em, keyers, ops, observed, final) := c in
  let '(st, obs) := exec4 em keyers ops in
  list_eqb obs_eqb obs observed && list_eqb bag_eqb (map (@mm_entries val4 val4) st) final.

Definition mismatches (cs : list (N * case)) : list N :=
  map fst (filter (fun p => negb (ok (snd p))) cs).
