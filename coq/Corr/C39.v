(* Correspondence definitions for C39: run the model on the history the engine executed and compare every probe. *)
From Coq Require Import List NArith Bool.
Import ListNotations.
From GMS Require Import Sys.Privs.
Open Scope N_scope.

Definition s_db : str := [100;98].
Definition s_db2 : str := [100;98;50].
Definition s_t : str := [116].
Definition s_s : str := [115].

(* the probe statements of harness/props/c39 in order: required (db, table, privilege) and databases that must be visible.
   Fresh table names (n<k>, d<k>) never carry table-level grants, so one representative name stands for them. *)
Definition probe_defs : list (list op * list str) :=
  [ ([(s_db, s_t, 0)], []);          (* SELECT a FROM db.t *)
    ([(s_db, s_s, 0)], []);          (* SELECT a FROM s *)
    ([(s_db2, s_t, 0)], []);         (* SELECT a FROM db2.t *)
    ([(s_db, s_t, 1)], []);          (* INSERT INTO db.t *)
    ([(s_db2, s_s, 1)], []);         (* INSERT INTO db2.s *)
    ([(s_db, s_s, 2)], []);          (* UPDATE db.s SET b = k *)
    ([(s_db2, s_t, 3)], [s_db]);     (* DELETE FROM db2.t   -- converted to TRUNCATE: current database must be visible *)
    ([(s_db2, s_t, 3)], []);         (* DELETE FROM db2.t WHERE a < 0 *)
    ([(s_db, [110], 4)], []);        (* CREATE TABLE db.n<k> *)
    ([(s_db2, [100], 5)], []);       (* DROP TABLE db2.d<k> *)
    ([(s_db, s_t, 12)], []);         (* CREATE INDEX i<k> ON db.t (b) *)
    ([(s_db, [], 25)], []);          (* CREATE USER x<k>@localhost *)
    ([(s_db, [109;97], 5); (s_db, [109;98], 5)], []) ].   (* DROP TABLE db.ma, db.mb : every target needs DROP *)

(* what the engine executed, in order: statements run by root and probe statements run as an account (index into
   probe_defs, observed allowed flag); probes do not change the access-control state *)
Inductive item : Type := IStmt (s : stmt) | IProbe (u : str) (i : N) (obs : bool).

Definition case : Type := list item.

Fixpoint go (s : state) (c : list item) : bool :=
  match c with
  | [] => true
  | IStmt st :: c' => go (exec s st) c'
  | IProbe u i obs :: c' =>
      match nth_error probe_defs (N.to_nat i) with
      | Some (ops, vis) => Bool.eqb (allowed_stmt s u ops vis) obs && go s c'
      | None => false
      end
  end.

Definition ok (c : case) : bool := go init c.

Definition mismatches (cs : list (N * case)) : list N :=
  map fst (filter (fun p => negb (ok (snd p))) cs).
