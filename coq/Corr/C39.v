(* Correspondence definitions for C39: run the model on the history the engine executed and compare every probe. *)
From Coq Require Import List NArith Bool.
Import ListNotations.
From GMS Require Import Sys.Privs.
Open Scope N_scope.

Definition s_db : str := [100;98].
Definition s_db2 : str := [100;98;50].
Definition s_t : str := [116].
Definition s_s : str := [115].

(* the probe statements of harness/props/c39 in order: required (db, table, privilege) and databases that must be visible.
   Fresh table names (n<k>, d<k>) never carry table-level grants, so one representative name stands for them. *)
Definition probe_defs : list (list op * list str) :=
  [ ([(s_db, s_t, 0)], []);          (* SELECT a FROM db.t *)
    ([(s_db, s_s, 0)], []);          (* SELECT a FROM s *)
    ([(s_db2, s_t, 0)], []);         (* SELECT a FROM db2.t *)
    ([(s_db, s_t, 1)], []);          (* INSERT INTO db.t *)
    ([(s_db2, s_s, 1)], []);         (* INSERT INTO db2.s *)
    ([(s_db, s_s, 2)], []);          (* UPDATE db.s SET b = k *)
    ([(s_db2, s_t, 3)], [s_db]);     (* DELETE FROM db2.t   -- converted to TRUNCATE: current database must be visible *)
    ([(s_db2, s_t, 3)], []);         (* DELETE FROM db2.t WHERE a < 0 *)
    ([(s_db, [110], 4)], []);        (* CREATE TABLE db.n<k> *)
    ([(s_db2, [100], 5)], []);       (* DROP TABLE db2.d<k> *)
    ([(s_db, s_t, 12)], []);         (* CREATE INDEX i<k> ON db.t (b) *)
    ([(s_db, [], 25)], []) ].        (* CREATE USER x<k>@localhost *)

Definition probe_users : list str := [[117;49]; [117;50]; [117;51]].

Definition all_probes : list (str * (list op * list str)) :=
  flat_map (fun u => map (fun pd => (u, pd)) probe_defs) probe_users.

(* history; observed allowed flag per probe, in the order of all_probes *)
Definition case : Type := (list stmt * list bool)%type.

Fixpoint cmp (s : state) (ps : list (str * (list op * list str))) (obs : list bool) : bool :=
  match ps, obs with
  | [], [] => true
  | (u, (ops, vis)) :: ps', o :: obs' => Bool.eqb (allowed_stmt s u ops vis) o && cmp s ps' obs'
  | _, _ => false
  end.

Definition ok (c : case) : bool := let '(h, obs) := c in cmp (run init h) all_probes obs.

Definition mismatches (cs : list (N * case)) : list N :=
  map fst (filter (fun p => negb (ok (snd p))) cs).
