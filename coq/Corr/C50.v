(* Correspondence definitions for C50: evaluate the writer/reader model on the cases the implementation ran. *)
From Coq Require Import List NArith ZArith Bool.
Import ListNotations.
From GMS Require Import Codec.Outfile Codec.C50Fmt.

Definition val_eqb (a b : val) : bool :=
  match a, b with
  | VNull, VNull => true
  | VInt x, VInt y => Z.eqb x y
  | VStr x, VStr y => bytes_eq x y
  | VRaw x, VRaw y => bytes_eq x y
  | _, _ => false
  end.

Fixpoint leqb {A} (eqb : A -> A -> bool) (a b : list A) : bool :=
  match a, b with
  | [], [] => true
  | x :: a', y :: b' => eqb x y && leqb eqb a' b'
  | _, _ => false
  end.

Definition rows_eqb : list (list val) -> list (list val) -> bool := leqb (leqb val_eqb).

Inductive case :=
(* options, column types, rows of the source table, observed file bytes, observed content of the typed copy after
   LOAD DATA (None = the statement failed), observed content of the all-TEXT copy after LOAD DATA *)
| RoundTrip (o : opts) (tys : list colty) (rows : list (list val)) (file : bytes)
            (typed : option (list (list val))) (text : list (list val))
(* a hand-made file loaded into an all-TEXT table with [n] columns *)
| ReadOnly (o : opts) (n : nat) (file : bytes) (text : list (list val))
(* general round trip: table column types, exported / loaded column list (indices into tys, in statement order),
   IGNORE n LINES, the exported rows projected on the column list, file bytes, typed reload (all table columns),
   all-TEXT reload (as many columns as exported, same IGNORE) *)
| RoundTripX (o : opts) (tys : list colty) (cols : list nat) (ign : nat) (rows : list (list xval)) (file : bytes)
             (typed : option (list (list xval))) (text : list (list val)).

Definition text_ok (o : opts) (n : nat) (file : bytes) (text : list (list val)) : bool :=
  match load o (repeat TText n) file with
  | Loaded r => rows_eqb r text
  | _ => false
  end.

Definition ok (c : case) : bool :=
  match c with
  | RoundTrip o tys rows file typed text =>
      bytes_eq (dump o tys rows) file
      && text_ok o (length tys) file text
      && match load o tys file, typed with
         | Loaded r, Some r' => rows_eqb r r'
         | Loaded _, None => false
         | ConvOutside, _ => true
         | NoTermination, _ => false
         end
  | ReadOnly o n file text => text_ok o n file text
  | RoundTripX o tys cols ign rows file typed text =>
      let ptys := map (fun j => nth j tys TInt) cols in
      bytes_eq (dump o ptys (map (map to_val_x) rows)) file
      && match load_ignore ign o (repeat TText (length cols)) file with
         | Loaded r => rows_eqb r text
         | _ => false
         end
      && match load_cols ign o tys cols file, typed with
         | Loaded r, Some r' => rows_eqb r (map (map to_val_x) r')
         | Loaded _, None => false
         | ConvOutside, _ => true
         | NoTermination, _ => false
         end
  end.

Definition mismatches (cs : list (N * case)) : list N :=
  map fst (filter (fun p => negb (ok (snd p))) cs).
