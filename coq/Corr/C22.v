(* Correspondence definitions for C22: the model printer against the SHOW CREATE TABLE text the engine produced. *)
From Coq Require Import List NArith Bool.
Import ListNotations.
From GMS Require Import Lang.ShowCreate.

(* the schema the driver generated (in catalog-normal form) and the text SHOW CREATE TABLE returned *)
Definition case : Type := (table * str)%type.

Definition ok (c : case) : bool :=
  let '(t, obs) := c in
  str_eqb (print_table t) obs &&
  (negb (wf_table t) ||
   match parse_table obs with
   | Some t' => str_eqb (print_table t') obs
   | None => false
   end).

Definition mismatches (cs : list (N * case)) : list N :=
  map fst (filter (fun p => negb (ok (snd p))) cs).
