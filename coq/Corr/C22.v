(* Correspondence definitions for C22: the model printer against the SHOW CREATE TABLE text the engine produced. *)
From Coq Require Import List NArith Bool.
Import ListNotations.
From GMS Require Import Lang.ShowCreate Lang.C22Objects.

(* what the driver observed:
   CTable: the schema it generated (catalog-normal form) and the text SHOW CREATE TABLE returned;
   CView:  view name, the definition text after AS, and the text SHOW CREATE VIEW returned;
   CEcho:  object name, the CREATE TRIGGER / PROCEDURE statement, and the text SHOW CREATE TRIGGER / PROCEDURE returned *)
Inductive case :=
| CTable (t : table) (obs : str)
| CView (name text obs : str)
| CEcho (name stmt obs : str).

Definition ok (c : case) : bool :=
  match c with
  | CTable t obs =>
    str_eqb (print_table t) obs &&
    (negb (wf_table t) ||
     match parse_table obs with
     | Some t' => str_eqb (print_table t') obs
     | None => false
     end)
  | CView name text obs =>
    str_eqb (print_view name text) obs &&
    (negb (no_backtick name) ||
     match parse_view obs with Some (n, x) => str_eqb n name && str_eqb x text | None => false end)
  | CEcho name stmt obs =>
    match create_obj [] name stmt with
    | Some c' => match show_obj c' name with Some s => str_eqb s obs | None => false end
    | None => false
    end
  end.

Definition mismatches (cs : list (N * case)) : list N :=
  map fst (filter (fun p => negb (ok (snd p))) cs).
