(* Correspondence definitions for C29: the Compare / WriteWeightString model with the weight function replaced
   by the finite table of the weights the real Sorter returned for the runes of the case. *)
From Coq Require Import List NArith ZArith Bool.
Import ListNotations.
From GMS Require Import Codec.Charset Codec.Collation Codec.CollationLike.
Open Scope N_scope.

(* CCmp: binary collation?, a, b, (rune, weight) table, observed Compare(a,b) in {-1,0,1}, observed weight strings.
   CLike: the nodes of the real LikeMatcher (Some sortOrder = likeMatcherRune, None = likeMatcherAny), the weights of
   the subject's runes (None = malformed), observed Match. *)
Inductive case : Type :=
| CCmp (bin : bool) (a b : list N) (tab : list (N * Z)) (obs : Z) (wsa wsb : list N)
| CLike (nodes : list (option Z)) (s : list (option Z)) (obs : bool).

Fixpoint lookup (t : list (N * Z)) (r : N) : Z :=
  match t with
  | [] => 0%Z
  | (k, v) :: t' => if k =? r then v else lookup t' r
  end.

Definition cmp_z (c : comparison) : Z := match c with Lt => (-1)%Z | Eq => 0%Z | Gt => 1%Z end.

Definition to_node (o : option Z) : node := match o with Some so => NRune so | None => NAny end.
Definition to_item (o : option Z) : item := match o with Some w => Good w | None => Bad end.

Definition ok (c : case) : bool :=
  match c with
  | CCmp bin a b tab obs wsa wsb =>
      let w := lookup tab in
      (cmp_z (compare w bin a b) =? obs)%Z &&
      ns_eqb (weight_string w bin a) wsa && ns_eqb (weight_string w bin b) wsb
  | CLike nodes s obs =>
      match like_match 4000 (map to_node nodes) (map to_item s) with
      | Some r => Bool.eqb r obs
      | None => false
      end
  end.

Definition mismatches (cs : list (N * case)) : list N :=
  map fst (filter (fun p => negb (ok (snd p))) cs).
