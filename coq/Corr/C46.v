(* Correspondence definitions for C46: evaluate the range model on the cases the implementation ran. *)
From Coq Require Import List NArith ZArith Bool.
Import ListNotations.
From GMS Require Import Base.CorrLib Range.Cut Range.MRange.

(* short constructors for the emitted terms *)
Definition BN := BelowNull.
Definition AN := AboveNull.
Definition AA := AboveAll.
Definition B := Below.
Definition A := Above.
Definition R := mkR.

Definition cut_eqb (a b : cut) : bool :=
  match a, b with
  | BelowNull, BelowNull | AboveNull, AboveNull | AboveAll, AboveAll => true
  | Below x, Below y | Above x, Above y => Z.eqb x y
  | _, _ => false
  end.
Definition rce_eqb (a b : rce) : bool := cut_eqb (lo a) (lo b) && cut_eqb (hi a) (hi b).
Definition range_eqb : range -> range -> bool := list_eqb rce_eqb.
Definition ranges_eqb : list range -> list range -> bool := list_eqb range_eqb.
Definition cmpZ (c : comparison) : Z := match c with Lt => (-1)%Z | Eq => 0%Z | Gt => 1%Z end.

(* observations of the single-column operations on (r, o) *)
Definition col_obs : Type :=
  (bool * bool * (rce * bool) * list rce * bool * (rce * bool) * option rce * Z * bool)%type.
(* observations of the multi-column operations on (a, b) *)
Definition range_obs : Type :=
  (range * option range * bool * bool * option Z * (list range * bool) * bool * option range * option range)%type.

Inductive case : Type :=
| CCut (a b : cut) (c : Z)
| CCol (r o : rce) (obs : col_obs)
| CSimp (rs out : list rce)
| CRange (a b : range) (obs : range_obs)
(* input, FindConnections observations per iteration, step bound, result: Some out | None = "overlapping
   ranges" error; hung = the step bound was exceeded *)
| CRor (rs : list range) (finds : list (list range)) (fuel : Z) (res : option (list range)) (hung : bool).

Definition ok (c : case) : bool :=
  match c with
  | CCut a b z => Z.eqb (cmpZ (cut_cmp a b)) z
  | CCol r o (emp, conn, ov, sub, subset, ti, tu, ty, eq) =>
    Bool.eqb (is_empty r) emp && Bool.eqb (is_connected r o) conn &&
    (let m := overlaps r o in rce_eqb (fst m) (fst ov) && Bool.eqb (snd m) (snd ov)) &&
    list_eqb rce_eqb (subtract r o) sub && Bool.eqb (is_subset_of r o) subset &&
    (let m := try_intersect r o in rce_eqb (fst m) (fst ti) && Bool.eqb (snd m) (snd ti)) &&
    option_eqb rce_eqb (try_union r o) tu && Z.eqb (Z.of_N (rtype r)) ty && Bool.eqb (rce_equals r o) eq
  | CSimp rs out => list_eqb rce_eqb (simplify_range_column rs) out
  | CRange a b (inter, merge, subset, ovl, cmp, ro, eq, ir, ir4) =>
    range_eqb (r_intersect a b) inter && option_eqb range_eqb (try_merge a b) merge &&
    Bool.eqb (r_is_subset_of a b) subset && Bool.eqb (r_overlaps a b) ovl &&
    option_eqb Z.eqb (option_map cmpZ (r_compare a b)) cmp &&
    (match remove_overlap_top a b with
     | Some (l, f) => ranges_eqb l (fst ro) && Bool.eqb f (snd ro)
     | None => false end) &&
    Bool.eqb (r_equals a b) eq && option_eqb range_eqb (intersect_ranges [a; b]) ir &&
    option_eqb range_eqb (intersect_ranges [[]; b; []; a; b]) ir4
  | CRor rs finds fuel res hung =>
    match fst (remove_overlapping_ranges (Z.to_nat fuel) finds rs), res, hung with
    | ROk out, Some o, false => ranges_eqb out o
    | RErrOverlap, None, false => true
    | RFuel, _, true => true
    | _, _, _ => false
    end
  end.

Definition mismatches (cs : list (N * case)) : list N :=
  map fst (filter (fun p => negb (ok (snd p))) cs).
