(* Correspondence for C33: the wrapper model is run with the oracle instantiated by the match lists the
   implementation itself reported (successive REGEXP_INSTR calls), and its LIKE / INSTR / SUBSTR / REPLACE answers are
   compared with what the SQL functions returned.  Subjects are ASCII (1 unit = 1 byte = 1 UTF-16 unit). *)
From Coq Require Import List NArith Arith Bool.
Import ListNotations.
From GMS Require Import Sys.C33Regex Sys.C33Matcher.

Definition str := list N.
Fixpoint str_eqb (a b : str) : bool :=
  match a, b with
  | [], [] => true
  | x :: a', y :: b' => N.eqb x y && str_eqb a' b'
  | _, _ => false
  end.

Definition tonat (l : list (N * N)) : list (nat * nat) := map (fun p => (N.to_nat (fst p), N.to_nat (snd p))) l.

Record case := mkCase {
  subj : str; repl : str; pos : N; occ : N;
  locs1 : list (N * N);     (* matches reported from position 1 (offsets from the search start) *)
  locsp : list (N * N);     (* matches reported from position pos *)
  o_like : bool; o_instr0 : N; o_instr1 : N; o_substr : option str;
  o_replk : str; o_repl0 : str;
  pat : option re           (* the pattern as an AST when it lies in the subset of the reference matcher *)
}.

Fixpoint locs_eqb (a b : list (nat * nat)) : bool :=
  match a, b with
  | [], [] => true
  | (x1, y1) :: a', (x2, y2) :: b' => Nat.eqb x1 x2 && Nat.eqb y1 y2 && locs_eqb a' b'
  | _, _ => false
  end.

(* layer 2: the engine's matches from position 1 against the reference matcher: the first match always; the whole
   list when the reference meets no empty match on the way *)
Definition ref_ok (c : case) : bool :=
  match pat c with
  | None => true
  | Some r =>
      let obs := tonat (locs1 c) in
      match find r (subj c), obs with
      | None, [] => true
      | Some (a, b), (a', b') :: _ => Nat.eqb a a' && Nat.eqb b b'
      | _, _ => false
      end &&
      let '(l, complete) := find_all_from (S (length (subj c))) r [] (subj c) 0 in
      if complete then locs_eqb l obs else true
  end.


(* ascending / non-overlapping / in bounds, decided *)
Fixpoint wf_locsb (from n : nat) (l : list (nat * nat)) : bool :=
  match l with
  | [] => true
  | (a, b) :: l' => (from <=? a)%nat && (a <=? b)%nat && (b <=? n)%nat && wf_locsb b n l'
  end.

Definition ok (c : case) : bool :=
  let p := N.to_nat (pos c) in
  let k := N.to_nat (occ c) in
  let tp := skipn (p - 1) (subj c) in
  let oracle := fun t : str => if str_eqb t tp then tonat (locsp c) else tonat (locs1 c) in
  wf_locsb 0 (length (subj c)) (tonat (locs1 c)) && wf_locsb 0 (length tp) (tonat (locsp c)) &&
  Bool.eqb (like N oracle (subj c)) (o_like c) &&
  N.eqb (N.of_nat (instr N oracle (subj c) p k false)) (o_instr0 c) &&
  N.eqb (N.of_nat (instr N oracle (subj c) p k true)) (o_instr1 c) &&
  match substr N oracle (subj c) p k, o_substr c with
  | None, None => true
  | Some a, Some b => str_eqb a b
  | _, _ => false
  end &&
  str_eqb (replace_cgo N oracle (subj c) (repl c) p k) (o_replk c) &&
  str_eqb (replace_cgo N oracle (subj c) (repl c) p 0) (o_repl0 c) &&
  ref_ok c.

Definition mismatches (cs : list (N * case)) : list N :=
  map fst (filter (fun p => negb (ok (snd p))) cs).
