(* Correspondence definitions for C07: evaluate the key model on the cases the implementation ran. *)
From Coq Require Import List NArith ZArith Bool.
Import ListNotations.
From GMS Require Import Phys.C07HashKey Phys.C07Ops.

(* rune weights used by the correspondence: code point (binary collations) or ASCII case folding (the generated
   strings are ASCII; only equality of weights matters) *)
Definition w_bin (c : N) : N := c.
(* case folding of A-Z and of the accented letters the generator uses (base letter, lower case) *)
Definition w_ci (c : N) : N :=
  if (N.leb 65 c && N.leb c 90)%bool then (c + 32)%N
  else if (N.eqb c 233 || N.eqb c 232 || N.eqb c 234 || N.eqb c 235 || N.eqb c 201 || N.eqb c 200 || N.eqb c 202 || N.eqb c 203)%bool then 101%N
  else if (N.eqb c 225 || N.eqb c 224 || N.eqb c 228 || N.eqb c 193 || N.eqb c 192 || N.eqb c 196)%bool then 97%N
  else c.
Definition wsel (ci : bool) : N -> N := if ci then w_ci else w_bin.

Inductive case :=
(* hash.HashOf(sch, r1) == hash.HashOf(sch, r2) observed as [same] *)
| PairCase (ci : bool) (sch : list hcol) (r1 r2 : list hv) (same : bool)
(* number of rows an operator keeps for the input values: GROUP BY (schema) / DISTINCT, UNION (no schema) *)
| DedupCase (ci : bool) (c : hcol) (vals : list hv) (count : N)
(* number of rows an operator keeps for multi-column input rows (row keys with the NUL separator) *)
| DedupRowsCase (ci : bool) (sch : list hcol) (rows : list (list hv)) (count : N)
(* COUNT(DISTINCT ...) over rows *)
| CdCase (rows : list (list hv)) (count : N)
(* hash.HashOfSimple(a, t) == hash.HashOfSimple(b, t) observed as [same] *)
| SimpleCase (ci : bool) (t : stype) (a b : hv) (same : bool)
(* a set operation over two row lists (nil schema, as buildSetOp wires it): 0 INTERSECT, 1 INTERSECT ALL, 2 EXCEPT,
   3 EXCEPT ALL, 4 UNION; [out] = the rows the engine returned, in order *)
| SetOpCase (op : N) (ls rs out : list (list hv))
(* number of rows of  a JOIN b ON a.x = b.y  planned as a hash join whose HashLookup compares under type t *)
| JoinCase (ci : bool) (t : stype) (xs ys : list hv) (count : N)
(* number of rows with  x IN (literals)  TRUE, HashInTuple under compare type t *)
| InCase (ci : bool) (t : stype) (xs lits : list hv) (count : N).

Definition hv_eqb (a b : hv) : bool :=
  match a, b with
  | HNull, HNull => true
  | HInt x, HInt y => Z.eqb x y
  | HDec m s, HDec m' s' => Z.eqb m m' && N.eqb s s'
  | HStr x, HStr y => bytes_eqb x y
  | _, _ => false
  end.
Fixpoint list_eqb {X} (e : X -> X -> bool) (a b : list X) : bool :=
  match a, b with
  | [], [] => true
  | x :: a', y :: b' => e x y && list_eqb e a' b'
  | _, _ => false
  end.

Definition setop (op : N) (ls rs : list (list hv)) : list (list hv) :=
  let key := row_key w_bin [] in
  match op with
  | 0 => intersect_distinct key bytes_eqb ls rs
  | 1 => intersect_all key bytes_eqb ls rs
  | 2 => except_distinct key bytes_eqb (row_key w_bin [] []) ls rs
  | 3 => except_all key bytes_eqb (row_key w_bin [] []) ls rs
  | _ => union_distinct key bytes_eqb ls rs
  end%N.

(* the join condition a.x = b.y: TRUE only between non-NULL '='-equal values *)
Definition eq_true (w : N -> N) (a b : hv) : bool := negb (is_null a) && negb (is_null b) && sql_eq w a b.

Definition ok (c : case) : bool :=
  match c with
  | PairCase ci sch r1 r2 same =>
      Bool.eqb (bytes_eqb (row_key (wsel ci) sch r1) (row_key (wsel ci) sch r2)) same
  | DedupCase ci c vals count =>
      N.eqb (N.of_nat (length (dedup (key1 (wsel ci) c) bytes_eqb vals))) count
  | DedupRowsCase ci sch rows count =>
      N.eqb (N.of_nat (length (dedup (row_key (wsel ci) sch) bytes_eqb rows))) count
  | CdCase rows count =>
      N.eqb (N.of_nat (count_distinct rows)) count
  | SimpleCase ci t a b same =>
      Bool.eqb (okey_eqb (simple_key (wsel ci) t a) (simple_key (wsel ci) t b)) same
  | SetOpCase op ls rs out => list_eqb (list_eqb hv_eqb) (setop op ls rs) out
  | JoinCase ci t xs ys count =>
      let sk := simple_key (wsel ci) t in
      N.eqb (N.of_nat (length (hash_join sk sk okey_eqb (eq_true (wsel ci)) xs ys))) count
  | InCase ci t xs lits count =>
      let sk := simple_key (wsel ci) t in
      N.eqb (N.of_nat (length (filter (fun x => match hash_in sk x lits with Some true => true | _ => false end) xs))) count
  end.

Definition mismatches (cs : list (N * case)) : list N :=
  map fst (filter (fun p => negb (ok (snd p))) cs).
