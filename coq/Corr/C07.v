(* Correspondence definitions for C07: evaluate the key model on the cases the implementation ran. *)
From Coq Require Import List NArith ZArith Bool.
Import ListNotations.
From GMS Require Import Phys.C07HashKey.

(* rune weights used by the correspondence: code point (binary collations) or ASCII case folding (the generated
   strings are ASCII; only equality of weights matters) *)
Definition w_bin (c : N) : N := c.
(* case folding of A-Z and of the accented letters the generator uses (base letter, lower case) *)
Definition w_ci (c : N) : N :=
  if (N.leb 65 c && N.leb c 90)%bool then (c + 32)%N
  else if (N.eqb c 233 || N.eqb c 232 || N.eqb c 234 || N.eqb c 235 || N.eqb c 201 || N.eqb c 200 || N.eqb c 202 || N.eqb c 203)%bool then 101%N
  else if (N.eqb c 225 || N.eqb c 224 || N.eqb c 228 || N.eqb c 193 || N.eqb c 192 || N.eqb c 196)%bool then 97%N
  else c.
Definition wsel (ci : bool) : N -> N := if ci then w_ci else w_bin.

Inductive case :=
(* hash.HashOf(sch, r1) == hash.HashOf(sch, r2) observed as [same] *)
| PairCase (ci : bool) (sch : list hcol) (r1 r2 : list hv) (same : bool)
(* number of rows an operator keeps for the input values: GROUP BY (schema) / DISTINCT, UNION (no schema) *)
| DedupCase (ci : bool) (c : hcol) (vals : list hv) (count : N)
(* number of rows an operator keeps for multi-column input rows (row keys with the NUL separator) *)
| DedupRowsCase (ci : bool) (sch : list hcol) (rows : list (list hv)) (count : N)
(* COUNT(DISTINCT ...) over rows *)
| CdCase (rows : list (list hv)) (count : N).

Definition ok (c : case) : bool :=
  match c with
  | PairCase ci sch r1 r2 same =>
      Bool.eqb (bytes_eqb (row_key (wsel ci) sch r1) (row_key (wsel ci) sch r2)) same
  | DedupCase ci c vals count =>
      N.eqb (N.of_nat (length (dedup (key1 (wsel ci) c) bytes_eqb vals))) count
  | DedupRowsCase ci sch rows count =>
      N.eqb (N.of_nat (length (dedup (row_key (wsel ci) sch) bytes_eqb rows))) count
  | CdCase rows count =>
      N.eqb (N.of_nat (length (dedup cd_key bytes_eqb rows))) count
  end.

Definition mismatches (cs : list (N * case)) : list N :=
  map fst (filter (fun p => negb (ok (snd p))) cs).
