(* Correspondence definitions for C07: evaluate the key model on the cases the implementation ran. *)
From Coq Require Import List NArith ZArith Bool.
Import ListNotations.
From GMS Require Import Phys.C07HashKey.

(* rune weights used by the correspondence: code point (binary collations) or ASCII case folding (the generated
   strings are ASCII; only equality of weights matters) *)
Definition w_bin (c : N) : N := c.
Definition w_ci (c : N) : N := if (N.leb 65 c && N.leb c 90)%bool then (c + 32)%N else c.
Definition wsel (ci : bool) : N -> N := if ci then w_ci else w_bin.

Inductive case :=
(* hash.HashOf(sch, r1) == hash.HashOf(sch, r2) observed as [same] *)
| PairCase (ci : bool) (sch : list hcol) (r1 r2 : list hv) (same : bool)
(* number of rows an operator keeps for the input values: GROUP BY (schema) / DISTINCT, UNION (no schema) *)
| DedupCase (ci : bool) (c : hcol) (vals : list hv) (count : N)
(* COUNT(DISTINCT ...) over rows *)
| CdCase (rows : list (list hv)) (count : N).

Definition ok (c : case) : bool :=
  match c with
  | PairCase ci sch r1 r2 same =>
      Bool.eqb (bytes_eqb (row_key (wsel ci) sch r1) (row_key (wsel ci) sch r2)) same
  | DedupCase ci c vals count =>
      N.eqb (N.of_nat (length (dedup (key1 (wsel ci) c) bytes_eqb vals))) count
  | CdCase rows count =>
      N.eqb (N.of_nat (length (dedup cd_key bytes_eqb rows))) count
  end.

Definition mismatches (cs : list (N * case)) : list N :=
  map fst (filter (fun p => negb (ok (snd p))) cs).
