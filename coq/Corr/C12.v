(* Correspondence definitions for C12: the model of a bound SELECT over the integer fragment, evaluated on the
   bindings / statement / table the implementation ran (Engine.QueryWithBindings), compared as bags. *)
From Coq Require Import List ZArith NArith Bool.
Import ListNotations.
From GMS Require Import Lang.C12Prepared.

(* bindings, projection, WHERE, table rows [a; b] in key order, observed rows (None = error) *)
Definition case : Type := (list val * list expr * expr * list row * option (list row))%type.

Definition val_eqb (x y : val) : bool :=
  match x, y with VNull, VNull => true | VInt a, VInt b => Z.eqb a b | _, _ => false end.

Fixpoint row_eqb (a b : row) : bool :=
  match a, b with
  | [], [] => true
  | x :: a', y :: b' => val_eqb x y && row_eqb a' b'
  | _, _ => false
  end.

Fixpoint remove_first (r : row) (l : list row) : option (list row) :=
  match l with
  | [] => None
  | x :: l' => if row_eqb r x then Some l' else option_map (cons x) (remove_first r l')
  end.

Fixpoint bag_eqb (a b : list row) : bool :=
  match a with
  | [] => match b with [] => true | _ => false end
  | r :: a' => match remove_first r b with Some b' => bag_eqb a' b' | None => false end
  end.

Definition ok (c : case) : bool :=
  let '(bs, proj, w, d, observed) := c in
  let bound := select_rows bs proj w d in
  let inlined := select_rows [] (map (subst bs) proj) (subst bs w) d in
  match bound, inlined, observed with
  | Some m, Some m', Some o => bag_eqb m o && bag_eqb m' o
  | None, None, None => true
  | _, _, _ => false
  end.

Definition mismatches (cs : list (N * case)) : list N :=
  map fst (filter (fun p => negb (ok (snd p))) cs).
