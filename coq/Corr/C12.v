(* Correspondence definitions for C12.
   (1) per typed argument: the literal the real code builds on the live path (ExprFromValue ; Builder.ConvertVal) and the
       literal of engine.go bindingsToExprs, compared with handler_lit / engine_lit (type and value);
   (2) the statement (SELECT / INSERT / UPDATE / DELETE over t(a, b, c, d)) run through Engine.QueryWithBindings:
       result rows and table afterwards compared as bags with the model evaluated (a) with the values of the typed
       bindings and (b) on the statement with the literals parsed from the printed text substituted. *)
From Coq Require Import List ZArith NArith Bool String Ascii Decimal.
Import ListNotations.
From GMS Require Import Lang.C12Prepared Lang.C12Binding.

(* observed literal: its type and value (None = a value kind the model does not interpret) *)
Definition obs_lit : Type := (ltype * option val)%type.

(* typed arguments with the two observed literals (None = the real code returned an error),
   statement, table rows [a; b; c; d] in key order, observed (result rows, table afterwards) (None = error) *)
Definition case : Type :=
  (list (wtype * pval * option obs_lit * option obs_lit) * stmt * list row * option (list row * list row))%type.

Definition val_eqb (x y : val) : bool :=
  match x, y with
  | VNull, VNull => true
  | VInt a, VInt b => Z.eqb a b
  | VDec a s, VDec b t => Z.eqb a b && N.eqb s t
  | VStr a, VStr b => String.eqb a b
  | _, _ => false
  end.

Fixpoint row_eqb (a b : row) : bool :=
  match a, b with
  | [], [] => true
  | x :: a', y :: b' => val_eqb x y && row_eqb a' b'
  | _, _ => false
  end.

Fixpoint remove_first (r : row) (l : list row) : option (list row) :=
  match l with
  | [] => None
  | x :: l' => if row_eqb r x then Some l' else option_map (cons x) (remove_first r l')
  end.

Fixpoint bag_eqb (a b : list row) : bool :=
  match a with
  | [] => match b with [] => true | _ => false end
  | r :: a' => match remove_first r b with Some b' => bag_eqb a' b' | None => false end
  end.

Definition wtype_eqb (a b : wtype) : bool :=
  match a, b with
  | WNull, WNull | WInt8, WInt8 | WInt16, WInt16 | WInt24, WInt24 | WInt32, WInt32 | WInt64, WInt64
  | WUint8, WUint8 | WUint16, WUint16 | WUint24, WUint24 | WUint32, WUint32 | WUint64, WUint64
  | WFloat32, WFloat32 | WFloat64, WFloat64 | WDecimal, WDecimal | WChar, WChar | WVarChar, WVarChar | WText, WText
  | WBinary, WBinary | WVarBinary, WVarBinary | WBlob, WBlob | WDate, WDate | WDatetime, WDatetime
  | WTimestamp, WTimestamp | WTime, WTime | WYear, WYear | WBit, WBit | WEnum, WEnum | WSet, WSet | WJSON, WJSON
  | WGeometry, WGeometry | WExpression, WExpression => true
  | _, _ => false
  end.

Definition ltype_eqb (a b : ltype) : bool :=
  match a, b with
  | TInt8, TInt8 | TUint8, TUint8 | TInt16, TInt16 | TUint16, TUint16 | TInt32, TInt32 | TUint32, TUint32
  | TInt64, TInt64 | TUint64, TUint64 | TFloat64, TFloat64 | TDecimalInternal, TDecimalInternal
  | TDecimalLit, TDecimalLit | TLongText, TLongText | TTime, TTime | TYear, TYear | TBit64, TBit64 | TNull, TNull => true
  | TString w n, TString w' n' | TBinary w n, TBinary w' n' | TDatetime w n, TDatetime w' n' => wtype_eqb w w' && N.eqb n n'
  | _, _ => false
  end.

Definition lit_ok (model : option lit) (observed : option obs_lit) : bool :=
  match model, observed with
  | Some l, Some (t, v) =>
      ltype_eqb (snd l) t &&
      match denote l, v with Some x, Some y => val_eqb x y | None, None => true | _, _ => false end
  | None, None => true
  | _, _ => false
  end.

Definition out_ok (m : option (list row * db)) (o : option (list row * list row)) : bool :=
  match m, o with
  | Some (rs, d'), Some (ors, od) => bag_eqb rs ors && bag_eqb d' od
  | None, None => true
  | _, _ => false
  end.

Definition ok (c : case) : bool :=
  let '(ps, s, d, observed) := c in
  forallb (fun x => let '(t, p, oh, oe) := x in
                    lit_ok (handler_lit (binding_of t p)) oh &&
                    lit_ok (engine_lit (binding_of t p)) oe) ps &&
  let bound := map (fun x => let '(t, p, _, _) := x in bound_value t p) ps in
  let texts := map (fun x => let '(_, p, _, _) := x in text_value p) ps in
  out_ok (exec bound s d) observed && out_ok (exec [] (subst_stmt texts s) d) observed.

Definition mismatches (cs : list (N * case)) : list N :=
  map fst (filter (fun p => negb (ok (snd p))) cs).
