(* Correspondence for C21: the ALTER model against what the engine did, statement by statement. *)
From Coq Require Import List NArith ZArith Bool.
Import ListNotations.
From GMS Require Import Store.C21Alter.
Open Scope N_scope.

(* initial table; per statement: the op, whether the engine accepted it, and the table afterwards
   (name, DESCRIBE as column definitions, SELECT * ORDER BY id as name-indexed rows) *)
Definition case : Type := (table * list (op * (bool * table)))%type.

Definition ty_eqb (a b : ty) : bool :=
  match a, b with
  | TInt l h, TInt l' h' => Z.eqb l l' && Z.eqb h h'
  | TStr n, TStr n' => N.eqb n n'
  | TEnum a, TEnum b => (fix le (a b : list (list N)) : bool :=
                           match a, b with
                           | [], [] => true
                           | x :: a', y :: b' => bytes_eqb x y && le a' b'
                           | _, _ => false
                           end) a b
  | _, _ => false
  end.
Definition col_eqb (a b : col) : bool := N.eqb (cn a) (cn b) && ty_eqb (cty a) (cty b) && Bool.eqb (cnullable a) (cnullable b).

Fixpoint list_eqb {A} (e : A -> A -> bool) (a b : list A) : bool :=
  match a, b with
  | [], [] => true
  | x :: a', y :: b' => e x y && list_eqb e a' b'
  | _, _ => false
  end.

Definition val_eqb (a b : val) : bool :=
  match a, b with
  | VNull, VNull => true
  | VInt x, VInt y => Z.eqb x y
  | VStr x, VStr y => list_eqb N.eqb x y
  | _, _ => false
  end.
Definition oval_eqb (a b : option val) : bool :=
  match a, b with Some x, Some y => val_eqb x y | None, None => true | _, _ => false end.

(* rows agree on every column of the schema *)
Definition row_eqb (ns : list name) (r r' : row) : bool := forallb (fun n => oval_eqb (lookup n r) (lookup n r')) ns.

Definition table_eqb (a b : table) : bool :=
  N.eqb (tn a) (tn b) && list_eqb col_eqb (cols a) (cols b) && list_eqb (row_eqb (names a)) (rows a) (rows b).

Fixpoint steps_ok (t : table) (l : list (op * (bool * table))) : bool :=
  match l with
  | [] => true
  | (o, (okb, obs)) :: l' =>
    let r := alter o t in
    let t' := exec o t in
    Bool.eqb okb (match r with Some _ => true | None => false end) && invb t' && table_eqb t' obs && steps_ok t' l'
  end.

Definition ok (c : case) : bool := let '(t, l) := c in invb t && steps_ok t l.

Definition mismatches (cs : list (N * case)) : list N :=
  map fst (filter (fun p => negb (ok (snd p))) cs).
