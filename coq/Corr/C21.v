(* Correspondence for C21: the ALTER model against what the engine did, statement by statement. *)
From Coq Require Import List NArith ZArith Bool.
Import ListNotations.
From GMS Require Import Store.C21Alter.
Open Scope N_scope.

(* initial table; per statement: the op, whether the engine accepted it, and the table afterwards
   (name, DESCRIBE as column definitions, SELECT * ORDER BY id as name-indexed rows) *)
Definition case : Type := (table * list (op * (bool * table)))%type.

Fixpoint bl_eqb (a b : list (list N)) : bool :=
  match a, b with
  | [], [] => true
  | x :: a', y :: b' => bytes_eqb x y && bl_eqb a' b'
  | _, _ => false
  end.

Definition ty_eqb (a b : ty) : bool :=
  match a, b with
  | TInt l h, TInt l' h' => Z.eqb l l' && Z.eqb h h'
  | TStr n k, TStr n' k' => N.eqb n n' && N.eqb k k'
  | TEnum a, TEnum b => bl_eqb a b
  | TDec p s, TDec p' s' => N.eqb p p' && N.eqb s s'
  | TDate, TDate => true
  | TDatetime, TDatetime => true
  | _, _ => false
  end.
Definition col_eqb (a b : col) : bool := N.eqb (cn a) (cn b) && ty_eqb (cty a) (cty b) && Bool.eqb (cnullable a) (cnullable b).

Fixpoint list_eqb {A} (e : A -> A -> bool) (a b : list A) : bool :=
  match a, b with
  | [], [] => true
  | x :: a', y :: b' => e x y && list_eqb e a' b'
  | _, _ => false
  end.

Definition oval_eqb (a b : option val) : bool :=
  match a, b with Some x, Some y => val_eqb x y | None, None => true | _, _ => false end.

(* rows agree on every column of the schema *)
Definition row_eqb (ns : list name) (r r' : row) : bool := forallb (fun n => oval_eqb (lookup n r) (lookup n r')) ns.

(* the primary key is observed as the set of PRI columns of DESCRIBE *)
Definition set_eqb (a b : list name) : bool := forallb (fun x => memb x b) a && forallb (fun x => memb x a) b.

Definition table_eqb (a b : table) : bool :=
  N.eqb (tn a) (tn b) && list_eqb col_eqb (cols a) (cols b) && set_eqb (pk a) (pk b) &&
  list_eqb (row_eqb (names a)) (rows a) (rows b).

Fixpoint steps_ok (t : table) (l : list (op * (bool * table))) : bool :=
  match l with
  | [] => true
  | (o, (okb, obs)) :: l' =>
    let r := alter o t in
    let t' := exec o t in
    Bool.eqb okb (match r with Some _ => true | None => false end) && invb t' && table_eqb t' obs && steps_ok t' l'
  end.

Definition ok (c : case) : bool := let '(t, l) := c in invb t && steps_ok t l.

Definition mismatches (cs : list (N * case)) : list N :=
  map fst (filter (fun p => negb (ok (snd p))) cs).
