(* Correspondence definitions for C51: run the full-text model on the DML history the implementation ran and
   compare the pseudo-index tables and the MATCH results. ASCII documents (concrete instances). *)
From Coq Require Import List NArith Arith Bool.
Import ListNotations.
From GMS Require Import Sys.Fulltext.
Open Scope N_scope.
Open Scope bool_scope.

Definition doc_of (d : option (list N)) : list N := join_cols [d].

Record case : Type := mkcase {
  c_keyed : bool;                                (* the table has a PRIMARY KEY *)
  c_ci : bool;                                   (* utf8mb4_0900_ai_ci (ASCII: case-insensitive) or _bin *)
  c_ops : list op;                               (* row-level history *)
  c_dc : list (list N * N * N);                  (* SELECT * FROM t_idx_0_FTS_DOC_COUNT: word, key id, count *)
  c_gc : list (list N * N);                      (* ... GLOBAL_COUNT: word, count *)
  c_rc : list (N * (N * N));                     (* ... ROW_COUNT: hash id, (row count, unique words) *)
  c_q : list (list N * list N) }.              (* query string, key ids of the rows MATCH returned *)

Definition opt_eqb (a : option N) (b : N) : bool := match a with Some x => x =? b | None => false end.

Definition ok (c : case) : bool :=
  let ck := if c_ci c then key_ci else key_bin in
  let s := run_ops ascii_is_char ascii_rlen ck (c_ops c) in
  let rows := fold_left apply_rows (c_ops c) [] in
  (length (dc s) =? length (c_dc c))%nat &&
  forallb (fun e => let '(w, k, n) := e in opt_eqb (get dkeqb (dc s) (ck w, k)) n) (c_dc c) &&
  (length (gc s) =? length (c_gc c))%nat &&
  forallb (fun e => let '(w, n) := e in opt_eqb (get leqb (gc s) (ck w)) n) (c_gc c) &&
  (length (rc s) =? length (c_rc c))%nat &&
  forallb (fun e => let '(h, (n, u)) := e in
                    match get N.eqb (rc s) h with Some (n', u') => (n =? n') && (u =? u') | None => false end) (c_rc c) &&
  forallb (fun (e : list N * list N) => let '(q, ids) := e in
     let hit := match_result ascii_is_char ascii_rlen ck (c_keyed c) s q rows in
     (length hit =? length ids)%nat &&
     forallb (fun i => Nat.eqb (length (filter (fun r => N.eqb i (rk r)) hit)) (length (filter (N.eqb i) ids))) ids) (c_q c).

Definition mismatches (cs : list (N * case)) : list N :=
  map fst (filter (fun p => negb (ok (snd p))) cs).
