(* Correspondence definitions for C17: run the transaction state machine on the histories the engine ran. *)
From Coq Require Import List NArith ZArith Bool.
Import ListNotations.
From GMS Require Import Store.C17Txn.

(* Flat monomorphic case syntax (fast to type-check), converted to the model's types below. *)
Inductive crow := KV (k v : Z).
Inductive cq :=
| QRead (t : N) | QIns (t : N) (kvs : list crow) | QUpdAll (t : N) (d : Z) | QUpdKey (t : N) (k v : Z)
| QDelKey (t : N) (k : Z) | QDelGe (t : N) (k : Z) | QDelAll (t : N) | QTrunc (t : N) | QBegin | QCommit | QRollback | QSetAC (b : bool) | QBad
| QBeginRO | QSp | QDdl (ts : list N)
| QJoinRead (a b : N) | QUpdJoin (a b : N) (da db : Z) | QInsSel (a b : N) (dk : Z) | QDelJoin (a b : N) (k : Z).
(* OSame: an observer read (session 0) that returned the same rows as the observer's previous read of that table (or, for
   its first read, the initial contents) - keeps the case literals small, compared at full strength *)
Inductive cr := OOk | OErr | ORows (l : list crow) | OSame.
(* EvS: the observer reads every table in turn and each read returns what its previous read of that table returned *)
Inductive ev := Ev (s : N) (q : cq) (r : cr) | EvS.
(* initial contents of tables 0, 1, 2, ..., then the history: session, statement, observed result, in execution order *)
Inductive case := Case (ts : list (list crow)) (h : list ev).

Definition row_of (r : crow) : Z * Z := match r with KV k v => (k, v) end.
Definition stmt_of_cq (q : cq) : stmt cwop cmop :=
  match q with
  | QRead t => Read t
  | QIns t kvs => Write t (Ins (map row_of kvs))
  | QUpdAll t d => Write t (UpdAll d)
  | QUpdKey t k v => Write t (UpdKey k v)
  | QDelKey t k => Write t (DelKey k)
  | QDelGe t k => Write t (DelGe k)
  | QDelAll t => WriteAll t DelAll
  | QTrunc t => WriteIC t DelAll
  | QBegin => Begin
  | QCommit => Commit
  | QRollback => Rollback
  | QSetAC b => SetAC b
  | QBad => Bad
  | QBeginRO => BeginRO
  | QSp => Savepoint
  | QDdl ts => Ddl ts
  | QJoinRead a b => Multi (MJoinRead a b)
  | QUpdJoin a b da db => Multi (MUpdJoin a b da db)
  | QInsSel a b dk => Multi (MInsSel a b dk)
  | QDelJoin a b k => Multi (MDelJoin a b k)
  end.
Definition res_of_cr (r : cr) : result rows :=
  match r with OOk => ROk | OErr | OSame => RErr | ORows l => RRows (map row_of l) end.

(* the observed results with OSame resolved *)
Definition table_ids (n : nat) : list N := map N.of_nat (seq 0 n).

Fixpoint observed (n : nat) (last : N -> list crow) (h : list ev) : list (result rows) :=
  match h with
  | [] => []
  | EvS :: h' => map (fun t => RRows (map row_of (last t))) (table_ids n) ++ observed n last h'
  | Ev s q r :: h' =>
      match q, r with
      | QRead t, OSame => RRows (map row_of (last t)) :: observed n last h'
      | QRead t, ORows l =>
          RRows (map row_of l) :: observed n (if N.eqb s 0 then (fun t' => if N.eqb t' t then l else last t') else last) h'
      | _, _ => res_of_cr r :: observed n last h'
      end
  end.

Fixpoint rows_eqb (a b : rows) : bool :=
  match a, b with
  | [], [] => true
  | (k, v) :: a', (k', v') :: b' => Z.eqb k k' && Z.eqb v v' && rows_eqb a' b'
  | _, _ => false
  end.

Definition res_eqb (a b : result rows) : bool :=
  match a, b with
  | ROk, ROk => true
  | RErr, RErr => true
  | RRows x, RRows y => rows_eqb x y
  | _, _ => false
  end.

Fixpoint results_eqb (a b : list (result rows)) : bool :=
  match a, b with
  | [], [] => true
  | x :: a', y :: b' => res_eqb x y && results_eqb a' b'
  | _, _ => false
  end.

Definition tables (ts : list (list crow)) (t : N) : rows :=
  map row_of (nth (N.to_nat t) ts []).

Definition ok (c : case) : bool :=
  let '(Case ts h) := c in
  let '(_, rs) := crun (init (tables ts))
                      (flat_map (fun e => match e with
                                           | Ev s q _ => [(s, stmt_of_cq q)]
                                           | EvS => map (fun t => (0%N, Read t)) (table_ids (length ts))
                                           end) h) in
  results_eqb rs (observed (length ts) (fun t => nth (N.to_nat t) ts []) h).

Definition mismatches (cs : list (N * case)) : list N :=
  map fst (filter (fun p => negb (ok (snd p))) cs).

(* Number literals are by far the most expensive thing to read in a case file (each one is interpreted by reduction);
   the shards refer to these constants instead. *)
Definition z0 := 0%Z. Definition z1 := 1%Z. Definition z2 := 2%Z. Definition z3 := 3%Z. Definition z4 := 4%Z. Definition z5 := 5%Z. Definition z6 := 6%Z. Definition z7 := 7%Z.
Definition z8 := 8%Z. Definition z9 := 9%Z. Definition z10 := 10%Z. Definition z11 := 11%Z. Definition z12 := 12%Z. Definition z13 := 13%Z. Definition z14 := 14%Z. Definition z15 := 15%Z.
Definition z16 := 16%Z. Definition z17 := 17%Z. Definition z18 := 18%Z. Definition z19 := 19%Z. Definition z20 := 20%Z. Definition z21 := 21%Z. Definition z22 := 22%Z. Definition z23 := 23%Z.
Definition z24 := 24%Z. Definition z25 := 25%Z. Definition z26 := 26%Z. Definition z27 := 27%Z. Definition z28 := 28%Z. Definition z29 := 29%Z. Definition z30 := 30%Z. Definition z31 := 31%Z.
Definition z32 := 32%Z. Definition z33 := 33%Z. Definition z34 := 34%Z. Definition z35 := 35%Z. Definition z36 := 36%Z. Definition z37 := 37%Z. Definition z38 := 38%Z. Definition z39 := 39%Z.
Definition z40 := 40%Z. Definition z41 := 41%Z. Definition z42 := 42%Z. Definition z43 := 43%Z. Definition z44 := 44%Z. Definition z45 := 45%Z. Definition z46 := 46%Z. Definition z47 := 47%Z.
Definition z48 := 48%Z. Definition z49 := 49%Z. Definition z50 := 50%Z. Definition z51 := 51%Z. Definition z52 := 52%Z. Definition z53 := 53%Z. Definition z54 := 54%Z. Definition z55 := 55%Z.
Definition z56 := 56%Z. Definition z57 := 57%Z. Definition z58 := 58%Z. Definition z59 := 59%Z. Definition z60 := 60%Z. Definition z61 := 61%Z. Definition z62 := 62%Z. Definition z63 := 63%Z.
Definition z64 := 64%Z. Definition z65 := 65%Z. Definition z66 := 66%Z. Definition z67 := 67%Z. Definition z68 := 68%Z. Definition z69 := 69%Z. Definition z70 := 70%Z. Definition z71 := 71%Z.
Definition z72 := 72%Z. Definition z73 := 73%Z. Definition z74 := 74%Z. Definition z75 := 75%Z. Definition z76 := 76%Z. Definition z77 := 77%Z. Definition z78 := 78%Z. Definition z79 := 79%Z.
Definition z80 := 80%Z. Definition z81 := 81%Z. Definition z82 := 82%Z. Definition z83 := 83%Z. Definition z84 := 84%Z. Definition z85 := 85%Z. Definition z86 := 86%Z. Definition z87 := 87%Z.
Definition z88 := 88%Z. Definition z89 := 89%Z. Definition z90 := 90%Z. Definition z91 := 91%Z. Definition z92 := 92%Z. Definition z93 := 93%Z. Definition z94 := 94%Z. Definition z95 := 95%Z.
Definition z96 := 96%Z. Definition z97 := 97%Z. Definition z98 := 98%Z. Definition z99 := 99%Z. Definition z100 := 100%Z. Definition z101 := 101%Z. Definition z102 := 102%Z. Definition z103 := 103%Z.
Definition z104 := 104%Z. Definition z105 := 105%Z. Definition z106 := 106%Z. Definition z107 := 107%Z. Definition z108 := 108%Z. Definition z109 := 109%Z. Definition z110 := 110%Z. Definition z111 := 111%Z.
Definition z112 := 112%Z. Definition z113 := 113%Z. Definition z114 := 114%Z. Definition z115 := 115%Z. Definition z116 := 116%Z. Definition z117 := 117%Z. Definition z118 := 118%Z. Definition z119 := 119%Z.
Definition z120 := 120%Z. Definition z121 := 121%Z. Definition z122 := 122%Z. Definition z123 := 123%Z. Definition z124 := 124%Z. Definition z125 := 125%Z. Definition z126 := 126%Z. Definition z127 := 127%Z.
Definition z128 := 128%Z. Definition z129 := 129%Z. Definition z130 := 130%Z. Definition z131 := 131%Z. Definition z132 := 132%Z. Definition z133 := 133%Z. Definition z134 := 134%Z. Definition z135 := 135%Z.
Definition z136 := 136%Z. Definition z137 := 137%Z. Definition z138 := 138%Z. Definition z139 := 139%Z. Definition z140 := 140%Z. Definition z141 := 141%Z. Definition z142 := 142%Z. Definition z143 := 143%Z.
Definition z144 := 144%Z. Definition z145 := 145%Z. Definition z146 := 146%Z. Definition z147 := 147%Z. Definition z148 := 148%Z. Definition z149 := 149%Z. Definition z150 := 150%Z. Definition z151 := 151%Z.
Definition z152 := 152%Z. Definition z153 := 153%Z. Definition z154 := 154%Z. Definition z155 := 155%Z. Definition z156 := 156%Z. Definition z157 := 157%Z. Definition z158 := 158%Z. Definition z159 := 159%Z.
Definition z160 := 160%Z. Definition z161 := 161%Z. Definition z162 := 162%Z. Definition z163 := 163%Z. Definition z164 := 164%Z. Definition z165 := 165%Z. Definition z166 := 166%Z. Definition z167 := 167%Z.
Definition z168 := 168%Z. Definition z169 := 169%Z. Definition z170 := 170%Z. Definition z171 := 171%Z. Definition z172 := 172%Z. Definition z173 := 173%Z. Definition z174 := 174%Z. Definition z175 := 175%Z.
Definition z176 := 176%Z. Definition z177 := 177%Z. Definition z178 := 178%Z. Definition z179 := 179%Z. Definition z180 := 180%Z. Definition z181 := 181%Z. Definition z182 := 182%Z. Definition z183 := 183%Z.
Definition z184 := 184%Z. Definition z185 := 185%Z. Definition z186 := 186%Z. Definition z187 := 187%Z. Definition z188 := 188%Z. Definition z189 := 189%Z. Definition z190 := 190%Z. Definition z191 := 191%Z.
Definition z192 := 192%Z. Definition z193 := 193%Z. Definition z194 := 194%Z. Definition z195 := 195%Z. Definition z196 := 196%Z. Definition z197 := 197%Z. Definition z198 := 198%Z. Definition z199 := 199%Z.
Definition z200 := 200%Z. Definition z201 := 201%Z. Definition z202 := 202%Z. Definition z203 := 203%Z. Definition z204 := 204%Z. Definition z205 := 205%Z. Definition z206 := 206%Z. Definition z207 := 207%Z.
Definition z208 := 208%Z. Definition z209 := 209%Z. Definition z210 := 210%Z. Definition z211 := 211%Z. Definition z212 := 212%Z. Definition z213 := 213%Z. Definition z214 := 214%Z. Definition z215 := 215%Z.
Definition z216 := 216%Z. Definition z217 := 217%Z. Definition z218 := 218%Z. Definition z219 := 219%Z. Definition z220 := 220%Z. Definition z221 := 221%Z. Definition z222 := 222%Z. Definition z223 := 223%Z.
Definition z224 := 224%Z. Definition z225 := 225%Z. Definition z226 := 226%Z. Definition z227 := 227%Z. Definition z228 := 228%Z. Definition z229 := 229%Z. Definition z230 := 230%Z. Definition z231 := 231%Z.
Definition z232 := 232%Z. Definition z233 := 233%Z. Definition z234 := 234%Z. Definition z235 := 235%Z. Definition z236 := 236%Z. Definition z237 := 237%Z. Definition z238 := 238%Z. Definition z239 := 239%Z.
Definition z240 := 240%Z. Definition z241 := 241%Z. Definition z242 := 242%Z. Definition z243 := 243%Z. Definition z244 := 244%Z. Definition z245 := 245%Z. Definition z246 := 246%Z. Definition z247 := 247%Z.
Definition z248 := 248%Z. Definition z249 := 249%Z. Definition z250 := 250%Z. Definition z251 := 251%Z. Definition z252 := 252%Z. Definition z253 := 253%Z. Definition z254 := 254%Z. Definition z255 := 255%Z.
Definition z256 := 256%Z. Definition z257 := 257%Z. Definition z258 := 258%Z. Definition z259 := 259%Z. Definition z260 := 260%Z. Definition z261 := 261%Z. Definition z262 := 262%Z. Definition z263 := 263%Z.
Definition z264 := 264%Z. Definition z265 := 265%Z. Definition z266 := 266%Z. Definition z267 := 267%Z. Definition z268 := 268%Z. Definition z269 := 269%Z. Definition z270 := 270%Z. Definition z271 := 271%Z.
Definition z272 := 272%Z. Definition z273 := 273%Z. Definition z274 := 274%Z. Definition z275 := 275%Z. Definition z276 := 276%Z. Definition z277 := 277%Z. Definition z278 := 278%Z. Definition z279 := 279%Z.
Definition z280 := 280%Z. Definition z281 := 281%Z. Definition z282 := 282%Z. Definition z283 := 283%Z. Definition z284 := 284%Z. Definition z285 := 285%Z. Definition z286 := 286%Z. Definition z287 := 287%Z.
Definition z288 := 288%Z. Definition z289 := 289%Z. Definition z290 := 290%Z. Definition z291 := 291%Z. Definition z292 := 292%Z. Definition z293 := 293%Z. Definition z294 := 294%Z. Definition z295 := 295%Z.
Definition z296 := 296%Z. Definition z297 := 297%Z. Definition z298 := 298%Z. Definition z299 := 299%Z. Definition z300 := 300%Z. Definition z301 := 301%Z. Definition z302 := 302%Z. Definition z303 := 303%Z.
Definition z304 := 304%Z. Definition z305 := 305%Z. Definition z306 := 306%Z. Definition z307 := 307%Z. Definition z308 := 308%Z. Definition z309 := 309%Z. Definition z310 := 310%Z. Definition z311 := 311%Z.
Definition z312 := 312%Z. Definition z313 := 313%Z. Definition z314 := 314%Z. Definition z315 := 315%Z. Definition z316 := 316%Z. Definition z317 := 317%Z. Definition z318 := 318%Z. Definition z319 := 319%Z.
Definition z320 := 320%Z. Definition z321 := 321%Z. Definition z322 := 322%Z. Definition z323 := 323%Z. Definition z324 := 324%Z. Definition z325 := 325%Z. Definition z326 := 326%Z. Definition z327 := 327%Z.
Definition z328 := 328%Z. Definition z329 := 329%Z. Definition z330 := 330%Z. Definition z331 := 331%Z. Definition z332 := 332%Z. Definition z333 := 333%Z. Definition z334 := 334%Z. Definition z335 := 335%Z.
Definition z336 := 336%Z. Definition z337 := 337%Z. Definition z338 := 338%Z. Definition z339 := 339%Z. Definition z340 := 340%Z. Definition z341 := 341%Z. Definition z342 := 342%Z. Definition z343 := 343%Z.
Definition z344 := 344%Z. Definition z345 := 345%Z. Definition z346 := 346%Z. Definition z347 := 347%Z. Definition z348 := 348%Z. Definition z349 := 349%Z. Definition z350 := 350%Z. Definition z351 := 351%Z.
Definition z352 := 352%Z. Definition z353 := 353%Z. Definition z354 := 354%Z. Definition z355 := 355%Z. Definition z356 := 356%Z. Definition z357 := 357%Z. Definition z358 := 358%Z. Definition z359 := 359%Z.
Definition z360 := 360%Z. Definition z361 := 361%Z. Definition z362 := 362%Z. Definition z363 := 363%Z. Definition z364 := 364%Z. Definition z365 := 365%Z. Definition z366 := 366%Z. Definition z367 := 367%Z.
Definition z368 := 368%Z. Definition z369 := 369%Z. Definition z370 := 370%Z. Definition z371 := 371%Z. Definition z372 := 372%Z. Definition z373 := 373%Z. Definition z374 := 374%Z. Definition z375 := 375%Z.
Definition z376 := 376%Z. Definition z377 := 377%Z. Definition z378 := 378%Z. Definition z379 := 379%Z. Definition z380 := 380%Z. Definition z381 := 381%Z. Definition z382 := 382%Z. Definition z383 := 383%Z.
Definition z384 := 384%Z. Definition z385 := 385%Z. Definition z386 := 386%Z. Definition z387 := 387%Z. Definition z388 := 388%Z. Definition z389 := 389%Z. Definition z390 := 390%Z. Definition z391 := 391%Z.
Definition z392 := 392%Z. Definition z393 := 393%Z. Definition z394 := 394%Z. Definition z395 := 395%Z. Definition z396 := 396%Z. Definition z397 := 397%Z. Definition z398 := 398%Z. Definition z399 := 399%Z.
Definition n0 := 0%N. Definition n1 := 1%N. Definition n2 := 2%N. Definition n3 := 3%N. Definition n4 := 4%N. Definition n5 := 5%N. Definition n6 := 6%N. Definition n7 := 7%N. Definition n8 := 8%N. Definition n9 := 9%N.
