(* Correspondence definitions for C17: run the transaction state machine on the histories the engine ran. *)
From Coq Require Import List NArith ZArith Bool.
Import ListNotations.
From GMS Require Import Store.C17Txn.

(* Flat monomorphic case syntax (fast to type-check), converted to the model's types below. *)
Inductive crow := KV (k v : Z).
Inductive cq :=
| QRead (t : N) | QIns (t : N) (kvs : list crow) | QUpdAll (t : N) (d : Z) | QUpdKey (t : N) (k v : Z)
| QDelKey (t : N) (k : Z) | QDelGe (t : N) (k : Z) | QDelAll (t : N) | QTrunc (t : N) | QBegin | QCommit | QRollback | QSetAC (b : bool) | QBad
| QBeginRO | QSp | QDdl (ts : list N)
| QJoinRead (a b : N) | QUpdJoin (a b : N) (da db : Z) | QInsSel (a b : N) (dk : Z) | QDelJoin (a b : N) (k : Z).
(* OSame: an observer read (session 0) that returned the same rows as the observer's previous read of that table (or, for
   its first read, the initial contents) - keeps the case literals small, compared at full strength *)
Inductive cr := OOk | OErr | ORows (l : list crow) | OSame.
Inductive ev := Ev (s : N) (q : cq) (r : cr).
(* initial contents of tables 0, 1, 2, ..., then the history: session, statement, observed result, in execution order *)
Inductive case := Case (ts : list (list crow)) (h : list ev).

Definition row_of (r : crow) : Z * Z := match r with KV k v => (k, v) end.
Definition stmt_of_cq (q : cq) : stmt cwop cmop :=
  match q with
  | QRead t => Read t
  | QIns t kvs => Write t (Ins (map row_of kvs))
  | QUpdAll t d => Write t (UpdAll d)
  | QUpdKey t k v => Write t (UpdKey k v)
  | QDelKey t k => Write t (DelKey k)
  | QDelGe t k => Write t (DelGe k)
  | QDelAll t => WriteAll t DelAll
  | QTrunc t => WriteIC t DelAll
  | QBegin => Begin
  | QCommit => Commit
  | QRollback => Rollback
  | QSetAC b => SetAC b
  | QBad => Bad
  | QBeginRO => BeginRO
  | QSp => Savepoint
  | QDdl ts => Ddl ts
  | QJoinRead a b => Multi (MJoinRead a b)
  | QUpdJoin a b da db => Multi (MUpdJoin a b da db)
  | QInsSel a b dk => Multi (MInsSel a b dk)
  | QDelJoin a b k => Multi (MDelJoin a b k)
  end.
Definition res_of_cr (r : cr) : result rows :=
  match r with OOk => ROk | OErr | OSame => RErr | ORows l => RRows (map row_of l) end.

(* the observed results with OSame resolved *)
Fixpoint observed (last : N -> list crow) (h : list ev) : list (result rows) :=
  match h with
  | [] => []
  | Ev s q r :: h' =>
      match q, r with
      | QRead t, OSame => RRows (map row_of (last t)) :: observed last h'
      | QRead t, ORows l =>
          RRows (map row_of l) :: observed (if N.eqb s 0 then (fun t' => if N.eqb t' t then l else last t') else last) h'
      | _, _ => res_of_cr r :: observed last h'
      end
  end.

Fixpoint rows_eqb (a b : rows) : bool :=
  match a, b with
  | [], [] => true
  | (k, v) :: a', (k', v') :: b' => Z.eqb k k' && Z.eqb v v' && rows_eqb a' b'
  | _, _ => false
  end.

Definition res_eqb (a b : result rows) : bool :=
  match a, b with
  | ROk, ROk => true
  | RErr, RErr => true
  | RRows x, RRows y => rows_eqb x y
  | _, _ => false
  end.

Fixpoint results_eqb (a b : list (result rows)) : bool :=
  match a, b with
  | [], [] => true
  | x :: a', y :: b' => res_eqb x y && results_eqb a' b'
  | _, _ => false
  end.

Definition tables (ts : list (list crow)) (t : N) : rows :=
  map row_of (nth (N.to_nat t) ts []).

Definition ok (c : case) : bool :=
  let '(Case ts h) := c in
  let '(_, rs) := crun (init (tables ts))
                      (map (fun e => match e with Ev s q _ => (s, stmt_of_cq q) end) h) in
  results_eqb rs (observed (fun t => nth (N.to_nat t) ts []) h).

Definition mismatches (cs : list (N * case)) : list N :=
  map fst (filter (fun p => negb (ok (snd p))) cs).
