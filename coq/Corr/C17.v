(* Correspondence definitions for C17: run the transaction state machine on the histories the engine ran. *)
From Coq Require Import List NArith ZArith Bool.
Import ListNotations.
From GMS Require Import Store.C17Txn.

(* Flat monomorphic case syntax (fast to type-check), converted to the model's types below. *)
Inductive crow := KV (k v : Z).
Inductive cq :=
| QRead (t : N) | QIns (t : N) (kvs : list crow) | QUpdAll (t : N) (d : Z) | QUpdKey (t : N) (k v : Z)
| QDelKey (t : N) (k : Z) | QDelGe (t : N) (k : Z) | QDelAll (t : N) | QTrunc (t : N) | QBegin | QCommit | QRollback | QSetAC (b : bool) | QBad.
Inductive cr := OOk | OErr | ORows (l : list crow).
Inductive ev := Ev (s : N) (q : cq) (r : cr).
(* initial contents of tables 0 and 1, then the history: session, statement, observed result, in execution order *)
Inductive case := Case (t0 t1 : list crow) (h : list ev).

Definition row_of (r : crow) : Z * Z := match r with KV k v => (k, v) end.
Definition stmt_of_cq (q : cq) : stmt cwop :=
  match q with
  | QRead t => Read t
  | QIns t kvs => Write t (Ins (map row_of kvs))
  | QUpdAll t d => Write t (UpdAll d)
  | QUpdKey t k v => Write t (UpdKey k v)
  | QDelKey t k => Write t (DelKey k)
  | QDelGe t k => Write t (DelGe k)
  | QDelAll t => WriteAll t DelAll
  | QTrunc t => WriteIC t DelAll
  | QBegin => Begin
  | QCommit => Commit
  | QRollback => Rollback
  | QSetAC b => SetAC b
  | QBad => Bad
  end.
Definition res_of_cr (r : cr) : result rows :=
  match r with OOk => ROk | OErr => RErr | ORows l => RRows (map row_of l) end.

Fixpoint rows_eqb (a b : rows) : bool :=
  match a, b with
  | [], [] => true
  | (k, v) :: a', (k', v') :: b' => Z.eqb k k' && Z.eqb v v' && rows_eqb a' b'
  | _, _ => false
  end.

Definition res_eqb (a b : result rows) : bool :=
  match a, b with
  | ROk, ROk => true
  | RErr, RErr => true
  | RRows x, RRows y => rows_eqb x y
  | _, _ => false
  end.

Fixpoint results_eqb (a b : list (result rows)) : bool :=
  match a, b with
  | [], [] => true
  | x :: a', y :: b' => res_eqb x y && results_eqb a' b'
  | _, _ => false
  end.

Definition tables (t0 t1 : list crow) (t : N) : rows :=
  if N.eqb t 0 then map row_of t0 else if N.eqb t 1 then map row_of t1 else [].

Definition ok (c : case) : bool :=
  let '(Case t0 t1 h) := c in
  let '(_, rs) := run capply (init (tables t0 t1))
                      (map (fun e => match e with Ev s q _ => (s, stmt_of_cq q) end) h) in
  results_eqb rs (map (fun e => match e with Ev _ _ r => res_of_cr r end) h).

Definition mismatches (cs : list (N * case)) : list N :=
  map fst (filter (fun p => negb (ok (snd p))) cs).
