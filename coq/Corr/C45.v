(* Correspondence definitions for C45: run the model of the redactor on what vitess said about each statement. *)
From Coq Require Import List NArith Arith Bool.
Import ListNotations.
From GMS Require Import Base.CorrLib Sys.Redact.

(* statements redacted one after the other into one Mapping: (parse ok, identifier set of the AST walk, token
   stream, observed redacted text); then the observed Idents() and Values() sorted by placeholder number *)
Definition case : Type :=
  (list (bool * list bytes * list token * bytes) * list (bytes * bytes) * list (bytes * bytes))%type.

Definition pair_eqb (a b : bytes * bytes) : bool := bytes_eqb (fst a) (fst b) && bytes_eqb (snd a) (snd b).

Fixpoint run_model (m : mapping) (ss : list (bool * list bytes * list token * bytes)) : mapping * bool :=
  match ss with
  | [] => (m, true)
  | (ok, ids, toks, observed) :: ss' =>
      let '(m', out) := redact_into m ok ids toks in
      let '(m'', rest) := run_model m' ss' in
      (m'', Redact.bytes_eqb out observed && rest)
  end.

Definition ok (c : case) : bool :=
  let '(ss, oi, ov) := c in
  let '(m, same) := run_model empty_mapping ss in
  same && list_eqb pair_eqb (idents m) oi && list_eqb pair_eqb (values m) ov.

Definition mismatches (cs : list (N * case)) : list N :=
  map fst (filter (fun p => negb (ok (snd p))) cs).
