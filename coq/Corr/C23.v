(* Correspondence definitions for C23: run the trigger model on the histories the engine ran. *)
From Coq Require Import List ZArith Bool.
Import ListNotations.
From GMS Require Import Store.C23Trigger.
Open Scope Z_scope.

Definition R (k v : Z) : row := (k, v).
Definition E (tag x y : Z) : entry := (tag, x, y).
Definition T (tm : ttime) (tag : Z) (x y : field) (s : option setop) (c : clause) : trigger * clause :=
  (mkTrig tm tag x y s, c).

(* statement, observed failure flag, table after, audit rows written by the statement in order *)
Inductive ev := Ev (q : stmt) (failed : bool) (tb : table) (log : list entry).
(* triggers in creation order per event *)
Inductive case := Case (ins upd del : list (trigger * clause)) (h : list ev).

Fixpoint rows_eqb (a b : list row) : bool :=
  match a, b with
  | [], [] => true
  | (k, v) :: a', (k', v') :: b' => (k =? k') && (v =? v') && rows_eqb a' b'
  | _, _ => false
  end.
Fixpoint log_eqb (a b : list entry) : bool :=
  match a, b with
  | [], [] => true
  | (t, x, y) :: a', (t', x', y') :: b' => (t =? t') && (x =? x') && (y =? y') && log_eqb a' b'
  | _, _ => false
  end.

Fixpoint ok_from (s : trigset) (tb : table) (h : list ev) : bool :=
  match h with
  | [] => true
  | Ev q f tobs lobs :: h' =>
      let '(tb', log, f') := exec s tb q in
      Bool.eqb f f' && rows_eqb tb' tobs && log_eqb log lobs && ok_from s tobs h'
  end.

Definition ok (c : case) : bool :=
  match c with Case i u d h =>
    ok_from (mkSet (order_triggers i []) (order_triggers u []) (order_triggers d [])) [] h end.

Definition mismatches (cs : list (N * case)) : list N :=
  map fst (filter (fun p => negb (ok (snd p))) cs).
