(* Correspondence definitions for C23: run the trigger models on the histories the engine ran.
   [Case]: plain bodies, ANY number of FOLLOWS / PRECEDES clauses - the firing order is the model of plan.OrderTriggers
   (Store/C23Order.v), a statement whose event's ordering panics must have been seen panicking ([EvP]).
   [CaseR]: rich bodies (IF, SIGNAL, several statements, nested INSERT into t2 with its own triggers), primary key
   updates, failing statements (Store/C23Rich.v). *)
From Coq Require Import List ZArith Bool.
Import ListNotations.
From GMS Require Import Store.C23Trigger Store.C23Order Store.C23Rich.
Open Scope Z_scope.

Definition R (k v : Z) : row := (k, v).
Definition E (tag x y : Z) : entry := (tag, x, y).
Definition T (tm : ttime) (tag : Z) (x y : field) (s : option setop) (c : clause) : trigger * clause :=
  (mkTrig tm tag x y s, c).

(* statement, observed failure flag, table after, audit rows written by the statement in order *)
Inductive ev :=
| Ev (q : stmt) (failed : bool) (tb : table) (log : list entry)
| EvP (q : stmt) (tb : table).                       (* the statement panicked *)

(* rich: statement, failed?, table after, audit rows, t2 rows written by the statement *)
Inductive evr := EvR (q : rstmt) (failed : bool) (tb : table) (log : list entry) (ch : list row).

Inductive case :=
| Case (ins upd del : list (trigger * clause)) (h : list ev)          (* triggers in creation order per event *)
| CaseR (ins upd del t2 : list rtrigger) (h : list evr).

Fixpoint rows_eqb (a b : list row) : bool :=
  match a, b with
  | [], [] => true
  | (k, v) :: a', (k', v') :: b' => (k =? k') && (v =? v') && rows_eqb a' b'
  | _, _ => false
  end.
Fixpoint log_eqb (a b : list entry) : bool :=
  match a, b with
  | [], [] => true
  | (t, x, y) :: a', (t', x', y') :: b' => (t =? t') && (x =? x') && (y =? y') && log_eqb a' b'
  | _, _ => false
  end.

Definition ord (l : list (trigger * clause)) : option (list trigger) :=
  option_map (fun p => fst p ++ snd p) (go_order l).

Definition sel (q : stmt) (oi ou od : option (list trigger)) : option (list trigger) :=
  match q with SIns _ => oi | SUpd _ _ => ou | SDel _ => od end.

Fixpoint ok_from (oi ou od : option (list trigger)) (tb : table) (h : list ev) : bool :=
  match h with
  | [] => true
  | Ev q f tobs lobs :: h' =>
      match sel q oi ou od with
      | None => false
      | Some ts =>
          let '(tb', log, f') := exec (mkSet ts ts ts) tb q in
          Bool.eqb f f' && rows_eqb tb' tobs && log_eqb log lobs && ok_from oi ou od tobs h'
      end
  | EvP q tobs :: h' =>
      match sel q oi ou od with
      | None => rows_eqb tb tobs && ok_from oi ou od tobs h'
      | Some _ => false
      end
  end.

Fixpoint okr_from (s : rset_trigs) (tb : table) (h : list evr) : bool :=
  match h with
  | [] => true
  | EvR q f tobs lobs cobs :: h' =>
      let '(tb', e, o) := rexec s tb q in
      Bool.eqb f (match o with Ok => false | _ => true end) && rows_eqb tb' tobs && log_eqb (audits e) lobs &&
      rows_eqb (childs e) cobs && okr_from s tobs h'
  end.

Definition no_signal (t : rtrigger) : bool :=
  forallb (fun b => match b with BSignal _ _ => false | BS (SChild _ _) => false | _ => true end) (r_body t).

Definition ok (c : case) : bool :=
  match c with
  | Case i u d h => ok_from (ord i) (ord u) (ord d) [] h
  | CaseR i u d t2 h => forallb no_signal t2 && okr_from (mkRS i u d t2) [] h
  end.

Definition mismatches (cs : list (N * case)) : list N :=
  map fst (filter (fun p => negb (ok (snd p))) cs).
