(* Correspondence for C02: evaluate the SQL definition on the generated database + query and compare
   with the rows the engine returned (bag; sequence when the ORDER BY is total). *)
From Coq Require Import List ZArith NArith Bool.
Import ListNotations.
From GMS Require Import Rel.C02Logical.
Open Scope Z_scope.

(* observed engine values: NULL, integer, decimal m*10^-s, string, float64 m*2^e *)
Inductive oval :=
| ONull
| OInt (z : Z)
| ODec (m : Z) (s : nat)
| OStr (b : str)
| OFloat (m e : Z).

Inductive obs :=
| ORows (rows : list (list oval))
| OErrCard                       (* "the subquery returned more than 1 row" *)
| OErrOther.

(* database, query, ORDER BY is total, engine observation,
   Some expected = the reference interpreter of the driver disagrees with the engine on this case
   (a property-predicate failure, reported separately): the definition must then agree with [expected]
   and disagree with the engine. *)
Definition case : Type := (db * query * bool * obs * option obs)%type.

(* m*2^e rounded to s decimals, halves away from zero *)
Definition float_round (m e : Z) (s : nat) : Z :=
  if Z.leb 0 e then m * Z.pow 2 e * pow10 s else div_round (m * pow10 s) (Z.pow 2 (- e)).

Definition val_matches (v : val) (o : oval) : bool :=
  match v, o with
  | VNull, ONull => true
  | VStr a, OStr b => str_eqb a b
  | _, OInt z => val_beq (norm v) (VInt z)
  | _, ODec m s => match v with VNull | VStr _ => false | _ => val_beq (norm v) (norm_dec m s) end
  | _, OFloat m e => match num_of v with Some (mv, sv) => Z.eqb mv (float_round m e sv) | None => false end
  | _, _ => false
  end.

Fixpoint row_matches (r : row) (o : list oval) : bool :=
  match r, o with
  | [], [] => true
  | v :: r', x :: o' => val_matches v x && row_matches r' o'
  | _, _ => false
  end.

Fixpoint seq_matches (rs : list row) (os : list (list oval)) : bool :=
  match rs, os with
  | [], [] => true
  | r :: rs', o :: os' => row_matches r o && seq_matches rs' os'
  | _, _ => false
  end.

Fixpoint take_match (r : row) (os : list (list oval)) : option (list (list oval)) :=
  match os with
  | [] => None
  | o :: t => if row_matches r o then Some t
              else match take_match r t with Some t' => Some (o :: t') | None => None end
  end.

Fixpoint bag_matches (rs : list row) (os : list (list oval)) : bool :=
  match rs with
  | [] => match os with [] => true | _ => false end
  | r :: rs' => match take_match r os with Some os' => bag_matches rs' os' | None => false end
  end.

Definition agrees (ordered : bool) (m : res (list row)) (o : obs) : bool :=
  match m, o with
  | Ok rs, ORows os => if ordered then seq_matches rs os else bag_matches rs os
  | Err ErrCard, OErrCard => true
  | _, _ => false
  end.

Definition ok (c : case) : bool :=
  let '(d, q, ordered, o, expected) := c in
  let m := eval_query d [] q in
  match expected with
  | None => agrees ordered m o
  | Some x => agrees ordered m x && negb (agrees ordered m o)
  end.

Definition mismatches (cs : list (N * case)) : list N :=
  map fst (filter (fun p => negb (ok (snd p))) cs).
