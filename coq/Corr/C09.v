(* Correspondence definitions for C09: the engine's reported schema (exact model type: integer kind with signedness,
   DECIMAL precision/scale, DOUBLE, text, boolean, NULL type; nullability) and returned values against the model's
   inferred type / nullability and evaluation, for projections of modelled expressions; and the engine's reported
   result schema of relational statements against the model's code-rule schema. *)
From Coq Require Import List NArith ZArith Bool.
Import ListNotations.
From GMS Require Import Base.CorrLib Expr.C09Typing Expr.C09TypingProofs Rel.C09Rel.

Definition ty_eqb (a b : ty) : bool :=
  match a, b with
  | TNull, TNull | TBool, TBool | TDbl, TDbl | TStr, TStr => true
  | TInt x, TInt y => ikind_eqb x y
  | TDec p s, TDec q r => Z.eqb p q && Z.eqb s r
  | _, _ => false
  end.
Definition col_eqb (a b : col) : bool := ty_eqb (c_ty a) (c_ty b) && Bool.eqb (c_nullable a) (c_nullable b).

(* SQL value equality: numbers by value whatever the representation, text byte-wise *)
Definition val_equiv (a b : val) : bool :=
  match a, b with
  | VNull, VNull => true
  | VNull, _ | _, VNull => false
  | VDbl n d, VDbl n' d' => Z.leb (Z.abs (n * d' - n' * d) * 2 ^ 40) (Z.abs (n' * d))   (* doubles: relative 2^-40 *)
  | VDbl n d, VInt z | VInt z, VDbl n d => Z.leb (Z.abs (n - z * d) * 2 ^ 40) (Z.abs (z * d))
  | _, _ => match cmp_vals a b with Some Datatypes.Eq => true | _ => false end
  end.

Inductive case :=
(* base schema, projected expressions, input rows; observed: reported column (type, nullable) per expression and the
   output row of each input row *)
| CProj (s : schema) (es : list expr) (rows : list row) (osch : schema) (outs : list row)
(* a relational statement: the schema the engine reports must be the code-rule schema of the model, and the rows the
   model's rows (as a bag when [sorted] is false) *)
| CRel (q : rel) (osch : schema) (outs : list row).

(* a cell the model has no value for (overflow, unmodelled conversion) is not compared *)
Definition cell_ok (s : schema) (r : row) (e : expr) (o : val) : bool :=
  match eval s r e with Ok v => val_equiv v o | Err => true end.
Fixpoint cells_ok (s : schema) (r : row) (es : list expr) (os : row) : bool :=
  match es, os with
  | [], [] => true
  | e :: es', o :: os' => cell_ok s r e o && cells_ok s r es' os'
  | _, _ => false
  end.

Definition row_equiv (a b : row) : bool := CorrLib.list_eqb val_equiv a b.
Fixpoint remove_row (x : row) (l : list row) : option (list row) :=
  match l with [] => None | y :: t => if row_equiv x y then Some t else option_map (cons y) (remove_row x t) end.
Fixpoint bag_eq (a b : list row) : bool :=
  match a with
  | [] => match b with [] => true | _ => false end
  | x :: t => match remove_row x b with Some b' => bag_eq t b' | None => false end
  end.

Definition ok (c : case) : bool :=
  match c with
  | CProj s es rows osch outs =>
    forallb (conforms s) rows &&
    CorrLib.list_eqb col_eqb (project_schema s es) osch &&
    CorrLib.list_eqb (fun r o => cells_ok s r es o) rows outs
  | CRel q osch outs =>
    CorrLib.list_eqb col_eqb (schema_of false q) osch &&
    match eval_rel q with Some rows => bag_eq rows outs | None => true end
  end.

Definition mismatches (cs : list (N * case)) : list N :=
  map fst (filter (fun p => negb (ok (snd p))) cs).
