(* Correspondence definitions for C09: the engine's reported schema and returned values against the model's
   inferred type class / nullability and evaluation, for projections of modelled expressions. *)
From Coq Require Import List NArith ZArith Bool.
Import ListNotations.
From GMS Require Import Base.CorrLib Expr.C09Typing Expr.C09TypingProofs.

(* type class reported by the engine: integer-like (any integer type, boolean) or text *)
Inductive tclass := KNum | KText.
Definition class_of (t : ty) : tclass := match t with TStr => KText | _ => KNum end.
Definition tclass_eqb (a b : tclass) : bool := match a, b with KNum, KNum | KText, KText => true | _, _ => false end.

Definition val_eqb (a b : val) : bool :=
  match a, b with
  | VNull, VNull => true
  | VInt x, VInt y => Z.eqb x y
  | VStr x, VStr y => C09Typing.list_eqb x y
  | _, _ => false
  end.

(* base schema, projected expressions, input rows; observed: (class, nullable) per output column and the output
   row of each input row (None: the engine returned an error for the statement) *)
Definition case : Type := (schema * list expr * list row * list (tclass * bool) * option (list row))%type.

Definition ok (c : case) : bool :=
  let '(s, es, rows, osch, oout) := c in
  forallb (well_typed s) es && forallb (conforms s) rows &&
  CorrLib.list_eqb (fun a b => tclass_eqb (fst a) (fst b) && Bool.eqb (snd a) (snd b))
           (map (fun c => (class_of (c_ty c), c_nullable c)) (project_schema s es)) osch &&
  match oout with
  | None => existsb (fun r => match eval_all r es with None => true | Some _ => false end) rows
  | Some outs => CorrLib.list_eqb (fun r o => match eval_all r es with Some x => CorrLib.list_eqb val_eqb x o | None => false end) rows outs
  end.

Definition mismatches (cs : list (N * case)) : list N :=
  map fst (filter (fun p => negb (ok (snd p))) cs).
