(* Correspondence definitions for C25: evaluate the arithmetic models on the cases the engine ran. *)
From Coq Require Import List NArith ZArith Bool.
Import ListNotations.
From GMS Require Import Codec.C25Arith Codec.C25Nested.

Inductive case :=
(* one operator: operator, child-is-literal (unary minus), declared scale of the left operand's type (division),
   evaluated operands (as the engine's projection returned them), observed result *)
| FlatCase (o : op) (lit : bool) (ldecl : Z) (l r : operand) (out : result)
(* an expression tree with its leaves' evaluated operands, observed result *)
| TreeCase (e : expr) (out : result).

Definition ok (c : case) : bool :=
  match c with
  | FlatCase o lit ldecl l r out => result_eqb (eval o lit ldecl l r) out
  | TreeCase e out => result_eqb (neval e) out
  end.

Definition mismatches (cs : list (N * case)) : list N :=
  map fst (filter (fun p => negb (ok (snd p))) cs).
