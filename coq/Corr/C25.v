(* Correspondence definitions for C25: evaluate the arithmetic model on the cases the engine ran. *)
From Coq Require Import List NArith ZArith Bool.
Import ListNotations.
From GMS Require Import Codec.C25Arith.

(* operator, child-is-literal (unary minus), declared scale of the left operand's type (division),
   evaluated left and right operands (as the engine's projection returned them), observed result *)
Definition case : Type := (op * bool * Z * operand * operand * result)%type.

Definition ok (c : case) : bool :=
  let '(o, lit, ldecl, l, r, out) := c in
  result_eqb (eval o lit ldecl l r) out.

Definition mismatches (cs : list (N * case)) : list N :=
  map fst (filter (fun p => negb (ok (snd p))) cs).
