(* Correspondence definitions for C01: the model of assoc / leftAsscom / rightAsscom / commute evaluated on the
   edges the implementation was called with. *)
From Coq Require Import List NArith Bool.
Import ListNotations.
From GMS Require Import gen.C01Tables Plan.C01Reorder.

(* observed result: 0 = false, 1 = true, 2 = panic *)
Inductive case : Type :=
| Reorder (kind : N) (jtA : N) (leftA rightA sesA nrA : N) (jtB : N) (leftB rightB sesB nrB : N) (observed : N)
| Commute (jt : N) (observed : N).

Definition jt_of (n : N) : option JoinType := nth_error joinTypeByValue (N.to_nat n).

Definition obs_of (r : option bool) : N := match r with Some false => 0 | Some true => 1 | None => 2 end%N.

Definition ok (c : case) : bool :=
  match c with
  | Reorder kind jtA lA rA sA nA jtB lB rB sB nB obs =>
      match jt_of jtA, jt_of jtB with
      | Some a, Some b =>
          let eA := Build_edge a lA rA sA nA in
          let eB := Build_edge b lB rB sB nB in
          let x := match kind with 0 => XAssoc | 1 => XLasscom | _ => XRasscom end%N in
          N.eqb (obs_of (go_xform x eA eB)) obs
      | _, _ => false
      end
  | Commute jt obs =>
      match jt_of jt with
      | Some a => N.eqb (if go_commute a then 1 else 0)%N obs
      | None => false
      end
  end.

Definition mismatches (cs : list (N * case)) : list N :=
  map fst (filter (fun p => negb (ok (snd p))) cs).
