(* Correspondence definitions for C01: the model of assoc / leftAsscom / rightAsscom / commute evaluated on the
   edges the implementation was called with. *)
From Coq Require Import List NArith ZArith Bool.
Import ListNotations.
From GMS Require Import gen.C01Tables Plan.C01Reorder Phys.C01Joins Phys.C01Merge.

(* observed result: 0 = false, 1 = true, 2 = panic *)
Inductive case : Type :=
| Reorder (kind : N) (jtA : N) (leftA rightA sesA nrA : N) (jtB : N) (leftB rightB sesB nrB : N) (observed : N)
| Commute (jt : N) (observed : N)
(* operator level: physical join kind, extra ON conjunct, both inputs (k, v), observed output rows in order *)
| Oper (kind extra : N) (l r : list (option Z * option Z)) (observed : list (list (option Z))).

Definition jt_of (n : N) : option JoinType := nth_error joinTypeByValue (N.to_nat n).

Definition obs_of (r : option bool) : N := match r with Some false => 0 | Some true => 1 | None => 2 end%N.

(* ---------- operator level ---------- *)
Definition orow := (option Z * option Z)%type.
Definition eq3 (a b : option Z) : tri := match a, b with Some x, Some y => if Z.eqb x y then TT else TF | _, _ => TN end.
Definition lt3 (a b : option Z) : tri := match a, b with Some x, Some y => if Z.ltb x y then TT else TF | _, _ => TN end.
Definition not3t (t : tri) : tri := match t with TT => TF | TF => TT | TN => TN end.
Definition and3t (a b : tri) : tri :=
  match a, b with TF, _ | _, TF => TF | TT, TT => TT | _, _ => TN end.
(* extra ON conjunct: 0 none, 1 l.v < r.v, 2 NOT (l.v = r.v), 3 r.v = 1 *)
Definition extra3 (e : N) (x y : orow) : tri :=
  match e with
  | 0 => TT | 1 => lt3 (snd x) (snd y) | 2 => not3t (eq3 (snd x) (snd y)) | _ => eq3 (snd y) (Some 1%Z)
  end%N.
Definition c3 (e : N) (x y : orow) : tri := and3t (eq3 (fst x) (fst y)) (extra3 e x y).
Definition is_tt (t : tri) : bool := match t with TT => true | _ => false end.
Definition condb (e : N) (x y : orow) : bool := is_tt (c3 e x y).

Definition flat (p : orow * option orow) : list (option Z) :=
  match p with
  | (x, Some y) => [fst x; snd x; fst y; snd y]
  | (x, None) => [fst x; snd x; None; None]
  end.
Definition flat1 (x : orow) : list (option Z) := [fst x; snd x].

(* kinds as in harness/props/c01/operators.go; Go's JoinTypeAnti rejects a row on a NULL comparison
   (anti_include_nulls below keeps a row only if every comparison is FALSE), JoinTypeAntiIncludeNulls does not *)
Definition oper_model (kind e : N) (l r : list orow) : option (list (list (option Z))) :=
  match kind with
  | 0 => Some (map flat (nlj (condb e) false l r))
  | 1 => Some (map flat (nlj (condb e) true l r))
  | 2 => Some (map flat1 (exists_semi (condb e) l r))
  | 3 => Some (map flat1 (anti_include_nulls (c3 e) l r))
  | 4 => Some (map flat1 (exists_anti (condb e) l r))
  | 5 => Some (map flat (hash_join (condb e) fst fst Z.eqb false l r))
  | 6 => Some (map flat (hash_join (condb e) fst fst Z.eqb true l r))
  | 7 => Some (map flat1 (hash_semi (condb e) fst fst Z.eqb l r))
  | 8 => Some (map flat1 (hash_anti (condb e) fst fst Z.eqb l r))
  | 9 => Some (map flat (merge_join fst fst (fun x y => is_tt (extra3 e x y)) false l r))
  | 10 => Some (map flat (merge_join fst fst (fun x y => is_tt (extra3 e x y)) true l r))
  | _ => None
  end%N.

Definition oz_eqb (a b : option Z) : bool :=
  match a, b with None, None => true | Some x, Some y => Z.eqb x y | _, _ => false end.
Fixpoint ozs_eqb (a b : list (option Z)) : bool :=
  match a, b with [], [] => true | x :: a', y :: b' => oz_eqb x y && ozs_eqb a' b' | _, _ => false end.
Fixpoint rows_eqb (a b : list (list (option Z))) : bool :=
  match a, b with [], [] => true | x :: a', y :: b' => ozs_eqb x y && rows_eqb a' b' | _, _ => false end.

Definition ok (c : case) : bool :=
  match c with
  | Reorder kind jtA lA rA sA nA jtB lB rB sB nB obs =>
      match jt_of jtA, jt_of jtB with
      | Some a, Some b =>
          let eA := Build_edge a lA rA sA nA in
          let eB := Build_edge b lB rB sB nB in
          let x := match kind with 0 => XAssoc | 1 => XLasscom | _ => XRasscom end%N in
          N.eqb (obs_of (go_xform x eA eB)) obs
      | _, _ => false
      end
  | Commute jt obs =>
      match jt_of jt with
      | Some a => N.eqb (if go_commute a then 1 else 0)%N obs
      | None => false
      end
  | Oper kind e l r obs =>
      match oper_model kind e l r with Some m => rows_eqb m obs | None => false end
  end.

Definition mismatches (cs : list (N * case)) : list N :=
  map fst (filter (fun p => negb (ok (snd p))) cs).
