(* Correspondence definitions for C27: evaluate the Convert models on the cases the implementation ran. *)
From Coq Require Import List NArith ZArith Bool.
Import ListNotations.
From GMS Require Import Base.CorrLib Codec.C25Arith Codec.C27Convert Codec.C27Strings.

Inductive case :=
| NumCase (t : target) (v : value) (out : outcome)              (* integer / decimal source: Type.Convert *)
| StrIntCase (t : ity) (bs : list Z) (out : outcome)             (* text into a narrow integer type or BIGINT *)
| TextCase (binary : bool) (maxlen : Z) (bs : list Z) (nchars : Z) (out : souts).  (* text into VARCHAR/CHAR/VARBINARY *)

Definition souts_eqb (a b : souts) : bool :=
  match a, b with TErr, TErr => true | TOk x, TOk y => zs_eqb x y | _, _ => false end.

Definition ok (c : case) : bool :=
  match c with
  | NumCase t v out => outcome_eqb (convert t v) out
  | StrIntCase t bs out => outcome_eqb (conv_int_str t bs) out
  | TextCase b m bs n out => souts_eqb (conv_text b m bs n) out
  end.

Definition mismatches (cs : list (N * case)) : list N :=
  map fst (filter (fun p => negb (ok (snd p))) cs).
