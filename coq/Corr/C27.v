(* Correspondence definitions for C27: evaluate the Convert models on the cases the implementation ran. *)
From Coq Require Import List NArith ZArith Bool.
Import ListNotations.
From GMS Require Import Base.CorrLib Codec.C25Arith Codec.C27Convert Codec.C27Strings Codec.C27Temporal Codec.C27Enum.

Inductive case :=
| NumCase (t : target) (v : value) (out : outcome)              (* integer / decimal source: Type.Convert *)
| StrIntCase (t : ity) (bs : list Z) (out : outcome)             (* text into a narrow integer type or BIGINT *)
| TextCase (binary : bool) (maxlen : Z) (bs : list Z) (nchars : Z) (out : souts)  (* text into VARCHAR/CHAR/VARBINARY *)
| DtCase (k : tkind) (p : Z) (bs : list Z) (out : dres)          (* text into DATE / DATETIME(p) / TIMESTAMP(p) *)
| TimeCase (bs : list Z) (out : tres)                           (* colon-form text into TIME *)
| YearCase (bs : list Z) (out : yres)                           (* digit text into YEAR *)
| EsbCase (kind : Z) (n : Z) (v : value) (out : eres).          (* a number into ENUM (0) / SET (1) / BIT (2) of size n *)

Definition souts_eqb (a b : souts) : bool :=
  match a, b with TErr, TErr => true | TOk x, TOk y => zs_eqb x y | _, _ => false end.

Definition ok (c : case) : bool :=
  match c with
  | NumCase t v out => outcome_eqb (convert t v) out
  | StrIntCase t bs out => outcome_eqb (conv_int_str t bs) out
  | TextCase b m bs n out => souts_eqb (conv_text b m bs n) out
  | DtCase k p bs out => match conv_dt k p bs, out with DErr, DErr => true | DOk a, DOk b => a =? b | _, _ => false end
  | TimeCase bs out => match string_to_timespan bs, out with TmErr, TmErr => true | TmOk a, TmOk b => a =? b | _, _ => false end
  | YearCase bs out => match conv_year_str bs, out with YErr, YErr => true | YOk a, YOk b => a =? b | _, _ => false end
  | EsbCase kind n v out =>
      match (if kind =? 0 then conv_enum n v else if kind =? 1 then conv_set n v else conv_bit n v), out with
      | EErr, EErr => true | EOk a, EOk b => a =? b | _, _ => false end
  end.

Definition mismatches (cs : list (N * case)) : list N :=
  map fst (filter (fun p => negb (ok (snd p))) cs).
