(* Correspondence definitions for C27: evaluate the Convert model on the cases the implementation ran. *)
From Coq Require Import List NArith ZArith Bool.
Import ListNotations.
From GMS Require Import Codec.C25Arith Codec.C27Convert.

(* target type, source value, observed (value, flag) or error *)
Definition case : Type := (target * value * outcome)%type.

Definition ok (c : case) : bool :=
  let '(t, v, out) := c in outcome_eqb (convert t v) out.

Definition mismatches (cs : list (N * case)) : list N :=
  map fst (filter (fun p => negb (ok (snd p))) cs).
