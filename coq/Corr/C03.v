(* Correspondence definitions for C03: the builder model on the call sequences the implementation ran. *)
From Coq Require Import List NArith ZArith Bool.
Import ListNotations.
From GMS Require Import Base.CorrLib Range.Cut Range.MRange Range.C03IndexBuilder Range.C03Multi.

Definition cut_eqb (a b : cut) : bool :=
  match a, b with
  | BelowNull, BelowNull | AboveNull, AboveNull | AboveAll, AboveAll => true
  | Below x, Below y | Above x, Above y => Z.eqb x y
  | _, _ => false
  end.
Definition rce_eqb (a b : rce) : bool := cut_eqb (lo a) (lo b) && cut_eqb (hi a) (hi b).

(* number of index columns, calls applied to the builder, ranges observed from Ranges() *)
Definition case : Type := (nat * list bop * list range)%type.
Definition ok (c : case) : bool :=
  let '(k, ops, obs) := c in list_eqb (list_eqb rce_eqb) (mresult (mrun k ops)) obs.
Definition mismatches (cs : list (N * case)) : list N :=
  map fst (filter (fun p => negb (ok (snd p))) cs).
