(* Correspondence definitions for C03: the builder model on the call sequences the implementation ran. *)
From Coq Require Import List NArith ZArith Bool.
Import ListNotations.
From GMS Require Import Base.CorrLib Range.Cut Range.MRange Range.C03IndexBuilder Range.C03Multi.

Definition cut_eqb (a b : cut) : bool :=
  match a, b with
  | BelowNull, BelowNull | AboveNull, AboveNull | AboveAll, AboveAll => true
  | Below x, Below y | Above x, Above y => Z.eqb x y
  | _, _ => false
  end.
Definition rce_eqb (a b : rce) : bool := cut_eqb (lo a) (lo b) && cut_eqb (hi a) (hi b).

Definition range_eqb : range -> range -> bool := list_eqb rce_eqb.
Inductive case : Type :=
(* number of index columns, calls applied to the builder, ranges observed from Ranges() *)
| CB (k : nat) (ops : list bop) (obs : list range)
(* keys of a lone IN filter on the INT column, result of the fast path: None = nil *)
| CIn (ls : list lit) (obs : option (list range)).
Definition ok (c : case) : bool :=
  match c with
  | CB k ops obs => list_eqb range_eqb (mresult (mrun k ops)) obs
  | CIn ls obs => option_eqb (list_eqb range_eqb) (in_fast ls) obs
  end.
Definition mismatches (cs : list (N * case)) : list N :=
  map fst (filter (fun p => negb (ok (snd p))) cs).
