(* Correspondence definitions for C03: the builder model on the op sequences the implementation ran. *)
From Coq Require Import List NArith ZArith Bool.
Import ListNotations.
From GMS Require Import Base.CorrLib Range.Cut Range.C03IndexBuilder.

Definition cut_eqb (a b : cut) : bool :=
  match a, b with
  | BelowNull, BelowNull | AboveNull, AboveNull | AboveAll, AboveAll => true
  | Below x, Below y | Above x, Above y => Z.eqb x y
  | _, _ => false
  end.
Definition rce_eqb (a b : rce) : bool := cut_eqb (lo a) (lo b) && cut_eqb (hi a) (hi b).

(* ops applied to the builder, ranges observed from Ranges() *)
Definition case : Type := (list op * list rce)%type.
Definition ok (c : case) : bool := let '(ops, obs) := c in list_eqb rce_eqb (result (run ops)) obs.
Definition mismatches (cs : list (N * case)) : list N :=
  map fst (filter (fun p => negb (ok (snd p))) cs).
