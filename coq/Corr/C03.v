(* Correspondence definitions for C03: the builder model on the call sequences the implementation ran. *)
From Coq Require Import List NArith ZArith Bool.
Import ListNotations.
From GMS Require Import Base.CorrLib Range.Cut Range.MRange Range.C03IndexBuilder Range.C03Multi Range.C03Scan.

Definition cut_eqb (a b : cut) : bool :=
  match a, b with
  | BelowNull, BelowNull | AboveNull, AboveNull | AboveAll, AboveAll => true
  | Below x, Below y | Above x, Above y => Z.eqb x y
  | _, _ => false
  end.
Definition rce_eqb (a b : rce) : bool := cut_eqb (lo a) (lo b) && cut_eqb (hi a) (hi b).

Definition range_eqb : range -> range -> bool := list_eqb rce_eqb.

(* shape of an index filter tree: leaf (id, column, IndexScanOp number) *)
Inductive skel : Type :=
| KLeaf (id col opc : nat)
| KAnd (id : nat) (leaves ors : list skel)
| KOr (id : nat) (cs : list skel).
Definition op_code (o : op) : nat :=
  match o with OEq _ => 0 | ONe _ => 4 | OGt _ => 5 | OGe _ => 6 | OLt _ => 7 | OLe _ => 8 | OIsNull => 11 | OIsNotNull => 12 end.
Definition bop_code (b : bop) : nat := match b with BOp _ o => op_code o | BIn _ _ => 2 | BNotIn _ _ => 3 end.
Fixpoint skel_of (f : ftree) : skel :=
  match f with
  | FLeaf id b => KLeaf id (bop_col b) (bop_code b)
  | FAnd id ls ors => KAnd id (map (fun l => KLeaf (fst l) (bop_col (snd l)) (bop_code (snd l))) ls) (map skel_of ors)
  | FOr id cs => KOr id (map skel_of cs)
  end.
Fixpoint skel_eqb (a b : skel) : bool :=
  let fix all (xs ys : list skel) : bool :=
    match xs, ys with
    | [], [] => true
    | x :: xs', y :: ys' => skel_eqb x y && all xs' ys'
    | _, _ => false
    end in
  match a, b with
  | KLeaf i c o, KLeaf i' c' o' => Nat.eqb i i' && Nat.eqb c c' && Nat.eqb o o'
  | KAnd i ls os, KAnd i' ls' os' => Nat.eqb i i' && all ls ls' && all os os'
  | KOr i cs, KOr i' cs' => Nat.eqb i i' && all cs cs'
  | _, _ => false
  end.
Definition nats_eqb : list nat -> list nat -> bool := list_eqb Nat.eqb.
(* id sets are FastIntSets in the code: compare as sorted duplicate-free lists *)
Fixpoint ninsert (x : nat) (l : list nat) : list nat :=
  match l with
  | [] => [x]
  | y :: l' => if Nat.ltb x y then x :: l else if Nat.eqb x y then l else y :: ninsert x l'
  end.
Definition nset (l : list nat) : list nat := fold_right ninsert [] l.

Inductive case : Type :=
(* number of index columns, calls applied to the builder, ranges observed from Ranges() *)
| CB (k : nat) (ops : list bop) (obs : list range)
(* keys of a lone IN filter on the INT column, result of the fast path: None = nil *)
| CIn (ls : list lit) (obs : option (list range))
(* analyzer level: index columns, the filter conjuncts, what buildRoot produced (tree shape, invalid ids, whole
   expression left over, imprecise ids), the include set given to the range builder, what it produced (error?,
   leftover ids, ranges) and key tuples on which the observed ranges are compared with the model's *)
| CScan (k : nat) (filters : list sexpr)
        (otree : option skel) (oinvalid : list nat) (owhole : bool) (oimprecise : list nat)
        (include : list nat) (oerr : bool) (oleftover : list nat) (oranges : list range) (pts : list tuple).

Definition ok (c : case) : bool :=
  match c with
  | CB k ops obs => list_eqb range_eqb (mresult (mrun k ops)) obs
  | CIn ls obs => option_eqb (list_eqb range_eqb) (in_fast ls) obs
  | CScan k filters otree oinv owhole oimp include oerr oleft oranges pts =>
    match join_and filters with
    | None => false
    | Some e =>
      let r := build_root e in
      option_eqb skel_eqb (option_map skel_of (r_tree r)) otree &&
      nats_eqb (nset (r_invalid r)) oinv && Bool.eqb (r_whole_leftover r) owhole && nats_eqb (nset (r_imprecise r)) oimp &&
      match r_tree r with
      | None => true
      | Some root =>
        match build_range_collection k include (r_imprecise r) (fun rs => Some rs) root with
        | None => oerr
        | Some (res, lo) =>
          negb oerr && nats_eqb lo oleft &&
          let mine := match res with Some rs => rs | None => [] end in
          forallb (fun t => Bool.eqb (ucontains mine t) (ucontains oranges t)) pts
        end
      end
    end
  end.
Definition mismatches (cs : list (N * case)) : list N :=
  map fst (filter (fun p => negb (ok (snd p))) cs).
