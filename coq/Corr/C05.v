(* Correspondence definitions for C05: evaluate the model on the cases the implementation ran. *)
From Coq Require Import List NArith ZArith Bool.
Import ListNotations.
From GMS Require Import Expr.C05Expr Expr.C05Like Plan.C05Pushdown.

Inductive case :=
(* rule level: e, observed simplifyExpression(e), pushNotFiltersHelper(e), pushNotFiltersHelper(simplifyExpression(e)) *)
| RuleCase (e simp pushed both : expr)
(* engine level: table rows (column values in column order), predicate, observed value of SELECT p per row (row order),
   positions of the rows kept by WHERE p / WHERE NOT p / WHERE p IS NULL *)
| EngCase (rows : list row) (p : expr) (sel : list val) (w wn wnull : list N)
(* incrementLastRune(prefix) observed (code points) *)
| LikeIncrCase (prefix : list N) (obs : option (list N))
(* column values (None = NULL) as code points, LIKE pattern, positions kept by WHERE s LIKE pat (the rewritten filter)
   and positions where SELECT s LIKE pat is 1 *)
| LikeCase (vals : list (option (list N))) (pat : list N) (w sel : list N)
(* pushFilters on a plan (slot ownership, plan before, observed plan after) *)
| PushCase (own : list nat) (before after : plan).

Fixpoint plan_eqb (a b : plan) : bool :=
  match a, b with
  | PTable t, PTable t' => Nat.eqb t t'
  | PFilter p c, PFilter p' c' => expr_eqb p p' && plan_eqb c c'
  | PJoin lo p x y, PJoin lo' p' x' y' => Bool.eqb lo lo' && expr_eqb p p' && plan_eqb x x' && plan_eqb y y'
  | PLimit n c, PLimit n' c' => Nat.eqb n n' && plan_eqb c c'
  | _, _ => false
  end.

Fixpoint opositions (f : list N -> bool) (vals : list (option (list N))) (i : N) : list N :=
  match vals with
  | [] => []
  | Some s :: r => if f s then i :: opositions f r (N.succ i) else opositions f r (N.succ i)
  | None :: r => opositions f r (N.succ i)
  end.

Definition oeqb (a b : option (list N)) : bool :=
  match a, b with Some x, Some y => list_eqb N.eqb x y | None, None => true | _, _ => false end.

Fixpoint positions (f : row -> bool) (rows : list row) (i : N) : list N :=
  match rows with
  | [] => []
  | r :: rs => if f r then i :: positions f rs (N.succ i) else positions f rs (N.succ i)
  end.

Definition kept (p : expr) (rows : list row) : list N := positions (fun r => is_true (eval r p)) rows 0%N.

Definition ok (c : case) : bool :=
  match c with
  | RuleCase e simp pushed both =>
      wt e && expr_eqb (simplify e) simp && expr_eqb (push_not e) pushed && expr_eqb (push_not (simplify e)) both
  | EngCase rows p sel w wn wnull =>
      wt p &&
      list_eqb val_eqb (map (fun r => eval r p) rows) sel &&
      (* the filter the engine runs is the rewritten one (simplifyFilters, then pushNotFilters); the select list is not rewritten *)
      list_eqb N.eqb (kept (push_not (simplify p)) rows) w &&
      list_eqb N.eqb (kept (push_not (simplify (Not p))) rows) wn &&
      list_eqb N.eqb (kept (push_not (simplify (IsNull p))) rows) wnull
  | PushCase own before after => plan_eqb (push_filters own before) after
  | LikeIncrCase prefix obs => oeqb (incr_last prefix) obs
  | LikeCase vals pat w sel =>
      list_eqb N.eqb (opositions (eval_rewrite pat) vals 0%N) w && list_eqb N.eqb (opositions (like pat) vals 0%N) sel
  end.

Definition mismatches (cs : list (N * case)) : list N :=
  map fst (filter (fun p => negb (ok (snd p))) cs).
