(* Correspondence definitions for C05: evaluate the model on the cases the implementation ran. *)
From Coq Require Import List NArith ZArith Bool.
Import ListNotations.
From GMS Require Import Expr.C05Expr.

Inductive case :=
(* rule level: e, observed simplifyExpression(e), pushNotFiltersHelper(e), pushNotFiltersHelper(simplifyExpression(e)) *)
| RuleCase (e simp pushed both : expr)
(* engine level: table rows (column values in column order), predicate, observed value of SELECT p per row (row order),
   positions of the rows kept by WHERE p / WHERE NOT p / WHERE p IS NULL *)
| EngCase (rows : list row) (p : expr) (sel : list val) (w wn wnull : list N).

Fixpoint positions (f : row -> bool) (rows : list row) (i : N) : list N :=
  match rows with
  | [] => []
  | r :: rs => if f r then i :: positions f rs (N.succ i) else positions f rs (N.succ i)
  end.

Definition kept (p : expr) (rows : list row) : list N := positions (fun r => is_true (eval r p)) rows 0%N.

Definition ok (c : case) : bool :=
  match c with
  | RuleCase e simp pushed both =>
      wt e && expr_eqb (simplify e) simp && expr_eqb (push_not e) pushed && expr_eqb (push_not (simplify e)) both
  | EngCase rows p sel w wn wnull =>
      wt p &&
      list_eqb val_eqb (map (fun r => eval r p) rows) sel &&
      (* the filter the engine runs is the rewritten one (simplifyFilters, then pushNotFilters); the select list is not rewritten *)
      list_eqb N.eqb (kept (push_not (simplify p)) rows) w &&
      list_eqb N.eqb (kept (push_not (simplify (Not p))) rows) wn &&
      list_eqb N.eqb (kept (push_not (simplify (IsNull p))) rows) wnull
  end.

Definition mismatches (cs : list (N * case)) : list N :=
  map fst (filter (fun p => negb (ok (snd p))) cs).
