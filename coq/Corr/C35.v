(* Correspondence definitions for C35: the batch sizes the real Handler handed to its callback for a statement
   returning n rows must be the sizes the pipeline theorems determine (expected_sizes 128 n); in addition a
   deterministic round-robin run of the executable network on n rows must end finished with those sizes. *)
From Coq Require Import List NArith Arith Bool.
Import ListNotations.
From GMS Require Import Phys.Pipeline.

(* n rows in the result; observed lengths of the Result.Rows of every callback invocation, in order *)
Definition case : Type := (N * list N)%type.

Fixpoint nats_eqb (a b : list nat) : bool :=
  match a, b with
  | [], [] => true
  | x :: a', y :: b' => Nat.eqb x y && nats_eqb a' b'
  | _, _ => false
  end.

Definition rr3 (n : nat) : list action := concat (repeat [Reader; Batcher; Sender] n).

Definition ok (c : case) : bool :=
  let '(n, sizes) := c in
  let n' := N.to_nat n in
  let obs := map N.to_nat sizes in
  nats_eqb obs (expected_sizes 128 n') &&
  (if (n' <=? 260)%nat then
     let s := exec nat nat S 128 512 4 (rr3 (n' + n' + 8)) (init nat nat (seq 0 n') EOF) in
     terminal nat nat s && nats_eqb (map (@length nat) (client nat nat s)) obs
   else true).

Definition mismatches (cs : list (N * case)) : list N :=
  map fst (filter (fun p => negb (ok (snd p))) cs).
