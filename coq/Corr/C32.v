(* Correspondence definitions for C32: evaluate the Quote/Unquote model on the cases the implementation ran. *)
From Coq Require Import List NArith Bool.
Import ListNotations.
From GMS Require Import Codec.Charset Codec.JsonQuote.
Open Scope N_scope.

(* op: 0 Quote, 1 Unquote, 2 UnquoteBytes (capacity = length); input; observed outcome *)
Definition case : Type := (N * list N * rres)%type.

Definition rres_eqb (a b : rres) : bool :=
  match a, b with
  | ROk x, ROk y => ns_eqb x y
  | RErr j, RErr k => j =? k
  | RPanic, RPanic => true
  | _, _ => false
  end.

Definition run (op : N) (s : list N) : rres :=
  match op with
  | 0 => ROk (quote s)
  | 1 => unquote s
  | _ => unquote_bytes s
  end.

Definition ok (c : case) : bool := let '(op, s, obs) := c in rres_eqb (run op s) obs.

Definition mismatches (cs : list (N * case)) : list N :=
  map fst (filter (fun p => negb (ok (snd p))) cs).
