(* Correspondence definitions for C32: evaluate the Quote/Unquote model and the JSON document model on the cases
   the implementation ran. *)
From Coq Require Import List NArith ZArith Bool.
Import ListNotations.
From GMS Require Import Codec.Charset Codec.JsonQuote Codec.C32Json.
Open Scope N_scope.

(* CStr: op 0 Quote, 1 Unquote, 2 UnquoteBytes; input; observed outcome.
   CPrint: a document (integers and strings) and the text CAST(CAST(text AS JSON) AS CHAR) returned by the engine.
   CCmp: two documents and the sign the engine's <, =, > report (-1, 0, 1).
   CPath: op 0 JSON_EXTRACT, 1 JSON_CONTAINS_PATH, 2 JSON_SET, 3 JSON_INSERT, 4 JSON_REPLACE, 5 JSON_REMOVE,
   6 JSON_ARRAY_APPEND; document, path legs, value; observed result text (None = SQL NULL). *)
Inductive case : Type :=
| CStr (op : N) (s : list N) (obs : rres)
| CPrint (d : json) (obs : list N)
| CCmp (a b : json) (obs : Z)
| CPath (op : N) (d : json) (p : list leg) (v : json) (obs : option (list N)).

Definition rres_eqb (a b : rres) : bool :=
  match a, b with
  | ROk x, ROk y => ns_eqb x y
  | RErr j, RErr k => j =? k
  | RPanic, RPanic => true
  | _, _ => false
  end.

Definition run (op : N) (s : list N) : rres :=
  match op with
  | 0 => ROk (quote s)
  | 1 => unquote s
  | _ => unquote_bytes s
  end.

Definition opt_eqb (a b : option (list N)) : bool :=
  match a, b with
  | Some x, Some y => ns_eqb x y
  | None, None => true
  | _, _ => false
  end.

Definition run_path (op : N) (d : json) (p : list leg) (v : json) : option (list N) :=
  match op with
  | 0 => option_map print (lookup p d)
  | 1 => Some (if contains_path p d then [49] else [48])
  | 2 => Some (print (fst (upd SET p d v)))
  | 3 => Some (print (fst (upd INSERT p d v)))
  | 4 => Some (print (fst (upd REPLACE p d v)))
  | 5 => Some (print (fst (upd REMOVE p d v)))
  | _ => Some (print (fst (upd APPEND p d v)))
  end.

Definition cmp_z (c : comparison) : Z := match c with Lt => (-1)%Z | Eq => 0%Z | Gt => 1%Z end.

Definition ok (c : case) : bool :=
  match c with
  | CStr op s obs => rres_eqb (run op s) obs
  | CPrint d obs => ns_eqb (print d) obs
  | CCmp a b obs => (cmp_z (compare_json a b) =? obs)%Z
  | CPath op d p v obs => opt_eqb (run_path op d p v) obs
  end.

Definition mismatches (cs : list (N * case)) : list N :=
  map fst (filter (fun p => negb (ok (snd p))) cs).
