(* C42 -- proofs: table-level checks by computation over the generated enumeration, and the tree theorem by
   induction (plans of unbounded depth and width). *)
From Coq Require Import String List Bool Arith Lia.
Import ListNotations.
From GMS Require Import Plan.C42Base gen.C42Flags Plan.ReadOnly.
Open Scope string_scope.

(* ---------- table-level facts (bound: the kinds present in sql/plan at translation time) ---------- *)
Lemma all_kinds_classified : forallb classified entries = true.
Proof. vm_compute. reflexivity. Qed.

Lemma flags_sound_table : forallb entry_sound entries = true.
Proof. vm_compute. reflexivity. Qed.

Lemma delegation_complete_table : forallb delegation_complete_entry entries = true.
Proof. vm_compute. reflexivity. Qed.

Lemma flags_complete_table : forallb entry_complete entries = true.
Proof. vm_compute. reflexivity. Qed.

Lemma spec_kinds_exist_ok : spec_kinds_exist = true.
Proof. vm_compute. reflexivity. Qed.

Lemma no_unrecognised_body : forallb (fun e => match e_flag e with ROther => false | _ => true end) entries = true.
Proof. vm_compute. reflexivity. Qed.

(* ---------- helpers ---------- *)
Lemma find_entry_some : forall k l e, find_entry k l = Some e -> In e l /\ e_kind e = k.
Proof.
  intros k l. induction l as [|x l IH]; intros e H; cbn in H; [discriminate|].
  destruct (String.eqb k (e_kind x)) eqn:E.
  - injection H as <-. apply String.eqb_eq in E. split; [left; reflexivity | symmetry; exact E].
  - destruct (IH _ H) as [Hin Hk]. split; [right; exact Hin | exact Hk].
Qed.

Lemma fact_eqb_eq : forall a b, fact_eqb a b = true -> a = b.
Proof.
  intros [x|x|x|] [y|y|y|] H; cbn in H; try discriminate; try reflexivity;
    apply String.eqb_eq in H; subst; reflexivity.
Qed.

Lemma has_in : forall a l, has a l = true -> In a l.
Proof.
  intros a l H. unfold has in H. apply existsb_exists in H. destruct H as [x [Hin Hx]].
  apply fact_eqb_eq in Hx. subst. exact Hin.
Qed.

Definition holds (rec : tree -> res) (t : tree) (a : fact) : Prop :=
  match a with
  | FRo f => Forall (fun c => rec c = Ro true) (field t f)
  | FNil f => field t f = []
  | FNotNil f => field t f <> []
  | FData => data_of t = true
  end.

Lemma all_ro_true : forall rec l k, all_ro rec l k = Ro true -> Forall (fun c => rec c = Ro true) l /\ k = Ro true.
Proof.
  intros rec l k. induction l as [|c l IH]; cbn; intros H.
  - split; [constructor | exact H].
  - destruct (rec c) as [[|]| | |] eqn:E; try discriminate.
    destruct (IH H) as [H1 H2]. split; [constructor; assumption | exact H2].
Qed.

Lemma get_path_single : forall t f, get_path t [f] = Some (field t f).
Proof. reflexivity. Qed.

Lemma get_path_cons : forall t f g p,
  get_path t (f :: g :: p) = match field t f with [c] => get_path c (g :: p) | _ => None end.
Proof. reflexivity. Qed.

Lemma eval_implied : forall rec t r, eval rec t r = Ro true ->
  exists alt, In alt (implied r) /\ Forall (holds rec t) alt.
Proof.
  intros rec t r. induction r as [| |p|a IHa b IHb|p rest IH|p a IHa b IHb|p| |]; intros H.
  - exists []. split; [left; reflexivity | constructor].
  - discriminate.
  - destruct p as [|f [|g p']].
    + cbn in H. discriminate.
    + cbn [eval] in H. rewrite get_path_single in H.
      destruct (field t f) as [|c [|c' l]] eqn:Ef; try discriminate.
      exists [FNotNil f; FRo f]. split; [left; reflexivity|].
      constructor; [cbn; rewrite Ef; discriminate|].
      constructor; [cbn; rewrite Ef; constructor; [exact H|constructor] | constructor].
    + exists []. split; [left; reflexivity | constructor].
  - cbn [eval] in H. destruct (eval rec t a) as [[|]| | |] eqn:Ea; try discriminate.
    destruct (IHa eq_refl) as [x [Hx Fx]]. destruct (IHb H) as [y [Hy Fy]].
    exists (x ++ y)%list. split.
    + cbn [implied]. apply in_flat_map. exists x. split; [exact Hx|]. apply in_map. exact Hy.
    + apply Forall_app. split; assumption.
  - cbn [eval] in H. destruct p as [|f [|g p']].
    + cbn in H. discriminate.
    + rewrite get_path_single in H. apply all_ro_true in H. destruct H as [H1 H2].
      destruct (IH H2) as [x [Hx Fx]]. exists (FRo f :: x). split.
      * cbn [implied]. apply in_map. exact Hx.
      * constructor; [exact H1 | exact Fx].
    + destruct (get_path t (f :: g :: p')) as [l|]; [|discriminate].
      apply all_ro_true in H. destruct H as [_ H2]. destruct (IH H2) as [x [Hx Fx]].
      exists x. split; [exact Hx | exact Fx].
  - cbn [eval] in H. destruct p as [|f [|g p']].
    + cbn in H. discriminate.
    + rewrite get_path_single in H. destruct (field t f) as [|c l] eqn:Ef.
      * destruct (IHa H) as [x [Hx Fx]]. exists (FNil f :: x). split.
        -- cbn [implied]. apply in_or_app. left. apply in_map. exact Hx.
        -- constructor; [exact Ef | exact Fx].
      * destruct (IHb H) as [x [Hx Fx]]. exists (FNotNil f :: x). split.
        -- cbn [implied]. apply in_or_app. right. apply in_map. exact Hx.
        -- constructor; [cbn; rewrite Ef; discriminate | exact Fx].
    + destruct (get_path t (f :: g :: p')) as [[|c l]|]; [| |discriminate].
      * destruct (IHa H) as [x [Hx Fx]]. exists x. split; [cbn [implied]; apply in_or_app; left; exact Hx | exact Fx].
      * destruct (IHb H) as [x [Hx Fx]]. exists x. split; [cbn [implied]; apply in_or_app; right; exact Hx | exact Fx].
  - cbn in H. exists [FData]. split; [left; reflexivity|]. constructor; [|constructor].
    cbn. injection H as H. exact H.
  - discriminate.
  - discriminate.
Qed.

(* ---------- the nodes that executing a plan executes ---------- *)
Inductive exec_node : tree -> tree -> Prop :=
| ex_self : forall t, exec_node t t
| ex_child : forall t e f c n,
    find_entry (kind_of t) entries = Some e -> In f (required e) -> In c (field t f) ->
    exec_node c n -> exec_node t n.

(* what the root flag answering true gives, for one node *)
Lemma ro_true_node : forall fuel t, is_ro fuel t = Ro true ->
  exists f' e alt, fuel = S f' /\ find_entry (kind_of t) entries = Some e /\
    alt_ok e alt = true /\ Forall (holds (is_ro f') t) alt.
Proof.
  intros fuel t H. destruct fuel as [|f']; [discriminate|].
  unfold is_ro in H. cbn [is_ro_in] in H.
  destruct (find_entry (kind_of t) entries) as [e|] eqn:E; [|discriminate].
  apply eval_implied in H. destruct H as [alt [Hin Hall]].
  exists f', e, alt. split; [reflexivity|]. split; [reflexivity|]. split; [|exact Hall].
  destruct (find_entry_some _ _ _ E) as [HinE _].
  pose proof flags_sound_table as S. rewrite forallb_forall in S. specialize (S e HinE).
  unfold entry_sound in S. rewrite forallb_forall in S. exact (S alt Hin).
Qed.

Theorem tree_readonly_sound : forall t n, exec_node t n ->
  forall fuel, is_ro fuel t = Ro true -> node_writes n = false.
Proof.
  intros t n Hex. induction Hex as [t | t e f c n E Hf Hc Hex IH]; intros fuel H.
  - destruct (ro_true_node _ _ H) as [f' [e [alt [-> [E [Hok Hall]]]]]].
    destruct (find_entry_some _ _ _ E) as [_ Hk].
    unfold alt_ok in Hok. apply andb_prop in Hok. destruct Hok as [_ Hs].
    unfold node_writes. rewrite <- Hk.
    destruct (spec_of (e_kind e)) as [[| |g|]|]; try discriminate; try reflexivity.
    + apply has_in in Hs. rewrite Forall_forall in Hall. specialize (Hall _ Hs). cbn in Hall.
      destruct (field t g); [contradiction Hall; reflexivity | reflexivity].
    + apply has_in in Hs. rewrite Forall_forall in Hall. specialize (Hall _ Hs). cbn in Hall.
      rewrite Hall. reflexivity.
  - destruct (ro_true_node _ _ H) as [f' [e' [alt [-> [E' [Hok Hall]]]]]].
    rewrite E in E'. injection E' as <-.
    unfold alt_ok in Hok. apply andb_prop in Hok. destruct Hok as [Hreq _].
    rewrite forallb_forall in Hreq. specialize (Hreq f Hf). apply orb_prop in Hreq.
    rewrite Forall_forall in Hall. destruct Hreq as [Hr|Hr]; apply has_in in Hr; specialize (Hall _ Hr); cbn in Hall.
    + rewrite Forall_forall in Hall. exact (IH f' (Hall c Hc)).
    + rewrite Hall in Hc. contradiction.
Qed.

(* the engine-level reading: under a read-only engine, a statement whose plan executes a writing node is not allowed *)
Theorem readonly_rejects_every_write : forall fuel t n,
  exec_node t n -> node_writes n = true -> engine_check true fuel t <> Ro true.
Proof.
  intros fuel t n Hex Hw Hc. unfold engine_check in Hc.
  destruct (is_ro fuel t) as [[|]| | |] eqn:E; try discriminate.
  rewrite (tree_readonly_sound _ _ Hex _ E) in Hw. discriminate.
Qed.

(* ---------- "nothing else": plans built only from non-writing kinds are allowed ---------- *)
Lemma all_ro_mono : forall (r1 r2 : tree -> res) l k1 k2 b,
  (forall c b, In c l -> r1 c = Ro b -> r2 c = Ro b) -> (forall b, k1 = Ro b -> k2 = Ro b) ->
  all_ro r1 l k1 = Ro b -> all_ro r2 l k2 = Ro b.
Proof.
  intros r1 r2 l k1 k2 b. induction l as [|c l IH]; cbn; intros Hr Hk H.
  - exact (Hk _ H).
  - destruct (r1 c) as [[|]| | |] eqn:E; try discriminate.
    + rewrite (Hr c true (or_introl eq_refl) E). apply IH; [intros; apply Hr; [right|]; assumption | exact Hk | exact H].
    + rewrite (Hr c false (or_introl eq_refl) E). exact H.
Qed.

Lemma eval_mono : forall (r1 r2 : tree -> res) t r b,
  (forall c b, r1 c = Ro b -> r2 c = Ro b) -> eval r1 t r = Ro b -> eval r2 t r = Ro b.
Proof.
  intros r1 r2 t r. induction r as [| |p|a IHa x IHx|p rest IH|p a IHa x IHx|p| |]; intros b Hr H; cbn [eval] in *;
    try exact H.
  - destruct (get_path t p) as [[|c [|c' l]]|]; try discriminate. exact (Hr _ _ H).
  - destruct (eval r1 t a) as [[|]| | |] eqn:Ea; try discriminate.
    + rewrite (IHa true Hr eq_refl). exact (IHx _ Hr H).
    + rewrite (IHa false Hr eq_refl). exact H.
  - destruct (get_path t p) as [l|]; [|discriminate].
    eapply all_ro_mono; [intros c b' _ Hc; exact (Hr _ _ Hc) | intros b' Hb; exact (IH _ Hr Hb) | exact H].
  - destruct (get_path t p) as [[|c l]|]; [exact (IHa _ Hr H) | exact (IHx _ Hr H) | discriminate].
Qed.

Lemma is_ro_mono : forall fuel t b, is_ro fuel t = Ro b -> forall k, is_ro (fuel + k) t = Ro b.
Proof.
  induction fuel as [|f IH]; intros t b H k; [discriminate|].
  unfold is_ro in *. cbn [is_ro_in Nat.add] in *.
  destruct (find_entry (kind_of t) entries) as [e|]; [|discriminate].
  eapply eval_mono; [|exact H]. intros c b' Hc. exact (IH c b' Hc k).
Qed.

(* a clean plan: every node (through every field the flags reach) is of a kind that never writes, and the paths its
   flag dereferences are non-nil *)
Fixpoint paths_ok (t : tree) (r : rexp) : Prop :=
  match r with
  | ROne p => exists c, get_path t p = Some [c]
  | RAnd a b => paths_ok t a /\ paths_ok t b
  | RAll p rest => (exists l, get_path t p = Some l) /\ paths_ok t rest
  | RNil p a b => (exists l, get_path t p = Some l) /\ paths_ok t a /\ paths_ok t b
  | _ => True
  end.

Inductive clean : tree -> Prop :=
| clean_node : forall t e,
    find_entry (kind_of t) entries = Some e -> spec_of (e_kind e) = Some WNever -> paths_ok t (e_flag e) ->
    (forall f c, In c (field t f) -> clean c) -> clean t.

Definition ro_some (c : tree) : Prop := exists n, is_ro n c = Ro true.

Lemma forall_fuel : forall l, Forall ro_some l -> exists n, Forall (fun c => is_ro n c = Ro true) l.
Proof.
  induction l as [|c l IH]; intros H.
  - exists 0. constructor.
  - inversion H as [|? ? [n Hn] Hl]; subst. destruct (IH Hl) as [m Hm]. exists (n + m). constructor.
    + apply is_ro_mono. exact Hn.
    + rewrite Forall_forall in *. intros x Hx. rewrite Nat.add_comm. apply is_ro_mono. exact (Hm x Hx).
Qed.

Lemma all_ro_all_true : forall rec l k, Forall (fun c => rec c = Ro true) l -> all_ro rec l k = k.
Proof.
  intros rec l k H. induction H as [|c l Hc Hl IH]; cbn; [reflexivity|]. rewrite Hc. exact IH.
Qed.

(* the set of subtrees a flag can reach is finite: collect them *)
Fixpoint reach (t : tree) (r : rexp) : list tree :=
  match r with
  | ROne p | RAll p RTrue => match get_path t p with Some l => l | None => [] end
  | RAnd a b => (reach t a ++ reach t b)%list
  | RAll p rest => ((match get_path t p with Some l => l | None => [] end) ++ reach t rest)%list
  | RNil p a b => (reach t a ++ reach t b)%list
  | _ => []
  end.

Lemma eval_positive_reach : forall rec t r, positive r = true -> paths_ok t r ->
  Forall (fun c => rec c = Ro true) (reach t r) -> eval rec t r = Ro true.
Proof.
  intros rec t r. induction r as [| |p|a IHa x IHx|p rest IH|p a IHa x IHx|p| |]; intros Hp Hok Hrec;
    cbn [eval positive paths_ok] in *; try discriminate; try reflexivity.
  - destruct Hok as [c Hc]. cbn [reach] in Hrec. rewrite Hc in *. inversion Hrec; subst. assumption.
  - apply andb_prop in Hp. destruct Hp as [Pa Px]. destruct Hok as [Oa Ox].
    cbn [reach] in Hrec. apply Forall_app in Hrec. destruct Hrec as [Ra Rx].
    rewrite (IHa Pa Oa Ra). exact (IHx Px Ox Rx).
  - destruct Hok as [[l Hl] Or]. rewrite Hl.
    assert (Hboth : Forall (fun c => rec c = Ro true) l /\ Forall (fun c => rec c = Ro true) (reach t rest)).
    { cbn [reach] in Hrec. rewrite Hl in Hrec. destruct rest; try (apply Forall_app in Hrec; exact Hrec).
      split; [exact Hrec | constructor]. }
    destruct Hboth as [Hl' Hr']. rewrite (all_ro_all_true _ _ _ Hl'). exact (IH Hp Or Hr').
  - apply andb_prop in Hp. destruct Hp as [Pa Px]. destruct Hok as [[l Hl] [Oa Ox]]. rewrite Hl.
    cbn [reach] in Hrec. apply Forall_app in Hrec. destruct Hrec as [Ra Rx].
    destruct l; [exact (IHa Pa Oa Ra) | exact (IHx Px Ox Rx)].
Qed.

Lemma reach_forall : forall (Q : tree -> Prop) t r,
  (forall p l, get_path t p = Some l -> Forall Q l) -> Forall Q (reach t r).
Proof.
  intros Q t r HQ. induction r as [| |p|a IHa x IHx|p rest IH|p a IHa x IHx|p| |]; cbn [reach]; try constructor.
  - destruct (get_path t p) as [l|] eqn:E; [exact (HQ _ _ E) | constructor].
  - apply Forall_app. split; assumption.
  - assert (Hl : Forall Q (match get_path t p with Some l => l | None => [] end)).
    { destruct (get_path t p) as [l|] eqn:E; [exact (HQ _ _ E) | constructor]. }
    destruct rest; try (apply Forall_app; split; assumption). exact Hl.
  - apply Forall_app. split; assumption.
Qed.

Lemma clean_ro : forall t, clean t ->
  ro_some t /\ forall p l, get_path t p = Some l -> Forall ro_some l.
Proof.
  intros t Hc. induction Hc as [t e E Hs Hok Hch IH].
  assert (Hpaths : forall p l, get_path t p = Some l -> Forall ro_some l).
  { intros p l Hp. destruct p as [|f [|g p']]; [discriminate| |].
    - cbn in Hp. injection Hp as <-. rewrite Forall_forall. intros c Hin. exact (proj1 (IH f c Hin)).
    - rewrite get_path_cons in Hp. destruct (field t f) as [|c [|c' l']] eqn:Ef; try discriminate.
      assert (Hin : In c (field t f)) by (rewrite Ef; left; reflexivity).
      exact (proj2 (IH f c Hin) _ _ Hp). }
  split; [|exact Hpaths].
  destruct (forall_fuel _ (reach_forall ro_some t (e_flag e) Hpaths)) as [n Hn].
  exists (S n). unfold is_ro. cbn [is_ro_in]. rewrite E.
  apply eval_positive_reach; [| exact Hok | exact Hn].
  destruct (find_entry_some _ _ _ E) as [HinE _].
  pose proof flags_complete_table as C. rewrite forallb_forall in C. specialize (C e HinE).
  unfold entry_complete in C. rewrite Hs in C. exact C.
Qed.

Theorem readonly_allows_every_read : forall t, clean t -> exists fuel, is_ro fuel t = Ro true.
Proof. intros t Hc. exact (proj1 (clean_ro t Hc)). Qed.

(* ---------- lifted forms used by Props/C42.v ---------- *)
Lemma all_kinds_classified_forall : forall e, In e entries -> exists w, spec_of (e_kind e) = Some w.
Proof.
  intros e H. pose proof all_kinds_classified as C. rewrite forallb_forall in C. specialize (C e H).
  unfold classified in C. destruct (spec_of (e_kind e)) as [w|]; [exists w; reflexivity | discriminate].
Qed.

Lemma every_body_recognised : forall e, In e entries -> e_flag e <> ROther.
Proof.
  intros e H. pose proof no_unrecognised_body as C. rewrite forallb_forall in C. specialize (C e H).
  intros E. rewrite E in C. discriminate.
Qed.

Lemma flags_sound_forall : forall e alt, In e entries -> In alt (implied (e_flag e)) -> alt_ok e alt = true.
Proof.
  intros e alt He Ha. pose proof flags_sound_table as S. rewrite forallb_forall in S. specialize (S e He).
  unfold entry_sound in S. rewrite forallb_forall in S. exact (S alt Ha).
Qed.

Lemma delegation_complete_forall : forall e, In e entries -> delegation_complete_entry e = true.
Proof. intros e H. pose proof delegation_complete_table as C. rewrite forallb_forall in C. exact (C e H). Qed.

Lemma flags_complete_forall : forall e, In e entries -> spec_of (e_kind e) = Some WNever -> positive (e_flag e) = true.
Proof.
  intros e H Hs. pose proof flags_complete_table as C. rewrite forallb_forall in C. specialize (C e H).
  unfold entry_complete in C. rewrite Hs in C. exact C.
Qed.

Lemma readonly_allows_every_read_engine :
  forall t, clean t -> exists fuel, is_ro fuel t = Ro true /\ engine_check true fuel t = Ro true.
Proof.
  intros t Hc. destruct (readonly_allows_every_read t Hc) as [n Hn]. exists n. split; [exact Hn|].
  unfold engine_check. rewrite Hn. reflexivity.
Qed.

Lemma readwrite_allows_all : forall fuel t, engine_check false fuel t = Ro true.
Proof. reflexivity. Qed.

Lemma call_always_rejected :
  exists t, kind_of t = "Call" /\ forall fuel, engine_check true (S (S fuel)) t = Ro false.
Proof.
  exists (Node "Call" false [("Procedure", [Node "Procedure" false [("ExternalProc", [])]])]).
  split; [reflexivity|]. intros fuel. vm_compute. reflexivity.
Qed.

Lemma nonvacuous :
  (let t := Node "Project" false [("Child", [Node "Filter" false [("Child", [Node "ResolvedTable" false []])]])] in
   clean t /\ is_ro 3 t = Ro true)
  /\ (let w := Node "InsertInto" false [("Destination", [Node "ResolvedTable" false []]); ("Source", [Node "Values" false []])] in
      let t := Node "Block" false [("statements", [Node "Project" false [("Child", [Node "ResolvedTable" false []])]; w])] in
      exec_node t w /\ node_writes w = true /\ is_ro 5 t = Ro false).
Proof.
  split.
  - cbv zeta. split; [|vm_compute; reflexivity].
    assert (Hleaf : clean (Node "ResolvedTable" false [])).
    { eapply clean_node; [vm_compute; reflexivity | vm_compute; reflexivity | exact I |].
      intros f c Hin. cbn in Hin. contradiction. }
    assert (Hfilter : clean (Node "Filter" false [("Child", [Node "ResolvedTable" false []])])).
    { eapply clean_node; [vm_compute; reflexivity | vm_compute; reflexivity | eexists; vm_compute; reflexivity |].
      intros f c Hin. unfold field in Hin. cbn [fields_of assoc] in Hin.
      destruct (String.eqb f "Child"); cbn in Hin; [destruct Hin as [<-|[]]; exact Hleaf | contradiction]. }
    eapply clean_node; [vm_compute; reflexivity | vm_compute; reflexivity | eexists; vm_compute; reflexivity |].
    intros f c Hin. unfold field in Hin. cbn [fields_of assoc] in Hin.
    destruct (String.eqb f "Child"); cbn in Hin; [destruct Hin as [<-|[]]; exact Hfilter | contradiction].
  - cbv zeta. split; [|split; vm_compute; reflexivity].
    eapply ex_child with (f := "statements"); [vm_compute; reflexivity | vm_compute; left; reflexivity | | apply ex_self].
    vm_compute. right. left. reflexivity.
Qed.
