(* C42 -- model of plan.IsReadOnly (sql/plan/*.go, one IsReadOnly method per node type, NO generic tree walk),
   the hand-written specification of which node kinds themselves modify data or schema, and the checks that tie
   the generated flag table to that specification. *)
From Coq Require Import String List Bool Arith.
Import ListNotations.
From GMS Require Import Plan.C42Base gen.C42Flags.
Open Scope string_scope.

(* ---------- plan trees ---------- *)
(* A node: its Go type name, the value of the one non-node bool some flag reads (ExternalProcedure's
   ExternalStoredProcedureDetails.ReadOnly), and its node-typed fields.  A nil pointer / nil interface / empty slice
   is the empty list. *)
Inductive tree : Type := Node (kind : string) (data : bool) (fields : list (string * list tree)).

Definition kind_of (t : tree) : string := let '(Node k _ _) := t in k.
Definition data_of (t : tree) : bool := let '(Node _ d _) := t in d.
Definition fields_of (t : tree) : list (string * list tree) := let '(Node _ _ fs) := t in fs.

Fixpoint assoc {A} (k : string) (l : list (string * A)) : option A :=
  match l with
  | [] => None
  | (k', v) :: r => if String.eqb k k' then Some v else assoc k r
  end.

Definition field (t : tree) (f : string) : list tree :=
  match assoc f (fields_of t) with Some l => l | None => [] end.

(* n.a.b.c : every component but the last must be a non-nil single node *)
Fixpoint get_path (t : tree) (p : list string) : option (list tree) :=
  match p with
  | [] => None
  | [f] => Some (field t f)
  | f :: r => match field t f with [c] => get_path c r | _ => None end
  end.

Fixpoint find_entry (k : string) (l : list entry) : option entry :=
  match l with
  | [] => None
  | e :: r => if String.eqb k (e_kind e) then Some e else find_entry k r
  end.

(* ---------- IsReadOnly ---------- *)
Inductive res : Type := Ro (b : bool) | Panic | NoFuel | Unknown.

Fixpoint all_ro (rec : tree -> res) (l : list tree) (k : res) : res :=
  match l with
  | [] => k
  | c :: r => match rec c with
              | Ro true => all_ro rec r k
              | x => x          (* Ro false: return false;  anything else propagates *)
              end
  end.

Fixpoint eval (rec : tree -> res) (t : tree) (r : rexp) : res :=
  match r with
  | RTrue => Ro true
  | RFalse => Ro false
  | ROne p => match get_path t p with
              | Some [c] => rec c
              | _ => Panic              (* method call through a nil pointer / interface *)
              end
  | RAnd a b => match eval rec t a with
                | Ro true => eval rec t b
                | x => x
                end
  | RAll p rest => match get_path t p with
                   | Some l => all_ro rec l (eval rec t rest)
                   | None => Panic
                   end
  | RNil p a b => match get_path t p with
                  | Some [] => eval rec t a
                  | Some _ => eval rec t b
                  | None => Panic
                  end
  | RData _ => Ro (data_of t)
  | RPanic => Panic
  | ROther => Unknown
  end.

Fixpoint is_ro_in (tbl : list entry) (fuel : nat) (t : tree) : res :=
  match fuel with
  | O => NoFuel
  | S f => match find_entry (kind_of t) tbl with
           | Some e => eval (is_ro_in tbl f) t (e_flag e)
           | None => Unknown
           end
  end.

Definition is_ro : nat -> tree -> res := is_ro_in entries.

(* ---------- specification: which node kinds write ---------- *)
Inductive wspec : Type :=
| WNever                 (* executing this node never modifies data or schema by itself *)
| WAlways                (* it does (DML, DDL, DCL, replication / server state) *)
| WIfNil (f : string)    (* it runs a stored body that is not part of the tree when field f is nil (Procedure) *)
| WUnlessData.           (* external Go code; writes unless declared read-only (ExternalProcedure) *)

(* Hand-written.  "Writes" = changes table rows, the catalog (tables, views, indexes, triggers, routines, events,
   databases), accounts/grants, table statistics (histograms) or replication/server configuration.  Everything that
   only reads, changes session state (variables, cursors, prepared statements, current database, locks, kill,
   transaction control) or produces rows is WNever. *)
Definition writers : list string := [
  "AddColumn"; "AlterAutoIncrement"; "AlterDB"; "AlterDefaultDrop"; "AlterDefaultSet"; "AlterEvent"; "AlterIndex";
  "AlterPK"; "AlterTableCollation"; "AlterTableComment"; "AlterUser"; "Binlog"; "ChangeReplicationFilter";
  "ChangeReplicationSource"; "CreateCheck"; "CreateDB"; "CreateEvent"; "CreateForeignKey"; "CreateIndex";
  "CreateProcedure"; "CreateRole"; "CreateSchema"; "CreateSpatialRefSys"; "CreateTable"; "CreateTrigger";
  "CreateUser"; "CreateView"; "DeleteFrom"; "DropCheck"; "DropColumn"; "DropConstraint"; "DropDB"; "DropEvent";
  "DropForeignKey"; "DropHistogram"; "DropIndex"; "DropProcedure"; "DropRole"; "DropSchema"; "DropTable";
  "DropTrigger"; "DropUser"; "DropView"; "FlushPrivileges"; "Grant"; "GrantProxy"; "GrantRole"; "InsertInto";
  "LoadData"; "ModifyColumn"; "RenameColumn"; "RenameForeignKey"; "RenameTable"; "RenameUser"; "ResetReplica";
  "Revoke"; "RevokeProxy"; "RevokeRole"; "SingleDropView"; "StartReplica"; "StopReplica"; "TableCopier";
  "Truncate"; "Update"; "UpdateHistogram"; "UpdateJoin";
  (* these two panic instead of answering; a plan containing them is never reported read-only *)
  "ExecuteQuery"; "StrExpr"
].

Definition non_writers : list string := [
  "AnalyzeTable"; "BeginEndBlock"; "Block"; "CachedResults"; "Call"; "CaseStatement"; "Close"; "Commit"; "Concat";
  "CreateSavepoint"; "DeallocateQuery"; "DeclareCondition"; "DeclareCursor"; "DeclareHandler"; "DeclareVariables";
  "DeferredAsOfTable"; "DeferredFilteredTable"; "Describe"; "DescribeQuery"; "Distinct"; "ElseCaseError";
  "EmptyTable"; "Fetch"; "Filter"; "ForeignKeyHandler"; "GroupBy"; "HashLookup"; "Having"; "IfConditional";
  "IfElseBlock"; "IndexedTableAccess"; "InsertDestination"; "Into"; "Iterate"; "JSONTable"; "JoinNode"; "Kill";
  "Leave"; "Limit"; "LockTables"; "Loop"; "Max1Row"; "NamedWindows"; "Nothing"; "Offset"; "OnScheduleTimestamp";
  "Open"; "OrderedDistinct"; "PrepareQuery"; "PrependNode"; "ProcedureResolvedTable"; "Project"; "RangeHeap";
  "RecursiveCte"; "RecursiveTable"; "ReleaseSavepoint"; "Releaser"; "Repeat"; "ResolvedTable"; "Rollback";
  "RollbackSavepoint"; "Set"; "SetOp"; "ShowBinlogStatus"; "ShowBinlogs"; "ShowCharset"; "ShowColumns";
  "ShowCreateDatabase"; "ShowCreateEvent"; "ShowCreateProcedure"; "ShowCreateTable"; "ShowCreateTrigger";
  "ShowDatabases"; "ShowEvents"; "ShowGrants"; "ShowIndexes"; "ShowPrivileges"; "ShowProcessList";
  "ShowReplicaStatus"; "ShowStatus"; "ShowTableStatus"; "ShowTables"; "ShowTriggers"; "ShowVariables";
  "ShowWarnings"; "Signal"; "SignalInfo"; "SignalName"; "Sort"; "StartTransaction"; "SubqueryAlias"; "TableAlias";
  "TableCountLookup"; "TopN"; "TransformedNamedNode"; "TriggerBeginEndBlock"; "TriggerExecutor"; "UnlockTables";
  "UnresolvedTable"; "UpdateSource"; "Use"; "ValueDerivedTable"; "Values"; "While"; "Window"; "transactionNode"
].

Definition mem (s : string) (l : list string) : bool := existsb (String.eqb s) l.

(* None = the kind is not classified (a node type added to sql/plan since this table was written) *)
Definition spec_of (k : string) : option wspec :=
  if String.eqb k "Procedure" then Some (WIfNil "ExternalProc")
  else if String.eqb k "ExternalProcedure" then Some WUnlessData
  else if mem k writers then Some WAlways
  else if mem k non_writers then Some WNever
  else None.

Definition node_writes (t : tree) : bool :=
  match spec_of (kind_of t) with
  | Some WNever => false
  | Some WAlways => true
  | Some (WIfNil f) => match field t f with [] => true | _ => false end
  | Some WUnlessData => negb (data_of t)
  | None => true
  end.

(* Hand-written: node fields that executing the node does NOT execute (they are described, stored for later, or only
   their schema is read), or that are exempt from the tree theorem for the reason given. *)
Definition inert : list (string * list string) := [
  ("Describe", ["Child"]);             (* DESCRIBE t: reads the child's schema *)
  ("DescribeQuery", ["Child"]);        (* EXPLAIN: prints the plan *)
  ("PrepareQuery", ["Child"]);         (* PREPARE: caches the statement; EXECUTE re-plans and re-checks it *)
  ("ShowColumns", ["Child"]); ("ShowCreateTable", ["Child"]); ("ShowIndexes", ["Child"]);
  ("ShowCharset", ["CharacterSetTable"]);      (* an information_schema table *)
  ("ShowTriggers", ["Triggers"]);      (* CreateTrigger nodes are listed, not run *)
  ("DeclareHandler", ["Statement"]);   (* only meaningful inside a procedure body, which is interpreted separately *)
  ("Fetch", ["InnerSet"]);             (* a Set of procedure variables *)
  ("SignalName", ["Signal"]);
  ("InsertDestination", ["Child"]); ("UpdateSource", ["Child"]); ("ProcedureResolvedTable", ["ResolvedTable"]);
                                       (* wrappers that only occur below InsertInto / Update / inside procedures *)
  (* exempt (see docs/C42.md): the flag of RecursiveCte reads union.left and union.right directly; its [union] is
     always a SetOp and [Working] always a RecursiveTable leaf, which this table-driven argument cannot see *)
  ("RecursiveCte", ["union"; "Working"])
].

Definition inert_of (k : string) : list string :=
  match assoc k inert with Some l => l | None => [] end.

Definition required (e : entry) : list string :=
  filter (fun f => negb (mem f (inert_of (e_kind e)))) (map fst (e_fields e)).

(* ---------- what a flag guarantees when it answers true ---------- *)
Inductive fact : Type :=
| FRo (f : string)       (* every node in field f is read-only *)
| FNil (f : string)      (* field f is nil / empty *)
| FNotNil (f : string)
| FData.                 (* the data bit is true *)

Definition fact_eqb (a b : fact) : bool :=
  match a, b with
  | FRo x, FRo y | FNil x, FNil y | FNotNil x, FNotNil y => String.eqb x y
  | FData, FData => true
  | _, _ => false
  end.

Definition has (a : fact) (l : list fact) : bool := existsb (fact_eqb a) l.

(* disjunctive normal form: the flag answers true only if all facts of one alternative hold; [] = never true *)
Fixpoint implied (r : rexp) : list (list fact) :=
  match r with
  | RTrue => [[]]
  | RFalse | RPanic | ROther => []
  | ROne [f] => [[FNotNil f; FRo f]]
  | ROne _ => [[]]                       (* a longer path gives no fact about a direct field *)
  | RAnd a b => flat_map (fun x => map (fun y => (x ++ y)%list) (implied b)) (implied a)
  | RAll [f] rest => map (cons (FRo f)) (implied rest)
  | RAll _ rest => implied rest
  | RNil [f] a b => (map (cons (FNil f)) (implied a) ++ map (cons (FNotNil f)) (implied b))%list
  | RNil _ a b => (implied a ++ implied b)%list
  | RData _ => [[FData]]
  end.

Definition alt_ok (e : entry) (alt : list fact) : bool :=
  forallb (fun f => has (FRo f) alt || has (FNil f) alt) (required e)
  && match spec_of (e_kind e) with
     | Some WNever => true
     | Some WAlways => false
     | Some (WIfNil f) => has (FNotNil f) alt
     | Some WUnlessData => has FData alt
     | None => false
     end.

(* soundness of one table entry: whenever the flag can answer true, the node itself does not write and every field it
   executes is either nil or was asked *)
Definition entry_sound (e : entry) : bool := forallb (alt_ok e) (implied (e_flag e)).

Definition classified (e : entry) : bool :=
  match spec_of (e_kind e) with Some _ => true | None => false end.

(* a delegating flag mentions every field that Children() returns (bar the exemptions above) *)
Fixpoint mentions (r : rexp) : list string :=
  match r with
  | ROne (f :: _) | RData (f :: _) => [f]
  | RAnd a b => (mentions a ++ mentions b)%list
  | RAll (f :: _) rest => f :: mentions rest
  | RNil (f :: _) a b => f :: (mentions a ++ mentions b)%list
  | _ => []
  end.

Definition delegates (r : rexp) : bool :=
  match r with RTrue | RFalse | RPanic | ROther | RData _ => false | _ => true end.

Definition delegation_complete_entry (e : entry) : bool :=
  if delegates (e_flag e)
  then forallb (fun f => mem f (mentions (e_flag e)) || mem f (inert_of (e_kind e))) (e_children e)
  else true.

(* "nothing else": a kind that never writes does not answer a constant false, and its flag is positive: built from
   true, delegation and nil tests only *)
Fixpoint positive (r : rexp) : bool :=
  match r with
  | RTrue | ROne _ => true
  | RAnd a b => positive a && positive b
  | RAll _ rest => positive rest
  | RNil _ a b => positive a && positive b
  | _ => false
  end.

Definition entry_complete (e : entry) : bool :=
  match spec_of (e_kind e) with
  | Some WNever => positive (e_flag e)
  | _ => true
  end.

(* every kind named in the hand-written tables still exists in the source *)
Definition spec_kinds_exist : bool :=
  forallb (fun k => match find_entry k entries with Some _ => true | None => false end)
          (writers ++ non_writers ++ map fst inert ++ ["Procedure"; "ExternalProcedure"])%list.

(* ---------- the three read-only modes (engine.go readOnlyCheck; analyzer validateReadOnlyTransaction /
   validateReadOnlyDatabase look only at the ROOT node: [switch n := n.(type)] inside the walk re-tests the root) ----- *)
Definition engine_check (read_only : bool) (fuel : nat) (t : tree) : res :=
  if read_only then match is_ro fuel t with
                    | Ro true => Ro true      (* allowed *)
                    | Ro false => Ro false    (* ErrReadOnly *)
                    | x => x
                    end
  else Ro true.
