(* C42 -- shared types of the read-only flag table (the table itself is generated: gen/C42Flags.v). *)
From Coq Require Import String List Bool.
Import ListNotations.

(* The body of an IsReadOnly() method, classified by the translator. Paths are receiver field selectors with the
   embedded UnaryNode/BinaryNode components dropped (n.Child -> ["Child"], r.union.BinaryNode.left -> ["union";"left"]). *)
Inductive rexp : Type :=
| RTrue                                      (* return true *)
| RFalse                                     (* return false *)
| ROne (p : list string)                     (* return n.p.IsReadOnly() *)
| RAnd (a b : rexp)                          (* a && b *)
| RAll (p : list string) (rest : rexp)       (* for _, s := range n.p { if !s.IsReadOnly() { return false } }; rest *)
| RNil (p : list string) (ifnil notnil : rexp) (* if n.p == nil { ifnil }; notnil *)
| RData (p : list string)                    (* return n.p  (a bool that is not a node) *)
| RPanic                                     (* panic(...) *)
| ROther.                                    (* anything the translator does not recognise *)

Record entry : Type := mkEntry {
  e_kind : string;                 (* Go type name *)
  e_file : string;
  e_from : string;                 (* type that declares the method (differs when inherited by embedding) *)
  e_flag : rexp;
  e_fields : list (string * bool); (* node-typed struct fields (promoted ones included); true = slice *)
  e_children : list string         (* node fields mentioned by Children() *)
}.
