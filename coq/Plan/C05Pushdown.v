(* C05: filter push-down (sql/analyzer/pushdown.go pushFilters / pushdownFiltersAboveTables / filteredTableNode /
   updateFilterNode, sql/analyzer/filters.go exprsToTableFilters / subtractExprSet) and hoistOutOfScopeFilters
   (hoist_filters.go) as functions on a small plan AST over the C05 expression model.

   Rows are "wide": every relation's rows have one slot per column of the whole query; slot i belongs to table [own i].
   A join merges two rows slot-wise (slots of the left tables from the left row, the others from the right row), so a
   column reference keeps its meaning at every level of the plan, as GetField(tableId, column) does in the Go code; the
   null-extended row of a left outer join has NULL in all right slots. *)
From Coq Require Import List ZArith NArith Bool Lia Permutation.
Import ListNotations.
From GMS Require Import Expr.C05Expr Expr.C05ExprProofs.

Inductive plan :=
| PTable (t : nat)
| PFilter (p : expr) (c : plan)
| PJoin (left_outer : bool) (p : expr) (a b : plan)     (* inner join / left outer join *)
| PLimit (n : nat) (c : plan).

(* ---------- columns of an expression ---------- *)
Fixpoint cols (e : expr) : list nat :=
  match e with
  | Lit _ _ => []
  | Col i _ => [i]
  | Cmp _ a b | NsEq a b | Arith _ a b | And a b | Or a b | Xor a b => cols a ++ cols b
  | Neg a | Not a | IsNull a | IsTrue _ a => cols a
  | In a l => cols a ++ flat_map cols l
  | Between a b c | Case a b c => cols a ++ cols b ++ cols c
  end.

(* expression.SplitConjunction / expression.JoinAnd *)
Fixpoint split_conj (e : expr) : list expr :=
  match e with And a b => split_conj a ++ split_conj b | _ => [e] end.
Definition join_and (l : list expr) : expr :=
  match l with [] => lit_true | x :: r => fold_left And r x end.

(* subtractExprSet (reflect.DeepEqual) *)
Definition subtract (all h : list expr) : list expr :=
  filter (fun e => negb (existsb (expr_eqb e) h)) all.

Definition sigma_all (fs : list expr) (l : list row) : list row :=
  filter (fun r => forallb (fun f => is_true (eval r f)) fs) l.

Section Pushdown.
  Variable own : list nat.            (* slot -> table id *)
  Variable db : nat -> list row.      (* table id -> rows (wide) *)

  Fixpoint tabs (pl : plan) : list nat :=
    match pl with
    | PTable t => [t]
    | PFilter _ c | PLimit _ c => tabs c
    | PJoin _ _ a b => tabs a ++ tabs b
    end.

  Definition memb (t : nat) (ts : list nat) : bool := existsb (Nat.eqb t) ts.

  (* every column of e is a slot of one of the tables ts *)
  Definition over (ts : list nat) (e : expr) : bool :=
    forallb (fun i => (i <? length own)%nat && memb (nth i own 0%nat) ts) (cols e).
  (* exprsToTableFilters: the conjunct mentions exactly one table (at least one column), and it is t *)
  Definition only_table (t : nat) (e : expr) : bool :=
    match cols e with [] => false | _ => over [t] e end.

  Definition merge (tl : list nat) (a b : row) : row :=
    map (fun i => if memb (nth i own 0%nat) tl then nth i a VNull else nth i b VNull) (seq 0 (length own)).
  Definition null_row : row := repeat VNull (length own).

  Definition matches (tl : list nat) (p : expr) (a : row) (B : list row) : list row :=
    filter (fun r => is_true (eval r p)) (map (merge tl a) B).
  Definition inner_join tl p (A B : list row) : list row := flat_map (fun a => matches tl p a B) A.
  Definition left_join tl p (A B : list row) : list row :=
    flat_map (fun a => match matches tl p a B with [] => [merge tl a null_row] | m => m end) A.

  Fixpoint peval (pl : plan) : list row :=
    match pl with
    | PTable t => db t
    | PFilter p c => sigma p (peval c)
    | PJoin false p a b => inner_join (tabs a) p (peval a) (peval b)
    | PJoin true p a b => left_join (tabs a) p (peval a) (peval b)
    | PLimit n c => firstn n (peval c)
    end.

  (* pushdownFiltersAboveTables: [avail] = the conjuncts still available from the nodes above; result = the new plan
     and the conjuncts that were wrapped around a table (handled) *)
  Fixpoint push (avail : list expr) (pl : plan) : plan * list expr :=
    match pl with
    | PTable t =>
        match filter (only_table t) avail with
        | [] => (pl, [])
        | mine => (PFilter (join_and mine) pl, mine)
        end
    | PFilter p c =>
        let cs := split_conj p in
        let '(c', h) := push (avail ++ cs) c in
        (* updateFilterNode: handled conjuncts are removed; a Filter directly below is merged into this one *)
        (match subtract cs h with
         | [] => c'
         | rest => match c' with
                   | PFilter x c'' => PFilter (join_and (rest ++ [x])) c''
                   | _ => PFilter (join_and rest) c'
                   end
         end, h)
    | PJoin false p a b =>
        let cs := split_conj p in
        let '(a', h1) := push (avail ++ cs) a in
        let '(b', h2) := push (subtract (avail ++ cs) h1) b in
        (PJoin false (join_and (subtract cs (h1 ++ h2))) a' b', h1 ++ h2)
    | PJoin true p a b =>
        (* parent filters go to the preserved (left) side only; the null-supplying side starts from an empty set *)
        let '(a', h1) := push avail a in
        let '(b', _) := push [] b in
        (PJoin true p a' b', h1)
    | PLimit n c =>
        let '(c', _) := push [] c in (PLimit n c', [])
    end.

  Definition push_filters (pl : plan) : plan := fst (push [] pl).

  (* the variant the rule must NOT perform: a parent conjunct over the null-supplying side pushed below a left join *)
  Definition push_right_of_left_join (f p : expr) (a b : plan) : plan := PJoin true p a (PFilter f b).
End Pushdown.

(* ---------- hoistOutOfScopeFilters on EXISTS (SELECT .. FROM S WHERE q) evaluated for an outer row ---------- *)
(* columns below n belong to the outer scope (the row r), the others to the subquery's rows *)
Definition outer_only (n : nat) (e : expr) : bool := forallb (fun i => (i <? n)%nat) (cols e).

(* partitionFilterByScope on each conjunct: nothing in scope => hoisted (wrapped in IS TRUE), else kept *)
Definition hoist (n : nat) (q : expr) : list expr * list expr :=
  let cs := split_conj q in
  (map (IsTrue false) (filter (outer_only n) cs), filter (fun e => negb (outer_only n e)) cs).

Definition exists_sub (r : row) (S : list row) (q : expr) : bool :=
  existsb (fun s => is_true (eval (r ++ s) q)) S.
