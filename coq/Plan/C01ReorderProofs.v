(* C01, layer (a): proofs.  (1) the sound table is sound for all relations and ON conditions;
   (2) every entry of the TRANSLATED Go tables, read through the model of checkProperty, is below it. *)
From Coq Require Import List NArith Bool Permutation Lia.
Import ListNotations.
From GMS Require Import gen.C01Tables Plan.C01Reorder.

(* ---------- list toolkit ---------- *)
Lemma c01_flat_map_flat_map {A B C} (f : B -> list C) (g : A -> list B) l :
  flat_map f (flat_map g l) = flat_map (fun x => flat_map f (g x)) l.
Proof. induction l as [|a l IH]; cbn; [reflexivity|]. rewrite flat_map_app, IH. reflexivity. Qed.

Lemma c01_flat_map_map {A B C} (f : B -> list C) (g : A -> B) l :
  flat_map f (map g l) = flat_map (fun x => f (g x)) l.
Proof. induction l as [|a l IH]; cbn; congruence. Qed.

Lemma c01_filter_map {A B} (p : B -> bool) (f : A -> B) l :
  filter p (map f l) = map f (filter (fun x => p (f x)) l).
Proof. induction l as [|a l IH]; cbn; [reflexivity|]. destruct (p (f a)); cbn; congruence. Qed.

Lemma c01_map_flat_map {A B C} (f : B -> C) (g : A -> list B) l :
  map f (flat_map g l) = flat_map (fun x => map f (g x)) l.
Proof. induction l as [|a l IH]; cbn; [reflexivity|]. rewrite map_app, IH. reflexivity. Qed.

Lemma c01_filter_flat_map {A B} (p : B -> bool) (g : A -> list B) l :
  filter p (flat_map g l) = flat_map (fun x => filter p (g x)) l.
Proof. induction l as [|a l IH]; cbn; [reflexivity|]. rewrite filter_app, IH. reflexivity. Qed.

Lemma c01_existsb_map {A B} (p : B -> bool) (f : A -> B) l :
  existsb p (map f l) = existsb (fun x => p (f x)) l.
Proof. induction l as [|a l IH]; cbn; congruence. Qed.

Lemma c01_filter_true {A} (l : list A) : filter (fun _ => true) l = l.
Proof. induction l as [|a l IH]; cbn; congruence. Qed.

Lemma c01_filter_false {A} (l : list A) : filter (fun _ => false) l = [].
Proof. induction l as [|a l IH]; cbn; congruence. Qed.

Lemma c01_filter_filter {A} (p q : A -> bool) l : filter p (filter q l) = filter (fun x => q x && p x) l.
Proof. induction l as [|a l IH]; cbn; [reflexivity|]. destruct (q a); cbn; [destruct (p a)|]; congruence. Qed.

Lemma c01_filter_ext {A} (p q : A -> bool) l : (forall x, p x = q x) -> filter p l = filter q l.
Proof. intros H. induction l as [|a l IH]; cbn; [reflexivity|]. rewrite H, IH. reflexivity. Qed.

Lemma c01_perm_flat_map_pw {A B} (f g : A -> list B) l :
  (forall a, Permutation (f a) (g a)) -> Permutation (flat_map f l) (flat_map g l).
Proof. intros H. induction l as [|a l IH]; cbn; [constructor|]. apply Permutation_app; auto. Qed.

Lemma c01_perm_flat_map_app {A B} (f g : A -> list B) l :
  Permutation (flat_map (fun x => f x ++ g x) l) (flat_map f l ++ flat_map g l).
Proof.
  induction l as [|a l IH]; cbn; [constructor|]. rewrite IH.
  rewrite <- !app_assoc. apply Permutation_app_head.
  rewrite !app_assoc. apply Permutation_app_tail. apply Permutation_app_comm.
Qed.

Lemma c01_flat_map_nil {A B} (l : list A) : flat_map (fun _ => @nil B) l = [].
Proof. induction l; cbn; auto. Qed.

Lemma c01_flat_map_swap {A B C} (F : A -> B -> list C) xs ys :
  Permutation (flat_map (fun x => flat_map (fun y => F x y) ys) xs)
              (flat_map (fun y => flat_map (fun x => F x y) xs) ys).
Proof.
  induction xs as [|a xs IH]; cbn.
  - rewrite c01_flat_map_nil. constructor.
  - rewrite IH. symmetry. apply c01_perm_flat_map_app.
Qed.

Lemma c01_map_as_flat_map {A B} (f : A -> B) l : map f l = flat_map (fun x => [f x]) l.
Proof. induction l; cbn; congruence. Qed.

Lemma c01_prod_swap {X Y Z} (f : X -> Y -> Z) xs ys :
  Permutation (flat_map (fun x => map (fun y => f x y) ys) xs)
              (flat_map (fun y => map (fun x => f x y) xs) ys).
Proof.
  rewrite (flat_map_ext _ (fun x => flat_map (fun y => [f x y]) ys)) by (intros; apply c01_map_as_flat_map).
  rewrite (flat_map_ext (fun y => map _ xs) (fun y => flat_map (fun x => [f x y]) xs)) by (intros; apply c01_map_as_flat_map).
  apply c01_flat_map_swap.
Qed.

Lemma orelse_none_r {X} (a : option X) : orelse a None = a.
Proof. destruct a; reflexivity. Qed.

(* ---------- per-left-tuple selections ---------- *)
Definition sel {B} (o : op) (q : B -> bool) (r : list B) : list (option B) :=
  match o with
  | Cross => map Some r
  | Inner => map Some (filter q r)
  | Semi => if existsb q r then [None] else []
  | Anti => if existsb q r then [] else [None]
  | LeftJ | Full => match filter q r with [] => [None] | m => map Some m end
  end.

Section Proofs.
  Context {A1 A2 A3 : Type}.
  Notation T := (@T A1 A2 A3).

  Lemma join_nf o (p : T -> bool) l r : o <> Full -> join o p l r = flat_map (ext o p r) l.
  Proof. intros H. unfold join. destruct o; try apply app_nil_r. congruence. Qed.

  Lemma join_cross (p : T -> bool) l r : join Cross p l r = join Inner (fun _ => true) l r.
  Proof. reflexivity. Qed.

  (* joining a tuple whose slot 2 is empty with the leaf e2 *)
  Lemma ext_slot2 o (p : T -> bool) x z (e2 : list A2) :
    ext o p (map lift2 e2) (x, None, z) = map (fun oy => (x, oy, z)) (sel o (fun y => p (x, Some y, z)) e2).
  Proof.
    assert (H : map (merge (x, None, z)) (map lift2 e2) = map (fun y => (x, Some y, z)) e2).
    { rewrite map_map. apply map_ext. intros y. unfold merge, lift2, c1, c2, c3. cbn. rewrite !orelse_none_r. reflexivity. }
    destruct o; unfold ext, matches, sel; rewrite H.
    - rewrite c01_filter_true, map_map. reflexivity.
    - rewrite c01_filter_map, map_map. reflexivity.
    - rewrite c01_existsb_map. destruct (existsb _ e2); reflexivity.
    - rewrite c01_existsb_map. destruct (existsb _ e2); reflexivity.
    - rewrite c01_filter_map. destruct (filter _ e2); cbn; [reflexivity|]. rewrite map_map. reflexivity.
    - rewrite c01_filter_map. destruct (filter _ e2); cbn; [reflexivity|]. rewrite map_map. reflexivity.
  Qed.

  Lemma ext_slot3 o (p : T -> bool) x y (e3 : list A3) :
    ext o p (map lift3 e3) (x, y, None) = map (fun oz => (x, y, oz)) (sel o (fun z => p (x, y, Some z)) e3).
  Proof.
    assert (H : map (merge (x, y, None)) (map lift3 e3) = map (fun z => (x, y, Some z)) e3).
    { rewrite map_map. apply map_ext. intros z. unfold merge, lift3, c1, c2, c3. cbn. rewrite !orelse_none_r. reflexivity. }
    destruct o; unfold ext, matches, sel; rewrite H.
    - rewrite c01_filter_true, map_map. reflexivity.
    - rewrite c01_filter_map, map_map. reflexivity.
    - rewrite c01_existsb_map. destruct (existsb _ e3); reflexivity.
    - rewrite c01_existsb_map. destruct (existsb _ e3); reflexivity.
    - rewrite c01_filter_map. destruct (filter _ e3); cbn; [reflexivity|]. rewrite map_map. reflexivity.
    - rewrite c01_filter_map. destruct (filter _ e3); cbn; [reflexivity|]. rewrite map_map. reflexivity.
  Qed.

  Variables (e1 : list A1) (e2 : list A2) (e3 : list A3).
  Notation Q12 := (option A1 -> option A2 -> bool).
  Notation Q13 := (option A1 -> option A3 -> bool).
  Notation Q23 := (option A2 -> option A3 -> bool).

  (* ---------- l-asscom: every pair of operators other than full ---------- *)
  Lemma lasscom_nf A B (q12 : Q12) (q13 : Q13) : A <> Full -> B <> Full ->
    Permutation (lasscom_lhs e1 e2 e3 A B q12 q13) (lasscom_rhs e1 e2 e3 A B q12 q13).
  Proof.
    intros HA HB. unfold lasscom_lhs, lasscom_rhs.
    rewrite !join_nf by assumption.
    rewrite !c01_flat_map_flat_map, !c01_flat_map_map.
    apply c01_perm_flat_map_pw. intros a. unfold lift1.
    rewrite ext_slot2, ext_slot3, !c01_flat_map_map.
    erewrite flat_map_ext; [|intros oy; rewrite ext_slot3; reflexivity].
    erewrite (flat_map_ext (fun x => ext A _ _ _)); [|intros oz; rewrite ext_slot2; reflexivity].
    unfold on12, on13, c1, c2, c3. cbn [fst snd].
    apply (c01_prod_swap (fun oy oz => (Some a, oy, oz))).
  Qed.

  (* ---------- assoc ---------- *)
  Lemma filter_const_map {X} (b : bool) (f : X -> T) (p : T -> bool) l :
    (forall x, p (f x) = b) -> filter p (map f l) = if b then map f l else [].
  Proof.
    intros H. rewrite c01_filter_map. rewrite (c01_filter_ext _ (fun _ => b)) by assumption.
    destruct b; [rewrite c01_filter_true|rewrite c01_filter_false]; reflexivity.
  Qed.

  Definition R23 (B : op) (q23 : Q23) : list T :=
    flat_map (fun y => ext B (on23 q23) (map lift3 e3) (lift2 y)) e2.

  Lemma assoc_core B (a : A1) (q12 : Q12) (q23 : Q23) :
    filter (on12 q12) (map (merge (lift1 a)) (R23 B q23))
    = flat_map (fun oy => map (fun oz => (Some a, oy, oz)) (sel B (fun z => q23 oy (Some z)) e3))
               (map Some (filter (fun y => q12 (Some a) (Some y)) e2)).
  Proof.
    unfold R23.
    induction e2 as [|y l IH]; [reflexivity|].
    cbn [flat_map]. rewrite map_app, filter_app, IH. clear IH.
    unfold lift2 at 1. rewrite ext_slot3, map_map.
    rewrite (filter_const_map (q12 (Some a) (Some y))).
    2:{ intros oz. unfold on12, merge, lift1, c1, c2, c3. cbn. reflexivity. }
    cbn [filter]. destruct (q12 (Some a) (Some y)); cbn [map flat_map app]; [|reflexivity].
    reflexivity.
  Qed.

  Lemma assoc_lhs_point (B : op) (a : A1) (q23 : Q23) (S2 : list (option A2)) :
    flat_map (ext B (on23 q23) (map lift3 e3)) (map (fun oy => (Some a, oy, None)) S2)
    = flat_map (fun oy => map (fun oz => (Some a, oy, oz)) (sel B (fun z => q23 oy (Some z)) e3)) S2.
  Proof.
    rewrite c01_flat_map_map. apply flat_map_ext. intros oy. rewrite ext_slot3. reflexivity.
  Qed.

  Lemma assoc_inner B (q12 : Q12) (q23 : Q23) : B <> Full ->
    assoc_lhs e1 e2 e3 Inner B q12 q23 = assoc_rhs e1 e2 e3 Inner B q12 q23.
  Proof.
    intros HB. unfold assoc_lhs, assoc_rhs.
    rewrite !(join_nf B) by assumption.
    rewrite !(join_nf Inner) by discriminate.
    rewrite c01_flat_map_flat_map, !c01_flat_map_map.
    apply flat_map_ext. intros a.
    change (ext Inner (on12 q12) ?r (lift1 a)) with (filter (on12 q12) (map (merge (lift1 a)) r)).
    fold (R23 B q23). rewrite assoc_core.
    change (filter (on12 q12) (map (merge (lift1 a)) (map lift2 e2))) with (@ext A1 A2 A3 Inner (on12 q12) (map lift2 e2) (lift1 a)).
    unfold lift1. rewrite ext_slot2. cbn [sel]. rewrite assoc_lhs_point.
    unfold on12, c1, c2. cbn [fst snd]. reflexivity.
  Qed.

  Lemma sel_left_nonempty {X} (q : X -> bool) r : sel LeftJ q r <> [].
  Proof. unfold sel. destruct (filter q r); cbn; discriminate. Qed.

  Lemma assoc_left_left (q12 : Q12) (q23 : Q23) : rejects_l q23 ->
    assoc_lhs e1 e2 e3 LeftJ LeftJ q12 q23 = assoc_rhs e1 e2 e3 LeftJ LeftJ q12 q23.
  Proof.
    intros HR. unfold assoc_lhs, assoc_rhs.
    rewrite !(join_nf LeftJ) by discriminate.
    rewrite c01_flat_map_flat_map, !c01_flat_map_map.
    apply flat_map_ext. intros a.
    fold (R23 LeftJ q23).
    change (ext LeftJ (on12 q12) (R23 LeftJ q23) (lift1 a))
      with (match filter (on12 q12) (map (merge (lift1 a)) (R23 LeftJ q23)) with [] => [lift1 a] | m => m end).
    rewrite assoc_core.
    unfold lift1. rewrite ext_slot2. rewrite assoc_lhs_point.
    unfold on12, c1, c2. cbn [fst snd sel].
    destruct (filter (fun y => q12 (Some a) (Some y)) e2) as [|y m] eqn:E.
    - cbn. rewrite (c01_filter_ext _ (fun _ => false)) by (intros; apply HR). rewrite c01_filter_false. reflexivity.
    - cbn [map flat_map].
      destruct (filter (fun z => q23 (Some y) (Some z)) e3) eqn:E2; cbn; reflexivity.
  Qed.

  (* ---------- r-asscom over inner / cross ---------- *)
  Lemma inner_23 (q23 : Q23) :
    @join A1 A2 A3 Inner (on23 q23) (map lift2 e2) (map lift3 e3)
    = flat_map (fun y => map (fun z => (None, Some y, Some z)) (filter (fun z => q23 (Some y) (Some z)) e3)) e2.
  Proof.
    rewrite join_nf by discriminate. rewrite c01_flat_map_map. apply flat_map_ext. intros y.
    unfold lift2. rewrite ext_slot3. cbn [sel]. rewrite map_map. reflexivity.
  Qed.

  Lemma inner_13 (q13 : Q13) :
    @join A1 A2 A3 Inner (on13 q13) (map lift1 e1) (map lift3 e3)
    = flat_map (fun a => map (fun z => (Some a, None, Some z)) (filter (fun z => q13 (Some a) (Some z)) e3)) e1.
  Proof.
    rewrite join_nf by discriminate. rewrite c01_flat_map_map. apply flat_map_ext. intros y.
    unfold lift1. rewrite ext_slot3. cbn [sel]. rewrite map_map. reflexivity.
  Qed.

  Lemma rasscom_inner (q13 : Q13) (q23 : Q23) :
    Permutation (rasscom_lhs e1 e2 e3 Inner Inner q13 q23) (rasscom_rhs e1 e2 e3 Inner Inner q13 q23).
  Proof.
    unfold rasscom_lhs, rasscom_rhs. rewrite inner_23, inner_13.
    rewrite !(join_nf Inner) by discriminate. rewrite !c01_flat_map_map.
    set (G := fun a y => map (fun z => (Some a, Some y, Some z))
                             (filter (fun z => q23 (Some y) (Some z) && q13 (Some a) (Some z)) e3)).
    transitivity (flat_map (fun a => flat_map (fun y => G a y) e2) e1).
    - apply Permutation_refl'. apply flat_map_ext. intros a.
      change (ext Inner ?p ?r ?t) with (filter p (map (merge t) r)).
      rewrite c01_map_flat_map, c01_filter_flat_map.
      apply flat_map_ext. intros y. unfold G.
      rewrite map_map, c01_filter_map, c01_filter_filter.
      unfold on13, merge, lift1, c1, c2, c3. cbn. reflexivity.
    - rewrite c01_flat_map_swap. apply Permutation_refl'. apply flat_map_ext. intros y.
      change (ext Inner ?p ?r ?t) with (filter p (map (merge t) r)).
      rewrite c01_map_flat_map, c01_filter_flat_map.
      apply flat_map_ext. intros a. unfold G.
      rewrite map_map, c01_filter_map, c01_filter_filter.
      unfold on23, merge, lift2, c1, c2, c3. cbn.
      f_equal. apply c01_filter_ext. intros z. apply andb_comm.
  Qed.
End Proofs.

(* ---------- commute ---------- *)
Lemma c01_map_filter_as_flat_map {A B} (f : A -> B) (p : A -> bool) l :
  map f (filter p l) = flat_map (fun x => if p x then [f x] else []) l.
Proof. induction l as [|a l IH]; cbn; [reflexivity|]. destruct (p a); cbn; congruence. Qed.

Section Commute.
  Context {A1 A2 A3 : Type}.
  Variables (e1 : list A1) (e2 : list A2) (e3 : list A3).

  Lemma commute_inner (q12 : option A1 -> option A2 -> bool) :
    Permutation (commute_lhs (A3:=A3) e1 e2 Inner q12) (commute_rhs e1 e2 Inner q12).
  Proof.
    unfold commute_lhs, commute_rhs. rewrite !(join_nf Inner) by discriminate. rewrite !c01_flat_map_map.
    transitivity (flat_map (fun a => flat_map (fun y => if q12 (Some a) (Some y) then [(Some a, Some y, @None A3)] else []) e2) e1).
    - apply Permutation_refl'. apply flat_map_ext. intros a. unfold lift1. rewrite ext_slot2. cbn [sel].
      rewrite map_map. unfold on12, c1, c2. cbn [fst snd]. apply c01_map_filter_as_flat_map.
    - rewrite c01_flat_map_swap. apply Permutation_refl'. apply flat_map_ext. intros y.
      change (ext Inner ?p ?r ?t) with (filter p (map (merge t) r)).
      rewrite map_map, c01_filter_map. unfold on12, merge, lift1, lift2, c1, c2, c3. cbn.
      symmetry. apply (c01_map_filter_as_flat_map (fun a => (Some a, Some y, @None A3))).
  Qed.

  Lemma commute_cross (q12 : option A1 -> option A2 -> bool) :
    Permutation (commute_lhs (A3:=A3) e1 e2 Cross q12) (commute_rhs e1 e2 Cross q12).
  Proof. exact (commute_inner (fun _ _ => true)). Qed.
End Commute.

(* ---------- l-asscom with full outer joins (conditional entries of the tables) ---------- *)
Lemma c01_existsb_ext {A} (f g : A -> bool) l : (forall x, f x = g x) -> existsb f l = existsb g l.
Proof. intros H. induction l as [|a l IH]; cbn; [reflexivity|]. rewrite H, IH. reflexivity. Qed.

Lemma c01_existsb_flat_map {X Y} (p : Y -> bool) (f : X -> list Y) l :
  existsb p (flat_map f l) = existsb (fun x => existsb p (f x)) l.
Proof. induction l as [|a l IH]; cbn; [reflexivity|]. rewrite existsb_app, IH. reflexivity. Qed.

Lemma c01_existsb_const {X} (b : bool) (l : list X) : l <> [] -> existsb (fun _ => b) l = b.
Proof.
  destruct l as [|x l]; [congruence|]. intros _. cbn. destruct b; [reflexivity|]. cbn.
  induction l; cbn; auto.
Qed.

Lemma c01_existsb_false {X} (l : list X) : existsb (fun _ => false) l = false.
Proof. induction l; cbn; auto. Qed.

Lemma c01_flat_map_single {X Y} (f : X -> Y) l : flat_map (fun x => [f x]) l = map f l.
Proof. induction l; cbn; congruence. Qed.

Section LasscomFull.
  Context {A1 A2 A3 : Type}.
  Variables (e1 : list A1) (e2 : list A2) (e3 : list A3).
  Variables (q12 : option A1 -> option A2 -> bool) (q13 : option A1 -> option A3 -> bool).
  Notation T := (@T A1 A2 A3).
  Notation L1 := (map (@lift1 A1 A2 A3) e1).
  Notation L2 := (map (@lift2 A1 A2 A3) e2).
  Notation L3 := (map (@lift3 A1 A2 A3) e3).

  Lemma sel_pres_nonempty {X} o (q : X -> bool) r : o = LeftJ \/ o = Full -> sel o q r <> [].
  Proof. intros [-> | ->]; unfold sel; destruct (filter q r); cbn; discriminate. Qed.

  (* the product part common to both trees, for any operators *)
  Lemma lasscom_core A B :
    Permutation (flat_map (ext B (on13 q13) L3) (flat_map (ext A (on12 q12) L2) L1))
                (flat_map (ext A (on12 q12) L2) (flat_map (ext B (on13 q13) L3) L1)).
  Proof.
    rewrite !c01_flat_map_flat_map, !c01_flat_map_map.
    apply c01_perm_flat_map_pw. intros a. unfold lift1.
    rewrite ext_slot2, ext_slot3, !c01_flat_map_map.
    erewrite flat_map_ext; [|intros oy; rewrite ext_slot3; reflexivity].
    erewrite (flat_map_ext (fun x => ext A _ _ _)); [|intros oz; rewrite ext_slot2; reflexivity].
    unfold on12, on13, c1, c2, c3. cbn [fst snd].
    apply (c01_prod_swap (fun oy oz => (Some a, oy, oz))).
  Qed.

  Definition U3 : list A3 := filter (fun z => negb (existsb (fun a => q13 (Some a) (Some z)) e1)) e3.
  Definition U2 : list A2 := filter (fun y => negb (existsb (fun a => q12 (Some a) (Some y)) e1)) e2.

  Lemma unmatched3_base : unmatched_right (on13 q13) L1 L3 = map lift3 U3.
  Proof.
    unfold unmatched_right, U3. rewrite c01_filter_map. f_equal. apply c01_filter_ext. intros z.
    rewrite c01_existsb_map. reflexivity.
  Qed.

  Lemma unmatched2_base : unmatched_right (on12 q12) L1 L2 = map lift2 U2.
  Proof.
    unfold unmatched_right, U2. rewrite c01_filter_map. f_equal. apply c01_filter_ext. intros y.
    rewrite c01_existsb_map. reflexivity.
  Qed.

  (* e3 rows unmatched by e1 stay exactly the unmatched ones of (e1 A e2) when A preserves e1; extra tuples
     with an empty slot 1 never match when q13 rejects NULLs on e1 *)
  Lemma unmatched3_through A (extra : list A2) : A = LeftJ \/ A = Full -> (extra = [] \/ rejects_l q13) ->
    unmatched_right (on13 q13) (flat_map (ext A (on12 q12) L2) L1 ++ map lift2 extra) L3 = map lift3 U3.
  Proof.
    intros HA HX. unfold unmatched_right, U3. rewrite c01_filter_map. f_equal. apply c01_filter_ext. intros z.
    f_equal. rewrite existsb_app.
    assert (E2 : existsb (fun t => on13 q13 (merge t (lift3 z))) (map lift2 extra) = false).
    { destruct HX as [-> | HR]; [reflexivity|]. rewrite c01_existsb_map.
      rewrite (c01_existsb_ext _ (fun _ => false)); [apply c01_existsb_false|].
      intros y. unfold on13, merge, lift2, lift3, c1, c2, c3. cbn. apply HR. }
    rewrite E2, orb_false_r.
    rewrite c01_existsb_flat_map, c01_existsb_map. apply c01_existsb_ext. intros a. unfold lift1.
    rewrite ext_slot2, c01_existsb_map.
    unfold on13, merge, lift3, c1, c2, c3. cbn [fst snd orelse].
    apply c01_existsb_const. apply sel_pres_nonempty. assumption.
  Qed.

  Lemma unmatched2_through B (extra : list A3) : B = LeftJ \/ B = Full -> (extra = [] \/ rejects_l q12) ->
    unmatched_right (on12 q12) (flat_map (ext B (on13 q13) L3) L1 ++ map lift3 extra) L2 = map lift2 U2.
  Proof.
    intros HB HX. unfold unmatched_right, U2. rewrite c01_filter_map. f_equal. apply c01_filter_ext. intros y.
    f_equal. rewrite existsb_app.
    assert (E2 : existsb (fun t => on12 q12 (merge t (lift2 y))) (map lift3 extra) = false).
    { destruct HX as [-> | HR]; [reflexivity|]. rewrite c01_existsb_map.
      rewrite (c01_existsb_ext _ (fun _ => false)); [apply c01_existsb_false|].
      intros z. unfold on12, merge, lift2, lift3, c1, c2, c3. cbn. apply HR. }
    rewrite E2, orb_false_r.
    rewrite c01_existsb_flat_map, c01_existsb_map. apply c01_existsb_ext. intros a. unfold lift1.
    rewrite ext_slot3, c01_existsb_map.
    unfold on12, merge, lift2, c1, c2, c3. cbn [fst snd orelse].
    apply c01_existsb_const. apply sel_pres_nonempty. assumption.
  Qed.

  (* a padded-only tuple joined (left / full, left part) on a filter that rejects NULLs on e1 stays as it is *)
  Lemma pass3_through A (l : list A3) : A = LeftJ \/ A = Full -> rejects_l q12 ->
    flat_map (ext A (on12 q12) L2) (map lift3 l) = map lift3 l.
  Proof.
    intros HA HR. rewrite c01_flat_map_map. rewrite <- (c01_flat_map_single (@lift3 A1 A2 A3) l). apply flat_map_ext. intros z.
    unfold lift3. rewrite ext_slot2. unfold on12, c1, c2. cbn [fst snd].
    destruct HA as [-> | ->]; cbn [sel]; rewrite (c01_filter_ext _ (fun _ => false)) by (intros; apply HR);
      rewrite c01_filter_false; reflexivity.
  Qed.

  Lemma pass2_through B (l : list A2) : B = LeftJ \/ B = Full -> rejects_l q13 ->
    flat_map (ext B (on13 q13) L3) (map lift2 l) = map lift2 l.
  Proof.
    intros HB HR. rewrite c01_flat_map_map. rewrite <- (c01_flat_map_single (@lift2 A1 A2 A3) l). apply flat_map_ext. intros y.
    unfold lift2. rewrite ext_slot3. unfold on13, c1, c3. cbn [fst snd].
    destruct HB as [-> | ->]; cbn [sel]; rewrite (c01_filter_ext _ (fun _ => false)) by (intros; apply HR);
      rewrite c01_filter_false; reflexivity.
  Qed.

  Lemma unmatched3_through0 A : A = LeftJ \/ A = Full ->
    unmatched_right (on13 q13) (flat_map (ext A (on12 q12) L2) L1) L3 = map lift3 U3.
  Proof.
    intros HA. rewrite <- (unmatched3_through A [] HA (or_introl eq_refl)). cbn [map]. rewrite app_nil_r. reflexivity.
  Qed.

  Lemma unmatched2_through0 B : B = LeftJ \/ B = Full ->
    unmatched_right (on12 q12) (flat_map (ext B (on13 q13) L3) L1) L2 = map lift2 U2.
  Proof.
    intros HB. rewrite <- (unmatched2_through B [] HB (or_introl eq_refl)). cbn [map]. rewrite app_nil_r. reflexivity.
  Qed.

  (* (e1 left_12 e2) full_13 e3 = (e1 full_13 e3) left_12 e2   if q12 rejects NULLs on e1 *)
  Lemma lasscom_left_full : rejects_l q12 ->
    Permutation (lasscom_lhs e1 e2 e3 LeftJ Full q12 q13) (lasscom_rhs e1 e2 e3 LeftJ Full q12 q13).
  Proof.
    intros HR. unfold lasscom_lhs, lasscom_rhs, join. rewrite !app_nil_r.
    rewrite (unmatched3_through0 LeftJ) by auto.
    rewrite unmatched3_base, flat_map_app, (pass3_through LeftJ) by auto.
    apply Permutation_app_tail. apply lasscom_core.
  Qed.

  (* (e1 full_12 e2) left_13 e3 = (e1 left_13 e3) full_12 e2   if q13 rejects NULLs on e1 *)
  Lemma lasscom_full_left : rejects_l q13 ->
    Permutation (lasscom_lhs e1 e2 e3 Full LeftJ q12 q13) (lasscom_rhs e1 e2 e3 Full LeftJ q12 q13).
  Proof.
    intros HR. unfold lasscom_lhs, lasscom_rhs, join. rewrite !app_nil_r.
    rewrite (unmatched2_through0 LeftJ) by auto.
    rewrite unmatched2_base, flat_map_app, (pass2_through LeftJ) by auto.
    apply Permutation_app_tail. apply lasscom_core.
  Qed.

  (* (e1 full_12 e2) full_13 e3 = (e1 full_13 e3) full_12 e2   if q12 and q13 reject NULLs on e1 *)
  Lemma lasscom_full_full : rejects_l q12 -> rejects_l q13 ->
    Permutation (lasscom_lhs e1 e2 e3 Full Full q12 q13) (lasscom_rhs e1 e2 e3 Full Full q12 q13).
  Proof.
    intros HR2 HR3. unfold lasscom_lhs, lasscom_rhs, join.
    rewrite unmatched2_base, unmatched3_base, !flat_map_app.
    rewrite (unmatched3_through Full U2) by auto. rewrite (unmatched2_through Full U3) by auto.
    rewrite (pass2_through Full) by auto. rewrite (pass3_through Full) by auto.
    rewrite <- !app_assoc. apply Permutation_app; [apply lasscom_core|apply Permutation_app_comm].
  Qed.
End LasscomFull.

(* ---------- (1) the sound table is sound ---------- *)
Section Sound.
  Context {A1 A2 A3 : Type}.
  Variables (e1 : list A1) (e2 : list A2) (e3 : list A3).
  Variables (q12 : option A1 -> option A2 -> bool) (q13 : option A1 -> option A3 -> bool)
            (q23 : option A2 -> option A3 -> bool).

  Theorem reorder_sound x A B :
    cond_sem q12 q13 q23 x (sound_table x A B) ->
    Permutation (lhs e1 e2 e3 q12 q13 q23 x A B) (rhs e1 e2 e3 q12 q13 q23 x A B).
  Proof.
    destruct x.
    - (* assoc *)
      destruct A; try (destruct B; cbn; intros H; contradiction).
      + intros H. unfold lhs, rhs.
        change (Permutation (assoc_lhs e1 e2 e3 Inner B (fun _ _ => true) q23) (assoc_rhs e1 e2 e3 Inner B (fun _ _ => true) q23)).
        apply Permutation_refl'. apply assoc_inner. intros ->. cbn in H. exact H.
      + intros H. unfold lhs, rhs.
        apply Permutation_refl'. apply assoc_inner. intros ->. cbn in H. exact H.
      + destruct B; cbn; intros H; try contradiction.
        apply Permutation_refl'. apply assoc_left_left. inversion H; subst. assumption.
    - (* l-asscom *)
      destruct A, B; cbn [sound_table cond_sem]; intros H; try contradiction;
        cbn [lhs rhs]; try (apply lasscom_nf; discriminate).
      + apply lasscom_left_full. inversion H; subst. assumption.
      + apply lasscom_full_left. inversion H; subst. assumption.
      + inversion H as [|? ? H1 H2]; subst. inversion H2; subst. apply lasscom_full_full; assumption.
    - (* r-asscom *)
      destruct A, B; cbn [sound_table cond_sem]; intros H; try contradiction; cbn [lhs rhs].
      + exact (rasscom_inner e1 e2 e3 (fun _ _ => true) (fun _ _ => true)).
      + exact (rasscom_inner e1 e2 e3 (fun _ _ => true) q23).
      + exact (rasscom_inner e1 e2 e3 q13 (fun _ _ => true)).
      + exact (rasscom_inner e1 e2 e3 q13 q23).
  Qed.
End Sound.

(* ---------- (2) the translated tables are below the sound table ---------- *)
Lemma translated_tables_le_sound_holds : translated_tables_le_sound = true.
Proof. vm_compute. reflexivity. Qed.

Lemma op_idx_consistent_holds : op_idx_consistent = true.
Proof. vm_compute. reflexivity. Qed.

Lemma op_of_jt_logical j a : op_of_jt j = Some a -> In j logical_jts.
Proof. destruct j; cbn; intros H; try discriminate; auto 10. Qed.

Lemma atom_holds_range nrA nrB w i : atom_holds nrA nrB (w, i) = true -> (i = 1 \/ i = 2 \/ i = 3)%N.
Proof.
  unfold atom_holds, intersects. cbn [fst snd].
  destruct i as [|[p|p|]]; try (rewrite N.land_0_r; cbn; discriminate); auto.
  - destruct p; try (rewrite N.land_0_r; cbn; discriminate); auto.
  - destruct p; try (rewrite N.land_0_r; cbn; discriminate); auto.
Qed.

Section Tie.
  Context {A1 A2 A3 : Type}.
  Variables (e1 : list A1) (e2 : list A2) (e3 : list A3).
  Variables (q12 : option A1 -> option A2 -> bool) (q13 : option A1 -> option A3 -> bool)
            (q23 : option A2 -> option A3 -> bool).

  Lemma cond_holds_sem x c nrA nrB :
    nr_correct q12 q13 q23 x nrA nrB -> cond_holds c nrA nrB = true -> cond_sem q12 q13 q23 x c.
  Proof.
    intros HC. destruct c as [| |l]; cbn; intros H; [discriminate|exact I|].
    rewrite forallb_forall in H. apply Forall_forall. intros [w i] Hin. apply HC. apply H. assumption.
  Qed.

  Theorem translated_reorder_sound s jA jB a b nrA nrB :
    op_of_jt jA = Some a -> op_of_jt jB = Some b ->
    In nrA (possible_nr (e_ses (fst (site_edges s jA jB 0 0)))) ->
    In nrB (possible_nr (e_ses (snd (site_edges s jA jB 0 0)))) ->
    nr_correct q12 q13 q23 (site_xform s) nrA nrB ->
    go_xform (site_xform s) (fst (site_edges s jA jB nrA nrB)) (snd (site_edges s jA jB nrA nrB)) = Some true ->
    Permutation (lhs e1 e2 e3 q12 q13 q23 (site_xform s) a b) (rhs e1 e2 e3 q12 q13 q23 (site_xform s) a b).
  Proof.
    intros Ha Hb HnA HnB HC Hgo.
    pose proof translated_tables_le_sound_holds as H. unfold translated_tables_le_sound in H.
    rewrite forallb_forall in H. specialize (H s ltac:(destruct s; cbn; auto)).
    rewrite forallb_forall in H. specialize (H jA (op_of_jt_logical _ _ Ha)).
    rewrite forallb_forall in H. specialize (H jB (op_of_jt_logical _ _ Hb)).
    unfold entry_le in H. rewrite Ha, Hb in H.
    rewrite forallb_forall in H. specialize (H nrA HnA).
    rewrite forallb_forall in H. specialize (H nrB HnB).
    destruct (site_edges s jA jB nrA nrB) as [eA eB]. cbn [fst snd] in Hgo. rewrite Hgo in H.
    apply reorder_sound. eapply cond_holds_sem; eassumption.
  Qed.
End Tie.

(* ---------- commute rule of the Go code, non-vacuity, a maximality witness ---------- *)
Lemma translated_commute_ok j : go_commute j = true -> op_of_jt j = Some Inner \/ op_of_jt j = Some Cross.
Proof. destruct j; vm_compute; intros H; try discriminate; auto. Qed.

Lemma nonvacuous_holds :
  go_xform XAssoc (fst (site_edges AssocUp JoinTypeInner JoinTypeLeftOuter 0 0)) (snd (site_edges AssocUp JoinTypeInner JoinTypeLeftOuter 0 0)) = Some true
  /\ go_xform XLasscom (fst (site_edges LasscomUp JoinTypeLeftOuter JoinTypeSemi 0 0)) (snd (site_edges LasscomUp JoinTypeLeftOuter JoinTypeSemi 0 0)) = Some true
  /\ lhs [1;2]%N [1;1;3]%N [1;5]%N (fun _ _ => true) (fun _ _ => true)
         (fun y z => match y, z with Some y, Some z => N.eqb y z | _, _ => false end) XAssoc Inner LeftJ
     = [(Some 1, Some 1, Some 1); (Some 1, Some 1, Some 1); (Some 1, Some 3, None);
        (Some 2, Some 1, Some 1); (Some 2, Some 1, Some 1); (Some 2, Some 3, None)]%N.
Proof. repeat split; vm_compute; reflexivity. Qed.

Lemma assoc_left_inner_unsound :
  exists (e1 e2 e3 : list N) q12 q23,
    ~ Permutation (assoc_lhs e1 e2 e3 LeftJ Inner q12 q23) (assoc_rhs e1 e2 e3 LeftJ Inner q12 q23).
Proof.
  exists [1%N], [], [], (fun _ _ => true), (fun _ _ => true).
  vm_compute. intros H. apply Permutation_length in H. discriminate.
Qed.
