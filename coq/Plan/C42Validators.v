(* C42 -- the two analyzer rules of sql/analyzer/validation_rules.go that implement the read-only TRANSACTION and the
   read-only DATABASE modes: validateReadOnlyTransaction (as repaired by bfb1c4482) and validateReadOnlyDatabase,
   mirrored line by line over the tree that transform.InspectWithOpaque walks, and what they guarantee.
   [ddl_kinds] (the case list of plan.IsDDLNode) is generated from the source by harness/cmd/translate_c42. *)
From Coq Require Import String List Bool NArith.
Import ListNotations.
From GMS Require Import Plan.C42Base gen.C42Flags Plan.ReadOnly.
Open Scope string_scope.

(* ---------- the tree the walk sees ---------- *)
(* kind : Go type name of a *plan.T node ("val:T" for a non-pointer node, "ext:..." for a node type outside sql/plan);
   temp : ResolvedTable: rt.Table is a sql.TemporaryTable whose IsTemporary() is true; CreateTable: n.Temporary();
   ro   : ResolvedTable: class of rt.SqlDatabase, CreateTable: class of n.Database():
          0 = not a sql.ReadOnlyDatabase, 1 = a sql.ReadOnlyDatabase whose IsReadOnly() is false, 2 = ... is true;
   dest : InsertInto: [n.Destination];
   kids : the nodes InspectWithOpaque descends into (Child() of a UnaryNode, Left()/Right() of a BinaryNode,
          Children() otherwise), in order. *)
Inductive vt : Type := V (kind : string) (temp : bool) (ro : N) (dest : list vt) (kids : list vt).

Definition vkind (t : vt) : string := let '(V k _ _ _ _) := t in k.
Definition vtemp (t : vt) : bool := let '(V _ b _ _ _) := t in b.
Definition vro (t : vt) : N := let '(V _ _ r _ _) := t in r.
Definition vdest (t : vt) : list vt := let '(V _ _ _ d _) := t in d.
Definition vkids (t : vt) : list vt := let '(V _ _ _ _ k) := t in k.

(* ---------- transform.InspectWithOpaque with a callback that updates the captured variable [valid] ---------- *)
(* step valid node = (valid after f(node), what f returned).  walk.go: if !f(node) return; then the children in order. *)
Section Walk.
  Variable step : bool -> vt -> bool * bool.
  Fixpoint walk (valid : bool) (t : vt) : bool :=
    match t with
    | V _ _ _ _ kids =>
        let '(v', cont) := step valid t in
        if cont
        then (fix go (v : bool) (l : list vt) : bool := match l with [] => v | c :: r => go (walk v c) r end) v' kids
        else v'
    end.
End Walk.

Definition is_rt (t : vt) : bool := String.eqb (vkind t) "ResolvedTable".
Definition is_ddl (k : string) : bool := mem k ddl_kinds.     (* plan.IsDDLNode *)

(* ---------- validateReadOnlyTransaction ---------- *)
(* temporaryTableSearch: if rt, ok := node is a ResolvedTable; ok { valid = isTempTable(rt.Table) }; return valid *)
Definition tsearch_step (valid : bool) (node : vt) : bool * bool :=
  let v' := if is_rt node then vtemp node else valid in (v', v').
Definition tsearch : bool -> vt -> bool := walk tsearch_step.

Inductive tclass : Type := TSearch | TInsert | TLock | TCreateTable | TOther.
Definition txn_class (k : string) : tclass :=
  if String.eqb k "DeleteFrom" then TSearch else if String.eqb k "Update" then TSearch
  else if String.eqb k "UnlockTables" then TSearch
  else if String.eqb k "InsertInto" then TInsert
  else if String.eqb k "LockTables" then TLock
  else if String.eqb k "CreateTable" then TCreateTable
  else TOther.

(* the callback of the outer walk: [switch n := n.(type)] tests the ROOT [root] whatever [node] is *)
Definition txn_step (root : vt) (valid : bool) (node : vt) : bool * bool :=
  match txn_class (vkind root) with
  | TSearch => (tsearch valid node, false)
  | TInsert => (fold_left tsearch (vdest root) valid, false)
  | TLock => (false, false)
  | TCreateTable => ((if vtemp root then false else valid), false)
  | TOther => if is_ddl (vkind root) then (true, false) else (valid, valid)
  end.

Definition ro_txn_valid (t : vt) : bool := walk (txn_step t) true t.

(* result codes shared with the driver: 0 accepted, 1 ErrReadOnlyTransaction, 2 ErrReadOnlyDatabase,
   3 ErrProcedureCallAsOfReadOnly *)
Definition txn_rule (has_txn txn_ro enforce : bool) (t : vt) : N :=
  if negb has_txn then 0%N
  else if negb txn_ro && negb enforce then 0%N
  else if ro_txn_valid t then 0%N else 1%N.

(* ---------- validateReadOnlyDatabase ---------- *)
Definition ro_hit (enforce : bool) (valid : bool) (cls : N) : bool :=
  if N.eqb cls 2 then false else if N.eqb cls 1 then (if enforce then false else valid) else valid.

Definition dsearch_step (enforce : bool) (valid : bool) (node : vt) : bool * bool :=
  let v' := if is_rt node then ro_hit enforce valid (vro node) else valid in (v', v').
Definition dsearch (enforce : bool) : bool -> vt -> bool := walk (dsearch_step enforce).

Inductive dclass : Type := DSearch | DInsert | DCreateTable | DOther.
Definition db_class (k : string) : dclass :=
  if String.eqb k "DeleteFrom" then DSearch else if String.eqb k "Update" then DSearch
  else if String.eqb k "LockTables" then DSearch else if String.eqb k "UnlockTables" then DSearch
  else if String.eqb k "InsertInto" then DInsert
  else if String.eqb k "CreateTable" then DCreateTable
  else DOther.

Definition db_step (enforce : bool) (root : vt) (valid : bool) (node : vt) : bool * bool :=
  match db_class (vkind root) with
  | DSearch => (dsearch enforce valid node, false)
  | DInsert => (fold_left (dsearch enforce) (vdest root) valid, false)
  | DCreateTable => (ro_hit enforce valid (vro root), false)
  | DOther => if is_ddl (vkind root) then (dsearch enforce valid root, false) else (valid, valid)
  end.

Definition ro_db_valid (enforce : bool) (t : vt) : bool := walk (db_step enforce t) true t.

Definition db_rule (enforce : bool) (t : vt) : N :=
  if ro_db_valid enforce t then 0%N else if enforce then 3%N else 2%N.

(* ================= proofs ================= *)

Fixpoint vt_ind' (P : vt -> Prop)
    (H : forall k tp r d kids, Forall P d -> Forall P kids -> P (V k tp r d kids)) (t : vt) : P t :=
  match t with
  | V k tp r d kids =>
      H k tp r d kids
        ((fix f (l : list vt) : Forall P l :=
            match l with [] => Forall_nil P | x :: r => Forall_cons x (vt_ind' P H x) (f r) end) d)
        ((fix f (l : list vt) : Forall P l :=
            match l with [] => Forall_nil P | x :: r => Forall_cons x (vt_ind' P H x) (f r) end) kids)
  end.

(* every node reachable through [kids] satisfies q *)
Fixpoint allk (q : vt -> bool) (t : vt) : bool :=
  match t with
  | V _ _ _ _ kids => q t && (fix go (l : list vt) : bool := match l with [] => true | c :: r => allk q c && go r end) kids
  end.

Lemma allk_eq : forall q t, allk q t = q t && forallb (allk q) (vkids t).
Proof.
  intros q [k tp r d kids]. reflexivity.
Qed.

Lemma walk_eq : forall step v t,
  walk step v t = let '(v', cont) := step v t in if cont then fold_left (walk step) (vkids t) v' else v'.
Proof.
  intros step v [k tp r d kids]. cbn [walk vkids]. destruct (step v (V k tp r d kids)) as [v' cont].
  destruct cont; [|reflexivity]. revert v'. induction kids as [|c l IH]; intro v'; [reflexivity|].
  cbn [fold_left]. apply IH.
Qed.

Definition mono_step (q : vt -> bool) (v : bool) (n : vt) : bool * bool := (v && q n, v && q n).

(* a callback that can only lower [valid], on the nodes of the tree: the walk computes a conjunction *)
Lemma walk_mono_on : forall step h q,
  (forall v n, h n = true -> step v n = mono_step q v n) ->
  forall t v, allk h t = true -> walk step v t = v && allk q t.
Proof.
  intros step h q Hs t. induction t as [k tp r d kids _ IHk] using vt_ind'. intros v Ha.
  rewrite walk_eq, allk_eq. rewrite allk_eq in Ha. apply andb_true_iff in Ha as [Hh Hk].
  rewrite (Hs v _ Hh). unfold mono_step. cbn [vkids] in *.
  assert (F : forall v0, fold_left (walk step) kids v0 = v0 && forallb (allk q) kids).
  { clear Hh. induction kids as [|c l IHl]; intro v0; cbn [fold_left forallb].
    - now rewrite andb_true_r.
    - cbn [forallb] in Hk. apply andb_true_iff in Hk as [Hc Hl]. inversion IHk as [|? ? Pc Pl]; subst.
      rewrite (Pc v0 Hc). rewrite (IHl Pl Hl). now rewrite andb_assoc. }
  destruct (v && q (V k tp r d kids)) eqn:E.
  - rewrite F. cbn. rewrite andb_assoc, E. reflexivity.
  - rewrite andb_assoc, E. reflexivity.
Qed.

Lemma allk_true : forall t, allk (fun _ => true) t = true.
Proof.
  induction t as [k tp r d kids _ IHk] using vt_ind'. rewrite allk_eq. cbn [vkids andb].
  induction kids as [|c l IHl]; [reflexivity|]. inversion IHk; subst. cbn [forallb]. rewrite H1. now apply IHl.
Qed.

Lemma walk_mono : forall step q, (forall v n, step v n = mono_step q v n) ->
  forall t v, walk step v t = v && allk q t.
Proof. intros step q Hs t v. apply (walk_mono_on step (fun _ => true) q); [intros; apply Hs | apply allk_true]. Qed.

(* a callback that answers (true, true) from true on the nodes of the tree leaves [valid] true *)
Lemma walk_keeps_true : forall step h,
  (forall n, h n = true -> step true n = (true, true)) ->
  forall t, allk h t = true -> walk step true t = true.
Proof.
  intros step h Hs t. induction t as [k tp r d kids _ IHk] using vt_ind'. intro Ha.
  rewrite walk_eq. rewrite allk_eq in Ha. apply andb_true_iff in Ha as [Hh Hk]. rewrite (Hs _ Hh).
  cbn [vkids] in *. clear Hh. induction kids as [|c l IHl]; [reflexivity|].
  cbn [forallb] in Hk. apply andb_true_iff in Hk as [Hc Hl]. inversion IHk as [|? ? Pc Pl]; subst.
  cbn [fold_left]. rewrite (Pc Hc). now apply IHl.
Qed.

(* ---------- the transaction validator ---------- *)
Definition no_rt (t : vt) : bool := allk (fun n => negb (is_rt n)) t.                     (* no ResolvedTable is walked *)
Definition all_perm (t : vt) : bool := allk (fun n => negb (is_rt n) || negb (vtemp n)) t. (* ... every one is permanent *)
Definition all_temp (t : vt) : bool := allk (fun n => negb (is_rt n) || vtemp n) t.        (* ... every one is temporary *)

Lemma tsearch_perm : forall t v, all_perm t = true -> tsearch v t = v && no_rt t.
Proof.
  intros t v H. unfold tsearch, no_rt.
  apply (walk_mono_on tsearch_step (fun n => negb (is_rt n) || negb (vtemp n)) (fun n => negb (is_rt n))); [|exact H].
  intros v0 n Hn. unfold tsearch_step, mono_step. destruct (is_rt n); cbn in *.
  - rewrite negb_true_iff in Hn. rewrite Hn. now rewrite andb_false_r.
  - now rewrite andb_true_r.
Qed.

Lemma tsearch_temp : forall t, all_temp t = true -> tsearch true t = true.
Proof.
  intros t H. unfold tsearch. apply (walk_keeps_true tsearch_step (fun n => negb (is_rt n) || vtemp n)); [|exact H].
  intros n Hn. unfold tsearch_step. destruct (is_rt n); cbn in *; [now rewrite Hn | reflexivity].
Qed.

(* what the rule computes, by the kind of the ROOT alone *)
Definition txn_spec (t : vt) : bool :=
  match txn_class (vkind t) with
  | TSearch => tsearch true t
  | TInsert => fold_left tsearch (vdest t) true
  | TLock => false
  | TCreateTable => negb (vtemp t)
  | TOther => true
  end.

Lemma ro_txn_valid_char : forall t, ro_txn_valid t = txn_spec t.
Proof.
  intro t. unfold ro_txn_valid, txn_spec.
  destruct (txn_class (vkind t)) eqn:C.
  - rewrite walk_eq. unfold txn_step at 1. rewrite C. reflexivity.
  - rewrite walk_eq. unfold txn_step at 1. rewrite C. reflexivity.
  - rewrite walk_eq. unfold txn_step at 1. rewrite C. reflexivity.
  - rewrite walk_eq. unfold txn_step at 1. rewrite C. now destruct (vtemp t).
  - destruct (is_ddl (vkind t)) eqn:D.
    + rewrite walk_eq. unfold txn_step at 1. rewrite C, D. reflexivity.
    + apply (walk_keeps_true (txn_step t) (fun _ => true)); [|apply allk_true].
      intros n _. unfold txn_step. now rewrite C, D.
Qed.

Theorem ro_txn_valid_iff : forall t,
  ro_txn_valid t = true <->
  match txn_class (vkind t) with
  | TSearch => tsearch true t = true
  | TInsert => fold_left tsearch (vdest t) true = true
  | TLock => False
  | TCreateTable => vtemp t = false
  | TOther => True
  end.
Proof.
  intro t. rewrite ro_txn_valid_char. unfold txn_spec. destruct (txn_class (vkind t)); try tauto.
  - split; [discriminate | tauto].
  - now rewrite negb_true_iff.
Qed.

(* the node a DML root writes through: the whole tree for UPDATE / DELETE, the Destination for INSERT *)
Definition dml_root (k : string) : bool := mem k ["InsertInto"; "Update"; "DeleteFrom"].
Definition target (t : vt) : list vt := if String.eqb (vkind t) "InsertInto" then vdest t else [t].

Lemma fold_tsearch_perm : forall l v, forallb all_perm l = true -> fold_left tsearch l v = v && forallb no_rt l.
Proof.
  induction l as [|c l IH]; intros v H; cbn [fold_left forallb] in *; [now rewrite andb_true_r|].
  apply andb_true_iff in H as [Hc Hl]. rewrite (tsearch_perm c v Hc), (IH _ Hl). now rewrite andb_assoc.
Qed.

Theorem txn_rejects_root_dml : forall t,
  dml_root (vkind t) = true -> forallb all_perm (target t) = true -> forallb no_rt (target t) = false ->
  ro_txn_valid t = false /\ (forall e, txn_rule true true e t = 1%N).
Proof.
  intros t Hk Hp Hr.
  assert (R : ro_txn_valid t = false).
  { rewrite ro_txn_valid_char. unfold txn_spec, target, dml_root, mem in *. cbn [existsb] in Hk.
    unfold txn_class. destruct (String.eqb (vkind t) "InsertInto") eqn:I.
    - apply String.eqb_eq in I. rewrite I. cbn. rewrite (fold_tsearch_perm _ _ Hp). exact Hr.
    - cbn [orb] in Hk.
      cbn [forallb] in Hp, Hr. rewrite andb_true_r in Hp, Hr.
      assert (S : tsearch true t = false) by (rewrite (tsearch_perm t true Hp); exact Hr).
      destruct (String.eqb (vkind t) "DeleteFrom") eqn:Dl; [exact S|].
      destruct (String.eqb (vkind t) "Update") eqn:U; [exact S|].
      cbn in Hk. discriminate. }
  split; [exact R|]. intro e. unfold txn_rule. cbn. now rewrite R.
Qed.

(* only temporary tables below a DML root: let through (the exemption MySQL makes) *)
Theorem txn_allows_temporary_dml : forall t,
  dml_root (vkind t) = true -> forallb all_temp (target t) = true -> ro_txn_valid t = true.
Proof.
  intros t Hk Hp. rewrite ro_txn_valid_char. unfold txn_spec, target, dml_root, mem in *. cbn [existsb] in Hk.
  assert (F : forall l, forallb all_temp l = true -> fold_left tsearch l true = true).
  { induction l as [|c l IH]; intro H; [reflexivity|]. cbn [forallb fold_left] in *.
    apply andb_true_iff in H as [Hc Hl]. rewrite (tsearch_temp c Hc). now apply IH. }
  unfold txn_class. destruct (String.eqb (vkind t) "InsertInto") eqn:I.
  - apply String.eqb_eq in I. rewrite I. cbn. now apply F.
  - cbn [orb] in Hk.
    cbn [forallb] in Hp. rewrite andb_true_r in Hp. pose proof (tsearch_temp t Hp) as S.
    destruct (String.eqb (vkind t) "DeleteFrom") eqn:Dl; [exact S|].
    destruct (String.eqb (vkind t) "Update") eqn:U; [exact S|].
    cbn in Hk. discriminate.
Qed.

(* every other root is let through whatever is below it *)
Theorem txn_other_root_valid : forall t, txn_class (vkind t) = TOther -> ro_txn_valid t = true.
Proof. intros t H. rewrite ro_txn_valid_char. unfold txn_spec. now rewrite H. Qed.

(* a node of the walked tree that is an INSERT/UPDATE/DELETE through a permanent table *)
Definition perm_rt : vt := V "ResolvedTable" false 0 [] [].
Definition temp_rt : vt := V "ResolvedTable" true 0 [] [].
Definition writes_permanent (n : vt) : bool :=
  dml_root (vkind n) && negb (forallb no_rt (target n)) && forallb all_perm (target n).
Definition has_write_below (t : vt) : bool := negb (allk (fun n => negb (writes_permanent n)) t).

Definition w_insert : vt := V "InsertInto" false 0 [perm_rt] [perm_rt].
Definition w_call : vt := V "Call" false 0 [] [].      (* as the engine builds it: Children() of Call is empty *)
Definition w_nested : vt := V "BeginEndBlock" false 0 [] [V "Project" false 0 [] [perm_rt]; w_insert].
Definition w_ddl_nested : vt := V "Block" false 0 [] [w_insert].

Lemma txn_write_not_at_root :
  (* CALL: neither of the six root cases nor a DDL node; the body of the procedure is not even in the walked tree *)
  (vkind w_call = "Call" /\ forall kids dest, ro_txn_valid (V "Call" false 0 dest kids) = true)
  /\ (has_write_below w_nested = true /\ ro_txn_valid w_nested = true)
  /\ (has_write_below w_ddl_nested = true /\ ro_txn_valid w_ddl_nested = true)
  /\ (ro_txn_valid w_insert = false).
Proof.
  split; [split; [reflexivity | intros; now apply txn_other_root_valid] |].
  vm_compute. repeat split; reflexivity.
Qed.

(* temporaryTableSearch assigns [valid] at every ResolvedTable: a later temporary table resets the verdict of an
   earlier permanent one (the walk still visits the siblings of a rejected leaf) *)
Definition w_reset : vt := V "Update" false 0 [] [V "JoinNode" false 0 [] [perm_rt; temp_rt]].
Lemma txn_later_temp_resets : writes_permanent (V "Update" false 0 [] [perm_rt]) = true
  /\ allk (fun n => negb (is_rt n) || negb (vtemp n)) w_reset = false /\ no_rt w_reset = false /\ ro_txn_valid w_reset = true.
Proof. vm_compute. repeat split; reflexivity. Qed.

(* ---------- the database validator ---------- *)
Definition bad_class (enforce : bool) (c : N) : bool := N.eqb c 2 || (N.eqb c 1 && enforce).
Definition clean_node (enforce : bool) (n : vt) : bool := negb (is_rt n && bad_class enforce (vro n)).
(* no ResolvedTable of a read-only database is walked *)
Definition db_clean (enforce : bool) (t : vt) : bool := allk (clean_node enforce) t.

Lemma ro_hit_eq : forall e v c, ro_hit e v c = v && negb (bad_class e c).
Proof.
  intros e v c. unfold ro_hit, bad_class. destruct (N.eqb c 2); cbn; [now rewrite andb_false_r|].
  destruct (N.eqb c 1); cbn; [|now rewrite andb_true_r]. destruct e; cbn; [now rewrite andb_false_r | now rewrite andb_true_r].
Qed.

Lemma dsearch_eq : forall e t v, dsearch e v t = v && db_clean e t.
Proof.
  intros e t v. unfold dsearch, db_clean. apply walk_mono. intros v0 n. unfold dsearch_step, mono_step, clean_node.
  destruct (is_rt n); cbn; [now rewrite ro_hit_eq | now rewrite andb_true_r].
Qed.

Lemma fold_dsearch_eq : forall e l v, fold_left (dsearch e) l v = v && forallb (db_clean e) l.
Proof.
  induction l as [|c l IH]; intro v; cbn [fold_left forallb]; [now rewrite andb_true_r|].
  rewrite dsearch_eq, IH. now rewrite andb_assoc.
Qed.

Definition db_spec (e : bool) (t : vt) : bool :=
  match db_class (vkind t) with
  | DSearch => db_clean e t
  | DInsert => forallb (db_clean e) (vdest t)
  | DCreateTable => negb (bad_class e (vro t))
  | DOther => if is_ddl (vkind t) then db_clean e t else true
  end.

Theorem ro_db_valid_char : forall e t, ro_db_valid e t = db_spec e t.
Proof.
  intros e t. unfold ro_db_valid, db_spec. destruct (db_class (vkind t)) eqn:C.
  - rewrite walk_eq. unfold db_step at 1. rewrite C. now rewrite dsearch_eq.
  - rewrite walk_eq. unfold db_step at 1. rewrite C. now rewrite fold_dsearch_eq.
  - rewrite walk_eq. unfold db_step at 1. rewrite C. now rewrite ro_hit_eq.
  - destruct (is_ddl (vkind t)) eqn:D.
    + rewrite walk_eq. unfold db_step at 1. rewrite C, D. now rewrite dsearch_eq.
    + apply (walk_keeps_true (db_step e t) (fun _ => true)); [|apply allk_true].
      intros n _. unfold db_step. now rewrite C, D.
Qed.

(* the statement kinds the rule covers: a root it searches with a read-only database's table below it (INSERT: in
   its Destination), or CREATE TABLE in a read-only database *)
Definition db_covered (k : string) : bool :=
  match db_class k with DSearch => true | DInsert => false | DCreateTable => false | DOther => is_ddl k end.

Theorem db_rejects_covered : forall e t,
  (db_covered (vkind t) = true /\ db_clean e t = false)
  \/ (vkind t = "InsertInto" /\ forallb (db_clean e) (vdest t) = false)
  \/ (vkind t = "CreateTable" /\ bad_class e (vro t) = true) ->
  ro_db_valid e t = false /\ db_rule e t = (if e then 3%N else 2%N).
Proof.
  intros e t H.
  assert (R : ro_db_valid e t = false).
  { rewrite ro_db_valid_char. unfold db_spec. destruct H as [[Hc Hd] | [[Hk Hd] | [Hk Hb]]].
    - unfold db_covered in Hc. destruct (db_class (vkind t)); try discriminate; [exact Hd | now rewrite Hc].
    - rewrite Hk. cbn. exact Hd.
    - rewrite Hk. cbn. now rewrite Hb. }
  split; [exact R|]. unfold db_rule. now rewrite R.
Qed.

Theorem db_other_root_valid : forall e t,
  db_class (vkind t) = DOther -> is_ddl (vkind t) = false -> ro_db_valid e t = true.
Proof. intros e t C D. rewrite ro_db_valid_char. unfold db_spec. now rewrite C, D. Qed.

Lemma no_rt_clean : forall e t, no_rt t = true -> db_clean e t = true.
Proof.
  intros e t. unfold db_clean, no_rt. induction t as [k tp r d kids _ IHk] using vt_ind'.
  rewrite !allk_eq. intro Hn. apply andb_true_iff in Hn as [Hq Hl]. apply andb_true_iff. split.
  - unfold clean_node. apply negb_true_iff in Hq. now rewrite Hq.
  - cbn [vkids] in *. clear Hq. induction kids as [|c l IHl]; [reflexivity|]. cbn [forallb] in *.
    apply andb_true_iff in Hl as [Hc0 Hl]. inversion IHk as [|? ? Pc Pl]; subst. rewrite (Pc Hc0). now apply IHl.
Qed.

Theorem db_no_table_valid : forall e t,
  db_covered (vkind t) = true -> no_rt t = true -> ro_db_valid e t = true.
Proof.
  intros e t Hc Hn. rewrite ro_db_valid_char. unfold db_spec, db_covered in *.
  pose proof (no_rt_clean e t Hn) as Cl.
  destruct (db_class (vkind t)); try discriminate; [exact Cl | now rewrite Hc].
Qed.

(* ---------- the DDL list ---------- *)
(* kinds of [writers] that change the schema objects of one database (tables, columns, indexes, constraints, views,
   triggers, routines, events); hand-written, checked to be a part of [writers] *)
Definition db_ddl_writers : list string := [
  "AddColumn"; "AlterAutoIncrement"; "AlterDefaultDrop"; "AlterDefaultSet"; "AlterEvent"; "AlterIndex"; "AlterPK";
  "AlterTableCollation"; "AlterTableComment"; "CreateCheck"; "CreateEvent"; "CreateForeignKey"; "CreateIndex";
  "CreateProcedure"; "CreateTable"; "CreateTrigger"; "CreateView"; "DropCheck"; "DropColumn"; "DropConstraint";
  "DropEvent"; "DropForeignKey"; "DropIndex"; "DropProcedure"; "DropTable"; "DropTrigger"; "DropView";
  "ModifyColumn"; "RenameColumn"; "RenameForeignKey"; "RenameTable"; "SingleDropView"; "Truncate"].

Definition missing_from_ddl_list : list string := filter (fun k => negb (is_ddl k)) db_ddl_writers.

(* DropConstraint is replaced by DropCheck / DropForeignKey (resolveDropConstraint) and SingleDropView only occurs
   below DropView, so neither is a root when the rule runs; RenameForeignKey is not produced by the planbuilder *)
Definition never_roots : list string := ["DropConstraint"; "SingleDropView"; "RenameForeignKey"].

Lemma ddl_list_facts :
  forallb (fun k => mem k writers) db_ddl_writers = true
  /\ forallb (fun k => mem k (map e_kind entries)) ddl_kinds = true
  /\ forallb (fun k => mem k writers || String.eqb k "Block") ddl_kinds = true
  /\ missing_from_ddl_list =
       ["AlterAutoIncrement"; "AlterDefaultDrop"; "AlterDefaultSet"; "AlterEvent"; "AlterTableCollation";
        "AlterTableComment"; "DropConstraint"; "RenameForeignKey"; "SingleDropView"]
  /\ forallb (fun k => negb (is_ddl k) && match db_class k with DOther => true | _ => false end) missing_from_ddl_list = true.
Proof. vm_compute. repeat split; reflexivity. Qed.

(* group ddl-root-not-in-IsDDLNode: the table of the read-only database is in the plan, the root is not searched *)
Definition ro_rt : vt := V "ResolvedTable" false 2 [] [].
Lemma db_missing_roots_accept :
  forallb (fun k => ro_db_valid false (V k false 0 [] [ro_rt]) && negb (db_clean false (V k false 0 [] [ro_rt])))
          missing_from_ddl_list = true.
Proof. vm_compute. reflexivity. Qed.

(* group ddl-plan-without-resolved-table: roots that ARE searched, whose analyzed plan names its table / view /
   trigger / routine / event by a string and a database, never by a ResolvedTable (plans as recorded from the engine) *)
Definition ddl_without_table : list string :=
  ["RenameTable"; "DropView"; "DropTrigger"; "CreateProcedure"; "DropProcedure"; "CreateForeignKey"; "DropForeignKey"; "DropEvent"].
Lemma db_tableless_ddl_accept :
  forallb (fun k => is_ddl k && mem k db_ddl_writers && db_covered k && ro_db_valid false (V k false 0 [] [])) ddl_without_table = true.
Proof. vm_compute. reflexivity. Qed.

Lemma db_nonvacuous :
  ro_db_valid false (V "Update" false 0 [] [V "Filter" false 0 [] [ro_rt]]) = false
  /\ ro_db_valid false (V "InsertInto" false 0 [perm_rt] [perm_rt; V "Project" false 0 [] [ro_rt]]) = true  (* read-only SOURCE *)
  /\ ro_db_valid false (V "InsertInto" false 0 [ro_rt] [ro_rt]) = false
  /\ ro_db_valid false (V "DropTable" false 0 [] [ro_rt]) = false
  /\ ro_db_valid false (V "CreateTable" false 2 [] []) = false
  /\ ro_db_valid false (V "CreateTable" false 0 [] [V "Project" false 0 [] [ro_rt]]) = true                   (* ... AS SELECT from it *)
  /\ ro_db_valid false (V "Project" false 0 [] [ro_rt]) = true
  /\ ro_db_valid true (V "Update" false 0 [] [V "ResolvedTable" false 1 [] []]) = false
  /\ db_rule true (V "Update" false 0 [] [V "ResolvedTable" false 1 [] []]) = 3%N.
Proof. vm_compute. repeat split; reflexivity. Qed.
