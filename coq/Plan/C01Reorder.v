(* C01, layer (a): bag semantics of join trees over {cross, inner, semi, anti, left, full} and the model of
   sql/memo/join_order_builder.go  assoc / leftAsscom / rightAsscom / commute / checkProperty / getOpIdx.
   The three lookup tables, getOpIdx, commute and the bit tests of checkProperty are NOT written here: they
   are read from coq/gen/C01Tables.v, which the translator regenerates from /repo on every check. *)
From Coq Require Import List NArith Bool.
Import ListNotations.
From GMS Require Import gen.C01Tables.

(* ------------------------------------------------------------------------------------------------- *)
(* 1. Semantics.  Three input relations e1 e2 e3 over arbitrary element types (an element is a whole
      tuple of the sub-plan that produced it).  A tuple of a join tree has one slot per input; an empty slot
      means "all columns of that input are NULL" (outer-join padding) or "not produced" (semi / anti). *)

Inductive op : Set := Cross | Inner | Semi | Anti | LeftJ | Full.

Definition orelse {X} (a b : option X) : option X := match a with Some _ => a | None => b end.

Section Sem.
  Context {A1 A2 A3 : Type}.
  Definition T : Type := (option A1 * option A2 * option A3)%type.
  Definition c1 (t : T) := fst (fst t).
  Definition c2 (t : T) := snd (fst t).
  Definition c3 (t : T) := snd t.
  Definition merge (t u : T) : T :=
    (orelse (c1 t) (c1 u), orelse (c2 t) (c2 u), orelse (c3 t) (c3 u)).

  Definition lift1 (a : A1) : T := (Some a, None, None).
  Definition lift2 (a : A2) : T := (None, Some a, None).
  Definition lift3 (a : A3) : T := (None, None, Some a).

  (* right tuples joined to the left tuple t that satisfy the ON condition (condition is TRUE, not NULL) *)
  Definition matches (p : T -> bool) (t : T) (r : list T) : list T := filter p (map (merge t) r).

  (* rows produced for one left tuple *)
  Definition ext (o : op) (p : T -> bool) (r : list T) (t : T) : list T :=
    match o with
    | Cross => matches (fun _ => true) t r
    | Inner => matches p t r
    | Semi => if existsb p (map (merge t) r) then [t] else []
    | Anti => if existsb p (map (merge t) r) then [] else [t]
    | LeftJ | Full => match matches p t r with [] => [t] | m => m end
    end.

  (* right tuples that no left tuple matches (full outer join only) *)
  Definition unmatched_right (p : T -> bool) (l r : list T) : list T :=
    filter (fun u => negb (existsb (fun t => p (merge t u)) l)) r.

  Definition join (o : op) (p : T -> bool) (l r : list T) : list T :=
    flat_map (ext o p r) l ++ match o with Full => unmatched_right p l r | _ => [] end.

  (* ON conditions by the inputs they read *)
  Definition on12 (q : option A1 -> option A2 -> bool) : T -> bool := fun t => q (c1 t) (c2 t).
  Definition on23 (q : option A2 -> option A3 -> bool) : T -> bool := fun t => q (c2 t) (c3 t).
  Definition on13 (q : option A1 -> option A3 -> bool) : T -> bool := fun t => q (c1 t) (c3 t).

  Section Trees.
    Variables (e1 : list A1) (e2 : list A2) (e3 : list A3).
    Let L1 := map lift1 e1.
    Let L2 := map lift2 e2.
    Let L3 := map lift3 e3.

    (* assoc:     (e1 A_12 e2) B_23 e3   =   e1 A_12 (e2 B_23 e3) *)
    Definition assoc_lhs A B q12 q23 := join B (on23 q23) (join A (on12 q12) L1 L2) L3.
    Definition assoc_rhs A B q12 q23 := join A (on12 q12) L1 (join B (on23 q23) L2 L3).
    (* l-asscom:  (e1 A_12 e2) B_13 e3   =   (e1 B_13 e3) A_12 e2 *)
    Definition lasscom_lhs A B q12 q13 := join B (on13 q13) (join A (on12 q12) L1 L2) L3.
    Definition lasscom_rhs A B q12 q13 := join A (on12 q12) (join B (on13 q13) L1 L3) L2.
    (* r-asscom:  e1 A_13 (e2 B_23 e3)   =   e2 B_23 (e1 A_13 e3)
       (rightAsscom is called as rightAsscom(parent, child): the table row is the parent operator) *)
    Definition rasscom_lhs A B q13 q23 := join A (on13 q13) L1 (join B (on23 q23) L2 L3).
    Definition rasscom_rhs A B q13 q23 := join B (on23 q23) L2 (join A (on13 q13) L1 L3).
    (* commute:   e1 A_12 e2  =  e2 A_12 e1 *)
    Definition commute_lhs A q12 := join A (on12 q12) L1 L2.
    Definition commute_rhs A q12 := join A (on12 q12) L2 L1.
  End Trees.

  (* "the filter rejects NULLs on input i": it is not TRUE when all columns of that input are NULL *)
  Definition rejects_l {X Y} (q : option X -> option Y -> bool) : Prop := forall y, q None y = false.
  Definition rejects_r {X Y} (q : option X -> option Y -> bool) : Prop := forall x, q x None = false.
End Sem.

(* ------------------------------------------------------------------------------------------------- *)
(* 2. The sound table: for each transformation and operator pair, the side condition under which both
      trees denote the same bag for all relations and all ON conditions (proved in C01ReorderProofs). *)

Inductive xform : Set := XAssoc | XLasscom | XRasscom.
(* an atom (edge, input): the ON condition of that edge rejects NULLs on input e_i *)
Inductive cond : Set := Never | Always | When (atoms : list (EdgeName * N)).

Definition sound_table (x : xform) (a b : op) : cond :=
  match x, a, b with
  | XAssoc, (Cross | Inner), (Cross | Inner | Semi | Anti | LeftJ) => Always
  | XAssoc, LeftJ, LeftJ => When [(edgeB, 2%N)]
  | XLasscom, (Cross | Inner | Semi | Anti | LeftJ), (Cross | Inner | Semi | Anti | LeftJ) => Always
  | XLasscom, LeftJ, Full => When [(edgeA, 1%N)]
  | XLasscom, Full, LeftJ => When [(edgeB, 1%N)]
  | XLasscom, Full, Full => When [(edgeA, 1%N); (edgeB, 1%N)]
  | XRasscom, (Cross | Inner), (Cross | Inner) => Always
  | _, _, _ => Never
  end.

(* ------------------------------------------------------------------------------------------------- *)
(* 3. Model of the Go decision procedure (vertex sets are bit sets in N, as sets.BitSet). *)

Definition vset := N.
Definition intersects (a b : vset) : bool := negb (N.eqb (N.land a b) 0).

Record edge := { e_jt : JoinType; e_left : vset; e_right : vset; e_ses : vset; e_nr : vset }.

Definition JoinType_eq_dec (a b : JoinType) : {a = b} + {a <> b}.
Proof. decide equality. Defined.

Fixpoint lookup_jt (j : JoinType) (l : list (JoinType * N)) : option N :=
  match l with
  | [] => None
  | (k, v) :: l' => if JoinType_eq_dec j k then Some v else lookup_jt j l'
  end.

(* getOpIdx; None models the panic of the default branch *)
Definition op_idx (e : edge) : option N := lookup_jt (e_jt e) getOpIdx.

Definition side_of (eA eB : edge) (p : EdgeName * SideName) : vset :=
  match p with
  | (edgeA, leftVertices) => e_left eA
  | (edgeA, rightVertices) => e_right eA
  | (edgeB, leftVertices) => e_left eB
  | (edgeB, rightVertices) => e_right eB
  end.

Fixpoint pick_candidate (entry : N) (eA eB : edge) (l : list (N * (EdgeName * SideName))) : vset :=
  match l with
  | [] => 0%N
  | (bit, p) :: l' => if negb (N.eqb (N.land entry bit) 0) then side_of eA eB p else pick_candidate entry eA eB l'
  end.

Definition nr_of (eA eB : edge) (w : EdgeName) : vset := match w with edgeA => e_nr eA | edgeB => e_nr eB end.

Definition table_entry (table : list (list N)) (i j : N) : N :=
  nth (N.to_nat j) (nth (N.to_nat i) table []) 0%N.

Definition check_property (table : list (list N)) (eA eB : edge) : option bool :=
  match op_idx eA, op_idx eB with
  | Some i, Some j =>
      let entry := table_entry table i j in
      if N.eqb entry never then Some false
      else if N.eqb entry always then Some true
      else
        let cand := pick_candidate entry eA eB candidatePicks in
        Some (forallb (fun t : N * EdgeName =>
                         if N.eqb (N.land entry (fst t)) 0 then true
                         else intersects (nr_of eA eB (snd t)) cand) filterTests)
  | _, _ => None
  end.

Definition go_assoc (eA eB : edge) : option bool :=
  if intersects (e_ses eB) (e_left eA) || intersects (e_ses eA) (e_right eB) then Some false
  else check_property assocTable eA eB.
Definition go_left_asscom (eA eB : edge) : option bool :=
  if intersects (e_ses eB) (e_right eA) || intersects (e_ses eA) (e_right eB) then Some false
  else check_property leftAsscomTable eA eB.
Definition go_right_asscom (eA eB : edge) : option bool :=
  if intersects (e_ses eB) (e_left eA) || intersects (e_ses eA) (e_left eB) then Some false
  else check_property rightAsscomTable eA eB.

Definition go_xform (x : xform) := match x with XAssoc => go_assoc | XLasscom => go_left_asscom | XRasscom => go_right_asscom end.

Definition go_commute (j : JoinType) : bool := if in_dec JoinType_eq_dec j commuteOps then true else false.

(* which semantic operator a logical join type denotes (anti-include-nulls is an anti join whose ON
   condition is "not FALSE" instead of "TRUE"; it shares table row/column 3 with anti) *)
Definition op_of_idx (i : N) : option op :=
  match i with
  | 0 => Some Cross | 1 => Some Inner | 2 => Some Semi | 3 => Some Anti | 4 => Some LeftJ | 5 => Some Full
  | _ => None
  end%N.

Definition op_of_jt (j : JoinType) : option op :=
  match j with
  | JoinTypeCross => Some Cross
  | JoinTypeInner => Some Inner
  | JoinTypeSemi => Some Semi
  | JoinTypeAnti | JoinTypeAntiIncludeNulls => Some Anti
  | JoinTypeLeftOuter => Some LeftJ
  | JoinTypeFullOuter => Some Full
  | _ => None
  end.

(* ------------------------------------------------------------------------------------------------- *)
(* 4. The edges the Go code compares, over three sub-plans with vertex sets {1},{2},{3} (bits 1,2,4).
      calcTES calls  assoc(child-in-left, parent), leftAsscom(child-in-left, parent),
      assoc(parent, child-in-right), rightAsscom(parent, child-in-right). *)

Inductive site : Set := AssocUp | AssocDown | LasscomUp | RasscomDown.
Definition site_xform (s : site) : xform :=
  match s with AssocUp | AssocDown => XAssoc | LasscomUp => XLasscom | RasscomDown => XRasscom end.

Definition site_edges (s : site) (jA jB : JoinType) (nrA nrB : vset) : edge * edge :=
  match s with
  | AssocUp     => (Build_edge jA 1 2 3 nrA, Build_edge jB 3 4 6 nrB)   (* (e1 A12 e2) B23 e3, A child *)
  | AssocDown   => (Build_edge jA 1 6 3 nrA, Build_edge jB 2 4 6 nrB)   (* e1 A12 (e2 B23 e3), B child *)
  | LasscomUp   => (Build_edge jA 1 2 3 nrA, Build_edge jB 3 4 5 nrB)   (* (e1 A12 e2) B13 e3, A child *)
  | RasscomDown => (Build_edge jA 1 6 5 nrA, Build_edge jB 2 4 6 nrB)   (* e1 A13 (e2 B23 e3), B child *)
  end%N.

(* vertex sets a nullRejectedRels field may hold: subsets of the SES; only the empty set while the Go
   code never assigns the field *)
Definition subsets3 (s : vset) : list vset :=
  filter (fun x => N.eqb (N.land x s) x) [0;1;2;3;4;5;6;7]%N.
Definition possible_nr (s : vset) : list vset := if nullRejectedRelsAssigned then subsets3 s else [0%N].

Definition atom_holds (nrA nrB : vset) (a : EdgeName * N) : bool :=
  let bit := match snd a with 1 => 1 | 2 => 2 | 3 => 4 | _ => 0 end%N in
  intersects (match fst a with edgeA => nrA | edgeB => nrB end) bit.

Definition cond_holds (c : cond) (nrA nrB : vset) : bool :=
  match c with Never => false | Always => true | When l => forallb (atom_holds nrA nrB) l end.

Definition logical_jts : list JoinType :=
  [JoinTypeCross; JoinTypeInner; JoinTypeSemi; JoinTypeAnti; JoinTypeAntiIncludeNulls; JoinTypeLeftOuter; JoinTypeFullOuter].

(* one entry of the comparison: whenever the Go code permits, the sound table's condition holds *)
Definition entry_le (s : site) (jA jB : JoinType) : bool :=
  match op_of_jt jA, op_of_jt jB with
  | Some a, Some b =>
      let sesA := e_ses (fst (site_edges s jA jB 0 0)) in
      let sesB := e_ses (snd (site_edges s jA jB 0 0)) in
      forallb (fun nrA => forallb (fun nrB =>
        let '(eA, eB) := site_edges s jA jB nrA nrB in
        match go_xform (site_xform s) eA eB with
        | Some true => cond_holds (sound_table (site_xform s) a b) nrA nrB
        | Some false => true
        | None => false
        end) (possible_nr sesB)) (possible_nr sesA)
  | _, _ => false
  end.

Definition all_sites := [AssocUp; AssocDown; LasscomUp; RasscomDown].

Definition translated_tables_le_sound : bool :=
  forallb (fun s => forallb (fun jA => forallb (fun jB => entry_le s jA jB) logical_jts) logical_jts) all_sites.

Definition op_eqb (a b : op) : bool :=
  match a, b with
  | Cross, Cross | Inner, Inner | Semi, Semi | Anti, Anti | LeftJ, LeftJ | Full, Full => true
  | _, _ => false
  end.

(* getOpIdx sends every logical join type to the row/column of its semantic operator *)
Definition op_idx_consistent : bool :=
  forallb (fun j => match lookup_jt j getOpIdx, op_of_jt j with
                    | Some i, Some o => match op_of_idx i with Some o' => op_eqb o o' | None => false end
                    | _, _ => false end) logical_jts.

(* ------------------------------------------------------------------------------------------------- *)
(* 5. Statement vocabulary: both trees of a transformation, and what a side condition means. *)
Section Statement.
  Context {A1 A2 A3 : Type}.
  Variables (e1 : list A1) (e2 : list A2) (e3 : list A3).
  Variables (q12 : option A1 -> option A2 -> bool) (q13 : option A1 -> option A3 -> bool)
            (q23 : option A2 -> option A3 -> bool).

  Definition lhs (x : xform) (A B : op) : list (@T A1 A2 A3) :=
    match x with
    | XAssoc => assoc_lhs e1 e2 e3 A B q12 q23
    | XLasscom => lasscom_lhs e1 e2 e3 A B q12 q13
    | XRasscom => rasscom_lhs e1 e2 e3 A B q13 q23
    end.
  Definition rhs (x : xform) (A B : op) : list (@T A1 A2 A3) :=
    match x with
    | XAssoc => assoc_rhs e1 e2 e3 A B q12 q23
    | XLasscom => lasscom_rhs e1 e2 e3 A B q12 q13
    | XRasscom => rasscom_rhs e1 e2 e3 A B q13 q23
    end.

  (* edge A / edge B of each transformation carry these ON conditions:
       assoc: A = q12, B = q23;  l-asscom: A = q12, B = q13;  r-asscom: A = q13, B = q23.
     An edge cannot reject NULLs on an input it does not read (nullRejectedRels is a subset of the SES). *)
  Definition atom_sem (x : xform) (a : EdgeName * N) : Prop :=
    match x, a with
    | XAssoc, (edgeA, 1%N) => rejects_l q12   | XAssoc, (edgeA, 2%N) => rejects_r q12
    | XAssoc, (edgeB, 2%N) => rejects_l q23   | XAssoc, (edgeB, 3%N) => rejects_r q23
    | XLasscom, (edgeA, 1%N) => rejects_l q12 | XLasscom, (edgeA, 2%N) => rejects_r q12
    | XLasscom, (edgeB, 1%N) => rejects_l q13 | XLasscom, (edgeB, 3%N) => rejects_r q13
    | XRasscom, (edgeA, 1%N) => rejects_l q13 | XRasscom, (edgeA, 3%N) => rejects_r q13
    | XRasscom, (edgeB, 2%N) => rejects_l q23 | XRasscom, (edgeB, 3%N) => rejects_r q23
    | _, _ => False
    end.

  Definition cond_sem (x : xform) (c : cond) : Prop :=
    match c with Never => False | Always => True | When l => Forall (atom_sem x) l end.

  (* the nullRejectedRels fields are correct: a vertex listed for an edge is really null-rejected by its filter *)
  Definition nr_correct (x : xform) (nrA nrB : vset) : Prop :=
    forall w i, atom_holds nrA nrB (w, i) = true -> atom_sem x (w, i).
End Statement.
