(* Proofs for the C05 push-down / hoisting model. *)
From Coq Require Import List ZArith NArith Bool Lia Permutation.
Import ListNotations.
From GMS Require Import Expr.C05Expr Expr.C05ExprProofs Plan.C05Pushdown.

(* ---------- expr_eqb decides equality ---------- *)
Lemma list_eqb_N_eq a : forall b, list_eqb N.eqb a b = true -> a = b.
Proof.
  induction a as [|x a IH]; intros [|y b] H; cbn in H; try discriminate; [reflexivity|].
  apply andb_prop in H. destruct H as [H1 H2]. apply N.eqb_eq in H1. apply IH in H2. congruence.
Qed.

Lemma val_eqb_eq a b : val_eqb a b = true -> a = b.
Proof.
  destruct a, b; cbn; intros H; try discriminate; try reflexivity.
  - apply Z.eqb_eq in H. congruence.
  - apply andb_prop in H. destruct H as [H1 H2]. apply Z.eqb_eq in H1. apply N.eqb_eq in H2. congruence.
  - apply list_eqb_N_eq in H. congruence.
Qed.

Lemma ty_eqb_eq a b : ty_eqb a b = true -> a = b.
Proof. destruct a, b; cbn; intros H; try discriminate; reflexivity. Qed.
Lemma cmpop_eqb_eq a b : cmpop_eqb a b = true -> a = b.
Proof. destruct a, b; cbn; intros H; try discriminate; reflexivity. Qed.
Lemma arop_eqb_eq a b : arop_eqb a b = true -> a = b.
Proof. destruct a, b; cbn; intros H; try discriminate; reflexivity. Qed.

Definition elist_eqb : list expr -> list expr -> bool :=
  fix go (l l' : list expr) : bool :=
    match l, l' with
    | [], [] => true
    | e :: r, e' :: r' => expr_eqb e e' && go r r'
    | _, _ => false
    end.

Lemma expr_eqb_in a l a' l' : expr_eqb (In a l) (In a' l') = (expr_eqb a a' && elist_eqb l l')%bool.
Proof. reflexivity. Qed.

Lemma expr_eqb_eq a : forall b, expr_eqb a b = true -> a = b.
Proof.
  induction a using expr_ind'; intros b0 Hb; destruct b0; try (cbn in Hb; discriminate).
  all: try (cbn in Hb;
    repeat match goal with H : (_ && _)%bool = true |- _ => apply andb_prop in H; destruct H end;
    repeat match goal with
           | H : val_eqb _ _ = true |- _ => apply val_eqb_eq in H
           | H : ty_eqb _ _ = true |- _ => apply ty_eqb_eq in H
           | H : cmpop_eqb _ _ = true |- _ => apply cmpop_eqb_eq in H
           | H : arop_eqb _ _ = true |- _ => apply arop_eqb_eq in H
           | H : Nat.eqb _ _ = true |- _ => apply Nat.eqb_eq in H
           | H : Bool.eqb _ _ = true |- _ => apply Bool.eqb_prop in H
           | IH : forall b, expr_eqb ?a b = true -> ?a = b, H : expr_eqb ?a _ = true |- _ => apply IH in H
           end; subst; reflexivity).
  (* In *)
  rewrite expr_eqb_in in Hb. apply andb_prop in Hb. destruct Hb as [H1 Hl]. apply IHa in H1. subst. f_equal.
  revert l0 Hl. induction H as [|x l Hx Hf IH]; intros [|y l'] Hl; cbn in Hl; try discriminate; [reflexivity|].
  apply andb_prop in Hl. destruct Hl as [H1 H2]. apply Hx in H1. apply IH in H2. congruence.
Qed.

Lemma expr_eqb_refl a : expr_eqb a a = true.
Proof.
  assert (Hv : forall v, val_eqb v v = true).
  { intros [|z|m s|b]; cbn; rewrite ?Z.eqb_refl, ?N.eqb_refl; try reflexivity.
    induction b as [|x b IH]; cbn; [reflexivity|]. rewrite N.eqb_refl. exact IH. }
  assert (Ht : forall t, ty_eqb t t = true) by (intros []; reflexivity).
  induction a using expr_ind'; cbn;
    rewrite ?Hv, ?Ht, ?Nat.eqb_refl, ?Bool.eqb_reflx;
    repeat match goal with IH : expr_eqb ?a ?a = true |- _ => rewrite IH; clear IH end; try reflexivity;
    try (destruct op; reflexivity).
  induction H as [|x l Hx Hf IH]; [reflexivity|]. rewrite Hx. exact IH.
Qed.

(* ---------- eval looks only at the columns of the expression ---------- *)
Lemma eval_agree r r' e : (forall i, List.In i (cols e) -> nth i r VNull = nth i r' VNull) -> eval r e = eval r' e.
Proof.
  induction e using expr_ind'; intros Hc; cbn [cols] in Hc; cbn [eval];
    repeat match goal with IH : (forall i, List.In i (cols ?a) -> _) -> eval r ?a = eval r' ?a |- _ =>
      rewrite IH by (intros k Hk; apply Hc; repeat (rewrite in_app_iff); auto); clear IH end;
    try reflexivity.
  - apply Hc. left. reflexivity.
  - assert (Hl : map (eval r) l = map (eval r') l).
    { induction H as [|x l Hx Hf IH]; [reflexivity|]. cbn. rewrite Hx, IH; [reflexivity| |].
      - intros i Hi. apply Hc. rewrite in_app_iff in *. destruct Hi as [Hi|Hi]; [left; exact Hi|].
        right. cbn. rewrite in_app_iff. right. exact Hi.
      - intros i Hi. apply Hc. rewrite in_app_iff. right. cbn. rewrite in_app_iff. left. exact Hi. }
    rewrite Hl. reflexivity.
Qed.

(* ---------- conjunctions ---------- *)
Lemma is_true_and2 r p q : is_true (eval r (And p q)) = (is_true (eval r p) && is_true (eval r q))%bool.
Proof. cbn [eval]. unfold is_true. rewrite to_tri_of_tri. destruct (to_tri (eval r p)), (to_tri (eval r q)); reflexivity. Qed.

Definition holds (r : row) (fs : list expr) : bool := forallb (fun f => is_true (eval r f)) fs.

Lemma holds_app r a b : holds r (a ++ b) = (holds r a && holds r b)%bool.
Proof. unfold holds. apply forallb_app. Qed.

Lemma is_true_split r p : is_true (eval r p) = holds r (split_conj p).
Proof.
  induction p; try (cbn [split_conj holds forallb]; rewrite andb_true_r; reflexivity).
  cbn [split_conj]. rewrite holds_app, is_true_and2, IHp1, IHp2. reflexivity.
Qed.

Lemma is_true_fold_and r l : forall x, is_true (eval r (fold_left And l x)) = (is_true (eval r x) && holds r l)%bool.
Proof.
  induction l as [|y l IH]; intros x; cbn [fold_left holds forallb].
  - rewrite andb_true_r. reflexivity.
  - rewrite IH, is_true_and2. unfold holds. rewrite andb_assoc. reflexivity.
Qed.

Lemma is_true_join_and r l : is_true (eval r (join_and l)) = holds r l.
Proof. destruct l as [|x l]; [reflexivity|]. cbn [join_and]. rewrite is_true_fold_and. reflexivity. Qed.

Lemma sigma_all_spec fs l : sigma_all fs l = filter (fun r => holds r fs) l.
Proof. reflexivity. Qed.

Lemma holds_subtract r cs h : holds r h = true -> holds r (subtract cs h) = holds r cs.
Proof.
  intros Hh. unfold subtract. induction cs as [|c cs IH]; [reflexivity|]. cbn [filter].
  destruct (existsb (expr_eqb c) h) eqn:E; cbn [negb].
  - cbn [holds forallb]. fold (holds r cs). rewrite <- IH.
    apply existsb_exists in E. destruct E as (x & Hx & Ex). apply expr_eqb_eq in Ex. subst x.
    unfold holds in Hh. rewrite forallb_forall in Hh. rewrite (Hh c Hx). reflexivity.
  - cbn [holds forallb]. fold (holds r (filter (fun e => negb (existsb (expr_eqb e) h)) cs)). fold (holds r cs).
    rewrite IH. reflexivity.
Qed.

Section Proofs.
  Variable own : list nat.
  Variable db : nat -> list row.

  Notation tabs := C05Pushdown.tabs.
  Notation over := (C05Pushdown.over own).
  Notation merge := (C05Pushdown.merge own).
  Notation peval := (C05Pushdown.peval own db).
  Notation push := (C05Pushdown.push own).

  Lemma nth_merge tl a b i : (i < length own)%nat ->
    nth i (merge tl a b) VNull = if memb (nth i own 0%nat) tl then nth i a VNull else nth i b VNull.
  Proof.
    intros Hi. unfold C05Pushdown.merge.
    set (f := fun i => if memb (nth i own 0%nat) tl then nth i a VNull else nth i b VNull).
    rewrite (nth_indep (map f (seq 0 (length own))) VNull (f 0%nat)) by (rewrite map_length, seq_length; exact Hi).
    rewrite (map_nth f), seq_nth by exact Hi. reflexivity.
  Qed.

  Lemma over_in ts e i : over ts e = true -> List.In i (cols e) -> (i < length own)%nat /\ memb (nth i own 0%nat) ts = true.
  Proof.
    unfold C05Pushdown.over. rewrite forallb_forall. intros H Hi. specialize (H i Hi).
    apply andb_prop in H. destruct H as [H1 H2]. apply Nat.ltb_lt in H1. auto.
  Qed.

  Lemma eval_merge_left tl a b e : over tl e = true -> eval (merge tl a b) e = eval a e.
  Proof.
    intros Ho. apply eval_agree. intros i Hi. destruct (over_in _ _ _ Ho Hi) as [H1 H2].
    rewrite nth_merge by exact H1. rewrite H2. reflexivity.
  Qed.

  Lemma memb_in t ts : memb t ts = true <-> List.In t ts.
  Proof.
    unfold memb. rewrite existsb_exists. split.
    - intros (x & Hx & E). apply Nat.eqb_eq in E. subst. exact Hx.
    - intros H. exists t. split; [exact H|apply Nat.eqb_refl].
  Qed.

  Lemma eval_merge_right tl tr a b e :
    over tr e = true -> (forall t, List.In t tr -> ~ List.In t tl) -> eval (merge tl a b) e = eval b e.
  Proof.
    intros Ho Hd. apply eval_agree. intros i Hi. destruct (over_in _ _ _ Ho Hi) as [H1 H2].
    rewrite nth_merge by exact H1. apply memb_in in H2.
    destruct (memb (nth i own 0%nat) tl) eqn:E; [|reflexivity]. apply memb_in in E. exfalso. exact (Hd _ H2 E).
  Qed.

  Lemma over_mono ts ts' e : (forall t, List.In t ts -> List.In t ts') -> over ts e = true -> over ts' e = true.
  Proof.
    intros Hs. unfold C05Pushdown.over. rewrite !forallb_forall. intros H i Hi. specialize (H i Hi).
    apply andb_prop in H. destruct H as [H1 H2]. rewrite H1. cbn. apply memb_in. apply Hs. apply memb_in. exact H2.
  Qed.

  Lemma holds_merge_left tl a b h : forallb (over tl) h = true -> holds (merge tl a b) h = holds a h.
  Proof.
    intros Ho. unfold holds. induction h as [|f h IH]; [reflexivity|]. cbn in *. apply andb_prop in Ho.
    destruct Ho as [H1 H2]. rewrite eval_merge_left by exact H1. rewrite IH by exact H2. reflexivity.
  Qed.

  Lemma holds_merge_right tl tr a b h :
    forallb (over tr) h = true -> (forall t, List.In t tr -> ~ List.In t tl) -> holds (merge tl a b) h = holds b h.
  Proof.
    intros Ho Hd. unfold holds. induction h as [|f h IH]; [reflexivity|]. cbn in *. apply andb_prop in Ho.
    destruct Ho as [H1 H2]. rewrite (eval_merge_right tl tr) by assumption. rewrite IH by exact H2. reflexivity.
  Qed.

  (* ---------- joins with pre-filtered inputs ---------- *)
  Lemma filter_filter {X} (f g : X -> bool) l : filter f (filter g l) = filter (fun x => g x && f x)%bool l.
  Proof. induction l as [|x l IH]; [reflexivity|]. cbn. destruct (g x); cbn; [destruct (f x)|]; rewrite IH; reflexivity. Qed.

  Lemma filter_flat_map {X Y} (f : Y -> bool) (g : X -> list Y) l :
    filter f (flat_map g l) = flat_map (fun x => filter f (g x)) l.
  Proof. induction l as [|x l IH]; [reflexivity|]. cbn. rewrite filter_app, IH. reflexivity. Qed.

  Lemma flat_map_filter {X Y} (p : X -> bool) (g : X -> list Y) l :
    flat_map g (filter p l) = flat_map (fun x => if p x then g x else []) l.
  Proof. induction l as [|x l IH]; [reflexivity|]. cbn. destruct (p x); cbn; rewrite IH; reflexivity. Qed.

  Lemma map_filter_comm {X Y} (f : X -> Y) (g : X -> bool) (g' : Y -> bool) l :
    (forall x, g' (f x) = g x) -> map f (filter g l) = filter g' (map f l).
  Proof.
    intros H. induction l as [|x l IH]; [reflexivity|]. cbn. rewrite H. destruct (g x); cbn; rewrite IH; reflexivity.
  Qed.

  Lemma filter_none {X} (f : X -> bool) l : (forall x, List.In x l -> f x = false) -> filter f l = [].
  Proof.
    induction l as [|x l IH]; intros H; [reflexivity|]. cbn. rewrite (H x (or_introl eq_refl)). apply IH.
    intros y Hy. apply H. right. exact Hy.
  Qed.

  Lemma matches_filtered tl tr cond cond' a B h1 h2 :
    forallb (over tl) h1 = true -> forallb (over tr) h2 = true -> (forall t, List.In t tr -> ~ List.In t tl) ->
    (forall r, holds r h1 = true -> holds r h2 = true -> is_true (eval r cond') = is_true (eval r cond)) ->
    (if holds a h1 then C05Pushdown.matches own tl cond' a (sigma_all h2 B) else [])
    = sigma_all (h1 ++ h2) (C05Pushdown.matches own tl cond a B).
  Proof.
    intros O1 O2 Hd Hc. unfold C05Pushdown.matches, sigma_all.
    rewrite (map_filter_comm (merge tl a) (fun b => forallb (fun f => is_true (eval b f)) h2)
               (fun r => forallb (fun f => is_true (eval r f)) h2))
      by (intros b; apply (holds_merge_right tl tr a b h2 O2 Hd)).
    rewrite !filter_filter.
    destruct (holds a h1) eqn:Ea.
    - apply filter_ext_in. intros r Hr. apply in_map_iff in Hr. destruct Hr as (b & <- & _).
      fold (holds (merge tl a b) h2). fold (holds (merge tl a b) (h1 ++ h2)).
      rewrite holds_app, (holds_merge_left tl a b h1 O1), Ea. cbn [andb].
      destruct (holds (merge tl a b) h2) eqn:E2; cbn [andb].
      + rewrite Hc; [rewrite andb_true_r; reflexivity| |exact E2]. rewrite (holds_merge_left tl a b h1 O1). exact Ea.
      + rewrite andb_false_r. reflexivity.
    - symmetry. apply filter_none. intros r Hr. apply in_map_iff in Hr. destruct Hr as (b & <- & _).
      fold (holds (merge tl a b) (h1 ++ h2)). rewrite holds_app, (holds_merge_left tl a b h1 O1), Ea. cbn.
      apply andb_false_r.
  Qed.

  Lemma inner_join_filtered tl tr cond cond' A B h1 h2 :
    forallb (over tl) h1 = true -> forallb (over tr) h2 = true -> (forall t, List.In t tr -> ~ List.In t tl) ->
    (forall r, holds r h1 = true -> holds r h2 = true -> is_true (eval r cond') = is_true (eval r cond)) ->
    C05Pushdown.inner_join own tl cond' (sigma_all h1 A) (sigma_all h2 B)
    = sigma_all (h1 ++ h2) (C05Pushdown.inner_join own tl cond A B).
  Proof.
    intros O1 O2 Hd Hc. unfold C05Pushdown.inner_join.
    change (sigma_all h1 A) with (filter (fun r => holds r h1) A). rewrite flat_map_filter.
    change (sigma_all (h1 ++ h2) (flat_map (fun a => C05Pushdown.matches own tl cond a B) A))
      with (filter (fun r => holds r (h1 ++ h2)) (flat_map (fun a => C05Pushdown.matches own tl cond a B) A)).
    rewrite filter_flat_map. apply flat_map_ext. intros a.
    apply (matches_filtered tl tr cond cond' a B h1 h2 O1 O2 Hd Hc).
  Qed.

  Lemma left_join_filtered tl cond A B h1 :
    forallb (over tl) h1 = true ->
    C05Pushdown.left_join own tl cond (sigma_all h1 A) B = sigma_all h1 (C05Pushdown.left_join own tl cond A B).
  Proof.
    intros O1. unfold C05Pushdown.left_join.
    change (sigma_all h1 A) with (filter (fun r => holds r h1) A). rewrite flat_map_filter.
    unfold sigma_all. rewrite filter_flat_map. apply flat_map_ext. intros a. fold (holds a h1).
    assert (Hm : forall l, Forall (fun r => exists b, r = merge tl a b) l ->
                 filter (fun r => forallb (fun f => is_true (eval r f)) h1) l = if holds a h1 then l else []).
    { induction l as [|r l IH]; intros Hf; [destruct (holds a h1); reflexivity|].
      inversion Hf as [|? ? (b & ->) Hf']; subst. cbn [filter]. fold (holds (merge tl a b) h1). rewrite (holds_merge_left tl a b h1 O1).
      rewrite (IH Hf'). destruct (holds a h1); reflexivity. }
    destruct (C05Pushdown.matches own tl cond a B) as [|m ms] eqn:E.
    - rewrite (Hm [merge tl a (C05Pushdown.null_row own)]); [reflexivity|]. constructor; [eexists; reflexivity|constructor].
    - rewrite Hm; [reflexivity|]. rewrite <- E. unfold C05Pushdown.matches.
      apply Forall_forall. intros r Hr. apply filter_In in Hr. destruct Hr as [Hr _].
      apply in_map_iff in Hr. destruct Hr as (b & <- & _). eexists; reflexivity.
  Qed.

  (* ---------- the invariant of pushdownFiltersAboveTables ---------- *)
  Definition enforced (pl : plan) (f : expr) : Prop := forall r, List.In r (peval pl) -> is_true (eval r f) = true.

  Lemma sigma_all_enforced h l : (forall f, List.In f h -> forall r, List.In r l -> is_true (eval r f) = true) -> sigma_all h l = l.
  Proof.
    intros H. unfold sigma_all. induction l as [|r l IH]; [reflexivity|]. cbn [filter].
    assert (Hr : forallb (fun f => is_true (eval r f)) h = true).
    { apply forallb_forall. intros f Hf. apply H; [exact Hf|left; reflexivity]. }
    rewrite Hr. f_equal. apply IH. intros f Hf r' Hr'. apply H; [exact Hf|right; exact Hr'].
  Qed.

  Lemma sigma_all_app a b l : sigma_all (a ++ b) l = sigma_all b (sigma_all a l).
  Proof.
    unfold sigma_all. rewrite filter_filter. apply filter_ext. intros r. apply forallb_app.
  Qed.

  Lemma sigma_all_nil l : sigma_all [] l = l.
  Proof. unfold sigma_all. induction l as [|r l IH]; [reflexivity|]. cbn in *. rewrite IH. reflexivity. Qed.

  Lemma sigma_all_in fs l r : List.In r (sigma_all fs l) <-> List.In r l /\ holds r fs = true.
  Proof. unfold sigma_all. apply filter_In. Qed.

  Lemma sigma_split p l : sigma p l = sigma_all (split_conj p) l.
  Proof. unfold sigma, sigma_all. apply filter_ext. intros r. apply is_true_split. Qed.

  Lemma sigma_join_and fs l : sigma (join_and fs) l = sigma_all fs l.
  Proof. unfold sigma, sigma_all. apply filter_ext. intros r. apply is_true_join_and. Qed.

  Lemma only_table_over t e : C05Pushdown.only_table own t e = true -> over [t] e = true.
  Proof. unfold C05Pushdown.only_table. destruct (cols e); [discriminate|auto]. Qed.

  Lemma in_subtract f all h : List.In f (subtract all h) -> List.In f all.
  Proof. unfold subtract. intros H. apply filter_In in H. tauto. Qed.

  Lemma nodup_app {X} (a b : list X) :
    NoDup (a ++ b) -> NoDup a /\ NoDup b /\ (forall t, List.In t b -> ~ List.In t a).
  Proof.
    induction a as [|x a IH]; cbn; intros H.
    - split; [constructor|]. split; [exact H|]. intros t _ [].
    - inversion H as [|? ? Hx Hn]; subst. destruct (IH Hn) as (Na & Nb & Hd). split; [|split; [exact Nb|]].
      + constructor; [|exact Na]. intros Hin. apply Hx. apply in_app_iff. left. exact Hin.
      + intros t Hb [->|Ha]; [apply Hx; apply in_app_iff; right; exact Hb|exact (Hd t Hb Ha)].
  Qed.

  Theorem push_spec pl : NoDup (tabs pl) -> forall avail,
    let '(pl', h) := push avail pl in
    tabs pl' = tabs pl /\
    forallb (over (tabs pl)) h = true /\
    peval pl' = sigma_all h (peval pl) /\
    (forall f, List.In f h -> List.In f avail \/ enforced pl f).
  Proof.
    induction pl as [t|p c IH|lo p a IHa b IHb|n c IH]; intros ND avail; cbn [C05Pushdown.push].
    - (* table *)
      destruct (filter (C05Pushdown.only_table own t) avail) as [|m ms] eqn:E.
      + split; [reflexivity|]. split; [reflexivity|]. split; [symmetry; apply sigma_all_nil|intros f []].
      + rewrite <- E. repeat split.
        * apply forallb_forall. intros f Hf. apply filter_In in Hf. destruct Hf as [_ Hf]. apply only_table_over. exact Hf.
        * cbn [C05Pushdown.peval]. apply sigma_join_and.
        * intros f Hf. left. apply filter_In in Hf. tauto.
    - (* filter *)
      specialize (IH ND (avail ++ split_conj p)). destruct (push (avail ++ split_conj p) c) as [c' h].
      destruct IH as (T & O & E & S).
      assert (Hsem : sigma_all (subtract (split_conj p) h) (peval c') = sigma_all h (sigma p (peval c))).
      { rewrite E, sigma_split, <- !sigma_all_app. unfold sigma_all. apply filter_ext. intros r.
        fold (holds r (h ++ subtract (split_conj p) h)). fold (holds r (split_conj p ++ h)). rewrite !holds_app.
        destruct (holds r h) eqn:Hh; [|rewrite andb_false_r; reflexivity].
        rewrite (holds_subtract r _ h Hh). rewrite andb_true_r. reflexivity. }
      assert (Hres : forall f, List.In f h -> List.In f avail \/ enforced (PFilter p c) f).
      { intros f Hf. destruct (S f Hf) as [Hin|He].
        - apply in_app_iff in Hin. destruct Hin as [Hin|Hin]; [left; exact Hin|right].
          intros r Hr. cbn [C05Pushdown.peval] in Hr. rewrite sigma_split in Hr. apply sigma_all_in in Hr.
          destruct Hr as [_ Hr]. unfold holds in Hr. rewrite forallb_forall in Hr. apply Hr. exact Hin.
        - right. intros r Hr. cbn [C05Pushdown.peval] in Hr. apply sigma_In in Hr. apply He. tauto. }
      destruct (subtract (split_conj p) h) as [|x0 rest] eqn:Es.
      + cbn [C05Pushdown.tabs C05Pushdown.peval]. repeat split; try assumption.
        rewrite <- Hsem. symmetry. apply sigma_all_nil.
      + assert (Hm : forall x c'', c' = PFilter x c'' ->
                  sigma (join_and ((x0 :: rest) ++ [x])) (peval c'') = sigma_all (x0 :: rest) (peval c')).
        { intros x c'' ->. cbn [C05Pushdown.peval]. rewrite sigma_join_and. unfold sigma_all, sigma. rewrite filter_filter.
          apply filter_ext. intros r. fold (holds r ((x0 :: rest) ++ [x])). fold (holds r (x0 :: rest)).
          rewrite holds_app. cbn [holds forallb]. rewrite andb_true_r. apply andb_comm. }
        destruct c' as [t'|x c''|lo' p' a' b'|n' c''] eqn:Ec'; cbn [C05Pushdown.tabs C05Pushdown.peval] in *;
          repeat split; try assumption; try (rewrite sigma_join_and; exact Hsem).
        rewrite (Hm x c'' eq_refl). exact Hsem.
    - (* join *)
      cbn [C05Pushdown.tabs] in ND. destruct (nodup_app _ _ ND) as (NDa & NDb & Hd).
      destruct lo.
      + (* left outer join *)
        specialize (IHa NDa avail). destruct (push avail a) as [a' h1]. destruct IHa as (Ta & Oa & Ea & Sa).
        specialize (IHb NDb []). destruct (push [] b) as [b' h2]. destruct IHb as (Tb & Ob & Eb & Sb).
        cbn [C05Pushdown.tabs C05Pushdown.peval]. rewrite Ta, Tb. repeat split.
        * apply forallb_forall. intros f Hf. rewrite forallb_forall in Oa.
          apply (over_mono (tabs a)); [intros t Ht; apply in_app_iff; left; exact Ht|apply Oa; exact Hf].
        * rewrite Ea, Eb. rewrite (sigma_all_enforced h2 (peval b)).
          -- apply left_join_filtered. exact Oa.
          -- intros f Hf r Hr. destruct (Sb f Hf) as [[]|He]. apply He. exact Hr.
        * intros f Hf. destruct (Sa f Hf) as [Hin|He]; [left; exact Hin|right].
          intros r Hr. cbn [C05Pushdown.peval] in Hr. unfold C05Pushdown.left_join in Hr.
          apply in_flat_map in Hr. destruct Hr as (x & Hx & Hr).
          assert (Hrx : exists y, r = merge (tabs a) x y).
          { destruct (C05Pushdown.matches own (tabs a) p x (peval b)) as [|m ms] eqn:Em.
            - destruct Hr as [<-|[]]. eexists; reflexivity.
            - rewrite <- Em in Hr. unfold C05Pushdown.matches in Hr. apply filter_In in Hr. destruct Hr as [Hr _].
              apply in_map_iff in Hr. destruct Hr as (y & <- & _). eexists; reflexivity. }
          destruct Hrx as (y & ->). rewrite forallb_forall in Oa. rewrite eval_merge_left by (apply Oa; exact Hf).
          apply He. exact Hx.
      + (* inner join *)
        specialize (IHa NDa (avail ++ split_conj p)). destruct (push (avail ++ split_conj p) a) as [a' h1].
        destruct IHa as (Ta & Oa & Ea & Sa).
        specialize (IHb NDb (subtract (avail ++ split_conj p) h1)).
        destruct (push (subtract (avail ++ split_conj p) h1) b) as [b' h2]. destruct IHb as (Tb & Ob & Eb & Sb).
        cbn [C05Pushdown.tabs C05Pushdown.peval]. rewrite Ta, Tb. repeat split.
        * rewrite forallb_app. apply andb_true_intro. split; apply forallb_forall; intros f Hf.
          -- rewrite forallb_forall in Oa. apply (over_mono (tabs a)); [intros t Ht; apply in_app_iff; left; exact Ht|apply Oa; exact Hf].
          -- rewrite forallb_forall in Ob. apply (over_mono (tabs b)); [intros t Ht; apply in_app_iff; right; exact Ht|apply Ob; exact Hf].
        * rewrite Ea, Eb. apply (inner_join_filtered (tabs a) (tabs b)); try assumption.
          intros r H1 H2. rewrite is_true_join_and, is_true_split. apply holds_subtract. rewrite holds_app, H1, H2. reflexivity.
        * intros f Hf. apply in_app_iff in Hf.
          assert (Hjoin : forall r, List.In r (peval (PJoin false p a b)) ->
                    holds r (split_conj p) = true /\ exists x y, List.In x (peval a) /\ List.In y (peval b) /\ r = merge (tabs a) x y).
          { intros r Hr. cbn [C05Pushdown.peval] in Hr. unfold C05Pushdown.inner_join in Hr. apply in_flat_map in Hr.
            destruct Hr as (x & Hx & Hr). unfold C05Pushdown.matches in Hr. apply filter_In in Hr. destruct Hr as [Hr Ht].
            apply in_map_iff in Hr. destruct Hr as (y & <- & Hy). rewrite is_true_split in Ht. split; [exact Ht|]. eauto. }
          assert (Hcs : forall g, List.In g (split_conj p) -> enforced (PJoin false p a b) g).
          { intros g Hg r Hr. destruct (Hjoin r Hr) as [Hh _]. unfold holds in Hh. rewrite forallb_forall in Hh. apply Hh. exact Hg. }
          destruct Hf as [Hf|Hf].
          -- destruct (Sa f Hf) as [Hin|He].
             ++ apply in_app_iff in Hin. destruct Hin as [Hin|Hin]; [left; exact Hin|right; apply Hcs; exact Hin].
             ++ right. intros r Hr. destruct (Hjoin r Hr) as [_ (x & y & Hx & Hy & ->)].
                rewrite forallb_forall in Oa. rewrite eval_merge_left by (apply Oa; exact Hf). apply He. exact Hx.
          -- destruct (Sb f Hf) as [Hin|He].
             ++ apply in_subtract in Hin. apply in_app_iff in Hin. destruct Hin as [Hin|Hin]; [left; exact Hin|right; apply Hcs; exact Hin].
             ++ right. intros r Hr. destruct (Hjoin r Hr) as [_ (x & y & Hx & Hy & ->)].
                rewrite forallb_forall in Ob. rewrite (eval_merge_right (tabs a) (tabs b)) by (try apply Ob; assumption).
                apply He. exact Hy.
    - (* limit *)
      specialize (IH ND []). destruct (push [] c) as [c' h]. destruct IH as (T & O & E & S).
      cbn [C05Pushdown.tabs C05Pushdown.peval]. repeat split; try assumption; try reflexivity.
      + rewrite E, (sigma_all_enforced h (peval c)).
        * symmetry. apply sigma_all_nil.
        * intros f Hf r Hr. destruct (S f Hf) as [[]|He]. apply He. exact Hr.
      + intros f [].
  Qed.

  (* pushFilters returns the same rows, in the same order *)
  Theorem pushdown_sound pl : NoDup (tabs pl) -> peval (C05Pushdown.push_filters own pl) = peval pl.
  Proof.
    intros ND. unfold C05Pushdown.push_filters. pose proof (push_spec pl ND []) as H.
    destruct (push [] pl) as [pl' h]. destruct H as (_ & _ & E & S). cbn [fst]. rewrite E.
    apply sigma_all_enforced. intros f Hf r Hr. destruct (S f Hf) as [[]|He]. apply He. exact Hr.
  Qed.
End Proofs.

(* ---------- the guard is needed: the null-supplying side of a left outer join ---------- *)
Lemma pushdown_unsound_right_of_left_join :
  exists own db f p a b,
    C05Pushdown.over own (C05Pushdown.tabs b) f = true /\
    C05Pushdown.peval own db (PFilter f (PJoin true p a b)) <>
    C05Pushdown.peval own db (C05Pushdown.push_right_of_left_join f p a b).
Proof.
  exists [0%nat; 1%nat], (fun t => match t with O => [[VInt 1; VNull]] | _ => [[VNull; VInt 5]] end),
    (Cmp CEq (Col 1 TyInt) (Lit (VInt 7) TyInt)), lit_true, (PTable 0), (PTable 1).
  split; [reflexivity|]. vm_compute. discriminate.
Qed.

(* ---------- hoistOutOfScopeFilters ---------- *)
Lemma eval_outer n r s e : length r = n -> outer_only n e = true -> eval (r ++ s) e = eval r e.
Proof.
  intros Hl Ho. apply eval_agree. intros i Hi. unfold outer_only in Ho. rewrite forallb_forall in Ho.
  specialize (Ho i Hi). apply Nat.ltb_lt in Ho. apply app_nth1. lia.
Qed.

Lemma holds_filter_split r fs (p : expr -> bool) :
  holds r fs = (holds r (filter p fs) && holds r (filter (fun e => negb (p e)) fs))%bool.
Proof.
  induction fs as [|f fs IH]; [reflexivity|]. cbn [filter holds forallb]. fold (holds r fs). rewrite IH.
  destruct (p f); cbn [negb holds forallb];
    fold (holds r (filter p fs)); fold (holds r (filter (fun e => negb (p e)) fs));
    destruct (is_true (eval r f)), (holds r (filter p fs)), (holds r (filter (fun e => negb (p e)) fs)); reflexivity.
Qed.

Theorem hoist_sound n r S q :
  length r = n ->
  let '(hoisted, kept) := hoist n q in
  exists_sub r S q = (holds r hoisted && exists_sub r S (join_and kept))%bool.
Proof.
  intros Hl. unfold hoist, exists_sub.
  set (cs := split_conj q). set (out := filter (outer_only n) cs). set (inn := filter (fun e => negb (outer_only n e)) cs).
  assert (Hh : forall s, holds (r ++ s) out = holds r (map (IsTrue false) out)).
  { intros s. unfold holds. subst out. induction cs as [|c cs' IH]; [reflexivity|]. cbn [filter].
    destruct (outer_only n c) eqn:E; [|exact IH]. cbn [map forallb]. rewrite IH. f_equal.
    rewrite (eval_outer n r s c Hl E). cbn [eval]. unfold is_true at 2.
    destruct (eval r c) as [|z|m sc|b] eqn:Ev; try reflexivity; cbn [xorb];
      unfold is_true, to_tri; destruct (truthy _); reflexivity. }
  induction S as [|s S IH]; cbn [existsb].
  - rewrite andb_false_r. reflexivity.
  - rewrite IH. rewrite is_true_split. fold cs. rewrite (holds_filter_split (r ++ s) cs (outer_only n)). fold out inn.
    rewrite is_true_join_and, Hh.
    destruct (holds r (map (IsTrue false) out)); cbn [andb]; reflexivity.
Qed.
