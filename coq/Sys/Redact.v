(* Model of /repo/sql/sqlredact/redactor.go and mapping.go (C45).  Definitions only; proofs in RedactProofs.v.
   Oracles (inputs of the model): whether vitess Parse accepted the text, the set of TableIdent/ColIdent strings
   its AST walk reports, and the token stream of the vitess tokenizer (class + val of every token). *)
From Coq Require Import List NArith Bool Ascii String DecimalString Decimal.
Import ListNotations.

Definition bytes := list N.

Fixpoint bytes_eqb (a b : bytes) : bool :=
  match a, b with
  | [], [] => true
  | x :: a', y :: b' => N.eqb x y && bytes_eqb a' b'
  | _, _ => false
  end.

(* ---------------- mapping.go ---------------- *)
(* strconv.Itoa *)
Definition itoa (k : nat) : bytes := map N_of_ascii (list_ascii_of_string (NilEmpty.string_of_uint (Nat.to_uint k))).

Definition ntok (k : nat) : bytes := 110%N :: itoa k.   (* "n" + strconv.Itoa(k) *)
Definition vtok (k : nat) : bytes := 118%N :: itoa k.   (* "v" + strconv.Itoa(k) *)

(* the two maps in minting order, and the two counters *)
Record mapping := { idents : list (bytes * bytes); values : list (bytes * bytes); ncount : nat; vcount : nat }.
Definition empty_mapping : mapping := {| idents := []; values := []; ncount := 0; vcount := 0 |}.

Fixpoint lookup (m : list (bytes * bytes)) (k : bytes) : option bytes :=
  match m with
  | [] => None
  | (k', t) :: m' => if bytes_eqb k' k then Some t else lookup m' k
  end.

(* RedactIdent: the empty string passes through; otherwise look up, else mint n<count+1> *)
Definition redact_ident (m : mapping) (orig : bytes) : mapping * bytes :=
  match orig with
  | [] => (m, [])
  | _ =>
    match lookup (idents m) orig with
    | Some t => (m, t)
    | None =>
        let k := S (ncount m) in
        ({| idents := idents m ++ [(orig, ntok k)]; values := values m; ncount := k; vcount := vcount m |}, ntok k)
    end
  end.

(* RedactValue: no special case for the empty string *)
Definition redact_value (m : mapping) (orig : bytes) : mapping * bytes :=
  match lookup (values m) orig with
  | Some t => (m, t)
  | None =>
      let k := S (vcount m) in
      ({| idents := idents m; values := values m ++ [(orig, vtok k)]; ncount := ncount m; vcount := k |}, vtok k)
  end.

(* call sequences on one Mapping *)
Inductive call := CIdent (orig : bytes) | CValue (orig : bytes).

Definition do_call (m : mapping) (c : call) : mapping * bytes :=
  match c with CIdent o => redact_ident m o | CValue o => redact_value m o end.

Fixpoint run_calls (m : mapping) (cs : list call) : mapping * list bytes :=
  match cs with
  | [] => (m, [])
  | c :: cs' => let '(m', t) := do_call m c in let '(m'', ts) := run_calls m' cs' in (m'', t :: ts)
  end.

(* ---------------- redactor.go ---------------- *)
Inductive sym := SLE | SGE | SNE | SSHL | SSHR | SNSE | SJEX | SJUEX | SAND | SOR | SCONCAT.

(* the class of a token type, as the switch in emitToken / the loop in RedactSQLForTraceInto distinguishes them *)
Inductive tclass :=
| CId                 (* ID *)
| CStr                (* STRING *)
| CNum                (* INTEGRAL, FLOAT, HEXNUM *)
| CHex                (* HEX *)
| CBit                (* BIT_LITERAL *)
| CArg                (* VALUE_ARG, LIST_ARG *)
| CComment            (* COMMENT *)
| CLexErr             (* LEX_ERROR *)
| CChar (c : N)       (* any other type < 256 *)
| CSym (s : sym)      (* a type listed in symbolOps *)
| COther.             (* any other type >= 256 (keywords) *)

Definition token : Type := (tclass * bytes)%type.

Definition sym_text (s : sym) : bytes :=
  match s with
  | SLE => [60;61] | SGE => [62;61] | SNE => [33;61] | SSHL => [60;60] | SSHR => [62;62] | SNSE => [60;61;62]
  | SJEX => [45;62] | SJUEX => [45;62;62] | SAND => [38;38] | SOR => [124;124] | SCONCAT => [124;124]
  end%N.

Definition emit_structural (cls : tclass) (val : bytes) : bytes :=
  match val with
  | _ :: _ => val
  | [] => match cls with
          | CChar c => [c]
          | CSym s => sym_text s
          | _ => [32%N]
          end
  end.

Definition emit_ident (m : mapping) (val : bytes) : mapping * bytes :=
  let '(m', t) := redact_ident m val in (m', [96%N] ++ t ++ [96%N]).

(* how a value placeholder is dressed, per literal class *)
Definition dress (cls : tclass) (t : bytes) : bytes :=
  match cls with
  | CStr => [39%N] ++ t ++ [39%N]
  | CNum => [58%N] ++ t
  | CHex => [88;39]%N ++ t ++ [39%N]
  | CBit => [66;39]%N ++ t ++ [39%N]
  | _ => t
  end.

Definition in_set (ids : list bytes) (val : bytes) : bool := existsb (bytes_eqb val) ids.

Definition is_value_class (cls : tclass) : bool :=
  match cls with CStr | CNum | CHex | CBit => true | _ => false end.

(* the token is redacted as an identifier *)
Definition ident_like (ids : list bytes) (tk : token) : bool :=
  match tk with
  | (CId, _) => true
  | (CArg, _) => false
  | (cls, val) => negb (is_value_class cls) && match val with [] => false | _ => in_set ids val end
  end.

Definition emit_token (m : mapping) (ids : list bytes) (tk : token) : mapping * bytes :=
  let '(cls, val) := tk in
  match cls with
  | CId => emit_ident m val
  | CStr | CNum | CHex | CBit => let '(m', t) := redact_value m val in (m', dress cls t)
  | CArg => (m, val)
  | _ => match val with
         | _ :: _ => if in_set ids val then emit_ident m val else (m, emit_structural cls val)
         | [] => (m, emit_structural cls val)
         end
  end.

(* "<unparseable>" *)
Definition marker : bytes := [60;117;110;112;97;114;115;101;97;98;108;101;62]%N.

(* the token loop: None = LEX_ERROR met (the entries minted before it stay in the Mapping) *)
Fixpoint emit_all (m : mapping) (ids : list bytes) (toks : list token) : mapping * option (list bytes) :=
  match toks with
  | [] => (m, Some [])
  | (CLexErr, _) :: _ => (m, None)
  | (CComment, _) :: rest => emit_all m ids rest
  | tk :: rest =>
      let '(m', p) := emit_token m ids tk in
      match emit_all m' ids rest with
      | (m'', Some ps) => (m'', Some (p :: ps))
      | (m'', None) => (m'', None)
      end
  end.

Fixpoint join_sp (ps : list bytes) : bytes :=
  match ps with
  | [] => []
  | [p] => p
  | p :: ps' => p ++ [32%N] ++ join_sp ps'
  end.

(* RedactSQLForTraceInto; [parse_ok], [ids], [toks] are the oracle's answers for the SQL text *)
Definition redact_into (m : mapping) (parse_ok : bool) (ids : list bytes) (toks : list token) : mapping * bytes :=
  if parse_ok then
    match emit_all m ids toks with
    | (m', Some ps) => (m', join_sp ps)
    | (m', None) => (m', marker)
    end
  else (m, marker).

(* several statements redacted into one shared Mapping *)
Definition stmt : Type := (bool * list bytes * list token)%type.
Fixpoint redact_seq (m : mapping) (ss : list stmt) : mapping * list bytes :=
  match ss with
  | [] => (m, [])
  | (ok, ids, toks) :: ss' =>
      let '(m', out) := redact_into m ok ids toks in
      let '(m'', outs) := redact_seq m' ss' in (m'', out :: outs)
  end.

(* ---------------- what an emitted piece may be (specification side) ---------------- *)
(* a token of a class whose text is customer data *)
Definition sensitive (ids : list bytes) (tk : token) : bool :=
  match tk with
  | (CId, _) => true
  | (cls, val) => is_value_class cls || ident_like ids tk
  end.

(* `n<k>`, the empty quoted identifier ``, or a dressed v<k>: nothing of the token's own text *)
Definition placeholder_piece (p : bytes) : Prop :=
  (exists k, p = [96%N] ++ ntok k ++ [96%N]) \/ p = [96%N; 96%N] \/
  (exists cls k, is_value_class cls = true /\ p = dress cls (vtok k)).
