(* C33, layer 2 - soundness of the reference matcher w.r.t. the language semantics M. *)
From Coq Require Import List NArith Arith Bool Lia.
Import ListNotations.
From GMS Require Import Sys.C33Matcher.

(* the continuation-passing core: whatever the matcher returns was produced by the continuation after a piece of
   the subject that belongs to the language of r (in its context) *)
Lemma m_sound : forall r pre s k v, m r pre s k = Some v ->
  exists mid post, s = mid ++ post /\ M r pre mid post /\ k (rev mid ++ pre) post = Some v.
Proof.
  induction r as [| c | | neg rs | a IHa b IHb | a IHa b IHb | a IHa | |]; intros pre s k v H; cbn [m] in H.
  - exists [], s. repeat split; [constructor|exact H].
  - destruct s as [|x s']; [discriminate|]. destruct (N.eqb_spec x c) as [->|]; [|discriminate].
    exists [c], s'. repeat split; [constructor|exact H].
  - destruct s as [|x s']; [discriminate|]. destruct (any_ok x) eqn:E; [|discriminate].
    exists [x], s'. repeat split; [constructor; exact E|exact H].
  - destruct s as [|x s']; [discriminate|]. destruct (in_cls neg rs x) eqn:E; [|discriminate].
    exists [x], s'. repeat split; [constructor; exact E|exact H].
  - apply IHa in H. destruct H as (m1 & post1 & -> & Ha & H).
    apply IHb in H. destruct H as (m2 & post & -> & Hb & H).
    exists (m1 ++ m2), post. split; [rewrite app_assoc; reflexivity|]. split; [constructor; assumption|].
    rewrite rev_app_distr, <- app_assoc. exact H.
  - destruct (m a pre s k) eqn:E.
    + injection H as <-. apply IHa in E. destruct E as (mid & post & -> & Ha & E).
      exists mid, post. repeat split; [apply M_altl; exact Ha|exact E].
    + apply IHb in H. destruct H as (mid & post & -> & Hb & H).
      exists mid, post. repeat split; [apply M_altr; exact Hb|exact H].
  - remember (length s) as n eqn:En. clear En. revert pre s v H.
    induction n as [|n IHn]; intros pre s v H.
    + exists [], s. repeat split; [constructor|exact H].
    + match type of H with context [m a pre s ?kk] => destruct (m a pre s kk) eqn:E end.
      * injection H as <-. apply IHa in E. destruct E as (m1 & post1 & -> & Ha & E).
        destruct (length post1 <? length (m1 ++ post1)); [|discriminate].
        apply IHn in E. destruct E as (m2 & post & -> & Hs & E).
        exists (m1 ++ m2), post. split; [rewrite app_assoc; reflexivity|]. split; [apply M_starS; assumption|].
        rewrite rev_app_distr, <- app_assoc. exact E.
      * exists [], s. repeat split; [constructor|exact H].
  - destruct pre; [|discriminate]. exists [], s. repeat split; [constructor|exact H].
  - destruct s; [|discriminate]. exists [], []. repeat split; [constructor|exact H].
Qed.

Lemma match_at_sound : forall r pre s n, match_at r pre s = Some n ->
  exists mid post, s = mid ++ post /\ M r pre mid post /\ length post = n.
Proof.
  intros r pre s n H. unfold match_at in H. apply m_sound in H. destruct H as (mid & post & E & HM & H).
  exists mid, post. repeat split; try assumption. injection H as <-. reflexivity.
Qed.

Lemma find_from_sound : forall r s pre i a b, find_from r pre s i = Some (a, b) ->
  exists skipped mid post, s = skipped ++ mid ++ post /\ a = i + length skipped /\ b = a + length mid /\
    M r (rev skipped ++ pre) mid post /\
    (forall j, j < length skipped -> match_at r (rev (firstn j skipped) ++ pre) (skipn j s) = None).
Proof.
  intros r s. induction s as [|x s IH]; intros pre i a b H; cbn [find_from] in H.
  - destruct (match_at r pre []) eqn:E; [|discriminate]. injection H as <- <-.
    apply match_at_sound in E. destruct E as (mid & post & E0 & HM & Hl).
    assert (length (@nil N) = length (mid ++ post)) as L by (rewrite <- E0; reflexivity).
    rewrite app_length in L. cbn [length] in L.
    exists [], mid, post. cbn [app length rev].
    split; [exact E0|]. split; [lia|]. split; [lia|]. split; [exact HM|]. intros j Hj. lia.
  - destruct (match_at r pre (x :: s)) eqn:E.
    + injection H as <- <-. apply match_at_sound in E. destruct E as (mid & post & E0 & HM & Hl).
      assert (length (x :: s) = length (mid ++ post)) as L by (rewrite <- E0; reflexivity).
      rewrite app_length in L. cbn [length] in L.
      exists [], mid, post. cbn [app length rev].
      split; [exact E0|]. split; [lia|]. split; [destruct n; lia|]. split; [exact HM|]. intros j Hj. lia.
    + apply IH in H. destruct H as (sk & mid & post & -> & -> & -> & HM & Hleft).
      exists (x :: sk), mid, post. cbn [app length rev].
      split; [reflexivity|]. split; [lia|]. split; [lia|]. split.
      * rewrite <- app_assoc. exact HM.
      * intros j Hj. destruct j as [|j]; [exact E|].
        cbn [firstn skipn rev]. rewrite <- app_assoc. apply Hleft. lia.
Qed.

(* matcher_sound: a reported match lies inside the subject and its text belongs to the language of the pattern, in
   the context of what precedes and follows it *)
Theorem matcher_sound : forall r s a b, find r s = Some (a, b) ->
  a <= b /\ b <= length s /\
  M r (rev (firstn a s)) (firstn (b - a) (skipn a s)) (skipn b s).
Proof.
  intros r s a b H. unfold find in H. apply find_from_sound in H.
  destruct H as (sk & mid & post & -> & -> & -> & HM & _). cbn [Nat.add].
  rewrite !app_length. split; [lia|]. split; [lia|].
  rewrite firstn_app, firstn_all, Nat.sub_diag. cbn [firstn]. rewrite app_nil_r.
  rewrite skipn_app, skipn_all, Nat.sub_diag. cbn [skipn app].
  replace (length sk + length mid - length sk) with (length mid) by lia.
  rewrite firstn_app, firstn_all, Nat.sub_diag. cbn [firstn]. rewrite app_nil_r.
  rewrite app_assoc. rewrite skipn_app. rewrite app_length.
  rewrite skipn_all2 by (rewrite app_length; lia).
  replace (length sk + length mid - (length sk + length mid)) with 0 by lia. cbn [skipn app].
  rewrite app_nil_r in HM. exact HM.
Qed.

(* matcher_leftmost (with respect to the matcher itself): no earlier start position is accepted *)
Theorem matcher_leftmost : forall r s a b, find r s = Some (a, b) ->
  forall j, j < a -> match_at r (rev (firstn j s)) (skipn j s) = None.
Proof.
  intros r s a b H j Hj. unfold find in H. apply find_from_sound in H.
  destruct H as (sk & mid & post & -> & -> & -> & _ & Hleft). cbn [Nat.add] in Hj.
  specialize (Hleft j Hj). rewrite app_nil_r in Hleft.
  rewrite firstn_app. replace (j - length sk) with 0 by lia. cbn [firstn]. rewrite app_nil_r. exact Hleft.
Qed.

(* non-vacuity: (a|ab)(c|bcd)? on "xabcdy": leftmost-first picks a, then the optional group fails on b... *)
Example matcher_nonvacuous :
  find (Seq (Alt (Chr 97) (Seq (Chr 97) (Chr 98))) (Opt (Alt (Chr 99) (Seq (Chr 98) (Seq (Chr 99) (Chr 100))))))
       [120; 97; 98; 99; 100; 121]%N = Some (1, 5)
  /\ find (Seq Bol (Plus (Cls false [(97, 99)]%N))) [97; 98; 122]%N = Some (0, 2)
  /\ find (Seq (Star Any) Eol) [97; 98]%N = Some (0, 2)
  /\ find (Chr 122) [97; 98]%N = None.
Proof. vm_compute. repeat split. Qed.
