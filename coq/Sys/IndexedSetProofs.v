(* Proofs about the model of sql/in_mem_table (C47): the indexed representation refines one bag. *)
From Coq Require Import List Bool Arith Permutation Lia.
Import ListNotations.
From GMS Require Import Sys.IndexedSet.

(* ---------- generic list facts ---------- *)
Section ListFacts.
  Context {A : Type}.

  Lemma filter_filter (p q : A -> bool) l : filter p (filter q l) = filter (fun x => q x && p x) l.
  Proof.
    induction l as [|a l IH]; cbn; [reflexivity|].
    destruct (q a); cbn; [destruct (p a); cbn; now rewrite IH | exact IH].
  Qed.

  Lemma filter_comm (p q : A -> bool) l : filter p (filter q l) = filter q (filter p l).
  Proof. rewrite !filter_filter. apply filter_ext. intros x. apply andb_comm. Qed.

  Lemma filter_none (p : A -> bool) l : (forall x, In x l -> p x = false) -> filter p l = [].
  Proof.
    induction l as [|a l IH]; cbn; intros H; [reflexivity|].
    rewrite (H a (or_introl eq_refl)). apply IH. intros x Hx. apply H. now right.
  Qed.

  Lemma filter_all (p : A -> bool) l : (forall x, In x l -> p x = true) -> filter p l = l.
  Proof.
    induction l as [|a l IH]; cbn; intros H; [reflexivity|].
    rewrite (H a (or_introl eq_refl)). f_equal. apply IH. intros x Hx. apply H. now right.
  Qed.

  Lemma filter_nil_existsb (p : A -> bool) l : filter p l = [] <-> existsb p l = false.
  Proof.
    induction l as [|a l IH]; cbn; [tauto|]. destruct (p a); cbn; [split; discriminate | exact IH].
  Qed.

  Lemma partition_perm (p : A -> bool) l : Permutation l (filter p l ++ filter (fun x => negb (p x)) l).
  Proof.
    induction l as [|a l IH]; cbn; [constructor|].
    destruct (p a); cbn; [now constructor | now apply Permutation_cons_app].
  Qed.

  Lemma find_filter (p q : A -> bool) l : (forall x, In x l -> p x = true -> q x = true) -> find p (filter q l) = find p l.
  Proof.
    induction l as [|a l IH]; cbn; intros H; [reflexivity|].
    assert (IH' : find p (filter q l) = find p l) by (apply IH; intros x Hx; apply H; now right).
    destruct (q a) eqn:Q; cbn.
    - now rewrite IH'.
    - destruct (p a) eqn:P; [|exact IH']. rewrite (H a (or_introl eq_refl) P) in Q. discriminate.
  Qed.

  Lemma existsb_filter (p q : A -> bool) l :
    (forall x, In x l -> p x = true -> q x = true) -> existsb p (filter q l) = existsb p l.
  Proof.
    induction l as [|a l IH]; cbn; intros H; [reflexivity|].
    assert (IH' : existsb p (filter q l) = existsb p l) by (apply IH; intros x Hx; apply H; now right).
    destruct (q a) eqn:Q; cbn.
    - now rewrite IH'.
    - destruct (p a) eqn:P; [|exact IH']. rewrite (H a (or_introl eq_refl) P) in Q. discriminate.
  Qed.

  Lemma FOP_filter (Rel : A -> A -> Prop) (p : A -> bool) l : ForallOrdPairs Rel l -> ForallOrdPairs Rel (filter p l).
  Proof.
    induction 1 as [|a l Ha Hl IH]; cbn; [constructor|].
    destruct (p a); [|exact IH]. constructor; [|exact IH].
    rewrite Forall_forall in *. intros x Hx. apply filter_In in Hx. apply Ha. tauto.
  Qed.

  Lemma FOP_snoc (Rel : A -> A -> Prop) l v :
    ForallOrdPairs Rel l -> (forall a, In a l -> Rel a v) -> ForallOrdPairs Rel (l ++ [v]).
  Proof.
    induction 1 as [|a l Ha Hl IH]; cbn; intros H.
    - constructor; constructor.
    - constructor.
      + rewrite Forall_forall in *. intros x Hx. apply in_app_or in Hx. destruct Hx as [Hx|[<-|[]]].
        * now apply Ha.
        * apply H. now left.
      + apply IH. intros x Hx. apply H. now right.
  Qed.
  Lemma nonempty_cons (l : list A) : l <> [] -> exists x l', l = x :: l'.
  Proof. destruct l; [congruence | eauto]. Qed.
  Lemma Forall2_len {B} (P : A -> B -> Prop) l l' : Forall2 P l l' -> length l = length l'.
  Proof. induction 1; cbn; congruence. Qed.
  Lemma take_turn_spec i : forall (ths : list (list A)) u ths',
    take_turn i ths = (u, ths') ->
    length ths' = length ths /\
    match u with
    | Some x => exists pre th post, ths = pre ++ (x :: th) :: post /\ ths' = pre ++ th :: post /\ length pre = i
    | None => ths' = ths
    end.
  Proof.
    induction i as [|i IH]; intros [|[|x th] rest] u ths' H; cbn in H; try (injection H as <- <-; auto).
    - split; [reflexivity|]. exists [], th, rest. auto.
    - destruct (take_turn i rest) as [u0 rest'] eqn:E. injection H as <- <-. destruct (IH _ _ _ E) as [L S].
      split; [cbn; now rewrite L|]. destruct u0 as [x|]; [|now subst].
      destruct S as [pre [th [post [-> [-> Hl]]]]]. exists ([] :: pre), th, post. cbn. auto.
    - destruct (take_turn i rest) as [u0 rest'] eqn:E. injection H as <- <-. destruct (IH _ _ _ E) as [L S].
      split; [cbn; now rewrite L|]. destruct u0 as [y|]; [|now subst].
      destruct S as [pre [th0 [post [-> [-> Hl]]]]]. exists ((x :: th) :: pre), th0, post. cbn. auto.
  Qed.

  (* a merged history only contains units of the sessions, each at most as often as the sessions hold it *)
  Lemma merge_sub sched : forall (ths : list (list A)),
    exists rest, Permutation (merge sched ths ++ concat rest) (concat ths).
  Proof.
    induction sched as [|i sched IH]; intros ths; cbn; [exists ths; reflexivity|].
    destruct (take_turn i ths) as [u ths'] eqn:E. destruct (take_turn_spec i ths u ths' E) as [_ S].
    destruct u as [x|].
    - destruct S as [pre [th [post [-> [-> _]]]]]. destruct (IH (pre ++ th :: post)) as [rest P]. exists rest.
      cbn. rewrite concat_app. cbn. rewrite concat_app in P. cbn in P.
      apply Permutation_cons_app with (a := x) in P. exact P.
    - subst ths'. apply IH.
  Qed.
End ListFacts.

Section Proofs.
  Context {V K KId R : Type}.
  Variable keq : K -> K -> bool.
  Variable kideq : KId -> KId -> bool.
  Variable equals : V -> V -> bool.
  Variable keyfn : KId -> V -> K.
  Variable from_row : R -> V.
  Variable update_with_row : R -> V -> V.
  Variable add_row : R -> V -> V.
  Variable delete_row : R -> V -> V.
  Variable row_view : V -> V.
  Variable rows_view : V -> list V.
  Variable keyers : list KId.

  Hypothesis Hcontract : contract keq kideq equals keyfn keyers.

  Local Notation mmapT := (@mmap V K).
  Local Notation lookup := (@mm_lookup V K keq).
  Local Notation get_many := (@mm_get_many V K keq).
  Local Notation put := (@mm_put V K keq).
  Local Notation remove := (@mm_remove V K keq equals).
  Local Notation hk := (@has_key V K KId keq keyfn).
  Local Notation sremove := (@s_remove V equals).
  Local Notation sremove_all := (@s_remove_all V equals).
  Local Notation isput := (@is_put V K KId keq keyfn keyers).
  Local Notation isremove := (@is_remove V K KId keq equals keyfn keyers).
  Local Notation isremove_all := (@is_remove_all V K KId keq equals keyfn keyers).
  Local Notation isremove_many := (@is_remove_many V K KId keq kideq equals keyfn keyers).
  Local Notation isget_many := (@is_get_many V K KId keq kideq keyers).
  Local Notation sremove_many := (@s_remove_many V K KId keq kideq keyfn keyers).
  Local Notation sget_many := (@s_get_many V K KId keq kideq keyfn keyers).
  Local Notation stepN := (@step V K KId R keq kideq equals keyfn from_row update_with_row add_row delete_row row_view rows_view keyers).
  Local Notation sstepN := (@sstep V K KId R keq kideq equals keyfn from_row update_with_row add_row delete_row row_view rows_view keyers).
  Local Notation execN := (@exec V K KId R keq kideq equals keyfn from_row update_with_row add_row delete_row row_view rows_view keyers).
  Local Notation sexecN := (@sexec V K KId R keq kideq equals keyfn from_row update_with_row add_row delete_row row_view rows_view keyers).
  Local Notation sexec_setN := (@sexec_set V K KId R keq kideq equals keyfn from_row update_with_row add_row delete_row row_view rows_view keyers).
  Local Notation sstep_setN := (@sstep_set V K KId R keq kideq equals keyfn from_row update_with_row add_row delete_row row_view rows_view keyers).
  Local Notation no_dup_putN := (@no_dup_put V K KId R keq kideq equals keyfn from_row update_with_row add_row delete_row row_view rows_view keyers).
  Local Notation initN := (@is_init V K KId keyers).
  Local Notation mchange := (@m_change V K KId R keq kideq equals keyfn from_row keyers).
  Local Notation schange := (@s_change V K KId R keq equals keyfn from_row keyers).

  Let keq_spec : forall a b, keq a b = true <-> a = b := proj1 Hcontract.
  Let kideq_spec : forall a b, kideq a b = true <-> a = b := proj1 (proj2 Hcontract).
  Let e_refl : forall v, equals v v = true := proj1 (proj2 (proj2 Hcontract)).
  Let e_sym : forall v w, equals v w = true -> equals w v = true := proj1 (proj2 (proj2 (proj2 Hcontract))).
  Let e_congr : forall kid v w, In kid keyers -> equals v w = true -> keyfn kid v = keyfn kid w :=
    proj2 (proj2 (proj2 (proj2 (proj2 Hcontract)))).

  Lemma keq_refl a : keq a a = true.
  Proof. now apply keq_spec. Qed.
  Lemma keq_neq a b : keq a b = false <-> a <> b.
  Proof. rewrite <- keq_spec. destruct (keq a b); split; congruence. Qed.

  (* ---------- MultiMap ---------- *)
  Lemma lookup_notin (m : mmapT) k : ~ In k (map fst m) -> lookup m k = None.
  Proof.
    induction m as [|[k0 vs] m IH]; cbn; intros H; [reflexivity|].
    destruct (keq k0 k) eqn:E; [apply keq_spec in E; tauto | apply IH; tauto].
  Qed.

  Lemma lookup_put (m : mmapT) k v k' :
    lookup (put m k v) k' = if keq k k' then Some (get_many m k ++ [v]) else lookup m k'.
  Proof.
    unfold mm_get_many. induction m as [|[k0 vs] m IH]; cbn.
    - destruct (keq k k'); reflexivity.
    - destruct (keq k0 k) eqn:E; cbn.
      + apply keq_spec in E. subst k0. destruct (keq k k'); reflexivity.
      + rewrite IH. destruct (keq k k') eqn:E2; [|reflexivity].
        apply keq_spec in E2. subst k'. now rewrite E.
  Qed.

  Lemma in_keys_put (m : mmapT) k v k' : In k' (map fst (put m k v)) -> k' = k \/ In k' (map fst m).
  Proof.
    induction m as [|[k0 vs] m IH]; cbn.
    - intros [<-|[]]. now left.
    - destruct (keq k0 k); cbn; intros [<-|H]; auto. destruct (IH H); auto.
  Qed.

  Lemma nodup_put (m : mmapT) k v : NoDup (map fst m) -> NoDup (map fst (put m k v)).
  Proof.
    induction m as [|[k0 vs] m IH]; cbn; intros H.
    - constructor; [tauto|constructor].
    - inversion H as [|? ? Hn Hd]; subst. destruct (keq k0 k) eqn:E; cbn; [now constructor|].
      constructor; [|now apply IH]. intros Hin. apply in_keys_put in Hin. destruct Hin as [->|Hin]; [|tauto].
      rewrite keq_refl in E. discriminate.
  Qed.

  Lemma in_keys_remove (m : mmapT) k v k' : In k' (map fst (fst (remove m k v))) -> In k' (map fst m).
  Proof.
    induction m as [|[k0 vs] m IH]; cbn; [tauto|].
    destruct (keq k0 k).
    - cbn. destruct (filter _ vs); cbn; tauto.
    - destruct (remove m k v) as [m'' f] eqn:E. cbn in *. intros [<-|H]; auto.
  Qed.

  Lemma nodup_remove (m : mmapT) k v : NoDup (map fst m) -> NoDup (map fst (fst (remove m k v))).
  Proof.
    induction m as [|[k0 vs] m IH]; cbn; intros H; [constructor|].
    inversion H as [|? ? Hn Hd]; subst. destruct (keq k0 k).
    - cbn. destruct (filter _ vs); cbn; [assumption | now constructor].
    - pose proof (in_keys_remove m k v k0) as Hi. specialize (IH Hd).
      destruct (remove m k v) as [m'' f]. cbn in *. constructor; tauto.
  Qed.

  Lemma lookup_remove (m : mmapT) k v k' : NoDup (map fst m) ->
    lookup (fst (remove m k v)) k' =
    if keq k k' then match filter (fun vp => negb (equals v vp)) (get_many m k) with [] => None | l => Some l end
    else lookup m k'.
  Proof.
    unfold mm_get_many. induction m as [|[k0 vs] m IH]; cbn; intros H.
    - destruct (keq k k'); reflexivity.
    - inversion H as [|? ? Hn Hd]; subst. destruct (keq k0 k) eqn:E; cbn.
      + apply keq_spec in E. subst k0. destruct (keq k k') eqn:E2.
        * apply keq_spec in E2. subst k'.
          destruct (filter _ vs) eqn:F; cbn; [now apply lookup_notin | now rewrite keq_refl].
        * destruct (filter _ vs) eqn:F; cbn; [reflexivity | now rewrite E2].
      + specialize (IH Hd). destruct (remove m k v) as [m'' f]. cbn in *. rewrite IH.
        destruct (keq k k') eqn:E2; [|reflexivity]. apply keq_spec in E2. subst k'. now rewrite E.
  Qed.

  Lemma found_remove (m : mmapT) k v : snd (remove m k v) = existsb (equals v) (get_many m k).
  Proof.
    unfold mm_get_many. induction m as [|[k0 vs] m IH]; cbn; [reflexivity|].
    destruct (keq k0 k); cbn; [reflexivity|]. destruct (remove m k v). exact IH.
  Qed.

  (* ---------- one index represents the bag c ---------- *)
  Definition WF (c : list V) (kid : KId) (m : mmapT) : Prop :=
    NoDup (map fst m) /\
    forall k, lookup m k = match filter (hk kid k) c with [] => None | l => Some l end.

  Lemma get_many_wf c kid m k : WF c kid m -> get_many m k = filter (hk kid k) c.
  Proof. intros [_ H]. unfold mm_get_many. rewrite H. now destruct (filter _ c). Qed.

  Lemma wf_put c kid m v : WF c kid m -> WF (c ++ [v]) kid (put m (keyfn kid v) v).
  Proof.
    intros W. split; [apply nodup_put, W|]. intros k'. rewrite lookup_put, filter_app. cbn.
    unfold has_key at 2. destruct (keq (keyfn kid v) k') eqn:E.
    - apply keq_spec in E. subst k'. rewrite (get_many_wf _ _ _ _ W). now destruct (filter _ c).
    - rewrite app_nil_r. apply W.
  Qed.

  Lemma not_equals_other_key kid v w k' :
    In kid keyers -> keq (keyfn kid v) k' = false -> hk kid k' w = true -> equals v w = false.
  Proof.
    intros Hin E Hw. unfold has_key in Hw. apply keq_spec in Hw. subst k'.
    destruct (equals v w) eqn:Q; [|reflexivity]. rewrite (e_congr kid v w Hin Q), keq_refl in E. discriminate.
  Qed.

  Lemma wf_remove c kid m v : In kid keyers -> WF c kid m -> WF (sremove c v) kid (fst (remove m (keyfn kid v) v)).
  Proof.
    intros Hin W. split; [apply nodup_remove, W|]. intros k'. rewrite lookup_remove by apply W.
    unfold s_remove. destruct (keq (keyfn kid v) k') eqn:E.
    - apply keq_spec in E. subst k'. rewrite (get_many_wf _ _ _ _ W), filter_comm. reflexivity.
    - destruct W as [_ W]. rewrite W, filter_filter.
      assert (Hf : filter (fun x => negb (equals v x) && hk kid k' x) c = filter (hk kid k') c); [|now rewrite Hf].
      apply filter_ext_in. intros w _.
      destruct (hk kid k' w) eqn:Hw; [|now rewrite andb_false_r].
      now rewrite (not_equals_other_key kid v w k' Hin E Hw).
  Qed.

  Lemma found_wf c kid m v : In kid keyers -> WF c kid m ->
    snd (remove m (keyfn kid v) v) = existsb (equals v) c.
  Proof.
    intros Hin W. rewrite found_remove, (get_many_wf _ _ _ _ W). apply existsb_filter.
    intros w _ Q. unfold has_key. apply keq_spec. symmetry. now apply e_congr.
  Qed.

  Lemma wf_entries_perm c kid (m : mmapT) : WF c kid m -> Permutation (mm_entries m) c.
  Proof.
    unfold mm_entries. revert c. induction m as [|[k0 vs] m IH]; intros c [Hnd Hl].
    - destruct c as [|w c]; [constructor|]. specialize (Hl (keyfn kid w)). cbn in Hl.
      unfold has_key at 1 in Hl. rewrite keq_refl in Hl. discriminate.
    - inversion Hnd as [|? ? Hn Hd]; subst. cbn.
      assert (Hvs : vs = filter (hk kid k0) c).
      { specialize (Hl k0). cbn in Hl. rewrite keq_refl in Hl. destruct (filter (hk kid k0) c); congruence. }
      rewrite (partition_perm (hk kid k0) c), <- Hvs. apply Permutation_app_head. apply IH. split; [assumption|].
      intros k. destruct (keq k0 k) eqn:E.
      + apply keq_spec in E. subst k. rewrite lookup_notin by assumption.
        rewrite filter_filter, filter_none; [reflexivity|]. intros x _. now destruct (hk kid k0 x).
      + specialize (Hl k). cbn in Hl. rewrite E in Hl. rewrite Hl, filter_filter.
        assert (Hf : filter (fun x => negb (hk kid k0 x) && hk kid k x) c = filter (hk kid k) c); [|now rewrite Hf].
        apply filter_ext_in. intros w _. destruct (hk kid k w) eqn:Hw; [|now rewrite andb_false_r].
        unfold has_key in *. apply keq_spec in Hw. subst k.
        destruct (keq (keyfn kid w) k0) eqn:E3; [|reflexivity].
        apply keq_spec in E3. rewrite <- E3, keq_refl in E. discriminate.
  Qed.

  (* ---------- the whole IndexedSet represents c ---------- *)
  Definition Inv (st : list mmapT) (c : list V) : Prop := Forall2 (WF c) keyers st.

  Lemma inv_init : Inv initN [].
  Proof.
    unfold Inv, is_init. generalize keyers as ks. induction ks as [|x l IH]; cbn; constructor; [|exact IH].
    split; [constructor|reflexivity].
  Qed.

  Lemma inv_put_aux c v ks st : Forall2 (WF c) ks st ->
    Forall2 (WF (c ++ [v])) ks (is_put_aux keq keyfn ks st v).
  Proof. induction 1; cbn; constructor; [now apply wf_put | assumption]. Qed.

  Lemma inv_put c v st : Inv st c -> Inv (isput st v) (c ++ [v]).
  Proof. apply inv_put_aux. Qed.

  Lemma inv_remove_aux c v ks st : incl ks keyers -> Forall2 (WF c) ks st ->
    Forall2 (WF (sremove c v)) ks (fst (is_remove_aux keq equals keyfn ks st v)) /\
    snd (is_remove_aux keq equals keyfn ks st v) = match ks with [] => false | _ => existsb (equals v) c end.
  Proof.
    intros Hincl H. induction H as [|kid m ks st W H IH]; cbn; [split; [constructor|reflexivity]|].
    assert (Hin : In kid keyers) by (apply Hincl; now left).
    assert (Hincl' : incl ks keyers) by (intros x Hx; apply Hincl; now right).
    specialize (IH Hincl'). destruct IH as [IH1 IH2].
    pose proof (wf_remove c kid m v Hin W) as W'. pose proof (found_wf c kid m v Hin W) as F.
    destruct (remove m (keyfn kid v) v) as [m' f]. destruct (is_remove_aux keq equals keyfn ks st v) as [st'' f'].
    cbn in *. split; [now constructor|]. subst f f'. destruct ks; [apply orb_false_r | apply orb_diag].
  Qed.

  Lemma inv_remove c v st : Inv st c -> Inv (fst (isremove st v)) (sremove c v).
  Proof. intros H. apply inv_remove_aux; [apply incl_refl | exact H]. Qed.

  Lemma found_is_remove c v st : keyers <> [] -> Inv st c -> snd (isremove st v) = existsb (equals v) c.
  Proof.
    intros Hne H. destruct (inv_remove_aux c v keyers st (incl_refl _) H) as [_ F].
    unfold is_remove. rewrite F. destruct keyers; congruence.
  Qed.

  Lemma inv_remove_all vs : forall c st, Inv st c -> Inv (isremove_all st vs) (sremove_all c vs).
  Proof.
    unfold is_remove_all, s_remove_all. induction vs as [|v vs IH]; cbn; intros c st H; [exact H|].
    apply IH. now apply inv_remove.
  Qed.

  Lemma get_many_aux c kid k ks st : Forall2 (WF c) ks st ->
    is_get_many_aux keq kideq ks st kid k = if existsb (fun x => kideq x kid) ks then filter (hk kid k) c else [].
  Proof.
    induction 1 as [|x m ks st W H IH]; cbn; [reflexivity|].
    destruct (kideq x kid) eqn:E; cbn; [|exact IH]. apply kideq_spec in E. subst x. now apply get_many_wf.
  Qed.

  Lemma is_get_many_inv c st kid k : Inv st c -> isget_many st kid k = sget_many c kid k.
  Proof. intros H. unfold is_get_many, s_get_many. now apply get_many_aux. Qed.

  (* removing every element of the bucket [key kid = k] removes exactly the elements with that key *)
  Lemma sremove_all_forallb vs : forall c,
    sremove_all c vs = filter (fun w => forallb (fun v => negb (equals v w)) vs) c.
  Proof.
    unfold s_remove_all. induction vs as [|v vs IH]; cbn; intros c.
    - symmetry. now apply filter_all.
    - rewrite IH. unfold s_remove. now rewrite filter_filter.
  Qed.

  Lemma sremove_all_bucket c kid k : In kid keyers ->
    sremove_all c (filter (hk kid k) c) = filter (fun w => negb (hk kid k w)) c.
  Proof.
    intros Hin. rewrite sremove_all_forallb. apply filter_ext_in. intros w Hw.
    destruct (hk kid k w) eqn:E; cbn.
    - apply not_true_is_false. intros Hf. rewrite forallb_forall in Hf.
      specialize (Hf w). rewrite e_refl in Hf. cbn in Hf.
      assert (In w (filter (hk kid k) c)) by (apply filter_In; tauto). specialize (Hf H). discriminate.
    - apply forallb_forall. intros v Hv. apply filter_In in Hv. destruct Hv as [_ Hv].
      destruct (equals v w) eqn:Q; [|reflexivity]. unfold has_key in *.
      rewrite (e_congr kid v w Hin Q) in Hv. congruence.
  Qed.

  Lemma Forall2_combine_seq (P : KId -> mmapT -> Prop) l st : Forall2 P l st ->
    forall off i x, In (i, x) (combine (seq off (length l)) l) -> off <= i /\ P x (nth (i - off) st []).
  Proof.
    induction 1 as [|x0 m0 l st HP H IH]; cbn; intros off i x Hin; [tauto|].
    destruct Hin as [E|Hin].
    - injection E as <- <-. rewrite Nat.sub_diag. auto.
    - destruct (IH (S off) i x Hin) as [Hle HPx]. split; [lia|].
      replace (i - off) with (S (i - S off)) by lia. exact HPx.
  Qed.

  Lemma existsb_combine_seq (f : KId -> bool) l : forall off,
    existsb (fun ix : nat * KId => f (snd ix)) (combine (seq off (length l)) l) = existsb f l.
  Proof. induction l as [|x l IH]; cbn; intros off; [reflexivity|]. now rewrite IH. Qed.

  Lemma inv_remove_many c st kid k : Inv st c -> Inv (isremove_many st kid k) (sremove_many c kid k).
  Proof.
    intros H. unfold is_remove_many, s_remove_many. rewrite <- (existsb_combine_seq (fun x => kideq x kid) keyers 0).
    assert (Hix : forall i x, In (i, x) (combine (seq 0 (length keyers)) keyers) ->
              In x keyers /\ forall s c', Inv s c' -> WF c' x (nth i s [])).
    { intros i x Hin. split; [eapply in_combine_r; exact Hin|]. intros s c' Hs.
      destruct (Forall2_combine_seq _ _ _ Hs 0 i x Hin) as [_ HP]. now rewrite Nat.sub_0_r in HP. }
    revert Hix. generalize (combine (seq 0 (length keyers)) keyers). intros ixs. revert st c H.
    induction ixs as [|[i x] ixs IH]; cbn; intros st c H Hix; [exact H|].
    assert (Hix' : forall i x, In (i, x) ixs -> In x keyers /\ forall s c', Inv s c' -> WF c' x (nth i s [])).
    { intros i' x' Hin. apply Hix. now right. }
    destruct (kideq x kid) eqn:E; cbn.
    - apply kideq_spec in E. subst x. destruct (Hix i kid (or_introl eq_refl)) as [Hin HW].
      rewrite (get_many_wf _ _ _ _ (HW st c H)).
      pose proof (inv_remove_all (filter (hk kid k) c) c st H) as H1.
      rewrite (sremove_all_bucket c kid k Hin) in H1. specialize (IH _ _ H1 Hix').
      destruct (existsb _ ixs); [|exact IH].
      rewrite filter_filter in IH.
      assert (Hf : filter (fun x => negb (hk kid k x) && negb (hk kid k x)) c = filter (fun w => negb (hk kid k w)) c)
        by (apply filter_ext; intros a; apply andb_diag).
      rewrite Hf in IH. exact IH.
    - now apply IH.
  Qed.

  Lemma inv_clear c st : Inv st c -> Inv (is_clear st) [].
  Proof.
    unfold Inv. generalize keyers as ks. intros ks. induction 1; cbn; [constructor|].
    constructor; [|assumption]. split; [constructor|reflexivity].
  Qed.

  Lemma visit_perm c st : keyers <> [] -> Inv st c -> Permutation (is_visit st) c.
  Proof.
    unfold Inv. generalize keyers as ks. intros ks Hne H. destruct H as [|kid m ks st W H]; [congruence|]. cbn.
    eapply wf_entries_perm; exact W.
  Qed.

  Lemma every_index_perm c st m : Inv st c -> In m st -> Permutation (mm_entries m) c.
  Proof.
    unfold Inv. generalize keyers as ks. intros ks. induction 1 as [|kid m0 ks st W H IH]; cbn; [tauto|].
    intros [<-|Hin]; [eapply wf_entries_perm; exact W | now apply IH].
  Qed.

  Lemma inv_head c st : keyers <> [] -> Inv st c ->
    exists k0 m st', first_keyer keyers = Some k0 /\ In k0 keyers /\ st = m :: st' /\ WF c k0 m /\
                     existsb (fun x => kideq x k0) keyers = true.
  Proof.
    unfold Inv, first_keyer. generalize keyers as ks. intros ks Hne H. destruct H as [|kid m ks st W H]; [congruence|].
    exists kid, m, st. cbn. rewrite (proj2 (kideq_spec kid kid) eq_refl). auto.
  Qed.

  Lemma m_change_refines f st c r : keyers <> [] -> Inv st c ->
    Inv (fst (mchange f st r)) (fst (schange f c r)) /\ snd (mchange f st r) = snd (schange f c r).
  Proof.
    intros Hne H. destruct (inv_head c st Hne H) as [k0 [m0 [st0 [Hk0 [Hin0 [Est [W0 Hex]]]]]]].
    unfold m_change, s_change. rewrite Hk0. rewrite (is_get_many_inv c st k0 _ H). unfold s_get_many. rewrite Hex.
    destruct (filter (hk k0 (keyfn k0 (from_row r))) c) as [|e1 [|e2 es]]; cbn.
    - split; [exact H | reflexivity].
    - split; [apply inv_put; now apply inv_remove | reflexivity].
    - split; [exact H | reflexivity].
  Qed.

  (* ---------- one step ---------- *)
  Lemma step_refines st c o : keyers <> [] -> Inv st c ->
    Inv (fst (stepN st o)) (fst (sstepN c o)) /\ obs_equiv (snd (stepN st o)) (snd (sstepN c o)).
  Proof.
    intros Hne H. destruct (inv_head c st Hne H) as [k0 [m0 [st0 [Hk0 [Hin0 [Est [W0 Hex]]]]]]].
    destruct o; cbn.
    - split; [now apply inv_put | constructor].
    - split; [exact H|]. unfold is_get. rewrite Hk0, Est.
      unfold mm_get. rewrite (get_many_wf _ _ _ _ W0), find_filter; [constructor|].
      intros w _ Q. unfold has_key. apply keq_spec. symmetry. now apply e_congr.
    - split; [exact H|]. rewrite (is_get_many_inv c st kid k H). constructor.
    - pose proof (inv_remove c v st H) as H1. pose proof (found_is_remove c v st Hne H) as F.
      destruct (isremove st v) as [st' f]. cbn in *. subst f. split; [exact H1 | constructor].
    - split; [now apply inv_remove_many | constructor].
    - split; [exact H|]. unfold is_count. rewrite (Permutation_length (visit_perm c st Hne H)). constructor.
    - split; [eapply inv_clear; exact H | constructor].
    - split; [exact H|]. constructor. now apply visit_perm.
    - rewrite Hk0. rewrite (is_get_many_inv c st k0 _ H). unfold s_get_many. rewrite Hex.
      destruct (filter (hk k0 (keyfn k0 (from_row r))) c) eqn:F.
      + apply filter_nil_existsb in F. rewrite F. cbn. split; [now apply inv_put | constructor].
      + assert (F' : existsb (hk k0 (keyfn k0 (from_row r))) c = true).
        { destruct (existsb _ c) eqn:X; [reflexivity|]. apply filter_nil_existsb in X. congruence. }
        rewrite F'. cbn. split; [exact H | constructor].
    - rewrite Hk0. cbn.
      pose proof (inv_remove_many c st k0 (keyfn k0 (from_row r)) H) as H1.
      unfold s_remove_many in H1. rewrite Hex in H1. split; [exact H1 | constructor].
    - rewrite Hk0. rewrite (is_get_many_inv c st k0 _ H). unfold s_get_many. rewrite Hex.
      set (e := from_row old).
      pose proof (inv_remove_all (filter (hk k0 (keyfn k0 e)) c) c st H) as Hall.
      rewrite (sremove_all_bucket c k0 (keyfn k0 e) Hin0) in Hall.
      destruct (filter (hk k0 (keyfn k0 e)) c) as [|e1 [|e2 es]] eqn:F; cbn.
      + split; [now apply inv_put | constructor].
      + split; [apply inv_put; now apply inv_remove | constructor].
      + split; [now apply inv_put | constructor].
    - rewrite Hk0. destruct (m_change_refines add_row st c r Hne H) as [I E].
      destruct (mchange add_row st r) as [st' e]. destruct (schange add_row c r) as [c' e']. cbn in *. subst e'.
      split; [exact I | constructor].
    - rewrite Hk0. destruct (m_change_refines delete_row st c r Hne H) as [I E].
      destruct (mchange delete_row st r) as [st' e]. destruct (schange delete_row c r) as [c' e']. cbn in *. subst e'.
      split; [exact I | constructor].
    - rewrite Hk0. destruct (m_change_refines delete_row st c old Hne H) as [I E].
      destruct (mchange delete_row st old) as [st1 e1]. destruct (schange delete_row c old) as [c1 e1']. cbn in *. subst e1'.
      destruct e1; cbn; [split; [exact I | constructor]|].
      destruct (m_change_refines add_row st1 c1 new Hne I) as [I2 E2].
      destruct (mchange add_row st1 new) as [st2 e2]. destruct (schange add_row c1 new) as [c2 e2']. cbn in *. subst e2'.
      split; [exact I2 | constructor].
    - split; [eapply inv_clear; exact H|]. unfold is_count. rewrite (Permutation_length (visit_perm c st Hne H)). constructor.
    - split; [exact H|]. constructor. apply Permutation_map. now apply visit_perm.
    - split; [exact H|]. constructor. apply Permutation_flat_map. now apply visit_perm.
  Qed.

  Lemma exec_refines ops : keyers <> [] -> forall st c, Inv st c ->
    Inv (fst (execN st ops)) (fst (sexecN c ops)) /\ Forall2 (@obs_equiv V) (snd (execN st ops)) (snd (sexecN c ops)).
  Proof.
    intros Hne. induction ops as [|o ops IH]; cbn; intros st c H; [split; [exact H|constructor]|].
    destruct (step_refines st c o Hne H) as [H1 H2].
    destruct (stepN st o) as [st' ob]. destruct (sstepN c o) as [c' ob']. cbn in *.
    destruct (IH st' c' H1) as [H3 H4].
    destruct (execN st' ops) as [st'' obs']. destruct (sexecN c' ops) as [c'' obs'']. cbn in *.
    split; [exact H3 | now constructor].
  Qed.

  (* ---------- theorems over all operation sequences ---------- *)
  Theorem refinement ops : keyers <> [] ->
    Forall2 (@obs_equiv V) (snd (execN initN ops)) (snd (sexecN [] ops)).
  Proof. intros Hne. apply exec_refines; [exact Hne | apply inv_init]. Qed.

  Theorem get_many_exact ops kid k : keyers <> [] ->
    isget_many (fst (execN initN ops)) kid k =
    if existsb (fun x => kideq x kid) keyers then filter (hk kid k) (fst (sexecN [] ops)) else [].
  Proof. intros Hne. apply is_get_many_inv. apply exec_refines; [exact Hne | apply inv_init]. Qed.

  Theorem indexes_agree ops m : keyers <> [] ->
    In m (fst (execN initN ops)) -> Permutation (mm_entries m) (fst (sexecN [] ops)).
  Proof. intros Hne. apply every_index_perm. apply exec_refines; [exact Hne | apply inv_init]. Qed.

  Theorem index_count ops : keyers <> [] ->
    length (fst (execN initN ops)) = length keyers /\
    is_count (fst (execN initN ops)) = length (fst (sexecN [] ops)).
  Proof.
    intros Hne. destruct (exec_refines ops Hne initN [] inv_init) as [H _]. split.
    - symmetry. eapply Forall2_len. exact H.
    - unfold is_count. apply Permutation_length. now apply visit_perm.
  Qed.

  Lemma exec_app a : forall st b, fst (execN st (a ++ b)) = fst (execN (fst (execN st a)) b).
  Proof.
    induction a as [|o a IH]; cbn; intros st b; [reflexivity|].
    destruct (stepN st o) as [st' ob]. specialize (IH st' b).
    destruct (execN st' (a ++ b)). destruct (execN st' a). cbn in *. exact IH.
  Qed.
  Lemma sexec_app a : forall c b, fst (sexecN c (a ++ b)) = fst (sexecN (fst (sexecN c a)) b).
  Proof.
    induction a as [|o a IH]; cbn; intros c b; [reflexivity|].
    destruct (sstepN c o) as [c' ob]. specialize (IH c' b).
    destruct (sexecN c' (a ++ b)). destruct (sexecN c' a). cbn in *. exact IH.
  Qed.

  (* Put of an element that is already there (even the very same one) is counted again: a bag, not a set *)
  Theorem put_duplicate_counts_twice ops v : keyers <> [] ->
    is_count (fst (execN initN (ops ++ [OpPut v; OpPut v]))) = is_count (fst (execN initN ops)) + 2.
  Proof.
    intros Hne. rewrite (proj2 (index_count _ Hne)), (proj2 (index_count ops Hne)), sexec_app. cbn.
    rewrite !app_length. cbn. lia.
  Qed.

  (* when no Put adds an Equals-duplicate the bag specification IS the set specification *)
  Theorem set_semantics ops : forall c, no_dup_putN c ops -> sexec_setN c ops = sexecN c ops.
  Proof.
    induction ops as [|o ops IH]; cbn; intros c H12; [reflexivity|]. destruct H12 as [H1 H2].
    assert (E : sstep_setN c o = sstepN c o) by (destruct o; try reflexivity; cbn; now rewrite H1).
    rewrite E. destruct (sstepN c o) as [c' ob]. cbn in *. now rewrite (IH c' H2).
  Qed.

  Lemma uniq_snoc c v : uniq equals c -> existsb (equals v) c = false -> uniq equals (c ++ [v]).
  Proof.
    intros U E. apply FOP_snoc; [exact U|]. intros a Ha. destruct (equals a v) eqn:Q; [|reflexivity].
    apply e_sym in Q. assert (existsb (equals v) c = true) by (apply existsb_exists; eauto). congruence.
  Qed.

  Lemma existsb_equals_key c k0 e : In k0 keyers ->
    existsb (hk k0 (keyfn k0 e)) c = false -> existsb (equals e) c = false.
  Proof.
    intros Hin E. destruct (existsb (equals e) c) eqn:X; [|reflexivity].
    apply existsb_exists in X. destruct X as [w [Hw Q]].
    assert (existsb (hk k0 (keyfn k0 e)) c = true); [|congruence].
    apply existsb_exists. exists w. split; [exact Hw|]. unfold has_key. apply keq_spec. symmetry. now apply e_congr.
  Qed.

  (* ... and then no two stored elements are Equals (every op except the editor's Update) *)
  Theorem uniq_preserved ops : forall c, forallb (@no_update V K KId R) ops = true ->
    uniq equals c -> no_dup_putN c ops -> uniq equals (fst (sexecN c ops)).
  Proof.
    induction ops as [|o ops IH]; cbn; intros c Hops U H12; [exact U|]. destruct H12 as [H1 H2].
    apply andb_prop in Hops. destruct Hops as [Ho Hops].
    assert (U' : uniq equals (fst (sstepN c o))).
    { destruct o; cbn in *; try exact U; try discriminate.
      - now apply uniq_snoc.
      - now apply FOP_filter.
      - unfold s_remove_many. destruct (existsb _ keyers); [now apply FOP_filter | exact U].
      - constructor.
      - destruct (first_keyer keyers) as [k0|] eqn:Ek; [|exact U].
        assert (Hin : In k0 keyers).
        { unfold first_keyer in Ek. revert Ek. generalize keyers as ks. intros [|x ks]; cbn; [discriminate|].
          intros E; injection E as ->. now left. }
        destruct (existsb _ c) eqn:X; cbn; [exact U|]. apply uniq_snoc; [exact U|].
        now apply (existsb_equals_key c k0).
      - destruct (first_keyer keyers) as [k0|]; [|exact U]. cbn. now apply FOP_filter.
      - constructor. }
    destruct (sstepN c o) as [c' ob]. cbn in *. specialize (IH c' Hops U' H2).
    destruct (sexecN c' ops). exact IH.
  Qed.

  (* the locking wrappers: whatever the interleaving of whole operations (OperationLockingTableEditor) or of whole
     statements (StatementLockingTableEditor) of any number of sessions, the history refines the bag *)
  Theorem locked_ops_any_interleaving (sessions : list (list (@op V K KId R))) sched : keyers <> [] ->
    Forall2 (@obs_equiv V) (snd (execN initN (merge sched sessions))) (snd (sexecN [] (merge sched sessions))).
  Proof. intros Hne. now apply refinement. Qed.

  Theorem locked_statements_any_interleaving (sessions : list (list (list (@op V K KId R)))) sched : keyers <> [] ->
    Forall2 (@obs_equiv V) (snd (execN initN (concat (merge sched sessions))))
            (snd (sexecN [] (concat (merge sched sessions)))).
  Proof. intros Hne. now apply refinement. Qed.

  (* Insert/Delete keep the first keyer a primary key (as long as nobody Puts directly and no Update runs) *)
  Theorem pk_uniq_preserved ops : forall c, forallb (@pk_safe_op V K KId R) ops = true ->
    pk_uniq keq keyfn keyers c -> pk_uniq keq keyfn keyers (fst (sexecN c ops)).
  Proof.
    unfold pk_uniq. destruct (first_keyer keyers) as [k0|] eqn:Ek; [|trivial].
    induction ops as [|o ops IH]; cbn; intros c Hops U; [exact U|].
    apply andb_prop in Hops. destruct Hops as [Ho Hops].
    assert (U' : ForallOrdPairs (fun a b => keq (keyfn k0 a) (keyfn k0 b) = false) (fst (sstepN c o))).
    { destruct o; cbn in *; try exact U; try discriminate.
      - now apply FOP_filter.
      - unfold s_remove_many. destruct (existsb _ keyers); [now apply FOP_filter | exact U].
      - constructor.
      - rewrite Ek. destruct (existsb _ c) eqn:X; cbn; [exact U|].
        apply FOP_snoc; [exact U|]. intros a Ha. destruct (keq (keyfn k0 a) (keyfn k0 (from_row r))) eqn:Q; [|reflexivity].
        assert (existsb (hk k0 (keyfn k0 (from_row r))) c = true); [|congruence].
        apply existsb_exists. exists a. split; [exact Ha | exact Q].
      - rewrite Ek. cbn. now apply FOP_filter.
      - constructor. }
    destruct (sstepN c o) as [c' ob]. cbn in *. specialize (IH c' Hops U').
    destruct (sexecN c' ops). exact IH.
  Qed.
End Proofs.

(* ---------- the concrete instance: the contract is satisfiable, and what Update can do ---------- *)
From Coq Require Import NArith.

Lemma val4_eqb_spec x y : val4_eqb x y = true <-> x = y.
Proof.
  destruct x as [[[a b] c] d], y as [[[a' b'] c'] d']. cbn. rewrite !andb_true_iff, !N.eqb_eq.
  split; [intros [[[-> ->] ->] ->]; reflexivity | intros E; injection E as -> -> -> ->; auto].
Qed.

Lemma mask_subset_congr em km v w :
  N.land km em = km -> mask_equals em v w = true -> mask_key km v = mask_key km w.
Proof.
  intros Hs Q. unfold mask_equals in Q. apply val4_eqb_spec in Q.
  destruct v as [[[a b] c] d], w as [[[a' b'] c'] d']. cbn in *.
  assert (Hb : forall i, N.testbit km i = true -> N.testbit em i = true).
  { intros i Hi. rewrite <- Hs, N.land_spec in Hi. now apply andb_prop in Hi. }
  injection Q as Qa Qb Qc Qd.
  repeat match goal with
         | |- context [N.testbit km ?i] =>
             let E := fresh "E" in destruct (N.testbit km i) eqn:E; [rewrite (Hb i E) in *|]
         end; congruence.
Qed.

(* Equals compares the fields selected by [em]; every keyer reads a subset of those fields *)
Lemma mask_contract em keyers :
  forallb (fun km => N.eqb (N.land km em) km) keyers = true ->
  contract val4_eqb N.eqb (mask_equals em) mask_key keyers.
Proof.
  intros H. unfold contract. repeat split.
  - apply val4_eqb_spec. - apply val4_eqb_spec.
  - apply N.eqb_eq. - apply N.eqb_eq.
  - intros v. unfold mask_equals. now apply val4_eqb_spec.
  - intros v w Q. unfold mask_equals in *. apply val4_eqb_spec in Q. apply val4_eqb_spec. congruence.
  - intros u v w Q1 Q2. unfold mask_equals in *. apply val4_eqb_spec in Q1, Q2. apply val4_eqb_spec. congruence.
  - intros km v w Hin Q. rewrite forallb_forall in H. apply (mask_subset_congr em); [|exact Q].
    apply N.eqb_eq. now apply H.
Qed.

Example contract_nonvacuous :
  contract val4_eqb N.eqb (mask_equals 3) mask_key [1; 2]%N /\
  snd (exec4 3 [1; 2]%N [OpPut (1, 1, 0, 7); OpPut (1, 2, 0, 8); OpPut (1, 1, 0, 9); OpGetMany 1 (1, 0, 0, 0);
                         OpRemove (1, 1, 5, 5); OpCount; OpGet (1, 2, 9, 9)]%N)
  = [ONone; ONone; ONone; OList [(1, 1, 0, 7); (1, 2, 0, 8); (1, 1, 0, 9)]; ORem (Some (1, 1, 5, 5)); OCount 1;
     OVal (Some (1, 2, 0, 8))]%N.
Proof. split; [apply mask_contract; reflexivity | vm_compute; reflexivity]. Qed.

(* The editor's Update does not check the primary key of the new row: after Insert a; Insert b; Update a -> b
   the first keyer has two entries under one key (Insert alone would have refused). *)
Example update_can_duplicate_primary_key :
  exists ops : list op4,
    forallb (@editor_op val4 val4 N row3) ops = true /\
    contract val4_eqb N.eqb (mask_equals 7) mask_key [1; 2]%N /\
    is_get_many val4_eqb N.eqb [1; 2]%N (fst (exec4 7 [1; 2]%N ops)) 1%N (2, 0, 0, 0)%N
    = [(2, 2, 2, 0); (2, 1, 1, 0)]%N.
Proof.
  exists [OpInsert (1, 1, 1); OpInsert (2, 2, 2); OpUpdate (1, 1, 1) (2, 1, 1)]%N.
  split; [reflexivity|]. split; [apply mask_contract; reflexivity | vm_compute; reflexivity].
Qed.

(* MultiUpdate is not atomic: when MultiDelete(old) succeeds and MultiInsert(new) finds no entry, the error is
   returned and the deletion stays *)
Example multi_update_partial_effect :
  exec4 3 [1; 2]%N [OpPut (1, 1, 3, 7); OpMUpdate (1, 9, 1) (2, 9, 1); OpMRows; OpMInsert (1, 9, 1); OpMRows; OpTruncate; OpCount]%N
  = ([[]; []],
     [ONone; OErr true; OBag [(1, 1, 2, 0)]; OErr false; OBag [(1, 1, 1, 0); (1, 1, 2, 0)]; OCount 1; OCount 0])%N.
Proof. vm_compute. reflexivity. Qed.
