(* C44 -- data types shared by the generated registry (gen/C44Vars.v), the model (Sys/C44SysVars.v) and the case
   files written by the driver.  No logic here. *)
From Coq Require Import String ZArith List Bool.
Import ListNotations.

(* sql.MysqlSVScopeType of the registry entry (sql/core.go) *)
Inductive scope : Type := ScGlobal | ScSession | ScBoth | ScPersist | ScPersistOnly | ScResetPersist | ScOther.

(* dynamic Go type of an integer value: the system types' Convert switches on it *)
Inductive ikind : Type :=
| KInt | KInt8 | KInt16 | KInt32 | KInt64 | KUint | KUint8 | KUint16 | KUint32 | KUint64.

(* Go values that reach Type.Convert / are stored in the variable maps / come back from SELECT @@x, @u.
   GF n d : a finite float64 whose exact value is the rational n/d (d a power of two, n/d in lowest terms);
   GD n d : an *apd.Decimal with exact value n/d (lowest terms);  GOpq : anything else, printed. *)
Inductive gval : Type :=
| GNil
| GBool (b : bool)
| GI (k : ikind) (z : Z)
| GF (n : Z) (d : positive)
| GD (n : Z) (d : positive)
| GS (s : string)
| GOpq (s : string).

(* the type constructors used by the registry (sql/types/system_*.go) with their parameters *)
Inductive vtype : Type :=
| TBool
| TInt (lo hi : Z) (neg1 : bool)
| TUint (lo hi : Z)
| TDouble (lo hi : Z)                    (* bounds are integral at the pin; a non-integral bound is emitted as TOther *)
| TEnum (vals : list string)
| TSet (coll : string) (vals : list string)
| TString
| TOther (s : string).                   (* a non-system type (types.Uint32, types.Text) *)

Record sysvar : Type := mkVar {
  v_name : string;          (* key of the map literal (lower case) *)
  v_field_name : string;    (* the Name field *)
  v_scope : scope;
  v_dynamic : bool;
  v_type : vtype;
  v_default : gval;         (* GOpq text when the default is computed at start-up (host name, uuid, ...) *)
  v_notify : bool;          (* NotifyChanged is set *)
  v_valuefn : bool          (* ValueFunction is set *)
}.
