(* C34 -- identities of the functions modelled in Sys/C34More.v. *)
From Coq Require Import List NArith ZArith Bool Lia Arith.
Import ListNotations.
From GMS Require Import Sys.C34Funcs Sys.C34FuncsProofs Sys.C34InverseProofs Sys.C34More.
Open Scope Z_scope.

(* ------------------------------------------------------------------ prefixes *)
Lemma is_prefix_split p : forall s, is_prefix N.eqb p s = true -> s = p ++ drop (len p) s.
Proof.
  induction p as [|x p IH]; intros s H; [reflexivity|].
  destruct s as [|y s]; [discriminate|]. cbn [is_prefix] in H. apply andb_prop in H. destruct H as [H1 H2].
  apply N.eqb_eq in H1. subst y. rewrite len_cons. unfold drop. replace (Z.to_nat (1 + len p)) with (S (Z.to_nat (len p))) by (pose proof (len_nonneg p); lia).
  cbn [skipn app]. f_equal. apply IH. exact H2.
Qed.
Lemma is_prefix_refl p s : is_prefix N.eqb p (p ++ s) = true.
Proof. induction p as [|x p IH]; [reflexivity|]. cbn [app is_prefix]. now rewrite N.eqb_refl, IH. Qed.

(* ------------------------------------------------------------------ LTRIM / RTRIM / TRIM *)
Lemma ltrim_rtrim_commute s : ltrim_sp (rtrim_sp s) = rtrim_sp (ltrim_sp s).
Proof.
  induction s as [|c r IH]; [reflexivity|]. cbn [rtrim_sp ltrim_sp].
  destruct (c =? 32)%N eqn:E.
  - rewrite <- IH. cbn [andb]. destruct (rtrim_sp r) eqn:Er; [reflexivity|].
    cbn [ltrim_sp]. rewrite E. reflexivity.
  - cbn [andb ltrim_sp rtrim_sp]. rewrite E. cbn [andb]. reflexivity.
Qed.

Lemma ltrim_idem s : ltrim_sp (ltrim_sp s) = ltrim_sp s.
Proof. induction s as [|c r IH]; [reflexivity|]. cbn [ltrim_sp]. destruct (c =? 32)%N eqn:E; [exact IH|]. cbn [ltrim_sp]. now rewrite E. Qed.

Lemma strip_lead_space fuel : forall s, (length s <= fuel)%nat -> strip_lead fuel [32%N] s = ltrim_sp s.
Proof.
  induction fuel as [|k IH]; intros s Hl.
  - destruct s; [reflexivity|cbn in Hl; lia].
  - destruct s as [|c r]; [reflexivity|]. cbn [strip_lead is_prefix ltrim_sp]. rewrite N.eqb_sym.
    destruct (c =? 32)%N eqn:E; cbn [andb]; [|reflexivity].
    change (drop (len [32%N]) (c :: r)) with r. apply IH. cbn in Hl. lia.
Qed.

Lemma ltrim_snoc l c : ltrim_sp (l ++ [c]) =
  match ltrim_sp l with [] => if (c =? 32)%N then [] else [c] | t => t ++ [c] end.
Proof.
  induction l as [|x l IH]; [cbn; destruct (c =? 32)%N; reflexivity|].
  cbn [app ltrim_sp]. destruct (x =? 32)%N; [exact IH|reflexivity].
Qed.
Lemma rev_ltrim_rev s : rev (ltrim_sp (rev s)) = rtrim_sp s.
Proof.
  induction s as [|c r IH]; [reflexivity|]. cbn [rev rtrim_sp]. rewrite ltrim_snoc. rewrite <- IH.
  destruct (ltrim_sp (rev r)) as [|y t] eqn:E.
  - cbn [rev]. destruct (c =? 32)%N; reflexivity.
  - rewrite rev_app_distr. cbn [rev app]. rewrite andb_comm.
    destruct (rev t ++ [y]) eqn:E2; [destruct (rev t); discriminate|]. cbn [andb]. reflexivity.
Qed.

(* TRIM(s) = TRIM(BOTH ' ' FROM s) = RTRIM(LTRIM(s)) = LTRIM(RTRIM(s)) *)
Theorem trim_is_ltrim_rtrim s :
  trim_core 0 [32%N] s = rtrim_sp (ltrim_sp s) /\ trim_core 0 [32%N] s = ltrim_sp (rtrim_sp s) /\
  trim_core 1 [32%N] s = ltrim_sp s /\ trim_core 2 [32%N] s = rtrim_sp s.
Proof.
  unfold trim_core. cbn [Z.eqb Pos.eqb orb]. change (rev [32%N]) with [32%N].
  repeat rewrite strip_lead_space by (try rewrite rev_length; lia).
  rewrite !rev_ltrim_rev. repeat split. symmetry. apply ltrim_rtrim_commute.
Qed.

(* the result of a LEADING trim does not start with the pattern, and the pattern occurrences removed are a prefix *)
Lemma strip_lead_spec fuel : forall pat s, pat <> [] -> (length s <= fuel)%nat ->
  exists k, s = repeat_list pat k ++ strip_lead fuel pat s /\ is_prefix N.eqb pat (strip_lead fuel pat s) = false.
Proof.
  induction fuel as [|f IH]; intros pat s Hp Hl.
  - destruct s; [|cbn in Hl; lia]. exists 0%nat. split; [reflexivity|]. destruct pat; [congruence|reflexivity].
  - cbn [strip_lead]. destruct (is_prefix N.eqb pat s) eqn:E.
    + pose proof (is_prefix_split pat s E) as Hs.
      assert (Hlp : 0 < len pat). { destruct pat; [congruence|]. rewrite len_cons. pose proof (len_nonneg pat). lia. }
      assert (Hd : (length (drop (len pat) s) <= f)%nat).
      { unfold drop. rewrite skipn_length. unfold len in *. lia. }
      destruct (IH pat (drop (len pat) s) Hp Hd) as (k & E1 & E2). exists (S k). split; [|exact E2].
      cbn [repeat_list]. rewrite <- app_assoc. rewrite <- E1. exact Hs.
    + exists 0%nat. split; [reflexivity|exact E].
Qed.

Theorem trim_leading_spec pat s : pat <> [] ->
  exists k, s = repeat_list pat k ++ trim_core 1 pat s /\ is_prefix N.eqb pat (trim_core 1 pat s) = false.
Proof.
  intros Hp. unfold trim_core. destruct pat as [|x p]; [congruence|]. cbn [Z.eqb Pos.eqb orb].
  apply strip_lead_spec; [discriminate|lia].
Qed.

Theorem trim_null_propagation dir (pat s : option (list N)) :
  trim dir pat s = Null <-> pat = None \/ s = None.
Proof. destruct pat, s; cbn; split; intros H; try tauto; try discriminate; destruct H; discriminate. Qed.

(* ------------------------------------------------------------------ REPLACE *)
Lemma replace_same fuel : forall a s, a <> [] -> replace_fuel fuel a a s = s.
Proof.
  induction fuel as [|k IH]; intros a s Ha; [reflexivity|]. cbn [replace_fuel].
  destruct (is_prefix N.eqb a s) eqn:E.
  - rewrite IH by exact Ha. symmetry. apply is_prefix_split. exact E.
  - destruct s; [reflexivity|]. now rewrite IH.
Qed.

(* REPLACE(s, a, a) = s and REPLACE(s, '', b) = s *)
Theorem replace_identity s a b : replace_core s a a = s /\ replace_core s [] b = s.
Proof. split; [|reflexivity]. unfold replace_core. destruct a; [reflexivity|]. apply replace_same. discriminate. Qed.

(* LENGTH(REPLACE(s,a,b)) = LENGTH(s) + occurrences * (LENGTH(b) - LENGTH(a)) *)
Lemma replace_length fuel : forall a b s, a <> [] -> (length s < fuel)%nat ->
  len (replace_fuel fuel a b s) = len s + count_fuel fuel a s * (len b - len a).
Proof.
  induction fuel as [|k IH]; intros a b s Ha Hl; [lia|]. cbn [replace_fuel count_fuel].
  assert (Hlp : 0 < len a). { destruct a; [congruence|]. rewrite len_cons. pose proof (len_nonneg a). lia. }
  destruct (is_prefix N.eqb a s) eqn:E.
  - pose proof (is_prefix_split a s E) as Hs.
    assert (Hls : len s = len a + len (drop (len a) s)) by (rewrite Hs at 1; apply len_app).
    rewrite len_app, IH; [lia|exact Ha|]. unfold drop. rewrite skipn_length. unfold len in *. lia.
  - destruct s as [|c r]; [rewrite len_nil; lia|]. rewrite !len_cons. rewrite IH; [lia|exact Ha|cbn in Hl; lia].
Qed.
Theorem replace_length_law s a b : a <> [] ->
  len (replace_core s a b) = len s + count_fuel (S (length s)) a s * (len b - len a).
Proof. intros Ha. unfold replace_core. destruct a; [congruence|]. apply replace_length; [discriminate|lia]. Qed.

Theorem replace_null_propagation (s a b : option (list N)) :
  replace s a b = Null <-> s = None \/ a = None \/ b = None.
Proof. destruct s, a, b; cbn; split; intros H; try tauto; try discriminate; intuition discriminate. Qed.

(* ------------------------------------------------------------------ UPPER / LOWER *)
Definition in_alphabet (c : N) : Prop := (c < 128 \/ (192 <= c <= 255 /\ c <> 223) \/ c = 376 \/ 256 < c /\ c <> 376 /\ (c < 65 \/ 1000 < c))%N.

Lemma lower2_idem_all : forallb (fun c => (lower2 (lower2 c) =? lower2 c)%N && (lower2 (upper2 c) =? lower2 c)%N)
                                (map N.of_nat (seq 0 400)) = true.
Proof. vm_compute. reflexivity. Qed.

(* LOWER(LOWER(s)) = LOWER(s) and LOWER(UPPER(s)) = LOWER(s) on code points below 400 (ASCII, Latin-1, and the
   images of the case maps); both keep CHAR_LENGTH *)
Theorem lower_upper_laws (s : list N) : Forall (fun c => (c < 400)%N) s ->
  map lower2 (map lower2 s) = map lower2 s /\ map lower2 (map upper2 s) = map lower2 s /\
  len (map lower2 s) = len s /\ len (map upper2 s) = len s.
Proof.
  intros H. repeat split; try (unfold len; now rewrite map_length).
  - induction H as [|c r Hc _ IH]; [reflexivity|]. cbn [map]. f_equal; [|exact IH].
    pose proof lower2_idem_all as E. rewrite forallb_forall in E. specialize (E c).
    assert (Hin : In c (map N.of_nat (seq 0 400))).
    { apply in_map_iff. exists (N.to_nat c). split; [apply N2Nat.id|]. apply in_seq. lia. }
    specialize (E Hin). apply andb_prop in E. destruct E as [E _]. apply N.eqb_eq in E. exact E.
  - induction H as [|c r Hc _ IH]; [reflexivity|]. cbn [map]. f_equal; [|exact IH].
    pose proof lower2_idem_all as E. rewrite forallb_forall in E. specialize (E c).
    assert (Hin : In c (map N.of_nat (seq 0 400))).
    { apply in_map_iff. exists (N.to_nat c). split; [apply N2Nat.id|]. apply in_seq. lia. }
    specialize (E Hin). apply andb_prop in E. destruct E as [_ E]. apply N.eqb_eq in E. exact E.
Qed.

(* ------------------------------------------------------------------ HEX / BIN / OCT of numbers *)
(* CONV(HEX(n), 16, 10) = n, CONV(BIN(n), 2, 10) = n for 0 <= n < 2^63 (and any base for the unsigned forms) *)
Theorem hex_bin_of_nonneg_number n : 0 <= n < 2 ^ 63 ->
  conv (Some (hex_num n)) (Some 16) (Some 10) = Val (fmt_uint 10 n) /\
  conv (Some (bin_num n)) (Some 2) (Some 10) = Val (fmt_uint 10 n).
Proof.
  intros H. unfold hex_num, bin_num. replace (n <? 0) with false by (symmetry; apply Z.ltb_ge; lia).
  split; apply conv_correct; lia.
Qed.
(* negative numbers: HEX is the 64-bit two's complement, BIN is not *)
Theorem hex_of_negative_number n : - 2 ^ 63 <= n < 0 ->
  conv (Some (hex_num n)) (Some 16) (Some 10) = Val (fmt_uint 10 (n + 2 ^ 64)).
Proof.
  intros H. unfold hex_num. replace (n <? 0) with true by (symmetry; apply Z.ltb_lt; lia). apply conv_correct; lia.
Qed.
Lemma bin_negative_unpadded : len (bin_num (-256)) = 57 /\ len (fmt_uint 2 (-256 + 2 ^ 64)) = 64.
Proof. split; vm_compute; reflexivity. Qed.

(* ------------------------------------------------------------------ ABS / SIGN / MOD *)
Theorem abs_sign_laws n : - 2 ^ 63 < n < 2 ^ 63 -> 0 <= abs_int n /\ sign_num n * abs_int n = n /\ abs_int n = Z.abs n.
Proof.
  intros H. unfold abs_int, sign_num. rewrite wrap64_id by (unfold in64; lia).
  split; [lia|]. split; [|lia]. destruct (Z.sgn_spec n) as [[? E]|[[? E]|[? E]]]; rewrite E; lia.
Qed.
(* SIGN of a DECIMAL is the sign of the value rounded to an integer *)
Lemma sign_small_fraction : sign_dec 471 3 = 0 /\ sign_dec (-283) 3 = 0 /\ sign_dec 5 1 = 1.
Proof. repeat split. Qed.
Lemma abs_min_int64 : abs_int (- 2 ^ 63) = - 2 ^ 63.
Proof. reflexivity. Qed.

Theorem mod_law a b : b <> 0 ->
  exists r, mod_int a b = Some r /\ a = b * Z.quot a b + r /\ Z.abs r < Z.abs b /\ (r = 0 \/ Z.sgn r = Z.sgn a).
Proof.
  intros Hb. unfold mod_int. replace (b =? 0) with false by (symmetry; apply Z.eqb_neq; exact Hb).
  exists (Z.rem a b). split; [reflexivity|]. split; [apply Z.quot_rem; exact Hb|]. split; [apply Z.rem_bound_abs; exact Hb|].
  destruct (Z.eq_dec (Z.rem a b) 0) as [E|E]; [left; exact E|right; apply Z.rem_sign_nz; assumption].
Qed.
Lemma mod_zero a : mod_int a 0 = None.
Proof. reflexivity. Qed.

(* ------------------------------------------------------------------ ASCII / CHAR *)
Theorem ascii_of_char n : 0 <= n < 256 ->
  char_fn [Some n] = [Z.to_N n] /\ (match char_fn [Some n] with b :: _ => Z.of_N b | [] => 0 end) = n.
Proof.
  intros H. assert (E : forallb (fun n => bytes_eq (char_fn [Some n]) [Z.to_N n]) (map Z.of_nat (seq 0 256)) = true)
    by (vm_compute; reflexivity).
  rewrite forallb_forall in E. specialize (E n).
  assert (Hin : In n (map Z.of_nat (seq 0 256))).
  { apply in_map_iff. exists (Z.to_nat n). split; [lia|]. apply in_seq. lia. }
  specialize (E Hin). destruct (char_fn [Some n]) as [|b [|x l]]; cbn in E.
  - discriminate.
  - rewrite andb_true_r in E. apply N.eqb_eq in E. subst b. split; [reflexivity|]. lia.
  - rewrite andb_false_r in E. discriminate.
Qed.
Lemma char_skips_null a b : char_fn [a; None; b] = char_fn [a; b].
Proof. unfold char_fn. cbn [flat_map app]. reflexivity. Qed.

(* ------------------------------------------------------------------ STRCMP *)
Theorem strcmp_antisym a : forall b, strcmp_core a b = - strcmp_core b a.
Proof.
  induction a as [|x a IH]; intros [|y b]; cbn [strcmp_core]; try reflexivity.
  destruct (x <? y)%N eqn:E1; destruct (y <? x)%N eqn:E2; try reflexivity.
  - apply N.ltb_lt in E1, E2. lia.
  - apply IH.
Qed.
Theorem strcmp_refl a : strcmp_core a a = 0.
Proof. induction a as [|x a IH]; [reflexivity|]. cbn [strcmp_core]. rewrite N.ltb_irrefl. exact IH. Qed.
Theorem strcmp_zero_iff a : forall b, strcmp_core a b = 0 <-> a = b.
Proof.
  induction a as [|x a IH]; intros [|y b]; cbn [strcmp_core]; split; intros H; try reflexivity; try discriminate; try lia.
  - destruct (x <? y)%N eqn:E1; [lia|]. destruct (y <? x)%N eqn:E2; [lia|].
    apply N.ltb_ge in E1, E2. assert (x = y) by lia. subst. f_equal. apply IH. exact H.
  - injection H as -> ->. rewrite N.ltb_irrefl. apply IH. reflexivity.
Qed.

(* ------------------------------------------------------------------ FIELD / ELT *)
Lemma field_from_spec key : forall vals i, 1 <= i ->
  let r := field_from key vals i in
  r = 0 \/ (i <= r < i + len vals /\ exists v, nth (Z.to_nat (r - i)) vals None = Some v /\ fold_eq key v = true).
Proof.
  induction vals as [|[v|] vals IH]; intros i Hi; cbn [field_from]; [left; reflexivity| |].
  - destruct (fold_eq key v) eqn:E.
    + right. rewrite len_cons. pose proof (len_nonneg vals). split; [lia|]. exists v. rewrite Z.sub_diag. split; [reflexivity|exact E].
    + destruct (IH (i + 1) ltac:(lia)) as [H|[H (w & Hw & Ew)]]; [left; exact H|right].
      rewrite len_cons. split; [lia|]. exists w. split; [|exact Ew].
      replace (Z.to_nat (field_from key vals (i + 1) - i)) with (S (Z.to_nat (field_from key vals (i + 1) - (i + 1)))) by lia.
      exact Hw.
  - destruct (IH (i + 1) ltac:(lia)) as [H|[H (w & Hw & Ew)]]; [left; exact H|right].
    rewrite len_cons. split; [lia|]. exists w. split; [|exact Ew].
    replace (Z.to_nat (field_from key vals (i + 1) - i)) with (S (Z.to_nat (field_from key vals (i + 1) - (i + 1)))) by lia.
    exact Hw.
Qed.

(* ELT(FIELD(x, l), l) is an element of l that equals x up to case, whenever FIELD finds one *)
Theorem elt_field key vals : 0 < field_fn (Some key) vals ->
  exists v, elt_fn (Some (field_fn (Some key) vals)) vals = Some v /\ fold_eq key v = true.
Proof.
  unfold field_fn. intros H. destruct (field_from_spec key vals 1 ltac:(lia)) as [E|[Hr (v & Hv & Ev)]]; [lia|].
  exists v. split; [|exact Ev]. unfold elt_fn.
  replace (field_from key vals 1 <=? 0) with false by (symmetry; apply Z.leb_gt; lia).
  replace (len vals <? field_from key vals 1) with false by (symmetry; apply Z.ltb_ge; lia). exact Hv.
Qed.
Lemma field_null vals : field_fn None vals = 0.
Proof. reflexivity. Qed.

(* ------------------------------------------------------------------ CONCAT_WS *)
Theorem concat_ws_two sep a b :
  concat_ws (Some sep) [Some a; Some b] = Val (a ++ sep ++ b) /\
  concat_ws (Some sep) [Some a; None; Some b] = Val (a ++ sep ++ b) /\
  concat_ws None [Some a; Some b] = Null.
Proof. repeat split. Qed.

(* ------------------------------------------------------------------ SUBSTRING_INDEX: join o split *)
Lemma join_cons d p r : r <> [] -> join d (p :: r) = p ++ d ++ join d r.
Proof. destruct r; [congruence|reflexivity]. Qed.

Lemma split_fuel_join fuel : forall d s cur, d <> [] -> (length s < fuel)%nat ->
  join d (split_fuel fuel d s cur) = rev cur ++ s /\ split_fuel fuel d s cur <> [].
Proof.
  induction fuel as [|k IH]; intros d s cur Hd Hl; [lia|]. cbn [split_fuel].
  assert (Hlp : 0 < len d). { destruct d; [congruence|]. rewrite len_cons. pose proof (len_nonneg d). lia. }
  destruct (is_prefix N.eqb d s) eqn:E.
  - pose proof (is_prefix_split d s E) as Hs.
    assert (Hd2 : (length (drop (len d) s) < k)%nat).
    { pose proof (f_equal (@length N) Hs) as Hlen. rewrite app_length in Hlen. unfold len in *. lia. }
    destruct (IH d (drop (len d) s) [] Hd Hd2) as [J N]. split; [|discriminate].
    rewrite join_cons by exact N. rewrite J. cbn [rev app]. rewrite <- Hs. reflexivity.
  - destruct s as [|c r].
    + split; [cbn; now rewrite app_nil_r|discriminate].
    + destruct (IH d r (c :: cur) Hd ltac:(cbn in Hl; lia)) as [J N]. split; [|exact N].
      rewrite J. cbn [rev]. rewrite <- app_assoc. reflexivity.
Qed.

Theorem join_split d s : d <> [] -> join d (split d s) = s.
Proof. intros Hd. unfold split. destruct (split_fuel_join (S (length s)) d s [] Hd ltac:(lia)) as [J _]. exact J. Qed.

Lemma join_app d a b : a <> [] -> b <> [] -> join d (a ++ b) = join d a ++ d ++ join d b.
Proof.
  induction a as [|p a IH]; intros Ha Hb; [congruence|]. destruct a as [|q a].
  - cbn [app]. rewrite join_cons by exact Hb. reflexivity.
  - change ((p :: q :: a) ++ b) with (p :: ((q :: a) ++ b)). rewrite join_cons by discriminate.
    rewrite IH by (discriminate || exact Hb). rewrite (join_cons d p (q :: a)) by discriminate.
    rewrite <- !app_assoc. reflexivity.
Qed.

(* the k leftmost fields, the delimiter, and the n-k rightmost fields give the string back *)
Theorem substring_index_halves s d k :
  d <> [] -> 0 < k < len (split d s) -> len (split d s) < 2 ^ 62 ->
  substring_index_core s d k ++ d ++ substring_index_core s d (- (len (split d s) - k)) = s.
Proof.
  intros Hd Hk Hn. unfold substring_index_core. set (parts := split d s) in *. set (n := len parts) in *.
  replace (0 <? k) with true by (symmetry; apply Z.ltb_lt; lia).
  replace (k <? n) with true by (symmetry; apply Z.ltb_lt; lia).
  replace (0 <? - (n - k)) with false by (symmetry; apply Z.ltb_ge; lia).
  replace (- - (n - k)) with (n - k) by lia. rewrite wrap64_id by (unfold in64; lia).
  replace (n - k <? 0) with false by (symmetry; apply Z.ltb_ge; lia).
  replace (n - k <? n) with true by (symmetry; apply Z.ltb_lt; lia).
  replace (n - (n - k)) with k by lia.
  assert (H1 : take k parts <> []).
  { intros E. assert (H : len (take k parts) = k) by (apply len_take; lia). rewrite E, len_nil in H. lia. }
  assert (H2 : drop k parts <> []).
  { intros E. assert (H : len (drop k parts) = n - k) by (apply len_drop; lia). rewrite E, len_nil in H. lia. }
  pose proof (join_app d (take k parts) (drop k parts) H1 H2) as J. rewrite take_drop in J.
  rewrite <- J. unfold parts. apply join_split. exact Hd.
Qed.

Theorem substring_index_all s d k : d <> [] -> len (split d s) <= k -> substring_index_core s d k = s.
Proof.
  intros Hd Hk. unfold substring_index_core. pose proof (len_nonneg (split d s)).
  assert (Hne : split d s <> []). { unfold split. apply (split_fuel_join (S (length s)) d s [] Hd). lia. }
  assert (0 < len (split d s)). { destruct (split d s) as [|p0 ps]; [congruence|]. rewrite len_cons. pose proof (len_nonneg ps). lia. }
  replace (0 <? k) with true by (symmetry; apply Z.ltb_lt; lia).
  replace (k <? len (split d s)) with false by (symmetry; apply Z.ltb_ge; lia).
  rewrite take_all by lia. apply join_split. exact Hd.
Qed.

(* ------------------------------------------------------------------ COMPRESS / UNCOMPRESS under the oracle law *)
Section CompressLaws.
  Variable deflate : list N -> list N.
  Variable read1 : list N -> Z -> list N * bool.
  Hypothesis read1_deflate : forall b, 0 < len b < 32768 -> read1 (deflate b) (len b) = (b, true).

  Lemma le32_val_le32 n : 0 <= n < 2 ^ 32 -> le32_val (le32 n) = n.
  Proof.
    intros H. unfold le32_val, le32, byte_of.
    rewrite !Z2N.id by (apply Z.mod_pos_bound; lia).
    change (2 ^ (8 * 0)) with 1. change (2 ^ (8 * 1)) with 256. change (2 ^ (8 * 2)) with 65536. change (2 ^ (8 * 3)) with 16777216.
    Z.to_euclidean_division_equations. lia.
  Qed.

  (* a zlib stream is never empty (two header bytes and an Adler-32 trailer) *)
  Hypothesis deflate_nonempty : forall b, deflate b <> [].

  (* UNCOMPRESS(COMPRESS(b)) = b and UNCOMPRESSED_LENGTH(COMPRESS(b)) = LENGTH(b), below the 32 KiB window *)
  Theorem uncompress_compress b : len b < 32768 ->
    uncompress read1 (compress deflate b) = Some b /\ uncompressed_length (compress deflate b) = Some (len b).
  Proof.
    intros H. destruct b as [|x b]; [split; reflexivity|]. unfold compress, uncompress, uncompressed_length.
    set (p := x :: b) in *. assert (Hp : 0 < len p) by (unfold p; rewrite len_cons; pose proof (len_nonneg b); lia).
    assert (Hl4 : len (le32 (len p)) = 4) by reflexivity.
    assert (Hd : 0 < len (deflate p)).
    { pose proof (deflate_nonempty p) as Hne. destruct (deflate p) as [|z0 zs]; [congruence|]. rewrite len_cons. pose proof (len_nonneg zs). lia. }
    destruct (le32 (len p) ++ deflate p) as [|y c] eqn:E.
    { apply (f_equal len) in E. rewrite len_app, len_nil in E. lia. }
    rewrite <- E. replace (len (le32 (len p) ++ deflate p) <=? 4) with false by (symmetry; apply Z.leb_gt; rewrite len_app; lia).
    replace (drop 4 (le32 (len p) ++ deflate p)) with (deflate p) by reflexivity.
    replace (take 4 (le32 (len p) ++ deflate p)) with (le32 (len p)) by reflexivity.
    rewrite le32_val_le32 by lia. rewrite read1_deflate by lia. split; reflexivity.
  Qed.
End CompressLaws.
