(* Proofs about the C49 model (Sys/SimilarText.v). *)
From Coq Require Import List NArith Arith Lia Bool.
Import ListNotations.
From GMS Require Import Sys.SimilarText.

Lemma edr_nil_r a : edr a [] = length a.
Proof. destruct a; reflexivity. Qed.

Lemma edr_nil_l b : edr [] b = length b.
Proof. reflexivity. Qed.

Lemma edr_cons x a y b :
  edr (x :: a) (y :: b) =
  Nat.min (edr a (y :: b) + 1) (Nat.min (edr a b + subst_cost x y) (edr (x :: a) b + 1)).
Proof. reflexivity. Qed.

Fixpoint rprefs (rb : str) (tgt : str) : list str :=
  match tgt with
  | [] => []
  | t :: ts => (t :: rb) :: rprefs (t :: rb) ts
  end.

Definition row_of (ra : str) (tgt : str) : list nat :=
  edr ra [] :: map (edr ra) (rprefs [] tgt).

Lemma fill_spec tgt : forall c ra rb,
  fill c tgt (map (edr ra) (rprefs rb tgt)) (edr ra rb) (edr (c :: ra) rb)
  = map (edr (c :: ra)) (rprefs rb tgt).
Proof.
  induction tgt as [|t ts IH]; intros c ra rb; [reflexivity|].
  cbn [rprefs map fill].
  rewrite <- (edr_cons c ra t rb).
  f_equal. apply IH.
Qed.

Lemma next_row_spec c ra tgt :
  next_row c (S (length ra)) (row_of ra tgt) tgt = row_of (c :: ra) tgt.
Proof.
  unfold next_row, row_of.
  rewrite (edr_nil_r (c :: ra)). cbn [length]. f_equal.
  replace (S (length ra)) with (edr (c :: ra) []) by (rewrite edr_nil_r; reflexivity).
  apply fill_spec.
Qed.

Lemma rows_spec tgt : forall src ra,
  rows src (S (length ra)) (row_of ra tgt) tgt = row_of (rev src ++ ra) tgt.
Proof.
  induction src as [|c src IH]; intros ra; [reflexivity|].
  cbn [rows]. rewrite next_row_spec.
  change (S (S (length ra))) with (S (length (c :: ra))).
  rewrite IH. cbn [rev]. rewrite <- app_assoc. reflexivity.
Qed.

Lemma init_row_aux tgt : forall rb,
  map (edr []) (rprefs rb tgt) = seq (S (length rb)) (length tgt).
Proof.
  induction tgt as [|t ts IH]; intros rb; [reflexivity|].
  cbn [rprefs map length seq]. f_equal. apply (IH (t :: rb)).
Qed.

Lemma init_row tgt : seq 0 (S (length tgt)) = row_of [] tgt.
Proof. unfold row_of. rewrite init_row_aux. reflexivity. Qed.

Lemma last_row ra tgt : forall rb,
  last (edr ra rb :: map (edr ra) (rprefs rb tgt)) 0 = edr ra (rev tgt ++ rb).
Proof.
  induction tgt as [|t ts IH]; intros rb; [reflexivity|].
  cbn [rprefs map rev].
  change (last (edr ra rb :: edr ra (t :: rb) :: map (edr ra) (rprefs (t :: rb) ts)) 0)
    with (last (edr ra (t :: rb) :: map (edr ra) (rprefs (t :: rb) ts)) 0).
  rewrite IH. rewrite <- app_assoc. reflexivity.
Qed.

Theorem distance_eq_ed source target : distance source target = ed source target.
Proof.
  unfold distance, ed.
  rewrite init_row.
  change 1 with (S (length (@nil N))).
  rewrite rows_spec. unfold row_of. rewrite last_row.
  rewrite !app_nil_r. reflexivity.
Qed.

(* ---- edit scripts ---- *)
Lemma script_cost a b c c' : script a b c -> c = c' -> script a b c'.
Proof. intros H <-; exact H. Qed.

Lemma edr_del x a b : edr (x :: a) b <= edr a b + 1.
Proof.
  destruct b as [|y b]; [rewrite !edr_nil_r; cbn [length]; lia|].
  rewrite edr_cons. lia.
Qed.

Lemma edr_ins a y b : edr a (y :: b) <= edr a b + 1.
Proof.
  destruct a as [|x a]; [cbn [edr length]; lia|].
  rewrite edr_cons. lia.
Qed.

Lemma edr_keep x a b : edr (x :: a) (x :: b) <= edr a b.
Proof. rewrite edr_cons. unfold subst_cost. rewrite N.eqb_refl. lia. Qed.

Lemma edr_sub x y a b : edr (x :: a) (y :: b) <= edr a b + 2.
Proof. rewrite edr_cons. unfold subst_cost. destruct (N.eqb x y); lia. Qed.

Theorem ed_le_script a b c : script a b c -> ed a b <= c.
Proof.
  unfold ed. induction 1 as [|a b c x _ IH|a b c y _ IH|a b c x _ IH|a b c x y _ _ IH];
    rewrite ?rev_app_distr; cbn [rev app].
  - cbn; lia.
  - pose proof (edr_del x (rev a) (rev b)); lia.
  - pose proof (edr_ins (rev a) y (rev b)); lia.
  - pose proof (edr_keep x (rev a) (rev b)); lia.
  - pose proof (edr_sub x y (rev a) (rev b)); lia.
Qed.

Lemma script_ins_all rb : script [] (rev rb) (length rb).
Proof.
  induction rb as [|y rb IH]; [constructor|].
  cbn [rev length]. eapply script_cost; [apply (s_ins _ _ _ y IH)|lia].
Qed.

Lemma script_del_all ra : script (rev ra) [] (length ra).
Proof.
  induction ra as [|x ra IH]; [constructor|].
  cbn [rev length]. eapply script_cost; [apply (s_del _ _ _ x IH)|lia].
Qed.

Lemma script_edr ra : forall rb, script (rev ra) (rev rb) (edr ra rb).
Proof.
  induction ra as [|x ra IHa]; intros rb.
  - cbn [edr]. apply script_ins_all.
  - induction rb as [|y rb IHb].
    + rewrite edr_nil_r. apply script_del_all.
    + rewrite edr_cons. cbn [rev].
      destruct (Nat.min_spec (edr ra (y :: rb) + 1)
                  (Nat.min (edr ra rb + subst_cost x y) (edr (x :: ra) rb + 1))) as [[_ ->]|[_ ->]].
      * apply (s_del _ _ _ x (IHa (y :: rb))).
      * destruct (Nat.min_spec (edr ra rb + subst_cost x y) (edr (x :: ra) rb + 1)) as [[_ ->]|[_ ->]].
        -- unfold subst_cost. destruct (N.eqb_spec x y) as [->|Hne].
           ++ eapply script_cost; [apply (s_keep _ _ _ y (IHa rb))|lia].
           ++ apply (s_sub _ _ _ x y Hne (IHa rb)).
        -- apply (s_ins _ _ _ y IHb).
Qed.

Theorem script_ed a b : script a b (ed a b).
Proof.
  unfold ed. pose proof (script_edr (rev a) (rev b)) as H.
  rewrite !rev_involutive in H. exact H.
Qed.

(* ---- Find ---- *)
Lemma bucket_get_add m : forall d n d',
  bucket_get (bucket_add m d n) d' =
  if Nat.eqb d d' then bucket_get m d' ++ [n] else bucket_get m d'.
Proof.
  induction m as [|[k l] m IH]; intros d n d'; cbn [bucket_add bucket_get].
  - rewrite Nat.eqb_sym. destruct (Nat.eqb d' d); reflexivity.
  - destruct (Nat.eqb_spec k d) as [->|Hkd]; cbn [bucket_get].
    + destruct (Nat.eqb_spec d d'); reflexivity.
    + destruct (Nat.eqb_spec k d') as [->|Hkd'].
      * destruct (Nat.eqb_spec d d'); [congruence|reflexivity].
      * apply IH.
Qed.

Section Find.
Variable src : str.
Let dist (n : str) := distance n src.

Definition sel (d : nat) (n : str) : bool := (dist n <? distance_skipped) && (dist n =? d).

Definition Inv (seen : list str) (st : option nat * list (nat * list str)) : Prop :=
  (forall d, bucket_get (snd st) d = filter (sel d) seen) /\
  match fst st with
  | None => forall n, In n seen -> distance_skipped <= dist n
  | Some d => d < distance_skipped /\ (exists n, In n seen /\ dist n = d) /\
              forall n, In n seen -> dist n < distance_skipped -> d <= dist n
  end.

Lemma Inv_init : Inv [] (None, []).
Proof. split; [reflexivity|]. cbn. intros n []. Qed.

Lemma Inv_step seen st n : Inv seen st -> Inv (seen ++ [n]) (find_step src st n).
Proof.
  destruct st as [mind m]. intros [Hb Hm]. unfold find_step. fold (dist n).
  destruct (Nat.leb_spec distance_skipped (dist n)) as [Hge|Hlt].
  - split.
    + intros d. rewrite Hb, filter_app. cbn [filter].
      assert (sel d n = false) as ->.
      { unfold sel. destruct (Nat.ltb_spec (dist n) distance_skipped); [lia|reflexivity]. }
      rewrite app_nil_r. reflexivity.
    + cbn [fst] in *. destruct mind as [d|].
      * destruct Hm as (Hd & (n0 & Hin & He) & Hmin). split; [exact Hd|]. split.
        -- exists n0. split; [apply in_or_app; left; exact Hin|exact He].
        -- intros n' Hin' Hlt'. apply in_app_or in Hin'. destruct Hin' as [Hin'|[<-|[]]]; [auto|lia].
      * intros n' Hin'. apply in_app_or in Hin'. destruct Hin' as [Hin'|[<-|[]]]; auto.
  - split.
    + intros d. cbn [snd]. rewrite bucket_get_add, filter_app. cbn [filter].
      assert (sel d n = Nat.eqb (dist n) d) as ->.
      { unfold sel. destruct (Nat.ltb_spec (dist n) distance_skipped); [reflexivity|lia]. }
      cbn [snd] in Hb. rewrite Hb.
      destruct (Nat.eqb (dist n) d); [reflexivity|rewrite app_nil_r; reflexivity].
    + cbn [fst] in *. destruct mind as [d|].
      * destruct Hm as (Hd & (n0 & Hin & He) & Hmin).
        destruct (Nat.ltb_spec (dist n) d) as [Hnd|Hnd]; cbn [fst].
        -- split; [exact Hlt|]. split.
           ++ exists n. split; [apply in_or_app; right; left; reflexivity|reflexivity].
           ++ intros n' Hin' Hlt'. apply in_app_or in Hin'. destruct Hin' as [Hin'|[<-|[]]]; [|lia].
              specialize (Hmin n' Hin' Hlt'). lia.
        -- split; [exact Hd|]. split.
           ++ exists n0. split; [apply in_or_app; left; exact Hin|exact He].
           ++ intros n' Hin' Hlt'. apply in_app_or in Hin'. destruct Hin' as [Hin'|[<-|[]]]; [auto|lia].
      * cbn [fst]. split; [exact Hlt|]. split.
        -- exists n. split; [apply in_or_app; right; left; reflexivity|reflexivity].
        -- intros n' Hin' Hlt'. apply in_app_or in Hin'. destruct Hin' as [Hin'|[<-|[]]]; [|lia].
           specialize (Hm n' Hin'). lia.
Qed.

Lemma Inv_fold names : forall seen st, Inv seen st -> Inv (seen ++ names) (fold_left (find_step src) names st).
Proof.
  induction names as [|n names IH]; intros seen st H; cbn [fold_left].
  - rewrite app_nil_r. exact H.
  - replace (seen ++ n :: names) with ((seen ++ [n]) ++ names) by (rewrite <- app_assoc; reflexivity).
    apply IH, Inv_step, H.
Qed.

End Find.

Lemma find_names_char src names :
  src <> [] ->
  (find_names names src = [] /\ forall n, In n names -> distance_skipped <= distance n src) \/
  (exists d, d < distance_skipped /\ find_names names src = filter (sel src d) names /\
             (exists n, In n names /\ distance n src = d) /\
             forall n, In n names -> distance n src < distance_skipped -> d <= distance n src).
Proof.
  intros Hsrc. unfold find_names.
  pose proof (Inv_fold src names [] (None, []) (Inv_init src)) as H. cbn [app] in H.
  destruct src as [|c s]; [congruence|].
  destruct (fold_left (find_step (c :: s)) names (None, [])) as [mind m].
  destruct H as [Hb Hm]. cbn [fst snd] in *.
  destruct mind as [d|].
  - right. exists d. destruct Hm as (Hd & Hex & Hmin). rewrite Hb. auto.
  - left. split; [reflexivity|exact Hm].
Qed.

(* property-shaped corollaries, stated with the specification distance [ed] *)
Theorem find_names_sound names src n :
  In n (find_names names src) ->
  In n names /\ ed n src < distance_skipped /\
  forall n', In n' names -> ed n src <= ed n' src.
Proof.
  intros Hin.
  destruct src as [|c s] eqn:E; [destruct Hin|]. rewrite <- E in *.
  assert (Hsrc : src <> []) by (rewrite E; discriminate).
  destruct (find_names_char src names Hsrc) as [[H0 _]|(d & Hd & Hf & _ & Hmin)].
  - rewrite H0 in Hin. destruct Hin.
  - rewrite Hf in Hin. apply filter_In in Hin. destruct Hin as [Hn Hsel].
    unfold sel in Hsel. apply andb_prop in Hsel. destruct Hsel as [H1 H2].
    apply Nat.ltb_lt in H1. apply Nat.eqb_eq in H2.
    rewrite <- !distance_eq_ed. split; [exact Hn|]. split; [exact H1|].
    intros n' Hn'. rewrite <- distance_eq_ed.
    destruct (Nat.lt_ge_cases (distance n' src) distance_skipped) as [Hl|Hg].
    + specialize (Hmin n' Hn' Hl). lia.
    + lia.
Qed.

Theorem find_names_all_minimal names src n m :
  In m (find_names names src) -> In n names -> ed n src = ed m src -> In n (find_names names src).
Proof.
  intros Hm Hn He.
  destruct src as [|c s] eqn:E; [destruct Hm|]. rewrite <- E in *.
  assert (Hsrc : src <> []) by (rewrite E; discriminate).
  destruct (find_names_char src names Hsrc) as [[H0 _]|(d & Hd & Hf & _ & Hmin)].
  - rewrite H0 in Hm. destruct Hm.
  - rewrite Hf in *. apply filter_In in Hm. destruct Hm as [_ Hsel].
    apply filter_In. split; [exact Hn|].
    unfold sel in *. rewrite <- !distance_eq_ed in He. rewrite He. exact Hsel.
Qed.

Theorem find_names_none_iff names src :
  src <> [] ->
  (find_names names src = [] <-> forall n, In n names -> distance_skipped <= ed n src).
Proof.
  intros Hsrc. destruct (find_names_char src names Hsrc) as [[H0 Hall]|(d & Hd & Hf & (n0 & Hin0 & He0) & Hmin)].
  - split; [|intros _; exact H0]. intros _ n Hn. rewrite <- distance_eq_ed. auto.
  - split.
    + intros Hnil. exfalso. rewrite Hf in Hnil.
      assert (In n0 (filter (sel src d) names)) as Hc.
      { apply filter_In. split; [exact Hin0|]. unfold sel. rewrite He0.
        apply andb_true_intro. split; [apply Nat.ltb_lt; exact Hd|apply Nat.eqb_refl]. }
      rewrite Hnil in Hc. destruct Hc.
    + intros Hall. specialize (Hall n0 Hin0). rewrite <- distance_eq_ed, He0 in Hall. lia.
Qed.

Theorem find_names_order names src :
  exists d, find_names names src = [] \/ find_names names src = filter (fun n => Nat.eqb (ed n src) d) names.
Proof.
  destruct src as [|c s] eqn:E; [exists 0; left; reflexivity|]. rewrite <- E.
  assert (Hsrc : src <> []) by (rewrite E; discriminate).
  destruct (find_names_char src names Hsrc) as [[H0 _]|(d & Hd & Hf & _ & _)].
  - exists 0. left. exact H0.
  - exists d. right. rewrite Hf. apply filter_ext. intros n. unfold sel.
    rewrite distance_eq_ed.
    destruct (Nat.eqb_spec (ed n src) d) as [->|]; [|apply andb_false_r].
    apply Nat.ltb_lt in Hd. rewrite Hd. reflexivity.
Qed.

Theorem find_empty_iff names src : find names src = [] <-> find_names names src = [].
Proof.
  unfold find. destruct (find_names names src) eqn:E; split; intros H; try reflexivity; try discriminate.
Qed.
