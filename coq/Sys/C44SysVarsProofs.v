(* C44 -- proofs about the model of Sys/C44SysVars.v.  The history theorems hold for every registry [reg]; the
   registry facts at the end are decided by computation on the generated table gen/C44Vars.v. *)
From Coq Require Import String Ascii ZArith NArith List Bool Lia Arith.
Import ListNotations.
From GMS Require Import Sys.C44SysVarsBase gen.C44Vars Sys.C44SysVars.
Open Scope Z_scope.

(* ---------- lists ---------- *)
Lemma upd_nth_length : forall A (f : A -> A) l i, length (upd_nth l i f) = length l.
Proof. intros A f l; induction l as [|a r IH]; intros [|j]; simpl; auto. Qed.

Lemma nth_error_upd_nth_eq : forall A (f : A -> A) l i,
  nth_error (upd_nth l i f) i = option_map f (nth_error l i).
Proof. intros A f l; induction l as [|a r IH]; intros [|j]; simpl; auto. Qed.

Lemma nth_error_upd_nth_neq : forall A (f : A -> A) l i j, i <> j ->
  nth_error (upd_nth l i f) j = nth_error l j.
Proof.
  intros A f l; induction l as [|a r IH]; intros [|i] [|j] H; simpl; auto; try congruence.
Qed.

Lemma nth_error_app_last : forall A (l : list A) a, nth_error (l ++ [a]) (length l) = Some a.
Proof. intros A l a; induction l; simpl; auto. Qed.

Lemma nth_error_app_old : forall A (l : list A) a i, (i < length l)%nat -> nth_error (l ++ [a]) i = nth_error l i.
Proof. intros. apply nth_error_app1; auto. Qed.

(* ---------- wrapping conversions are the identity inside their range ---------- *)
Lemma wrap_s_id : forall z, in_i64 z = true -> wrap_s z = z.
Proof.
  intros z H. unfold in_i64 in H. apply andb_true_iff in H as [H1 H2].
  apply Z.leb_le in H1. apply Z.ltb_lt in H2. unfold wrap_s, two63, two64 in *.
  rewrite Z.mod_small by lia. lia.
Qed.

Lemma wrap_u_id : forall z, in_u64 z = true -> wrap_u z = z.
Proof.
  intros z H. unfold in_u64 in H. apply andb_true_iff in H as [H1 H2].
  apply Z.leb_le in H1. apply Z.ltb_lt in H2. unfold wrap_u, two64 in *.
  apply Z.mod_small. lia.
Qed.

(* ---------- Convert produces a value of the variable's type ---------- *)
Lemma conv_bool_i64_type : forall z v, conv_bool_i64 z = Ok v -> v = GI KInt8 0 \/ v = GI KInt8 1.
Proof.
  intros z v H. unfold conv_bool_i64 in H.
  destruct (z =? 0) eqn:E0; simpl in H.
  - apply Z.eqb_eq in E0. inversion H. subst. auto.
  - destruct (z =? 1) eqn:E1; inversion H. apply Z.eqb_eq in E1. subst. auto.
Qed.

Lemma conv_int_i64_type : forall lo hi n1 z v, conv_int_i64 lo hi n1 z = Ok v ->
  exists z', v = GI KInt64 z' /\ (lo <= z' <= hi \/ (n1 = true /\ z' = -1)).
Proof.
  intros lo hi n1 z v H. unfold conv_int_i64 in H.
  destruct ((lo <=? z) && (z <=? hi)) eqn:E.
  - inversion H. exists z. split; auto. left. apply andb_true_iff in E as [A B].
    apply Z.leb_le in A. apply Z.leb_le in B. lia.
  - destruct (n1 && (z =? -1)) eqn:F; inversion H. exists z. split; auto. right.
    apply andb_true_iff in F as [A B]. apply Z.eqb_eq in B. auto.
Qed.

Lemma conv_uint_u64_type : forall lo hi z v, conv_uint_u64 lo hi z = Ok v ->
  exists z', v = GI KUint64 z' /\ lo <= z' <= hi.
Proof.
  intros lo hi z v H. unfold conv_uint_u64 in H.
  destruct ((lo <=? z) && (z <=? hi)) eqn:E; inversion H.
  exists z. split; auto. apply andb_true_iff in E as [A B]. apply Z.leb_le in A. apply Z.leb_le in B. lia.
Qed.

Lemma conv_double_q_type : forall lo hi n d v, conv_double_q lo hi n d = Ok v ->
  exists n' d', v = GF n' d' /\ lo * Zpos d' <= n' <= hi * Zpos d'.
Proof.
  intros lo hi n d v H. unfold conv_double_q in H.
  destruct ((lo * Zpos d <=? n) && (n <=? hi * Zpos d)) eqn:E; inversion H.
  exists n, d. split; auto. apply andb_true_iff in E as [A B]. apply Z.leb_le in A. apply Z.leb_le in B. lia.
Qed.

Lemma conv_enum_idx_type : forall vals z v, conv_enum_idx vals z = Ok v -> exists s, v = GS s /\ In s vals.
Proof.
  intros vals z v H. unfold conv_enum_idx in H.
  destruct ((0 <=? z) && (z <? Z.of_nat (length vals))); [|discriminate].
  destruct (nth_error vals (Z.to_nat z)) eqn:E; inversion H.
  exists s. split; auto. eapply nth_error_In; eauto.
Qed.

Lemma conv_set_u64_type : forall vals u v, conv_set_u64 vals u = Ok v ->
  exists b, v = GI KUint64 b /\ b <= set_all vals.
Proof.
  intros vals u v H. unfold conv_set_u64 in H.
  destruct (u <=? set_all vals) eqn:E; inversion H. exists u. split; auto. apply Z.leb_le. auto.
Qed.

(* OR-ing member bits stays inside the bit field of all members *)
Lemma lor_le_all : forall n a b, 0 <= a <= 2 ^ Z.of_nat n - 1 -> 0 <= b <= 2 ^ Z.of_nat n - 1 ->
  0 <= Z.lor a b <= 2 ^ Z.of_nat n - 1.
Proof.
  intros n a b Ha Hb. assert (Hn : 0 <= Z.of_nat n) by lia.
  assert (P : 0 < 2 ^ Z.of_nat n) by (apply Z.pow_pos_nonneg; lia).
  split.
  - apply Z.lor_nonneg. lia.
  - assert (L : Z.lor a b < 2 ^ Z.of_nat n).
    { destruct (Z.eq_dec (Z.lor a b) 0) as [E|E]; [lia|].
      assert (Hpos : 0 < Z.lor a b) by (pose proof (proj2 (Z.lor_nonneg a b) (conj (proj1 Ha) (proj1 Hb))); lia).
      destruct n as [|m].
      { simpl in Ha, Hb. assert (a = 0) by lia. assert (b = 0) by lia. subst. simpl in E. contradiction. }
      apply Z.log2_lt_pow2; auto. rewrite Z.log2_lor by lia.
      apply Z.max_lub_lt.
      - destruct (Z.eq_dec a 0) as [->|Na]; [simpl; lia|]. apply Z.log2_lt_pow2; lia.
      - destruct (Z.eq_dec b 0) as [->|Nb]; [simpl; lia|]. apply Z.log2_lt_pow2; lia. }
    lia.
Qed.

Lemma member_index_lt : forall vals l i k, member_index vals l i = Some k -> (k < i + length vals)%nat.
Proof.
  induction vals as [|x r IH]; intros l i k H; simpl in H; [discriminate|].
  destruct (String.eqb (lower (trim_right x)) l).
  - inversion H. subst. simpl. lia.
  - apply IH in H. simpl. lia.
Qed.

Lemma pow2_le_all : forall n k, (k < n)%nat -> 0 <= 2 ^ Z.of_nat k <= 2 ^ Z.of_nat n - 1.
Proof.
  intros n k H. split; [apply Z.pow_nonneg; lia|].
  assert (2 ^ Z.of_nat k < 2 ^ Z.of_nat n) by (apply Z.pow_lt_mono_r; lia). lia.
Qed.

Lemma is_member_bit_le : forall n u, is_member_bit n u = true -> 0 <= u <= 2 ^ Z.of_nat n - 1.
Proof.
  induction n as [|m IH]; intros u H; simpl in H; [discriminate|].
  apply orb_true_iff in H as [H|H].
  - apply Z.eqb_eq in H. subst. apply pow2_le_all. lia.
  - apply IH in H. assert (2 ^ Z.of_nat m <= 2 ^ Z.of_nat (S m)) by (apply Z.pow_le_mono_r; lia). lia.
Qed.

Lemma set_elem_le : forall vals e b, set_elem vals e = Some b -> 0 <= b <= set_all vals.
Proof.
  intros vals e b H. unfold set_elem in H. unfold set_all.
  destruct (member_index vals (lower (trim_right e)) 0) as [i|] eqn:E.
  - inversion H. subst. apply member_index_lt in E. apply pow2_le_all. lia.
  - destruct (parse_uint e) as [u|]; [|discriminate].
    destruct (u =? 0) eqn:Z0.
    + inversion H. subst. split; [lia|]. assert (0 < 2 ^ Z.of_nat (length vals)) by (apply Z.pow_pos_nonneg; lia). lia.
    + destruct (is_member_bit (length vals) u) eqn:M; [|discriminate]. inversion H. subst.
      apply is_member_bit_le. auto.
Qed.

Lemma set_elems_le : forall vals es acc b, 0 <= acc <= set_all vals -> set_elems vals es acc = Some b ->
  0 <= b <= set_all vals.
Proof.
  intros vals es. induction es as [|e r IH]; intros acc b Ha H; simpl in H.
  - inversion H. subst. auto.
  - destruct e as [|c e'].
    + eapply IH; eauto.
    + destruct (set_elem vals (String c e')) as [x|] eqn:E; [|discriminate].
      eapply IH; [|exact H]. apply set_elem_le in E. unfold set_all in *. apply lor_le_all; auto.
Qed.

Lemma conv_bool_type : forall v v', conv_bool v = Ok v' -> has_type TBool v'.
Proof.
  intros v v' H. destruct v as [|b|k z|n d|n d|s|s]; simpl in H; try discriminate; simpl.
  - inversion H. destruct b; auto.
  - eapply conv_bool_i64_type; eauto.
  - destruct (float_i64 n d); [|discriminate]. eapply conv_bool_i64_type; eauto.
  - destruct (float_i64 n d); [|discriminate]. eapply conv_bool_i64_type; eauto.
  - destruct (String.eqb (lower s) "on" || String.eqb (lower s) "true")%bool; [inversion H; auto|].
    destruct (String.eqb (lower s) "off" || String.eqb (lower s) "false")%bool; inversion H; auto.
Qed.

Lemma conv_int_type : forall lo hi n1 v v', conv_int lo hi n1 v = Ok v' -> has_type (TInt lo hi n1) v'.
Proof.
  intros lo hi n1 v v' H. destruct v as [|b|k z|n d|n d|s|s]; simpl in H; try discriminate; simpl.
  - eapply conv_int_i64_type; eauto.
  - destruct (float_i64 n d); [|discriminate]. eapply conv_int_i64_type; eauto.
  - destruct (float_i64 n d); [|discriminate]. eapply conv_int_i64_type; eauto.
  - destruct (parse_int s); [|discriminate]. eapply conv_int_i64_type; eauto.
Qed.

Lemma conv_uint_type : forall lo hi v v', conv_uint lo hi v = Ok v' -> has_type (TUint lo hi) v'.
Proof.
  intros lo hi v v' H. destruct v as [|b|k z|n d|n d|s|s]; simpl in H; try discriminate; simpl.
  - eapply conv_uint_u64_type; eauto.
  - destruct (float_u64 n d); [|discriminate]. eapply conv_uint_u64_type; eauto.
  - eapply conv_uint_u64_type; eauto.
Qed.

Lemma conv_double_type : forall lo hi v v', conv_double lo hi v = Ok v' -> has_type (TDouble lo hi) v'.
Proof.
  intros lo hi v v' H. destruct v as [|b|k z|n d|n d|s|s]; simpl in H; try discriminate; simpl.
  - destruct (Z.abs z <=? two53); [|discriminate]. eapply conv_double_q_type; eauto.
  - eapply conv_double_q_type; eauto.
  - eapply conv_double_q_type; eauto.
Qed.

Lemma conv_enum_type : forall vals v v', conv_enum vals v = Ok v' -> has_type (TEnum vals) v'.
Proof.
  intros vals v v' H. destruct v as [|b|k z|n d|n d|s|s]; simpl in H; try discriminate; simpl.
  - eapply conv_enum_idx_type; eauto.
  - destruct (float_i64 n d); [|discriminate]. eapply conv_enum_idx_type; eauto.
  - destruct (float_i64 n d); [|discriminate]. eapply conv_enum_idx_type; eauto.
  - destruct (enum_index vals (lower s) 0 None) as [i|]; [|discriminate].
    destruct (nth_error vals i) eqn:E; inversion H. exists s0. split; auto. eapply nth_error_In; eauto.
Qed.

Lemma conv_string_type : forall v v', conv_string v = Ok v' -> has_type TString v'.
Proof.
  intros v v' H. destruct v as [|b|k z|n d|n d|s|s]; simpl in H; try discriminate; simpl; inversion H; eauto.
Qed.

Lemma conv_set_type : forall c vals v v', conv_set vals v = Ok v' -> has_type (TSet c vals) v'.
Proof.
  intros c vals v v' H. destruct v as [|b|k z|n d|n d|s|s]; simpl in H; try discriminate; simpl.
  - eapply conv_set_u64_type; eauto.
  - destruct (float_i64 n d); [|discriminate]. eapply conv_set_u64_type; eauto.
  - destruct (float_i64 n d); [|discriminate]. eapply conv_set_u64_type; eauto.
  - destruct (set_elems vals (split_comma s) 0) as [b|] eqn:E; inversion H. exists b. split; auto.
    apply set_elems_le in E; [lia|]. unfold set_all.
    assert (0 < 2 ^ Z.of_nat (length vals)) by (apply Z.pow_pos_nonneg; lia). lia.
Qed.

Lemma conv_u32_type : forall v v', conv_u32 v = Ok v' ->
  v' = GNil \/ exists z, v' = GI KUint32 z /\ 0 <= z < two32.
Proof.
  intros v v' H. destruct v as [|b|k z|n d|n d|s|s]; cbn [conv_u32] in H; try discriminate.
  - inversion H. auto.
  - inversion H. right. exists (if b then 1 else 0). split; [reflexivity|unfold two32; destruct b; lia].
  - right. set (n := if two63 <=? z then two63 - 1 else z) in *.
    destruct (two32 <=? n) eqn:A.
    + inversion H. exists (two32 - 1). split; [reflexivity|unfold two32; lia].
    + destruct (n <? 0) eqn:B; inversion H.
      * exists (n mod two32). split; [reflexivity|apply Z.mod_pos_bound; unfold two32; lia].
      * exists n. split; [reflexivity|apply Z.leb_gt in A; apply Z.ltb_ge in B; lia].
Qed.

Theorem convert_has_type : forall t v v', convert t v = Ok v' -> has_type t v'.
Proof.
  intros t v v' H.
  assert (Hc : conv t v = Ok v').
  { unfold convert in H. destruct v; try exact H. discriminate. }
  clear H. destruct t as [|lo hi n1|lo hi|lo hi|vals|c vals| |o]; simpl in Hc.
  - eapply conv_bool_type; eauto.
  - eapply conv_int_type; eauto.
  - eapply conv_uint_type; eauto.
  - eapply conv_double_type; eauto.
  - eapply conv_enum_type; eauto.
  - eapply conv_set_type; eauto.
  - eapply conv_string_type; eauto.
  - simpl. destruct (String.eqb o "types.Uint32").
    + eapply conv_u32_type; eauto.
    + destruct (String.eqb o "types.Text"); [|discriminate].
      destruct v as [|b|k z|n d|n d|s|s]; simpl in Hc; try discriminate; inversion Hc; eauto.
Qed.

(* ---------- validation is exact on integers that need no wrapping ---------- *)
Definition int_valid (lo hi : Z) (n1 : bool) (z : Z) : bool :=
  ((lo <=? z) && (z <=? hi)) || (n1 && (z =? -1)).

Theorem conv_int_exact : forall lo hi n1 k z, in_i64 z = true ->
  convert (TInt lo hi n1) (GI k z) = if int_valid lo hi n1 z then Ok (GI KInt64 z) else Err.
Proof.
  intros lo hi n1 k z H. simpl. rewrite (wrap_s_id z H). unfold conv_int_i64, int_valid.
  destruct ((lo <=? z) && (z <=? hi)); simpl; auto.
Qed.

(* the signed type rejects every fractional float / decimal, whatever the bounds *)
Theorem conv_int_rejects_fraction : forall lo hi n1 n d, Z.rem n (Zpos d) <> 0 ->
  convert (TInt lo hi n1) (GF n d) = Err /\ convert (TInt lo hi n1) (GD n d) = Err.
Proof.
  intros lo hi n1 n d H. simpl. unfold float_i64, frac_int.
  destruct (Z.rem n (Zpos d) =? 0) eqn:E; [apply Z.eqb_eq in E; contradiction|]. auto.
Qed.

Theorem conv_uint_exact : forall lo hi k z, in_u64 z = true ->
  convert (TUint lo hi) (GI k z) = if (lo <=? z) && (z <=? hi) then Ok (GI KUint64 z) else Err.
Proof. intros lo hi k z H. simpl. rewrite (wrap_u_id z H). reflexivity. Qed.

Theorem conv_bool_exact : forall k z, in_i64 z = true ->
  convert TBool (GI k z) = if (z =? 0) || (z =? 1) then Ok (GI KInt8 z) else Err.
Proof. intros k z H. simpl. rewrite (wrap_s_id z H). reflexivity. Qed.

(* Convert is the identity on values of the type (bounds inside the machine range) *)
Definition bounds_ok (t : vtype) : bool :=
  match t with
  | TInt lo hi _ => in_i64 lo && in_i64 hi
  | TUint lo hi => in_u64 lo && in_u64 hi
  | _ => true
  end.

Lemma in_i64_between : forall lo hi z, in_i64 lo = true -> in_i64 hi = true -> lo <= z <= hi -> in_i64 z = true.
Proof.
  unfold in_i64. intros lo hi z A B C.
  apply andb_true_iff in A as [A1 A2]. apply andb_true_iff in B as [B1 B2].
  apply Z.leb_le in A1. apply Z.ltb_lt in B2. apply andb_true_iff. split; [apply Z.leb_le|apply Z.ltb_lt]; lia.
Qed.

Lemma in_u64_between : forall lo hi z, in_u64 lo = true -> in_u64 hi = true -> lo <= z <= hi -> in_u64 z = true.
Proof.
  unfold in_u64. intros lo hi z A B C.
  apply andb_true_iff in A as [A1 A2]. apply andb_true_iff in B as [B1 B2].
  apply Z.leb_le in A1. apply Z.ltb_lt in B2. apply andb_true_iff. split; [apply Z.leb_le|apply Z.ltb_lt]; lia.
Qed.

Theorem convert_idempotent_num : forall t v,
  match t with TBool | TInt _ _ _ | TUint _ _ | TDouble _ _ | TString => True | _ => False end ->
  bounds_ok t = true -> has_type t v -> convert t v = Ok v.
Proof.
  intros t v Hk Hb Ht. destruct t as [|lo hi n1|lo hi|lo hi|vals|c vals| |o]; try contradiction; simpl in *.
  - destruct Ht as [-> | ->]; reflexivity.
  - destruct Ht as [z [-> Hz]]. apply andb_true_iff in Hb as [B1 B2]. simpl.
    assert (Hi : in_i64 z = true).
    { destruct Hz as [Hz|[_ ->]]; [exact (in_i64_between lo hi z B1 B2 Hz)|reflexivity]. }
    rewrite (wrap_s_id z Hi). unfold conv_int_i64.
    destruct Hz as [Hz|[-> ->]].
    + replace ((lo <=? z) && (z <=? hi))%bool with true; auto.
      symmetry. apply andb_true_iff. split; apply Z.leb_le; lia.
    + destruct ((lo <=? -1) && (-1 <=? hi))%bool; reflexivity.
  - destruct Ht as [z [-> Hz]]. apply andb_true_iff in Hb as [B1 B2]. simpl.
    rewrite (wrap_u_id z (in_u64_between lo hi z B1 B2 Hz)). unfold conv_uint_u64.
    replace ((lo <=? z) && (z <=? hi))%bool with true; auto.
    symmetry. apply andb_true_iff. split; apply Z.leb_le; lia.
  - destruct Ht as [n [d [-> Hz]]]. simpl. unfold conv_double_q.
    replace ((lo * Zpos d <=? n) && (n <=? hi * Zpos d))%bool with true; auto.
    symmetry. apply andb_true_iff. split; apply Z.leb_le; lia.
  - destruct Ht as [s ->]. reflexivity.
Qed.

(* ---------- one step ---------- *)
Section Steps.
Variable reg : list sysvar.

Theorem rejected_no_effect : forall st o st', step reg st o = (st', Rejected) -> st' = st.
Proof.
  intros st o st' H. destruct o as [|s x v|s x v|s u v]; simpl in H.
  - inversion H.
  - destruct (negb (valid_session st s)); [inversion H|].
    destruct (lookup reg x) as [sv|]; [|inversion H; auto].
    destruct (set_value sv true v); inversion H; auto.
  - destruct (negb (valid_session st s)); [inversion H|].
    destruct (lookup reg x) as [sv|]; [|inversion H; auto].
    destruct (set_value sv false v); inversion H; auto.
  - destruct (negb (valid_session st s)); inversion H.
Qed.

Theorem unmodelled_no_effect : forall st o st', step reg st o = (st', Unmodelled) -> st' = st.
Proof.
  intros st o st' H. destruct o as [|s x v|s x v|s u v]; simpl in H.
  - inversion H.
  - destruct (negb (valid_session st s)); [inversion H; auto|].
    destruct (lookup reg x) as [sv|]; [|inversion H].
    destruct (set_value sv true v); inversion H; auto.
  - destruct (negb (valid_session st s)); [inversion H; auto|].
    destruct (lookup reg x) as [sv|]; [|inversion H].
    destruct (set_value sv false v); inversion H; auto.
  - destruct (negb (valid_session st s)); inversion H; auto.
Qed.

Lemma set_value_invalid : forall sv g v, convert (v_type sv) v = Err -> set_value sv g v = Err.
Proof.
  intros sv g v H. unfold set_value. rewrite H.
  destruct (g && scope_eqb (v_scope sv) ScSession); auto.
  destruct (negb g && scope_eqb (v_scope sv) ScGlobal); auto.
  destruct (read_only sv); auto.
Qed.

(* an invalid value is rejected, with either scope keyword, and nothing changes *)
Theorem invalid_rejected : forall st s x v sv,
  valid_session st s = true -> lookup reg x = Some sv -> convert (v_type sv) v = Err ->
  step reg st (SetSession s x v) = (st, Rejected) /\ step reg st (SetGlobal s x v) = (st, Rejected).
Proof.
  intros st s x v sv Hs Hl Hc. simpl. rewrite Hs, Hl. simpl.
  rewrite (set_value_invalid sv false v Hc), (set_value_invalid sv true v Hc). auto.
Qed.

Theorem unknown_rejected : forall st s x v, valid_session st s = true -> lookup reg x = None ->
  step reg st (SetSession s x v) = (st, Rejected) /\ step reg st (SetGlobal s x v) = (st, Rejected).
Proof. intros st s x v Hs Hl. simpl. rewrite Hs, Hl. auto. Qed.

(* scope and dynamic rules *)
Theorem scope_rules : forall st s x v sv,
  valid_session st s = true -> lookup reg x = Some sv ->
  (read_only sv = true ->
     step reg st (SetSession s x v) = (st, Rejected) /\ step reg st (SetGlobal s x v) = (st, Rejected)) /\
  (v_scope sv = ScGlobal -> step reg st (SetSession s x v) = (st, Rejected)) /\
  (v_scope sv = ScSession -> step reg st (SetGlobal s x v) = (st, Rejected)).
Proof.
  intros st s x v sv Hs Hl. simpl. rewrite Hs, Hl. simpl. unfold set_value.
  split; [|split].
  - intros Hr. rewrite Hr. simpl.
    destruct (scope_eqb (v_scope sv) ScGlobal); destruct (scope_eqb (v_scope sv) ScSession); auto.
  - intros Hsc. rewrite Hsc. reflexivity.
  - intros Hsc. rewrite Hsc. reflexivity.
Qed.

Lemma set_value_ok : forall sv g v v', set_value sv g v = Ok v' ->
  convert (v_type sv) v = Ok v' /\ read_only sv = false /\
  (g = true -> v_scope sv <> ScSession) /\ (g = false -> v_scope sv <> ScGlobal).
Proof.
  intros sv g v v' H. unfold set_value in H.
  destruct (g && scope_eqb (v_scope sv) ScSession) eqn:A; [discriminate|].
  destruct (negb g && scope_eqb (v_scope sv) ScGlobal) eqn:B; [discriminate|].
  destruct (read_only sv) eqn:C; [discriminate|].
  destruct (convert (v_type sv) v) eqn:D; try discriminate.
  destruct (v_notify sv); [discriminate|]. inversion H; subst.
  split; [reflexivity|]. split; [reflexivity|]. split.
  - intros Hg E. rewrite Hg, E in A. discriminate.
  - intros Hg E. rewrite Hg, E in B. discriminate.
Qed.

Lemma upd_same : forall m k v, upd m k v k = v.
Proof. intros. unfold upd. rewrite String.eqb_refl. reflexivity. Qed.

Lemma upd_other : forall m k v k', k <> k' -> upd m k v k' = m k'.
Proof. intros m k v k' H. unfold upd. destruct (String.eqb k k') eqn:E; auto. apply String.eqb_eq in E. contradiction. Qed.

Lemma valid_nth : forall st s, valid_session st s = true -> exists ss, nth_error (sessions st) s = Some ss.
Proof.
  intros st s H. unfold valid_session in H. apply Nat.ltb_lt in H.
  destruct (nth_error (sessions st) s) eqn:E; eauto. apply nth_error_None in E. lia.
Qed.

(* SET SESSION: what the session reads back is the converted value, of the variable's type *)
Theorem set_session_roundtrip : forall st s x v st',
  step reg st (SetSession s x v) = (st', Accepted) ->
  exists sv v', lookup reg x = Some sv /\ convert (v_type sv) v = Ok v' /\ has_type (v_type sv) v' /\
                read_bare st' s x = RVal v' /\ read_session reg st' s x = RVal v'.
Proof.
  intros st s x v st' H. simpl in H.
  destruct (valid_session st s) eqn:Hs; simpl in H; [|inversion H].
  destruct (lookup reg x) as [sv|] eqn:Hl; [|inversion H].
  destruct (set_value sv false v) as [v'| |] eqn:Hv; inversion H; subst; clear H.
  apply set_value_ok in Hv as [Hc [_ [_ Hg]]].
  exists sv, v'. repeat split; auto.
  - eapply convert_has_type; eauto.
  - unfold read_bare. simpl. rewrite nth_error_upd_nth_eq.
    destruct (valid_nth st s Hs) as [ss ->]. simpl. rewrite upd_same. reflexivity.
  - unfold read_session. rewrite Hl.
    destruct (scope_eqb (v_scope sv) ScGlobal) eqn:E.
    + destruct (v_scope sv); try discriminate. exfalso. apply Hg; auto.
    + unfold read_bare. simpl. rewrite nth_error_upd_nth_eq.
      destruct (valid_nth st s Hs) as [ss ->]. simpl. rewrite upd_same. reflexivity.
Qed.

(* SET SESSION in s: the globals, every other session, and every other variable of s are untouched *)
Theorem set_session_isolation : forall st s x v st' o,
  step reg st (SetSession s x v) = (st', o) ->
  (forall y, get_global st' y = get_global st y) /\
  (forall s', s' <> s -> nth_error (sessions st') s' = nth_error (sessions st) s') /\
  (forall y, key y <> key x -> read_bare st' s y = read_bare st s y) /\
  (forall u, get_user st' s u = get_user st s u).
Proof.
  intros st s x v st' o H. simpl in H.
  destruct (valid_session st s) eqn:Hs; simpl in H; [|inversion H; subst; auto].
  destruct (lookup reg x) as [sv|]; [|inversion H; subst; auto].
  destruct (set_value sv false v) as [v'| |]; inversion H; subst; clear H; auto.
  repeat split; auto.
  - intros s' Hn. simpl. apply nth_error_upd_nth_neq. auto.
  - intros y Hy. unfold read_bare. simpl. rewrite nth_error_upd_nth_eq.
    destruct (nth_error (sessions st) s); simpl; auto. rewrite upd_other; auto.
  - intros u. unfold get_user. simpl. rewrite nth_error_upd_nth_eq.
    destruct (nth_error (sessions st) s); simpl; auto.
Qed.

(* SET GLOBAL: the global value is the converted value; no existing session's own value changes *)
Theorem set_global_roundtrip : forall st s x v st',
  step reg st (SetGlobal s x v) = (st', Accepted) ->
  exists sv v', lookup reg x = Some sv /\ convert (v_type sv) v = Ok v' /\ has_type (v_type sv) v' /\
                get_global st' x = v' /\ sessions st' = sessions st /\
                (forall y, key y <> key x -> get_global st' y = get_global st y).
Proof.
  intros st s x v st' H. simpl in H.
  destruct (valid_session st s) eqn:Hs; simpl in H; [|inversion H].
  destruct (lookup reg x) as [sv|] eqn:Hl; [|inversion H].
  destruct (set_value sv true v) as [v'| |] eqn:Hv; inversion H; subst; clear H.
  apply set_value_ok in Hv as [Hc _].
  exists sv, v'. repeat split; auto.
  - eapply convert_has_type; eauto.
  - unfold get_global. simpl. apply upd_same.
  - intros y Hy. unfold get_global. simpl. apply upd_other. auto.
Qed.

(* a new session starts from the current global values *)
Theorem new_session_sees_global : forall st y,
  read_bare (fst (step reg st NewSession)) (length (sessions st)) y = RVal (get_global st y).
Proof. intros st y. simpl. unfold read_bare. simpl. rewrite nth_error_app_last. reflexivity. Qed.

(* user variables *)
Theorem set_user_roundtrip : forall st s u v, valid_session st s = true ->
  let st' := fst (step reg st (SetUser s u v)) in
  snd (step reg st (SetUser s u v)) = Accepted /\
  get_user st' s u = RVal v /\
  (forall u', key u' <> key u -> get_user st' s u' = get_user st s u') /\
  (forall s' u', s' <> s -> get_user st' s' u' = get_user st s' u') /\
  (forall s' y, read_bare st' s' y = read_bare st s' y) /\
  (forall y, get_global st' y = get_global st y).
Proof.
  intros st s u v Hs. simpl. rewrite Hs. simpl. repeat split; auto.
  - unfold get_user. simpl. rewrite nth_error_upd_nth_eq.
    destruct (valid_nth st s Hs) as [ss ->]. simpl. rewrite upd_same. reflexivity.
  - intros u' Hu. unfold get_user. simpl. rewrite nth_error_upd_nth_eq.
    destruct (nth_error (sessions st) s); simpl; auto. rewrite upd_other; auto.
  - intros s' u' Hn. unfold get_user. simpl. rewrite nth_error_upd_nth_neq; auto.
  - intros s' y. unfold read_bare. simpl. destruct (Nat.eq_dec s s') as [->|Hn].
    + rewrite nth_error_upd_nth_eq. destruct (nth_error (sessions st) s'); auto.
    + rewrite nth_error_upd_nth_neq; auto.
Qed.

(* ---------- histories ---------- *)
Definition sets_session_of (s' : nat) (o : op) : bool :=
  match o with SetSession s _ _ => Nat.eqb s s' | _ => false end.

Definition sets_global_key (k : string) (o : op) : bool :=
  match o with SetGlobal _ x _ => String.eqb (key x) k | _ => false end.

Lemma step_length : forall st o, (length (sessions st) <= length (sessions (fst (step reg st o))))%nat.
Proof.
  intros st o. destruct o as [|s x v|s x v|s u v]; simpl.
  - rewrite app_length. simpl. lia.
  - destruct (negb (valid_session st s)); simpl; auto.
    destruct (lookup reg x) as [sv|]; simpl; auto. destruct (set_value sv true v); simpl; auto.
  - destruct (negb (valid_session st s)); simpl; auto.
    destruct (lookup reg x) as [sv|]; simpl; auto.
    destruct (set_value sv false v); simpl; auto. rewrite upd_nth_length. auto.
  - destruct (negb (valid_session st s)); simpl; auto. rewrite upd_nth_length. auto.
Qed.

Lemma step_keeps_session_value : forall st o s' y,
  (s' < length (sessions st))%nat -> sets_session_of s' o = false ->
  read_bare (fst (step reg st o)) s' y = read_bare st s' y.
Proof.
  intros st o s' y Hlt Ho. destruct o as [|s x v|s x v|s u v]; simpl.
  - unfold read_bare. simpl. rewrite nth_error_app_old; auto.
  - destruct (negb (valid_session st s)); simpl; auto.
    destruct (lookup reg x) as [sv|]; simpl; auto. destruct (set_value sv true v); simpl; auto.
  - simpl in Ho. apply Nat.eqb_neq in Ho.
    destruct (negb (valid_session st s)); simpl; auto.
    destruct (lookup reg x) as [sv|]; simpl; auto.
    destruct (set_value sv false v); simpl; auto.
    unfold read_bare. simpl. rewrite nth_error_upd_nth_neq; auto.
  - destruct (negb (valid_session st s)); simpl; auto.
    unfold read_bare. simpl. destruct (Nat.eq_dec s s') as [->|Hn].
    + rewrite nth_error_upd_nth_eq. destruct (nth_error (sessions st) s'); auto.
    + rewrite nth_error_upd_nth_neq; auto.
Qed.

(* whatever the other sessions do -- SET SESSION, SET GLOBAL, user variables, new sessions -- and whatever s' itself
   does except SET SESSION, the session values of s' stay what they were *)
Theorem session_value_changed_only_by_own_set : forall ops st s' y,
  (s' < length (sessions st))%nat -> forallb (fun o => negb (sets_session_of s' o)) ops = true ->
  read_bare (run reg st ops) s' y = read_bare st s' y.
Proof.
  induction ops as [|o r IH]; intros st s' y Hlt Hall; simpl; auto.
  simpl in Hall. apply andb_true_iff in Hall as [Ho Hr]. apply negb_true_iff in Ho.
  rewrite IH; auto.
  - apply step_keeps_session_value; auto.
  - pose proof (step_length st o). lia.
Qed.

Lemma step_keeps_global : forall st o y,
  sets_global_key (key y) o = false -> get_global (fst (step reg st o)) y = get_global st y.
Proof.
  intros st o y Ho. destruct o as [|s x v|s x v|s u v]; simpl; auto.
  - simpl in Ho. destruct (negb (valid_session st s)); simpl; auto.
    destruct (lookup reg x) as [sv|]; simpl; auto.
    destruct (set_value sv true v); simpl; auto.
    unfold get_global. simpl. apply upd_other. intro E. rewrite E, String.eqb_refl in Ho. discriminate.
  - destruct (negb (valid_session st s)); simpl; auto.
    destruct (lookup reg x) as [sv|]; simpl; auto. destruct (set_value sv false v); simpl; auto.
  - destruct (negb (valid_session st s)); simpl; auto.
Qed.

Lemma run_keeps_global : forall ops st y,
  forallb (fun o => negb (sets_global_key (key y) o)) ops = true ->
  get_global (run reg st ops) y = get_global st y.
Proof.
  induction ops as [|o r IH]; intros st y Hall; simpl; auto.
  simpl in Hall. apply andb_true_iff in Hall as [Ho Hr]. apply negb_true_iff in Ho.
  rewrite IH; auto. apply step_keeps_global; auto.
Qed.

(* an accepted SET GLOBAL x = v is what every session opened later starts with, after any further history that
   does not assign the global x again *)
Theorem global_seen_by_new_sessions : forall st s x v st1 ops,
  step reg st (SetGlobal s x v) = (st1, Accepted) ->
  forallb (fun o => negb (sets_global_key (key x) o)) ops = true ->
  exists sv v', lookup reg x = Some sv /\ convert (v_type sv) v = Ok v' /\
    let st2 := run reg st1 ops in
    get_global st2 x = v' /\
    read_bare (fst (step reg st2 NewSession)) (length (sessions st2)) x = RVal v'.
Proof.
  intros st s x v st1 ops H Hall.
  destruct (set_global_roundtrip st s x v st1 H) as [sv [v' [Hl [Hc [_ [Hg _]]]]]].
  exists sv, v'. repeat split; auto; cbv zeta.
  - rewrite run_keeps_global; auto.
  - rewrite new_session_sees_global. rewrite run_keeps_global; auto. rewrite Hg. reflexivity.
Qed.

End Steps.

