(* Proofs about the authentication model (C40). *)
From Coq Require Import List NArith Bool Lia Arith.
Import ListNotations.
From GMS Require Import Sys.Auth.
Open Scope N_scope.

Lemma beqb_eq a b : beqb a b = true <-> a = b.
Proof.
  revert b. induction a as [|x a IH]; intros [|y b]; cbn [beqb]; split; intros E;
    try reflexivity; try discriminate.
  - apply andb_prop in E. destruct E as [E1 E2]. apply N.eqb_eq in E1. apply IH in E2. congruence.
  - injection E as -> ->. rewrite N.eqb_refl. cbn. apply IH. reflexivity.
Qed.

Lemma beqb_refl a : beqb a a = true.
Proof. apply beqb_eq. reflexivity. Qed.

Lemma beqb_neq a b : beqb a b = false <-> a <> b.
Proof.
  split.
  - intros E F. apply beqb_eq in F. congruence.
  - intros F. destruct (beqb a b) eqn:E; [apply beqb_eq in E; contradiction|reflexivity].
Qed.

(* ---------- hex ---------- *)
Lemma hexval_hexdig d : d < 16 -> hexval (hexdig d) = Some d.
Proof.
  intros Hd.
  assert (Hc : d = 0 \/ d = 1 \/ d = 2 \/ d = 3 \/ d = 4 \/ d = 5 \/ d = 6 \/ d = 7 \/ d = 8 \/ d = 9 \/
               d = 10 \/ d = 11 \/ d = 12 \/ d = 13 \/ d = 14 \/ d = 15) by lia.
  repeat (destruct Hc as [-> | Hc]; [reflexivity|]). subst d. reflexivity.
Qed.

Lemma hex_decode_encode b :
  Forall (fun x => x < 256) b -> hex_decode (hex_encode b) = Some b.
Proof.
  induction 1 as [|x b Hx Hb IH]; [reflexivity|].
  cbn [hex_encode hex_decode].
  assert (Hq : x / 16 < 16) by (apply N.div_lt_upper_bound; lia).
  assert (Hr : x mod 16 < 16) by (apply N.mod_lt; lia).
  rewrite (hexval_hexdig _ Hq), (hexval_hexdig _ Hr), IH.
  f_equal. f_equal. rewrite (N.div_mod x 16) at 3 by lia. lia.
Qed.

(* ---------- xor ---------- *)
Lemma xor_bytes_length a : forall b, length a = length b -> length (xor_bytes a b) = length a.
Proof.
  induction a as [|x a IH]; intros [|y b] Hl; cbn in *; try lia. rewrite IH; lia.
Qed.

Lemma xor_bytes_invol a : forall b, length a = length b -> xor_bytes (xor_bytes a b) b = a.
Proof.
  induction a as [|x a IH]; intros [|y b] Hl; cbn in *; try lia; [reflexivity|].
  rewrite IH by lia. f_equal.
  rewrite N.lxor_assoc, N.lxor_nilpotent, N.lxor_0_r. reflexivity.
Qed.

Lemma xor_bytes_comm a : forall b, xor_bytes a b = xor_bytes b a.
Proof.
  induction a as [|x a IH]; intros [|y b]; cbn; try reflexivity.
  rewrite IH, N.lxor_comm. reflexivity.
Qed.

Lemma firstn_all' {A} (l : list A) n : n = length l -> firstn n l = l.
Proof. intros ->. apply firstn_all. Qed.

Section WithHash.
  Variable H : bytes -> bytes.
  Hypothesis H_len : forall x, length (H x) = 20%nat.

  Lemma validate_empty_resp salt auth : validate H [] salt auth = false.
  Proof. reflexivity. Qed.

  Lemma validate_empty_auth resp salt : validate H resp salt [] = false.
  Proof. destruct resp; reflexivity. Qed.

  (* the shape of validate once both arguments are non-empty *)
  Lemma validate_unfold resp salt auth :
    resp <> [] -> auth <> [] ->
    validate H resp salt auth =
      match hex_decode (strip_star auth) with
      | None => false
      | Some hash =>
          if Nat.ltb (length resp) 20 then false
          else beqb (H (xor_bytes (H (salt ++ hash)) (firstn 20 resp))) hash
      end.
  Proof.
    destruct resp; [congruence|]. destruct auth; [congruence|]. intros _ _.
    unfold validate. destruct (hex_decode _) as [hash|]; [|reflexivity]. cbv zeta. rewrite H_len. reflexivity.
  Qed.

  (* malformed credentials are rejected: every response shorter than the digest (the empty one included) gets [false] *)
  Theorem validate_short_response_rejected resp salt auth :
    (length resp < 20)%nat -> validate H resp salt auth = false.
  Proof.
    intros Hl. destruct resp as [|r resp]; [reflexivity|]. destruct auth as [|a auth]; [reflexivity|].
    rewrite validate_unfold by discriminate. destruct (hex_decode _); [|reflexivity].
    destruct (Nat.ltb_spec (length (r :: resp)) 20); [reflexivity|lia].
  Qed.

  (* for EVERY response: accepted iff it has at least 20 bytes, the stored string decodes to a hash, and the first 20
     bytes open the scramble to a preimage of that hash (bytes beyond the 20th are ignored, as in the code) *)
  Theorem validate_accept_iff resp salt auth :
    validate H resp salt auth = true <->
    auth <> [] /\ (20 <= length resp)%nat /\
    exists hash, hex_decode (strip_star auth) = Some hash /\
                 H (xor_bytes (H (salt ++ hash)) (firstn 20 resp)) = hash.
  Proof.
    destruct (Nat.lt_ge_cases (length resp) 20) as [Hs|Hl].
    - rewrite validate_short_response_rejected by exact Hs. split; [discriminate|]. intros [_ [Hc _]]. lia.
    - assert (Hr : resp <> []) by (destruct resp; [cbn in Hl; lia|discriminate]).
      destruct auth as [|a auth].
      + rewrite validate_empty_auth. split; [discriminate|]. intros [F _]. congruence.
      + rewrite validate_unfold by (auto; discriminate).
        destruct (hex_decode (strip_star (a :: auth))) as [hash|].
        * destruct (Nat.ltb_spec (length resp) 20) as [F|_]; [lia|]. split.
          -- intros E. apply beqb_eq in E. split; [discriminate|]. split; [exact Hl|]. exists hash. auto.
          -- intros [_ [_ [hash' [E1 E2]]]]. injection E1 as <-. apply beqb_eq. exact E2.
        * split; [discriminate|]. intros [_ [_ [hash' [E1 _]]]]. discriminate.
  Qed.

  (* accepting a 20-byte response = the client exhibited a preimage of the stored hash, masked by the scramble *)
  Theorem validate_accept_preimage resp salt auth :
    length resp = 20%nat ->
    (validate H resp salt auth = true <->
     auth <> [] /\ exists hash stage1, hex_decode (strip_star auth) = Some hash /\ length stage1 = 20%nat /\
                                       H stage1 = hash /\ resp = xor_bytes stage1 (H (salt ++ hash))).
  Proof.
    intros Hl. rewrite validate_accept_iff. rewrite (firstn_all' resp) by auto.
    split.
    - intros [Ha [_ [hash [Hd He]]]]. split; [exact Ha|]. exists hash, (xor_bytes (H (salt ++ hash)) resp).
      split; [exact Hd|]. split; [rewrite xor_bytes_length; rewrite H_len; auto|].
      split; [exact He|].
      rewrite (xor_bytes_comm (H (salt ++ hash)) resp).
      rewrite xor_bytes_invol; [reflexivity|rewrite H_len; exact Hl].
    - intros [Ha [hash [stage1 [Hd [Hs [He Hr]]]]]]. split; [exact Ha|]. split; [lia|]. exists hash. split; [exact Hd|].
      rewrite Hr, (xor_bytes_comm (H (salt ++ hash))), xor_bytes_invol; [exact He|].
      rewrite H_len; exact Hs.
  Qed.

  Hypothesis H_byte : forall x, Forall (fun b => b < 256) (H x).

  Theorem honest_client_accepted salt pw :
    pw <> [] -> validate H (client_response H salt pw) salt (stored_auth H pw) = true.
  Proof.
    intros Hp. destruct pw as [|c pw]; [congruence|].
    set (p := c :: pw). change (client_response H salt p) with (xor_bytes (H p) (H (salt ++ H (H p)))).
    change (stored_auth H p) with (42 :: hex_encode (H (H p))).
    assert (Hlen : length (xor_bytes (H p) (H (salt ++ H (H p)))) = 20%nat)
      by (rewrite xor_bytes_length; rewrite !H_len; reflexivity).
    apply validate_accept_iff. split; [discriminate|]. split; [lia|].
    exists (H (H p)). split.
    - change (strip_star (42 :: hex_encode (H (H p)))) with (hex_encode (H (H p))).
      apply hex_decode_encode, H_byte.
    - rewrite firstn_all' by auto.
      rewrite (xor_bytes_comm (H (salt ++ H (H p)))), xor_bytes_invol; [reflexivity|].
      rewrite !H_len; reflexivity.
  Qed.

  (* an account created without a password stores the empty string; the honest client sends nothing *)
  Lemma honest_client_empty salt : client_response H salt [] = [] /\ stored_auth H [] = [].
  Proof. split; reflexivity. Qed.
End WithHash.

(* ---------- host patterns ---------- *)
(* declarative reading of a host pattern: '%' stands for any run of non-newline bytes, the rest is literal *)
Inductive gmatch : bytes -> bytes -> Prop :=
| gm_nil : gmatch [] []
| gm_lit c p h : c <> 37 -> gmatch p h -> gmatch (c :: p) (c :: h)
| gm_pct p w h : Forall (fun x => x <> 10) w -> gmatch p h -> gmatch (37 :: p) (w ++ h).

Lemma glob_pct p h :
  glob (37 :: p) h = glob p h || match h with [] => false | x :: h' => negb (x =? 10) && glob (37 :: p) h' end.
Proof. destruct h; reflexivity. Qed.

Lemma glob_lit c p h : c <> 37 ->
  glob (c :: p) h = match h with [] => false | x :: h' => (x =? c) && glob p h' end.
Proof.
  intros Hc. cbn [glob]. destruct (c =? 37) eqn:E; [apply N.eqb_eq in E; contradiction|reflexivity].
Qed.

Lemma gmatch_pct_inv p h :
  gmatch (37 :: p) h -> exists w h', h = w ++ h' /\ Forall (fun x => x <> 10) w /\ gmatch p h'.
Proof.
  intros E. inversion E as [|c p0 h0 Hc Hm|p0 w h0 Hw Hm]; subst.
  - contradiction.
  - exists w, h0. auto.
Qed.

Lemma gmatch_lit_inv c p h :
  c <> 37 -> gmatch (c :: p) h -> exists h', h = c :: h' /\ gmatch p h'.
Proof.
  intros Hc E. inversion E as [|c0 p0 h0 Hc0 Hm|p0 w h0 Hw Hm]; subst.
  - exists h0. auto.
  - contradiction.
Qed.

Theorem glob_spec p : forall h, glob p h = true <-> gmatch p h.
Proof.
  induction p as [|c p IH]; intros h.
  - destruct h; cbn; split; intros E; try constructor; try discriminate; inversion E.
  - destruct (N.eq_dec c 37) as [->|Hc].
    + induction h as [|x h IHh]; rewrite glob_pct.
      * rewrite orb_false_r, IH. split; intros E.
        -- apply (gm_pct p [] []); [constructor|exact E].
        -- apply gmatch_pct_inv in E. destruct E as [w [h' [Hh [Hw Hm]]]].
           symmetry in Hh. apply app_eq_nil in Hh. destruct Hh as [-> ->]. exact Hm.
      * split; intros E.
        -- apply orb_prop in E. destruct E as [E|E].
           ++ apply IH in E. apply (gm_pct p [] (x :: h)); [constructor|exact E].
           ++ apply andb_prop in E. destruct E as [E1 E2]. apply IHh in E2.
              apply gmatch_pct_inv in E2. destruct E2 as [w [h' [Hh [Hw Hm]]]]. subst h.
              apply (gm_pct p (x :: w) h'); [|exact Hm].
              constructor; [|exact Hw]. intros ->. discriminate.
        -- apply gmatch_pct_inv in E. destruct E as [w [h' [Hh [Hw Hm]]]].
           destruct w as [|y w].
           ++ cbn in Hh. subst h'. apply IH in Hm. rewrite Hm. reflexivity.
           ++ cbn in Hh. injection Hh as -> ->. apply orb_true_intro. right.
              inversion Hw as [|? ? Hy Hw']; subst.
              apply andb_true_intro. split.
              ** destruct (y =? 10) eqn:Ex; [apply N.eqb_eq in Ex; contradiction|reflexivity].
              ** apply IHh. apply gm_pct; assumption.
    + rewrite glob_lit by exact Hc. destruct h as [|x h].
      * split; [discriminate|]. intros E. apply (gmatch_lit_inv _ _ _ Hc) in E.
        destruct E as [h' [E _]]. discriminate.
      * split; intros E.
        -- apply andb_prop in E. destruct E as [E1 E2]. apply N.eqb_eq in E1. subst x.
           apply gm_lit; [exact Hc|]. apply IH. exact E2.
        -- apply (gmatch_lit_inv _ _ _ Hc) in E. destruct E as [h' [E Hm]]. injection E as -> ->.
           rewrite N.eqb_refl. cbn. apply IH. exact Hm.
Qed.

(* ---------- account selection ---------- *)
Lemma find_none_iff {A} (f : A -> bool) l : find f l = None <-> forall x, In x l -> f x = false.
Proof.
  split; [apply find_none|].
  induction l as [|a l IH]; intros Hf; [reflexivity|].
  cbn. rewrite (Hf a (or_introl eq_refl)). apply IH. intros x Hx. apply Hf. right. exact Hx.
Qed.

Definition selectable (u : user) (name orig : bytes) : Prop :=
  (u_name u = name \/ u_name u = []) /\ host_matches orig (norm_host orig) (u_host u) = true.

Lemma exact_is_selectable u name orig :
  u_host u = norm_host orig -> u_name u = name -> selectable u name orig.
Proof.
  intros Hh Hn. split; [left; exact Hn|]. unfold host_matches. rewrite Hh, beqb_refl. reflexivity.
Qed.

Definition p_exact (name orig : bytes) (u : user) : bool :=
  beqb (u_host u) (norm_host orig) && beqb (u_name u) name.
Definition p_named (name orig : bytes) (u : user) : bool :=
  beqb (u_name u) name && host_matches orig (norm_host orig) (u_host u).
Definition p_anon (orig : bytes) (u : user) : bool :=
  beqb (u_name u) [] && host_matches orig (norm_host orig) (u_host u).

Lemma get_user_unfold users name orig :
  get_user users name orig =
    match find (p_exact name orig) users with
    | Some u => Some u
    | None => match find (p_named name orig) users with
              | Some u => Some u
              | None => find (p_anon orig) users
              end
    end.
Proof. reflexivity. Qed.

Theorem get_user_sound users name orig u :
  get_user users name orig = Some u -> In u users /\ selectable u name orig.
Proof.
  rewrite get_user_unfold. intros E.
  destruct (find (p_exact name orig) users) as [u1|] eqn:F1.
  - injection E as <-. apply find_some in F1. destruct F1 as [Hi Hb]. split; [exact Hi|].
    apply andb_prop in Hb. destruct Hb as [Hh Hn]. apply beqb_eq in Hh, Hn.
    apply exact_is_selectable; assumption.
  - destruct (find (p_named name orig) users) as [u2|] eqn:F2.
    + injection E as <-. apply find_some in F2. destruct F2 as [Hi Hb]. split; [exact Hi|].
      apply andb_prop in Hb. destruct Hb as [Hn Hm]. apply beqb_eq in Hn. split; [left; exact Hn|exact Hm].
    + apply find_some in E. destruct E as [Hi Hb]. split; [exact Hi|].
      apply andb_prop in Hb. destruct Hb as [Hn Hm]. apply beqb_eq in Hn. split; [right; exact Hn|exact Hm].
Qed.

Theorem get_user_none_iff users name orig :
  get_user users name orig = None <-> forall u, In u users -> ~ selectable u name orig.
Proof.
  rewrite get_user_unfold. split.
  - intros E u Hi [Hn Hm].
    destruct (find (p_exact name orig) users) as [u1|] eqn:F1; [discriminate|].
    destruct (find (p_named name orig) users) as [u2|] eqn:F2; [discriminate|].
    pose proof (find_none _ _ F2 u Hi) as G2. pose proof (find_none _ _ E u Hi) as G3.
    unfold p_named in G2. unfold p_anon in G3. rewrite Hm, andb_true_r in G2, G3.
    apply beqb_neq in G2, G3. destruct Hn; contradiction.
  - intros Hall.
    assert (F1 : find (p_exact name orig) users = None).
    { apply find_none_iff. intros u Hi. unfold p_exact. destruct (_ && _) eqn:E; [|reflexivity].
      apply andb_prop in E. destruct E as [Hh Hn]. apply beqb_eq in Hh, Hn.
      exfalso. apply (Hall u Hi). apply exact_is_selectable; assumption. }
    rewrite F1.
    assert (F2 : find (p_named name orig) users = None).
    { apply find_none_iff. intros u Hi. unfold p_named. destruct (_ && _) eqn:E; [|reflexivity].
      apply andb_prop in E. destruct E as [Hn Hm]. apply beqb_eq in Hn.
      exfalso. apply (Hall u Hi). split; [left; exact Hn|exact Hm]. }
    rewrite F2.
    apply find_none_iff. intros u Hi. unfold p_anon. destruct (_ && _) eqn:E; [|reflexivity].
    apply andb_prop in E. destruct E as [Hn Hm]. apply beqb_eq in Hn.
    exfalso. apply (Hall u Hi). split; [right; exact Hn|exact Hm].
Qed.

(* priority: an account whose (host, name) equals the normalised client address wins ... *)
Theorem get_user_exact_first users name orig u :
  get_user users name orig = Some u ->
  (exists v, In v users /\ u_host v = norm_host orig /\ u_name v = name) ->
  u_host u = norm_host orig /\ u_name u = name.
Proof.
  rewrite get_user_unfold. intros E [v [Hi [Hh Hn]]].
  destruct (find (p_exact name orig) users) as [u1|] eqn:F1.
  - injection E as <-. apply find_some in F1. destruct F1 as [_ Hb].
    apply andb_prop in Hb. destruct Hb as [Hh1 Hn1]. apply beqb_eq in Hh1, Hn1. auto.
  - pose proof (find_none _ _ F1 v Hi) as G. unfold p_exact in G. rewrite Hh, Hn, !beqb_refl in G. discriminate.
Qed.

(* ... and the anonymous account is used only when no account of that name matches *)
Theorem get_user_named_before_anonymous users name orig u :
  get_user users name orig = Some u -> u_name u <> name ->
  u_name u = [] /\ forall v, In v users -> u_name v = name -> host_matches orig (norm_host orig) (u_host v) = false.
Proof.
  rewrite get_user_unfold. intros E Hne.
  destruct (find (p_exact name orig) users) as [u1|] eqn:F1.
  { injection E as <-. apply find_some in F1. destruct F1 as [_ Hb].
    apply andb_prop in Hb. destruct Hb as [_ Hn1]. apply beqb_eq in Hn1. contradiction. }
  destruct (find (p_named name orig) users) as [u2|] eqn:F2.
  { injection E as <-. apply find_some in F2. destruct F2 as [_ Hb].
    apply andb_prop in Hb. destruct Hb as [Hn1 _]. apply beqb_eq in Hn1. contradiction. }
  apply find_some in E. destruct E as [_ Hb]. apply andb_prop in Hb. destruct Hb as [Hn _].
  apply beqb_eq in Hn. split; [exact Hn|].
  intros v Hi Hv. pose proof (find_none _ _ F2 v Hi) as G. unfold p_named in G.
  rewrite Hv, beqb_refl in G. exact G.
Qed.

(* among several matching accounts of the same rank the first inserted one is taken *)
Theorem get_user_first_inserted pre u post name orig :
  (forall v, In v (pre ++ u :: post) -> ~ (u_host v = norm_host orig /\ u_name v = name)) ->
  u_name u = name -> host_matches orig (norm_host orig) (u_host u) = true ->
  (forall v, In v pre -> u_name v = name -> host_matches orig (norm_host orig) (u_host v) = false) ->
  get_user (pre ++ u :: post) name orig = Some u.
Proof.
  intros Hex Hn Hm Hpre. rewrite get_user_unfold.
  assert (F1 : find (p_exact name orig) (pre ++ u :: post) = None).
  { apply find_none_iff. intros v Hi. unfold p_exact. destruct (_ && _) eqn:E; [|reflexivity].
    apply andb_prop in E. destruct E as [A B]. apply beqb_eq in A, B. exfalso. apply (Hex v Hi). auto. }
  rewrite F1. clear F1 Hex.
  assert (F2 : find (p_named name orig) (pre ++ u :: post) = Some u).
  { induction pre as [|p pre IH]; cbn [app find].
    - unfold p_named at 1. rewrite Hn, beqb_refl, Hm. reflexivity.
    - unfold p_named at 1. destruct (beqb (u_name p) name) eqn:Ep.
      + apply beqb_eq in Ep. rewrite (Hpre p (or_introl eq_refl) Ep). cbn [andb].
        apply IH. intros v Hi. apply Hpre. right. exact Hi.
      + cbn [andb]. apply IH. intros v Hi. apply Hpre. right. exact Hi. }
  rewrite F2. reflexivity.
Qed.

(* ---------- login ---------- *)
Section Login.
  Variable H : bytes -> bytes.
  Hypothesis H_len : forall x, length (H x) = 20%nat.

  Definition credentials_ok (u : user) (salt resp : bytes) : Prop :=
    (u_auth u = [] /\ resp = []) \/ (u_auth u <> [] /\ validate H resp salt (u_auth u) = true).

  Theorem login_accept_iff users name host salt resp n h :
    login H true users name host salt resp = Accept n h <->
    exists u, get_user users name host = Some u /\ u_locked u = false /\ credentials_ok u salt resp /\
              n = u_name u /\ h = u_host u.
  Proof.
    unfold login, credentials_ok. cbn [negb].
    destruct (get_user users name host) as [u|].
    2:{ split; [discriminate|]. intros [u [E _]]. discriminate. }
    destruct (u_locked u) eqn:L.
    { split; [discriminate|]. intros [u' [E [L' _]]]. injection E as <-. congruence. }
    destruct (u_auth u) as [|a au] eqn:A.
    - destruct resp as [|r resp].
      + split.
        * intros E. injection E as <- <-. exists u. rewrite A. intuition.
        * intros [u' [E [_ [_ [-> ->]]]]]. injection E as <-. reflexivity.
      + split; [discriminate|]. intros [u' [E [_ [C _]]]]. injection E as <-. rewrite A in C.
        destruct C as [[_ C]|[C _]]; [discriminate|congruence].
    - destruct (validate H resp salt (a :: au)) eqn:V.
      + split.
        * intros E. injection E as <- <-. exists u. rewrite A. repeat split; auto. right. split; [discriminate|exact V].
        * intros [u' [E [_ [_ [-> ->]]]]]. injection E as <-. reflexivity.
      + split; [discriminate|]. intros [u' [E [_ [C _]]]]. injection E as <-. rewrite A in C.
        destruct C as [[C _]|[_ C]]; [discriminate|congruence].
  Qed.

  Theorem login_session_identity users name host salt resp n h :
    login H true users name host salt resp = Accept n h ->
    exists u, In u users /\ selectable u name host /\ u_locked u = false /\ n = u_name u /\ h = u_host u.
  Proof.
    intros E. apply login_accept_iff in E. destruct E as [u [G [L [_ [-> ->]]]]].
    apply get_user_sound in G. destruct G as [Hi Hs]. exists u. auto.
  Qed.

  Theorem login_unknown_rejected users name host salt resp :
    (forall u, In u users -> ~ selectable u name host) -> login H true users name host salt resp = Deny.
  Proof.
    intros Hall. apply get_user_none_iff in Hall. unfold login. cbn [negb]. rewrite Hall. reflexivity.
  Qed.

  Theorem login_locked_rejected users name host salt resp u :
    get_user users name host = Some u -> u_locked u = true -> login H true users name host salt resp = Deny.
  Proof. intros G L. unfold login. cbn [negb]. rewrite G, L. reflexivity. Qed.

  Theorem login_empty_password_rule users name host salt resp u :
    get_user users name host = Some u -> u_locked u = false -> u_auth u = [] ->
    (login H true users name host salt resp = Accept (u_name u) (u_host u) <-> resp = []) /\
    (resp <> [] -> login H true users name host salt resp = Deny).
  Proof.
    intros G L A. unfold login. cbn [negb]. rewrite G, L, A. destruct resp.
    - split; [split; reflexivity|congruence].
    - split; [split; discriminate|reflexivity].
  Qed.

  (* every attempt is either accepted or denied, and it is denied whenever the credentials are not valid for the
     selected account: wrong, missing and malformed credentials alike *)
  Theorem login_invalid_credentials_rejected users name host salt resp u :
    get_user users name host = Some u -> ~ credentials_ok u salt resp ->
    login H true users name host salt resp = Deny.
  Proof.
    intros G Hc.
    destruct (login H true users name host salt resp) as [n h|] eqn:E; [|reflexivity].
    exfalso. apply login_accept_iff in E. destruct E as [u' [G' [_ [C _]]]].
    rewrite G in G'. injection G' as <-. contradiction.
  Qed.

  (* malformed: a non-empty response shorter than the digest is denied whatever the account table *)
  Theorem login_malformed_response_rejected users name host salt resp :
    resp <> [] -> (length resp < 20)%nat -> login H true users name host salt resp = Deny.
  Proof.
    intros Hr Hl.
    destruct (login H true users name host salt resp) as [n h|] eqn:E; [|reflexivity].
    exfalso. apply login_accept_iff in E. destruct E as [u [_ [_ [[[_ C]|[_ C]] _]]]]; [contradiction|].
    rewrite (validate_short_response_rejected H H_len) in C by exact Hl. discriminate.
  Qed.

  Hypothesis H_byte : forall x, Forall (fun b => b < 256) (H x).

  (* end to end: an unlocked account created with password pw, selected for this client, accepts the honest client *)
  Theorem login_honest_client_accepted users name host salt pw u :
    get_user users name host = Some u -> u_locked u = false -> u_auth u = stored_auth H pw ->
    login H true users name host salt (client_response H salt pw) = Accept (u_name u) (u_host u).
  Proof.
    intros G L A. apply login_accept_iff. exists u. repeat split; auto.
    unfold credentials_ok. destruct pw as [|c pw].
    - left. split; [exact A|reflexivity].
    - right. rewrite A. split; [discriminate|]. apply honest_client_accepted; auto. discriminate.
  Qed.
End Login.
