(* Proofs about the model of sql/sqlredact (C45). *)
From Coq Require Import List NArith Arith Bool Ascii String DecimalString Decimal DecimalNat Lia FinFun.
Import ListNotations.
From GMS Require Import Sys.Redact.

(* ---------- strconv.Itoa is injective, placeholders are distinct ---------- *)
Lemma N_of_ascii_inj a b : N_of_ascii a = N_of_ascii b -> a = b.
Proof. intros H. rewrite <- (ascii_N_embedding a), <- (ascii_N_embedding b). now rewrite H. Qed.

Lemma map_inj {A B} (f : A -> B) : (forall a b, f a = f b -> a = b) -> forall l l', map f l = map f l' -> l = l'.
Proof.
  intros Hf l. induction l as [|x l IH]; intros [|y l'] H; cbn in H; try discriminate; [reflexivity|].
  injection H as H1 H2. f_equal; [now apply Hf | now apply IH].
Qed.

Lemma itoa_inj a b : itoa a = itoa b -> a = b.
Proof.
  unfold itoa. intros H. apply (map_inj _ N_of_ascii_inj) in H.
  assert (H' : NilEmpty.string_of_uint (Nat.to_uint a) = NilEmpty.string_of_uint (Nat.to_uint b)).
  { rewrite <- (string_of_list_ascii_of_string (NilEmpty.string_of_uint (Nat.to_uint a))),
            <- (string_of_list_ascii_of_string (NilEmpty.string_of_uint (Nat.to_uint b))). now rewrite H. }
  assert (H'' : Some (Nat.to_uint a) = Some (Nat.to_uint b)) by (rewrite <- !NilEmpty.usu; now rewrite H').
  injection H'' as H''. rewrite <- (Unsigned.of_to a), <- (Unsigned.of_to b). now rewrite H''.
Qed.

Lemma ntok_inj a b : ntok a = ntok b -> a = b.
Proof. unfold ntok. intros H. injection H as H. now apply itoa_inj. Qed.
Lemma vtok_inj a b : vtok a = vtok b -> a = b.
Proof. unfold vtok. intros H. injection H as H. now apply itoa_inj. Qed.
Lemma ntok_vtok a b : ntok a <> vtok b.
Proof. unfold ntok, vtok. intros H. discriminate. Qed.

Lemma bytes_eqb_spec a b : bytes_eqb a b = true <-> a = b.
Proof.
  revert b. induction a as [|x a IH]; intros [|y b]; cbn; split; intros H; try reflexivity; try discriminate.
  - apply andb_prop in H. destruct H as [H1 H2]. apply N.eqb_eq in H1. apply IH in H2. congruence.
  - injection H as -> ->. rewrite N.eqb_refl. now apply IH.
Qed.
Lemma bytes_eqb_refl a : bytes_eqb a a = true.
Proof. now apply bytes_eqb_spec. Qed.

(* ---------- association lists ---------- *)
Lemma lookup_in l k t : lookup l k = Some t -> In (k, t) l.
Proof.
  induction l as [|[k' t'] l IH]; cbn; [discriminate|]. destruct (bytes_eqb k' k) eqn:E.
  - apply bytes_eqb_spec in E. intros H. injection H as <-. subst. now left.
  - intros H. right. now apply IH.
Qed.

Lemma lookup_none l k : lookup l k = None -> ~ In k (map fst l).
Proof.
  induction l as [|[k' t'] l IH]; cbn; [tauto|]. destruct (bytes_eqb k' k) eqn:E; [discriminate|].
  intros H [->|Hin]; [rewrite bytes_eqb_refl in E; discriminate | now apply IH].
Qed.

Lemma lookup_app l k t k' :
  lookup (l ++ [(k, t)]) k' = match lookup l k' with Some x => Some x | None => if bytes_eqb k k' then Some t else None end.
Proof. induction l as [|[a b] l IH]; cbn; [reflexivity|]. destruct (bytes_eqb a k'); [reflexivity | exact IH]. Qed.

Lemma snd_inj_in {A B} (l : list (A * B)) a b t : NoDup (map snd l) -> In (a, t) l -> In (b, t) l -> a = b.
Proof.
  induction l as [|[x y] l IH]; cbn; [tauto|]. intros Hnd. inversion Hnd as [|? ? Hn Hd]; subst.
  intros [E1|H1] [E2|H2].
  - congruence.
  - injection E1 as -> ->. exfalso. apply Hn. apply in_map_iff. exists (b, t). auto.
  - injection E2 as -> ->. exfalso. apply Hn. apply in_map_iff. exists (a, t). auto.
  - now apply IH.
Qed.

(* ---------- the Mapping invariant ---------- *)
Definition WFm (m : mapping) : Prop :=
  NoDup (map fst (idents m)) /\ map snd (idents m) = map ntok (seq 1 (ncount m)) /\
  NoDup (map fst (values m)) /\ map snd (values m) = map vtok (seq 1 (vcount m)).

Lemma wf_empty : WFm empty_mapping.
Proof. repeat split; constructor. Qed.

Lemma nodup_snoc {A} (l : list A) x : NoDup l -> ~ In x l -> NoDup (l ++ [x]).
Proof.
  induction l as [|y l IH]; cbn; intros Hnd Hx; [constructor; [tauto|constructor]|].
  inversion Hnd as [|? ? Hn Hd]; subst. constructor.
  - intros Hin. apply in_app_or in Hin. destruct Hin as [Hin|[->|[]]]; tauto.
  - apply IH; tauto.
Qed.

Lemma wf_do_call m c : WFm m -> WFm (fst (do_call m c)).
Proof.
  intros [H1 [H2 [H3 H4]]]. destruct c as [o|o]; cbn.
  - unfold redact_ident. destruct o as [|x o]; [repeat split; assumption|].
    destruct (lookup (idents m) (x :: o)) eqn:L; cbn; [repeat split; assumption|].
    repeat split; cbn [idents values ncount vcount fst]; try assumption.
    + rewrite map_app. cbn. apply nodup_snoc; [assumption | now apply lookup_none].
    + rewrite map_app, H2, seq_S, map_app. reflexivity.
  - unfold redact_value. destruct (lookup (values m) o) eqn:L; cbn; [repeat split; assumption|].
    repeat split; cbn [idents values ncount vcount fst]; try assumption.
    + rewrite map_app. cbn. apply nodup_snoc; [assumption | now apply lookup_none].
    + rewrite map_app, H4, seq_S, map_app. reflexivity.
Qed.

Lemma wf_tokens m : WFm m ->
  (forall o t, In (o, t) (idents m) -> exists k, t = ntok k) /\ (forall o t, In (o, t) (values m) -> exists k, t = vtok k) /\
  NoDup (map snd (idents m)) /\ NoDup (map snd (values m)).
Proof.
  intros [H1 [H2 [H3 H4]]]. repeat split.
  - intros o t Hin. assert (Ht : In t (map snd (idents m))) by (apply in_map_iff; exists (o, t); auto).
    rewrite H2 in Ht. apply in_map_iff in Ht. destruct Ht as [k [<- _]]. eauto.
  - intros o t Hin. assert (Ht : In t (map snd (values m))) by (apply in_map_iff; exists (o, t); auto).
    rewrite H4 in Ht. apply in_map_iff in Ht. destruct Ht as [k [<- _]]. eauto.
  - rewrite H2. apply Injective_map_NoDup; [intros a b; apply ntok_inj | apply seq_NoDup].
  - rewrite H4. apply Injective_map_NoDup; [intros a b; apply vtok_inj | apply seq_NoDup].
Qed.

(* the placeholder a call gets from a mapping that already knows the lexeme *)
Definition tok_of (m : mapping) (c : call) : option bytes :=
  match c with
  | CIdent [] => Some []
  | CIdent o => lookup (idents m) o
  | CValue o => lookup (values m) o
  end.

Lemma step_stable m c : tok_of (fst (do_call m c)) c = Some (snd (do_call m c)) /\
  forall c' t', tok_of m c' = Some t' -> tok_of (fst (do_call m c)) c' = Some t'.
Proof.
  destruct c as [o|o]; cbn.
  - unfold redact_ident. destruct o as [|x o]; [split; [reflexivity | auto]|].
    destruct (lookup (idents m) (x :: o)) eqn:L; cbn; [split; [exact L | auto]|]. split.
    + rewrite lookup_app, L, bytes_eqb_refl. reflexivity.
    + intros [[|y o']|o'] t' H; cbn in *; try exact H. rewrite lookup_app, H. reflexivity.
  - unfold redact_value. destruct (lookup (values m) o) eqn:L; cbn; [split; [exact L | auto]|]. split.
    + rewrite lookup_app, L, bytes_eqb_refl. reflexivity.
    + intros [[|y o']|o'] t' H; cbn in *; try exact H. rewrite lookup_app, H. reflexivity.
Qed.

Lemma run_stable cs : forall m,
  (forall c t, tok_of m c = Some t -> tok_of (fst (run_calls m cs)) c = Some t) /\
  Forall2 (fun c t => tok_of (fst (run_calls m cs)) c = Some t) cs (snd (run_calls m cs)).
Proof.
  induction cs as [|c cs IH]; intros m; cbn; [split; [auto | constructor]|].
  destruct (step_stable m c) as [S1 S2]. destruct (do_call m c) as [m' t]. cbn in *.
  destruct (IH m') as [I1 I2]. destruct (run_calls m' cs) as [mf ts]. cbn in *. split.
  - intros c' t' H. apply I1. now apply S2.
  - constructor; [now apply I1 | exact I2].
Qed.

Lemma wf_run cs : forall m, WFm m -> WFm (fst (run_calls m cs)).
Proof.
  induction cs as [|c cs IH]; intros m W; cbn; [exact W|].
  pose proof (wf_do_call m c W) as W'. destruct (do_call m c) as [m' t]. cbn in *.
  specialize (IH m' W'). destruct (run_calls m' cs). exact IH.
Qed.

Lemma tok_of_inj m c c' t : WFm m -> tok_of m c = Some t -> tok_of m c' = Some t -> c = c'.
Proof.
  intros W. destruct (wf_tokens m W) as [Hn [Hv [Dn Dv]]].
  assert (Ti : forall o t0, o <> [] -> tok_of m (CIdent o) = Some t0 -> In (o, t0) (idents m) /\ exists k, t0 = ntok k).
  { intros o t0 Ho H. destruct o; [congruence|]. cbn in H. apply lookup_in in H. split; [exact H | eapply Hn; exact H]. }
  assert (Tv : forall o t0, tok_of m (CValue o) = Some t0 -> In (o, t0) (values m) /\ exists k, t0 = vtok k).
  { intros o t0 H. cbn in H. apply lookup_in in H. split; [exact H | eapply Hv; exact H]. }
  assert (Ne : forall (x : N) (o : bytes), x :: o <> []) by (intros; discriminate).
  destruct c as [o|o], c' as [o'|o']; intros H H'.
  - destruct o as [|x o], o' as [|x' o']; [reflexivity| | |].
    + cbn in H. injection H as <-. destruct (Ti _ _ (Ne _ _) H') as [_ [k Hk]]. unfold ntok in Hk. discriminate Hk.
    + cbn in H'. injection H' as <-. destruct (Ti _ _ (Ne _ _) H) as [_ [k Hk]]. unfold ntok in Hk. discriminate Hk.
    + destruct (Ti _ _ (Ne _ _) H) as [I1 _]. destruct (Ti _ _ (Ne _ _) H') as [I2 _].
      f_equal. exact (snd_inj_in (idents m) _ _ t Dn I1 I2).
  - destruct (Tv _ _ H') as [_ [k' Hk']]. destruct o as [|x o].
    + cbn in H. injection H as <-. unfold vtok in Hk'. discriminate Hk'.
    + destruct (Ti _ _ (Ne _ _) H) as [_ [k Hk]]. rewrite Hk in Hk'. now apply ntok_vtok in Hk'.
  - destruct (Tv _ _ H) as [_ [k Hk]]. destruct o' as [|x o'].
    + cbn in H'. injection H' as <-. unfold vtok in Hk. discriminate Hk.
    + destruct (Ti _ _ (Ne _ _) H') as [_ [k' Hk']]. rewrite Hk' in Hk. now apply ntok_vtok in Hk.
  - destruct (Tv _ _ H) as [I1 _]. destruct (Tv _ _ H') as [I2 _]. f_equal. exact (snd_inj_in (values m) _ _ t Dv I1 I2).
Qed.

Lemma Forall2_nth_error {A B} (P : A -> B -> Prop) l l' : Forall2 P l l' ->
  forall i a b, nth_error l i = Some a -> nth_error l' i = Some b -> P a b.
Proof.
  induction 1 as [|x y l l' Hxy H IH]; intros [|i] a b Ha Hb; cbn in *; try discriminate.
  - injection Ha as <-. injection Hb as <-. exact Hxy.
  - eapply IH; eassumption.
Qed.

(* over ALL call sequences on one Mapping: equal lexemes (same namespace) <-> equal placeholders *)
Theorem mapping_functional_injective cs i j ci cj ti tj :
  nth_error cs i = Some ci -> nth_error cs j = Some cj ->
  nth_error (snd (run_calls empty_mapping cs)) i = Some ti ->
  nth_error (snd (run_calls empty_mapping cs)) j = Some tj ->
  (ci = cj <-> ti = tj).
Proof.
  intros Hi Hj Hti Htj. destruct (run_stable cs empty_mapping) as [_ F].
  pose proof (Forall2_nth_error _ _ _ F i ci ti Hi Hti) as Ei.
  pose proof (Forall2_nth_error _ _ _ F j cj tj Hj Htj) as Ej.
  split.
  - intros <-. congruence.
  - intros <-. eapply tok_of_inj; [apply wf_run, wf_empty | exact Ei | exact Ej].
Qed.

(* every placeholder is n<k> / v<k> (or the empty identifier passed through) *)
Lemma do_call_shape m c : WFm m ->
  match c with
  | CIdent [] => snd (do_call m c) = []
  | CIdent _ => exists k, snd (do_call m c) = ntok k
  | CValue _ => exists k, snd (do_call m c) = vtok k
  end.
Proof.
  intros W. destruct (wf_tokens m W) as [Hn [Hv _]]. destruct c as [[|x o]|o]; cbn; [reflexivity| |].
  - unfold redact_ident. destruct (lookup (idents m) (x :: o)) eqn:L; cbn; [|eauto]. apply lookup_in in L. eapply Hn; exact L.
  - unfold redact_value. destruct (lookup (values m) o) eqn:L; cbn; [|eauto]. apply lookup_in in L. eapply Hv; exact L.
Qed.

(* ---------- the redactor ---------- *)
Definition piece_ok (ids : list bytes) (tk : token) (p : bytes) : Prop :=
  (sensitive ids tk = true /\ placeholder_piece p) \/
  (fst tk = CArg /\ p = snd tk) \/
  (sensitive ids tk = false /\ fst tk <> CArg /\ p = emit_structural (fst tk) (snd tk)).

Lemma emit_ident_piece m val : WFm m -> WFm (fst (emit_ident m val)) /\
  ((exists k, snd (emit_ident m val) = [96%N] ++ ntok k ++ [96%N]) \/ snd (emit_ident m val) = [96%N; 96%N]).
Proof.
  intros W. unfold emit_ident. pose proof (wf_do_call m (CIdent val) W) as W'. pose proof (do_call_shape m (CIdent val) W) as S.
  cbn in W', S. destruct (redact_ident m val) as [m' t]. cbn in *. split; [exact W'|].
  destruct val; [right; subst; reflexivity | left; destruct S as [k ->]; exists k; reflexivity].
Qed.

Lemma emit_token_ok m ids tk : WFm m -> fst tk <> CComment -> fst tk <> CLexErr ->
  WFm (fst (emit_token m ids tk)) /\ piece_ok ids tk (snd (emit_token m ids tk)).
Proof.
  intros W Hc Hl. destruct tk as [cls val]. cbn in Hc, Hl.
  assert (Hid : forall v, WFm (fst (emit_ident m v)) /\ placeholder_piece (snd (emit_ident m v))).
  { intros v. destruct (emit_ident_piece m v W) as [W' [[k E]|E]]; (split; [exact W'|]); unfold placeholder_piece; eauto. }
  assert (Hval : is_value_class cls = true ->
            WFm (fst (let '(m', t) := redact_value m val in (m', dress cls t))) /\
            piece_ok ids (cls, val) (snd (let '(m', t) := redact_value m val in (m', dress cls t)))).
  { intros Hv. pose proof (wf_do_call m (CValue val) W) as W'. pose proof (do_call_shape m (CValue val) W) as S.
    cbn in W', S. destruct (redact_value m val) as [m' t]. cbn in *. split; [exact W'|]. left. split.
    - destruct cls; cbn in *; try discriminate; reflexivity.
    - destruct S as [k ->]. right. right. eauto. }
  assert (Hdef : cls <> CId -> cls <> CArg -> is_value_class cls = false ->
            WFm (fst (match val with
                      | _ :: _ => if in_set ids val then emit_ident m val else (m, emit_structural cls val)
                      | [] => (m, emit_structural cls val) end)) /\
            piece_ok ids (cls, val) (snd (match val with
                      | _ :: _ => if in_set ids val then emit_ident m val else (m, emit_structural cls val)
                      | [] => (m, emit_structural cls val) end))).
  { intros H1 H2 H3. destruct val as [|x val].
    - split; [exact W|]. right. right. repeat split; [|exact H2]. destruct cls; cbn in *; congruence.
    - destruct (in_set ids (x :: val)) eqn:I.
      + destruct (Hid (x :: val)) as [W' P]. split; [exact W'|]. left. split; [|exact P].
        destruct cls; cbn in *; try congruence; rewrite I; reflexivity.
      + split; [exact W|]. right. right. repeat split; [|exact H2].
        destruct cls; cbn in *; try congruence; rewrite I; reflexivity. }
  destruct cls; cbn [emit_token]; try (apply Hval; reflexivity); try (apply Hdef; [discriminate | discriminate | reflexivity]);
    try congruence.
  - destruct (Hid val) as [W' P]. split; [exact W'|]. left. split; [reflexivity | exact P].
  - split; [exact W|]. right. left. split; reflexivity.
Qed.

Definition visible (tk : token) : bool := match fst tk with CComment => false | _ => true end.

(* the whole statement: one piece per non-comment token, in order, each of the permitted shape *)
Lemma emit_all_ok ids toks : forall m ps m', WFm m -> emit_all m ids toks = (m', Some ps) ->
  WFm m' /\ Forall2 (piece_ok ids) (filter visible toks) ps.
Proof.
  induction toks as [|[cls val] toks IH]; intros m ps m' W H; cbn in H.
  - injection H as <- <-. split; [exact W | constructor].
  - assert (Hgen : cls <> CComment -> cls <> CLexErr ->
              (let '(m1, p) := emit_token m ids (cls, val) in
               match emit_all m1 ids toks with (m2, Some ps') => (m2, Some (p :: ps')) | (m2, None) => (m2, None) end)
              = (m', Some ps) -> WFm m' /\ Forall2 (piece_ok ids) (filter visible ((cls, val) :: toks)) ps).
    { intros Hc Hl E. destruct (emit_token_ok m ids (cls, val) W Hc Hl) as [W1 P1].
      destruct (emit_token m ids (cls, val)) as [m1 p]. cbn in W1, P1.
      destruct (emit_all m1 ids toks) as [m2 [ps'|]] eqn:E2; [|discriminate]. injection E as <- <-.
      destruct (IH m1 ps' m2 W1 E2) as [W2 F]. split; [exact W2|].
      cbn. destruct cls; cbn; try congruence; constructor; assumption. }
    destruct cls; try (apply Hgen; [discriminate | discriminate | exact H]).
    + cbn. now apply (IH m ps m').
    + discriminate.
Qed.

Theorem output_shape parse_ok ids toks m m' out : WFm m ->
  redact_into m parse_ok ids toks = (m', out) ->
  WFm m' /\
  (out = marker \/ exists ps, out = join_sp ps /\ Forall2 (piece_ok ids) (filter visible toks) ps).
Proof.
  intros W. unfold redact_into. destruct parse_ok; [|intros H; injection H as <- <-; auto].
  destruct (emit_all m ids toks) as [m1 [ps|]] eqn:E; intros H; injection H as <- <-.
  - destruct (emit_all_ok ids toks m ps m1 W E) as [W1 F]. split; [exact W1|]. right. eauto.
  - split; [|now left].
    (* the mapping after a lex error is still well formed *)
    revert m W E. induction toks as [|[cls val] toks IH]; intros m W E; cbn in E; [discriminate|].
    assert (Hgen : cls <> CComment -> cls <> CLexErr ->
              (let '(m2, p) := emit_token m ids (cls, val) in
               match emit_all m2 ids toks with (m3, Some ps') => (m3, Some (p :: ps')) | (m3, None) => (m3, None) end)
              = (m1, None) -> WFm m1).
    { intros Hc Hl E'. destruct (emit_token_ok m ids (cls, val) W Hc Hl) as [W2 _].
      destruct (emit_token m ids (cls, val)) as [m2 p]. cbn in W2.
      destruct (emit_all m2 ids toks) as [m3 [ps'|]] eqn:E3; [discriminate|]. injection E' as <-. now apply (IH m2). }
    destruct cls; try (apply Hgen; [discriminate | discriminate | exact E]).
    + now apply (IH m).
    + injection E as <-. exact W.
Qed.

(* unparseable input (parser rejects, or the lexer reports an error) yields only the marker *)
Theorem unparseable_yields_marker_only m ids toks :
  snd (redact_into m false ids toks) = marker /\ fst (redact_into m false ids toks) = m /\
  (forall pre v rest, toks = pre ++ (CLexErr, v) :: rest -> Forall (fun tk => fst tk <> CLexErr) pre ->
     snd (redact_into m true ids toks) = marker).
Proof.
  split; [reflexivity|]. split; [reflexivity|]. intros pre v rest -> Hpre. unfold redact_into.
  assert (H : forall m0, snd (emit_all m0 ids (pre ++ (CLexErr, v) :: rest)) = None).
  { induction pre as [|[cls val] pre IH]; intros m0; [reflexivity|].
    inversion Hpre as [|? ? Hc Hp]; subst. cbn in Hc. specialize (IH Hp). rewrite <- app_comm_cons.
    destruct cls; try congruence; cbn [emit_all]; try apply IH;
      (match goal with |- context [emit_token ?a ?b ?c] => destruct (emit_token a b c) as [m1 p] end;
       specialize (IH m1);
       match goal with |- context [emit_all ?a ?b ?c] => destruct (emit_all a b c) as [m2 [ps|]] end;
       cbn in *; congruence). }
  specialize (H m). destruct (emit_all m ids _) as [m1 [ps|]]; cbn in *; [discriminate | reflexivity].
Qed.

(* the text of a sensitive token reaches the output only through its placeholder: the piece is the same for any
   two tokens of the same class that the mapping gives the same placeholder, whatever their text *)
Theorem no_lexeme_copied m ids cls val : WFm m -> sensitive ids (cls, val) = true -> cls <> CComment -> cls <> CLexErr ->
  placeholder_piece (snd (emit_token m ids (cls, val))).
Proof.
  intros W S Hc Hl. destruct (emit_token_ok m ids (cls, val) W Hc Hl) as [_ [[_ P]|[[E _]|[S' _]]]]; [exact P| |congruence].
  cbn in E. subst cls. discriminate.
Qed.

(* THE LEAK MECHANISM: a keyword-typed token whose text the AST walk did not report is copied verbatim *)
Theorem keyword_outside_ident_set_is_copied m ids val :
  val <> [] -> in_set ids val = false -> emit_token m ids (COther, val) = (m, val).
Proof. intros Hv Hi. destruct val; [congruence|]. cbn. rewrite Hi. reflexivity. Qed.

(* what the real parser/tokenizer report for   CREATE TABLE zqi1a (password INT)   : the column name is not in the
   identifier set of the AST walk, and survives *)
Example leak_witness :
  snd (redact_into empty_mapping true [[122;113;105;49;97]%N]
         [(COther, [67;82;69;65;84;69]); (COther, [84;65;66;76;69]); (CId, [122;113;105;49;97]); (CChar 40, []);
          (COther, [112;97;115;115;119;111;114;100]); (COther, [73;78;84]); (CChar 41, [])]%N)
  = [67;82;69;65;84;69;32;84;65;66;76;69;32;96;110;49;96;32;40;32;112;97;115;115;119;111;114;100;32;73;78;84;32;41]%N.
Proof. vm_compute. reflexivity. Qed.

Example nonvacuous :
  redact_seq empty_mapping
    [(true, [[116]; [97]]%N, [(COther, [83;69;76]); (CId, [97]); (CChar 44, []); (COther, [97]); (COther, [70;82;79;77]); (CId, [116]);
                            (CComment, [47;42]); (COther, [87]); (CId, [97]); (CChar 61, []); (CStr, [97]); (CSym SAND, []);
                            (CNum, [49]); (CSym SLE, []); (CArg, [58;118;49])]);
     (false, [], [(CId, [120])])]%N
  = ({| idents := [([97], ntok 1); ([116], ntok 2)]; values := [([97], vtok 1); ([49], vtok 2)]; ncount := 2; vcount := 2 |},
     [[83;69;76;32;96;110;49;96;32;44;32;96;110;49;96;32;70;82;79;77;32;96;110;50;96;32;87;32;96;110;49;96;32;61;32;39;118;49;39;32;38;38;32;58;118;50;32;60;61;32;58;118;49];
      marker])%N.
Proof. vm_compute. reflexivity. Qed.
