(* C39: one simulation theorem over whole histories.  The abstract machine keeps, per account, a plain list of facts
   (FG p | FD db p | FT db tbl p) and the role edges; GRANT conses a fact, REVOKE filters it out (with the documented
   database-level behaviour of the code: when no database-level fact of that database remains, every fact of the
   database goes), REVOKE ALL filters a level, DROP removes the account and its edges.  Theorem: after every history the
   allow/deny decision of the model of the code equals the decision of the abstract machine. *)
From Coq Require Import List NArith Bool Lia.
Import ListNotations.
From GMS Require Import Sys.Privs Sys.PrivsProofs Sys.PrivsUnion.
Open Scope N_scope.

Definition fact_at (l : level) (p : N) : fact := match l with LG => FG p | LD d => FD d p | LT d t => FT d t p end.

Lemma fact_eqb_eq f g : fact_eqb f g = true <-> f = g.
Proof.
  destruct f as [p|d p|d t p], g as [q|e q|e u q]; cbn; split; intros E; try discriminate; try (inversion E; fail).
  - apply N.eqb_eq in E. congruence.
  - injection E as ->. apply N.eqb_refl.
  - apply andb_prop in E. destruct E as [A B]. apply seqb_eq in A. apply N.eqb_eq in B. congruence.
  - injection E as -> ->. rewrite seqb_refl, N.eqb_refl. reflexivity.
  - apply andb_prop in E. destruct E as [A B]. apply andb_prop in A. destruct A as [A C].
    apply seqb_eq in A, C. apply N.eqb_eq in B. congruence.
  - injection E as -> -> ->. rewrite !seqb_refl, N.eqb_refl. reflexivity.
Qed.

Definition amem (f : fact) (fs : list fact) : bool := existsb (fact_eqb f) fs.

Lemma amem_filter (P : fact -> bool) f fs : amem f (filter P fs) = P f && amem f fs.
Proof.
  unfold amem. induction fs as [|g fs IH]; cbn [filter existsb]; [rewrite andb_false_r; reflexivity|].
  destruct (P g) eqn:Pg; cbn [existsb]; rewrite IH.
  - destruct (fact_eqb f g) eqn:E; cbn [orb].
    + apply fact_eqb_eq in E. subst g. rewrite Pg. reflexivity.
    + reflexivity.
  - destruct (fact_eqb f g) eqn:E; cbn [orb]; [|reflexivity].
    apply fact_eqb_eq in E. subst g. rewrite Pg. reflexivity.
Qed.

Definition is_fd (d : str) (f : fact) : bool := match f with FD e _ => seqb e d | _ => false end.
Definition is_fg (f : fact) : bool := match f with FG _ => true | _ => false end.
Definition is_ft (d t : str) (f : fact) : bool := match f with FT e u _ => seqb e d && seqb u t | _ => false end.

Definition a_add (l : level) (p : N) (fs : list fact) : list fact := fact_at l p :: fs.

Definition a_rem (l : level) (p : N) (fs : list fact) : list fact :=
  let fs' := filter (fun f => negb (fact_eqb f (fact_at l p))) fs in
  match l with
  | LD d => if existsb (is_fd d) fs' then fs' else filter (fun f => negb (on_db d f)) fs'
  | _ => fs'
  end.

Definition a_clear (l : level) (fs : list fact) : list fact :=
  match l with
  | LG => filter (fun f => negb (is_fg f)) fs
  | LD d => filter (fun f => negb (on_db d f)) fs
  | LT d t => filter (fun f => negb (is_ft d t f)) fs
  end.

Record astate : Type := mkA { a_users : list (str * list fact); a_edges : list (str * str) }.
Definition ainit : astate := mkA [] [].
Definition a_has_user (a : astate) (u : str) : bool := match aget u (a_users a) with Some _ => true | None => false end.
Definition a_upd (a : astate) (u : str) (f : list fact -> list fact) : astate :=
  match aget u (a_users a) with None => a | Some fs => mkA (aput u (f fs) (a_users a)) (a_edges a) end.

Definition aexec (a : astate) (st : stmt) : astate :=
  match st with
  | SCreate u => if a_has_user a u then a else mkA (aput u [] (a_users a)) (a_edges a)
  | SDrop u =>
      if a_has_user a u
      then mkA (adel u (a_users a)) (filter (fun e => negb (seqb (fst e) u) && negb (seqb (snd e) u)) (a_edges a))
      else a
  | SGrant u l ps => a_upd a u (fun x => fold_left (fun acc p => a_add l p acc) ps x)
  | SRevoke u l ps => a_upd a u (fun x => fold_left (fun acc p => a_rem l p acc) ps x)
  | SGrantAll u l => a_upd a u (fun x => fold_left (fun acc p => a_add l p acc) (all_at l) x)
  | SRevokeAll u l => a_upd a u (a_clear l)
  | SGrantRole r u =>
      if a_has_user a u && a_has_user a r
      then mkA (a_users a) (filter (fun e => negb (edge_eqb e (r, u))) (a_edges a) ++ [(r, u)])
      else a
  | SRevokeRole r u =>
      if a_has_user a u && a_has_user a r
      then mkA (a_users a) (filter (fun e => negb (edge_eqb e (r, u))) (a_edges a))
      else a
  end.

Definition arun (a : astate) (h : list stmt) : astate := fold_left aexec h a.

(* a fact is available to u when u holds it or a role granted to u holds it *)
Definition a_own (a : astate) (u : str) (f : fact) : bool := match aget u (a_users a) with Some fs => amem f fs | None => false end.
Definition a_avail (a : astate) (u : str) (f : fact) : bool :=
  a_own a u f || existsb (fun e => seqb (snd e) u && a_own a (fst e) f) (a_edges a).

Definition aallowed (a : astate) (u : str) (ops : list op) : bool :=
  a_has_user a u &&
  (a_avail a u (FG SUPER) ||
   forallb (fun o => let '(d, t, p) := o in a_avail a u (FG p) || a_avail a u (FD d p) || a_avail a u (FT d t p)) ops).

(* ---- refinement of one privilege set ---- *)
Definition refines (ps : privset) (fs : list fact) : Prop := forall f, holds ps f = amem f fs.

Lemma refines_add l p ps fs : refines ps fs -> refines (add_at l p ps) (a_add l p fs).
Proof. intros R f. rewrite add_at_facts, R. reflexivity. Qed.

Lemma on_db_fd d p : on_db d (FD d p) = true.
Proof. cbn. apply seqb_refl. Qed.

Lemma holds_none_on_db ps d f : aget d (dbs ps) = None -> on_db d f = true -> holds ps f = false.
Proof.
  intros A O. destruct f as [q|e q|e u q]; cbn in O; [discriminate| |]; apply seqb_eq in O; subst e; cbn [holds];
    unfold has_d, has_t, db_of; rewrite A; reflexivity.
Qed.

Lemma refines_rem l p ps fs : refines ps fs -> refines (rem_at l p ps) (a_rem l p fs).
Proof.
  intros R f. destruct l as [|d|d t]; cbn [rem_at a_rem fact_at].
  - rewrite rem_global_facts, amem_filter, R. reflexivity.
  - rewrite rem_db_facts.
    set (fs' := filter (fun g => negb (fact_eqb g (FD d p))) fs).
    assert (F' : forall g, amem g fs' = negb (fact_eqb g (FD d p)) && holds ps g)
      by (intros g; unfold fs'; rewrite amem_filter, R; reflexivity).
    unfold db_keeps_entry.
    destruct (existsb (is_fd d) fs') eqn:X.
    + (* another database-level fact remains: exact removal *)
      apply existsb_exists in X. destruct X as [g [Hg Hd]]. destruct g as [q|e q|e u q]; cbn in Hd; try discriminate.
      apply seqb_eq in Hd. subst e.
      assert (Hm : amem (FD d q) fs' = true).
      { unfold amem. apply existsb_exists. exists (FD d q). split; [exact Hg|]. apply fact_eqb_eq. reflexivity. }
      rewrite F' in Hm. apply andb_prop in Hm. destruct Hm as [Hne Hh].
      cbn [holds] in Hh. unfold has_d, db_of in Hh. destruct (aget d (dbs ps)) as [ds|] eqn:A; [|discriminate].
      assert (Hq : pmem q (prem p (d_privs ds)) = true).
      { rewrite pmem_prem, Hh, andb_true_r. cbn in Hne. rewrite seqb_refl in Hne. exact Hne. }
      destruct (prem p (d_privs ds)); [discriminate|]. cbn [pempty negb]. symmetry. apply F'.
    + (* no database-level fact remains *)
      rewrite amem_filter, F'.
      assert (Hall : forall q, pmem q (prem p (d_privs (db_of ps d))) = false).
      { intros q. destruct (pmem q (prem p (d_privs (db_of ps d)))) eqn:E; [|reflexivity].
        assert (Hm : amem (FD d q) fs' = true).
        { rewrite F'. cbn [holds fact_eqb]. unfold has_d. rewrite pmem_prem in E. apply andb_prop in E. destruct E as [E1 E2].
          rewrite E2, seqb_refl, andb_true_r. exact E1. }
        unfold amem in Hm. apply existsb_exists in Hm. destruct Hm as [g [Hg He]]. apply fact_eqb_eq in He. subst g.
        assert (Y : existsb (is_fd d) fs' = true) by (apply existsb_exists; exists (FD d q); split; [exact Hg|cbn; apply seqb_refl]).
        rewrite Y in X. discriminate. }
      destruct (aget d (dbs ps)) as [ds|] eqn:A.
      * assert (Hp : pempty (prem p (d_privs ds)) = true).
        { apply pempty_spec. intros q. specialize (Hall q). unfold db_of in Hall. rewrite A in Hall. exact Hall. }
        rewrite Hp. cbn [negb]. destruct (on_db d f) eqn:O; cbn [negb andb]; [reflexivity|].
        destruct (fact_eqb f (FD d p)) eqn:E; [|reflexivity].
        apply fact_eqb_eq in E. subst f. rewrite on_db_fd in O. discriminate.
      * destruct (on_db d f) eqn:O; cbn [negb andb].
        -- rewrite (holds_none_on_db ps d f A O). rewrite andb_false_r. reflexivity.
        -- reflexivity.
  - rewrite rem_tbl_facts, amem_filter, R. reflexivity.
Qed.

Lemma refines_clear l ps fs : refines ps fs -> refines (clear_at l ps) (a_clear l fs).
Proof.
  intros R f. destruct l as [|d|d t]; cbn [clear_at a_clear]; rewrite amem_filter, <- R.
  - rewrite clear_global_facts. destruct f; reflexivity.
  - apply clear_db_facts.
  - rewrite clear_tbl_facts. destruct f; reflexivity.
Qed.

Lemma refines_fold (F : N -> privset -> privset) (G : N -> list fact -> list fact) qs :
  (forall p ps fs, refines ps fs -> refines (F p ps) (G p fs)) ->
  forall ps fs, refines ps fs ->
    refines (fold_left (fun acc p => F p acc) qs ps) (fold_left (fun acc p => G p acc) qs fs).
Proof. intros H. induction qs as [|q qs IH]; intros ps fs R; [exact R|]. cbn [fold_left]. apply IH, H, R. Qed.

(* ---- refinement of the account table ---- *)
Inductive urel : list (str * privset) -> list (str * list fact) -> Prop :=
| ur_nil : urel [] []
| ur_cons k ps fs us afs : refines ps fs -> urel us afs -> urel ((k, ps) :: us) ((k, fs) :: afs).

Lemma urel_aget us afs k : urel us afs ->
  match aget k us, aget k afs with
  | Some ps, Some fs => refines ps fs
  | None, None => True
  | _, _ => False
  end.
Proof. induction 1 as [|k0 ps fs us afs R U IH]; cbn; [exact I|]. destruct (seqb k k0); [exact R|exact IH]. Qed.

Lemma urel_aput us afs k ps fs : urel us afs -> refines ps fs -> urel (aput k ps us) (aput k fs afs).
Proof.
  induction 1 as [|k0 ps0 fs0 us afs R U IH]; intros Rn; cbn.
  - constructor; [exact Rn|constructor].
  - destruct (seqb k k0); constructor; auto.
Qed.

Lemma urel_adel us afs k : urel us afs -> urel (adel k us) (adel k afs).
Proof. induction 1 as [|k0 ps0 fs0 us afs R U IH]; cbn; [constructor|]. destruct (seqb k k0); [exact IH|constructor; auto]. Qed.

Definition srel (s : state) (a : astate) : Prop := urel (users s) (a_users a) /\ edges s = a_edges a.

Lemma srel_has_user s a u : srel s a -> has_user s u = a_has_user a u.
Proof.
  intros [U _]. unfold has_user, a_has_user. pose proof (urel_aget _ _ u U) as G.
  destruct (aget u (users s)), (aget u (a_users a)); try reflexivity; contradiction.
Qed.

Lemma srel_upd s a u F G :
  srel s a -> (forall ps fs, refines ps fs -> refines (F ps) (G fs)) -> srel (upd_user s u F) (a_upd a u G).
Proof.
  intros [U E] H. unfold upd_user, a_upd. pose proof (urel_aget _ _ u U) as X.
  destruct (aget u (users s)) as [ps|], (aget u (a_users a)) as [fs|]; try contradiction; [|split; assumption].
  split; cbn [users edges a_users a_edges]; [|exact E]. apply urel_aput; [exact U|]. apply H, X.
Qed.

Lemma aexec_sim s a st : srel s a -> srel (exec s st) (aexec a st).
Proof.
  intros R. pose proof R as [U E].
  destruct st as [u|u|u l qs|u l qs|u l|u l|r u|r u]; cbn [exec aexec].
  - rewrite <- (srel_has_user s a u R). destruct (has_user s u); [exact R|].
    split; cbn; [|exact E]. apply urel_aput; [exact U|]. intros f. destruct f; reflexivity.
  - rewrite <- (srel_has_user s a u R). destruct (has_user s u); [|exact R].
    split; cbn; [apply urel_adel; exact U|rewrite E; reflexivity].
  - apply srel_upd; [exact R|]. intros ps fs. apply (refines_fold (add_at l) (a_add l)). intros p x y. apply refines_add.
  - apply srel_upd; [exact R|]. intros ps fs. apply (refines_fold (rem_at l) (a_rem l)). intros p x y. apply refines_rem.
  - apply srel_upd; [exact R|]. intros ps fs. apply (refines_fold (add_at l) (a_add l)). intros p x y. apply refines_add.
  - apply srel_upd; [exact R|]. intros ps fs. apply refines_clear.
  - rewrite <- (srel_has_user s a u R), <- (srel_has_user s a r R). destruct (has_user s u && has_user s r); [|exact R].
    split; cbn; [exact U|rewrite E; reflexivity].
  - rewrite <- (srel_has_user s a u R), <- (srel_has_user s a r R). destruct (has_user s u && has_user s r); [|exact R].
    split; cbn; [exact U|rewrite E; reflexivity].
Qed.

Lemma arun_sim h : forall s a, srel s a -> srel (run s h) (arun a h).
Proof. induction h as [|st h IH]; intros s a R; [exact R|]. apply IH, aexec_sim, R. Qed.

(* ---- the decision ---- *)
Lemma forallb_ext' {A} (f g : A -> bool) l : (forall x, f x = g x) -> forallb f l = forallb g l.
Proof. intros H. induction l as [|x l IH]; cbn; [reflexivity|]. rewrite H, IH. reflexivity. Qed.

Lemma existsb_ext' {A} (f g : A -> bool) l : (forall x, f x = g x) -> existsb f l = existsb g l.
Proof. intros H. induction l as [|x l IH]; cbn; [reflexivity|]. rewrite H, IH. reflexivity. Qed.

Lemma srel_own s a u f : srel s a -> (match aget u (users s) with Some ps => holds ps f | None => false end) = a_own a u f.
Proof.
  intros [U _]. unfold a_own. pose proof (urel_aget _ _ u U) as G.
  destruct (aget u (users s)), (aget u (a_users a)); try contradiction; [apply G|reflexivity].
Qed.

Lemma srel_avail s a u f : srel s a -> state_wf s -> holds (active s u) f = a_has_user a u && a_avail a u f.
Proof.
  intros R W. rewrite (active_facts s u f W), (srel_has_user s a u R). f_equal.
  unfold a_avail, role_gives, privs_of. destruct R as [U E]. rewrite <- E. f_equal.
  - pose proof (srel_own s a u f (conj U E)) as O. unfold a_own in *. pose proof (urel_aget _ _ u U) as G.
    destruct (aget u (users s)), (aget u (a_users a)); try contradiction; [exact O|destruct f; reflexivity].
  - apply existsb_ext'. intros e. f_equal. apply (srel_own s a (fst e) f (conj U E)).
Qed.

Theorem allowed_sim s a u ops : srel s a -> state_wf s -> allowed s u ops = aallowed a u ops.
Proof.
  intros R W. unfold allowed, aallowed, set_has. rewrite (srel_has_user s a u R).
  destruct (a_has_user a u) eqn:Hu; cbn [andb]; [|reflexivity].
  assert (Hh : forall f, holds (active s u) f = a_avail a u f) by (intros f; rewrite (srel_avail s a u f R W), Hu; reflexivity).
  change (has_g (active s u) SUPER) with (holds (active s u) (FG SUPER)). rewrite Hh. f_equal.
  apply forallb_ext'. intros [[d t] p].
  change (has_g (active s u) p) with (holds (active s u) (FG p)).
  change (has_d (active s u) d p) with (holds (active s u) (FD d p)).
  change (has_t (active s u) d t p) with (holds (active s u) (FT d t p)).
  rewrite !Hh. reflexivity.
Qed.

Lemma init_srel : srel init ainit.
Proof. split; [constructor|reflexivity]. Qed.

(* THE simulation theorem: for every history of CREATE / DROP / GRANT / REVOKE / GRANT ALL / REVOKE ALL / GRANT role /
   REVOKE role, every account and every list of requirements, the model of the code decides as the fact machine does *)
Theorem history_simulation h u ops : allowed (run init h) u ops = aallowed (arun ainit h) u ops.
Proof. apply allowed_sim; [apply arun_sim, init_srel|apply run_wf, init_wf]. Qed.

(* where the fact machine differs from the textbook reading "REVOKE removes exactly the named fact": only at the
   database level, and only when no database-level fact of that database remains afterwards *)
Theorem a_rem_exact l p fs f :
  (match l with LD d => existsb (is_fd d) (filter (fun g => negb (fact_eqb g (fact_at l p))) fs) = true | _ => True end) ->
  amem f (a_rem l p fs) = negb (fact_eqb f (fact_at l p)) && amem f fs.
Proof.
  intros G. unfold a_rem. destruct l as [|d|d t]; [apply amem_filter| |apply amem_filter].
  rewrite G. apply amem_filter.
Qed.

Theorem a_add_exact l p fs f : amem f (a_add l p fs) = fact_eqb f (fact_at l p) || amem f fs.
Proof. reflexivity. Qed.
