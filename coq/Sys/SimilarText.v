(* Model of /repo/internal/similartext/similartext.go (C49).
   Strings are byte lists (list N).  Definitions only; proofs live in SimilarTextProofs.v. *)
From Coq Require Import List NArith Arith.
Import ListNotations.

Definition str := list N.

Definition subst_cost (x y : N) : nat := if N.eqb x y then 0 else 2.

(* one inner loop of distanceForStrings: j = 1 .. width-1.
   [up] ranges over prev[j], [diag] is prev[j-1], [left] is cur[j-1]. *)
Fixpoint fill (c : N) (tgt : str) (prevtl : list nat) (diag left : nat) : list nat :=
  match tgt, prevtl with
  | t :: tgt', up :: prevtl' =>
      let v := Nat.min (up + 1) (Nat.min (diag + subst_cost c t) (left + 1)) in
      v :: fill c tgt' prevtl' up v
  | _, _ => []
  end.

(* row i from row i-1; cur[0] = i *)
Definition next_row (c : N) (i : nat) (prev : list nat) (tgt : str) : list nat :=
  match prev with
  | d :: ptl => i :: fill c tgt ptl d i
  | [] => [i]
  end.

Fixpoint rows (src : str) (i : nat) (prev : list nat) (tgt : str) : list nat :=
  match src with
  | [] => prev
  | c :: src' => rows src' (S i) (next_row c i prev tgt) tgt
  end.

(* distanceForStrings(source, target): matrix[0][j] = j, then rows 1..len(source); result is the last cell *)
Definition distance (source target : str) : nat :=
  last (rows source 1 (seq 0 (S (length target))) target) 0.

(* ---- specification: edit distance with costs ins = del = 1, subst = 2, written on reversed prefixes ---- *)
Fixpoint edr (a b : str) {struct a} : nat :=
  match a with
  | [] => length b
  | x :: a' =>
      (fix go (b : str) : nat :=
         match b with
         | [] => length a
         | y :: b' => Nat.min (edr a' b + 1) (Nat.min (edr a' b' + subst_cost x y) (go b' + 1))
         end) b
  end.

Definition ed (a b : str) : nat := edr (rev a) (rev b).

(* edit scripts, built left to right; the third index is the cost *)
Inductive script : str -> str -> nat -> Prop :=
| s_nil : script [] [] 0
| s_del a b c x : script a b c -> script (a ++ [x]) b (c + 1)
| s_ins a b c y : script a b c -> script a (b ++ [y]) (c + 1)
| s_keep a b c x : script a b c -> script (a ++ [x]) (b ++ [x]) c
| s_sub a b c x y : x <> y -> script a b c -> script (a ++ [x]) (b ++ [y]) (c + 2).

(* ---- Find ---- *)
Definition distance_skipped : nat := 3.

(* matchMap[dist] = append(matchMap[dist], name) *)
Fixpoint bucket_add (m : list (nat * list str)) (d : nat) (name : str) : list (nat * list str) :=
  match m with
  | [] => [(d, [name])]
  | (k, l) :: m' => if Nat.eqb k d then (k, l ++ [name]) :: m' else (k, l) :: bucket_add m' d name
  end.

Fixpoint bucket_get (m : list (nat * list str)) (d : nat) : list str :=
  match m with
  | [] => []
  | (k, l) :: m' => if Nat.eqb k d then l else bucket_get m' d
  end.

Definition find_step (src : str) (st : option nat * list (nat * list str)) (name : str)
  : option nat * list (nat * list str) :=
  let '(mind, m) := st in
  let dist := distance name src in
  if Nat.leb distance_skipped dist then st
  else
    let mind' := match mind with
                 | None => Some dist
                 | Some d0 => if Nat.ltb dist d0 then Some dist else Some d0
                 end in
    (mind', bucket_add m dist name).

(* the list of suggested names ([] = no suggestion) *)
Definition find_names (names : list str) (src : str) : list str :=
  match src with
  | [] => []
  | _ =>
    let '(mind, m) := fold_left (find_step src) names (None, []) in
    match mind with
    | None => []
    | Some d => bucket_get m d
    end
  end.

Fixpoint join (sep : str) (l : list str) : str :=
  match l with
  | [] => []
  | [x] => x
  | x :: l' => x ++ sep ++ join sep l'
  end.

(* ", maybe you mean " / " or " / "?" *)
Definition s_prefix : str := [44;32;109;97;121;98;101;32;121;111;117;32;109;101;97;110;32]%N.
Definition s_or : str := [32;111;114;32]%N.
Definition s_q : str := [63]%N.

(* Find(names, src) as the Go function returns it *)
Definition find (names : list str) (src : str) : str :=
  match find_names names src with
  | [] => []
  | l => s_prefix ++ join s_or l ++ s_q
  end.
