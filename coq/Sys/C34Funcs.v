(* C34 -- model of the built-in scalar functions of sql/expression/function/*.go.
   Strings are lists of code points ([list N]); [utf8] is the byte view.  Functions that the Go code
   implements on runes ([]rune(str)) work on the code points, functions that the Go code implements on
   bytes (len(str), str[a:b], strings.Index) work on [utf8 s].  int64 arithmetic wraps ([wrap64]);
   a slice expression out of bounds is the explicit outcome [Panic]. *)
From Coq Require Import List NArith ZArith Bool Lia.
Import ListNotations.
Open Scope Z_scope.

Inductive out (A : Type) : Type :=
| Val (a : A)      (* a non-NULL result *)
| Null             (* SQL NULL *)
| Err              (* the function returned an error *)
| Panic.           (* runtime panic (slice bounds out of range) *)
Arguments Val {A} a. Arguments Null {A}. Arguments Err {A}. Arguments Panic {A}.

Definition wrap64 (z : Z) : Z := (z + 2^63) mod 2^64 - 2^63.
Definition in64 (z : Z) : Prop := - 2^63 <= z < 2^63.

Definition len {A} (l : list A) : Z := Z.of_nat (length l).
Definition take {A} (n : Z) (l : list A) : list A := firstn (Z.to_nat n) l.
Definition drop {A} (n : Z) (l : list A) : list A := skipn (Z.to_nat n) l.

(* Go's l[a:b] *)
Definition slice {A} (l : list A) (a b : Z) : out (list A) :=
  if (0 <=? a) && (a <=? b) && (b <=? len l) then Val (take (b - a) (drop a l)) else Panic.

(* ---------- UTF-8 byte view (encoding only; the drivers only feed valid strings) ---------- *)
Definition utf8_1 (c : N) : list N :=
  (if c <? 128 then [c]
   else if c <? 2048 then [192 + c / 64; 128 + c mod 64]
   else if c <? 65536 then [224 + c / 4096; 128 + (c / 64) mod 64; 128 + c mod 64]
   else [240 + c / 262144; 128 + (c / 4096) mod 64; 128 + (c / 64) mod 64; 128 + c mod 64])%N.
Definition utf8 (s : list N) : list N := flat_map utf8_1 s.

(* ---------- CHAR_LENGTH / LENGTH / CONCAT (length.go, concat.go) ---------- *)
Definition char_length (s : option (list N)) : out Z :=
  match s with None => Null | Some s => Val (len s) end.
Definition byte_length (s : option (list N)) : out Z :=
  match s with None => Null | Some s => Val (len (utf8 s)) end.

(* Concat.Eval: the first NULL argument makes the result NULL *)
Fixpoint concat {A} (args : list (option (list A))) : out (list A) :=
  match args with
  | [] => Val []
  | None :: _ => Null
  | Some a :: r => match concat r with Val b => Val (a ++ b) | o => o end
  end.

(* ---------- SUBSTRING / LEFT / RIGHT (substring.go) ---------- *)
Definition substring_core {A} (text : list A) (start : Z) (ln : option Z) : out (list A) :=
  let rc := len text in
  let length := match ln with Some l => l | None => rc end in
  let startIdx := if start <? 0 then rc + start else start - 1 in
  if (startIdx <? 0) || (rc <=? startIdx) || (length <=? 0) then Val []
  else
    let length := if rc <? wrap64 (startIdx + length) then rc - startIdx else length in
    slice text startIdx (wrap64 (startIdx + length)).

(* ln = None: two-argument form; Some None: NULL length *)
Definition substring {A} (s : option (list A)) (start : option Z) (ln : option (option Z)) : out (list A) :=
  match s, start, ln with
  | None, _, _ => Null
  | _, None, _ => Null
  | _, _, Some None => Null
  | Some t, Some st, None => substring_core t st None
  | Some t, Some st, Some (Some l) => substring_core t st (Some l)
  end.

Definition left_core {A} (text : list A) (n : Z) : list A :=
  let rc := len text in
  let length := if rc <? n then rc else n in
  if length <=? 0 then [] else take length text.
Definition right_core {A} (text : list A) (n : Z) : list A :=
  let rc := len text in
  let length := if rc <? n then rc else n in
  if length <=? 0 then [] else drop (rc - length) text.
Definition left {A} (s : option (list A)) (n : option Z) : out (list A) :=
  match s, n with Some t, Some n => Val (left_core t n) | _, _ => Null end.
Definition right {A} (s : option (list A)) (n : option Z) : out (list A) :=
  match s, n with Some t, Some n => Val (right_core t n) | _, _ => Null end.

(* ---------- REVERSE / REPEAT (reverse_repeat_replace.go) ---------- *)
Definition reverse {A} (s : option (list A)) : out (list A) :=
  match s with None => Null | Some t => Val (rev t) end.

Fixpoint repeat_list {A} (t : list A) (n : nat) : list A :=
  match n with O => [] | S k => t ++ repeat_list t k end.
Definition repeat {A} (s : option (list A)) (n : option Z) : out (list A) :=
  match s, n with
  | Some t, Some n => if n <? 0 then Err else Val (repeat_list t (Z.to_nat n))
  | _, _ => Null
  end.

(* ---------- INSTR (substring.go findSubsequence, on runes, exact comparison) ---------- *)
Fixpoint is_prefix (eqb : N -> N -> bool) (p t : list N) : bool :=
  match p, t with
  | [], _ => true
  | x :: p', y :: t' => eqb x y && is_prefix eqb p' t'
  | _ :: _, [] => false
  end.

(* first index i >= 0 (counted from [base]) at which [p] is a prefix of the rest of [t]; -1 when none.
   This is strings.Index / findSubsequence: the empty pattern is found at the current position. *)
Fixpoint index_from (p t : list N) (base : Z) : Z :=
  if is_prefix N.eqb p t then base
  else match t with [] => -1 | _ :: t' => index_from p t' (base + 1) end.
Definition index_of (p t : list N) : Z := index_from p t 0.

Definition instr (s sub : option (list N)) : out Z :=
  match s, sub with Some t, Some p => Val (index_of p t + 1) | _, _ => Null end.

(* ---------- LOCATE (locate.go; bytes, both sides lower-cased with strings.ToLower) ---------- *)
(* strings.ToLower on the code points the drivers use: ASCII and the Latin-1 letters *)
Definition lower_cp (c : N) : N :=
  (if (65 <=? c) && (c <=? 90) then c + 32
   else if (192 <=? c) && (c <=? 222) && negb (c =? 215) then c + 32 else c)%N.
Definition to_lower (s : list N) : list N := map lower_cp s.

(* strings.ToLower(str[off:]) in bytes, computed from the code points: when the byte offset falls inside
   a multi-byte character the remaining continuation bytes are invalid UTF-8, and strings.Map writes each of
   them as U+FFFD (three bytes) *)
Fixpoint lower_suffix (s : list N) (off : Z) : list N :=
  match s with
  | [] => []
  | c :: r =>
      let L := len (utf8_1 c) in
      if off <=? 0 then utf8 (to_lower s)
      else if off <? L then repeat_list [239; 191; 189]%N (Z.to_nat (L - off)) ++ utf8 (to_lower r)
      else lower_suffix r (off - L)
  end.

(* position is an int (int32 range) *)
Definition locate_core (sub str : list N) (position : Z) : out Z :=
  let bs := utf8 str in let bsub := utf8 sub in
  if (position <=? 0) || ((0 <? len bs) && (len bs <? position)) then Val 0
  else if (len bsub =? 0) && (len bs =? 0) then (if position =? 1 then Val 1 else Val 0)
  else if len bs <? position - 1 then Panic      (* str[position-1:] *)
  else
    let res := index_of (utf8 (to_lower sub)) (lower_suffix str (position - 1)) in
    if res =? -1 then Val 0 else Val (res + position).

(* pos = None: two-argument form; Some None: NULL position, which the code treats as 1 *)
Definition locate (sub str : option (list N)) (pos : option (option Z)) : out Z :=
  match sub, str with
  | Some p, Some t =>
      locate_core p t (match pos with Some (Some z) => z | _ => 1 end)
  | _, _ => Null
  end.

(* ---------- INSERT (insert.go; byte offsets) ---------- *)
Definition insert_core {A} (s : list A) (p l : Z) (n : list A) : out (list A) :=
  if p <? 1 then Val s
  else
    let startIdx := p - 1 in
    if len s <=? startIdx then Val s
    else
      let endIdx := if l <? 0 then len s
                    else let e := wrap64 (startIdx + l) in if len s <? e then len s else e in
      (* s[:startIdx] + n + s[endIdx:] *)
      match slice s endIdx (len s) with
      | Val tail => Val (take startIdx s ++ n ++ tail)
      | o => o
      end.
Definition insert (s : option (list N)) (p l : option Z) (n : option (list N)) : out (list N) :=
  match s, p, l, n with
  | Some s, Some p, Some l, Some n => insert_core (utf8 s) p l (utf8 n)
  | _, _, _, _ => Null
  end.

(* ---------- LPAD / RPAD (rpad_lpad.go padString; byte offsets) ---------- *)
Definition pad_core {A} (lpad : bool) (str : list A) (length : Z) (padStr : list A) : list A :=
  if length <=? 0 then []
  else if length <=? len str then take length str
  else if len padStr =? 0 then []
  else
    let padLen := length - len str in
    let quo := padLen / len padStr in
    let rem := padLen mod len padStr in
    if lpad then take length (repeat_list padStr (Z.to_nat quo) ++ take rem padStr ++ str)
    else let result := str ++ repeat_list padStr (Z.to_nat quo) ++ take rem padStr in
         drop (len result - length) result.
Definition pad (lpad : bool) (s : option (list N)) (n : option Z) (p : option (list N)) : out (list N) :=
  match s, n, p with
  | Some s, Some n, Some p => Val (pad_core lpad (utf8 s) n (utf8 p))
  | _, _, _ => Null
  end.

(* ---------- HEX / UNHEX (string.go hexForString, Unhex.Eval) ---------- *)
Definition hex_char (b : N) : N := (if 9 <? b then b - 10 + 65 else b + 48)%N.
Definition hex_bytes (bs : list N) : list N := flat_map (fun c => [hex_char (c / 16); hex_char (c mod 16)])%N bs.

Definition upper_byte (c : N) : N := (if (97 <=? c) && (c <=? 122) then c - 32 else c)%N.
Definition hex_val (c : N) : option N :=
  (if (48 <=? c) && (c <=? 57) then Some (c - 48)
   else if (65 <=? c) && (c <=? 70) then Some (c - 55) else None)%N.
Fixpoint unhex_pairs (s : list N) : option (list N) :=
  match s with
  | [] => Some []
  | a :: b :: r =>
      match hex_val a, hex_val b, unhex_pairs r with
      | Some x, Some y, Some t => Some (x * 16 + y :: t)%N
      | _, _, _ => None
      end
  | [_] => None
  end.
(* argument: the bytes of the string *)
Definition unhex_bytes (s : list N) : option (list N) :=
  let s := if Z.odd (len s) then 48%N :: s else s in
  unhex_pairs (map upper_byte s).

(* ---------- TO_BASE64 / FROM_BASE64 (tobase64_frombase64.go + encoding/base64 StdEncoding) ---------- *)
Definition b64_char (i : N) : N :=
  (if i <? 26 then 65 + i else if i <? 52 then 97 + (i - 26) else if i <? 62 then 48 + (i - 52)
   else if i =? 62 then 43 else 47)%N.
Definition b64_val (c : N) : option N :=
  (if (65 <=? c) && (c <=? 90) then Some (c - 65)
   else if (97 <=? c) && (c <=? 122) then Some (c - 97 + 26)
   else if (48 <=? c) && (c <=? 57) then Some (c - 48 + 52)
   else if c =? 43 then Some 62 else if c =? 47 then Some 63 else None)%N.

Fixpoint b64_encode (bs : list N) : list N :=
  (match bs with
   | [] => []
   | [a] => [b64_char (a / 4); b64_char ((a mod 4) * 16); 61; 61]
   | [a; b] => [b64_char (a / 4); b64_char ((a mod 4) * 16 + b / 16); b64_char ((b mod 16) * 4); 61]
   | a :: b :: c :: r =>
       b64_char (a / 4) :: b64_char ((a mod 4) * 16 + b / 16) :: b64_char ((b mod 16) * 4 + c / 64)
       :: b64_char (c mod 64) :: b64_encode r
   end)%N.

(* the line splitting of ToBase64.Eval: every full group of 76 characters that is followed by more
   characters gets a newline *)
Fixpoint wrap76 (fuel : nat) (s : list N) : list N :=
  match fuel with
  | O => s
  | S k => if len s <=? 76 then s else take 76 s ++ 10%N :: wrap76 k (drop 76 s)
  end.
Definition to_base64_bytes (bs : list N) : list N :=
  let e := b64_encode bs in wrap76 (length e) e.

(* StdEncoding.DecodeString: '\r' and '\n' are skipped; padding only at the end of the last quantum;
   non-strict mode (trailing bits are not checked) *)
Definition strip_nl (s : list N) : list N := filter (fun c => negb ((c =? 10) || (c =? 13))%N) s.
Fixpoint b64_decode_q (s : list N) : option (list N) :=
  match s with
  | [] => Some []
  | a :: b :: c :: d :: r =>
      if (d =? 61)%N then
        (* padding is only accepted in the last quantum *)
        match r with
        | [] =>
            if (c =? 61)%N then
              match b64_val a, b64_val b with
              | Some x, Some y => Some [(x * 4 + y / 16) mod 256]%N
              | _, _ => None
              end
            else
              match b64_val a, b64_val b, b64_val c with
              | Some x, Some y, Some z => Some [(x * 4 + y / 16) mod 256; ((y mod 16) * 16 + z / 4) mod 256]%N
              | _, _, _ => None
              end
        | _ :: _ => None
        end
      else
        match b64_val a, b64_val b, b64_val c, b64_val d, b64_decode_q r with
        | Some x, Some y, Some z, Some w, Some t =>
            Some ((x * 4 + y / 16) mod 256 :: ((y mod 16) * 16 + z / 4) mod 256 :: ((z mod 4) * 64 + w) mod 256 :: t)%N
        | _, _, _, _, _ => None
        end
  | _ => None
  end.
Definition from_base64_bytes (s : list N) : option (list N) := b64_decode_q (strip_nl s).

(* ---------- positional numbers (strconv.FormatUint / ParseUint) ---------- *)
Definition digit_char (d : Z) : N := Z.to_N (if d <? 10 then 48 + d else 55 + d).   (* upper case *)
Definition digit_val (c : N) : option Z :=
  if ((48 <=? c) && (c <=? 57))%N then Some (Z.of_N c - 48)
  else if ((65 <=? c) && (c <=? 90))%N then Some (Z.of_N c - 55)
  else if ((97 <=? c) && (c <=? 122))%N then Some (Z.of_N c - 87) else None.

(* little-endian digits; 64 units of fuel suffice below 2^64 for every base >= 2 *)
Fixpoint le_digits (fuel : nat) (b n : Z) : list Z :=
  match fuel with
  | O => []
  | S k => n mod b :: (if n / b =? 0 then [] else le_digits k b (n / b))
  end.
Definition fmt_uint (b n : Z) : list N := map digit_char (rev (le_digits 64 b n)).
Definition fmt_int (b n : Z) : list N := if n <? 0 then 45%N :: fmt_uint b (- n) else fmt_uint b n.

(* the "longest valid prefix" loop of convertFromBase over strconv.ParseUint(nVal[:i], base, 64) *)
Fixpoint parse_prefix (b : Z) (s : list N) (acc : Z) : Z :=
  match s with
  | [] => acc
  | c :: r =>
      match digit_val c with
      | Some d => if (d <? b) && (acc * b + d <? 2^64) then parse_prefix b r (acc * b + d) else acc
      | None => acc
      end
  end.

(* ---------- CONV (conv.go) ---------- *)
Definition to_u64 (z : Z) : Z := z mod 2^64.
(* result of convertFromBase: None = nil (NULL); Some (signed?, value) *)
Definition conv_from (nVal : list N) (from : Z) : option (bool * Z) :=
  match nVal with
  | [] => None
  | c0 :: rest =>
      let fromVal := Z.abs from in
      if (fromVal <? 2) || (36 <? fromVal) then None
      else
        let neg := (c0 =? 45)%N in
        let signed := neg || (c0 =? 43)%N in
        if signed && (len rest =? 0) then Some (false, 0)
        else
          let digits := if signed then rest else nVal in
          let digits :=
            if neg then
              (if 1 + len (fmt_uint fromVal (2^63)) <? len digits then fmt_uint fromVal (2^63) else digits)
            else
              (if len (fmt_uint fromVal (2^64 - 1)) <? len digits then fmt_uint fromVal (2^64 - 1) else digits) in
          let result := parse_prefix fromVal digits 0 in
          if neg then Some (true, wrap64 (- wrap64 result)) else Some (false, result)
  end.

Definition conv_to (v : bool * Z) (to : Z) : option (list N) :=
  let toVal := Z.abs to in
  if (toVal <? 2) || (36 <? toVal) then None
  else
    let '(_, z) := v in
    if to <? 0 then Some (fmt_int toVal (wrap64 z)) else Some (fmt_uint toVal (to_u64 z)).

(* n is the byte string of the first argument *)
Definition conv (n : option (list N)) (from to : option Z) : out (list N) :=
  match n, from, to with
  | Some n, Some from, Some to =>
      match conv_from n from with
      | None => Null
      | Some v => match conv_to v to with None => Null | Some r => Val r end
      end
  | _, _, _ => Null
  end.

(* ---------- INET_ATON / INET_NTOA (inet_convert.go, net.ParseIP for dotted quads) ---------- *)
(* one field: digits only, no leading zero in a multi-digit field, value <= 255 *)
Fixpoint ip_field (s : list N) (val digLen : Z) : option Z :=
  match s with
  | [] => if digLen =? 0 then None else Some val
  | c :: r =>
      if ((48 <=? c) && (c <=? 57))%N then
        if (digLen =? 1) && (val =? 0) then None
        else let v := val * 10 + (Z.of_N c - 48) in if 255 <? v then None else ip_field r v (digLen + 1)
      else None
  end.
Fixpoint split_dot (s : list N) (cur : list N) : list (list N) :=
  match s with
  | [] => [rev cur]
  | c :: r => if (c =? 46)%N then rev cur :: split_dot r [] else split_dot r (c :: cur)
  end.
Definition inet_aton_str (s : list N) : option Z :=
  match map (fun f => ip_field f 0 0) (split_dot s []) with
  | [Some a; Some b; Some c; Some d] => Some (((a * 256 + b) * 256 + c) * 256 + d)
  | _ => None
  end.
Definition inet_aton (s : option (list N)) : out Z :=
  match s with None => Null | Some s => match inet_aton_str s with Some z => Val z | None => Null end end.

Definition clamp32 (z : Z) : Z := if z <? - 2^31 then - 2^31 else if 2^31 - 1 <? z then 2^31 - 1 else z.
Definition dotted (u : Z) : list N :=
  fmt_uint 10 (u / 16777216) ++ 46%N :: fmt_uint 10 ((u / 65536) mod 256) ++ 46%N ::
  fmt_uint 10 ((u / 256) mod 256) ++ 46%N :: fmt_uint 10 (u mod 256).
(* types.Int32.Convert saturates, then uint32(int32) *)
Definition inet_ntoa (n : option Z) : out (list N) :=
  match n with None => Null | Some n => Val (dotted (clamp32 n mod 2^32)) end.

(* ---------- ROUND / TRUNCATE / CEIL / FLOOR on INT and DECIMAL ---------- *)
(* a number is m * 10^-s with s >= 0 (s = 0 for integers) *)
Inductive numkind := KSigned | KUnsigned | KDecimal.
Definition clamp_kind (k : numkind) (z : Z) : Z :=
  match k with
  | KSigned => if z <? - 2^63 then - 2^63 else if 2^63 - 1 <? z then 2^63 - 1 else z
  | KUnsigned => if z <? 0 then 0 else if 2^64 - 1 <? z then 2^64 - 1 else z
  | KDecimal => z
  end.

(* apd RoundHalfUp: half away from zero *)
Definition div_half_away (m p : Z) : Z :=
  let q := Z.abs m / p in let r := Z.abs m mod p in
  Z.sgn m * (if p <=? 2 * r then q + 1 else q).

(* Quantize to exponent -prec; the result is again (mantissa, scale >= 0) *)
Definition quantize (rnd : Z -> Z -> Z) (m s prec : Z) : Z * Z :=
  if s <=? prec then (m * 10 ^ (prec - s), prec)
  else let q := rnd m (10 ^ (s - prec)) in
       if prec <? 0 then (q * 10 ^ (- prec), 0) else (q, prec).

Definition round_prec (d : Z) : Z := if 65 <? d then 65 else if d <? -30 then -30 else d.
Definition trunc_prec (d : Z) : Z := if 0 <? d then (if 30 <? d then 30 else d) else (if d <? -65 then -65 else d).

(* integer kinds: the result is converted back (saturating); decimals keep (mantissa, scale) *)
Definition finish (k : numkind) (r : Z * Z) : Z * Z :=
  match k with
  | KDecimal => r
  | _ => (clamp_kind k (div_half_away (fst r) (10 ^ snd r)), 0)
  end.

Definition round_num (k : numkind) (x : option (Z * Z)) (d : option (option Z)) : out (Z * Z) :=
  match x, d with
  | None, _ => Null
  | _, Some None => Null
  | Some (m, s), None => Val (finish k (quantize div_half_away m s 0))
  | Some (m, s), Some (Some d) => Val (finish k (quantize div_half_away m s (round_prec d)))
  end.

Definition truncate_num (k : numkind) (x : option (Z * Z)) (d : option Z) : out (Z * Z) :=
  match x, d with
  | Some (m, s), Some d =>
      let p := trunc_prec d in
      Val (finish k (if p <? s then quantize Z.quot m s p else (m, s)))
  | _, _ => Null
  end.

Definition floor_div (m p : Z) : Z := m / p.
Definition ceil_div (m p : Z) : Z := - ((- m) / p).
(* CEIL / FLOOR: integers are returned unchanged, decimals go to BIGINT (saturating).  Ceil.Eval calls
   DecimalCtx.Ceil(num, num) with destination = source; apd's Modf then zeroes the integer part before it
   copies the fraction when the coefficient has fewer digits than the scale, so the fraction is lost and the
   result is 0 for every |x| < 0.1 written with a leading zero after the point. *)
Definition ceil_num (k : numkind) (x : option (Z * Z)) : out Z :=
  match x with
  | None => Null
  | Some (m, s) => match k with
                   | KDecimal => if Z.abs m <? 10 ^ (s - 1) then Val 0   (* aliased Modf: fraction lost *)
                                 else Val (clamp_kind KSigned (ceil_div m (10 ^ s)))
                   | _ => Val m
                   end
  end.
Definition floor_num (k : numkind) (x : option (Z * Z)) : out Z :=
  match x with
  | None => Null
  | Some (m, s) => match k with
                   | KDecimal => if Z.abs m <? 10 ^ (s - 1) then Val 0
                                 else Val (clamp_kind KSigned (floor_div m (10 ^ s)))
                   | _ => Val m
                   end
  end.
