(* Model of /repo/sql/in_mem_table/multimap.go (MultiMap, IndexedSet) and of the single-row table editor
   functions Insert/Delete/Update of multimapeditors.go (C47).  Definitions only; proofs in IndexedSetProofs.v.

   A Go map[any][]V is an association list of buckets; the bucket of a key keeps slice (insertion) order.
   The iteration order of the Go map is not modelled: VisitEntries observations are compared as bags.
   Everything is generic in the element type V, the key type K, keyer identities KId, rows R, and in the
   user-supplied functions Equals, GetKey, FromRow, UpdateWithRow. *)
From Coq Require Import List Bool Arith Permutation.
Import ListNotations.

Section IndexedSet.
  Context {V K KId R : Type}.
  Variable keq : K -> K -> bool.            (* Go's == on the map key (interface value) *)
  Variable kideq : KId -> KId -> bool.      (* Go's == on Keyer interface values *)
  Variable equals : V -> V -> bool.         (* MultiMap.Equals *)
  Variable keyfn : KId -> V -> K.           (* Keyer.GetKey *)
  Variable from_row : R -> V.               (* ValueOps.FromRow (never failing) *)
  Variable update_with_row : R -> V -> V.   (* ValueOps.UpdateWithRow (never failing) *)
  Variable add_row : R -> V -> V.           (* MultiValueOps.AddRow (never failing) *)
  Variable delete_row : R -> V -> V.        (* MultiValueOps.DeleteRow (never failing) *)
  Variable row_view : V -> V.               (* ValueOps.ToRow, the row shown as an element (observation only) *)
  Variable rows_view : V -> list V.         (* MultiValueOps.ToRows, likewise *)
  Variable keyers : list KId.               (* IndexedSet.Keyers, fixed by NewIndexedSet *)

  (* ---------------- MultiMap ---------------- *)
  Definition mmap := list (K * list V).

  Fixpoint mm_lookup (m : mmap) (k : K) : option (list V) :=
    match m with
    | [] => None
    | (k', vs) :: m' => if keq k' k then Some vs else mm_lookup m' k
    end.

  (* GetMany: a copy of the bucket, nil when absent *)
  Definition mm_get_many (m : mmap) (k : K) : list V :=
    match mm_lookup m k with Some vs => vs | None => [] end.

  (* Get: first element vp of the bucket with Equals(v, vp) *)
  Definition mm_get (m : mmap) (k : K) (v : V) : option V := find (equals v) (mm_get_many m k).

  (* Put: m.entries[k] = append(m.entries[k], v) *)
  Fixpoint mm_put (m : mmap) (k : K) (v : V) : mmap :=
    match m with
    | [] => [(k, [v])]
    | (k', vs) :: m' => if keq k' k then (k', vs ++ [v]) :: m' else (k', vs) :: mm_put m' k v
    end.

  (* Remove: keep the elements not Equals to v; delete the bucket when nothing is left; found iff one was dropped *)
  Fixpoint mm_remove (m : mmap) (k : K) (v : V) : mmap * bool :=
    match m with
    | [] => ([], false)
    | (k', vs) :: m' =>
        if keq k' k then
          (match filter (fun vp => negb (equals v vp)) vs with
           | [] => m'
           | newvs => (k', newvs) :: m'
           end, existsb (equals v) vs)
        else let '(m'', f) := mm_remove m' k v in ((k', vs) :: m'', f)
    end.

  Definition mm_entries (m : mmap) : list V := concat (map snd m).

  (* ---------------- IndexedSet ---------------- *)
  Definition iset := list mmap.     (* IndexedSet.Indexes, aligned with [keyers] *)

  Definition is_init : iset := map (fun _ => []) keyers.

  (* is.Keyers[0]; None = index out of range (an IndexedSet built with no keyers) *)
  Definition first_keyer : option KId := hd_error keyers.

  Fixpoint is_put_aux (ks : list KId) (st : iset) (v : V) : iset :=
    match ks, st with
    | kid :: ks', m :: st' => mm_put m (keyfn kid v) v :: is_put_aux ks' st' v
    | _, _ => st
    end.
  Definition is_put (st : iset) (v : V) : iset := is_put_aux keyers st v.

  (* GetMany(keyer, k): the first index whose keyer == the given one; nil when there is none *)
  Fixpoint is_get_many_aux (ks : list KId) (st : iset) (kid : KId) (k : K) : list V :=
    match ks, st with
    | x :: ks', m :: st' => if kideq x kid then mm_get_many m k else is_get_many_aux ks' st' kid k
    | _, _ => []
    end.
  Definition is_get_many (st : iset) (kid : KId) (k : K) : list V := is_get_many_aux keyers st kid k.

  (* Get(v): is.Indexes[0].Get(is.Keyers[0].GetKey(v), v); None = index-out-of-range panic (no keyers) *)
  Definition is_get (st : iset) (v : V) : option (option V) :=
    match first_keyer, st with
    | Some kid, m :: _ => Some (mm_get m (keyfn kid v) v)
    | _, _ => None
    end.

  Fixpoint is_remove_aux (ks : list KId) (st : iset) (v : V) : iset * bool :=
    match ks, st with
    | kid :: ks', m :: st' =>
        let '(m', f) := mm_remove m (keyfn kid v) v in
        let '(st'', f') := is_remove_aux ks' st' v in
        (m' :: st'', f || f')
    | _, _ => (st, false)
    end.
  Definition is_remove (st : iset) (v : V) : iset * bool := is_remove_aux keyers st v.

  Definition is_remove_all (st : iset) (vs : list V) : iset :=
    fold_left (fun s v => fst (is_remove s v)) vs st.

  (* RemoveMany(keyer, k): for EVERY index i whose keyer == the given one (no break):
     vs := Indexes[i].GetMany(k); Remove each *)
  Definition is_remove_many (st : iset) (kid : KId) (k : K) : iset :=
    fold_left (fun s (ix : nat * KId) =>
                 if kideq (snd ix) kid then is_remove_all s (mm_get_many (nth (fst ix) s []) k) else s)
              (combine (seq 0 (length keyers)) keyers) st.

  Definition is_visit (st : iset) : list V :=
    match st with m :: _ => mm_entries m | [] => [] end.

  Definition is_count (st : iset) : nat := length (is_visit st).

  Definition is_clear (st : iset) : iset := map (fun _ => []) st.

  (* ---------------- operations and observations ---------------- *)
  Inductive op :=
  | OpPut (v : V) | OpGet (v : V) | OpGetMany (kid : KId) (k : K) | OpRemove (v : V)
  | OpRemoveMany (kid : KId) (k : K) | OpCount | OpClear | OpVisit
  | OpInsert (r : R) | OpDelete (r : R) | OpUpdate (old new : R)
  | OpMInsert (r : R) | OpMDelete (r : R) | OpMUpdate (old new : R)   (* MultiInsert / MultiDelete / MultiUpdate *)
  | OpTruncate                                                         (* IndexedSetTable.Truncate: Count, then Clear *)
  | OpRows | OpMRows.                                                  (* PartitionRows: ToRows / MultiToRows *)

  Inductive obs :=
  | ONone                       (* no result *)
  | OPanic                      (* is.Keyers[0] with no keyers *)
  | OVal (x : option V)         (* Get: the stored element / not found *)
  | OList (l : list V)          (* GetMany: exact (insertion) order *)
  | ORem (x : option V)         (* Remove: Some v (the ARGUMENT, not the stored element) iff found *)
  | OCount (n : nat)
  | OBag (l : list V)           (* VisitEntries: compared as a bag *)
  | OErr (pk_violation : bool). (* editor result: an error was returned (primary key violation / ErrEntryNotFound) *)

  (* MultiInsert / MultiDelete share one shape: exactly one entry under the row's first-keyer key is replaced by
     f row entry; otherwise ErrEntryNotFound (true) and nothing changes *)
  Definition m_change (f : R -> V -> V) (st : iset) (r : R) : iset * bool :=
    match first_keyer with
    | None => (st, false)
    | Some k0 =>
        match is_get_many st k0 (keyfn k0 (from_row r)) with
        | [e1] => (is_put (fst (is_remove st e1)) (f r e1), false)
        | _ => (st, true)
        end
    end.

  Definition step (st : iset) (o : op) : iset * obs :=
    match o with
    | OpPut v => (is_put st v, ONone)
    | OpGet v => (st, match is_get st v with Some x => OVal x | None => OPanic end)
    | OpGetMany kid k => (st, OList (is_get_many st kid k))
    | OpRemove v => let '(st', f) := is_remove st v in (st', ORem (if f then Some v else None))
    | OpRemoveMany kid k => (is_remove_many st kid k, ONone)
    | OpCount => (st, OCount (is_count st))
    | OpClear => (is_clear st, ONone)
    | OpVisit => (st, OBag (is_visit st))
    | OpInsert r =>
        match first_keyer with
        | None => (st, OPanic)
        | Some k0 =>
            let e := from_row r in
            match is_get_many st k0 (keyfn k0 e) with
            | [] => (is_put st e, OErr false)
            | _ => (st, OErr true)
            end
        end
    | OpDelete r =>
        match first_keyer with
        | None => (st, OPanic)
        | Some k0 => (is_remove_many st k0 (keyfn k0 (from_row r)), OErr false)
        end
    | OpUpdate old new =>
        match first_keyer with
        | None => (st, OPanic)
        | Some k0 =>
            let e := from_row old in
            match is_get_many st k0 (keyfn k0 e) with
            | [e1] => (is_put (fst (is_remove st e)) (update_with_row new e1), OErr false)
            | es => (is_put (is_remove_all st es) (from_row new), OErr false)
            end
        end
    | OpMInsert r =>
        match first_keyer with
        | None => (st, OPanic)
        | Some _ => let '(st', e) := m_change add_row st r in (st', OErr e)
        end
    | OpMDelete r =>
        match first_keyer with
        | None => (st, OPanic)
        | Some _ => let '(st', e) := m_change delete_row st r in (st', OErr e)
        end
    | OpMUpdate old new =>      (* MultiDelete(old); on error return it; else MultiInsert(new) — the delete is NOT undone *)
        match first_keyer with
        | None => (st, OPanic)
        | Some _ =>
            let '(st1, e1) := m_change delete_row st old in
            if e1 then (st1, OErr true)
            else let '(st2, e2) := m_change add_row st1 new in (st2, OErr e2)
        end
    | OpTruncate => (is_clear st, OCount (is_count st))
    | OpRows => (st, OBag (map row_view (is_visit st)))
    | OpMRows => (st, OBag (flat_map rows_view (is_visit st)))
    end.

  Fixpoint exec (st : iset) (ops : list op) : iset * list obs :=
    match ops with
    | [] => (st, [])
    | o :: ops' => let '(st', ob) := step st o in let '(st'', obs') := exec st' ops' in (st'', ob :: obs')
    end.

  (* ---------------- specification: one bag (a list in insertion order), no indexes ---------------- *)
  Definition has_key (kid : KId) (k : K) (v : V) : bool := keq (keyfn kid v) k.

  Definition s_remove (c : list V) (v : V) : list V := filter (fun w => negb (equals v w)) c.
  Definition s_remove_all (c : list V) (vs : list V) : list V := fold_left s_remove vs c.
  Definition s_remove_many (c : list V) (kid : KId) (k : K) : list V :=
    if existsb (fun x => kideq x kid) keyers then filter (fun w => negb (has_key kid k w)) c else c.
  Definition s_get_many (c : list V) (kid : KId) (k : K) : list V :=
    if existsb (fun x => kideq x kid) keyers then filter (has_key kid k) c else [].

  Definition s_change (f : R -> V -> V) (c : list V) (r : R) : list V * bool :=
    match first_keyer with
    | None => (c, false)
    | Some k0 =>
        match filter (has_key k0 (keyfn k0 (from_row r))) c with
        | [e1] => (s_remove c e1 ++ [f r e1], false)
        | _ => (c, true)
        end
    end.

  Definition sstep (c : list V) (o : op) : list V * obs :=
    match o with
    | OpPut v => (c ++ [v], ONone)
    | OpGet v => (c, OVal (find (equals v) c))
    | OpGetMany kid k => (c, OList (s_get_many c kid k))
    | OpRemove v => (s_remove c v, ORem (if existsb (equals v) c then Some v else None))
    | OpRemoveMany kid k => (s_remove_many c kid k, ONone)
    | OpCount => (c, OCount (length c))
    | OpClear => ([], ONone)
    | OpVisit => (c, OBag c)
    | OpInsert r =>
        match first_keyer with
        | None => (c, OPanic)
        | Some k0 =>
            let e := from_row r in
            if existsb (has_key k0 (keyfn k0 e)) c then (c, OErr true) else (c ++ [e], OErr false)
        end
    | OpDelete r =>
        match first_keyer with
        | None => (c, OPanic)
        | Some k0 => (filter (fun w => negb (has_key k0 (keyfn k0 (from_row r)) w)) c, OErr false)
        end
    | OpUpdate old new =>
        match first_keyer with
        | None => (c, OPanic)
        | Some k0 =>
            let e := from_row old in
            match filter (has_key k0 (keyfn k0 e)) c with
            | [e1] => (s_remove c e ++ [update_with_row new e1], OErr false)
            | _ => (filter (fun w => negb (has_key k0 (keyfn k0 e) w)) c ++ [from_row new], OErr false)
            end
        end
    | OpMInsert r =>
        match first_keyer with
        | None => (c, OPanic)
        | Some _ => let '(c', e) := s_change add_row c r in (c', OErr e)
        end
    | OpMDelete r =>
        match first_keyer with
        | None => (c, OPanic)
        | Some _ => let '(c', e) := s_change delete_row c r in (c', OErr e)
        end
    | OpMUpdate old new =>
        match first_keyer with
        | None => (c, OPanic)
        | Some _ =>
            let '(c1, e1) := s_change delete_row c old in
            if e1 then (c1, OErr true)
            else let '(c2, e2) := s_change add_row c1 new in (c2, OErr e2)
        end
    | OpTruncate => ([], OCount (length c))
    | OpRows => (c, OBag (map row_view c))
    | OpMRows => (c, OBag (flat_map rows_view c))
    end.

  Fixpoint sexec (c : list V) (ops : list op) : list V * list obs :=
    match ops with
    | [] => (c, [])
    | o :: ops' => let '(c', ob) := sstep c o in let '(c'', obs') := sexec c' ops' in (c'', ob :: obs')
    end.

  (* the same, with Put as a mathematical set would do it *)
  Definition sstep_set (c : list V) (o : op) : list V * obs :=
    match o with
    | OpPut v => if existsb (equals v) c then (c, ONone) else (c ++ [v], ONone)
    | _ => sstep c o
    end.
  Fixpoint sexec_set (c : list V) (ops : list op) : list V * list obs :=
    match ops with
    | [] => (c, [])
    | o :: ops' => let '(c', ob) := sstep_set c o in let '(c'', obs') := sexec_set c' ops' in (c'', ob :: obs')
    end.

  (* no Put of an element Equals to one already stored (along the specification run) *)
  Fixpoint no_dup_put (c : list V) (ops : list op) : Prop :=
    match ops with
    | [] => True
    | o :: ops' =>
        match o with OpPut v => existsb (equals v) c = false | _ => True end /\ no_dup_put (fst (sstep c o)) ops'
    end.

  Definition container_op (o : op) : bool :=
    match o with
    | OpInsert _ | OpDelete _ | OpUpdate _ _ | OpMInsert _ | OpMDelete _ | OpMUpdate _ _ => false
    | _ => true
    end.
  Definition no_update (o : op) : bool :=
    match o with OpUpdate _ _ | OpMInsert _ | OpMDelete _ | OpMUpdate _ _ => false | _ => true end.
  Definition pk_safe_op (o : op) : bool :=
    match o with OpPut _ | OpUpdate _ _ | OpMInsert _ | OpMDelete _ | OpMUpdate _ _ => false | _ => true end.
  Definition editor_op (o : op) : bool :=
    match o with OpInsert _ | OpDelete _ | OpUpdate _ _ | OpGet _ | OpGetMany _ _ | OpCount | OpVisit => true | _ => false end.

  (* OperationLockingTableEditor: every Insert/Update/Delete runs under the table lock, so concurrent sessions are an
     interleaving of whole operations; StatementLockingTableEditor holds the lock from StatementBegin to
     StatementComplete, so they are an interleaving of whole statements (op lists).  [merge] builds the sequential
     history of a schedule (a list of thread numbers): each turn takes the thread's next unit. *)
  Fixpoint take_turn {A} (i : nat) (ths : list (list A)) : option A * list (list A) :=
    match ths, i with
    | [], _ => (None, [])
    | [] :: rest, O => (None, [] :: rest)
    | (u :: th) :: rest, O => (Some u, th :: rest)
    | th :: rest, S i' => let '(u, rest') := take_turn i' rest in (u, th :: rest')
    end.
  Fixpoint merge {A} (sched : list nat) (ths : list (list A)) : list A :=
    match sched with
    | [] => []
    | i :: sched' => match take_turn i ths with
                     | (Some u, ths') => u :: merge sched' ths'
                     | (None, ths') => merge sched' ths'
                     end
    end.

  (* observations agree: exactly, except VisitEntries (map iteration order) as bags *)
  Inductive obs_equiv : obs -> obs -> Prop :=
  | oe_bag l l' : Permutation.Permutation l l' -> obs_equiv (OBag l) (OBag l')
  | oe_eq o : obs_equiv o o.

  (* the contract of the container *)
  Definition contract : Prop :=
    (forall a b, keq a b = true <-> a = b) /\
    (forall a b, kideq a b = true <-> a = b) /\
    (forall v, equals v v = true) /\
    (forall v w, equals v w = true -> equals w v = true) /\
    (forall u v w, equals u v = true -> equals v w = true -> equals u w = true) /\
    (forall kid v w, In kid keyers -> equals v w = true -> keyfn kid v = keyfn kid w).

  (* pairwise not Equals / pairwise distinct primary key *)
  Definition uniq (c : list V) : Prop := ForallOrdPairs (fun a b => equals a b = false) c.
  Definition pk_uniq (c : list V) : Prop :=
    match first_keyer with
    | None => True
    | Some k0 => ForallOrdPairs (fun a b => keq (keyfn k0 a) (keyfn k0 b) = false) c
    end.
End IndexedSet.
Arguments first_keyer : simpl never.

(* ---------------- the concrete instance the driver runs (C47 correspondence and examples) ----------------
   V = 4 small numbers (a, b, c, tag); a keyer / Equals is a 4-bit field mask; the key of v under mask m is v
   with the unselected fields zeroed (Go: a [4]uint8 array, comparable);  rows are (a, b, c). *)
From Coq Require Import NArith.

Definition val4 : Type := (N * N * N * N)%type.
Definition row3 : Type := (N * N * N)%type.

Definition val4_eqb (x y : val4) : bool :=
  let '(a, b, c, d) := x in let '(a', b', c', d') := y in
  N.eqb a a' && N.eqb b b' && N.eqb c c' && N.eqb d d'.

Definition mask_key (m : N) (v : val4) : val4 :=
  let '(a, b, c, d) := v in
  ((if N.testbit m 0 then a else 0), (if N.testbit m 1 then b else 0),
   (if N.testbit m 2 then c else 0), (if N.testbit m 3 then d else 0))%N.

Definition mask_equals (em : N) (v w : val4) : bool := val4_eqb (mask_key em v) (mask_key em w).
Definition row_to_val (r : row3) : val4 := let '(a, b, c) := r in (a, b, c, 0%N).
Definition row_update (r : row3) (e : val4) : val4 := let '(a, b, c) := r in let '(_, _, _, t) := e in (a, b, c, t).
(* multi rows: field c is a small bit set of sub-rows; AddRow sets the row's bits, DeleteRow clears them *)
Definition row_add (r : row3) (e : val4) : val4 := let '(_, _, c) := r in let '(a, b, c0, t) := e in (a, b, N.lor c0 c, t).
Definition row_del (r : row3) (e : val4) : val4 := let '(_, _, c) := r in let '(a, b, c0, t) := e in (a, b, N.ldiff c0 c, t).
Definition row_of_val (v : val4) : val4 := let '(a, b, c, _) := v in (a, b, c, 0%N).
Definition rows_of_val (v : val4) : list val4 :=
  let '(a, b, c, _) := v in
  ((if N.testbit c 0 then [(a, b, 1, 0)] else []) ++ (if N.testbit c 1 then [(a, b, 2, 0)] else []))%N.

Definition op4 := @op val4 val4 N row3.
Definition obs4 := @obs val4.
Definition exec4 (em : N) (keyers : list N) : list op4 -> list (list (val4 * list val4)) * list obs4 :=
  exec val4_eqb N.eqb (mask_equals em) mask_key row_to_val row_update row_add row_del row_of_val rows_of_val keyers
       (is_init (V := val4) (K := val4) keyers).
Definition sexec4 (em : N) (keyers : list N) : list op4 -> list val4 * list obs4 :=
  sexec val4_eqb N.eqb (mask_equals em) mask_key row_to_val row_update row_add row_del row_of_val rows_of_val keyers [].
