(* C43 -- catalog model: what the memory backend + engine keep after a history of DDL, and the rows that
   information_schema / SHOW produce from it.  Mirrors (quirks included):
     memory/table.go  addColumnToSchema, dropColumnFromSchema, ModifyColumn (PkOrdinals bookkeeping), GetIndexes,
                      CreateIndex/DropIndex, AddForeignKey (database-wide name check), CreateCheck/DropCheck
     sql/plan/alter_foreign_key.go  ResolveForeignKey (index creation BEFORE the database-wide name check),
                      FindFKIndexWithPrefix
     sql/rowexec/ddl_iters.go  drop-index guard, drop-column effects
     sql/analyzer/load_triggers.go  (DROP TABLE / SHOW TRIGGERS re-parse every stored trigger)
     sql/information_schema/*.go  tablesRowIter, columnsRowIter (getIndexKeyInfo), statisticsRowIter,
                      keyColumnUsageRowIter, tableConstraintsRowIter, referentialConstraintsRowIter,
                      checkConstraintsRowIter, triggersRowIter, routinesRowIter, viewsRowIter
     sql/rowexec/show.go, show_iters.go  SHOW FULL TABLES / COLUMNS (isPriCol, isUnqCol, isMulCol) / INDEXES / TRIGGERS.
   Names are numbers (the driver encodes short identifiers big-endian, so that N order = byte order). *)
From Coq Require Import List NArith Bool Arith.
Import ListNotations.
Open Scope N_scope.

Definition name := N.

(* cty: 1 INT, 2 BIGINT, 3 VARCHAR(10), 4 VARCHAR(10) COLLATE utf8mb4_0900_ai_ci; cdef: literal DEFAULT; ccom: COMMENT (0 = none);
   csrc = Some x: hidden system column generated for a functional index over column x *)
Record col := mkcol { cname : name; cty : N; cnull : bool; cpk : bool; cdef : option N; ccom : N; csrc : option name }.
Record cspec := mkcs { sname : name; sty : N; snull : bool; sdef : option N; scom : N }.
(* itab: the table name the index was created under (Index.TableName is not updated by RENAME TABLE) *)
(* ipre: prefix lengths, [] when no key part has one, else one entry per key part AT CREATION (0 = none) *)
Record idx := mkidx { iname : name; icols : list name; iuniq : bool; itab : name; ipre : list N }.
Record chk := mkchk { kname : name; kcol : name; kbound : N }.
(* tmap: the table's index map has been allocated (a secondary index was created at some point); TableData.copy
   shares an allocated map, so an index created by a statement that later fails survives only in that case *)
Record tbl := mktbl { tname : name; tcols : list col; tpk : list nat; tidx : list idx; tchk : list chk; tmap : bool }.
Record fk := mkfk { fname : name; ftable : name; fcols : list name; fparent : name; fpcols : list name }.
Record view := mkview { vname : name; vbase : name; vcols : list name }.
Record trig := mktrig { gname : name; gtable : name; gbefore : bool; gevent : N; gref : option name }.
Record proc := mkproc { pname : name; pval : N }.
Record cat := mkcat { tables : list tbl; fks : list fk; views : list view; trigs : list trig; procs : list proc }.

Definition empty : cat := mkcat [] [] [] [] [].

Inductive pos := PLast | PFirst | PAfter (c : name).

Inductive op :=
| CreateTable (t : name) (cs : list cspec) (pk : list name)
| DropTable (t : name)
| RenameTable (t u : name)
| AddColumn (t : name) (s : cspec) (p : pos)
| DropColumn (t c : name)
| RenameColumn (t c c' : name)
| CreateIndex (t i : name) (cs : list name) (pre : list N) (uq : bool)
| CreateFnIndex (t i x : name)
| DropIndex (t i : name)
| AddPK (t : name) (cs : list name)
| DropPK (t : name)
| AddFK (t f : name) (cs : list name) (p : name) (pcs : list name)
| DropFK (t f : name)
| AddCheck (t k c : name) (b : N)
| DropCheck (t k : name)
| CreateView (v b : name) (cs : list name)
| DropView (v : name)
| CreateTrigger (g t : name) (before : bool) (ev : N) (r : option name)
| DropTrigger (g : name)
| CreateProc (p : name) (v : N)
| DropProc (p : name).

(* ---------- small helpers ---------- *)
Definition mem (n : name) (l : list name) : bool := existsb (N.eqb n) l.
Fixpoint nodupb (l : list name) : bool :=
  match l with [] => true | x :: r => negb (mem x r) && nodupb r end.
Fixpoint index_of (n : name) (l : list name) : nat :=
  match l with [] => O | x :: r => if N.eqb x n then O else S (index_of n r) end.
Fixpoint prefixb (p l : list name) : bool :=
  match p, l with
  | [], _ => true
  | x :: p', y :: l' => N.eqb x y && prefixb p' l'
  | _ :: _, [] => false
  end.
Definition isnil {A} (l : list A) : bool := match l with [] => true | _ => false end.

Definition find_tbl (n : name) (c : cat) : option tbl := find (fun t => N.eqb (tname t) n) (tables c).
Definition has_tbl (n : name) (c : cat) : bool := existsb (fun t => N.eqb (tname t) n) (tables c).
Definition has_view (n : name) (c : cat) : bool := existsb (fun v => N.eqb (vname v) n) (views c).
Definition colnames (t : tbl) : list name := map cname (tcols t).
Definition has_col (n : name) (t : tbl) : bool := mem n (colnames t).
Definition find_col (n : name) (t : tbl) : option col := find (fun x => N.eqb (cname x) n) (tcols t).
Definition has_idx (n : name) (t : tbl) : bool := existsb (fun i => N.eqb (iname i) n) (tidx t).

(* replace the table called n *)
Definition set_tbl (n : name) (t' : tbl) (ts : list tbl) : list tbl :=
  map (fun t => if N.eqb (tname t) n then t' else t) ts.
Definition with_tables (c : cat) (ts : list tbl) : cat := mkcat ts (fks c) (views c) (trigs c) (procs c).
Definition with_fks (c : cat) (l : list fk) : cat := mkcat (tables c) l (views c) (trigs c) (procs c).

(* the name the PRIMARY index is listed under ("PRIMARY" big-endian) *)
Definition PRIMARY : name := 22608472919069273.

(* primary key columns as GetIndexes computes them: Schema[ord].Name for ord in PkOrdinals *)
Definition dflt_col : col := mkcol 0 0 true false None 0 None.
Definition visible (c : col) : bool := match csrc c with None => true | Some _ => false end.
(* the hidden column of functional index i *)
Definition hid (i : name) : name := i + 4294967296.
Definition is_string (ty : N) : bool := N.eqb ty 3 || N.eqb ty 4.
Definition pk_cols (t : tbl) : list name := map (fun o => cname (nth o (tcols t) dflt_col)) (tpk t).

(* insertion sort of the secondary indexes by name (sort.Slice by ID) *)
Fixpoint ins_idx (i : idx) (l : list idx) : list idx :=
  match l with
  | [] => [i]
  | j :: r => if N.leb (iname i) (iname j) then i :: l else j :: ins_idx i r
  end.
Definition sort_idx (l : list idx) : list idx := fold_right ins_idx [] l.

(* GetIndexes: PRIMARY first (when PkOrdinals is non-empty), then the others sorted by name *)
Definition all_idx (t : tbl) : list idx :=
  (if isnil (tpk t) then [] else [mkidx PRIMARY (pk_cols t) true (tname t) []]) ++ sort_idx (tidx t).

(* ExtendedExpressions: index columns followed by the primary key columns not yet present *)
Definition ext_cols (t : tbl) (i : idx) : list name :=
  icols i ++ filter (fun c => negb (mem c (icols i))) (pk_cols t).

(* FindFKIndexWithPrefix (existence only) *)
Definition fk_index_ok (t : tbl) (cs : list name) (ext : bool) (ignore : option name) : bool :=
  existsb (fun i => (match ignore with Some g => negb (N.eqb (iname i) g) | None => true end)
                    && isnil (ipre i)      (* indexes with prefix lengths are ignored *)
                    && prefixb cs (if ext then ext_cols t i else icols i)) (all_idx t).

(* ---------- the PkOrdinals bookkeeping of memory/table.go ---------- *)
Definition bump_pk (newIdx : nat) (l : list nat) : list nat :=
  map (fun o => if Nat.leb newIdx o then S o else o) l.
Definition unbump_pk (dropped : nat) (l : list nat) : list nat :=
  map (fun o => if Nat.leb dropped o then Nat.pred o else o) l.

Fixpoint insert_at {A} (n : nat) (x : A) (l : list A) : list A :=
  match n, l with
  | O, _ => x :: l
  | S n', y :: r => y :: insert_at n' x r
  | S _, [] => [x]
  end.

Fixpoint set_nth (n : nat) (v : nat) (l : list nat) : list nat :=
  match n, l with
  | _, [] => []
  | O, _ :: r => v :: r
  | S n', y :: r => y :: set_nth n' v r
  end.

(* ModifyColumn: pkNameToOrdIdx (later assignments win), then newPkOrds[pkNameToOrdIdx[col.Name]] = ord for every
   column flagged PrimaryKey, in schema order; a name missing from the map reads as 0 *)
Fixpoint pk_name_map (i : nat) (names : list name) : list (name * nat) :=
  match names with [] => [] | n :: r => pk_name_map (S i) r ++ [(n, i)] end.
Definition pk_lookup (m : list (name * nat)) (n : name) : nat :=
  match find (fun p => N.eqb (fst p) n) m with Some p => snd p | None => O end.
Fixpoint rebuild_pk (m : list (name * nat)) (ord : nat) (cs : list col) (acc : list nat) : list nat :=
  match cs with
  | [] => acc
  | c :: r => rebuild_pk m (S ord) r (if cpk c then set_nth (pk_lookup m (cname c)) ord acc else acc)
  end.

(* ---------- triggers / views that still resolve ---------- *)
(* LoadOnly parse (SHOW TRIGGERS, DROP TABLE): the trigger's table must exist *)
Definition trig_loads (c : cat) (g : trig) : bool := has_tbl (gtable g) c.
(* full parse (information_schema.TRIGGERS): NEW.col / OLD.col must resolve as well *)
Definition trig_resolves (c : cat) (g : trig) : bool :=
  match find_tbl (gtable g) c with
  | None => false
  | Some t => match gref g with None => true | Some r => has_col r t end
  end.
Definition view_resolves (c : cat) (v : view) : bool :=
  match find_tbl (vbase v) c with
  | None => false
  | Some t => forallb (fun x => has_col x t) (vcols v)
  end.

(* ---------- one DDL statement ---------- *)
Definition ren (a b x : name) : name := if N.eqb x a then b else x.

Definition spec_col (pk : list name) (s : cspec) : col :=
  mkcol (sname s) (sty s) (snull s && negb (mem (sname s) pk)) (mem (sname s) pk) (sdef s) (scom s) None.
Definition new_table (t : name) (cs : list cspec) (pk : list name) : tbl :=
  let names := map sname cs in
  mktbl t (map (spec_col pk) cs)
        (map (fun n => index_of n names) pk) [] [] false.

Fixpoint remove_first_trig (g : name) (l : list trig) : list trig :=
  match l with [] => [] | x :: r => if N.eqb (gname x) g then r else x :: remove_first_trig g r end.

(* a table with a hidden system column is wrapped so that it no longer "supports check constraint operations":
   DROP CHECK fails, and the check guards / clean-up of RENAME COLUMN and DROP COLUMN are skipped *)
Definition has_hidden (t : tbl) : bool := existsb (fun c => negb (visible c)) (tcols t).

Definition fk_uses_col (c : cat) (t x : name) : bool :=
  (* ValidateDropColumn compares the name with fk.Columns (the CHILD columns) for declared and for referencing keys *)
  existsb (fun f => (N.eqb (ftable f) t || N.eqb (fparent f) t) && mem x (fcols f)) (fks c).

Definition drop_col_tbl (x : name) (t : tbl) : tbl :=
  let d := index_of x (colnames t) in
  mktbl (tname t) (filter (fun c => negb (N.eqb (cname c) x)) (tcols t)) (unbump_pk d (tpk t))
        (filter (fun i => negb (isnil (icols i)))
                (map (fun i => mkidx (iname i) (filter (fun c => negb (N.eqb c x)) (icols i)) (iuniq i) (itab i) (ipre i)) (tidx t)))
        (if has_hidden t then tchk t else filter (fun k => negb (N.eqb (kcol k) x)) (tchk t)) (tmap t).

Definition drop_chk_col (x : name) (t : tbl) : tbl :=
  mktbl (tname t) (tcols t) (tpk t) (tidx t) (if has_hidden t then tchk t else filter (fun k => negb (N.eqb (kcol k) x)) (tchk t)) (tmap t).

Definition rename_col_tbl (x y : name) (t : tbl) : tbl :=
  let m := pk_name_map O (pk_cols t) in
  let cs := map (fun c => if N.eqb (cname c) x then mkcol y (cty c) (cnull c) (cpk c) (cdef c) (ccom c) (csrc c) else c) (tcols t) in
  mktbl (tname t) cs (rebuild_pk m O cs (map (fun _ => O) (tpk t)))
        (map (fun i => mkidx (iname i) (map (ren x y) (icols i)) (iuniq i) (itab i) (ipre i)) (tidx t)) (tchk t) (tmap t).

Definition add_col_tbl (s : cspec) (p : pos) (t : tbl) : tbl :=
  let k := match p with PFirst => O | PLast => length (tcols t) | PAfter a => S (index_of a (colnames t)) end in
  mktbl (tname t) (insert_at k (spec_col [] s) (tcols t)) (bump_pk k (tpk t)) (tidx t) (tchk t) (tmap t).

Definition add_pk_tbl (cs : list name) (t : tbl) : tbl :=
  mktbl (tname t) (map (fun c => if mem (cname c) cs then mkcol (cname c) (cty c) false true (cdef c) (ccom c) (csrc c) else c) (tcols t))
        (map (fun n => index_of n (colnames t)) cs) (tidx t) (tchk t) (tmap t).

Definition drop_pk_tbl (t : tbl) : tbl :=
  mktbl (tname t) (map (fun c => mkcol (cname c) (cty c) (cnull c) false (cdef c) (ccom c) (csrc c)) (tcols t)) [] (tidx t) (tchk t) (tmap t).

Definition add_idx_tbl (i : idx) (t : tbl) : tbl := mktbl (tname t) (tcols t) (tpk t) (tidx t ++ [i]) (tchk t) true.
Definition drop_idx_tbl (n : name) (t : tbl) : tbl :=
  mktbl (tname t) (tcols t) (tpk t) (filter (fun i => negb (N.eqb (iname i) n)) (tidx t)) (tchk t) (tmap t).
(* CREATE INDEX i ON t ((x + 1)): a hidden generated column is appended to the schema and indexed *)
Definition add_fn_idx_tbl (i x : name) (t : tbl) : tbl :=
  let nl := match find_col x t with Some cl => cnull cl | None => true end in
  mktbl (tname t) (tcols t ++ [mkcol (hid i) 2 nl false None 0 (Some x)]) (tpk t)
        (tidx t ++ [mkidx i [hid i] false (tname t) []]) (tchk t) true.
(* DROP INDEX: the hidden column of a functional index goes with it (a DropColumn on the schema) *)
Definition drop_idx_full_tbl (n : name) (t : tbl) : tbl :=
  let t1 := drop_idx_tbl n t in
  if existsb (fun c => negb (visible c) && N.eqb (cname c) (hid n)) (tcols t1)
  then mktbl (tname t1) (filter (fun c => negb (N.eqb (cname c) (hid n))) (tcols t1))
             (unbump_pk (index_of (hid n) (colnames t1)) (tpk t1)) (tidx t1) (tchk t1) (tmap t1)
  else t1.
Definition fn_depends (x : name) (t : tbl) : bool :=
  existsb (fun c => match csrc c with Some y => N.eqb y x | None => false end) (tcols t).

Definition add_chk_tbl (k : chk) (t : tbl) : tbl := mktbl (tname t) (tcols t) (tpk t) (tidx t) (tchk t ++ [k]) (tmap t).
Definition drop_chk_tbl (n : name) (t : tbl) : tbl :=
  mktbl (tname t) (tcols t) (tpk t) (tidx t) (filter (fun k => negb (N.eqb (kname k) n)) (tchk t)) (tmap t).

Definition col_types (t : tbl) (cs : list name) : list (option N) :=
  map (fun n => option_map cty (find_col n t)) cs.
Fixpoint otys_eqb (a b : list (option N)) : bool :=
  match a, b with
  | [], [] => true
  | Some x :: a', Some y :: b' => (N.eqb x y || (is_string x && is_string y)) && otys_eqb a' b'
  | _, _ => false
  end.

(* outcome: accepted?, catalog afterwards.  A rejected statement normally leaves the catalog as it was; the one
   exception the code has (ADD FOREIGN KEY whose name is taken in another table) is modelled as it is. *)
Definition upd (c : cat) (n : name) (ok : tbl -> bool) (f : tbl -> tbl) : bool * cat :=
  match find_tbl n c with
  | None => (false, c)
  | Some t => if ok t then (true, with_tables c (set_tbl n (f t) (tables c))) else (false, c)
  end.

Definition step (o : op) (c : cat) : bool * cat :=
  match o with
  | CreateTable t cs pk =>
    let names := map sname cs in
    if negb (has_tbl t c) && negb (isnil cs) && nodupb names
       && forallb (fun n => mem n names) pk && nodupb pk
    then (* the view-name check runs after the table has been created (buildCreateTable) *)
         (negb (has_view t c), with_tables c (tables c ++ [new_table t cs pk]))
    else (false, c)
  | DropTable t =>
    if has_tbl t c && forallb (trig_loads c) (trigs c)
       && negb (existsb (fun f => N.eqb (fparent f) t && negb (N.eqb (ftable f) t)) (fks c))
    then (true, mkcat (filter (fun x => negb (N.eqb (tname x) t)) (tables c))
                      (filter (fun f => negb (N.eqb (ftable f) t)) (fks c))
                      (views c)
                      (filter (fun g => negb (N.eqb (gtable g) t)) (trigs c))
                      (procs c))
    else (false, c)
  | RenameTable t u =>
    match find_tbl t c with
    | Some x =>
      (* plan.RenameTable.RenameTable rewrites the foreign keys first, then the database refuses an existing name *)
      let fks' := map (fun f => mkfk (fname f) (ren t u (ftable f)) (fcols f) (ren t u (fparent f)) (fpcols f)) (fks c) in
      if negb (has_tbl u c)
      then (true, mkcat (set_tbl t (mktbl u (tcols x) (tpk x) (tidx x) (tchk x) (tmap x)) (tables c)) fks'
                        (views c) (trigs c) (procs c))
      else (false, with_fks c fks')
    | None => (false, c)
    end
  | AddColumn t s p =>
    (* a table left without columns: appending (no FIRST/AFTER) never places the column and panics *)
    upd c t (fun tb => negb (has_col (sname s) tb) && match p with PAfter a => has_col a tb | PLast => negb (isnil (tcols tb)) | PFirst => true end)
        (add_col_tbl s p)
  | DropColumn t x =>
    match find_tbl t c with
    | None => (false, c)
    | Some tb =>
      match find_col x tb with
      | None => (false, c)
      | Some cl =>
        if fn_depends x tb then (false, c)      (* "has a functional index dependency" *)
        else if fk_uses_col c t x || mem x (pk_cols tb) || (isnil (tpk tb) && existsb (fun i => iuniq i && mem x (icols i)) (tidx tb))
        then (* column of a foreign key (error), primary key column (as PkOrdinals has it; the PrimaryKey flag does not count once a rename
                has garbled the key) or column of a UNIQUE index of a keyless table
                (panic in the table rewrite): all after dropConstraints has removed the checks on the column *)
             (false, with_tables c (set_tbl t (drop_chk_col x tb) (tables c)))
        else (true, with_tables c (set_tbl t (drop_col_tbl x tb) (tables c)))   (* the only column may go too *)
      end
    end
  | RenameColumn t x y =>
    match upd c t (fun tb => has_col x tb && negb (has_col y tb) && (has_hidden tb || negb (existsb (fun k => N.eqb (kcol k) x) (tchk tb)))
                             && negb (fn_depends x tb))
              (rename_col_tbl x y) with
    | (true, c') =>
      (true, with_fks c' (map (fun f => mkfk (fname f) (ftable f)
                                             (if N.eqb (ftable f) t then map (ren x y) (fcols f) else fcols f)
                                             (fparent f)
                                             (if N.eqb (fparent f) t then map (ren x y) (fpcols f) else fpcols f)) (fks c')))
    | r => r
    end
  | CreateIndex t i cs pre uq =>
    upd c t (fun tb => negb (has_idx i tb) && negb (N.eqb i PRIMARY) && negb (isnil cs) && nodupb cs
                       && forallb (fun x => has_col x tb) cs
                       && (isnil pre || (Nat.eqb (length pre) (length cs) && existsb (fun l => negb (N.eqb l 0)) pre
                                         && forallb (fun p => N.eqb (snd p) 0
                                                              || (match find_col (fst p) tb with Some cl => is_string (cty cl) | None => false end
                                                                  && N.leb (snd p) 10)) (combine cs pre))))
        (add_idx_tbl (mkidx i cs uq t pre))
  | CreateFnIndex t i x =>
    upd c t (fun tb => negb (has_idx i tb) && negb (N.eqb i PRIMARY) && has_col x tb) (add_fn_idx_tbl i x)
  | DropIndex t i =>
    upd c t (fun tb => has_idx i tb
                       && forallb (fun f => negb (N.eqb (ftable f) t) || fk_index_ok tb (fcols f) false (Some i)) (fks c)
                       && forallb (fun f => negb (N.eqb (fparent f) t) || fk_index_ok tb (fpcols f) true (Some i)) (fks c))
        (drop_idx_full_tbl i)
  | AddPK t cs =>
    upd c t (fun tb => negb (existsb cpk (tcols tb)) && negb (isnil cs) && nodupb cs && forallb (fun x => has_col x tb) cs)
        (add_pk_tbl cs)
  | DropPK t =>
    upd c t (fun tb => existsb cpk (tcols tb) || isnil (tcols tb)) drop_pk_tbl
  | AddFK t f cs p pcs =>
    match find_tbl t c, find_tbl p c with
    | Some tb, Some pb =>
      if negb (isnil cs) && Nat.eqb (length cs) (length pcs) && nodupb cs && nodupb pcs
         && otys_eqb (col_types tb cs) (col_types pb pcs)
         && fk_index_ok pb pcs true None
         && negb (existsb (fun g => N.eqb (fname g) f && N.eqb (ftable g) t) (fks c))
      then
        let need := negb (fk_index_ok tb cs false None) in
        if need && (has_idx f tb || N.eqb f PRIMARY) then (false, c)
        else
          let c1 := if need then with_tables c (set_tbl t (add_idx_tbl (mkidx f cs false t []) tb) (tables c)) else c in
          if existsb (fun g => N.eqb (fname g) f) (fks c) then (false, if tmap tb then c1 else c)
          else (true, with_fks c1 (fks c1 ++ [mkfk f t cs p pcs]))
      else (false, c)
    | _, _ => (false, c)
    end
  | DropFK t f =>
    (* fkColl.DropFK goes by name alone: the key may belong to another table *)
    if has_tbl t c && existsb (fun g => N.eqb (fname g) f) (fks c)
    then (true, with_fks c (filter (fun g => negb (N.eqb (fname g) f)) (fks c))) else (false, c)
  | AddCheck t k x b =>
    upd c t (fun tb => has_col x tb && negb (existsb (fun q => N.eqb (kname q) k) (tchk tb))) (add_chk_tbl (mkchk k x b))
  | DropCheck t k =>
    (* with a functional index DROP CHECK answers "the table does not support check constraint operations" (ADD CHECK works) *)
    upd c t (fun tb => existsb (fun q => N.eqb (kname q) k) (tchk tb) && negb (has_hidden tb))
        (drop_chk_tbl k)
  | CreateView v b cs =>
    if negb (has_tbl v c) && negb (has_view v c) && negb (isnil cs) && nodupb cs && view_resolves c (mkview v b cs)
    then (true, mkcat (tables c) (fks c) (views c ++ [mkview v b cs]) (trigs c) (procs c)) else (false, c)
  | DropView v =>
    if has_view v c then (true, mkcat (tables c) (fks c) (filter (fun x => negb (N.eqb (vname x) v)) (views c)) (trigs c) (procs c))
    else (false, c)
  | CreateTrigger g t before ev r =>
    (* no uniqueness check on trigger names in the memory database *)
    if trig_resolves c (mktrig g t before ev r)
    then (true, mkcat (tables c) (fks c) (views c) (trigs c ++ [mktrig g t before ev r]) (procs c)) else (false, c)
  | DropTrigger g =>
    if existsb (fun x => N.eqb (gname x) g) (trigs c)
    then (true, mkcat (tables c) (fks c) (views c) (remove_first_trig g (trigs c)) (procs c))
    else (false, c)
  | CreateProc p v =>
    if negb (existsb (fun x => N.eqb (pname x) p) (procs c))
    then (true, mkcat (tables c) (fks c) (views c) (trigs c) (procs c ++ [mkproc p v])) else (false, c)
  | DropProc p =>
    if existsb (fun x => N.eqb (pname x) p) (procs c)
    then (true, mkcat (tables c) (fks c) (views c) (trigs c) (filter (fun x => negb (N.eqb (pname x) p)) (procs c)))
    else (false, c)
  end.

Definition exec (o : op) (c : cat) : cat := snd (step o c).
Definition run (h : list op) (c : cat) : cat := fold_left (fun c o => exec o c) h c.

(* ---------- rows (identifying + definition columns; a row is a list of numbers) ---------- *)
Definition row := list N.
Definition NUL : N := 4611686018427387904.            (* SQL NULL *)
Definition YES : N := 5850451.  Definition NO : N := 20047.  Definition EMP : N := 0.
Definition BASE : N := 1.  Definition VIEWT : N := 2.
Definition K_PRI : N := 1.  Definition K_UNI : N := 2.  Definition K_MUL : N := 3.
Definition T_PK : N := 1.  Definition T_UNIQ : N := 2.  Definition T_FK : N := 3.  Definition T_CHECK : N := 4.
Definition yesno (b : bool) : N := if b then YES else NO.
Definition bN (b : bool) : N := if b then 1 else 0.

(* TABLES / SHOW FULL TABLES: name, type *)
Definition tables_rows (c : cat) : list row :=
  map (fun t => [tname t; BASE]) (tables c) ++ map (fun v => [vname v; VIEWT]) (views c).

(* getIndexKeyInfo: later indexes overwrite earlier ones; a composite UNIQUE marks only its first column, as MUL *)
Definition key_map (t : tbl) : list (name * N) :=
  fold_left (fun m i =>
    let k := if N.eqb (iname i) PRIMARY then K_PRI else if iuniq i then K_UNI else K_MUL in
    if N.eqb k K_UNI && Nat.ltb 1 (length (icols i))
    then match icols i with x :: _ => (x, K_MUL) :: m | [] => m end
    else map (fun x => (x, k)) (rev (icols i)) ++ m) (all_idx t) [].
Definition key_lookup (m : list (name * N)) (n : name) : option N :=
  option_map snd (find (fun p => N.eqb (fst p) n) m).

(* getRowsFromTable: column key with the "UNIQUE NOT NULL shows as PRI when there is no primary key" rule *)
Fixpoint col_keys (m : list (name * N)) (hasPK : bool) (cs : list col) : list N :=
  match cs with
  | [] => []
  | c :: r =>
    if cpk c then K_PRI :: col_keys m hasPK r
    else match key_lookup m (cname c) with
         | Some k => if negb (cnull c) && negb hasPK && N.eqb k K_UNI then K_PRI :: col_keys m true r
                     else k :: col_keys m hasPK r
         | None => EMP :: col_keys m hasPK r
         end
  end.

Fixpoint number_from {A} (n : N) (l : list A) : list (N * A) :=
  match l with [] => [] | x :: r => (n, x) :: number_from (n + 1) r end.

Definition def_code (d : option N) : N := match d with Some v => v | None => NUL end.
(* COLUMNS: table, column, ordinal position, nullable, type (with collation), key, default, comment.
   The position counts hidden system columns, which are then skipped (getRowsFromTable) *)
Definition table_columns_rows (t : tbl) : list row :=
  let keys := col_keys (key_map t) (negb (isnil (tpk t))) (tcols t) in
  map (fun p => let '(n, (c, k)) := p in [tname t; cname c; n; yesno (cnull c); cty c; k; def_code (cdef c); ccom c])
      (filter (fun p => visible (fst (snd p))) (number_from 1 (combine (tcols t) keys))).
Definition view_columns_rows (c : cat) (v : view) : list row :=
  match find_tbl (vbase v) c with
  | None => []
  | Some t =>
    if forallb (fun x => has_col x t) (vcols v)
    then map (fun p => let '(n, x) := p in
                match find_col x t with
                | Some cl => [vname v; x; n; yesno (cnull cl); cty cl; EMP; def_code (cdef cl); 0]
                | None => [] end) (number_from 1 (vcols v))
    else []
  end.
Definition columns_rows (c : cat) : list row :=
  flat_map table_columns_rows (tables c) ++ flat_map (view_columns_rows c) (views c).

(* STATISTICS / SHOW INDEXES: table, non_unique, index, seq, column (NULL for an expression), nullable ("YES" or ""),
   sub_part, expression (its source column) *)
Definition col_shown (t : tbl) (x : name) : N :=
  match find_col x t with Some cl => if visible cl then x else NUL | None => x end.
Definition col_expr (t : tbl) (x : name) : N :=
  match find_col x t with Some cl => match csrc cl with Some y => y | None => NUL end | None => NUL end.
Definition sub_part (i : idx) (j : nat) : N := if isnil (ipre i) then NUL else nth j (ipre i) NUL.
Fixpoint number_nat {A} (n : nat) (l : list A) : list (nat * A) :=
  match l with [] => [] | x :: r => (n, x) :: number_nat (S n) r end.
Definition col_nullable (t : tbl) (x : name) : N :=
  match find_col x t with Some cl => if cnull cl then YES else EMP | None => EMP end.
Definition index_rows (t : tbl) (i : idx) : list row :=
  map (fun p => let '(j, x) := p in [tname t; bN (negb (iuniq i)); iname i; N.of_nat j + 1; col_shown t x; col_nullable t x;
                                     sub_part i j; col_expr t x])
      (number_nat 0 (icols i)).
Definition table_statistics_rows (t : tbl) : list row := flat_map (index_rows t) (all_idx t).
Definition statistics_rows (c : cat) : list row := flat_map table_statistics_rows (tables c).

Definition table_fks (c : cat) (t : tbl) : list fk := filter (fun f => N.eqb (ftable f) (tname t)) (fks c).

(* KEY_COLUMN_USAGE: constraint, table, column, ordinal, position_in_unique, referenced table, referenced column *)
Definition kcu_rows (c : cat) : list row :=
  flat_map (fun t =>
    flat_map (fun i => if N.eqb (iname i) PRIMARY || iuniq i
                       then map (fun p => let '(n, x) := p in [iname i; tname t; x; n; NUL; NUL; NUL]) (number_from 1 (icols i))
                       else []) (all_idx t)
    ++ flat_map (fun f => map (fun p => let '(n, (x, y)) := p in [fname f; tname t; x; n; n; fparent f; y])
                              (number_from 1 (combine (fcols f) (fpcols f)))) (table_fks c t)) (tables c).

(* TABLE_CONSTRAINTS: constraint, table, type *)
Definition table_constraints_rows (c : cat) : list row :=
  flat_map (fun t =>
    map (fun k => [kname k; tname t; T_CHECK]) (tchk t)
    ++ flat_map (fun i => if N.eqb (iname i) PRIMARY then [[iname i; tname t; T_PK]]
                          else if iuniq i then [[iname i; tname t; T_UNIQ]] else []) (all_idx t)
    ++ map (fun f => [fname f; tname t; T_FK]) (table_fks c t)) (tables c).

(* REFERENTIAL_CONSTRAINTS: constraint, unique_constraint_name, table, referenced table.
   unique_constraint_name: the LAST unique index of the parent with as many columns as there are distinct
   referenced columns and whose LAST column is a referenced column (hasAll is overwritten per column) *)
Fixpoint dedup (l : list name) : list name :=
  match l with [] => [] | x :: r => if mem x r then dedup r else x :: dedup r end.
Definition uniq_constraint (c : cat) (f : fk) : N :=
  match find_tbl (fparent f) c with
  | None => NUL
  | Some p =>
    fold_left (fun acc i =>
      if (N.eqb (iname i) PRIMARY || iuniq i) && Nat.eqb (length (icols i)) (length (dedup (fpcols f)))
         && mem (last (icols i) 0) (fpcols f) && negb (isnil (icols i))
      then iname i else acc) (all_idx p) NUL
  end.
Definition referential_rows (c : cat) : list row :=
  flat_map (fun t => map (fun f => [fname f; uniq_constraint c f; tname t; fparent f]) (table_fks c t)) (tables c).

(* CHECK_CONSTRAINTS: constraint, column, bound *)
Definition check_rows (c : cat) : list row :=
  flat_map (fun t => map (fun k => [kname k; kcol k; kbound k]) (tchk t)) (tables c).

(* VIEWS: only the views whose definition still parses and resolves are listed *)
Definition views_rows (c : cat) : list row :=
  map (fun v => vname v :: vbase v :: vcols v) (filter (view_resolves c) (views c)).

(* ROUTINES: name, body literal *)
Definition routines_rows (c : cat) : list row := map (fun p => [pname p; pval p]) (procs c).

(* TRIGGERS: the whole listing fails when one stored trigger no longer resolves.
   row: name, event, table, action order, before?, referenced column (NUL when none) *)
Definition ref_code (r : option name) : N := match r with Some x => x | None => NUL end.
Definition same_slot (x g : trig) : bool :=
  (* triggersRowIter numbers the triggers of one timing and event across ALL tables of the database *)
  Bool.eqb (gbefore x) (gbefore g) && N.eqb (gevent x) (gevent g).
Fixpoint trig_rows (before : list trig) (l : list trig) : list row :=
  match l with
  | [] => []
  | g :: r => [gname g; gevent g; gtable g; N.of_nat (length (filter (fun x => same_slot x g) before)) + 1;
               bN (gbefore g); ref_code (gref g)] :: trig_rows (before ++ [g]) r
  end.
Definition is_triggers_rows (c : cat) : option (list row) :=
  if forallb (trig_resolves c) (trigs c)
  then Some (trig_rows [] (trigs c))
  else None.
(* SHOW TRIGGERS: name, event, table, before?, referenced column *)
Definition show_triggers_rows (c : cat) : option (list row) :=
  if forallb (trig_loads c) (trigs c)
  then Some (map (fun g => [gname g; gevent g; gtable g; bN (gbefore g); ref_code (gref g)]) (trigs c))
  else None.

(* SHOW COLUMNS FROM t: field, type, null, key  (isPriCol / isUnqCol / isMulCol) *)
Definition tbl_col_nullable (t : tbl) (x : name) : bool :=
  match find_col x t with Some cl => cnull cl | None => true end.
Definition first_unique (t : tbl) : option idx := find iuniq (all_idx t).
Definition show_is_pri (t : tbl) (x : name) : bool :=
  match first_unique t with
  | None => false
  | Some i => match icols i with
              | f :: _ => N.eqb f x && forallb (fun y => negb (tbl_col_nullable t y)) (icols i)
              | [] => false end
  end.
Definition show_is_unq (t : tbl) (x : name) : bool :=
  existsb (fun i => iuniq i && match icols i with [f] => N.eqb f x | _ => false end) (all_idx t).
Definition show_is_mul (t : tbl) (x : name) : bool :=
  existsb (fun i => match icols i with f :: r => N.eqb f x && (negb (iuniq i) || negb (isnil r)) | [] => false end) (all_idx t).
Definition show_key (t : tbl) (c : col) : N :=
  if cpk c then K_PRI else if show_is_pri t (cname c) then K_PRI
  else if show_is_unq t (cname c) then K_UNI else if show_is_mul t (cname c) then K_MUL else EMP.
(* SHOW FULL COLUMNS: field, type, null, key, default, comment, collation (always the server default for text) *)
Definition show_columns_rows (t : tbl) : list row :=
  map (fun c => [cname c; cty c; yesno (cnull c); show_key t c; def_code (cdef c); ccom c; if is_string (cty c) then 1 else NUL])
      (filter visible (tcols t)).
Definition show_columns (c : cat) (n : name) : option (list row) := option_map show_columns_rows (find_tbl n c).
Definition show_index_rows (t : tbl) (i : idx) : list row :=
  (* Sub_part is never filled in by SHOW INDEXES *)
  map (fun p => let '(j, x) := p in [itab i; bN (negb (iuniq i)); iname i; N.of_nat j + 1; col_shown t x; col_nullable t x;
                                     NUL; col_expr t x])
      (number_nat 0 (icols i)).
Definition show_indexes (c : cat) (n : name) : option (list row) :=
  option_map (fun t => flat_map (show_index_rows t) (all_idx t)) (find_tbl n c).

(* SHOW CREATE TABLE t: the PRIMARY KEY (...) part list, in key order ([] when the table has no primary key) *)
(* when the table has a hidden system column the plan carries no primary key schema and produceCreateTableStatement falls
   back to the columns flagged PrimaryKey, in COLUMN order *)
Definition show_create_pk (c : cat) (n : name) : option row :=
  option_map (fun t => if has_hidden t then map cname (filter (fun x => cpk x && visible x) (tcols t)) else pk_cols t) (find_tbl n c).
