(* C38 — the SQL layer of named locks (sql/expression/function/locks.go, server/handler.go maybeReleaseAllLocks)
   as a thin layer over the atomic lock specification (Sys/Locks.v seq_step):
     GET_LOCK(name, 0)        = TryLock            -> 1 / 0
     GET_LOCK(name, t <> 0)   = Lock(t seconds)    -> 1, or 0 on ErrLockTimeout; a negative timeout never times out
     RELEASE_LOCK(name)       = Unlock             -> 1, 0 (ErrLockNotOwned), NULL (ErrLockDoesNotExist)
     IS_FREE_LOCK(name)       = GetLockState       -> 0 if LockInUse else 1
     IS_USED_LOCK(name)       = GetLockState       -> owner's connection id if LockInUse else NULL
     RELEASE_ALL_LOCKS()      = ReleaseAll         -> count
     disconnect               = ReleaseAll on a context of the closing connection (ConnectionClosed / ComResetConnection)
   NULL arguments (result NULL, no effect) are not modelled. *)
From Coq Require Import List NArith ZArith Bool Lia.
Import ListNotations.
From GMS Require Import Sys.Locks.
Open Scope N_scope.

Inductive sqlval := VNull | VInt (z : N).

Inductive sqlop :=
| SGet (n : N) (timeout : Z)
| SRel (n : N)
| SIsFree (n : N)
| SIsUsed (n : N)
| SRelAll
| SDisconnect.

(* result None = the statement does not return (GET_LOCK with a negative timeout on a lock held by another
   session waits) or returns no value (disconnect) *)
Definition sql_step (t : N) (o : sqlop) (names : list N) (s : seq_state) : seq_state * option sqlval :=
  match o with
  | SGet n tmo =>
      if Z.eqb tmo 0 then
        let '(s', r) := seq_step t (OTry n) names s in
        (s', Some (match r with RBool true => VInt 1 | _ => VInt 0 end))
      else
        let '(s', r) := seq_step t (OLock n) names s in
        match r with
        | ROk => (s', Some (VInt 1))
        | _ => if Z.ltb tmo 0 then (s', None) else (s', Some (VInt 0))
        end
  | SRel n =>
      let '(s', r) := seq_step t (OUnlock n) names s in
      (s', Some (match r with ROk => VInt 1 | RNotOwned => VInt 0 | _ => VNull end))
  | SIsFree n => (s, Some (match state_of (sget s n) with RState 1 _ => VInt 0 | _ => VInt 1 end))
  | SIsUsed n => (s, Some (match state_of (sget s n) with RState 1 o => VInt o | _ => VNull end))
  | SRelAll =>
      let '(s', r) := seq_step t ORelAll names s in
      (s', Some (match r with RCount k => VInt k | _ => VNull end))
  | SDisconnect => let '(s', _) := seq_step t ORelAll names s in (s', None)
  end.

(* the lock as GET_LOCK sees it: a missing entry is created free *)
Definition seen (s : seq_state) (n : N) : lstate := match sget s n with LNone => LFree | x => x end.

Definition holder (l : lstate) : option N := match l with LHeld t _ => Some t | _ => None end.

Lemma sget_sput s n l m : sget (sput s n l) m = if N.eqb m n then l else sget s m.
Proof. reflexivity. Qed.

(* GET_LOCK: 1 exactly when the lock is free or already ours (then it is ours with the count bumped), else 0
   (or no return for a negative timeout) and nothing changes *)
Theorem get_lock_value t n tmo names s :
  (forall l', acquire t (seen s n) = Some l' ->
     snd (sql_step t (SGet n tmo) names s) = Some (VInt 1) /\ sget (fst (sql_step t (SGet n tmo) names s)) n = l') /\
  (acquire t (seen s n) = None ->
     snd (sql_step t (SGet n tmo) names s) = (if Z.ltb tmo 0 then None else Some (VInt 0)) /\
     sget (fst (sql_step t (SGet n tmo) names s)) n = seen s n) /\
  (forall m, m <> n -> sget (fst (sql_step t (SGet n tmo) names s)) m = sget s m).
Proof.
  unfold sql_step, seq_step, seq_try, seen.
  assert (Hoth : forall l (m : N), m <> n -> sget (sput s n l) m = sget s m).
  { intros l m Hm. rewrite sget_sput. destruct (N.eqb_spec m n); [contradiction|reflexivity]. }
  destruct (acquire t match sget s n with LNone => LFree | x => x end) as [l'|] eqn:E.
  - destruct (Z.eqb tmo 0); cbn; (split; [intros l0 [= <-]; split; [reflexivity|now rewrite N.eqb_refl]|]);
      (split; [discriminate|intros m Hm; apply Hoth; exact Hm]).
  - destruct (Z.eqb_spec tmo 0) as [->|Hne]; cbn.
    + split; [discriminate|]. split; [|intros m Hm; apply Hoth; exact Hm].
      intros _. split; [reflexivity|now rewrite N.eqb_refl].
    + destruct (Z.ltb tmo 0); cbn; (split; [discriminate|]); (split; [|intros m Hm; apply Hoth; exact Hm]);
        intros _; (split; [reflexivity|now rewrite N.eqb_refl]).
Qed.

Theorem release_lock_value t n names s :
  snd (sql_step t (SRel n) names s) =
    Some (match sget s n with
          | LNone => VNull
          | LFree => VInt 0
          | LHeld t' _ => if N.eqb t' t then VInt 1 else VInt 0
          end) /\
  sget (fst (sql_step t (SRel n) names s)) n = fst (release t (sget s n)) /\
  (forall m, m <> n -> sget (fst (sql_step t (SRel n) names s)) m = sget s m).
Proof.
  unfold sql_step, seq_step. destruct (release t (sget s n)) as [l r] eqn:E. cbn.
  repeat split.
  - unfold release in E. destruct (sget s n) as [| |t' c]; try (injection E as <- <-; reflexivity).
    destruct (N.eqb t' t); injection E as <- <-; reflexivity.
  - now rewrite N.eqb_refl.
  - intros m Hm. destruct (N.eqb_spec m n); [contradiction|reflexivity].
Qed.

Theorem is_free_is_used_value t n names s :
  snd (sql_step t (SIsFree n) names s) = Some (match holder (sget s n) with Some _ => VInt 0 | None => VInt 1 end) /\
  snd (sql_step t (SIsUsed n) names s) = Some (match holder (sget s n) with Some o => VInt o | None => VNull end) /\
  fst (sql_step t (SIsFree n) names s) = s /\ fst (sql_step t (SIsUsed n) names s) = s.
Proof. cbn. destruct (sget s n); cbn; auto. Qed.

Lemma release_all1_idem t x : fst (release_all1 t (fst (release_all1 t x))) = fst (release_all1 t x).
Proof.
  destruct x as [| |t' c]; cbn; try reflexivity.
  destruct (N.eqb t' t) eqn:Eq; cbn; [reflexivity|now rewrite Eq].
Qed.

(* ReleaseAll over a list of names: every listed name held by t becomes free, nothing else changes *)
Lemma seq_relall_sget t names : forall s k m,
  sget (fst (seq_relall t s names k)) m =
    if existsb (N.eqb m) names then fst (release_all1 t (sget s m)) else sget s m.
Proof.
  induction names as [|n r IH]; intros s k m; cbn [seq_relall existsb]; [reflexivity|].
  destruct (release_all1 t (sget s n)) as [l d] eqn:E. rewrite IH, sget_sput.
  destruct (N.eqb_spec m n) as [->|Hne]; cbn [orb].
  - assert (l = fst (release_all1 t (sget s n))) as -> by now rewrite E.
    destruct (existsb (N.eqb n) r); [|reflexivity].
    apply release_all1_idem. (* releasing twice is releasing once *)
  - reflexivity.
Qed.

Definition held_by (t : N) (l : lstate) : bool := match l with LHeld t' _ => N.eqb t' t | _ => false end.

(* RELEASE_ALL_LOCKS / disconnect by session t, whose name list covers every lock it holds (C38Cover): exactly
   t's locks are freed, every other lock keeps its holder and count *)
Theorem disconnect_frees_exactly_own_locks t names s o :
  o = SRelAll \/ o = SDisconnect ->
  (forall m, held_by t (sget s m) = true -> In m names) ->
  forall m, sget (fst (sql_step t o names s)) m = if held_by t (sget s m) then LFree else sget s m.
Proof.
  intros Ho Hcov m.
  assert (fst (sql_step t o names s) = fst (seq_relall t s names 0)) as ->.
  { destruct Ho as [->| ->]; cbn; destruct (seq_relall t s names 0); reflexivity. }
  rewrite seq_relall_sget. destruct (held_by t (sget s m)) eqn:Eh.
  - assert (existsb (N.eqb m) names = true) as ->.
    { apply existsb_exists. exists m. split; [now apply Hcov|apply N.eqb_refl]. }
    destruct (sget s m) as [| |t' c]; try discriminate. cbn in *. now rewrite Eh.
  - destruct (existsb (N.eqb m) names); [|reflexivity].
    destruct (sget s m) as [| |t' c]; cbn in *; try reflexivity. now rewrite Eh.
Qed.

(* the count returned by RELEASE_ALL_LOCKS: the number of listed names held by t (names without repetition) *)
Lemma seq_relall_count t names : forall s k, NoDup names ->
  snd (seq_relall t s names k) = k + N.of_nat (length (filter (fun m => held_by t (sget s m)) names)).
Proof.
  induction names as [|n r IH]; intros s k Hnd; cbn [seq_relall filter]; [cbn; lia|].
  inversion Hnd as [|? ? Hnin Hnd']; subst.
  destruct (release_all1 t (sget s n)) as [l d] eqn:E. rewrite IH by assumption.
  assert (Hf : filter (fun m => held_by t (sget (sput s n l) m)) r = filter (fun m => held_by t (sget s m)) r).
  { apply filter_ext_in. intros m Hm. rewrite sget_sput. destruct (N.eqb_spec m n); [subst; contradiction|reflexivity]. }
  rewrite Hf. unfold release_all1 in E. destruct (sget s n) as [| |t' c]; cbn [held_by].
  1-2: injection E as <- <-; cbn; lia.
  destruct (N.eqb t' t); injection E as <- <-; cbn [length]; lia.
Qed.

Theorem release_all_locks_value t names s : NoDup names ->
  snd (sql_step t SRelAll names s) =
    Some (VInt (N.of_nat (length (filter (fun m => held_by t (sget s m)) names)))).
Proof.
  intros Hnd. cbn. destruct (seq_relall t s names 0) as [s' k] eqn:E. cbn.
  pose proof (seq_relall_count t names s 0 Hnd) as H. rewrite E in H. cbn in H. now rewrite H.
Qed.

(* re-entrancy through SQL: k+1 GET_LOCKs return 1, then k+1 RELEASE_LOCKs return 1 and the lock is free again;
   after only j <= k releases IS_USED_LOCK still reports t *)
Fixpoint sql_iter (t : N) (o : sqlop) (k : nat) (s : seq_state) : seq_state * list (option sqlval) :=
  match k with
  | O => (s, [])
  | S k' => let '(s1, v) := sql_step t o [] s in let '(s2, vs) := sql_iter t o k' s1 in (s2, v :: vs)
  end.

Lemma sql_iter_get t n tmo : forall k s c,
  sget s n = LHeld t c -> 
  snd (sql_iter t (SGet n tmo) k s) = repeat (Some (VInt 1)) k /\
  sget (fst (sql_iter t (SGet n tmo) k s)) n = LHeld t (c + N.of_nat k).
Proof.
  induction k as [|k IH]; intros s c Hs; cbn [sql_iter repeat].
  - split; [reflexivity|]. cbn. rewrite Hs. f_equal. lia.
  - destruct (sql_step t (SGet n tmo) [] s) as [s1 v] eqn:E1.
    destruct (get_lock_value t n tmo [] s) as (Hok & _ & _).
    assert (Ha : acquire t (seen s n) = Some (LHeld t (c + 1))).
    { unfold seen. rewrite Hs. cbn. now rewrite N.eqb_refl. }
    destruct (Hok _ Ha) as [Hv Hl]. rewrite E1 in Hv, Hl. cbn in Hv, Hl.
    destruct (sql_iter t (SGet n tmo) k s1) as [s2 vs] eqn:E2.
    destruct (IH s1 (c + 1) Hl) as [Hvs Hl2]. rewrite E2 in Hvs, Hl2. cbn in *.
    split; [now rewrite Hv, Hvs|]. rewrite Hl2. f_equal. lia.
Qed.

Lemma sql_iter_rel t n : forall k s c,
  sget s n = LHeld t c -> N.of_nat k <= c -> 0 < c ->
  snd (sql_iter t (SRel n) k s) = repeat (Some (VInt 1)) k /\
  sget (fst (sql_iter t (SRel n) k s)) n = (if N.eqb (N.of_nat k) c then LFree else LHeld t (c - N.of_nat k)).
Proof.
  induction k as [|k IH]; intros s c Hs Hk Hc; cbn [sql_iter repeat].
  - split; [reflexivity|]. cbn. rewrite Hs. destruct c; [lia|]. reflexivity.
  - destruct (sql_step t (SRel n) [] s) as [s1 v] eqn:E1.
    destruct (release_lock_value t n [] s) as (Hv & Hl & _). rewrite E1 in Hv, Hl. cbn in Hv, Hl.
    rewrite Hs in Hv, Hl. cbn in Hv, Hl. rewrite N.eqb_refl in Hv, Hl.
    destruct (sql_iter t (SRel n) k s1) as [s2 vs] eqn:E2. cbn [fst snd].
    destruct (N.ltb_spec 1 c) as [H1|H1]; cbn in Hl.
    + destruct (IH s1 (c - 1) Hl) as [Hvs Hl2]; [lia|lia|]. rewrite E2 in Hvs, Hl2. cbn [fst snd] in *.
      split; [cbn [repeat]; now rewrite Hv, Hvs|]. rewrite Hl2.
      destruct (N.eqb_spec (N.of_nat k) (c - 1)), (N.eqb_spec (N.of_nat (S k)) c); try lia; try reflexivity.
      f_equal. lia.
    + assert (c = 1) by lia. subst c. assert (k = 0%nat) by lia. subst k.
      cbn in E2. injection E2 as <- <-. cbn. split; [now rewrite Hv|]. exact Hl.
Qed.

Lemma sql_iter_get_free t n tmo k s :
  seen s n = LFree ->
  snd (sql_iter t (SGet n tmo) (S k) s) = repeat (Some (VInt 1)) (S k) /\
  sget (fst (sql_iter t (SGet n tmo) (S k) s)) n = LHeld t (1 + N.of_nat k).
Proof.
  intros Hfree. cbn [sql_iter].
  destruct (sql_step t (SGet n tmo) [] s) as [s0 v0] eqn:E0.
  destruct (get_lock_value t n tmo [] s) as (Hok & _ & _).
  assert (Ha : acquire t (seen s n) = Some (LHeld t 1)) by (rewrite Hfree; reflexivity).
  destruct (Hok _ Ha) as [Hv Hl]. rewrite E0 in Hv, Hl. cbn [fst snd] in Hv, Hl.
  destruct (sql_iter t (SGet n tmo) k s0) as [s1 vs] eqn:E1.
  destruct (sql_iter_get t n tmo k s0 1 Hl) as [Hvs Hl1]. rewrite E1 in Hvs, Hl1. cbn [fst snd] in *.
  split; [cbn [repeat]; now rewrite Hv, Hvs|exact Hl1].
Qed.

Theorem sql_reentrant_count t n tmo k s :
  seen s n = LFree ->
  let g := sql_iter t (SGet n tmo) (S k) s in
  snd g = repeat (Some (VInt 1)) (S k) /\
  (forall j, (j <= k)%nat ->
     snd (sql_step t (SIsUsed n) [] (fst (sql_iter t (SRel n) j (fst g)))) = Some (VInt t)) /\
  let r := sql_iter t (SRel n) (S k) (fst g) in
  snd r = repeat (Some (VInt 1)) (S k) /\ snd (sql_step t (SIsFree n) [] (fst r)) = Some (VInt 1).
Proof.
  intros Hfree g. destruct (sql_iter_get_free t n tmo k s Hfree) as [Hv Hl]. fold g in Hv, Hl.
  split; [exact Hv|]. split.
  - intros j Hj. destruct (sql_iter_rel t n j (fst g) (1 + N.of_nat k) Hl) as [_ Hlj]; [lia|lia|].
    cbn [sql_step snd]. rewrite Hlj. destruct (N.eqb_spec (N.of_nat j) (1 + N.of_nat k)); [lia|]. reflexivity.
  - intros r. destruct (sql_iter_rel t n (S k) (fst g) (1 + N.of_nat k) Hl) as [Hv2 Hl2]; [lia|lia|].
    fold r in Hv2, Hl2. split; [exact Hv2|]. cbn [sql_step snd]. rewrite Hl2.
    destruct (N.eqb_spec (N.of_nat (S k)) (1 + N.of_nat k)); [reflexivity|lia].
Qed.
