(* C44 -- whole SET statements on top of the single assignments of Sys/C44SysVars.v:
   several assignments in one statement, right-hand sides DEFAULT / @@y / @@GLOBAL.y / @@SESSION.y / @u, and the
   PERSIST / PERSIST_ONLY scopes.

   Mirrors: sql/planbuilder/set.go (setExprsToExpressions, buildSysVar, simplifySetExpr: everything that fails there
   fails BEFORE any assignment runs), sql/rowexec/rel.go buildSet (the assignments run one after the other; the first
   error stops the statement and nothing is undone), sql/core.go MysqlScope.SetValue (PERSIST = PersistGlobal then
   SetGlobal, PERSIST_ONLY = PersistGlobal), memory/session.go PersistGlobal (Convert only -- no scope / dynamic test --
   into a per-session map keyed by the name as typed), GetSessionVariableDefault (DEFAULT = the compiled default). *)
From Coq Require Import String Ascii ZArith NArith List Bool Lia Arith.
Import ListNotations.
From GMS Require Import Sys.C44SysVarsBase Sys.C44SysVars Sys.C44SysVarsProofs.
Open Scope Z_scope.

Inductive target : Type :=
| TgGlobal (x : string)                       (* SET GLOBAL x / SET @@GLOBAL.x *)
| TgSession (explicit : bool) (x : string)    (* explicit: SET @@SESSION.x;  otherwise SET SESSION x / SET x / SET @@x (same behaviour) *)
| TgUser (u : string)                         (* SET @u *)
| TgPersist (only : bool) (x : string).       (* SET PERSIST x / SET PERSIST_ONLY x *)

Inductive source : Type :=
| SrcVal (v : gval)        (* a literal; GS s is a string literal (or the bare keywords ON / OFF) *)
| SrcDefault               (* DEFAULT *)
| SrcBare (y : string)     (* @@y *)
| SrcGlobal (y : string)   (* @@GLOBAL.y *)
| SrcSession (y : string)  (* @@SESSION.y *)
| SrcUser (u : string).    (* @u *)

Definition assign : Type := (target * source)%type.

Inductive stmt : Type :=
| SNew                                   (* a new session *)
| SSet (s : nat) (l : list assign).      (* session s runs  SET a1, a2, ... *)

(* pers s name: what session s has persisted under that name (spelled as typed); GNil = nothing *)
Record xstate : Type := mkX { base : state; pers : nat -> string -> gval }.

Definition xinit (reg : list sysvar) : xstate := mkX (init reg) (fun _ _ => GNil).

Definition upd_pers (p : nat -> string -> gval) (s : nat) (x : string) (v : gval) : nat -> string -> gval :=
  fun s' x' => if Nat.eqb s s' && String.eqb x x' then v else p s' x'.

Definition is_system_type (t : vtype) : bool := match t with TOther _ => false | _ => true end.

Definition target_var (tg : target) : option string :=
  match tg with TgGlobal x | TgSession _ x | TgPersist _ x => Some x | TgUser _ => None end.

(* ---------- what the planbuilder rejects before anything runs ---------- *)
Definition build_target (reg : list sysvar) (tg : target) : outcome :=
  match tg with
  | TgGlobal x => match lookup reg x with Some _ => Accepted | None => Rejected end
  | TgSession _ x =>
      (* the parser strips the scope prefix of a target, so even SET @@SESSION.x of a GLOBAL-only x is refused only
         when the assignment runs (unlike a READ of @@SESSION.x, see build_source) *)
      match lookup reg x with Some _ => Accepted | None => Rejected end    (* ErrUnknownSystemVariable *)
  | TgUser _ | TgPersist _ _ => Accepted
  end.

Definition build_source (reg : list sysvar) (tg : target) (src : source) : outcome :=
  match src with
  | SrcVal (GS str) =>
      (* simplifySetExpr converts a string literal with the variable's system type while building *)
      match target_var tg with
      | None => Accepted
      | Some x =>
          match lookup reg x with
          | None => Accepted
          | Some sv =>
              if is_system_type (v_type sv)
              then match convert (v_type sv) (GS str) with Ok _ => Accepted | Err => Rejected | Unm => Unmodelled end
              else Accepted
          end
      end
  | SrcVal _ => Accepted
  | SrcDefault =>
      match tg with
      | TgUser _ => Rejected              (* ErrUserVariableNoDefault *)
      | TgPersist _ _ => Rejected         (* unsupported feature *)
      | _ => Accepted
      end
  | SrcBare y | SrcGlobal y => match lookup reg y with Some _ => Accepted | None => Unmodelled end
  | SrcSession y =>
      match lookup reg y with
      | None => Unmodelled
      | Some sv => if scope_eqb (v_scope sv) ScGlobal then Rejected else Accepted
      end
  | SrcUser _ => Accepted
  end.

Definition build_assign (reg : list sysvar) (a : assign) : outcome :=
  match build_target reg (fst a) with
  | Accepted => build_source reg (fst a) (snd a)
  | o => o
  end.

Fixpoint build_all (reg : list sysvar) (l : list assign) : outcome :=
  match l with
  | [] => Accepted
  | a :: r => match build_assign reg a with Accepted => build_all reg r | o => o end
  end.

(* ---------- the value a right-hand side evaluates to, when its assignment runs ---------- *)
Definition rd_res (r : rd) : res := match r with RVal v => Ok v | _ => Err end.

Definition shown_rd (reg : list sysvar) (y : string) (r : rd) : rd :=
  match r with RVal v => RVal (shown reg y v) | o => o end.

Definition resolve (reg : list sysvar) (st : state) (s : nat) (tg : target) (src : source) : res :=
  match src with
  | SrcVal v => Ok v
  | SrcDefault =>
      match target_var tg with
      | Some x => match lookup reg x with Some sv => Ok (v_default sv) | None => Err end
      | None => Err
      end
  | SrcBare y => rd_res (shown_rd reg y (read_bare st s y))
  | SrcGlobal y => Ok (shown reg y (get_global st y))
  | SrcSession y => rd_res (shown_rd reg y (read_session reg st s y))
  | SrcUser u => rd_res (get_user st s u)
  end.

Definition lift (p : nat -> string -> gval) (r : state * outcome) : xstate * outcome := (mkX (fst r) p, snd r).

Definition exec_assign (reg : list sysvar) (xs : xstate) (s : nat) (a : assign) : xstate * outcome :=
  match resolve reg (base xs) s (fst a) (snd a) with
  | Err => (xs, Rejected)
  | Unm => (xs, Unmodelled)
  | Ok v =>
      match fst a with
      | TgGlobal x => lift (pers xs) (step reg (base xs) (SetGlobal s x v))
      | TgSession _ x => lift (pers xs) (step reg (base xs) (SetSession s x v))
      | TgUser u => lift (pers xs) (step reg (base xs) (SetUser s u v))
      | TgPersist only x =>
          match lookup reg x with
          | None => (xs, Rejected)
          | Some sv =>
              match convert (v_type sv) v with
              | Ok v' =>
                  let p' := upd_pers (pers xs) s x v' in
                  if only then (mkX (base xs) p', Accepted)
                  else lift p' (step reg (base xs) (SetGlobal s x v))   (* persisted even when SET GLOBAL then fails *)
              | Err => (xs, Rejected)
              | Unm => (xs, Unmodelled)
              end
          end
      end
  end.

Fixpoint exec_list (reg : list sysvar) (xs : xstate) (s : nat) (l : list assign) : xstate * outcome :=
  match l with
  | [] => (xs, Accepted)
  | a :: r =>
      match exec_assign reg xs s a with
      | (xs', Accepted) => exec_list reg xs' s r
      | other => other                       (* the statement stops; what ran before stays *)
      end
  end.

Definition exec_stmt (reg : list sysvar) (xs : xstate) (c : stmt) : xstate * outcome :=
  match c with
  | SNew => lift (pers xs) (step reg (base xs) NewSession)
  | SSet s l =>
      if negb (valid_session (base xs) s) then (xs, Unmodelled) else
      match build_all reg l with
      | Accepted => exec_list reg xs s l
      | o => (xs, o)
      end
  end.

Fixpoint xrun (reg : list sysvar) (xs : xstate) (cs : list stmt) : xstate :=
  match cs with
  | [] => xs
  | c :: r => xrun reg (fst (exec_stmt reg xs c)) r
  end.

(* ====================== proofs ====================== *)
Section StmtProofs.
Variable reg : list sysvar.
Opaque step.

(* a statement the planbuilder refuses changes nothing, wherever the offending assignment stands *)
Theorem build_failure_no_effect : forall xs s l o,
  build_all reg l = o -> o <> Accepted -> exec_stmt reg xs (SSet s l) = (xs, o) \/ exec_stmt reg xs (SSet s l) = (xs, Unmodelled).
Proof.
  intros xs s l o Hb Hn. simpl. destruct (negb (valid_session (base xs) s)); [right; reflexivity|].
  left. rewrite Hb. destruct o; auto. contradiction.
Qed.

(* the assignments run in order; the statement is exactly the run of its prefix up to the first failing one *)
Theorem exec_list_cons : forall xs s a l,
  exec_list reg xs s (a :: l) =
  match exec_assign reg xs s a with
  | (xs', Accepted) => exec_list reg xs' s l
  | other => other
  end.
Proof. reflexivity. Qed.

Theorem exec_list_app_fail : forall l1 xs s a l2 xs1 xs2 o,
  exec_list reg xs s l1 = (xs1, Accepted) -> exec_assign reg xs1 s a = (xs2, o) -> o <> Accepted ->
  exec_list reg xs s (l1 ++ a :: l2) = (xs2, o).
Proof.
  induction l1 as [|b r IH]; intros xs s a l2 xs1 xs2 o H1 H2 Hn; simpl in *.
  - inversion H1. subst. rewrite H2. destruct o; auto. contradiction.
  - destruct (exec_assign reg xs s b) as [xb ob]. destruct ob; try discriminate. eapply IH; eauto.
Qed.

Theorem exec_list_app_ok : forall l1 xs s l2 xs1,
  exec_list reg xs s l1 = (xs1, Accepted) -> exec_list reg xs s (l1 ++ l2) = exec_list reg xs1 s l2.
Proof.
  induction l1 as [|b r IH]; intros xs s l2 xs1 H1; simpl in *.
  - inversion H1. reflexivity.
  - destruct (exec_assign reg xs s b) as [xb ob]. destruct ob; try discriminate. eapply IH; eauto.
Qed.

(* a failing assignment itself has no effect -- except SET PERSIST, which has persisted before SET GLOBAL refuses *)
Theorem failing_assign_no_effect : forall xs s tg src xs',
  exec_assign reg xs s (tg, src) = (xs', Rejected) ->
  (forall x, tg <> TgPersist false x) -> xs' = xs.
Proof.
  intros xs s tg src xs' H Hp. unfold exec_assign in H. simpl fst in H. simpl snd in H.
  destruct (resolve reg (base xs) s tg src) as [v| |]; [|inversion H; auto|inversion H].
  destruct tg as [x|e x|u|only x].
  - unfold lift in H. destruct (step reg (base xs) (SetGlobal s x v)) as [st' o] eqn:E. simpl in H.
    inversion H. subst. apply rejected_no_effect in E. subst. destruct xs; reflexivity.
  - unfold lift in H. destruct (step reg (base xs) (SetSession s x v)) as [st' o] eqn:E. simpl in H.
    inversion H. subst. apply rejected_no_effect in E. subst. destruct xs; reflexivity.
  - unfold lift in H. destruct (step reg (base xs) (SetUser s u v)) as [st' o] eqn:E. simpl in H.
    inversion H. subst. apply rejected_no_effect in E. subst. destruct xs; reflexivity.
  - destruct only; [|exfalso; eapply Hp; reflexivity].
    destruct (lookup reg x) as [sv|]; [|inversion H; auto].
    destruct (convert (v_type sv) v); inversion H; auto.
Qed.

(* SET PERSIST_ONLY never touches the running values *)
Theorem persist_only_keeps_values : forall xs s x src xs' o,
  exec_assign reg xs s (TgPersist true x, src) = (xs', o) -> base xs' = base xs.
Proof.
  intros xs s x src xs' o H. unfold exec_assign in H. simpl fst in H. simpl snd in H.
  destruct (resolve reg (base xs) s (TgPersist true x) src); try (inversion H; reflexivity).
  destruct (lookup reg x) as [sv|]; [|inversion H; reflexivity].
  destruct (convert (v_type sv) v); inversion H; reflexivity.
Qed.

(* SET PERSIST x = v: the persisted value is convert(v) whatever SET GLOBAL then says; when the statement succeeds the
   global value is convert(v) too *)
Theorem persist_semantics : forall xs s x v xs' o sv v',
  lookup reg x = Some sv -> convert (v_type sv) v = Ok v' ->
  exec_assign reg xs s (TgPersist false x, SrcVal v) = (xs', o) ->
  pers xs' s x = v' /\ (o = Accepted -> get_global (base xs') x = v').
Proof.
  intros xs s x v xs' o sv v' Hl Hc H. unfold exec_assign in H. simpl in H. rewrite Hl, Hc in H.
  unfold lift in H. destruct (step reg (base xs) (SetGlobal s x v)) as [st' o'] eqn:E. simpl in H.
  inversion H. subst. simpl. split.
  - unfold upd_pers. rewrite Nat.eqb_refl, String.eqb_refl. reflexivity.
  - intros ->. destruct (set_global_roundtrip reg (base xs) s x v st' E) as [sv2 [v2 [Hl2 [Hc2 [_ [Hg _]]]]]].
    rewrite Hl in Hl2. inversion Hl2 as [Hsv]. rewrite <- Hsv in Hc2. rewrite Hc in Hc2.
    inversion Hc2 as [Hv]. exact Hg.
Qed.

Lemma exec_list_single : forall xs s a, exec_list reg xs s [a] = exec_assign reg xs s a.
Proof. intros xs s a. simpl. destruct (exec_assign reg xs s a) as [x o]. destruct o; reflexivity. Qed.

Lemma lift_same : forall xs o, lift (pers xs) (base xs, o) = (xs, o).
Proof. intros [b p] o. reflexivity. Qed.

(* one literal assignment is the single-assignment step of Sys/C44SysVars.v (so every theorem about [step] applies) *)
Theorem single_literal_is_step_session : forall xs s e x v,
  valid_session (base xs) s = true ->
  (forall sv, lookup reg x = Some sv -> convert (v_type sv) v <> Unm) ->
  exec_stmt reg xs (SSet s [(TgSession e x, SrcVal v)]) = lift (pers xs) (step reg (base xs) (SetSession s x v)).
Proof.
  intros xs s e x v Hs Hu. unfold exec_stmt. rewrite Hs. cbn [negb build_all]. unfold build_assign, build_target. cbn [fst snd].
  destruct (lookup reg x) as [sv|] eqn:Hl.
  - cbv iota. specialize (Hu sv eq_refl).
    assert (Hrun : exec_list reg xs s [(TgSession e x, SrcVal v)] = lift (pers xs) (step reg (base xs) (SetSession s x v))).
    { rewrite exec_list_single. reflexivity. }
    destruct v as [|b|k z|n d|n d|str|str]; cbn [build_source target_var]; cbv iota; try exact Hrun.
    rewrite Hl. cbv iota. destruct (is_system_type (v_type sv)); cbv iota; [|exact Hrun].
    destruct (convert (v_type sv) (GS str)) eqn:Hc; cbv iota; [exact Hrun| |contradiction].
    destruct (invalid_rejected reg (base xs) s x (GS str) sv Hs Hl Hc) as [H1 _]. rewrite H1. symmetry. apply lift_same.
  - cbv iota. destruct (unknown_rejected reg (base xs) s x v Hs Hl) as [H1 _]. rewrite H1. symmetry. apply lift_same.
Qed.

Theorem single_literal_is_step_global : forall xs s x v,
  valid_session (base xs) s = true ->
  (forall sv, lookup reg x = Some sv -> convert (v_type sv) v <> Unm) ->
  exec_stmt reg xs (SSet s [(TgGlobal x, SrcVal v)]) = lift (pers xs) (step reg (base xs) (SetGlobal s x v)).
Proof.
  intros xs s x v Hs Hu. unfold exec_stmt. rewrite Hs. cbn [negb build_all]. unfold build_assign, build_target. cbn [fst snd].
  destruct (lookup reg x) as [sv|] eqn:Hl.
  - cbv iota. specialize (Hu sv eq_refl).
    assert (Hrun : exec_list reg xs s [(TgGlobal x, SrcVal v)] = lift (pers xs) (step reg (base xs) (SetGlobal s x v))).
    { rewrite exec_list_single. reflexivity. }
    destruct v as [|b|k z|n d|n d|str|str]; cbn [build_source target_var]; cbv iota; try exact Hrun.
    rewrite Hl. cbv iota. destruct (is_system_type (v_type sv)); cbv iota; [|exact Hrun].
    destruct (convert (v_type sv) (GS str)) eqn:Hc; cbv iota; [exact Hrun| |contradiction].
    destruct (invalid_rejected reg (base xs) s x (GS str) sv Hs Hl Hc) as [_ H1]. rewrite H1. symmetry. apply lift_same.
  - cbv iota. destruct (unknown_rejected reg (base xs) s x v Hs Hl) as [_ H1]. rewrite H1. symmetry. apply lift_same.
Qed.

(* SET SESSION x = DEFAULT assigns the compiled default of x (not the current global value) *)
Theorem set_default_assigns_compiled_default : forall xs s x sv xs',
  lookup reg x = Some sv ->
  exec_assign reg xs s (TgSession false x, SrcDefault) = (xs', Accepted) ->
  exists v', convert (v_type sv) (v_default sv) = Ok v' /\ read_bare (base xs') s x = RVal v'.
Proof.
  intros xs s x sv xs' Hl H. unfold exec_assign in H. simpl in H. rewrite Hl in H.
  unfold lift in H. destruct (step reg (base xs) (SetSession s x (v_default sv))) as [st' o] eqn:E. simpl in H.
  inversion H. subst.
  destruct (set_session_roundtrip reg (base xs) s x (v_default sv) st' E) as [sv2 [v2 [Hl2 [Hc2 [_ [Hr _]]]]]].
  rewrite Hl in Hl2. inversion Hl2 as [Hsv]. subst sv2. exists v2. split; [exact Hc2|simpl; exact Hr].
Qed.

(* SET @@SESSION.x = @@GLOBAL.x: the session value becomes convert(what @@GLOBAL.x shows) *)
Theorem copy_global_to_session : forall xs s e x xs',
  exec_assign reg xs s (TgSession e x, SrcGlobal x) = (xs', Accepted) ->
  exists sv v', lookup reg x = Some sv /\
    convert (v_type sv) (shown reg x (get_global (base xs) x)) = Ok v' /\
    read_bare (base xs') s x = RVal v' /\
    (forall y, get_global (base xs') y = get_global (base xs) y).
Proof.
  intros xs s e x xs' H. unfold exec_assign in H. simpl in H.
  unfold lift in H. destruct (step reg (base xs) (SetSession s x (shown reg x (get_global (base xs) x)))) as [st' o] eqn:E.
  simpl in H. inversion H. subst.
  destruct (set_session_roundtrip reg (base xs) s x _ st' E) as [sv [v' [Hl [Hc [_ [Hr _]]]]]].
  exists sv, v'. repeat split; auto.
  intros y. destruct (set_session_isolation reg (base xs) s x _ st' Accepted E) as [Hg _]. apply Hg.
Qed.

(* ... and that is the global value itself for the numeric and string types (Convert is the identity on them) *)
Theorem copy_global_to_session_same : forall xs s e x xs' sv,
  lookup reg x = Some sv ->
  match v_type sv with TBool | TInt _ _ _ | TUint _ _ | TDouble _ _ | TString => True | _ => False end ->
  bounds_ok (v_type sv) = true -> has_type (v_type sv) (get_global (base xs) x) ->
  exec_assign reg xs s (TgSession e x, SrcGlobal x) = (xs', Accepted) ->
  read_bare (base xs') s x = RVal (get_global (base xs) x).
Proof.
  intros xs s e x xs' sv Hl Hk Hb Ht H.
  destruct (copy_global_to_session xs s e x xs' H) as [sv2 [v' [Hl2 [Hc [Hr _]]]]].
  rewrite Hl in Hl2. inversion Hl2. subst sv2.
  assert (Hs : shown reg x (get_global (base xs) x) = get_global (base xs) x).
  { unfold shown. rewrite Hl. destruct (v_type sv); try contradiction; reflexivity. }
  rewrite Hs in Hc. rewrite (convert_idempotent_num (v_type sv) _ Hk Hb Ht) in Hc. inversion Hc. subst. exact Hr.
Qed.

Theorem user_assign_accepted : forall xs s u src v,
  valid_session (base xs) s = true -> resolve reg (base xs) s (TgUser u) src = Ok v ->
  exec_assign reg xs s (TgUser u, src) = (mkX (fst (step reg (base xs) (SetUser s u v))) (pers xs), Accepted).
Proof.
  intros xs s u src v Hs Hr. unfold exec_assign. simpl fst. simpl snd. rewrite Hr. unfold lift.
  destruct (set_user_roundtrip reg (base xs) s u v Hs) as [Ha _]. rewrite Ha. reflexivity.
Qed.

(* SET @u = <literal | @@y | @@GLOBAL.y | @v>: SELECT @u is exactly the value the right-hand side had, whatever its
   Go type (integer kinds, decimal, float, string, NULL) *)
Theorem user_assign_returns_value : forall xs s u src v,
  valid_session (base xs) s = true -> resolve reg (base xs) s (TgUser u) src = Ok v ->
  let r := exec_assign reg xs s (TgUser u, src) in
  snd r = Accepted /\ get_user (base (fst r)) s u = RVal v.
Proof.
  intros xs s u src v Hs Hr. cbv zeta. rewrite (user_assign_accepted xs s u src v Hs Hr). simpl.
  split; [reflexivity|]. destruct (set_user_roundtrip reg (base xs) s u v Hs) as [_ [Hg _]]. exact Hg.
Qed.

Transparent step.
End StmtProofs.
