(* C33 - agreement laws between REGEXP_LIKE / REGEXP_INSTR / REGEXP_SUBSTR / REGEXP_REPLACE, for ANY match oracle. *)
From Coq Require Import List Arith Bool Lia.
Import ListNotations.
From GMS Require Import Sys.C33Regex.

Section Laws.
  Variable U : Type.
  Variable find_all : list U -> list (nat * nat).
  (* the only assumption about the engine: successive matches are ascending, non-overlapping, within the subject *)
  Hypothesis find_wf : forall t, wf_locs 0 (length t) (find_all t).

  Notation locs := (locs U find_all).
  Notation instr := (instr U find_all).
  Notation like := (like U find_all).
  Notation substr := (substr U find_all).
  Notation replace := (replace U find_all).

  Lemma wf_nth : forall l from n k a b, wf_locs from n l -> nth_error l k = Some (a, b) -> from <= a /\ a <= b /\ b <= n.
  Proof.
    induction l as [|[a0 b0] l IH]; intros from n k a b H E; [destruct k; discriminate|].
    cbn [wf_locs] in H. destruct H as (H1 & H2 & H3 & H4). destruct k as [|k].
    - injection E as <- <-. lia.
    - cbn in E. destruct (IH b0 n k a b H4 E) as (? & ? & ?). lia.
  Qed.

  Lemma norm_ge1 : forall p, 1 <= norm p.
  Proof. intros p. unfold norm. destruct (Nat.ltb_spec p 1); lia. Qed.

  Lemma loc_bounds : forall s pos occ a b, location (locs s pos) occ = Some (a, b) ->
    a <= b /\ b <= length s - (norm pos - 1).
  Proof.
    intros s pos occ a b E. unfold location, C33Regex.locs in E.
    destruct (wf_nth _ _ _ _ _ _ (find_wf _) E) as (_ & H1 & H2).
    rewrite skipn_length in H2. split; assumption.
  Qed.

  (* REGEXP_LIKE <-> REGEXP_INSTR > 0 <-> REGEXP_SUBSTR is not NULL (default position 1, occurrence 1) *)
  Theorem like_iff_instr_pos : forall s, like s = true <-> 0 < instr s 1 1 false.
  Proof.
    intros s. unfold C33Regex.like, C33Regex.instr, location. cbn [Nat.sub].
    destruct (nth_error (locs s 1) 0) as [[a b]|]; split; intros H; try reflexivity; try discriminate; try lia.
    pose proof (norm_ge1 1). lia.
  Qed.

  Theorem like_iff_substr_some : forall s, like s = true <-> substr s 1 1 <> None.
  Proof.
    intros s. unfold C33Regex.like, C33Regex.substr, location. cbn [Nat.sub].
    destruct (nth_error (locs s 1) 0) as [[a b]|]; split; intros H; try reflexivity; try discriminate; congruence.
  Qed.

  (* for every position and occurrence *)
  Theorem instr_pos_iff_substr_some : forall s pos occ, 0 < instr s pos occ false <-> substr s pos occ <> None.
  Proof.
    intros s pos occ. unfold C33Regex.instr, C33Regex.substr.
    destruct (location (locs s pos) occ) as [[a b]|]; split; intros H; try discriminate; try lia; try congruence.
    pose proof (norm_ge1 pos). lia.
  Qed.

  (* the substring returned is the text between the reported start and the reported end *)
  Theorem substr_at_instr : forall s pos occ m, substr s pos occ = Some m ->
    m = sub U s (instr s pos occ false - 1) (instr s pos occ true - 1) /\
    length m = instr s pos occ true - instr s pos occ false /\
    firstn (length m) (skipn (instr s pos occ false - 1) s) = m.
  Proof.
    intros s pos occ m E. unfold C33Regex.substr in E. unfold C33Regex.instr.
    destruct (location (locs s pos) occ) as [[a b]|] eqn:El; [|discriminate].
    injection E as <-. destruct (loc_bounds _ _ _ _ _ El) as (Hab & Hb). pose proof (norm_ge1 pos) as Hn.
    replace (a + norm pos - 1) with (a + (norm pos - 1)) by lia.
    replace (b + norm pos - 1) with (b + (norm pos - 1)) in * by lia.
    assert (length (sub U s (a + (norm pos - 1)) (b + (norm pos - 1))) = b - a) as Hl.
    { unfold sub. rewrite firstn_length, skipn_length. lia. }
    split; [reflexivity|]. split; [rewrite Hl; lia|].
    rewrite Hl. unfold sub. f_equal. lia.
  Qed.

  Lemma firstn_plus : forall (s : list U) i k, firstn (i + k) s = firstn i s ++ firstn k (skipn i s).
  Proof.
    intros s i. revert s. induction i as [|i IH]; intros s k; [reflexivity|].
    destruct s as [|x s]; [cbn; rewrite firstn_nil; reflexivity|]. cbn. rewrite IH. reflexivity.
  Qed.

  (* REGEXP_REPLACE of the k-th occurrence (k >= 1) rewrites exactly the span REGEXP_INSTR reports *)
  Theorem replace_kth_at_instr : forall s repl pos occ, 1 <= occ ->
    replace s repl pos occ =
      if instr s pos occ false =? 0 then s
      else firstn (instr s pos occ false - 1) s ++ repl ++ skipn (instr s pos occ true - 1) s.
  Proof.
    intros s repl pos occ Ho. unfold C33Regex.replace, C33Regex.instr.
    assert (occ =? 0 = false) as -> by (apply Nat.eqb_neq; lia).
    pose proof (norm_ge1 pos) as Hn.
    destruct (location (locs s pos) occ) as [[a b]|] eqn:El.
    - assert (a + norm pos =? 0 = false) as -> by (apply Nat.eqb_neq; lia).
      cbn [replace_loop]. unfold sub.
      replace (a + (norm pos - 1) - (norm pos - 1)) with a by lia.
      rewrite app_assoc. rewrite <- firstn_plus.
      replace (norm pos - 1 + a) with (a + norm pos - 1) by lia.
      replace (b + (norm pos - 1)) with (b + norm pos - 1) by lia. reflexivity.
    - cbn [replace_loop Nat.eqb]. apply firstn_skipn.
  Qed.

  (* REGEXP_REPLACE of every occurrence: the subject is tiled by gaps and matches; the gaps are kept verbatim and
     every reported match, and nothing else, is replaced *)
  Fixpoint rebuild (t : list U) (p : nat) (l : list (nat * nat)) (f : list U -> list U) : list U :=
    match l with
    | [] => skipn p t
    | (a, b) :: l' => sub U t p a ++ f (sub U t a b) ++ rebuild t b l' f
    end.

  Lemma skipn_skipn : forall i j (l : list U), skipn i (skipn j l) = skipn (i + j) l.
  Proof.
    intros i j. revert i. induction j as [|j IH]; intros i l.
    - cbn. f_equal. lia.
    - destruct l as [|x l]; [rewrite !skipn_nil; reflexivity|].
      replace (i + S j) with (S (i + j)) by lia. cbn [skipn]. apply IH.
  Qed.

  Lemma sub_skip : forall (t : list U) a b, a <= b -> sub U t a b ++ skipn b t = skipn a t.
  Proof.
    intros t a b H. unfold sub. replace (skipn b t) with (skipn (b - a) (skipn a t)).
    - apply firstn_skipn.
    - rewrite skipn_skipn. f_equal. lia.
  Qed.

  Theorem matches_tile_subject : forall t l p, wf_locs p (length t) l -> rebuild t p l (fun m => m) = skipn p t.
  Proof.
    intros t l. induction l as [|[a b] l IH]; intros p H; [reflexivity|].
    cbn [wf_locs] in H. destruct H as (H1 & H2 & H3 & H4). cbn [rebuild].
    rewrite (IH b H4). rewrite (sub_skip t a b H2). apply sub_skip. exact H1.
  Qed.

  Lemma sub_shift : forall (s : list U) offs i j, sub U s (i + offs) (j + offs) = sub U (skipn offs s) i j.
  Proof.
    intros s offs i j. unfold sub. rewrite skipn_skipn. f_equal. lia.
  Qed.

  Lemma replace_loop_rebuild : forall s offs repl l p,
    replace_loop U s offs (p + offs) l repl = rebuild (skipn offs s) p l (fun _ => repl).
  Proof.
    intros s offs repl l. induction l as [|[a b] l IH]; intros p.
    - cbn. rewrite skipn_skipn. reflexivity.
    - cbn [replace_loop rebuild]. rewrite sub_shift, IH. reflexivity.
  Qed.

  Theorem replace_all_substitutes_exactly_the_matches : forall s repl pos,
    let t := skipn (norm pos - 1) s in
    replace s repl pos 0 = firstn (norm pos - 1) s ++ rebuild t 0 (find_all t) (fun _ => repl)
    /\ rebuild t 0 (find_all t) (fun m => m) = t.
  Proof.
    intros s repl pos t. split.
    - unfold C33Regex.replace. cbn [Nat.eqb]. f_equal.
      change (norm pos - 1) with (0 + (norm pos - 1)) at 2. rewrite replace_loop_rebuild. reflexivity.
    - apply (matches_tile_subject t (find_all t) 0). apply find_wf.
  Qed.

  (* no match: REPLACE is the identity *)
  Theorem replace_no_match : forall s repl pos occ, locs s pos = [] -> replace s repl pos occ = s.
  Proof.
    intros s repl pos occ E. unfold C33Regex.replace. rewrite E. unfold location.
    destruct (occ =? 0); [|destruct (occ - 1); cbn [nth_error]]; cbn [replace_loop]; apply firstn_skipn.
  Qed.
End Laws.

(* the cgo variant agrees with the wrapper on every non-empty subject ... *)
Lemma replace_cgo_nonempty : forall (U : Type) (find_all : list U -> list (nat * nat)) (s repl : list U) pos occ,
  s <> [] -> replace_cgo U find_all s repl pos occ = replace U find_all s repl pos occ.
Proof. intros U f s repl pos occ H. destruct s; [congruence|reflexivity]. Qed.

(* ... and breaks the REPLACE/INSTR law on the empty subject: oracle of a pattern that matches the empty string *)
Definition empty_oracle (t : list nat) : list (nat * nat) := [(0, 0)].
Lemma replace_cgo_empty_subject_refuted :
  wf_locs 0 (length (@nil nat)) (empty_oracle []) /\ instr nat empty_oracle [] 1 1 false = 1 /\
  substr nat empty_oracle [] 1 1 = Some [] /\ like nat empty_oracle [] = true /\
  replace nat empty_oracle [] [88] 1 1 = [88] /\ replace_cgo nat empty_oracle [] [88] 1 1 = [].
Proof. vm_compute. repeat split; lia. Qed.

(* non-vacuity: the oracle of the pattern "." anchored at the search start (one match: the first unit) meets the
   hypothesis, and the wrapper computes the expected answers with it *)
Definition dot_oracle (t : list nat) : list (nat * nat) := match t with [] => [] | _ => [(0, 1)] end.

Lemma dot_oracle_wf : forall t, wf_locs 0 (length t) (dot_oracle t).
Proof. intros [|x t]; cbn; [exact I|]. repeat split; lia. Qed.

Lemma laws_nonvacuous :
  like nat dot_oracle [7; 8; 9] = true /\ instr nat dot_oracle [7; 8; 9] 2 1 false = 2 /\
  instr nat dot_oracle [7; 8; 9] 2 1 true = 3 /\ substr nat dot_oracle [7; 8; 9] 2 1 = Some [8] /\
  replace nat dot_oracle [7; 8; 9] [0; 0] 2 1 = [7; 0; 0; 9] /\ replace nat dot_oracle [7; 8; 9] [0; 0] 2 0 = [7; 0; 0; 9] /\
  instr nat dot_oracle [7; 8; 9] 1 2 false = 0 /\ replace nat dot_oracle [7; 8; 9] [0] 1 2 = [7; 8; 9].
Proof. vm_compute. repeat split. Qed.
