(* C37 — proofs about the ProcessList model (Sys/ProcessList.v). *)
From Coq Require Import List NArith ZArith Bool Lia.
Import ListNotations.
From GMS Require Import Sys.ProcessList.
Open Scope N_scope.

(* ------------------------------------------------------------------ association lists *)
Section AMapFacts.
  Context {V : Type}.
  Implicit Types l : list (N * V).

  Definition lbound (k : N) l : Prop := Forall (fun kv => k < fst kv) l.

  Fixpoint sorted l : Prop :=
    match l with
    | [] => True
    | (k, _) :: r => lbound k r /\ sorted r
    end.

  Lemma lookup_upd k v l k' : lookup (upd k v l) k' = if N.eqb k' k then Some v else lookup l k'.
  Proof.
    induction l as [|[k0 v0] r IH]; cbn.
    - destruct (N.eqb_spec k' k); reflexivity.
    - destruct (N.ltb_spec k0 k) as [Hlt|Hge]; cbn.
      + rewrite IH. destruct (N.eqb_spec k' k0), (N.eqb_spec k' k); try reflexivity. lia.
      + destruct (N.eqb_spec k k0) as [->|Hne]; cbn.
        * destruct (N.eqb_spec k' k0); reflexivity.
        * destruct (N.eqb_spec k' k); reflexivity.
  Qed.

  Lemma lookup_del k l k' : lookup (del k l) k' = if N.eqb k' k then None else lookup l k'.
  Proof.
    induction l as [|[k0 v0] r IH]; cbn.
    - destruct (N.eqb k' k); reflexivity.
    - destruct (N.eqb_spec k k0) as [->|Hne]; cbn.
      + rewrite IH. destruct (N.eqb_spec k' k0); reflexivity.
      + rewrite IH. destruct (N.eqb_spec k' k0), (N.eqb_spec k' k); try reflexivity. congruence.
  Qed.

  Lemma lookup_In l k v : lookup l k = Some v -> In (k, v) l.
  Proof.
    induction l as [|[k0 v0] r IH]; cbn; [discriminate|].
    destruct (N.eqb_spec k k0) as [->|Hne]; intros H.
    - injection H as ->. now left.
    - right. now apply IH.
  Qed.

  Lemma lbound_lookup k l k' : lbound k l -> k' <= k -> lookup l k' = None.
  Proof.
    intros Hb Hle. induction Hb as [|[k0 v0] r Hk _ IH]; cbn; [reflexivity|].
    cbn in Hk. destruct (N.eqb_spec k' k0); [lia|exact IH].
  Qed.

  Lemma lbound_del_id k l : lbound k l -> del k l = l.
  Proof.
    intros Hb. induction Hb as [|[k0 v0] r Hk _ IH]; cbn; [reflexivity|].
    cbn in Hk. destruct (N.eqb_spec k k0); [lia|now rewrite IH].
  Qed.

  Lemma Forall_upd (P : N * V -> Prop) k v l : Forall P l -> P (k, v) -> Forall P (upd k v l).
  Proof.
    intros Hl Hp. induction Hl as [|[k0 v0] r H0 Hr IH]; cbn.
    - now constructor.
    - destruct (N.ltb k0 k); [now constructor|].
      destruct (N.eqb k k0); constructor; auto.
  Qed.

  Lemma Forall_del (P : N * V -> Prop) k l : Forall P l -> Forall P (del k l).
  Proof.
    intros Hl. induction Hl as [|[k0 v0] r H0 Hr IH]; cbn; [constructor|].
    destruct (N.eqb k k0); [exact IH|now constructor].
  Qed.

  Lemma sorted_upd k v l : sorted l -> sorted (upd k v l).
  Proof.
    induction l as [|[k0 v0] r IH]; cbn; intros Hs.
    - split; [constructor|exact I].
    - destruct Hs as [Hb Hs]. destruct (N.ltb_spec k0 k) as [Hlt|Hge]; cbn.
      + split; [apply Forall_upd; [exact Hb|exact Hlt]|now apply IH].
      + destruct (N.eqb_spec k k0) as [->|Hne]; cbn.
        * now split.
        * split; [|now split]. constructor; [cbn; lia|].
          eapply Forall_impl; [|exact Hb]. cbn; intros; lia.
  Qed.

  Lemma sorted_del k l : sorted l -> sorted (del k l).
  Proof.
    induction l as [|[k0 v0] r IH]; cbn; intros Hs; [exact I|].
    destruct Hs as [Hb Hs]. destruct (N.eqb k k0); cbn; [now apply IH|].
    split; [now apply Forall_del|now apply IH].
  Qed.

  Lemma cnt_upd f k v l :
    sorted l -> cnt f (upd k v l) = (cnt f l - optcnt f (lookup l k) + b2z (f v))%Z.
  Proof.
    induction l as [|[k0 v0] r IH]; cbn; intros Hs; [lia|].
    destruct Hs as [Hb Hs]. destruct (N.ltb_spec k0 k) as [Hlt|Hge]; cbn.
    - rewrite (IH Hs). destruct (N.eqb_spec k k0); [lia|lia].
    - destruct (N.eqb_spec k k0) as [->|Hne]; cbn; [lia|].
      rewrite (lbound_lookup k0 r k Hb) by lia. cbn. lia.
  Qed.

  Lemma cnt_del f k l :
    sorted l -> cnt f (del k l) = (cnt f l - optcnt f (lookup l k))%Z.
  Proof.
    induction l as [|[k0 v0] r IH]; cbn; intros Hs; [lia|].
    destruct Hs as [Hb Hs]. destruct (N.eqb_spec k k0) as [->|Hne]; cbn.
    - rewrite (lbound_del_id k0 r Hb). lia.
    - rewrite (IH Hs). lia.
  Qed.

  Lemma cnt_anyv_length l : cnt anyv l = Z.of_nat (length l).
  Proof. induction l as [|[k v] r IH]; cbn [cnt length]; [reflexivity|]. rewrite IH. unfold anyv, b2z. lia. Qed.

  Lemma cnt_filter_length f l : cnt f l = Z.of_nat (length (filter (fun kv => f (snd kv)) l)).
  Proof.
    induction l as [|[k v] r IH]; cbn [cnt filter snd]; [reflexivity|].
    rewrite IH. destruct (f v); cbn [b2z length]; lia.
  Qed.
End AMapFacts.

Lemma memN_In k l : memN k l = true <-> In k l.
Proof.
  induction l as [|x r IH]; cbn; [split; [discriminate|tauto]|].
  rewrite orb_true_iff, IH. destruct (N.eqb_spec k x); split; intros H; auto.
  - destruct H as [H|H]; [discriminate|auto].
  - destruct H as [H|H]; [congruence|auto].
Qed.

Lemma In_cancel k k' l : In k (cancel k' l) <-> k = k' \/ In k l.
Proof.
  unfold cancel. destruct (memN k' l) eqn:E.
  - apply memN_In in E. split; [auto|]. intros [->|H]; auto.
  - cbn. split; intros [H|H]; auto.
Qed.

Lemma In_cancel_opt k o l : In k (cancel_opt o l) <-> o = Some k \/ In k l.
Proof.
  destruct o as [k'|]; cbn.
  - rewrite In_cancel. split; intros [H|H]; auto; [left; congruence|left; congruence].
  - split; [auto|]. intros [H|H]; [discriminate|auto].
Qed.

(* ------------------------------------------------------------------ run / trace *)
Lemma run_app s es1 es2 : run s (es1 ++ es2) = run (run s es1) es2.
Proof. unfold run. apply fold_left_app. Qed.

Lemma run_snoc s es e : run s (es ++ [e]) = fst (step (run s es) e).
Proof. rewrite run_app. reflexivity. Qed.

Lemma srun_snoc g es e :
  srun g (es ++ [e]) = match srun g es with Some g' => sstep g' e | None => None end.
Proof.
  revert g. induction es as [|e0 r IH]; intros g; cbn.
  - destruct (sstep g e); reflexivity.
  - destruct (sstep g e0); [apply IH|reflexivity].
Qed.

(* ------------------------------------------------------------------ invariant for ALL histories *)
Record GInv (s : state) : Prop := {
  g_kill_lt : forall c p k, lookup (procs s) c = Some p -> p_kill p = Some k -> k < next s;
  g_canc_lt : forall k, In k (cancelled s) -> k < next s;
  g_inj : forall c c' p p' k, lookup (procs s) c = Some p -> lookup (procs s) c' = Some p' ->
            p_kill p = Some k -> p_kill p' = Some k -> c = c'
}.

Lemma ginv_init : GInv init.
Proof. split; cbn; intros; try discriminate; tauto. Qed.

Ltac eqb_cases :=
  repeat match goal with
  | H : context [N.eqb ?a ?b] |- _ => destruct (N.eqb_spec a b); subst
  | |- context [N.eqb ?a ?b] => destruct (N.eqb_spec a b); subst
  end.

Lemma ginv_step s e : GInv s -> GInv (fst (step s e)).
Proof.
  intros [Hk Hc Hi].
  destruct e as [c|c h|c h u d|c|c pid q|c pid|c|c|c]; cbn.
  - split; cbn; eauto.
  - split; cbn; [| eauto |].
    + intros c0 p k. rewrite lookup_upd. destruct (N.eqb_spec c0 c); [intros [= <-]; discriminate|eauto].
    + intros c0 c1 p p' k. rewrite !lookup_upd.
      destruct (N.eqb_spec c0 c), (N.eqb_spec c1 c); subst; try (intros [= <-]; discriminate); eauto.
      intros _ [= <-]; discriminate.
  - split; cbn; [| eauto |].
    + intros c0 p k. rewrite lookup_upd. destruct (N.eqb_spec c0 c); [intros [= <-]; discriminate|eauto].
    + intros c0 c1 p p' k. rewrite !lookup_upd.
      destruct (N.eqb_spec c0 c), (N.eqb_spec c1 c); subst; try (intros [= <-]; discriminate); eauto.
      intros _ [= <-]; discriminate.
  - destruct (lookup (procs s) c) as [p0|] eqn:Ep; cbn; [|split; eauto].
    split; cbn.
    + intros c0 p k. rewrite lookup_del. destruct (N.eqb_spec c0 c); [discriminate|eauto].
    + intros k. rewrite In_cancel_opt. intros [H|H]; eauto.
    + intros c0 c1 p p' k. rewrite !lookup_del.
      destruct (N.eqb_spec c0 c), (N.eqb_spec c1 c); try discriminate; eauto.
  - destruct (lookup (procs s) c) as [p0|] eqn:Ep; cbn; [|split; cbn; eauto].
    destruct (lookup (byq s) pid) eqn:Eb; cbn; [split; cbn; eauto|].
    split; cbn.
    + intros c0 p k. rewrite lookup_upd. destruct (N.eqb_spec c0 c).
      * intros [= <-]; cbn. intros [= <-]. lia.
      * intros H1 H2. specialize (Hk _ _ _ H1 H2). lia.
    + intros k H. specialize (Hc _ H). lia.
    + intros c0 c1 p p' k. rewrite !lookup_upd.
      destruct (N.eqb_spec c0 c), (N.eqb_spec c1 c); subst; auto.
      * intros [= <-] H1; cbn. intros [= <-] H2. specialize (Hk _ _ _ H1 H2). lia.
      * intros H1 [= <-] H2; cbn. intros [= <-]. specialize (Hk _ _ _ H1 H2). lia.
      * eauto.
  - destruct (lookup (procs s) c) as [p0|] eqn:Ep; cbn; [|split; cbn; eauto].
    destruct (N.eqb_spec (p_qpid p0) pid); cbn; [|split; cbn; eauto].
    destruct (p_kill p0) as [k0|] eqn:Ek; cbn.
    + split; cbn.
      * intros c0 p k. rewrite lookup_upd. destruct (N.eqb_spec c0 c); [intros [= <-]; discriminate|eauto].
      * intros k. rewrite In_cancel. intros [->|H]; eauto.
      * intros c0 c1 p p' k. rewrite !lookup_upd.
        destruct (N.eqb_spec c0 c), (N.eqb_spec c1 c); subst; try (intros [= <-]; discriminate); eauto.
        intros _ [= <-]; discriminate.
    + split; cbn.
      * intros c0 p k. rewrite lookup_upd. destruct (N.eqb_spec c0 c); [intros [= <-]; discriminate|eauto].
      * eauto.
      * intros c0 c1 p p' k. rewrite !lookup_upd.
        destruct (N.eqb_spec c0 c), (N.eqb_spec c1 c); subst; try (intros [= <-]; discriminate); eauto.
        intros _ [= <-]; discriminate.
  - destruct (lookup (procs s) c) as [p0|] eqn:Ep; cbn; [|split; cbn; eauto].
    destruct (p_kill p0) as [k0|] eqn:Ek; cbn; [split; cbn; eauto|].
    split; cbn.
    + intros c0 p k. rewrite lookup_upd. destruct (N.eqb_spec c0 c).
      * intros [= <-]; cbn. intros [= <-]. lia.
      * intros H1 H2. specialize (Hk _ _ _ H1 H2). lia.
    + intros k H. specialize (Hc _ H). lia.
    + intros c0 c1 p p' k. rewrite !lookup_upd.
      destruct (N.eqb_spec c0 c), (N.eqb_spec c1 c); subst; auto.
      * intros [= <-] H1; cbn. intros [= <-] H2. specialize (Hk _ _ _ H1 H2). lia.
      * intros H1 [= <-] H2; cbn. intros [= <-]. specialize (Hk _ _ _ H1 H2). lia.
      * eauto.
  - destruct (lookup (procs s) c) as [p0|] eqn:Ep; cbn; [|split; cbn; eauto].
    destruct (p_kill p0) as [k0|] eqn:Ek; cbn; [|split; cbn; eauto].
    split; cbn.
    + intros c0 p k. rewrite lookup_upd. destruct (N.eqb_spec c0 c); [intros [= <-]; discriminate|eauto].
    + intros k. rewrite In_cancel. intros [->|H]; eauto.
    + intros c0 c1 p p' k. rewrite !lookup_upd.
      destruct (N.eqb_spec c0 c), (N.eqb_spec c1 c); subst; try (intros [= <-]; discriminate); eauto.
      intros _ [= <-]; discriminate.
  - destruct (lookup (procs s) c) as [p0|] eqn:Ep; cbn; [|split; cbn; eauto].
    split; cbn; eauto.
    intros k. rewrite In_cancel_opt. intros [H|H]; eauto.
Qed.

Lemma ginv_run es : GInv (run init es).
Proof.
  induction es as [|e r IH] using rev_ind; [exact ginv_init|].
  rewrite run_snoc. now apply ginv_step.
Qed.

(* ------------------------------------------------------------------ invariant for well-formed histories *)
Definition prel (c : N) (ph : option sphase) (po : option proc) : Prop :=
  match ph, po with
  | None, None => True
  | Some SPending, None => True
  | Some SIdle, Some p =>
      p_conn p = c /\ p_cmd p <> CQuery /\ p_query p = 0 /\ p_qpid p = 0 /\ p_kill p = None
  | Some SOp, Some p =>
      p_conn p = c /\ p_cmd p <> CQuery /\ p_query p = 0 /\ p_qpid p = 0
  | Some (SQuery pid q), Some p =>
      p_conn p = c /\ p_cmd p = CQuery /\ p_query p = q /\ p_qpid p = pid /\ p_kill p <> None
  | _, _ => False
  end.

Record Inv (g : spec) (s : state) : Prop := {
  inv_sp : sorted (procs s);
  inv_ss : sorted (sess g);
  inv_rel : forall c, prel c (lookup (sess g) c) (lookup (procs s) c);
  inv_byq : forall pid c, lookup (byq s) pid = Some c -> exists q, lookup (sess g) c = Some (SQuery pid q);
  inv_live : forall c pid q, lookup (sess g) c = Some (SQuery pid q) ->
               lookup (byq s) pid = Some c /\ memN pid (used g) = true;
  inv_zero : memN 0 (used g) = false;
  inv_tc : tc s = cnt anyv (sess g);
  inv_tr : tr s = cnt is_squery (sess g);
  inv_cp : cnt anyv (procs s) = cnt is_connected (sess g);
  inv_cq : cnt is_query (procs s) = cnt is_squery (sess g)
}.

Lemma inv_init : Inv sinit init.
Proof. split; cbn; intros; try discriminate; auto. Qed.

Lemma not_query_false p : p_cmd p <> CQuery -> is_query p = false.
Proof. unfold is_query. destruct (p_cmd p); cbn; congruence. Qed.

Lemma is_query_true p : p_cmd p = CQuery -> is_query p = true.
Proof. unfold is_query. intros ->. reflexivity. Qed.

Lemma is_query_set_kill p k : is_query (set_kill p k) = is_query p.
Proof. reflexivity. Qed.

Lemma live_pid_false g pid c q : live_pid g pid = false -> lookup (sess g) c = Some (SQuery pid q) -> False.
Proof.
  unfold live_pid. intros H Hl. apply lookup_In in Hl.
  assert (existsb (fun kv : N * sphase => runs_pid pid (snd kv)) (sess g) = true) as E.
  { apply existsb_exists. exists (c, SQuery pid q). split; [exact Hl|]. cbn. apply N.eqb_refl. }
  congruence.
Qed.

(* what the discipline promises about the result of each call *)
Definition good_outcome (e : event) (o : outcome) (nxt : N) : Prop :=
  match e with
  | EBeginQ _ _ _ | EBeginOp _ => o = OCtx nxt
  | _ => o = ODone
  end.

(* EndQuery for a query that has already ended: no effect besides deleting an absent byQueryPid key *)
Lemma endq_dead g s c pid :
  Inv g s -> pid <> 0 -> memN pid (used g) = true -> live_pid g pid = false ->
  (forall q, lookup (sess g) c <> Some (SQuery pid q)) ->
  Inv g (fst (step s (EEndQ c pid))) /\ snd (step s (EEndQ c pid)) = ODone.
Proof.
  intros HI Hnz Hu Hl Hown. destruct HI as [Hsp Hss Hrel Hbq Hlv Hz Htc Htr Hcp Hcq].
  assert (Hbq' : forall pid0 c0, lookup (del pid (byq s)) pid0 = Some c0 ->
                   exists q, lookup (sess g) c0 = Some (SQuery pid0 q)).
  { intros pid0 c0. rewrite lookup_del. destruct (N.eqb_spec pid0 pid); [discriminate|apply Hbq]. }
  assert (Hlv' : forall c0 pid0 q, lookup (sess g) c0 = Some (SQuery pid0 q) ->
                   lookup (del pid (byq s)) pid0 = Some c0 /\ memN pid0 (used g) = true).
  { intros c0 pid0 q H. rewrite lookup_del. destruct (N.eqb_spec pid0 pid) as [->|Hne].
    - exfalso. eapply live_pid_false; eauto.
    - eapply Hlv; eauto. }
  cbn. pose proof (Hrel c) as Hr.
  destruct (lookup (procs s) c) as [p|] eqn:Ep; cbn.
  - destruct (N.eqb_spec (p_qpid p) pid) as [Heq|Hne]; cbn.
    + exfalso. destruct (lookup (sess g) c) as [[| | |pid0 q0]|] eqn:Es; cbn in Hr; try tauto.
      * destruct Hr as (_ & _ & _ & H0 & _). congruence.
      * destruct Hr as (_ & _ & _ & H0). congruence.
      * destruct Hr as (_ & _ & _ & H0 & _). subst. now apply (Hown q0).
    + split; [split; cbn; auto|reflexivity].
  - split; [split; cbn; auto|reflexivity].
Qed.

Lemma inv_step g s e g' :
  Inv g s -> sstep g e = Some g' ->
  Inv g' (fst (step s e)) /\ good_outcome e (snd (step s e)) (next s).
Proof.
  intros HI Hs. pose proof HI as [Hsp Hss Hrel Hbq Hlv Hz Htc Htr Hcp Hcq].
  destruct e as [c|c h|c h u d|c|c pid q|c pid|c|c|c]; cbn in Hs.
  - (* EAddInc *)
    destruct (lookup (sess g) c) eqn:Es; [discriminate|]. injection Hs as <-.
    split; [|reflexivity]. cbn. split; cbn; auto.
    + now apply sorted_upd.
    + intros c0. rewrite lookup_upd. destruct (N.eqb_spec c0 c) as [->|Hne]; [|apply Hrel].
      specialize (Hrel c). rewrite Es in Hrel. destruct (lookup (procs s) c); cbn in *; tauto.
    + intros pid0 c0 H. destruct (Hbq _ _ H) as [q Hq]. exists q. rewrite lookup_upd.
      destruct (N.eqb_spec c0 c); [congruence|exact Hq].
    + intros c0 pid0 q. rewrite lookup_upd. destruct (N.eqb_spec c0 c); [discriminate|apply Hlv].
    + rewrite cnt_upd, Es by assumption. cbn. lia.
    + rewrite cnt_upd, Es by assumption. cbn. lia.
    + rewrite cnt_upd, Es by assumption. cbn. lia.
    + rewrite cnt_upd, Es by assumption. cbn. lia.
  - (* EAddIns *)
    destruct (lookup (sess g) c) as [[| | |]|] eqn:Es; try discriminate. injection Hs as <-.
    pose proof (Hrel c) as Hr. rewrite Es in Hr.
    destruct (lookup (procs s) c) eqn:Ep; cbn in Hr; [tauto|].
    split; [|reflexivity]. cbn. split; cbn; auto.
    + now apply sorted_upd.
    + now apply sorted_upd.
    + intros c0. rewrite !lookup_upd. destruct (N.eqb_spec c0 c) as [->|Hne]; [|apply Hrel].
      cbn. repeat split; congruence.
    + intros pid0 c0 H. destruct (Hbq _ _ H) as [q Hq]. exists q. rewrite lookup_upd.
      destruct (N.eqb_spec c0 c); [congruence|exact Hq].
    + intros c0 pid0 q. rewrite lookup_upd. destruct (N.eqb_spec c0 c); [discriminate|apply Hlv].
    + rewrite cnt_upd, Es by assumption. cbn. lia.
    + rewrite cnt_upd, Es by assumption. cbn. lia.
    + rewrite !cnt_upd, Es, Ep by assumption. cbn. lia.
    + rewrite !cnt_upd, Es, Ep by assumption. cbn. lia.
  - (* EReady *)
    pose proof (Hrel c) as Hr.
    assert (Hph : lookup (sess g) c = Some SIdle \/ lookup (sess g) c = Some SOp).
    { destruct (lookup (sess g) c) as [[| | |]|]; try discriminate; auto. }
    assert (g' = g) as -> by (destruct Hph as [E|E]; rewrite E in Hs; congruence). clear Hs.
    destruct (lookup (procs s) c) as [p|] eqn:Ep;
      [|destruct Hph as [E|E]; rewrite E in Hr; cbn in Hr; tauto].
    assert (Hnq : p_cmd p <> CQuery)
      by (destruct Hph as [E|E]; rewrite E in Hr; cbn in Hr; tauto).
    split; [|reflexivity]. cbn. split; cbn; auto.
    + now apply sorted_upd.
    + intros c0. rewrite lookup_upd. destruct (N.eqb_spec c0 c) as [->|Hne]; [|apply Hrel].
      destruct Hph as [E|E]; rewrite E; cbn; repeat split; congruence.
    + rewrite cnt_upd, Ep by assumption. cbn. lia.
    + rewrite cnt_upd, Ep by assumption. cbn. rewrite (not_query_false p Hnq). cbn. lia.
  - (* ERemove *)
    destruct (lookup (sess g) c) as [[| | |]|] eqn:Es; try discriminate. injection Hs as <-.
    pose proof (Hrel c) as Hr. rewrite Es in Hr.
    destruct (lookup (procs s) c) as [p|] eqn:Ep; cbn in Hr; [|tauto].
    destruct Hr as (Hc & Hnq & Hq0 & Hp0 & Hk0).
    cbn. rewrite Ep. cbn. rewrite Hp0, Hk0. cbn. split; [|reflexivity]. split; cbn; auto.
    + now apply sorted_del.
    + now apply sorted_del.
    + intros c0. rewrite !lookup_del. destruct (N.eqb_spec c0 c); [exact I|apply Hrel].
    + intros pid0 c0. rewrite lookup_del. destruct (N.eqb_spec pid0 0); [discriminate|].
      intros H. destruct (Hbq _ _ H) as [q Hq]. exists q. rewrite lookup_del.
      destruct (N.eqb_spec c0 c); [congruence|exact Hq].
    + intros c0 pid0 q. rewrite !lookup_del. destruct (N.eqb_spec c0 c); [discriminate|].
      intros H. destruct (Hlv _ _ _ H) as [H1 H2]. destruct (N.eqb_spec pid0 0); [congruence|auto].
    + rewrite cnt_del, Es by assumption. cbn. lia.
    + rewrite cnt_del, Es by assumption. cbn. lia.
    + rewrite !cnt_del, Es, Ep by assumption. cbn. lia.
    + rewrite !cnt_del, Es, Ep by assumption. cbn. rewrite (not_query_false p Hnq). cbn. lia.
  - (* EBeginQ *)
    destruct (lookup (sess g) c) as [[| | |]|] eqn:Es; try discriminate.
    destruct (N.eqb_spec pid 0) as [|Hnz]; [discriminate|]. cbn in Hs.
    destruct (memN pid (used g)) eqn:Hu; [discriminate|]. injection Hs as <-.
    pose proof (Hrel c) as Hr. rewrite Es in Hr.
    destruct (lookup (procs s) c) as [p|] eqn:Ep; cbn in Hr; [|tauto].
    destruct Hr as (Hc & Hnq & Hq0 & Hp0 & Hk0).
    assert (Eb : lookup (byq s) pid = None).
    { destruct (lookup (byq s) pid) as [c1|] eqn:Eb; [|reflexivity].
      destruct (Hbq _ _ Eb) as [q1 Hq1]. destruct (Hlv _ _ _ Hq1) as [_ H]. congruence. }
    cbn. rewrite Ep, Eb. cbn. split; [|reflexivity]. split; cbn; auto.
    + now apply sorted_upd.
    + now apply sorted_upd.
    + intros c0. rewrite !lookup_upd. destruct (N.eqb_spec c0 c) as [->|Hne]; [|apply Hrel].
      cbn. repeat split; congruence.
    + intros pid0 c0. rewrite !lookup_upd. destruct (N.eqb_spec pid0 pid) as [->|Hne].
      * intros [= <-]. rewrite N.eqb_refl. eauto.
      * intros H. destruct (Hbq _ _ H) as [q1 Hq1]. destruct (N.eqb_spec c0 c); [congruence|eauto].
    + intros c0 pid0 q0. rewrite !lookup_upd. destruct (N.eqb_spec c0 c) as [->|Hne].
      * intros [= <- <-]. rewrite N.eqb_refl. cbn. auto.
      * intros H. destruct (Hlv _ _ _ H) as [H1 H2]. cbn.
        destruct (N.eqb_spec pid0 pid); [congruence|]. rewrite H2. auto.
    + destruct pid; [congruence|exact Hz].
    + rewrite cnt_upd, Es by assumption. cbn. lia.
    + rewrite cnt_upd, Es by assumption. cbn. lia.
    + rewrite !cnt_upd, Es, Ep by assumption. cbn. lia.
    + rewrite !cnt_upd, Es, Ep by assumption. cbn. rewrite (not_query_false p Hnq). cbn. lia.
  - (* EEndQ *)
    assert (Hdead : (negb (N.eqb pid 0) && memN pid (used g) && negb (live_pid g pid) = true) ->
                    (forall q, lookup (sess g) c <> Some (SQuery pid q)) ->
                    Inv g (fst (step s (EEndQ c pid))) /\ snd (step s (EEndQ c pid)) = ODone).
    { intros H Hown. apply andb_prop in H as [H H3]. apply andb_prop in H as [H1 H2].
      apply negb_true_iff in H1, H3. apply N.eqb_neq in H1. now apply endq_dead. }
    destruct (lookup (sess g) c) as [[| | |p0 q0]|] eqn:Es.
    1-3, 5: destruct (negb (N.eqb pid 0) && memN pid (used g) && negb (live_pid g pid)) eqn:E;
      [|discriminate]; injection Hs as <-; apply Hdead; [reflexivity|congruence].
    destruct (N.eqb_spec p0 pid) as [->|Hne].
    2: { destruct (negb (N.eqb pid 0) && memN pid (used g) && negb (live_pid g pid)) eqn:E;
           [|discriminate]. injection Hs as <-. apply Hdead; [reflexivity|congruence]. }
    injection Hs as <-.
    pose proof (Hrel c) as Hr. rewrite Es in Hr.
    destruct (lookup (procs s) c) as [p|] eqn:Ep; cbn in Hr; [|tauto].
    destruct Hr as (Hc & Hcq' & Hq0 & Hp0 & Hk0).
    destruct (Hlv _ _ _ Es) as [Hb Hu].
    cbn. rewrite Ep. cbn. rewrite Hp0, N.eqb_refl.
    destruct (p_kill p) as [k|] eqn:Ek; [|congruence]. cbn.
    split; [|reflexivity]. split; cbn; auto.
    + now apply sorted_upd.
    + now apply sorted_upd.
    + intros c0. rewrite !lookup_upd. destruct (N.eqb_spec c0 c) as [->|Hne]; [|apply Hrel].
      cbn. repeat split; congruence.
    + intros pid0 c0. rewrite lookup_del, lookup_upd. destruct (N.eqb_spec pid0 pid); [discriminate|].
      intros H. destruct (Hbq _ _ H) as [q1 Hq1]. destruct (N.eqb_spec c0 c); [congruence|eauto].
    + intros c0 pid0 q1. rewrite lookup_upd, lookup_del. destruct (N.eqb_spec c0 c); [discriminate|].
      intros H. destruct (Hlv _ _ _ H) as [H1 H2]. destruct (N.eqb_spec pid0 pid); [congruence|auto].
    + rewrite cnt_upd, Es by assumption. cbn. lia.
    + rewrite cnt_upd, Es by assumption. cbn. lia.
    + rewrite !cnt_upd, Es, Ep by assumption. cbn. lia.
    + rewrite !cnt_upd, Es, Ep by assumption. cbn. rewrite (is_query_true p Hcq'). cbn. lia.
  - (* EBeginOp *)
    destruct (lookup (sess g) c) as [[| | |]|] eqn:Es; try discriminate. injection Hs as <-.
    pose proof (Hrel c) as Hr. rewrite Es in Hr.
    destruct (lookup (procs s) c) as [p|] eqn:Ep; cbn in Hr; [|tauto].
    destruct Hr as (Hc & Hnq & Hq0 & Hp0 & Hk0).
    cbn. rewrite Ep, Hk0. cbn. split; [|reflexivity]. split; cbn; auto.
    + now apply sorted_upd.
    + now apply sorted_upd.
    + intros c0. rewrite !lookup_upd. destruct (N.eqb_spec c0 c) as [->|Hne]; [|apply Hrel].
      cbn. repeat split; congruence.
    + intros pid0 c0 H. destruct (Hbq _ _ H) as [q Hq]. exists q. rewrite lookup_upd.
      destruct (N.eqb_spec c0 c); [congruence|exact Hq].
    + intros c0 pid0 q. rewrite lookup_upd. destruct (N.eqb_spec c0 c); [discriminate|apply Hlv].
    + rewrite cnt_upd, Es by assumption. cbn. lia.
    + rewrite cnt_upd, Es by assumption. cbn. lia.
    + rewrite !cnt_upd, Es, Ep by assumption. cbn. lia.
    + rewrite !cnt_upd, Es, Ep by assumption. rewrite is_query_set_kill. cbn. lia.
  - (* EEndOp *)
    destruct (lookup (sess g) c) as [[| | |]|] eqn:Es; try discriminate. injection Hs as <-.
    pose proof (Hrel c) as Hr. rewrite Es in Hr.
    destruct (lookup (procs s) c) as [p|] eqn:Ep; cbn in Hr; [|tauto].
    destruct Hr as (Hc & Hnq & Hq0 & Hp0).
    cbn. rewrite Ep. destruct (p_kill p) as [k|] eqn:Ek; cbn.
    + split; [|reflexivity]. split; cbn; auto.
      * now apply sorted_upd.
      * now apply sorted_upd.
      * intros c0. rewrite !lookup_upd. destruct (N.eqb_spec c0 c) as [->|Hne]; [|apply Hrel].
        cbn. repeat split; congruence.
      * intros pid0 c0 H. destruct (Hbq _ _ H) as [q Hq]. exists q. rewrite lookup_upd.
        destruct (N.eqb_spec c0 c); [congruence|exact Hq].
      * intros c0 pid0 q. rewrite lookup_upd. destruct (N.eqb_spec c0 c); [discriminate|apply Hlv].
      * rewrite cnt_upd, Es by assumption. cbn. lia.
      * rewrite cnt_upd, Es by assumption. cbn. lia.
      * rewrite !cnt_upd, Es, Ep by assumption. cbn. lia.
      * rewrite !cnt_upd, Es, Ep by assumption. rewrite is_query_set_kill. cbn. lia.
    + split; [|reflexivity]. split; cbn; auto.
      * now apply sorted_upd.
      * intros c0. rewrite !lookup_upd. destruct (N.eqb_spec c0 c) as [->|Hne]; [|apply Hrel].
        rewrite Ep. cbn. repeat split; congruence.
      * intros pid0 c0 H. destruct (Hbq _ _ H) as [q Hq]. exists q. rewrite lookup_upd.
        destruct (N.eqb_spec c0 c); [congruence|exact Hq].
      * intros c0 pid0 q. rewrite lookup_upd. destruct (N.eqb_spec c0 c); [discriminate|apply Hlv].
      * rewrite cnt_upd, Es by assumption. cbn. lia.
      * rewrite cnt_upd, Es by assumption. cbn. lia.
      * rewrite !cnt_upd, Es by assumption. cbn. lia.
      * rewrite !cnt_upd, Es by assumption. cbn. lia.
  - (* EKill *)
    injection Hs as <-. cbn.
    destruct (lookup (procs s) c) as [p|] eqn:Ep; cbn; (split; [|reflexivity]); [split; cbn; auto|exact HI].
Qed.

Lemma inv_run es g :
  srun sinit es = Some g -> Inv g (run init es).
Proof.
  revert g. induction es as [|e r IH] using rev_ind; intros g.
  - cbn. intros [= <-]. exact inv_init.
  - rewrite srun_snoc, run_snoc. destruct (srun sinit r) as [g0|]; [|discriminate].
    intros Hs. exact (proj1 (inv_step _ _ _ _ (IH _ eq_refl) Hs)).
Qed.

(* ------------------------------------------------------------------ consequences *)
Lemma sorted_In_lookup {V} (l : list (N * V)) k v : sorted l -> In (k, v) l -> lookup l k = Some v.
Proof.
  induction l as [|[k0 v0] r IH]; cbn; [tauto|]. intros [Hb Hs] [H|H].
  - injection H as -> ->. now rewrite N.eqb_refl.
  - destruct (N.eqb_spec k k0) as [->|Hne]; [|now apply IH].
    exfalso. unfold lbound in Hb. rewrite Forall_forall in Hb. specialize (Hb _ H). cbn in Hb. lia.
Qed.

Lemma sorted_NoDup_keys {V} (l : list (N * V)) : sorted l -> NoDup (map fst l).
Proof.
  induction l as [|[k0 v0] r IH]; cbn; [constructor|]. intros [Hb Hs]. constructor; [|now apply IH].
  intros Hin. apply in_map_iff in Hin as [[k v] [E Hin]]. cbn in E. subst k.
  unfold lbound in Hb. rewrite Forall_forall in Hb. specialize (Hb _ Hin). cbn in Hb. lia.
Qed.

Lemma cnt_split {V} (f : V -> bool) (l : list (N * V)) :
  cnt anyv l = (cnt (fun v => negb (f v)) l + cnt f l)%Z.
Proof.
  induction l as [|[k v] r IH]; cbn [cnt]; [reflexivity|]. rewrite IH. unfold anyv.
  destruct (f v); cbn [b2z negb]; lia.
Qed.

(* what a Processes() entry must show for a session in phase ph *)
Definition shows (ph : sphase) (p : proc) : Prop :=
  match ph with
  | SQuery pid q => p_cmd p = CQuery /\ p_query p = q /\ p_qpid p = pid
  | _ => p_cmd p <> CQuery /\ p_query p = 0 /\ p_qpid p = 0
  end.

Lemma prel_shows c ph p : prel c (Some ph) (Some p) -> p_conn p = c /\ ph <> SPending /\ shows ph p.
Proof. destruct ph; cbn; intros H; try tauto; repeat split; try tauto; discriminate. Qed.

Theorem processes_sound es g :
  srun sinit es = Some g ->
  forall p, In p (processes (run init es)) ->
    exists ph, lookup (sess g) (p_conn p) = Some ph /\ ph <> SPending /\ shows ph p.
Proof.
  intros Hs p Hin. pose proof (inv_run _ _ Hs) as HI.
  unfold processes in Hin. apply in_map_iff in Hin as [[k p0] [E Hin]]. cbn in E. subst p0.
  pose proof (sorted_In_lookup _ _ _ (inv_sp _ _ HI) Hin) as Hl.
  pose proof (inv_rel _ _ HI k) as Hr. rewrite Hl in Hr.
  destruct (lookup (sess g) k) as [ph|] eqn:Es; [|cbn in Hr; tauto].
  destruct (prel_shows _ _ _ Hr) as (Hc & Hp & Hsh). exists ph. rewrite Hc. auto.
Qed.

Theorem processes_complete es g :
  srun sinit es = Some g ->
  forall c ph, lookup (sess g) c = Some ph -> ph <> SPending ->
    exists p, In p (processes (run init es)) /\ p_conn p = c /\ shows ph p.
Proof.
  intros Hs c ph Es Hp. pose proof (inv_run _ _ Hs) as HI.
  pose proof (inv_rel _ _ HI c) as Hr. rewrite Es in Hr.
  destruct (lookup (procs (run init es)) c) as [p|] eqn:Ep.
  - destruct (prel_shows _ _ _ Hr) as (Hc & _ & Hsh). exists p. repeat split; auto.
    unfold processes. apply in_map_iff. exists (c, p). split; [reflexivity|now apply lookup_In].
  - destruct ph; cbn in Hr; tauto.
Qed.

Theorem processes_one_entry_per_connection es g :
  srun sinit es = Some g -> NoDup (map p_conn (processes (run init es))).
Proof.
  intros Hs. pose proof (inv_run _ _ Hs) as HI.
  assert (map p_conn (processes (run init es)) = map fst (procs (run init es))) as ->.
  { unfold processes. rewrite map_map. apply map_ext_in. intros [k p] Hin. cbn.
    pose proof (sorted_In_lookup _ _ _ (inv_sp _ _ HI) Hin) as Hl.
    pose proof (inv_rel _ _ HI k) as Hr. rewrite Hl in Hr.
    destruct (lookup (sess g) k) as [ph|]; [|cbn in Hr; tauto].
    now destruct (prel_shows _ _ _ Hr). }
  apply sorted_NoDup_keys. exact (inv_sp _ _ HI).
Qed.

Lemma length_processes s : Z.of_nat (length (processes s)) = cnt anyv (procs s).
Proof. unfold processes. rewrite map_length. symmetry. apply cnt_anyv_length. Qed.

Lemma running_processes s :
  Z.of_nat (length (filter is_query (processes s))) = cnt is_query (procs s).
Proof.
  rewrite cnt_filter_length. unfold processes. induction (procs s) as [|[k p] r IH]; cbn; [reflexivity|].
  destruct (is_query p); cbn [length]; lia.
Qed.

Theorem threads_connected_eq es g :
  srun sinit es = Some g ->
  let s := run init es in
  tc s = cnt anyv (sess g) /\
  tc s = (Z.of_nat (length (processes s)) + cnt is_pending (sess g))%Z.
Proof.
  intros Hs s. subst s. pose proof (inv_run _ _ Hs) as HI. split; [exact (inv_tc _ _ HI)|].
  rewrite length_processes, (inv_cp _ _ HI), (inv_tc _ _ HI). apply (cnt_split is_pending).
Qed.

Theorem threads_running_eq es g :
  srun sinit es = Some g ->
  let s := run init es in
  tr s = cnt is_squery (sess g) /\
  tr s = Z.of_nat (length (filter is_query (processes s))).
Proof.
  intros Hs s. subst s. pose proof (inv_run _ _ Hs) as HI. split; [exact (inv_tr _ _ HI)|].
  rewrite running_processes, (inv_cq _ _ HI). exact (inv_tr _ _ HI).
Qed.

Theorem wellformed_calls_succeed es g e g' :
  srun sinit es = Some g -> sstep g e = Some g' ->
  good_outcome e (snd (step (run init es) e)) (next (run init es)).
Proof. intros Hs He. exact (proj2 (inv_step _ _ _ _ (inv_run _ _ Hs) He)). Qed.

(* --- cancellation: statements for ALL histories (no discipline needed) --- *)
Lemma step_cancel_own s e k :
  In k (cancelled (fst (step s e))) ->
  In k (cancelled s) \/ exists p, lookup (procs s) (conn_of e) = Some p /\ p_kill p = Some k.
Proof.
  destruct e as [c|c h|c h u d|c|c pid q|c pid|c|c|c]; cbn; auto.
  - destruct (lookup (procs s) c) as [p|] eqn:Ep; cbn; auto.
    rewrite In_cancel_opt. intros [H|H]; eauto.
  - destruct (lookup (procs s) c) as [p|] eqn:Ep; cbn; auto.
    destruct (lookup (byq s) pid); cbn; auto.
  - destruct (lookup (procs s) c) as [p|] eqn:Ep; cbn; auto.
    destruct (N.eqb (p_qpid p) pid); cbn; auto.
    destruct (p_kill p) as [k0|] eqn:Ek; cbn; auto.
    rewrite In_cancel. intros [->|H]; eauto.
  - destruct (lookup (procs s) c) as [p|] eqn:Ep; cbn; auto.
    destruct (p_kill p) as [k0|] eqn:Ek; cbn; auto.
  - destruct (lookup (procs s) c) as [p|] eqn:Ep; cbn; auto.
    destruct (p_kill p) as [k0|] eqn:Ek; cbn; auto.
    rewrite In_cancel. intros [->|H]; eauto.
  - destruct (lookup (procs s) c) as [p|] eqn:Ep; cbn; auto.
    rewrite In_cancel_opt. intros [H|H]; eauto.
Qed.

Theorem kill_cancels_exactly_target es c :
  let s := run init es in
  let s' := fst (step s (EKill c)) in
  procs s' = procs s /\ byq s' = byq s /\ tc s' = tc s /\ tr s' = tr s /\ next s' = next s /\
  forall k, In k (cancelled s') <->
            In k (cancelled s) \/ exists p, lookup (procs s) c = Some p /\ p_kill p = Some k.
Proof.
  intros s s'. subst s'. cbn. destruct (lookup (procs s) c) as [p|] eqn:Ep; cbn.
  - repeat split; auto.
    + rewrite In_cancel_opt. intros [H|H]; eauto.
    + intros [H|(p0 & [= <-] & H)]; apply In_cancel_opt; auto.
  - repeat split; auto. intros [H|(p0 & H & _)]; [auto|discriminate].
Qed.

(* an event about connection c never cancels the current context of another connection *)
Theorem other_connections_never_cancelled es e c' p' k' :
  let s := run init es in
  conn_of e <> c' -> lookup (procs s) c' = Some p' -> p_kill p' = Some k' ->
  ~ In k' (cancelled s) -> ~ In k' (cancelled (fst (step s e))).
Proof.
  intros s Hne Hl Hk Hn Hin. apply step_cancel_own in Hin as [H|(p & Hp & Hkp)]; [auto|].
  apply Hne. exact (g_inj _ (ginv_run es) _ _ _ _ _ Hp Hl Hkp Hk).
Qed.

Theorem kill_cancels_running_query es g c pid q :
  srun sinit es = Some g -> lookup (sess g) c = Some (SQuery pid q) ->
  let s := run init es in
  exists p k, lookup (procs s) c = Some p /\ p_qpid p = pid /\ p_kill p = Some k /\
              In k (cancelled (fst (step s (EKill c)))).
Proof.
  intros Hs Es s. pose proof (inv_run _ _ Hs) as HI.
  pose proof (inv_rel _ _ HI c) as Hr. rewrite Es in Hr. fold s in Hr.
  destruct (lookup (procs s) c) as [p|] eqn:Ep; cbn in Hr; [|tauto].
  destruct Hr as (_ & _ & _ & Hp & Hk). destruct (p_kill p) as [k|] eqn:Ek; [|congruence].
  exists p, k. repeat split; auto. cbn. rewrite Ep. cbn. rewrite Ek. cbn. apply In_cancel. auto.
Qed.

Lemma next_step_mono s e : next s <= next (fst (step s e)).
Proof.
  destruct e as [c|c h|c h u d|c|c pid q|c pid|c|c|c]; cbn; try lia;
    destruct (lookup (procs s) c) as [p|]; cbn; try lia.
  - destruct (lookup (byq s) pid); cbn; lia.
  - destruct (N.eqb (p_qpid p) pid); cbn; try lia. destruct (p_kill p); cbn; lia.
  - destruct (p_kill p); cbn; lia.
  - destruct (p_kill p); cbn; lia.
Qed.

Lemma next_run_mono s es : next s <= next (run s es).
Proof.
  revert s. induction es as [|e r IH]; intros s; cbn; [lia|].
  specialize (IH (fst (step s e))). pose proof (next_step_mono s e). unfold run in *. lia.
Qed.

Lemma octx_next s e k : snd (step s e) = OCtx k ->
  k = next s /\ next (fst (step s e)) = k + 1 /\ cancelled (fst (step s e)) = cancelled s /\
  exists p, lookup (procs (fst (step s e))) (conn_of e) = Some p /\ p_kill p = Some k.
Proof.
  destruct e as [c|c h|c h u d|c|c pid q|c pid|c|c|c]; cbn; try discriminate.
  - destruct (lookup (procs s) c) as [p|]; cbn; discriminate.
  - destruct (lookup (procs s) c) as [p|]; cbn; [|discriminate].
    destruct (lookup (byq s) pid); cbn; [discriminate|]. intros [= <-]. repeat split; auto.
    rewrite lookup_upd, N.eqb_refl. eauto.
  - destruct (lookup (procs s) c) as [p|]; cbn; [|discriminate].
    destruct (N.eqb (p_qpid p) pid); cbn; [|discriminate]. destruct (p_kill p); cbn; discriminate.
  - destruct (lookup (procs s) c) as [p|]; cbn; [|discriminate].
    destruct (p_kill p); cbn; [discriminate|]. intros [= <-]. repeat split; auto.
    rewrite lookup_upd, N.eqb_refl. eauto.
  - destruct (lookup (procs s) c) as [p|]; cbn; [|discriminate]. destruct (p_kill p); cbn; discriminate.
  - destruct (lookup (procs s) c) as [p|]; cbn; discriminate.
Qed.

(* a context handed out by BeginQuery / BeginOperation is new, registered as the connection's cancel
   target, and not cancelled — whatever happened before (kills included) *)
Theorem new_context_is_fresh_and_live es e k :
  let s := run init es in
  snd (step s e) = OCtx k ->
  ~ In k (cancelled (fst (step s e))) /\
  (forall k0, In k0 (cancelled (fst (step s e))) -> k0 < k) /\
  exists p, lookup (procs (fst (step s e))) (conn_of e) = Some p /\ p_kill p = Some k.
Proof.
  intros s Ho. destruct (octx_next _ _ _ Ho) as (Hk & Hn & Hc & Hp).
  pose proof (ginv_run es) as G. fold s in G. rewrite Hc. repeat split; auto.
  - intros Hin. apply (g_canc_lt _ G) in Hin. lia.
  - intros k0 Hin. apply (g_canc_lt _ G) in Hin. lia.
Qed.

Theorem contexts_never_reused es1 e1 es2 e2 k1 k2 :
  snd (step (run init es1) e1) = OCtx k1 ->
  snd (step (run init (es1 ++ e1 :: es2)) e2) = OCtx k2 ->
  k1 < k2.
Proof.
  intros H1 H2. destruct (octx_next _ _ _ H1) as (E1 & N1 & _). destruct (octx_next _ _ _ H2) as (E2 & _).
  replace (es1 ++ e1 :: es2) with ((es1 ++ [e1]) ++ es2) in E2 by (rewrite <- app_assoc; reflexivity).
  rewrite run_app, run_snoc in E2.
  pose proof (next_run_mono (fst (step (run init es1) e1)) es2). lia.
Qed.

(* --- facts about ill-formed API histories (outside the call discipline): a BeginQuery that returns an error
   has already incremented Threads_running --- *)
Definition running_shown (s : state) : Z := Z.of_nat (length (filter is_query (processes s))).

Lemma failed_begin_unregistered_outside_discipline :
  exists es, snd (step (run init es) (EBeginQ 2 7 1)) = OErrNotRegistered /\
             tr (run init (es ++ [EBeginQ 2 7 1])) <> running_shown (run init (es ++ [EBeginQ 2 7 1])).
Proof. exists [EAddInc 1; EAddIns 1 5]. split; [reflexivity|]. vm_compute. discriminate. Qed.

Lemma failed_begin_pid_in_use_outside_discipline :
  exists es, well_formed es /\ snd (step (run init es) (EBeginQ 2 7 1)) = OErrPidUsed /\
             tr (run init (es ++ [EBeginQ 2 7 1])) <> running_shown (run init (es ++ [EBeginQ 2 7 1])).
Proof.
  exists [EAddInc 1; EAddIns 1 5; EAddInc 2; EAddIns 2 5; EBeginQ 1 7 1].
  split; [eexists; vm_compute; reflexivity|]. split; [reflexivity|]. vm_compute. discriminate.
Qed.

Definition demo : list event :=
  [EAddInc 1; EAddInc 2; EAddIns 2 9; EAddIns 1 9; EReady 1 9 3 4; EBeginQ 1 7 1; EKill 1; EBeginOp 2;
   EReady 2 9 3 4; EEndQ 1 7; EEndOp 2; EEndQ 1 7; EBeginQ 1 8 2; EKill 5; ERemove 2].

Lemma demo_facts :
  well_formed demo /\
  processes (run init demo) = [mkProc 1 CQuery 9 3 4 2 8 (Some 2)] /\
  tc (run init demo) = 1%Z /\ tr (run init demo) = 1%Z /\
  cancelled (run init demo) = [0].
Proof. split; [eexists; vm_compute; reflexivity|]. vm_compute. repeat split. Qed.
