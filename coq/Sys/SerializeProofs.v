(* Proofs about persisting and reloading (C41). *)
From Coq Require Import List NArith Bool Lia.
Import ListNotations.
From GMS Require Import Sys.Privs Sys.PrivsProofs Sys.Serialize.
Open Scope N_scope.

(* ---- rebuilding a map from a vector of named values ---- *)
Section Rebuild.
  Context {V W : Type}.
  Variable nm : V -> str.
  Variable F : V -> W.

  Definition step (acc : list (str * W)) (v : V) := aput (nm v) (F v) acc.
  Definition pick (k : str) (r : option W) (v : V) : option W := if seqb k (nm v) then Some (F v) else r.

  Lemma rebuild_get l : forall acc k, aget k (fold_left step l acc) = fold_left (pick k) l (aget k acc).
  Proof.
    induction l as [|v l IH]; intros acc k; [reflexivity|].
    cbn [fold_left]. rewrite IH. unfold step. rewrite aget_aput. reflexivity.
  Qed.

  Lemma pick_no_match k l : forall r, (forall v, In v l -> seqb k (nm v) = false) -> fold_left (pick k) l r = r.
  Proof.
    induction l as [|v l IH]; intros r Hn; [reflexivity|].
    cbn [fold_left]. unfold pick at 2. rewrite (Hn v (or_introl eq_refl)). apply IH.
    intros w Hw. apply Hn. right. exact Hw.
  Qed.

  (* a live map whose keys are unique and equal to the stored names, filtered by P and rebuilt from the values *)
  Lemma rebuild_filtered (P : V -> bool) (m : list (str * V)) k :
    keys_unique m = true -> (forall kv, In kv m -> fst kv = nm (snd kv)) ->
    aget k (fold_left step (map snd (filter (fun kv => P (snd kv)) m)) []) =
      match aget k m with Some v => if P v then Some (F v) else None | None => None end.
  Proof.
    intros Hu Hk. rewrite rebuild_get. cbn [aget].
    induction m as [|[k0 v0] m IH]; [reflexivity|].
    cbn [keys_unique] in Hu. apply andb_prop in Hu. destruct Hu as [Hn Hu].
    assert (Hk0 : k0 = nm v0) by exact (Hk (k0, v0) (or_introl eq_refl)).
    assert (Hk' : forall kv, In kv m -> fst kv = nm (snd kv)) by (intros kv Hi; apply Hk; right; exact Hi).
    specialize (IH Hu Hk').
    cbn [filter snd aget]. destruct (seqb k k0) eqn:E.
    - apply seqb_eq in E. subst k.
      assert (Hno : forall v, In v (map snd (filter (fun kv => P (snd kv)) m)) -> seqb k0 (nm v) = false).
      { intros v Hv. apply in_map_iff in Hv. destruct Hv as [[k1 v1] [<- Hf]]. apply filter_In in Hf.
        destruct Hf as [Hi _]. pose proof (Hk' (k1, v1) Hi) as Hq. cbn [fst snd] in Hq |- *. rewrite <- Hq.
        apply negb_true_iff in Hn. destruct (seqb k0 k1) eqn:E1; [|reflexivity].
        exfalso. assert (X : existsb (fun kv => seqb k0 (fst kv)) m = true).
        { apply existsb_exists. exists (k1, v1). split; [exact Hi|exact E1]. }
        rewrite X in Hn. discriminate. }
      destruct (P v0).
      + cbn [map fold_left snd].
        replace (pick k0 None v0) with (Some (F v0)) by (unfold pick; rewrite <- Hk0, seqb_refl; reflexivity).
        apply pick_no_match. exact Hno.
      + apply pick_no_match. exact Hno.
    - destruct (P v0).
      + cbn [map fold_left snd].
        replace (pick k None v0) with (@None W) by (unfold pick; rewrite <- Hk0, E; reflexivity).
        exact IH.
      + exact IH.
  Qed.
End Rebuild.

Lemma lower_c_idem c : lower_c (lower_c c) = lower_c c.
Proof.
  unfold lower_c. destruct ((65 <=? c) && (c <=? 90)) eqn:E.
  - apply andb_prop in E. destruct E as [A B]. apply N.leb_le in A, B.
    destruct ((65 <=? c + 32) && (c + 32 <=? 90)) eqn:F; [|reflexivity].
    apply andb_prop in F. destruct F as [_ F]. apply N.leb_le in F. lia.
  - rewrite E. reflexivity.
Qed.
Lemma lower_idem s : lower (lower s) = lower s.
Proof. unfold lower. rewrite map_map. apply map_ext. exact lower_c_idem. Qed.

(* ---- the reloaded privilege set, database level ---- *)
Lemma load_ser_dbs_get ps k :
  ps_wf ps = true -> ps_lc ps = true ->
  aget k (ps_dbs (load_ps (ser_ps ps))) =
    match aget k (ps_dbs ps) with Some e => if db_has_privs e then Some (load_db (ser_db e)) else None | None => None end.
Proof.
  intros Hw Hl. unfold load_ps, ser_ps. cbn [pss_dbs ps_dbs].
  rewrite <- (map_map snd ser_db).
  assert (R : forall l acc, fold_left (fun acc d => aput (ds_name d) (load_db d) acc) (map ser_db l) acc =
                            fold_left (step db_name (fun e => load_db (ser_db e))) l acc).
  { induction l as [|e l IH]; intros acc; [reflexivity|]. cbn [map fold_left]. rewrite IH. reflexivity. }
  rewrite R. apply rebuild_filtered.
  - unfold ps_wf, dbs_wf in Hw. apply andb_prop in Hw. exact (proj1 Hw).
  - intros [k0 e] Hi. cbn [fst snd].
    unfold ps_wf, dbs_wf in Hw. apply andb_prop in Hw. destruct Hw as [_ Hw].
    pose proof (proj1 (forallb_forall _ _) Hw _ Hi) as A. cbn [fst snd] in A. apply andb_prop in A. destruct A as [A _].
    unfold ps_lc in Hl. pose proof (proj1 (forallb_forall _ _) Hl _ Hi) as B. cbn [snd] in B.
    apply andb_prop in B. destruct B as [B _]. apply seqb_eq in A, B. congruence.
Qed.

Theorem reload_preserves_global ps p : e_has_g (load_ps (ser_ps ps)) p = e_has_g ps p.
Proof. reflexivity. Qed.

Theorem reload_preserves_database_guarded ps d p :
  ps_wf ps = true -> ps_lc ps = true -> e_has_d (load_ps (ser_ps ps)) d p = e_has_d ps d p.
Proof.
  intros Hw Hl. unfold e_has_d. rewrite (load_ser_dbs_get ps (lower d) Hw Hl).
  destruct (aget (lower d) (ps_dbs ps)) as [e|]; [|reflexivity].
  destruct (db_has_privs e) eqn:Hp; [reflexivity|].
  unfold db_has_privs in Hp. apply orb_false_iff in Hp. destruct Hp as [Hp _].
  apply negb_false_iff in Hp. destruct (db_privs e); [reflexivity|discriminate].
Qed.

(* ---- the unguarded statements are false ---- *)
Theorem reload_preserves_database_refuted :
  exists ps d p, ps_wf ps = true /\ e_has_d ps d p = true /\ e_has_d (load_ps (ser_ps ps)) d p = false.
Proof.
  exists (mkPS [] [([100;98], mkDB [68;98] [0] [])]), [68;98], 0. vm_compute. auto.
Qed.

Theorem reload_preserves_table_refuted :
  exists ps d t p, ps_wf ps = true /\ e_has_t ps d t p = true /\ e_has_t (load_ps (ser_ps ps)) d t p = false.
Proof.
  exists (mkPS [] [([100;98], mkDB [100;98] [] [([116], mkT [84] [0])])]), [100;98], [84], 0. vm_compute. auto.
Qed.

(* the lower-cased-key witness: an account holding a privilege on database "Db" (live key "db") *)
Theorem reload_identity_refuted : exists m, reload m <> m.
Proof.
  exists (mkM [mkU [117] [37] [] [] false None (mkPS [] [([100;98], mkDB [68;98] [0] [])])] []).
  vm_compute. discriminate.
Qed.

(* account attributes other than the privilege maps survive *)
Theorem reload_preserves_account_fields m :
  map (fun u => (us_name u, us_host u, us_plugin u, us_auth u, us_locked u, us_attrs u)) (m_users (reload m)) =
  map (fun u => (us_name u, us_host u, us_plugin u, us_auth u, us_locked u, us_attrs u)) (m_users m).
Proof.
  unfold reload, load, serialize. cbn [m_users ms_users]. rewrite !map_map. apply map_ext. intros u. reflexivity.
Qed.

(* role edges survive a reload, WITH ADMIN OPTION included, for every state *)
Theorem reload_preserves_edges m : m_edges (reload m) = m_edges m.
Proof.
  unfold reload, load, serialize. cbn [m_edges ms_edges]. rewrite map_map.
  induction (m_edges m) as [|e es IH]; [reflexivity|]. cbn [map]. rewrite IH. f_equal.
  destruct e; reflexivity.
Qed.
